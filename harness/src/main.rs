//! Executor for the correspondence checks: reads cases (JSON), performs the calls on the real
//! `cfr` API under `catch_unwind`, writes every observable result (JSON).  It decides nothing.
//!
//! usage: cfr-verif-harness <cases.json> <out.json>
use cfr::verif;
use cfr::{Game, GameError, GameNode, IntoGameNode, PlayerNum, RegretParams, SolveError, SolveMethod, Strategies};
use serde_json::{json, Value};
use std::panic::{catch_unwind, AssertUnwindSafe};
use std::sync::Arc;

#[derive(Clone)]
enum Tree {
    Term(f64),
    Chance(Option<u64>, Vec<(f64, Tree)>),
    Player(bool, u64, Vec<(u64, Tree)>),
}

/// How the children of a node are handed to `Game::from_root`: always the same items in the same order, but through an
/// iterator whose `size_hint` is, per case, exact (0), uninformative `(0, None)` (1), a bare lower bound of one
/// `(min(1, n), None)` (2) or a loose upper bound `(0, Some(n + 5))` (3) -- all legal for an `Iterator`.
static ITER_STYLE: std::sync::atomic::AtomicUsize = std::sync::atomic::AtomicUsize::new(0);

struct Lazy<T> {
    inner: std::vec::IntoIter<T>,
}

impl<T> Iterator for Lazy<T> {
    type Item = T;
    fn next(&mut self) -> Option<T> {
        self.inner.next()
    }
    fn size_hint(&self) -> (usize, Option<usize>) {
        let n = self.inner.len();
        match ITER_STYLE.load(std::sync::atomic::Ordering::Relaxed) {
            1 => (0, None),
            2 => (n.min(1), None),
            3 => (0, Some(n + 5)),
            _ => (n, Some(n)),
        }
    }
}

impl IntoGameNode for Tree {
    type PlayerInfo = u64;
    type Action = u64;
    type ChanceInfo = u64;
    type Outcomes = Lazy<(f64, Tree)>;
    type Actions = Lazy<(u64, Tree)>;

    fn into_game_node(self) -> GameNode<Self> {
        match self {
            Tree::Term(x) => GameNode::Terminal(x),
            Tree::Chance(info, outs) => GameNode::Chance(info, Lazy { inner: outs.into_iter() }),
            Tree::Player(one, info, acts) => GameNode::Player(
                if one { PlayerNum::One } else { PlayerNum::Two },
                info,
                Lazy { inner: acts.into_iter() },
            ),
        }
    }
}

fn f(v: &Value) -> f64 {
    f64::from_bits(v.as_u64().expect("float bits"))
}

fn b(x: f64) -> Value {
    json!(x.to_bits())
}

fn parse_tree(v: &Value) -> Tree {
    if let Some(t) = v.get("t") {
        Tree::Term(f(t))
    } else if let Some(o) = v.get("o") {
        let info = v.get("c").and_then(|c| c.as_u64());
        Tree::Chance(
            info,
            o.as_array()
                .unwrap()
                .iter()
                .map(|e| (f(&e[0]), parse_tree(&e[1])))
                .collect(),
        )
    } else {
        let one = v["p"].as_u64().unwrap() == 1;
        Tree::Player(
            one,
            v["i"].as_u64().unwrap(),
            v["a"]
                .as_array()
                .unwrap()
                .iter()
                .map(|e| (e[0].as_u64().unwrap(), parse_tree(&e[1])))
                .collect(),
        )
    }
}

fn game_err(e: GameError) -> &'static str {
    match e {
        GameError::EmptyChance => "EmptyChance",
        GameError::NonPositiveChance => "NonPositiveChance",
        GameError::ProbabilitiesNotEqual => "ProbabilitiesNotEqual",
        GameError::ImperfectRecall => "ImperfectRecall",
        GameError::EmptyPlayer => "EmptyPlayer",
        GameError::ActionsNotEqual => "ActionsNotEqual",
        GameError::ActionsNotUnique => "ActionsNotUnique",
        GameError::NonFinitePayoff => "NonFinitePayoff",
        _ => "Other",
    }
}

fn panic_msg(e: Box<dyn std::any::Any + Send>) -> String {
    if let Some(s) = e.downcast_ref::<&str>() {
        s.to_string()
    } else if let Some(s) = e.downcast_ref::<String>() {
        s.clone()
    } else {
        "unknown panic".to_string()
    }
}

fn parse_params(v: &Value) -> Result<Option<RegretParams>, String> {
    if v.is_null() {
        Ok(None)
    } else if let Some(name) = v.as_str() {
        Ok(Some(match name {
            "vanilla" => RegretParams::vanilla(),
            "lcfr" => RegretParams::lcfr(),
            "cfr_plus" => RegretParams::cfr_plus(),
            "dcfr" => RegretParams::dcfr(),
            "dcfr_prune" => RegretParams::dcfr_prune(),
            "default" => RegretParams::default(),
            _ => panic!("unknown preset"),
        }))
    } else {
        let a = v.as_array().unwrap();
        let (p, n, s, w) = (f(&a[0]), f(&a[1]), f(&a[2]), f(&a[3]));
        catch_unwind(|| RegretParams::new(p, n, s, w))
            .map(Some)
            .map_err(panic_msg)
    }
}

type NamedIn = Vec<(u64, Vec<(u64, f64)>)>;

fn parse_named(v: &Value) -> [NamedIn; 2] {
    let one = |p: &Value| -> NamedIn {
        p.as_array()
            .unwrap()
            .iter()
            .map(|e| {
                (
                    e[0].as_u64().unwrap(),
                    e[1].as_array()
                        .unwrap()
                        .iter()
                        .map(|ap| (ap[0].as_u64().unwrap(), f(&ap[1])))
                        .collect(),
                )
            })
            .collect()
    };
    [one(&v[0]), one(&v[1])]
}

/// as_named with every advertised length: per player a list of
/// [outer_len_before_next, name, [inner_len_before_each_next...], [[action, prob]...]]
fn named_out(strat: &Strategies<'_, u64, u64>) -> Value {
    let mut players = Vec::new();
    for mut it in strat.as_named() {
        let mut items = Vec::new();
        let mut final_len;
        loop {
            let outer_len = it.len();
            final_len = outer_len;
            match it.next() {
                None => break,
                Some((name, mut acts)) => {
                    let mut lens = Vec::new();
                    let mut pairs = Vec::new();
                    loop {
                        lens.push(json!(acts.len()));
                        match acts.next() {
                            None => break,
                            Some((a, p)) => pairs.push(json!([a, b(p)])),
                        }
                    }
                    items.push(json!([outer_len, name, lens, pairs]));
                }
            }
        }
        // fused: asking again still gives None and length 0
        let again = it.next().is_none();
        players.push(json!({"items": items, "final_len": final_len, "fused": again}));
    }
    // the same listing through the other ways of driving an iterator (nth / skip / step_by / last / count, which a type
    // may override): each must agree with plain next() on a fresh view
    let alt = named_alt(strat);
    for (pl, a) in alt.into_iter().enumerate() {
        players[pl]["alt"] = match a {
            None => Value::Null,
            Some(msg) => json!(msg),
        };
    }
    json!(players)
}

fn named_alt(strat: &Strategies<'_, u64, u64>) -> Vec<Option<String>> {
    let mut out = Vec::new();
    for pl in 0..2usize {
        let fresh = || {
            let [a, b] = strat.as_named();
            if pl == 0 {
                a
            } else {
                b
            }
        };
        let names: Vec<u64> = fresh().map(|(n, _)| *n).collect();
        let n = names.len();
        let mut bad: Option<String> = None;
        for k in 0..=n {
            let got = fresh().nth(k).map(|(nm, _)| *nm);
            let want = names.get(k).copied();
            if got != want && bad.is_none() {
                bad = Some(format!("nth({}) gives infoset {:?} but the {}-th item of plain iteration is {:?}", k, got, k, want));
            }
            let sk = fresh().skip(k);
            let adv = sk.len();
            let cnt = sk.count();
            if (adv != n - k || cnt != n - k) && bad.is_none() {
                bad = Some(format!("skip({}) advertises {} and yields {} of the remaining {} infosets", k, adv, cnt, n - k));
            }
        }
        let stepped: Vec<u64> = fresh().step_by(2).map(|(nm, _)| *nm).collect();
        let want_step: Vec<u64> = names.iter().copied().step_by(2).collect();
        if stepped != want_step && bad.is_none() {
            bad = Some(format!("step_by(2) yields {:?}, plain iteration gives {:?}", stepped, want_step));
        }
        let last = fresh().last().map(|(nm, _)| *nm);
        if last != names.last().copied() && bad.is_none() {
            bad = Some(format!("last() gives {:?}, plain iteration ends with {:?}", last, names.last()));
        }
        if fresh().count() != n && bad.is_none() {
            bad = Some(format!("count() is not {}", n));
        }
        // the action iterators
        for idx in 0..n {
            let acts: Vec<(u64, f64)> = match fresh().nth(idx) {
                Some((_, a)) => a.map(|(x, p)| (*x, p)).collect(),
                None => continue,
            };
            let m = acts.len();
            for k in 0..=m {
                if let Some((_, a)) = fresh().nth(idx) {
                    let got = { let mut a2 = a; a2.nth(k).map(|(x, p)| (*x, p)) };
                    if got != acts.get(k).copied() && bad.is_none() {
                        bad = Some(format!("infoset {}: action nth({}) gives {:?}, plain iteration {:?}", names[idx], k, got, acts.get(k)));
                    }
                }
                if let Some((_, a)) = fresh().nth(idx) {
                    let sk = a.skip(k);
                    let adv = sk.len();
                    let cnt = sk.count();
                    if (adv != m - k || cnt != m - k) && bad.is_none() {
                        bad = Some(format!("infoset {}: action skip({}) advertises {} and yields {} of {}", names[idx], k, adv, cnt, m - k));
                    }
                }
            }
            if let Some((_, a)) = fresh().nth(idx) {
                let l = a.last().map(|(x, p)| (*x, p));
                if l != acts.last().copied() && bad.is_none() {
                    bad = Some(format!("infoset {}: action last() gives {:?}", names[idx], l));
                }
            }
        }
        out.push(bad);
    }
    out
}

fn strat_err(e: cfr::StratError) -> &'static str {
    match e {
        cfr::StratError::InvalidInfoset => "InvalidInfoset",
        cfr::StratError::InvalidAction => "InvalidAction",
        cfr::StratError::InvalidProbability => "InvalidProbability",
        cfr::StratError::UninitializedInfoset => "UninitializedInfoset",
        _ => "Other",
    }
}

fn install_draws(v: &Value) {
    if v.is_null() {
        verif::set_sampler(None);
        return;
    }
    let tab = |k: &str| -> Vec<Vec<u64>> {
        v[k].as_array()
            .map(|rows| {
                rows.iter()
                    .map(|r| r.as_array().unwrap().iter().map(|x| x.as_u64().unwrap()).collect())
                    .collect()
            })
            .unwrap_or_default()
    };
    if let Some(seed) = v.get("weighted_seed").and_then(|x| x.as_u64()) {
        // seeded, replayable sampling that honours the presented weights
        verif::set_sampler(Some(Box::new(move |kind, id, pass, weights| {
            let k = if kind == verif::Kind::Chance { 0u64 } else { 1u64 };
            let mut x = seed
                ^ k.wrapping_mul(0xA24B_AED4_963E_E407)
                ^ (id as u64).wrapping_mul(0x9FB2_1C65_1E98_DF25)
                ^ pass.wrapping_mul(0x9E37_79B9_7F4A_7C15);
            for _ in 0..3 {
                x ^= x >> 32;
                x = x.wrapping_mul(0xD6E8_FEB8_6659_FD93);
            }
            x ^= x >> 32;
            let u = (x >> 11) as f64 / (1u64 << 53) as f64;
            let total: f64 = weights.iter().sum();
            let mut acc = 0.0;
            for (i, w) in weights.iter().enumerate() {
                acc += w / total;
                if u < acc {
                    return Some(i);
                }
            }
            Some(weights.len() - 1)
        })));
        return;
    }
    let chance = Arc::new(tab("chance"));
    let player = Arc::new(tab("player"));
    verif::set_sampler(Some(Box::new(move |kind, id, pass, weights| {
        let t = match kind {
            verif::Kind::Chance => &chance,
            verif::Kind::Player => &player,
        };
        let row = t.get(id)?;
        if row.is_empty() {
            return None;
        }
        let v = row[(pass as usize) % row.len()];
        Some((v as usize) % weights.len())
    })));
}

fn events_out(evs: Vec<verif::Event>) -> Value {
    json!(evs
        .into_iter()
        .map(|e| json!([
            if e.kind == verif::Kind::Chance { 0 } else { 1 },
            e.id,
            e.pass,
            e.weights.iter().map(|w| b(*w)).collect::<Vec<_>>(),
            e.result,
            e.overridden
        ]))
        .collect::<Vec<_>>())
}

fn run_sweep(sw: &Value) -> Value {
    let empty = Vec::new();
    let mut trees: Vec<_> = sw["trees"].as_array().unwrap_or(&empty).iter().map(parse_tree).collect();
    trees.reverse();
    let method = match sw["method"].as_str().unwrap_or("sampled") {
        "full" => SolveMethod::Full,
        "sampled" => SolveMethod::Sampled,
        _ => SolveMethod::External,
    };
    let iters = sw["iters"].as_u64().unwrap_or(1000);
    let threads = sw["threads"].as_u64().unwrap_or(1) as usize;
    let params = match parse_params(&sw["params"]) {
        Ok(p) => p,
        Err(m) => return json!({"from_root": {"ok": true}, "ops": [{"params_panic": m}]}),
    };
    verif::reset_ids();
    install_draws(&Value::Null);
    let mut res: Vec<[u64; 4]> = Vec::with_capacity(trees.len());
    while let Some(tree) = trees.pop() {
        let r = catch_unwind(AssertUnwindSafe(|| {
            let game: Game<u64, u64> = Game::from_root(tree).ok()?;
            let (strats, _bounds) = game.solve(method, iters, 0.0, threads, params.clone()).ok()?;
            let i = strats.get_info();
            Some([i.player_utility(PlayerNum::One).to_bits(), i.player_regret(PlayerNum::One).to_bits(),
                  i.player_regret(PlayerNum::Two).to_bits(), i.regret().to_bits()])
        }));
        res.push(match r {
            Ok(Some(x)) => x,
            _ => [0x7ff8000000000000u64; 4],
        });
    }
    json!({"from_root": {"ok": true}, "ops": [{"ok": res.iter().map(|x| x.to_vec()).collect::<Vec<_>>()}]})
}

fn run_case(case: &Value) -> Value {
    // "sweep": the parameter sweep of a user program -- build a game, solve it with the production samplers, evaluate the
    // returned profile, drop everything, go on to the next game; nothing else is allocated in between.  Whatever one
    // solve leaves behind in the process must not influence the next.
    if let Some(sw) = case.get("sweep") {
        if sw.is_object() {
            return run_sweep(sw);
        }
    }
    ITER_STYLE.store(case["iter_style"].as_u64().unwrap_or(0) as usize, std::sync::atomic::Ordering::Relaxed);
    let tree = parse_tree(&case["tree"]);
    let built = catch_unwind(AssertUnwindSafe(|| Game::from_root(tree.clone())));
    let game = match built {
        Err(e) => return json!({"from_root": {"panic": panic_msg(e)}}),
        Ok(Err(e)) => return json!({"from_root": {"err": game_err(e)}}),
        Ok(Ok(g)) => g,
    };
    // a second game from the same tree (for the different-games panic of distance)
    let other_game = Game::from_root(tree.clone()).ok();
    let outs = run_ops(&game, other_game.as_ref(), case);
    json!({"from_root": {"ok": true}, "ops": outs})
}

type Strat<'g> = Strategies<'g, u64, u64>;

fn set<'g>(slots: &mut Vec<Option<Strat<'g>>>, k: usize, s: Option<Strat<'g>>) {
    while slots.len() <= k {
        slots.push(None);
    }
    slots[k] = s;
}

fn run_ops<'g>(game: &'g Game<u64, u64>, other_game: Option<&'g Game<u64, u64>>, case: &Value) -> Vec<Value> {
    let mut outs: Vec<Value> = Vec::new();
    let mut slots: Vec<Option<Strat<'g>>> = Vec::new();
    let mut other_slot: Option<Strat<'g>> = None;
    let empty = Vec::new();
    for op in case["ops"].as_array().unwrap_or(&empty) {
        let name = op["op"].as_str().unwrap();
        let out = match name {
            "num_infosets" => json!(game.num_infosets()),
            "noop" => json!({"skip": true}),
            "solve" => {
                let method = match op["method"].as_str().unwrap() {
                    "full" => SolveMethod::Full,
                    "sampled" => SolveMethod::Sampled,
                    _ => SolveMethod::External,
                };
                let iters = op["iters"].as_u64().unwrap();
                let max_reg = f(&op["max_reg"]);
                let threads = op["threads"].as_u64().unwrap() as usize;
                let dst = op["dst"].as_u64().unwrap() as usize;
                match parse_params(&op["params"]) {
                    Err(msg) => {
                        set(&mut slots, dst, None);
                        json!({"params_panic": msg})
                    }
                    Ok(params) => {
                        verif::reset_ids();
                        install_draws(&op["draws"]);
                        verif::set_yield_seed(op["yield_seed"].as_u64().unwrap_or(0));
                        let record = op["record"].as_bool().unwrap_or(false);
                        if record {
                            verif::set_recording(true);
                        }
                        let res = catch_unwind(AssertUnwindSafe(|| {
                            game.solve(method, iters, max_reg, threads, params)
                        }));
                        let events = if record { Some(verif::set_recording(false)) } else { None };
                        verif::set_sampler(None);
                        verif::set_yield_seed(0);
                        let mut o = match res {
                            Err(e) => {
                                set(&mut slots, dst, None);
                                json!({"panic": panic_msg(e)})
                            }
                            Ok(Err(SolveError::ThreadOverflow)) => {
                                set(&mut slots, dst, None);
                                json!({"err": "ThreadOverflow"})
                            }
                            Ok(Err(_)) => {
                                set(&mut slots, dst, None);
                                json!({"err": "ThreadSpawnError"})
                            }
                            Ok(Ok((strat, bound))) => {
                                set(&mut slots, dst, Some(strat));
                                json!({"ok": [b(bound.player_regret_bound(PlayerNum::One)),
                                              b(bound.player_regret_bound(PlayerNum::Two)),
                                              b(bound.regret_bound())]})
                            }
                        };
                        if let Some(evs) = events {
                            o["events"] = events_out(evs);
                        }
                        o
                    }
                }
            }
            "solve_pair" => {
                // the same unsampled solve issued from two user threads at the same time on one Game (no hook state
                // involved): results must not depend on what else the process is doing
                let iters = op["iters"].as_u64().unwrap();
                let max_reg = f(&op["max_reg"]);
                let threads = op["threads"].as_u64().unwrap() as usize;
                match parse_params(&op["params"]) {
                    Err(msg) => json!({"params_panic": msg}),
                    Ok(_) => {
                        verif::set_sampler(None);
                        verif::set_yield_seed(0);
                        let run_one = || -> Value {
                            let params = parse_params(&op["params"]).ok().flatten();
                            let res = catch_unwind(AssertUnwindSafe(|| game.solve(SolveMethod::Full, iters, max_reg, threads, params)));
                            match res {
                                Err(e) => json!({"panic": panic_msg(e)}),
                                Ok(Err(SolveError::ThreadOverflow)) => json!({"err": "ThreadOverflow"}),
                                Ok(Err(_)) => json!({"err": "ThreadSpawnError"}),
                                Ok(Ok((strat, bound))) => json!({"ok": {
                                    "bounds": [b(bound.player_regret_bound(PlayerNum::One)),
                                               b(bound.player_regret_bound(PlayerNum::Two)),
                                               b(bound.regret_bound())],
                                    "named": named_out(&strat)}}),
                            }
                        };
                        let (r1, r2) = std::thread::scope(|sc| {
                            let h1 = sc.spawn(run_one);
                            let h2 = sc.spawn(run_one);
                            (h1.join(), h2.join())
                        });
                        let unwrap = |r: std::thread::Result<Value>| r.unwrap_or_else(|e| json!({"panic": panic_msg(e)}));
                        json!({"ok": [unwrap(r1), unwrap(r2)]})
                    }
                }
            }
            "import" | "import_other" => {
                let named = parse_named(&op["strat"]);
                let fast = op["fast"].as_bool().unwrap();
                let g: &'g Game<u64, u64> = if name == "import" { game } else { other_game.unwrap() };
                let res = catch_unwind(AssertUnwindSafe(|| {
                    if fast {
                        g.from_named(named.clone())
                    } else {
                        g.from_named_eq(named.clone())
                    }
                }));
                let (o, s) = match res {
                    Err(e) => (json!({"panic": panic_msg(e)}), None),
                    Ok(Err(e)) => (json!({"err": strat_err(e)}), None),
                    Ok(Ok(s)) => (json!({"ok": true}), Some(s)),
                };
                if name == "import" {
                    set(&mut slots, op["dst"].as_u64().unwrap() as usize, s);
                } else {
                    other_slot = s;
                }
                o
            }
            "truncate" => {
                let src = op["src"].as_u64().unwrap() as usize;
                let dst = op["dst"].as_u64().unwrap() as usize;
                // "inplace": the object in the source slot itself is truncated and moved (no clone in between)
                let taken = if op["inplace"].as_bool().unwrap_or(false) {
                    slots.get_mut(src).and_then(|s| s.take())
                } else {
                    slots.get(src).cloned().flatten()
                };
                match taken {
                    None => json!({"skip": true}),
                    Some(mut s) => {
                        let th = f(&op["thresh"]);
                        match catch_unwind(AssertUnwindSafe(|| {
                            s.truncate(th);
                            s
                        })) {
                            Err(e) => json!({"panic": panic_msg(e)}),
                            Ok(s) => {
                                set(&mut slots, dst, Some(s));
                                json!({"ok": true})
                            }
                        }
                    }
                }
            }
            "roundtrip" => {
                let src = op["src"].as_u64().unwrap() as usize;
                let dst = op["dst"].as_u64().unwrap() as usize;
                let fast = op["fast"].as_bool().unwrap();
                match slots.get(src).cloned().flatten() {
                    None => json!({"skip": true}),
                    Some(s) => {
                        // collect the named view into owned data first
                        let owned: Vec<Vec<(u64, Vec<(u64, f64)>)>> = s
                            .as_named()
                            .into_iter()
                            .map(|it| it.map(|(n, acts)| (*n, acts.map(|(a, p)| (*a, p)).collect())).collect())
                            .collect();
                        let arr: [NamedIn; 2] = [owned[0].clone(), owned[1].clone()];
                        let res = catch_unwind(AssertUnwindSafe(|| {
                            if fast { game.from_named(arr.clone()) } else { game.from_named_eq(arr.clone()) }
                        }));
                        match res {
                            Err(e) => json!({"panic": panic_msg(e)}),
                            Ok(Err(e)) => json!({"err": strat_err(e)}),
                            Ok(Ok(r)) => {
                                let same = r == s;
                                set(&mut slots, dst, Some(r));
                                json!({"ok": true, "eq": same})
                            }
                        }
                    }
                }
            }
            "info" => {
                let src = op["src"].as_u64().unwrap() as usize;
                match slots.get(src).and_then(|s| s.as_ref()) {
                    None => json!({"skip": true}),
                    Some(s) => match catch_unwind(AssertUnwindSafe(|| s.get_info())) {
                        Err(e) => json!({"panic": panic_msg(e)}),
                        Ok(i) => json!({"ok": [
                            b(i.player_utility(PlayerNum::One)),
                            b(i.player_regret(PlayerNum::One)),
                            b(i.player_regret(PlayerNum::Two)),
                            b(i.regret()),
                            b(i.player_utility(PlayerNum::Two))]}),
                    },
                }
            }
            "named" => {
                let src = op["src"].as_u64().unwrap() as usize;
                match slots.get(src).and_then(|s| s.as_ref()) {
                    None => json!({"skip": true}),
                    Some(s) => match catch_unwind(AssertUnwindSafe(|| named_out(s))) {
                        Err(e) => json!({"panic": panic_msg(e)}),
                        Ok(v) => json!({"ok": v}),
                    },
                }
            }
            "distance" => {
                let a = op["a"].as_u64().unwrap() as usize;
                let p = f(&op["p"]);
                let sa = slots.get(a).and_then(|s| s.as_ref());
                let sb = if op["b"].is_null() {
                    other_slot.as_ref()
                } else {
                    slots.get(op["b"].as_u64().unwrap() as usize).and_then(|s| s.as_ref())
                };
                match (sa, sb) {
                    (Some(sa), Some(sb)) => match catch_unwind(AssertUnwindSafe(|| sa.distance(sb, p))) {
                        Err(e) => json!({"panic": panic_msg(e)}),
                        Ok([d1, d2]) => json!({"ok": [b(d1), b(d2)]}),
                    },
                    _ => json!({"skip": true}),
                }
            }
            "eq" => {
                let a = op["a"].as_u64().unwrap() as usize;
                let bb = op["b"].as_u64().unwrap() as usize;
                match (slots.get(a).and_then(|s| s.as_ref()), slots.get(bb).and_then(|s| s.as_ref())) {
                    (Some(x), Some(y)) => json!({"ok": x == y}),
                    _ => json!({"skip": true}),
                }
            }
            "categorical" => {
                let probs: Vec<f64> = op["probs"].as_array().unwrap().iter().map(f).collect();
                let res: Vec<Value> = op["bits"]
                    .as_array()
                    .unwrap()
                    .iter()
                    .map(|x| {
                        let (i, u) = verif::categorical(&probs, x.as_u64().unwrap());
                        json!([i, b(u)])
                    })
                    .collect();
                json!({"ok": res})
            }
            "presets" => {
                let p = |r: RegretParams| json!([b(r.pos_regret), b(r.neg_regret), b(r.strat), b(r.no_positive)]);
                json!({"ok": [p(RegretParams::vanilla()), p(RegretParams::lcfr()), p(RegretParams::cfr_plus()),
                              p(RegretParams::dcfr()), p(RegretParams::dcfr_prune()), p(RegretParams::default())]})
            }
            _ => json!({"unknown_op": name}),
        };
        outs.push(out);
    }
    outs
}

fn main() {
    // run on a big stack: trees can be hundreds of levels deep (parsing, from_root and the solvers recurse)
    let child = std::thread::Builder::new()
        .stack_size(1 << 30)
        .spawn(real_main)
        .expect("spawn main thread");
    child.join().expect("main thread");
}

fn real_main() {
    let args: Vec<String> = std::env::args().collect();
    let text = std::fs::read_to_string(&args[1]).expect("read cases");
    // deep game trees nest far beyond serde_json's default recursion limit
    let cases: Value = {
        use serde::Deserialize;
        let mut de = serde_json::Deserializer::from_str(&text);
        de.disable_recursion_limit();
        Value::deserialize(&mut de).expect("parse cases")
    };
    // silence the default panic hook: panics are results here
    std::panic::set_hook(Box::new(|_| {}));
    let mut results = Vec::new();
    for case in cases.as_array().unwrap() {
        let r = match catch_unwind(AssertUnwindSafe(|| run_case(case))) {
            Ok(v) => v,
            Err(e) => json!({"harness_panic": panic_msg(e)}),
        };
        results.push(json!({"id": case["id"], "res": r}));
    }
    std::fs::write(&args[2], serde_json::to_string(&results).unwrap()).expect("write results");
}
