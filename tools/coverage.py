#!/usr/bin/env python3
"""tools/coverage.py [C01 C02 ...] : which lines of /repo/src does the correspondence of the quick tier execute?

Builds the executor with `-C instrument-coverage` (nightly toolchain: its llvm-profdata / llvm-cov match its LLVM),
runs the quick checks with that executor (evidence goes to .cache/dev-evidence, never to evidence/), merges the
profiles and prints per-file line coverage of the crate plus the uncovered line ranges.  A measurement that guides the
generators; it is not evidence for any property.  The shipped binary (CLI checks) is not instrumented: src/main.rs,
json.rs, gambit.rs, auto.rs are exercised as a separate process and do not appear here."""
import glob
import json
import os
import subprocess
import sys

VERIF = os.path.dirname(os.path.dirname(os.path.abspath(__file__)))
TOOLS = os.path.expanduser("~/.rustup/toolchains/nightly-x86_64-unknown-linux-gnu/lib/rustlib/x86_64-unknown-linux-gnu/bin")
TGT = os.path.join(VERIF, ".cache", "target-cov")
PROF = os.path.join(VERIF, ".cache", "cov-prof")


def main():
    pids = sys.argv[1:] or [c["property_id"] for c in json.load(open(os.path.join(VERIF, "MANIFEST.json")))["checks"]]
    os.makedirs(PROF, exist_ok=True)
    env = dict(os.environ, RUSTFLAGS="--cfg cfr_verif -C instrument-coverage", CARGO_TARGET_DIR=TGT, CARGO_NET_OFFLINE="true",
               LLVM_PROFILE_FILE=os.path.join(PROF, "build-%p.profraw.ignore"))   # build scripts are instrumented too: keep their profiles out of /repo
    subprocess.run(["cargo", "+nightly", "build", "--release", "--offline", "--quiet"], cwd=os.path.join(VERIF, "harness"),
                   env=env, check=True, capture_output=True)
    exe = os.path.join(TGT, "release", "cfr-verif-harness")
    os.makedirs(PROF, exist_ok=True)
    for f in glob.glob(os.path.join(PROF, "*.profraw")):
        os.remove(f)
    env2 = dict(os.environ, VERIF_HARNESS_EXE=exe, LLVM_PROFILE_FILE=os.path.join(PROF, "h-%p-%m.profraw"))
    for pid in pids:
        p = subprocess.run(["./check", pid, "--tier", "quick", "--no-proof"], cwd=VERIF, env=env2, capture_output=True, text=True)
        print(pid, "exit", p.returncode, flush=True)
    merged = os.path.join(PROF, "merged.profdata")
    subprocess.run([os.path.join(TOOLS, "llvm-profdata"), "merge", "-sparse", "-o", merged] + glob.glob(os.path.join(PROF, "*.profraw")), check=True)
    rep = subprocess.run([os.path.join(TOOLS, "llvm-cov"), "export", "-format=text", "-instr-profile", merged, exe],
                         capture_output=True, text=True, check=True).stdout
    data = json.loads(rep)["data"][0]
    out = {}
    for f in data["files"]:
        name = f["filename"]
        if not name.startswith("/repo/src/"):
            continue
        s = f["summary"]["lines"]
        # uncovered line ranges from segments
        unc = set()
        segs = f["segments"]
        for (l1, c1, cnt, has, entry, gap), nxt in zip(segs, segs[1:] + [None]):
            if has and cnt == 0 and not gap and nxt:
                for l in range(l1, nxt[0] + 1):
                    unc.add(l)
        cov = set()
        for (l1, c1, cnt, has, entry, gap), nxt in zip(segs, segs[1:] + [None]):
            if has and cnt > 0 and nxt:
                for l in range(l1, nxt[0] + 1):
                    cov.add(l)
        unc -= cov
        rng_, run = [], []
        for l in sorted(unc):
            if run and l == run[-1] + 1:
                run.append(l)
            else:
                if run:
                    rng_.append((run[0], run[-1]))
                run = [l]
        if run:
            rng_.append((run[0], run[-1]))
        out[name] = {"lines": s["count"], "covered": s["covered"], "percent": round(s["percent"], 1), "uncovered": rng_}
        print("%-28s %4d/%4d lines  %5.1f%%  uncovered: %s" % (name[len("/repo/"):], s["covered"], s["count"], s["percent"],
                                                                 ", ".join("%d-%d" % r if r[0] != r[1] else str(r[0]) for r in rng_)[:400]))
    json.dump(out, open(os.path.join(VERIF, ".cache", "coverage.json"), "w"), indent=1)


if __name__ == "__main__":
    main()
