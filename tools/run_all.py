#!/usr/bin/env python3
"""Run every claimed quick check on the current tree, validate evidence against the schema, print a table."""
import json, os, subprocess, sys, time
HERE = os.path.dirname(os.path.dirname(os.path.abspath(__file__)))
m = json.load(open(os.path.join(HERE, 'MANIFEST.json')))
rows = []
only = [a for a in sys.argv[1:] if a.startswith('C')]
for c in m['checks']:
    if only and c['property_id'] not in only:
        continue
    t0 = time.time()
    cmd = c['thorough_cmd'] if '--thorough' in sys.argv else c['quick_cmd']
    p = subprocess.run(cmd, shell=True, cwd=HERE, capture_output=True, text=True)
    lines = [l for l in p.stdout.splitlines() if l.startswith(('VIOLATION', 'KNOWN'))]
    ev = json.load(open(os.path.join(HERE, 'evidence', c['property_id'] + '.json')))
    cov = ev['coverage']
    rows.append((c['property_id'], p.returncode, round(time.time() - t0, 1), cov.get('obligations'), cov.get('discharged'),
                 cov.get('evaluations'), cov.get('distinct_nontrivial'), [l[:60] for l in lines]))
    print(rows[-1], flush=True)
try:
    import jsonschema
    s = json.load(open('/root/.vp/EVIDENCE.schema.json'))
    for c in m['checks']:
        jsonschema.validate(json.load(open(os.path.join(HERE, 'evidence', c['property_id'] + '.json'))), s)
    print('evidence valid')
except ImportError:
    print('jsonschema not available here (run with python3-vt)')
