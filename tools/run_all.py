#!/usr/bin/env python3
"""Run every claimed quick check on the current tree, validate evidence against the schema, print a table."""
import json, subprocess, sys, time
m = json.load(open('/verif/MANIFEST.json'))
rows = []
for c in m['checks']:
    t0 = time.time()
    cmd = c['thorough_cmd'] if '--thorough' in sys.argv else c['quick_cmd']
    p = subprocess.run(cmd, shell=True, cwd='/verif', capture_output=True, text=True)
    lines = [l for l in p.stdout.splitlines() if l.startswith(('VIOLATION', 'KNOWN'))]
    ev = json.load(open(c['evidence_file']))
    cov = ev['coverage']
    rows.append((c['property_id'], p.returncode, round(time.time() - t0, 1), cov.get('obligations'), cov.get('discharged'),
                 cov.get('evaluations'), cov.get('distinct_nontrivial'), [l[:60] for l in lines]))
    print(rows[-1], flush=True)
try:
    import jsonschema
    s = json.load(open('/root/.vp/EVIDENCE.schema.json'))
    for c in m['checks']:
        jsonschema.validate(json.load(open(c['evidence_file'])), s)
    print('evidence valid')
except ImportError:
    print('jsonschema not available here (run with python3-vt)')
