#!/usr/bin/env python3
"""tools/benign.py <area> <rK> [--checks C01,C02,...] : run the registered quick checks against a HARMLESS rewrite
written by a sub-agent (/tmp/benign/<area>/<rK>/patch.diff) and store it under /verif/seeded/benign/<area>-<rK>/.
A check that exits non-zero or prints a VIOLATION line on such a patch is a false alarm to be investigated."""
import fcntl, json, os, re, shutil, subprocess, sys, time
VERIF = os.path.dirname(os.path.dirname(os.path.abspath(__file__)))

def sh(cmd, cwd=None, timeout=3600):
    e = dict(os.environ); e["CARGO_NET_OFFLINE"] = "true"
    p = subprocess.run(cmd, shell=True, cwd=cwd, capture_output=True, text=True, timeout=timeout, env=e)
    return p.returncode, p.stdout + p.stderr

def main():
    area, r = sys.argv[1], sys.argv[2]
    m = json.load(open(os.path.join(VERIF, "MANIFEST.json")))
    checks = [c["property_id"] for c in m["checks"]]
    if "--checks" in sys.argv:
        checks = sys.argv[sys.argv.index("--checks") + 1].split(",")
    src = "/tmp/benign/%s/%s" % (area, r)
    dst = os.path.join(VERIF, "seeded", "benign", "%s-%s" % (area, r))
    if not os.path.isdir(src):
        src = dst
    os.makedirs(dst, exist_ok=True)
    if src != dst:
        for f in ("patch.diff", "README.md"):
            shutil.copyfile(os.path.join(src, f), os.path.join(dst, f))
    lock = open(os.path.join(VERIF, ".cache", "repo.lock"), "w")
    os.environ["VERIF_LOCK_HELD"] = "1"
    fcntl.flock(lock, fcntl.LOCK_EX)
    meta = {"id": "%s-%s" % (area, r), "kind": "benign", "checks": {}}
    mp = os.path.join(dst, "meta.json")
    if os.path.exists(mp):
        meta["checks"] = json.load(open(mp)).get("checks", {})
    try:
        rc, out = sh("git -C /repo status --porcelain")
        if out.strip():
            print("refusing: /repo has uncommitted changes:\n" + out); return 3
        rc, out = sh("git -C /repo apply %s" % os.path.join(dst, "patch.diff"))
        if rc != 0:
            print("patch does not apply:", out); return 2
        try:
            for c in checks:
                t0 = time.time()
                rc, out = sh("./check %s --tier quick%s" % (c, " --no-proof" if "--fast" in sys.argv else ""), cwd=VERIF, timeout=3000)
                lines = [l for l in out.splitlines() if l.startswith(("VIOLATION", "KNOWN-FINDING"))]
                what = ""
                for l in lines:
                    mm = re.search(r"replay=(\S+)", l)
                    if mm and os.path.exists(mm.group(1)):
                        try: what = json.load(open(mm.group(1))).get("what", "")[:600]
                        except Exception: pass
                        break
                meta["checks"][c] = {"exit": rc, "lines": lines[:4], "what": what, "wall_s": round(time.time() - t0, 1),
                                     "tail": out[-800:] if rc not in (0, 1) else ""}
                print(meta["id"], c, rc, what[:200], flush=True)
        finally:
            sh("git -C /repo checkout -- . && git -C /repo clean -fdq src")
        json.dump(meta, open(mp, "w"), indent=1)
        return 0
    finally:
        fcntl.flock(lock, fcntl.LOCK_UN)

if __name__ == "__main__":
    sys.exit(main())
