#!/usr/bin/env python3
"""tools/seed.py <pid> <mN> [--checks C14,C13] : confirm a seeded change produced by a sub-agent, store it
under /verif/seeded/<pid>-<mN>/ and run the registered quick checks against it.

1. confirmation (in the scratch worktree /tmp/mutwt_<pid>): at HEAD the demonstration passes; with the patch
   applied the crate builds, the 52 baseline tests pass, and the demonstration fails;
2. storage: patch.diff, demo files, README.md, meta.json;
3. detection: `git -C /repo apply patch.diff`, run `./check <id> --tier quick` for each requested check,
   `git -C /repo checkout -- .` straight afterwards (also on error), and record exit status / VIOLATION lines.

Serialised by a lock file because /repo is shared."""
import fcntl
import json
import os
import re
import shutil
import subprocess
import sys
import time

VERIF = os.path.dirname(os.path.dirname(os.path.abspath(__file__)))


def sh(cmd, cwd=None, timeout=3600, env=None):
    e = dict(os.environ)
    e["CARGO_NET_OFFLINE"] = "true"
    if env:
        e.update(env)
    p = subprocess.run(cmd, shell=True, cwd=cwd, capture_output=True, text=True, timeout=timeout, env=e)
    return p.returncode, p.stdout + p.stderr


def demo_cmd(src, wt):
    """work out how to run the demonstration from the README / file names"""
    files = [f for f in os.listdir(src) if f.startswith("demo")]
    cmds = []
    for f in files:
        if f.endswith(".rs") and "fn main" in open(os.path.join(src, f)).read() and "#[test]" not in open(os.path.join(src, f)).read():
            # a program: copy to examples/ and run it
            name = "seeded_demo_%s" % re.sub(r"\W", "_", os.path.basename(src.rstrip("/")) + "_" + f[:-3])
            os.makedirs(os.path.join(wt, "examples"), exist_ok=True)
            shutil.copyfile(os.path.join(src, f), os.path.join(wt, "examples", name + ".rs"))
            cmds.append(("cargo run --offline --release --example %s" % name, os.path.join(wt, "examples", name + ".rs")))
        elif f.endswith(".rs"):
            # an integration test: copy to tests/<pid>_<m>_demo.rs
            name = "seeded_demo_%s" % re.sub(r"\W", "_", os.path.basename(src.rstrip("/")) + "_" + f[:-3])
            os.makedirs(os.path.join(wt, "tests"), exist_ok=True)
            shutil.copyfile(os.path.join(src, f), os.path.join(wt, "tests", name + ".rs"))
            cmds.append(("cargo test --offline --test %s" % name, os.path.join(wt, "tests", name + ".rs")))
        elif f.endswith(".sh"):
            # run in place (the script finds its companions next to itself), from the worktree root
            sh_ = "bash" if "bash" in open(os.path.join(src, f)).readline() else "sh"
            cmds.append(("%s %s" % (sh_, os.path.join(src, f)), "/nonexistent"))
        elif f.endswith(".py"):
            cmds.append(("python3 %s" % os.path.join(src, f), "/nonexistent"))
    return cmds


def main():
    pid, m = sys.argv[1], sys.argv[2]
    checks = [pid]
    if "--checks" in sys.argv:
        checks = sys.argv[sys.argv.index("--checks") + 1].split(",")
    skip_confirm = "--skip-confirm" in sys.argv
    src = "/tmp/mut/%s/%s" % (pid, m)
    dst = os.path.join(VERIF, "seeded", "%s-%s" % (pid, m))
    if not os.path.isdir(src) and os.path.isdir(dst):
        src = dst
    wt = "/tmp/mutwt_%s" % pid
    patch = os.path.join(src, "patch.diff")
    meta = {"property": pid, "id": "%s-%s" % (pid, m), "confirmed": {}, "checks": {}}
    os.makedirs(os.path.join(VERIF, ".cache"), exist_ok=True)
    lock = open(os.path.join(VERIF, ".cache", "repo.lock"), "w")
    os.environ["VERIF_LOCK_HELD"] = "1"
    fcntl.flock(lock, fcntl.LOCK_EX)
    try:
        if not skip_confirm:
            if not os.path.isdir(wt):
                sh("git -C /repo worktree add --detach %s HEAD" % wt)
            sh("git checkout -- . ", cwd=wt)
            cmds = demo_cmd(src, wt)
            meta["confirmed"]["demo_cmds"] = [c for c, _ in cmds]
            ok_head = all(sh(c, cwd=wt)[0] == 0 for c, _ in cmds) and bool(cmds)
            rc, out = sh("git apply %s" % patch, cwd=wt)
            meta["confirmed"]["patch_applies"] = rc == 0
            rc_b, _ = sh("cargo build --offline", cwd=wt)
            rc_bv, _ = sh("cargo build --offline --lib", cwd=wt, env={"RUSTFLAGS": "--cfg cfr_verif", "CARGO_TARGET_DIR": os.path.join(wt, "target-verif")})
            rc_t, out_t = sh("cargo test --workspace --no-fail-fast --offline --lib --bins", cwd=wt)
            passed = sum(int(x) for x in re.findall(r"test result: ok\. (\d+) passed", out_t))
            failed = sum(int(x) for x in re.findall(r"(\d+) failed", out_t))
            fails = [sh(c, cwd=wt)[0] != 0 for c, _ in cmds]
            sh("git checkout -- .", cwd=wt)
            for _, f in cmds:
                if os.path.exists(f):
                    os.remove(f)
            meta["confirmed"].update({"demo_passes_at_head": ok_head, "builds_with_change": rc_b == 0,
                                      "builds_with_hooks": rc_bv == 0,
                                      "baseline_tests_with_change": {"exit": rc_t, "passed": passed, "failed": failed},
                                      "demo_fails_with_change": all(fails) and bool(fails)})
            good = ok_head and rc_b == 0 and rc_t == 0 and passed >= 52 and failed == 0 and all(fails) and bool(fails)
            meta["confirmed"]["all"] = good
            if not good:
                print(json.dumps(meta, indent=1))
                print("NOT CONFIRMED")
                return 2
        os.makedirs(dst, exist_ok=True)
        if src != dst:
            for f in os.listdir(src):
                shutil.copyfile(os.path.join(src, f), os.path.join(dst, f))
        # detection
        rc, out = sh("git -C /repo status --porcelain")
        if out.strip():
            print("refusing: /repo has uncommitted changes:\n" + out)
            return 3
        try:
            rc, out = sh("git -C /repo apply %s" % os.path.join(dst, "patch.diff"))
            assert rc == 0, out
            for c in checks:
                t0 = time.time()
                # --fast: skip the proof step (nothing in coq/ changes with a seeded patch; evidence then goes to .cache/dev-evidence)
                noproof = " --no-proof" if ("--fast" in sys.argv or not os.path.exists(os.path.join(VERIF, "coq", "Properties", c + ".v"))) else ""
                rc, out = sh("./check %s --tier quick%s" % (c, noproof), cwd=VERIF, timeout=3000)
                lines = [l for l in out.splitlines() if l.startswith(("VIOLATION", "KNOWN-FINDING"))]
                what = ""
                for l in lines:
                    mm = re.search(r"replay=(\S+)", l)
                    if mm and os.path.exists(mm.group(1)):
                        try:
                            what = json.load(open(mm.group(1))).get("what", "")[:400]
                        except Exception:
                            pass
                        break
                meta["checks"][c] = {"exit": rc, "lines": lines, "what": what, "wall_s": round(time.time() - t0, 1),
                                     "tail": out[-600:] if rc not in (0, 1) else ""}
        finally:
            sh("git -C /repo checkout -- .")
        old = {}
        mp = os.path.join(dst, "meta.json")
        if os.path.exists(mp):
            old = json.load(open(mp))
            if skip_confirm:
                meta["confirmed"] = old.get("confirmed", {})
            for k, v in old.items():
                if k not in meta:
                    meta[k] = v
        json.dump(meta, open(mp, "w"), indent=1)
        print(json.dumps(meta, indent=1))
        return 0
    finally:
        fcntl.flock(lock, fcntl.LOCK_UN)


if __name__ == "__main__":
    sys.exit(main())
