#!/usr/bin/env python3
import json, os, glob
for d in sorted(glob.glob('/verif/seeded/*/meta.json')):
    m = json.load(open(d))
    row = []
    for c, v in m.get('checks', {}).items():
        viol = [l for l in v['lines'] if l.startswith('VIOLATION')]
        nf = any('no-failing-input-found' in l for l in viol)
        row.append('%s:exit=%s%s%s' % (c, v['exit'], ' V' if viol else '', ' (no-input)' if nf else ''))
    print(m['id'], 'confirmed' if m.get('confirmed', {}).get('all') else 'UNCONFIRMED', ' '.join(row), '|', (list(m.get('checks', {}).values()) or [{}])[0].get('what', '')[:110])
