#!/usr/bin/env python3
import json, os, glob
for d in sorted(glob.glob('/verif/seeded/*/meta.json')):
    m = json.load(open(d))
    row = []
    for c, v in m.get('checks', {}).items():
        viol = [l for l in v['lines'] if l.startswith('VIOLATION')]
        nf = any('no-failing-input-found' in l for l in viol)
        row.append('%s:exit=%s%s%s' % (c, v['exit'], ' V' if viol else '', ' (no-input)' if nf else ''))
    print(m['id'], 'confirmed' if m.get('confirmed', {}).get('all') else 'UNCONFIRMED', ' '.join(row), '|', (list(m.get('checks', {}).values()) or [{}])[0].get('what', '')[:110])

import sys
if "--md" in sys.argv:
    rows = ["# Seeded changes and the checks that report them", "",
            "Each change was written by an independent sub-agent from the property text alone, confirmed here (builds with and without the hooks, 52 baseline tests pass, demonstration fails with / passes without the change) and run against the registered quick check of its property by `tools/seed.py` (apply to /repo, run, revert).", "",
            "| id | what it needs to manifest (from its README) | check | exit | first reported violation |", "|---|---|---|---|---|"]
    import re
    for d in sorted(glob.glob('/verif/seeded/*/meta.json')):
        m = json.load(open(d))
        readme = ''
        try:
            readme = open(os.path.join(os.path.dirname(d), 'README.md')).read()
        except Exception:
            pass
        need = ''
        mm = re.search(r'(?is)(what it needs[^\n]*\n+)(.{0,400})', readme)
        if mm:
            need = ' '.join(mm.group(2).split())[:220]
        m['needs'] = need
        for c, v in m.get('checks', {}).items():
            viol = [l for l in v['lines'] if l.startswith('VIOLATION')]
            tag = 'VIOLATION' + (' (no-failing-input-found)' if viol and all('no-failing' in l for l in viol) else '') if viol else 'quiet'
            rows.append("| %s | %s | %s | %s %s | %s |" % (m['id'], need.replace('|', '/'), c, v['exit'], tag, v.get('what', '')[:160].replace('|', '/').replace('\n', ' ')))
    open('/verif/seeded/SUMMARY.md', 'w').write("\n".join(rows) + "\n")
    print("written")
