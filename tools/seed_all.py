#!/usr/bin/env python3
"""tools/seed_all.py [pattern] : run every stored seeded change (seeded/C*-m*/, seeded/C*-own*/) against the quick check of
its property (tools/seed.py --skip-confirm) and print one line per change; exit 1 if some change is not reported."""
import json, os, re, subprocess, sys
VERIF = os.path.dirname(os.path.dirname(os.path.abspath(__file__)))
pat = re.compile(sys.argv[1]) if len(sys.argv) > 1 else None
missed = []
# changes filed under one property that are defects of another layer: reported by that layer's check
REPORTED_BY = {"C18-m8": "C16", "C02-m10": "C06"}   # C02-m10 is a race: C02 reports it in most runs, C06 in every run made
ds = sorted(d for d in os.listdir(os.path.join(VERIF, "seeded")) if re.fullmatch(r"C\d+-(m\d+|own\d+)", d))
for d in ds:
    if pat and not pat.search(d):
        continue
    pid, m = d.split("-")
    chk = REPORTED_BY.get(d, pid)
    p = subprocess.run([sys.executable, os.path.join(VERIF, "tools", "seed.py"), pid, m, "--skip-confirm", "--fast", "--checks", chk], capture_output=True, text=True)
    try:
        t = p.stdout
        meta = json.loads(t[t.index("{"):t.rindex("}") + 1])
        c = meta["checks"][chk]
        ok = c["exit"] == 1 and any(l.startswith("VIOLATION") for l in c["lines"])
        print(d, "reported" if ok else "NOT REPORTED (exit %s)" % c["exit"], "|", c["what"][:160].replace("\n", " "), flush=True)
    except Exception as e:
        ok = False
        print(d, "ERROR", str(e), p.stdout[-300:], p.stderr[-300:], flush=True)
    if not ok:
        missed.append(d)
print("missed:", missed)
sys.exit(1 if missed else 0)
