(** * CliProofs: theorems about the model of the binary's pipeline ([Cli.v]) —
    part A (the [Output] assembly of [main.rs], properties C15/C16) and part B
    (the JSON reader, [json.rs]).  The Gambit reader is in [CliGambitProofs.v].

    Everything is about the real-number instance [RNum], except the sorting
    lemmas of part B, which are generic. *)
From Coq Require Import Reals List Lra Lia Bool Arith NArith Sorting.Sorted Sorting.Permutation.
From Cfr.theories Require Import Num RInst Tree GameWF Strat Eval Valid TruncProofs
     StratIterProofs Cli.
Import ListNotations.
Open Scope R_scope.

Local Notation gameR := (@game RNum).
Local Notation outputR := (@output RNum).

(** ** A. The [Output] assembly *)

(** the assembly with the pruning generalised to an arbitrary predicate "above the
    threshold" (every f64 threshold is such a predicate: a finite [h] is [fun p => h < p],
    [-inf] is constantly true, [+inf] and NaN are constantly false) *)
Definition truncate_by (above : R -> bool) (g : gameR) (prof : list R * list R) : list R * list R :=
  (truncR_flat above (arities g true) (fst prof), truncR_flat above (arities g false) (snd prof)).

Definition cli_choose_by (above : R -> bool) (g : gameR) (sum : R) (prof : list R * list R)
  : outputR :=
  let i0 := info g prof in
  let q := truncate_by above g prof in
  let i1 := info g q in
  let pruned := Rltb (si_regret i1) (si_regret i0) in
  let i := if pruned then i1 else i0 in
  mkOutput (si_regret i) (si_utility i true + sum) (si_utility i false + sum)
           (si_reg1 i) (si_reg2 i) (if pruned then q else prof) pruned.

Lemma truncate_is_by (g : gameR) clip prof :
  @truncate RNum g clip prof = truncate_by (fun p => Rltb clip p) g prof.
Proof. reflexivity. Qed.

Lemma cli_choose_is_by (g : gameR) sum clip prof :
  @cli_choose RNum g sum clip prof = cli_choose_by (fun p => Rltb clip p) g sum prof.
Proof. reflexivity. Qed.

(** the [StrategiesInfo] whose numbers are printed *)
Definition chosen_info_by (above : R -> bool) (g : gameR) (prof : list R * list R) : @sinfo RNum :=
  if Rltb (si_regret (info g (truncate_by above g prof))) (si_regret (info g prof))
  then info g (truncate_by above g prof) else info g prof.

Definition chosen_info (g : gameR) (clip : R) (prof : list R * list R) : @sinfo RNum :=
  chosen_info_by (fun p => Rltb clip p) g prof.

Section Assembly.
  Context (g : gameR) (sum : R) (above : R -> bool) (prof : list R * list R).
  Local Notation out := (cli_choose_by above g sum prof).
  Local Notation q := (truncate_by above g prof).

  (** A.1 *)
  Lemma cli_by_pruned_iff :
    o_pruned out = true <-> si_regret (info g q) < si_regret (info g prof).
  Proof. unfold cli_choose_by; cbn [o_pruned]. apply Rltb_true. Qed.

  Lemma cli_by_pruned_false_iff :
    o_pruned out = false <-> si_regret (info g prof) <= si_regret (info g q).
  Proof. unfold cli_choose_by; cbn [o_pruned]. apply Rltb_false. Qed.

  Lemma cli_by_prof : o_prof out = if o_pruned out then q else prof.
  Proof. reflexivity. Qed.

  (** the printed profile is evaluated by the printed numbers: they are the [info] of [o_prof] *)
  Lemma cli_by_chosen_is_info : chosen_info_by above g prof = info g (o_prof out).
  Proof.
    unfold chosen_info_by, cli_choose_by; cbn [o_prof].
    destruct (Rltb _ _); reflexivity.
  Qed.

  (** A.2 *)
  Lemma cli_by_printed_valid : Valid g prof -> Valid g (o_prof out).
  Proof.
    intros [H1 H2]. rewrite cli_by_prof. destruct (o_pruned out); [|split; assumption].
    split; cbn [truncate_by fst snd]; now apply trunc_flat_valid.
  Qed.

  (** A.3 *)
  Lemma cli_by_total_regret : o_regret out = Rmax (o_reg1 out) (o_reg2 out).
  Proof. reflexivity. Qed.

  Lemma cli_by_fields :
    o_regret out = si_regret (chosen_info_by above g prof) /\
    o_reg1 out = si_reg1 (chosen_info_by above g prof) /\
    o_reg2 out = si_reg2 (chosen_info_by above g prof) /\
    o_util1 out = si_util (chosen_info_by above g prof) + sum /\
    o_util2 out = - si_util (chosen_info_by above g prof) + sum.
  Proof.
    unfold chosen_info_by, cli_choose_by; cbn [o_regret o_reg1 o_reg2 o_util1 o_util2].
    destruct (Rltb _ _); repeat split; reflexivity.
  Qed.

  Lemma cli_by_not_worse : o_regret out <= si_regret (info g prof).
  Proof.
    destruct cli_by_fields as (-> & _). unfold chosen_info_by.
    destruct (Rltb _ _) eqn:E; [apply Rltb_true in E; lra|lra].
  Qed.

  (** the printed regret is the smaller of the two candidates' regrets *)
  Lemma cli_by_regret_min :
    o_regret out = Rmin (si_regret (info g q)) (si_regret (info g prof)).
  Proof.
    destruct cli_by_fields as (-> & _). unfold chosen_info_by.
    destruct (Rltb _ _) eqn:E; [apply Rltb_true in E|apply Rltb_false in E].
    - rewrite Rmin_left; lra.
    - rewrite Rmin_right; lra.
  Qed.

  Lemma cli_by_utils_sum : o_util1 out + o_util2 out = 2 * sum.
  Proof. destruct cli_by_fields as (_ & _ & _ & -> & ->). lra. Qed.

  Lemma cli_by_regrets_nonneg : 0 <= o_reg1 out /\ 0 <= o_reg2 out /\ 0 <= o_regret out.
  Proof.
    destruct cli_by_fields as (-> & -> & -> & _).
    assert (H : forall p, 0 <= si_reg1 (@info RNum g p) /\ 0 <= si_reg2 (@info RNum g p)).
    { intros p. unfold info; cbn [si_reg1 si_reg2 fmax RNum zero]. split; apply Rmax_r. }
    unfold chosen_info_by. destruct (Rltb _ _).
    all: destruct (H q) as [A B]; destruct (H prof) as [C D].
    all: repeat split; try assumption.
    all: unfold si_regret; cbn [fmax RNum]; eapply Rle_trans; [|apply Rmax_l]; assumption.
  Qed.
End Assembly.

(** the statements for the model's [cli_choose] (a real threshold) *)
Section AssemblyClip.
  Context (g : gameR) (sum clip : R) (prof : list R * list R).
  Local Notation out := (@cli_choose RNum g sum clip prof).
  Local Notation q := (@truncate RNum g clip prof).

  Theorem cli_pruned_iff :
    o_pruned out = true <-> si_regret (info g q) < si_regret (info g prof).
  Proof. rewrite cli_choose_is_by, truncate_is_by. apply cli_by_pruned_iff. Qed.

  Theorem cli_prof : o_prof out = if o_pruned out then q else prof.
  Proof. reflexivity. Qed.

  Theorem cli_prof_cases :
    (si_regret (info g q) < si_regret (info g prof) /\ o_pruned out = true /\ o_prof out = q) \/
    (si_regret (info g prof) <= si_regret (info g q) /\ o_pruned out = false /\ o_prof out = prof).
  Proof.
    rewrite cli_prof. destruct (o_pruned out) eqn:E.
    - left. apply cli_pruned_iff in E. auto.
    - right. rewrite cli_choose_is_by in E. apply cli_by_pruned_false_iff in E. auto.
  Qed.

  Theorem cli_printed_valid : Valid g prof -> Valid g (o_prof out).
  Proof. rewrite cli_choose_is_by. apply cli_by_printed_valid. Qed.

  Theorem cli_total_regret : o_regret out = Rmax (o_reg1 out) (o_reg2 out).
  Proof. reflexivity. Qed.

  Theorem cli_not_worse : o_regret out <= si_regret (info g prof).
  Proof. rewrite cli_choose_is_by. apply cli_by_not_worse. Qed.

  Theorem cli_regret_min :
    o_regret out = Rmin (si_regret (info g q)) (si_regret (info g prof)).
  Proof. rewrite cli_choose_is_by, truncate_is_by. apply cli_by_regret_min. Qed.

  Theorem cli_chosen_is_info : chosen_info g clip prof = info g (o_prof out).
  Proof. rewrite cli_choose_is_by. apply cli_by_chosen_is_info. Qed.

  Theorem cli_utils :
    o_util1 out = si_util (chosen_info g clip prof) + sum /\
    o_util2 out = - si_util (chosen_info g clip prof) + sum.
  Proof.
    rewrite cli_choose_is_by.
    destruct (cli_by_fields g sum (fun p => Rltb clip p) prof) as (_ & _ & _ & A & B). now split.
  Qed.

  Theorem cli_regs :
    o_regret out = si_regret (chosen_info g clip prof) /\
    o_reg1 out = si_reg1 (chosen_info g clip prof) /\
    o_reg2 out = si_reg2 (chosen_info g clip prof).
  Proof.
    rewrite cli_choose_is_by.
    destruct (cli_by_fields g sum (fun p => Rltb clip p) prof) as (A & B & C & _). now repeat split.
  Qed.

  Theorem cli_utils_sum : o_util1 out + o_util2 out = 2 * sum.
  Proof. rewrite cli_choose_is_by. apply cli_by_utils_sum. Qed.

  Theorem cli_regrets_nonneg : 0 <= o_reg1 out /\ 0 <= o_reg2 out /\ 0 <= o_regret out.
  Proof. rewrite cli_choose_is_by. apply cli_by_regrets_nonneg. Qed.

  (** all the printed numbers are those of the independent evaluation [info] of the
      printed profile *)
  Theorem cli_output_is_info_of_printed :
    let i := info g (o_prof out) in
    o_regret out = si_regret i /\ o_reg1 out = si_reg1 i /\ o_reg2 out = si_reg2 i /\
    o_util1 out = si_util i + sum /\ o_util2 out = - si_util i + sum.
  Proof.
    cbv zeta. rewrite <- cli_chosen_is_info.
    destruct cli_regs as (A & B & C). destruct cli_utils as (D & E). now repeat split.
  Qed.
End AssemblyClip.

(** ** A.4  What is printed for one player *)
Section Printed.
  Context (g : gameR).

  Local Notation posR := (@posb RNum).

  Lemma posR_iff (ap : N * R) : posR ap = true <-> 0 < snd ap.
  Proof. unfold posb. cbn [ltb zero RNum]. apply Rltb_true. Qed.

  Lemma filter_idem {A} (f : A -> bool) l : filter f (filter f l) = filter f l.
  Proof.
    induction l as [|x l IH]; cbn [filter]; [reflexivity|].
    destruct (f x) eqn:E; cbn [filter]; [rewrite E, IH|]; auto.
  Qed.

  (** the second filter of [Strategy::from] removes nothing: what is printed is [as_named] *)
  Theorem printed_is_as_named pl prof :
    @printed_strategy RNum g pl prof = as_named g pl (if pl then fst prof else snd prof).
  Proof.
    unfold printed_strategy. rewrite as_named_items. rewrite map_app, !map_map.
    f_equal.
    - apply map_ext. intros [pi row]. unfold multi_item; cbn [fst snd]. f_equal.
      apply (filter_idem posR).
    - apply map_ext. intros [i a]. unfold single_item; cbn [fst snd filter].
      f_equal. change (ltb RNum (zero RNum) (one RNum)) with (Rltb 0 1).
      destruct (Rltb 0 1) eqn:E; [reflexivity|]. apply Rltb_false in E; lra.
  Qed.

  (** closed form: one item per multi-action infoset, in table order — its actions zipped
      with its row of the flat vector, positive entries only — then one item per
      single-action infoset with probability one *)
  Theorem printed_closed_form pl prof :
    @printed_strategy RNum g pl prof =
    map multi_item (combine (g_infos g pl)
                            (split_by (if pl then fst prof else snd prof) (arities g pl)))
    ++ map single_item (g_singles g pl).
  Proof. rewrite printed_is_as_named. apply as_named_items. Qed.

  (** every infoset of the player is printed once, in table order *)
  Theorem printed_names pl prof :
    map fst (@printed_strategy RNum g pl prof) =
    map pi_name (g_infos g pl) ++ map fst (g_singles g pl).
  Proof. rewrite printed_is_as_named. apply as_named_names. Qed.

  (** every printed pair has a positive probability *)
  Theorem printed_positive pl prof name l a p :
    In (name, l) (@printed_strategy RNum g pl prof) -> In (a, p) l -> 0 < p.
  Proof.
    rewrite printed_closed_form. intros H Hap. apply in_app_or in H as [H|H].
    - apply in_map_iff in H as ([pi row] & E & _). unfold multi_item in E; cbn [fst snd] in E.
      inversion E; subst. apply filter_In in Hap as [_ Hp]. now apply posR_iff in Hp.
    - apply in_map_iff in H as ([i b] & E & _). unfold single_item in E; cbn [fst snd] in E.
      inversion E; subst. destruct Hap as [Hap|[]]. inversion Hap; subst. cbn; lra.
  Qed.

  (** exactly the zero-probability actions are omitted: in the item of a multi-action
      infoset, a pair is printed iff it is a pair (action, probability) of the infoset with
      a positive probability *)
  Theorem printed_exactly_positive (pi : pinfo) (row : list R) a p :
    In (a, p) (snd (@multi_item RNum (pi, row))) <->
    In (a, p) (combine (pi_actions pi) row) /\ 0 < p.
  Proof.
    unfold multi_item; cbn [fst snd]. rewrite filter_In. rewrite posR_iff. reflexivity.
  Qed.

  Lemma Rsum_filter_pos_combine (acts : list N) : forall row : list R,
    length acts = length row -> Forall (fun x => 0 <= x) row ->
    Rsum (map snd (filter posR (combine acts row))) = Rsum row.
  Proof.
    induction acts as [|a acts IH]; intros [|x row] Hl Hnn; cbn [length] in Hl; try lia;
      cbn [combine filter map Rsum]; [reflexivity|].
    inversion Hnn as [|? ? Hx Hr]; subst.
    specialize (IH row ltac:(lia) Hr).
    destruct (posR (a, x)) eqn:E; cbn [map Rsum snd]; rewrite IH; [reflexivity|].
    assert (~ 0 < x) as Hn.
    { intros C. apply (posR_iff (a, x)) in C. congruence. }
    lra.
  Qed.

  Lemma Forall_combine_split {A B} (P : A * B -> Prop) (la : list A) : forall (lb : list B),
    length la = length lb ->
    (forall i a b, nth_error la i = Some a -> nth_error lb i = Some b -> P (a, b)) ->
    Forall P (combine la lb).
  Proof.
    induction la as [|a la IH]; intros [|b lb] Hl H; cbn [length] in Hl; try lia;
      cbn [combine]; constructor.
    - apply (H O); reflexivity.
    - apply IH; [lia|]. intros i a' b' Ha Hb. apply (H (S i)); assumption.
  Qed.

  (** for a valid profile the printed probabilities of every infoset sum to one *)
  Theorem printed_sums_one pl prof :
    Valid g prof ->
    Forall (fun e => Rsum (map snd (snd e)) = 1) (@printed_strategy RNum g pl prof).
  Proof.
    intros HV. rewrite printed_closed_form. apply Forall_app. split.
    - assert (VF : VFlat (arities g pl) (if pl then fst prof else snd prof))
        by (destruct HV as [V1 V2]; destruct pl; assumption).
      destruct VF as [Hlen Hrows].
      pose proof (split_by_length _ _ Hlen) as Hls.
      set (rows := split_by _ _) in *.
      rewrite Forall_map.
      assert (Hl2 : length (g_infos g pl) = length rows).
      { unfold rows. rewrite split_by_len. unfold arities. now rewrite map_length. }
      apply Forall_combine_split; [exact Hl2|].
      intros i pi row Hpi Hrow. unfold multi_item; cbn [fst snd].
      assert (Hrl : length (pi_actions pi) = length row).
      { unfold arities in Hls.
        assert (nth_error (map (@length R) rows) i = Some (length row))
          by (now apply map_nth_error).
        rewrite Hls in H. erewrite map_nth_error in H by exact Hpi. now inversion H. }
      rewrite Forall_forall in Hrows. destruct (Hrows row) as [Hnn Hs].
      { eapply nth_error_In; exact Hrow. }
      rewrite Rsum_filter_pos_combine; assumption.
    - rewrite Forall_map. apply Forall_forall. intros [i a] _. cbn. lra.
  Qed.
  (** [Strategy::from] collects the items in a [HashMap] and asserts that no infoset name
      comes twice, and the (action, probability) pairs of an item in another [HashMap]:
      for the tables of an accepted game ([WFtables], guaranteed by [from_root]) the
      assertion cannot fail and no pair is lost *)
  Theorem printed_names_nodup pl prof :
    WFtables (g_infos g pl) (g_singles g pl) ->
    NoDup (map fst (@printed_strategy RNum g pl prof)).
  Proof. intros [H _]. now rewrite printed_names. Qed.

  Lemma combine_filter_fst_nodup (acts : list N) : forall (row : list R) (f : N * R -> bool),
    NoDup acts -> NoDup (map fst (filter f (combine acts row))).
  Proof.
    induction acts as [|a acts IH]; intros [|x row] f Hd; cbn [combine filter map]; try constructor.
    inversion Hd as [|? ? Hn Hd']; subst.
    destruct (f (a, x)); cbn [map fst]; [|now apply IH].
    constructor; [|now apply IH].
    intros C. apply in_map_iff in C as ([a' x'] & E & Hin). cbn [fst] in E. subst a'.
    apply filter_In in Hin as [Hin _]. apply in_combine_l in Hin. contradiction.
  Qed.

  Theorem printed_actions_nodup pl prof :
    WFtables (g_infos g pl) (g_singles g pl) ->
    Forall (fun e => NoDup (map fst (snd e))) (@printed_strategy RNum g pl prof).
  Proof.
    intros [_ Hacts]. rewrite printed_closed_form. apply Forall_app. split.
    - rewrite Forall_map. apply Forall_forall. intros [pi row] Hin.
      unfold multi_item; cbn [fst snd]. apply combine_filter_fst_nodup.
      apply in_combine_l in Hin. rewrite Forall_forall in Hacts. now apply Hacts.
    - rewrite Forall_map. apply Forall_forall. intros [i a] _. cbn. constructor; [intros []|constructor].
  Qed.
End Printed.

(** ** B. The JSON reader *)

(** *** [sort_by]: a stable insertion sort (generic) *)
Section SortBy.
  Context {A : Type} (leb : A -> A -> bool).
  Local Notation le := (fun a b => leb a b = true).

  Lemma insert_by_perm x l : Permutation (insert_by leb x l) (x :: l).
  Proof.
    induction l as [|y l IH]; cbn [insert_by]; [reflexivity|].
    destruct (leb x y); [reflexivity|].
    rewrite IH. apply perm_swap.
  Qed.

  Theorem sort_by_perm l : Permutation (sort_by leb l) l.
  Proof.
    induction l as [|x l IH]; cbn [sort_by fold_right]; [reflexivity|].
    fold (sort_by leb l). rewrite insert_by_perm. now constructor.
  Qed.

  Lemma sort_by_length l : length (sort_by leb l) = length l.
  Proof. apply Permutation_length, sort_by_perm. Qed.

  Lemma sort_by_In x l : In x (sort_by leb l) <-> In x l.
  Proof.
    split; apply Permutation_in; [apply sort_by_perm|apply Permutation_sym, sort_by_perm].
  Qed.

  Lemma sort_by_cons x l : sort_by leb (x :: l) = insert_by leb x (sort_by leb l).
  Proof. reflexivity. Qed.

  (** identity on sorted input (only adjacent pairs need to be in order) *)
  Theorem sort_by_sorted_id l : Sorted le l -> sort_by leb l = l.
  Proof.
    induction 1 as [|x l Hs IH Hd]; [reflexivity|].
    rewrite sort_by_cons, IH. destruct Hd as [|y l Hxy]; cbn [insert_by]; [reflexivity|].
    now rewrite Hxy.
  Qed.

  Section Total.
    Context (leb_total : forall a b, leb a b = true \/ leb b a = true)
            (leb_trans : forall a b c, leb a b = true -> leb b c = true -> leb a c = true).

    Lemma insert_by_sorted x l : StronglySorted le l -> StronglySorted le (insert_by leb x l).
    Proof.
      induction 1 as [|y l Hs IH Hall]; cbn [insert_by].
      - constructor; constructor.
      - destruct (leb x y) eqn:E.
        + constructor; [now constructor|]. constructor; [assumption|].
          eapply Forall_impl; [|exact Hall]. intros z Hz; cbn beta in *. eapply leb_trans; eassumption.
        + constructor; [assumption|].
          assert (Hyx : leb y x = true) by (destruct (leb_total x y); congruence).
          apply Forall_forall. intros z Hz.
          apply (Permutation_in _ (insert_by_perm x l)) in Hz. destruct Hz as [<-|Hz]; [assumption|].
          rewrite Forall_forall in Hall. now apply Hall.
    Qed.

    Theorem sort_by_sorted l : StronglySorted le (sort_by leb l).
    Proof.
      induction l as [|x l IH]; [constructor|]. rewrite sort_by_cons. now apply insert_by_sorted.
    Qed.
  End Total.
End SortBy.

(** sorting commutes with a map that the comparison does not see *)
Lemma insert_by_map {A B} (f : A -> B) (lebA : A -> A -> bool) (lebB : B -> B -> bool) x l :
  (forall a b, lebB (f a) (f b) = lebA a b) ->
  insert_by lebB (f x) (map f l) = map f (insert_by lebA x l).
Proof.
  intros H. induction l as [|y l IH]; cbn [insert_by map]; [reflexivity|].
  rewrite H. destruct (lebA x y); cbn [map]; [reflexivity|]. now rewrite IH.
Qed.

Lemma sort_by_map {A B} (f : A -> B) (lebA : A -> A -> bool) (lebB : B -> B -> bool) l :
  (forall a b, lebB (f a) (f b) = lebA a b) ->
  sort_by lebB (map f l) = map f (sort_by lebA l).
Proof.
  intros H. induction l as [|x l IH]; [reflexivity|].
  cbn [map]. rewrite !sort_by_cons, IH. now apply insert_by_map.
Qed.

Lemma Sorted_impl {A} (R1 R2 : A -> A -> Prop) l :
  (forall a b, R1 a b -> R2 a b) -> Sorted R1 l -> Sorted R2 l.
Proof.
  intros H. induction 1 as [|x l Hs IH Hd]; constructor; [assumption|].
  destruct Hd; constructor; auto.
Qed.

(** *** sorting by a numeric key *)
Definition key_leb {B} (a b : N * B) : bool := N.leb (fst a) (fst b).

Lemma key_leb_total {B} (a b : N * B) : key_leb a b = true \/ key_leb b a = true.
Proof. unfold key_leb. rewrite !N.leb_le. lia. Qed.

Lemma key_leb_trans {B} (a b c : N * B) :
  key_leb a b = true -> key_leb b c = true -> key_leb a c = true.
Proof. unfold key_leb. rewrite !N.leb_le. lia. Qed.

Theorem sort_by_key_sorted {B} (l : list (N * B)) :
  StronglySorted N.le (map fst (sort_by key_leb l)).
Proof.
  pose proof (sort_by_sorted key_leb key_leb_total key_leb_trans l) as H.
  induction H as [|x l' Hs IH Hall]; cbn [map]; constructor; [assumption|].
  rewrite Forall_map. eapply Forall_impl; [|exact Hall].
  intros y Hy. unfold key_leb in Hy. now apply N.leb_le.
Qed.

Theorem sort_by_key_id {B} (l : list (N * B)) :
  Sorted N.le (map fst l) -> sort_by key_leb l = l.
Proof.
  intros H. apply sort_by_sorted_id.
  induction l as [|x l IH]; [constructor|]. cbn [map] in H. inversion H as [|? ? Hs Hd]; subst.
  constructor; [now apply IH|]. destruct l as [|y l]; constructor.
  inversion Hd; subst. unfold key_leb. now apply N.leb_le.
Qed.

Corollary sort_by_key_id_strict {B} (l : list (N * B)) :
  Sorted N.lt (map fst l) -> sort_by key_leb l = l.
Proof. intros H. apply sort_by_key_id. revert H. apply Sorted_impl. intros; lia. Qed.

(** *** [json_to_gnode] *)
Section Json.
  Local Notation jnodeR := (@jnode RNum).
  Local Notation gnodeR := (@gnode RNum).

  (** induction principle for the nested inductive [jnode] *)
  Fixpoint jnode_ind' (P : jnodeR -> Prop)
           (HT : forall x, P (JTerm x))
           (HC : forall info outs, Forall (fun e => P (snd (snd e))) outs -> P (@JChance RNum info outs))
           (HP : forall pl info acts, Forall (fun e => P (snd e)) acts -> P (@JPlayer RNum pl info acts))
           (j : jnodeR) : P j :=
    match j with
    | JTerm x => HT x
    | JChance info outs =>
        HC info outs ((fix go (l : list (N * (R * jnodeR))) : Forall (fun e => P (snd (snd e))) l :=
                         match l with
                         | [] => Forall_nil _
                         | e :: r => Forall_cons e (jnode_ind' P HT HC HP (snd (snd e))) (go r)
                         end) outs)
    | JPlayer pl info acts =>
        HP pl info acts ((fix go (l : list (N * jnodeR)) : Forall (fun e => P (snd e)) l :=
                            match l with
                            | [] => Forall_nil _
                            | e :: r => Forall_cons e (jnode_ind' P HT HC HP (snd e)) (go r)
                            end) acts)
    end.

  (** the children of a node, converted, with their keys, in file order *)
  Definition jconv_c (e : N * (R * jnodeR)) : N * (R * gnodeR) :=
    (fst e, (fst (snd e), json_to_gnode (snd (snd e)))).
  Definition jconv_p (e : N * jnodeR) : N * gnodeR := (fst e, json_to_gnode (snd e)).

  Lemma json_to_gnode_JChance info (outs : list (N * (R * jnodeR))) :
    json_to_gnode (@JChance RNum info outs) =
    @GChance RNum info (map snd (sort_by key_leb (map jconv_c outs))).
  Proof.
    cbn [json_to_gnode]. unfold key_leb. do 3 f_equal.
    induction outs as [|[k [p c]] r IH]; [reflexivity|]. cbn [map]. rewrite <- IH. reflexivity.
  Qed.

  Lemma json_to_gnode_JPlayer pl info (acts : list (N * jnodeR)) :
    json_to_gnode (@JPlayer RNum pl info acts) =
    @GPlayer RNum pl info (sort_by key_leb (map jconv_p acts)).
  Proof.
    cbn [json_to_gnode]. unfold key_leb. do 2 f_equal.
    induction acts as [|[k c] r IH]; [reflexivity|]. cbn [map]. rewrite <- IH. reflexivity.
  Qed.

  (** B.5: at every node the children are the converted children of the file, ordered by
      key: (i) sorted, (ii) a permutation *)
  Theorem json_chance_children info (outs : list (N * (R * jnodeR))) :
    exists kids : list (N * (R * gnodeR)),
      json_to_gnode (@JChance RNum info outs) = @GChance RNum info (map snd kids) /\
      StronglySorted N.le (map fst kids) /\
      Permutation kids (map jconv_c outs).
  Proof.
    exists (sort_by key_leb (map jconv_c outs)). split; [apply json_to_gnode_JChance|].
    split; [apply sort_by_key_sorted|apply sort_by_perm].
  Qed.

  Theorem json_player_children pl info (acts : list (N * jnodeR)) :
    exists kids : list (N * gnodeR),
      json_to_gnode (@JPlayer RNum pl info acts) = @GPlayer RNum pl info kids /\
      StronglySorted N.le (map fst kids) /\
      Permutation kids (map jconv_p acts).
  Proof.
    exists (sort_by key_leb (map jconv_p acts)). split; [apply json_to_gnode_JPlayer|].
    split; [apply sort_by_key_sorted|apply sort_by_perm].
  Qed.

  (** the plain structural conversion: no reordering *)
  Fixpoint json_plain (j : jnodeR) : gnodeR :=
    match j with
    | JTerm x => @GTerm RNum x
    | JChance info outs =>
        @GChance RNum info ((fix go (l : list (N * (R * jnodeR))) : list (R * gnodeR) :=
                         match l with
                         | [] => []
                         | (_, (p, c)) :: r => (p, json_plain c) :: go r
                         end) outs)
    | JPlayer pl info acts =>
        @GPlayer RNum pl info ((fix go (l : list (N * jnodeR)) : list (N * gnodeR) :=
                            match l with
                            | [] => []
                            | (k, c) :: r => (k, json_plain c) :: go r
                            end) acts)
    end.

  Lemma json_plain_JChance info (outs : list (N * (R * jnodeR))) :
    json_plain (@JChance RNum info outs) =
    @GChance RNum info (map (fun e => (fst (snd e), json_plain (snd (snd e)))) outs).
  Proof.
    cbn [json_plain]. f_equal.
    induction outs as [|[k [p c]] r IH]; [reflexivity|]. cbn [map]. rewrite <- IH. reflexivity.
  Qed.

  Lemma json_plain_JPlayer pl info (acts : list (N * jnodeR)) :
    json_plain (@JPlayer RNum pl info acts) =
    @GPlayer RNum pl info (map (fun e => (fst e, json_plain (snd e))) acts).
  Proof.
    cbn [json_plain]. f_equal.
    induction acts as [|[k c] r IH]; [reflexivity|]. cbn [map]. rewrite <- IH. reflexivity.
  Qed.

  (** the keys of every node are listed in (weakly) increasing order — what iterating a
      [BTreeMap] produces, strictly increasing even *)
  Fixpoint jordered (j : jnodeR) : Prop :=
    match j with
    | JTerm _ => True
    | JChance _ outs =>
        Sorted N.le (map fst outs) /\
        (fix go (l : list (N * (R * jnodeR))) : Prop :=
           match l with [] => True | (_, (_, c)) :: r => jordered c /\ go r end) outs
    | JPlayer _ _ acts =>
        Sorted N.le (map fst acts) /\
        (fix go (l : list (N * jnodeR)) : Prop :=
           match l with [] => True | (_, c) :: r => jordered c /\ go r end) acts
    end.

  Lemma jordered_JChance info (outs : list (N * (R * jnodeR))) :
    jordered (@JChance RNum info outs) <->
    Sorted N.le (map fst outs) /\ Forall (fun e => jordered (snd (snd e))) outs.
  Proof.
    cbn [jordered]. apply and_iff_compat_l.
    induction outs as [|[k [p c]] r IH]; [split; constructor|].
    rewrite IH. split.
    - intros [H1 H2]. now constructor.
    - intros H. inversion H; subst. now split.
  Qed.

  Lemma jordered_JPlayer pl info (acts : list (N * jnodeR)) :
    jordered (@JPlayer RNum pl info acts) <->
    Sorted N.le (map fst acts) /\ Forall (fun e => jordered (snd e)) acts.
  Proof.
    cbn [jordered]. apply and_iff_compat_l.
    induction acts as [|[k c] r IH]; [split; constructor|].
    rewrite IH. split.
    - intros [H1 H2]. now constructor.
    - intros H. inversion H; subst. now split.
  Qed.

  Theorem json_to_gnode_ordered (j : jnodeR) : jordered j -> json_to_gnode j = json_plain j.
  Proof.
    induction j as [x|info outs IH|pl info acts IH] using jnode_ind'; intros Ho.
    - reflexivity.
    - apply jordered_JChance in Ho as [Hs Hk].
      rewrite json_to_gnode_JChance, json_plain_JChance. f_equal.
      rewrite sort_by_key_id.
      + rewrite map_map. apply map_ext_in. intros e He. unfold jconv_c; cbn [snd fst]. f_equal.
        rewrite Forall_forall in IH, Hk. apply IH; auto.
      + rewrite map_map. cbn [jconv_c fst]. exact Hs.
    - apply jordered_JPlayer in Ho as [Hs Hk].
      rewrite json_to_gnode_JPlayer, json_plain_JPlayer. f_equal.
      rewrite sort_by_key_id.
      + apply map_ext_in. intros e He. unfold jconv_p. f_equal.
        rewrite Forall_forall in IH, Hk. apply IH; auto.
      + rewrite map_map. cbn [jconv_p fst]. exact Hs.
  Qed.

  (** B.6: after parsing, the only rejection category of the JSON route is the game error,
      and the constant is 0 *)
  Theorem json_load_rejected (j : jnodeR) r :
    json_load j = Rejected r -> exists e, r = RGame e /\ from_root (json_to_gnode j) = Err e.
  Proof.
    unfold json_load, load_tree. destruct (from_root (json_to_gnode j)) as [g|e]; [discriminate|].
    intros H; inversion H; subst. now exists e.
  Qed.

  Theorem json_load_loaded (j : jnodeR) g s :
    json_load j = Loaded (g, s) -> s = 0 /\ from_root (json_to_gnode j) = Ok g.
  Proof.
    unfold json_load, load_tree. destruct (from_root (json_to_gnode j)) as [g'|e]; [|discriminate].
    intros H; inversion H; subst. split; reflexivity.
  Qed.

  Theorem json_load_total (j : jnodeR) :
    (exists g, json_load j = Loaded (g, 0) /\ from_root (json_to_gnode j) = Ok g) \/
    (exists e, json_load j = Rejected (RGame e) /\ from_root (json_to_gnode j) = Err e).
  Proof.
    unfold json_load, load_tree. destruct (from_root (json_to_gnode j)) as [g|e].
    - left. exists g. split; reflexivity.
    - right. exists e. split; reflexivity.
  Qed.
End Json.
