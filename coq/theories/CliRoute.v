(** * CliRoute: how the binary chooses a reader ([main.rs] format selection, [auto.rs]).

    [main] picks the reader from the [--input-format] flag, then (for files) from the
    extension, and otherwise lets [auto::from_reader] try JSON first and Gambit second.
    The two text parsers ([serde_json] with the [json.rs] grammar, [gambit-parser]) are
    dependencies of the crate: they appear here as the section parameters [parse_json] and
    [parse_gambit] (total functions from the input text to an optional parsed file), so every
    theorem below holds for whatever the parsers do.  The semantic layers behind them
    ([json_load], [gambit_load]) are the models of [Cli.v].

    The routes the help text promises to be equivalent are exercised against the shipped
    binary by check C16 (stdin/file, explicit/auto, matching, odd and misleading extensions). *)
From Coq Require Import List Bool String Ascii.
From Coq Require Import Reals NArith.
From Cfr.theories Require Import Num RInst Tree Solve Cli SolveApi CliRun.
Import ListNotations.
Open Scope string_scope.

Inductive input_format := FAuto | FGambit | FJson.
Inductive reader := RdJson | RdGambit | RdAuto.

(** [str::ends_with] *)
Fixpoint ends_with (suffix s : string) : bool :=
  if String.eqb suffix s then true
  else match s with
       | EmptyString => false
       | String _ rest => ends_with suffix rest
       end.

(** the two [match args.input_format] blocks of [main]; [None] = stdin ("-") *)
Definition choose_reader (input : option string) (f : input_format) : reader :=
  match input with
  | None => match f with FJson => RdJson | FGambit => RdGambit | FAuto => RdAuto end
  | Some path =>
      match f with
      | FJson => RdJson
      | FGambit => RdGambit
      | FAuto => if ends_with ".json" path then RdJson
                 else if ends_with ".efg" path then RdGambit else RdAuto
      end
  end.

(** what a reader does with a text: the parser refuses it ([Unparsable]: the process panics with
    the format's README anchor, or with #auto-error), or the semantic layer of [Cli.v] runs *)
Inductive outcome (A : Type) := Parsed (l : loaded A) | Unparsable.
Arguments Parsed {A}. Arguments Unparsable {A}.

Section Readers.
  Context {Text JFile GFile Result : Type}.
  Context (parse_json : Text -> option JFile).       (* serde_json::from_str::<JsonNode> *)
  Context (parse_gambit : Text -> option GFile).     (* gambit_parser::ExtensiveFormGame::try_from *)
  Context (load_json : JFile -> loaded Result).      (* json.rs after parsing: Cli.json_load *)
  Context (load_gambit : GFile -> loaded Result).    (* gambit.rs after parsing: Cli.gambit_load *)

  (** [json::from_reader] / [gambit::from_reader]: a text that does not parse is rejected
      ([expect] panics with the format's README anchor) *)
  Definition read_json (t : Text) : outcome Result :=
    match parse_json t with Some j => Parsed (load_json j) | None => Unparsable end.
  Definition read_gambit (t : Text) : outcome Result :=
    match parse_gambit t with Some e => Parsed (load_gambit e) | None => Unparsable end.

  (** [auto::from_reader]: [json::from_str] first; its [Err] is only the parse error (a game
      error inside a well-formed JSON file panics there and then), Gambit second *)
  Definition read_auto (t : Text) : outcome Result :=
    match parse_json t with
    | Some j => Parsed (load_json j)
    | None => match parse_gambit t with
              | Some e => Parsed (load_gambit e)
              | None => Unparsable
              end
    end.

  Definition read_with (r : reader) (t : Text) : outcome Result :=
    match r with RdJson => read_json t | RdGambit => read_gambit t | RdAuto => read_auto t end.

  Definition cli_load (input : option string) (f : input_format) (t : Text) : outcome Result :=
    read_with (choose_reader input f) t.

  (** ** the flag wins over everything *)
  Theorem explicit_format_wins input t :
    cli_load input FJson t = read_json t /\ cli_load input FGambit t = read_gambit t.
  Proof. unfold cli_load. destruct input; split; reflexivity. Qed.

  (** ** then the extension (files only) *)
  Theorem extension_selects path t :
    (ends_with ".json" path = true -> cli_load (Some path) FAuto t = read_json t) /\
    (ends_with ".json" path = false -> ends_with ".efg" path = true ->
     cli_load (Some path) FAuto t = read_gambit t) /\
    (ends_with ".json" path = false -> ends_with ".efg" path = false ->
     cli_load (Some path) FAuto t = read_auto t) /\
    cli_load None FAuto t = read_auto t.
  Proof.
    unfold cli_load, choose_reader. repeat split; intros.
    - now rewrite H.
    - now rewrite H, H0.
    - now rewrite H, H0.
  Qed.

  (** ** then the content: JSON first *)
  Theorem auto_prefers_json t j : parse_json t = Some j -> read_auto t = read_json t.
  Proof. intros H. unfold read_auto, read_json. now rewrite H. Qed.

  Theorem auto_falls_back_to_gambit t :
    parse_json t = None -> read_auto t = read_gambit t.
  Proof. intros H. unfold read_auto, read_gambit. now rewrite H. Qed.

  Theorem auto_rejects_unknown t :
    parse_json t = None -> parse_gambit t = None -> read_auto t = Unparsable.
  Proof. intros H1 H2. unfold read_auto. now rewrite H1, H2. Qed.

  (** ** every route the help text describes loads the same game.
      A JSON game file is read identically by: the explicit flag (any path, stdin), the
      [.json] extension, and content detection (stdin or any other extension) — the last
      even if the text happened to be valid Gambit too, because JSON is tried first. *)
  Theorem json_routes_agree t j input :
    parse_json t = Some j ->
    (match input with
     | Some path => ends_with ".json" path = true \/ ends_with ".efg" path = false
     | None => True
     end) ->
    cli_load input FAuto t = read_json t /\ cli_load input FJson t = read_json t.
  Proof.
    intros Hj Hp. split; [|apply explicit_format_wins].
    unfold cli_load, choose_reader. destruct input as [path|].
    - destruct (ends_with ".json" path) eqn:E1; [reflexivity|].
      destruct Hp as [Hp|Hp]; [discriminate|]. rewrite Hp. now apply auto_prefers_json with j.
    - now apply auto_prefers_json with j.
  Qed.

  (** A Gambit file is read identically by the flag, the [.efg] extension and content
      detection, provided the text is not also a JSON game file (the two grammars are
      disjoint: a JSON game starts with an opening brace, a Gambit file with [EFG]; that
      fact about the dependencies is the hypothesis [parse_json t = None]). *)
  Theorem gambit_routes_agree t input :
    parse_json t = None ->
    (match input with
     | Some path => ends_with ".json" path = false
     | None => True
     end) ->
    cli_load input FAuto t = read_gambit t /\ cli_load input FGambit t = read_gambit t.
  Proof.
    intros Hj Hp. split; [|apply explicit_format_wins].
    unfold cli_load, choose_reader. destruct input as [path|].
    - rewrite Hp. destruct (ends_with ".efg" path); [reflexivity|]. now apply auto_falls_back_to_gambit.
    - now apply auto_falls_back_to_gambit.
  Qed.

  (** the whole selection rule in one statement *)
  Theorem format_selection_spec (path : string) t :
    (forall input, cli_load input FJson t = read_json t /\ cli_load input FGambit t = read_gambit t) /\
    (ends_with ".json" path = true -> cli_load (Some path) FAuto t = read_json t) /\
    (ends_with ".json" path = false -> ends_with ".efg" path = true ->
     cli_load (Some path) FAuto t = read_gambit t) /\
    (ends_with ".json" path = false -> ends_with ".efg" path = false ->
     cli_load (Some path) FAuto t = read_auto t) /\
    cli_load None FAuto t = read_auto t /\
    (forall j, parse_json t = Some j -> read_auto t = read_json t) /\
    (parse_json t = None -> read_auto t = read_gambit t).
  Proof.
    split; [intros input; apply explicit_format_wins|].
    destruct (extension_selects path t) as (A & B & C & D).
    repeat split; try assumption.
    - intros j Hj. now apply auto_prefers_json with j.
    - apply auto_falls_back_to_gambit.
  Qed.

  (** the misleading-extension route: the flag still wins *)
  Corollary misleading_extension_harmless t :
    cli_load (Some "game.json") FGambit t = read_gambit t /\
    cli_load (Some "game.efg") FJson t = read_json t.
  Proof. split; reflexivity. Qed.

  (** a text neither parser accepts is rejected on every route: nothing is solved *)
  Theorem unparsable_rejected_everywhere t input f :
    parse_json t = None -> parse_gambit t = None -> cli_load input f t = Unparsable.
  Proof.
    intros H1 H2. unfold cli_load.
    destruct (choose_reader input f); cbn [read_with]; unfold read_json, read_gambit, read_auto;
      now rewrite ?H1, ?H2.
  Qed.
End Readers.

(** ** the whole program: arguments, route, text -> what is printed ([None] = the process
    panics and prints no result object) *)
Section Main.
  Context {Text JFile GFile : Type}.
  Context (parse_json : Text -> option JFile).
  Context (parse_gambit : Text -> option GFile).
  Context (load_json : JFile -> loaded (@game RNum * R)).
  Context (load_gambit : GFile -> loaded (@game RNum * R)).

  Definition cli_main (a : args) (input : option string) (f : input_format) (t : Text)
             (draw : @oracle RNum) (par : N) (s : schedules) : option (@output RNum * @game RNum) :=
    match cli_load parse_json parse_gambit load_json load_gambit input f t with
    | Unparsable => None
    | Parsed l => cli_run a l draw par s
    end.

  (** input route and format option do not matter for a JSON game file *)
  Theorem main_json_route_irrelevant a t j input input' draw par s :
    parse_json t = Some j ->
    (match input with Some path => ends_with ".json" path = true \/ ends_with ".efg" path = false | None => True end) ->
    cli_main a input FAuto t draw par s = cli_main a input' FJson t draw par s /\
    cli_main a input' FJson t draw par s = cli_run a (load_json j) draw par s.
  Proof.
    intros Hj Hp. unfold cli_main.
    destruct (json_routes_agree parse_json parse_gambit load_json load_gambit t j input Hj Hp) as [E1 _].
    destruct (explicit_format_wins parse_json parse_gambit load_json load_gambit input' t) as [E2 _].
    rewrite E1, E2. unfold read_json. rewrite Hj. split; reflexivity.
  Qed.

  (** ... nor for a Gambit file (whose text is not a JSON game) *)
  Theorem main_gambit_route_irrelevant a t e input input' draw par s :
    parse_json t = None -> parse_gambit t = Some e ->
    (match input with Some path => ends_with ".json" path = false | None => True end) ->
    cli_main a input FAuto t draw par s = cli_main a input' FGambit t draw par s /\
    cli_main a input' FGambit t draw par s = cli_run a (load_gambit e) draw par s.
  Proof.
    intros Hj He Hp. unfold cli_main.
    destruct (gambit_routes_agree parse_json parse_gambit load_json load_gambit t input Hj Hp) as [E1 _].
    destruct (explicit_format_wins parse_json parse_gambit load_json load_gambit input' t) as [_ E2].
    rewrite E1, E2. unfold read_gambit. rewrite He. split; reflexivity.
  Qed.

  (** a result object is printed only for a text some reader parsed and the semantic layer loaded *)
  Theorem main_some_loaded a t input f draw par s out g :
    cli_main a input f t draw par s = Some (out, g) ->
    exists sum, cli_load parse_json parse_gambit load_json load_gambit input f t = Parsed (Loaded (g, sum)).
  Proof.
    unfold cli_main.
    destruct (cli_load parse_json parse_gambit load_json load_gambit input f t) as [[[g0 sum]|r]|];
      [|discriminate|discriminate].
    intros H. exists sum. unfold cli_run in H.
    destruct (solve_api g0 _ _ _ _ _ _ _ _) as [[[st rg] rn]|]; [|discriminate].
    injection H as _ <-. reflexivity.
  Qed.

  (** a text neither parser accepts, or a file the semantic layer rejects, prints nothing *)
  Theorem main_prints_nothing_for_bad_input a t input f draw par s :
    (parse_json t = None /\ parse_gambit t = None) \/
    (exists r, cli_load parse_json parse_gambit load_json load_gambit input f t = Parsed (Rejected r)) ->
    cli_main a input f t draw par s = None.
  Proof.
    intros [[H1 H2]|[r Hr]]; unfold cli_main.
    - now rewrite (unparsable_rejected_everywhere parse_json parse_gambit load_json load_gambit t input f H1 H2).
    - rewrite Hr. apply cli_run_rejected.
  Qed.
End Main.

Example ends_with_examples :
  ends_with ".json" "a/b/game.json" = true /\ ends_with ".json" "game.json.efg" = false /\
  ends_with ".efg" "game.json.efg" = true /\ ends_with ".json" ".json" = true /\
  ends_with ".json" "json" = false /\ ends_with ".efg" "" = false.
Proof. repeat split. Qed.
