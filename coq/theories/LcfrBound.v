(** * LcfrBound: the bound returned by the unsampled LCFR solve dominates the true
    regret of the returned profile (property C03, clause 2, for [p_lcfr]).

    The argument is the weighted form of C02 ([Decomposition.v], [AvgRealisation.v],
    [BoundDominates.v]), carried out for every params tuple whose three discounts are one
    sequence of positive factors [d t] ([LcfrSpec.v]); with [P T = d 1 * ... * d T] and
    weights [w t = 1 / P t]:
    - [dregret_decomposition]: [P T * sum_t w_t (u(s, sigma_t) - u(sigma_t))] is the sum,
      over the infosets reachable under the pure strategy [s], of [cum_regret_T(I, s I)],
      hence at most [T * b_pl / 2] ([dexternal_regret_bound]);
    - [davg_realisation]: the returned average realises the [w]-weighted average of the
      iterates against every opponent table;
    - [dtrajectory_bound], [dbound_dominates]: the sum of the two true regrets is at most
      [T / (P T * sum_t w_t) * (b1 + b2) / 2].
    For LCFR [P T = 1 / (T + 1)], [sum_t w_t = T (T + 1) / 2], the constant is [2]:
    [lcfr_bound_dominates]: [si_regret <= b1 + b2].
    With the rate of the returned bounds ([CfrRate.bound_rate_all_params]):
    [lcfr_true_regret_rate]. *)
From Coq Require Import Reals List Lra Lia Bool Arith NArith.
From Cfr.theories Require Import Num RInst Tree GameWF Strat Eval Solve Valid
     SolveValidProofs LoopProofs RulesProofs Incr IterChar CfMass CfrRate EvalSpec EvalProofs
     BestResponseProofs CfrSpec Decomposition AvgRealisation BoundDominates LcfrSpec.
Import ListNotations.
Open Scope R_scope.

Local Notation node := (@node RNum).
Local Notation game := (@game RNum).
Local Notation incr := (@incr RNum).
Local Notation oracle := (@oracle RNum).
Local Notation params := (@params RNum).

(** ** The loop runs along the trajectory (any params tuple) *)
Section DLoopTraj.
  Context (g : game) (draw : oracle) (p : params) (stop : R -> bool).

  Lemma dvanilla_iter_traj k :
    @vanilla_iter RNum g false draw p (N.of_nat (S k)) (dstate_at g draw p k) =
    (dstate_at g draw p (S k), dbounds_at g draw p (S k)).
  Proof.
    unfold dbounds_at. cbn [dstate_at]. replace (S k - 1)%nat with k by lia.
    now destruct (vanilla_iter _ _ _ _ _ _).
  Qed.

  Lemma dloop_traj rem : forall k regs ran st' regs' ran',
    @solve_loop RNum g Full draw p stop rem (N.of_nat (S k)) (dstate_at g draw p k)
                regs ran = (st', regs', ran') ->
    (rem = 0%nat /\ st' = dstate_at g draw p k /\ regs' = regs /\ ran' = ran) \/
    (exists T, (k < T <= k + rem)%nat /\ st' = dstate_at g draw p T /\
               regs' = Some (dbounds_at g draw p T) /\ ran' = N.of_nat T).
  Proof.
    induction rem as [|r IH]; intros k regs ran st' regs' ran' E.
    - left. cbn [solve_loop] in E. injection E as <- <- <-. auto.
    - right. rewrite loop_S in E. cbn [one_iter] in E. rewrite dvanilla_iter_traj in E.
      destruct (dbounds_at g draw p (S k)) as [r1 r2] eqn:Eb.
      destruct (stop (Rmax r1 r2)).
      + injection E as <- <- <-. exists (S k). split; [lia|]. rewrite Eb. auto.
      + replace (N.of_nat (S k) + 1)%N with (N.of_nat (S (S k))) in E by lia.
        apply IH in E. destruct E as [(-> & -> & -> & ->)|(T & HT & -> & -> & ->)].
        * exists (S k). split; [lia|]. rewrite Eb. auto.
        * exists T. split; [lia|]. auto.
  Qed.

  Lemma dsolve_single_traj budget strats b1 b2 ran :
    @solve_single RNum g Full draw p budget stop = (strats, Some (b1, b2), ran) ->
    exists T, (1 <= T <= budget)%nat /\ strats = @final_strats RNum (dstate_at g draw p T) /\
              dbounds_at g draw p T = (b1, b2) /\ ran = N.of_nat T.
  Proof.
    unfold solve_single.
    destruct (solve_loop _ _ _ _ _ _ _ _ _ _) as [[st regs] ran'] eqn:E.
    intros Hs. injection Hs as <- -> <-.
    change 1%N with (N.of_nat 1) in E.
    change (@init_state RNum g) with (dstate_at g draw p 0) in E.
    apply dloop_traj in E. destruct E as [(_ & _ & Hr & _)|(T & HT & -> & Hr & ->)]; [discriminate|].
    exists T. split; [lia|]. injection Hr as Hr. auto.
  Qed.
End DLoopTraj.

(** ** The returned profile, row-wise *)
Lemma dfinal_strats_rows (g : game) (draw : oracle) (p : params) T :
  arities_pos g ->
  split_by (fst (@final_strats RNum (dstate_at g draw p T))) (arities g true) = davg g draw p T true /\
  split_by (snd (@final_strats RNum (dstate_at g draw p T))) (arities g false) = davg g draw p T false.
Proof.
  intros Hpos. destruct (dstate_at_inv g draw p Hpos T) as [H1 H2].
  destruct (final_rows _ _ H1) as [E1 _]. destruct (final_rows _ _ H2) as [E2 _].
  unfold final_strats, davg, ps_get. cbn [fst snd]. split.
  - rewrite <- E1 at 1. apply split_by_concat.
  - rewrite <- E2 at 1. apply split_by_concat.
Qed.

Lemma davg_StratOf (g : game) (draw : oracle) (p : params) T pl :
  arities_pos g -> StratOf g pl (davg g draw p T pl).
Proof.
  intros Hpos. destruct (dstate_at_inv g draw p Hpos T) as [H1 H2].
  unfold StratOf, davg, ps_get. destruct pl.
  - destruct (final_rows _ _ H1) as [E1 V1]. split; assumption.
  - destruct (final_rows _ _ H2) as [E2 V2]. split; assumption.
Qed.

(** ** The weighted C02 argument for a uniformly discounted params tuple *)
Section DGame.
  Context (g : game) (Hwf : @WFgame RNum g).
  Context (draw : oracle) (p : params) (d : nat -> R).
  Context (Hd_pos : forall t, (1 <= t)%nat -> 0 < d t).
  Context (Hd_reg : forall t cr, (1 <= t)%nat ->
              @discount_cum_regret RNum p (N.of_nat t) cr = map (fun r => r * d t) cr).
  Context (Hd_avg : forall t cs, (1 <= t)%nat ->
              @discount_average_strat RNum p (N.of_nat t) cs = map (fun a => a * d t) cs).

  Let Hpos : arities_pos g := WFgame_arities_pos g Hwf.

  Local Notation P := (dprod d).
  Local Notation st := (dstate_at g draw p).
  Local Notation sigma := (dsigma_at g draw p).

  (** the weight of iteration [t + 1] *)
  Definition dweight (t : nat) : R := / P t.

  Lemma P_pos t : 0 < P t.
  Proof. now apply dprod_pos. Qed.

  Lemma dweight_pos t : 0 < dweight t.
  Proof. unfold dweight. apply Rinv_0_lt_compat. apply P_pos. Qed.

  Definition dwsum (T : nat) : R := Rsumn T dweight.

  Lemma dwsum_pos T : (1 <= T)%nat -> 0 < dwsum T.
  Proof.
    intros HT. unfold dwsum. destruct T as [|k]; [lia|]. rewrite Rsumn_S_last.
    assert (0 <= Rsumn k dweight).
    { apply Rsumn_nonneg. intros b _. left. apply dweight_pos. }
    pose proof (dweight_pos k). lra.
  Qed.

  Lemma dsigma_Fits t : Fits g (sigma (S t) true) (sigma (S t) false).
  Proof.
    intros pl j Hj.
    replace (if pl then sigma (S t) true else sigma (S t) false)
      with (sigma (S t) pl) by (destruct pl; reflexivity).
    now apply dsigma_at_length.
  Qed.

  Lemma dincs_at_cfr t pl i a :
    reg_delta (dincs_at g draw p t) pl i a =
    cfr_inc_of g (sigma (S t) true) (sigma (S t) false) pl i a.
  Proof.
    unfold dincs_at, cfr_inc_of. rewrite (strat_view_dsigma g draw p). f_equal. apply vincs_indep.
  Qed.

  (** *** Theorem 1, weighted *)
  Section Decomp.
    Context (H : bool -> nat -> hist) (HPR : PRwit g H).

    (** the weighted external regret of [pl] against the pure strategy [Sp] *)
    Definition dext_regret (T : nat) (pl : bool) (Sp : list (list R)) : R :=
      Rsumn T (fun t => dweight t *
                        (u_me g pl Sp (sigma (S t) (negb pl))
                         - u_me g pl (sigma (S t) pl) (sigma (S t) (negb pl)))).

    Theorem dregret_decomposition T pl Sp s :
      IsPure g pl Sp s ->
      P T * dext_regret T pl Sp =
      Rsumn (ninfos g pl) (fun i => reach_s s H pl i * dregret_at g draw p T pl i (s i)).
    Proof.
      intros HP. unfold dext_regret.
      rewrite (Rsumn_ext (ninfos g pl) _
                 (fun i => P T * Rsumn T (fun t => reach_s s H pl i
                                             * (reg_delta (dincs_at g draw p t) pl i (s i) / P t)))).
      2:{ intros i Hi.
          rewrite (dregret_at_sum g draw p d Hd_pos Hd_reg Hd_avg Hpos T pl i (s i) Hi (proj2 (HP i Hi))).
          rewrite Rsumn_scal. ring. }
      rewrite Rsumn_scal. f_equal.
      rewrite Rsumn_exchange. apply Rsumn_ext. intros t _.
      pose proof (regret_decomposition_iter g Hwf H HPR pl (sigma (S t) true) (sigma (S t) false)
                                            Sp s (dsigma_Fits t) HP) as E.
      replace (opp_of pl (sigma (S t) true) (sigma (S t) false))
        with (sigma (S t) (negb pl)) in E by (destruct pl; reflexivity).
      replace (own_of pl (sigma (S t) true) (sigma (S t) false))
        with (sigma (S t) pl) in E by (destruct pl; reflexivity).
      rewrite E, <- Rsumn_scal. apply Rsumn_ext. intros i _. rewrite dincs_at_cfr.
      unfold dweight, Rdiv. ring.
    Qed.

    (** ... hence at most [T * b_pl / 2], [b_pl] being the bound the model returns *)
    Theorem dexternal_regret_bound T pl Sp s :
      (1 <= T)%nat -> IsPure g pl Sp s ->
      P T * dext_regret T pl Sp <= INR T * dbound_pl g draw p T pl / 2.
    Proof.
      intros HT HP. rewrite (dregret_decomposition T pl Sp s HP).
      apply (dbound_pl_dominates g draw p Hpos T pl (fun i => reach_s s H pl i) s HT).
      intros i Hi. split; [apply cons_s_01|exact (proj2 (HP i Hi))].
    Qed.
  End Decomp.

  (** *** Theorem 2, weighted *)
  Section TrajAvg.
    Context (me : bool) (H : bool -> nat -> hist) (HPR : PRwit_me g me H).
    Context (T : nat).

    Local Notation sig := (fun t => sigma (S t) me).
    Local Notation A := (davg g draw p T me).
    Local Notation root := (g_root g).

    Lemma dprob_sigma_nonneg t pl i a : 0 <= prob (sigma (S t) pl) i a.
    Proof.
      unfold prob. rewrite (dsigma_at_row g draw p). apply nth_nonneg.
      exact (InvA_strat_nonneg _ _ _ pl i (dstate_at_inv g draw p Hpos t)).
    Qed.

    Lemma dppi_sigma_nonneg t h : 0 <= ppi (sig t) h.
    Proof. apply ppi_nonneg. intros. apply dprob_sigma_nonneg. Qed.

    Lemma dsigma_row_oob t i : (ninfos g me <= i)%nat -> rowR (sig t) i = [].
    Proof.
      intros Hi. unfold rowR. apply nth_overflow. unfold dsigma_at, tbl_strat.
      rewrite map_length, (dstate_at_len g draw p Hpos). exact Hi.
    Qed.

    Lemma davg_row_oob i : (ninfos g me <= i)%nat -> rowR A i = [].
    Proof.
      intros Hi. unfold rowR. apply nth_overflow. unfold davg.
      rewrite map_length, (dstate_at_len g draw p Hpos). exact Hi.
    Qed.

    Lemma davg_row i :
      (i < ninfos g me)%nat ->
      rowR A i = @avg_strat RNum (cum_strat (@ri_get RNum (st T) me i)).
    Proof.
      intros Hi. unfold rowR, davg, ri_get.
      rewrite (nth_indep _ _ ((fun ri => @avg_strat RNum (cum_strat ri)) (@mkRinfo RNum [] [] [])))
        by (rewrite map_length, (dstate_at_len g draw p Hpos); exact Hi).
      now rewrite (map_nth (fun ri => @avg_strat RNum (cum_strat ri))).
    Qed.

    Lemma dstrat_delta_traj t i :
      strat_delta (dincs_at g draw p t) me i = cnt me i root * ppi (sig t) (H me i).
    Proof.
      unfold strat_delta, dincs_at. rewrite (strat_view_dsigma g draw p).
      pose proof (strat_delta_node me i (g_chance g) draw (N.of_nat (S t) - 1)%N
                                   (sigma (S t) true) (sigma (S t) false) H root) as W.
      replace (sigma (S t) me)
        with (if me then sigma (S t) true else sigma (S t) false)
        by (destruct me; reflexivity).
      apply (fun Hok => W Hok [] [] 1 1 1).
      - pose proof Hwf as (Hsh & _). eapply allp_impl; [| |exact (shaped_allp g _ Hsh)].
        + intros ci kids Hc. exact Hc.
        + intros pl j kids (Hj & Hlen & _). unfold OKP', sg_of.
          rewrite (dsigma_Fits t pl j Hj). now symmetry.
      - intros [[pl j] h] Hin. unfold PRme'. intros ->. now apply HPR.
      - unfold ownp, hme. destruct me; reflexivity.
    Qed.

    Lemma davg_eq_traj i h :
      In (me, i, h) (@hists RNum root [] []) ->
      forall b, AvgEq me T dweight sig A H i b.
    Proof.
      intros Hin b. unfold AvgEq.
      destruct (Nat.lt_ge_cases i (ninfos g me)) as [Hi|Hi].
      2:{ unfold prob at 1. rewrite (davg_row_oob i Hi), nth_nil_R, Rmult_0_r. symmetry.
          apply Rsumn_zero_ext. intros t _. unfold prob. rewrite (dsigma_row_oob t i Hi), nth_nil_R. lra. }
      set (ri := @ri_get RNum (st T) me i).
      destruct (dstate_at_RInvA g draw p Hpos T me i Hi) as (_ & Hnn & _ & L2 & _). fold ri in Hnn, L2.
      set (ar := arity g me i) in *.
      destruct (Nat.lt_ge_cases b ar) as [Hb|Hb].
      2:{ unfold prob at 1. rewrite (davg_row i Hi). fold ri.
          rewrite nth_overflow by (rewrite avg_strat_length; tR; lia). rewrite Rmult_0_r. symmetry.
          apply Rsumn_zero_ext. intros t _. unfold prob.
          rewrite nth_overflow by (rewrite (dsigma_at_length g draw p Hpos t me i Hi); exact Hb). lra. }
      set (c0 := cnt me i root).
      assert (Hc0 : 1 <= c0) by (exact (proj2 (cnt_pos me i root) [] [] h Hin)).
      pose proof (P_pos T) as HPT.
      set (c := c0 * P T).
      assert (Hc : 0 < c) by (unfold c; nra).
      set (PP := Rsumn T (fun t => dweight t * ppi (sig t) (H me i))).
      set (Q := fun a => Rsumn T (fun t => dweight t * ppi (sig t) (H me i) * prob (sig t) i a)).
      change (PP * prob A i b = Q b).
      assert (Ecs : forall a, (a < ar)%nat -> nth a (cum_strat ri) 0 = c * Q a).
      { intros a Ha.
        pose proof (dcstrat_at_sum g draw p d Hd_pos Hd_reg Hd_avg Hpos T me i a Hi Ha) as E.
        unfold dcstrat_at in E. fold ri in E. rewrite E. unfold Q, c.
        rewrite (Rmult_comm c0), Rmult_assoc. f_equal.
        rewrite <- Rsumn_scal. apply Rsumn_ext. intros t _. rewrite dstrat_delta_traj. fold c0.
        unfold dweight, Rdiv. ring. }
      assert (Esum : Rsum (cum_strat ri) = c * PP).
      { rewrite Rsum_nth. tR. rewrite L2. fold ar.
        rewrite (Rsumn_ext ar _ (fun a => c * Q a)) by (intros a Ha; now apply Ecs).
        rewrite Rsumn_scal. f_equal. unfold Q, PP. rewrite Rsumn_exchange.
        apply Rsumn_ext. intros t _. rewrite Rsumn_scal.
        destruct (dsigma_at_VRow g draw p Hpos t me i Hi) as [_ Hone].
        rewrite Rsum_nth, (dsigma_at_length g draw p Hpos t me i Hi) in Hone. fold ar in Hone.
        unfold prob. rewrite Hone. lra. }
      unfold prob at 1. rewrite (davg_row i Hi). fold ri. rewrite avg_strat_unfold, Esum.
      destruct (Reqb (c * PP) 0) eqn:Ez.
      - apply Reqb_true in Ez.
        assert (HP0 : PP = 0) by nra.
        assert (Hz : forall t, (t < T)%nat -> dweight t * ppi (sig t) (H me i) = 0).
        { apply Rsumn_zero_nonneg; [|exact HP0]. intros t _.
          apply Rmult_le_pos; [left; apply dweight_pos|apply dppi_sigma_nonneg]. }
        rewrite HP0, Rmult_0_l. symmetry. unfold Q. apply Rsumn_zero_ext.
        intros t Ht. rewrite (Hz t Ht). lra.
      - apply Reqb_false in Ez.
        assert (Hcn : c <> 0) by lra.
        assert (HP0 : PP <> 0) by (intros E0; apply Ez; rewrite E0; lra).
        rewrite (nth_indep _ 0 ((fun x => x / (c * PP)) 0)) by (rewrite map_length; tR; lia).
        rewrite (map_nth (fun x => x / (c * PP))). tR. rewrite (Ecs b Hb). field. split; assumption.
    Qed.
  End TrajAvg.

  Theorem davg_realisation (me : bool) (H : bool -> nat -> hist) (T : nat) (tau : list (list R)) :
    PRwit_me g me H -> (1 <= T)%nat ->
    u_me g me (davg g draw p T me) tau =
    / dwsum T * Rsumn T (fun t => dweight t * u_me g me (sigma (S t) me) tau).
  Proof.
    intros HPR HT.
    assert (HS : HSub (Good me T dweight (fun t => sigma (S t) me) (davg g draw p T me) H)
                      (g_root g) [] []).
    { intros [[pl i] h] Hin. unfold Good. intros ->. split; [now apply HPR|].
      exact (davg_eq_traj me H HPR T i h Hin). }
    pose proof (avg_abstract (g_chance g) me tau T dweight
                             (fun t => sigma (S t) me) (davg g draw p T me) H (g_root g) HS) as E.
    fold (dwsum T) in E. pose proof (dwsum_pos T HT) as HWpos.
    unfold u_me, u_game. unfold U in E. destruct me.
    - rewrite <- E. field. lra.
    - rewrite (Rsumn_ext T _ (fun t => -1 * (dweight t * u (g_chance g) tau (sigma (S t) false) (g_root g))))
        by (intros; lra).
      rewrite Rsumn_scal, <- E. field. lra.
  Qed.

  (** *** Theorem 3, weighted: the true regrets of the average profile after [T]
      iterations, against the returned bounds *)
  Section Dominate.
    Context (HPR : @PerfectRecall RNum g) (HCh : ChanceOK g).

    Definition dconst (T : nat) : R := INR T / (P T * dwsum T).

    Theorem dtrajectory_bound T :
      (1 <= T)%nat ->
      let e := u_game g (davg g draw p T true) (davg g draw p T false) in
      let br1 := @br_value RNum g true (davg g draw p T false) in
      let br2 := @br_value RNum g false (davg g draw p T true) in
      let b1 := dbound_pl g draw p T true in
      let b2 := dbound_pl g draw p T false in
      0 <= br1 - e /\ 0 <= br2 + e /\ (br1 - e) + (br2 + e) <= dconst T * ((b1 + b2) / 2).
    Proof.
      intros HT. cbv zeta.
      destruct HPR as [H HH].
      assert (HW : PRwit g H) by exact HH.
      set (A1 := davg g draw p T true). set (A2 := davg g draw p T false).
      pose proof (davg_StratOf g draw p T true Hpos) as HA1. fold A1 in HA1.
      pose proof (davg_StratOf g draw p T false Hpos) as HA2. fold A2 in HA2.
      pose proof (StratOf_nonneg _ _ _ HA1) as N1. pose proof (StratOf_nonneg _ _ _ HA2) as N2.
      pose proof (br_upper g true A2 Hwf (ex_intro _ H HH) HCh N2 A1 HA1) as U1.
      pose proof (br_upper g false A1 Hwf (ex_intro _ H HH) HCh N1 A2 HA2) as U2.
      destruct (br_attained g true A2 Hwf (ex_intro _ H HH) HCh N2) as (S1 & HS1 & E1).
      destruct (br_attained g false A1 Hwf (ex_intro _ H HH) HCh N1) as (S2 & HS2 & E2).
      unfold u_me in U1, U2, E1, E2.
      split; [lra|]. split; [lra|].
      (* the averages realise the weighted averages of the iterates *)
      pose proof (davg_realisation false H T S1 (fun i h => HH false i h) HT) as R2.
      pose proof (davg_realisation true H T S2 (fun i h => HH true i h) HT) as R1.
      unfold u_me in R1, R2. fold A1 in R1. fold A2 in R2.
      (* the weighted external regrets are bounded *)
      pose proof (dexternal_regret_bound H HW T true S1 _ HT (PureOf_IsPure g true S1 HS1)) as B1.
      pose proof (dexternal_regret_bound H HW T false S2 _ HT (PureOf_IsPure g false S2 HS2)) as B2.
      unfold dext_regret, u_me in B1, B2. cbn [negb] in B1, B2.
      set (X1 := Rsumn T (fun t => dweight t * u_game g S1 (sigma (S t) false))) in *.
      set (X2 := Rsumn T (fun t => dweight t * u_game g (sigma (S t) true) S2)) in *.
      set (M := Rsumn T (fun t => dweight t * u_game g (sigma (S t) true) (sigma (S t) false))).
      assert (EB1 : Rsumn T (fun t => dweight t *
                       (u_game g S1 (sigma (S t) false) - u_game g (sigma (S t) true) (sigma (S t) false)))
                    = X1 - M).
      { unfold X1, M. rewrite <- Rsumn_minus. apply Rsumn_ext. intros; lra. }
      assert (EB2 : Rsumn T (fun t => dweight t *
                       (- u_game g (sigma (S t) true) S2 - - u_game g (sigma (S t) true) (sigma (S t) false)))
                    = M - X2).
      { unfold X2, M. rewrite <- Rsumn_minus. apply Rsumn_ext. intros; lra. }
      rewrite EB1 in B1. rewrite EB2 in B2.
      assert (ER2 : Rsumn T (fun t => dweight t * - u_game g S1 (sigma (S t) false)) = - X1).
      { unfold X1. rewrite <- Rsumn_opp. apply Rsumn_ext. intros; lra. }
      rewrite ER2 in R2.
      pose proof (P_pos T) as HPT. pose proof (dwsum_pos T HT) as HWpos.
      assert (HTpos : 0 < INR T) by (apply lt_0_INR; lia).
      set (b1 := dbound_pl g draw p T true) in *. set (b2 := dbound_pl g draw p T false) in *.
      assert (Hsum : P T * (X1 - X2) <= INR T * ((b1 + b2) / 2)) by lra.
      assert (Hbr : @br_value RNum g true A2 + @br_value RNum g false A1 = / dwsum T * (X1 - X2)).
      { rewrite <- E1, <- E2. lra. }
      replace (@br_value RNum g true A2 - u_game g A1 A2 + (@br_value RNum g false A1 + u_game g A1 A2))
        with (@br_value RNum g true A2 + @br_value RNum g false A1) by lra.
      rewrite Hbr. unfold dconst.
      apply (Rmult_le_reg_l (P T * dwsum T)); [now apply Rmult_lt_0_compat|].
      replace (P T * dwsum T * (/ dwsum T * (X1 - X2))) with (P T * (X1 - X2)) by (field; lra).
      replace (P T * dwsum T * (INR T / (P T * dwsum T) * ((b1 + b2) / 2)))
        with (INR T * ((b1 + b2) / 2)) by (field; split; lra).
      exact Hsum.
    Qed.

    Theorem dbound_dominates budget (stop : R -> bool) strats b1 b2 ran :
      @solve_single RNum g Full draw p budget stop = (strats, Some (b1, b2), ran) ->
      let T := N.to_nat ran in
      (1 <= T <= budget)%nat /\ 0 <= b1 /\ 0 <= b2 /\
      0 <= si_reg1 (@info RNum g strats) /\ 0 <= si_reg2 (@info RNum g strats) /\
      si_reg1 (@info RNum g strats) + si_reg2 (@info RNum g strats) <= dconst T * ((b1 + b2) / 2).
    Proof.
      intros Hs. cbv zeta.
      destruct (bounds_nonneg g Full draw _ stop budget strats b1 b2 ran Hs) as [Hb1 Hb2].
      apply dsolve_single_traj in Hs as (T & HT & -> & Hb & ->). rewrite Nat2N.id.
      split; [exact HT|]. split; [exact Hb1|]. split; [exact Hb2|].
      destruct (dfinal_strats_rows g draw p T Hpos) as [ER1 ER2].
      unfold info. cbn [si_reg1 si_reg2 fmax sub add zero RNum].
      rewrite ER1, ER2.
      pose proof (davg_StratOf g draw p T true Hpos) as HA1.
      pose proof (davg_StratOf g draw p T false Hpos) as HA2.
      rewrite (expected_exact g _ _ (StratOf_nonneg _ _ _ HA1) (StratOf_nonneg _ _ _ HA2)).
      destruct (dtrajectory_bound T ltac:(lia)) as (P1 & P2 & P3).
      unfold dbound_pl in P3. rewrite Hb in P3. cbn [fst snd] in P3.
      rewrite !Rmax_left by lra. split; [lra|]. split; [lra|]. exact P3.
    Qed.
  End Dominate.
End DGame.

(** ** LCFR *)
Lemma lcfr_dweight t : dweight lcfr_d t = INR (S t).
Proof.
  unfold dweight. rewrite lcfr_dprod. apply Rinv_inv.
Qed.

Lemma Rsumn_INR_S T : Rsumn T (fun t => INR (S t)) = INR T * INR (S T) / 2.
Proof.
  induction T as [|k IH]; [rewrite Rsumn_0; cbn [INR]; lra|].
  rewrite Rsumn_S_last, IH. rewrite !S_INR. lra.
Qed.

Lemma lcfr_dwsum T : dwsum lcfr_d T = INR T * INR (S T) / 2.
Proof.
  unfold dwsum. rewrite <- Rsumn_INR_S. apply Rsumn_ext. intros t _. apply lcfr_dweight.
Qed.

Lemma lcfr_dconst T : (1 <= T)%nat -> dconst lcfr_d T = 2.
Proof.
  intros HT. unfold dconst. rewrite lcfr_dprod, lcfr_dwsum.
  assert (0 < INR T) by (apply lt_0_INR; lia).
  assert (0 < INR (S T)) by (apply lt_0_INR; lia).
  field. split; lra.
Qed.

(** the trajectory form: after [T >= 1] iterations of LCFR the two true regrets of the
    average profile are non-negative and their sum is at most the sum of the two bounds *)
Theorem lcfr_trajectory_bound (g : game) (draw : oracle) T :
  @WFgame RNum g -> @PerfectRecall RNum g -> ChanceOK g -> (1 <= T)%nat ->
  let p := @p_lcfr RNum in
  let e := u_game g (davg g draw p T true) (davg g draw p T false) in
  let br1 := @br_value RNum g true (davg g draw p T false) in
  let br2 := @br_value RNum g false (davg g draw p T true) in
  0 <= br1 - e /\ 0 <= br2 + e /\
  (br1 - e) + (br2 + e) <= dbound_pl g draw p T true + dbound_pl g draw p T false.
Proof.
  intros Hwf HPR HCh HT. cbv zeta.
  destruct (dtrajectory_bound g Hwf draw (@p_lcfr RNum) lcfr_d lcfr_d_pos lcfr_discount_reg
                              lcfr_discount_avg HPR HCh T HT) as (P1 & P2 & P3).
  rewrite lcfr_dconst in P3 by assumption. split; [exact P1|]. split; [exact P2|]. lra.
Qed.

(** *** The theorem: the constant is 1 *)
Theorem lcfr_bound_dominates (g : game) (draw : oracle) budget (stop : R -> bool) strats b1 b2 ran :
  @WFgame RNum g -> @PerfectRecall RNum g -> ChanceOK g ->
  @solve_single RNum g Full draw (@p_lcfr RNum) budget stop = (strats, Some (b1, b2), ran) ->
  @si_regret RNum (@info RNum g strats) <= 1 * (b1 + b2) /\ 0 <= b1 /\ 0 <= b2.
Proof.
  intros Hwf HPR HCh Hs.
  destruct (dbound_dominates g Hwf draw (@p_lcfr RNum) lcfr_d lcfr_d_pos lcfr_discount_reg
                             lcfr_discount_avg HPR HCh budget stop strats b1 b2 ran Hs)
    as (HT & Hb1 & Hb2 & H1 & H2 & H3).
  rewrite lcfr_dconst in H3 by lia.
  split; [|split; assumption].
  unfold si_regret. cbn [fmax RNum]. apply Rmax_lub; lra.
Qed.

(** both true regrets are non-negative, and their *sum* is below the sum of the bounds *)
Theorem lcfr_bound_dominates_each (g : game) (draw : oracle) budget (stop : R -> bool)
        strats b1 b2 ran :
  @WFgame RNum g -> @PerfectRecall RNum g -> ChanceOK g ->
  @solve_single RNum g Full draw (@p_lcfr RNum) budget stop = (strats, Some (b1, b2), ran) ->
  0 <= si_reg1 (@info RNum g strats) /\ 0 <= si_reg2 (@info RNum g strats) /\
  si_reg1 (@info RNum g strats) + si_reg2 (@info RNum g strats) <= b1 + b2.
Proof.
  intros Hwf HPR HCh Hs.
  destruct (dbound_dominates g Hwf draw (@p_lcfr RNum) lcfr_d lcfr_d_pos lcfr_discount_reg
                             lcfr_discount_avg HPR HCh budget stop strats b1 b2 ran Hs)
    as (HT & Hb1 & Hb2 & H1 & H2 & H3).
  rewrite lcfr_dconst in H3 by lia. split; [exact H1|]. split; [exact H2|]. lra.
Qed.

(** a solve that stops before its budget: the threshold is on [Rmax b1 b2], the true
    regret is below twice the threshold *)
Corollary lcfr_early_stop_sound (g : game) (draw : oracle) budget (r : R) strats b1 b2 ran :
  @WFgame RNum g -> @PerfectRecall RNum g -> ChanceOK g ->
  @solve_single RNum g Full draw (@p_lcfr RNum) budget (@stop_at RNum r) =
    (strats, Some (b1, b2), ran) ->
  (ran < N.of_nat budget)%N ->
  @si_regret RNum (@info RNum g strats) < 2 * r.
Proof.
  intros Hwf HPR HCh Hs Hran.
  destruct (lcfr_bound_dominates g draw budget _ strats b1 b2 ran Hwf HPR HCh Hs) as [Hd _].
  destruct (budget_never_exceeded g Full draw _ _ budget strats _ ran Hs) as (_ & _ & Hstop).
  destruct (Hstop Hran) as (c1 & c2 & Ec & Hfire). injection Ec as <- <-.
  unfold stop_at in Hfire. cbn [ltb RNum] in Hfire. apply Rltb_true in Hfire.
  pose proof (Rmax_l b1 b2). pose proof (Rmax_r b1 b2). lra.
Qed.

(** ** The rate of the true regret *)
Section LcfrRate.
  Context (g : game) (draw : oracle) (lo hi : R) (A : nat).
  Context (HWF : @WFgame RNum g) (HPR : @PerfectRecall RNum g) (HCO : ChanceOK g)
          (HPay : PayoffsIn lo hi (g_root g))
          (HA : forall pl, Forall (fun a => (a <= A)%nat) (arities g pl)).

  Local Notation D := (hi - lo).

  (** the sharp form: the two per-player rates add up to the total number of infosets *)
  Theorem lcfr_true_regret_rate_sharp budget (stop : R -> bool) strats b1 b2 ran :
    @solve_single RNum g Full draw (@p_lcfr RNum) budget stop = (strats, Some (b1, b2), ran) ->
    (1 <= ran)%N /\
    @si_regret RNum (@info RNum g strats) <=
    2 * D * INR (num_infosets g) * sqrt (INR A) / sqrt (INR (N.to_nat ran)).
  Proof.
    intros Hs.
    destruct (bound_rate_all_params g draw (@p_lcfr RNum) lo hi A HWF HPR HCO HPay HA
                                    budget stop strats b1 b2 ran Hs) as (Hr & H1 & H2).
    split; [exact Hr|].
    destruct (lcfr_bound_dominates g draw budget stop strats b1 b2 ran HWF HPR HCO Hs) as (Hd & _ & _).
    assert (Ht : 0 < INR (N.to_nat ran)) by (apply lt_0_INR; lia).
    assert (Hsq : 0 < sqrt (INR (N.to_nat ran))) by (now apply sqrt_lt_R0).
    eapply Rle_trans; [exact Hd|]. rewrite Rmult_1_l.
    apply (Rmult_le_reg_r (sqrt (INR (N.to_nat ran)))); [assumption|].
    unfold Rdiv. rewrite Rmult_assoc, Rinv_l, Rmult_1_r by lra.
    unfold num_infosets. rewrite plus_INR. cbn [g_infos] in H1, H2. lra.
  Qed.

  Theorem lcfr_true_regret_rate budget (stop : R -> bool) strats b1 b2 ran :
    @solve_single RNum g Full draw (@p_lcfr RNum) budget stop = (strats, Some (b1, b2), ran) ->
    @si_regret RNum (@info RNum g strats) <=
    4 * D * INR (num_infosets g) * sqrt (INR A) / sqrt (INR (N.to_nat ran)).
  Proof.
    intros Hs. destruct (lcfr_true_regret_rate_sharp budget stop strats b1 b2 ran Hs) as (Hr & H).
    eapply Rle_trans; [exact H|].
    assert (Ht : 0 < INR (N.to_nat ran)) by (apply lt_0_INR; lia).
    assert (Hsq : 0 < sqrt (INR (N.to_nat ran))) by (now apply sqrt_lt_R0).
    pose proof (D_nonneg g lo hi HWF HCO HPay) as HD.
    pose proof (sqrt_pos (INR A)) as HsA. pose proof (pos_INR (num_infosets g)) as HN.
    unfold Rdiv. apply Rmult_le_compat_r; [left; now apply Rinv_0_lt_compat|].
    assert (0 <= D * INR (num_infosets g) * sqrt (INR A)).
    { apply Rmult_le_pos; [apply Rmult_le_pos|]; assumption. }
    lra.
  Qed.

  (** the form of property C03, clause 2 *)
  Theorem lcfr_true_regret_rate_C03 budget (stop : R -> bool) strats b1 b2 ran :
    @solve_single RNum g Full draw (@p_lcfr RNum) budget stop = (strats, Some (b1, b2), ran) ->
    let T := INR (N.to_nat ran) in
    @si_regret RNum (@info RNum g strats) <=
    6 * D * INR (num_infosets g) * (sqrt (INR A) + 1 / sqrt T) / sqrt T.
  Proof.
    intros Hs. cbv zeta.
    destruct (lcfr_true_regret_rate_sharp budget stop strats b1 b2 ran Hs) as (Hr & H).
    eapply Rle_trans; [exact H|].
    assert (Ht : 0 < INR (N.to_nat ran)) by (apply lt_0_INR; lia).
    assert (Hsq : 0 < sqrt (INR (N.to_nat ran))) by (now apply sqrt_lt_R0).
    pose proof (D_nonneg g lo hi HWF HCO HPay) as HD.
    pose proof (sqrt_pos (INR A)) as HsA. pose proof (pos_INR (num_infosets g)) as HN.
    assert (Hinv : 0 < / sqrt (INR (N.to_nat ran))) by (now apply Rinv_0_lt_compat).
    unfold Rdiv. apply Rmult_le_compat_r; [lra|].
    assert (HDN : 0 <= D * INR (num_infosets g)) by (now apply Rmult_le_pos).
    assert (0 <= D * INR (num_infosets g) * sqrt (INR A)) by (now apply Rmult_le_pos).
    assert (0 <= D * INR (num_infosets g) * (1 * / sqrt (INR (N.to_nat ran)))).
    { apply Rmult_le_pos; [assumption|lra]. }
    nra.
  Qed.
End LcfrRate.

(** ** Non-vacuity: matching pennies with player two's two nodes in one infoset
    ([SolveValidProofs.mp_game]): every LCFR solve with a positive budget returns bounds
    to which the theorems apply *)
Example mp_lcfr_bound_dominates (draw : oracle) (budget : nat) (stop : R -> bool) :
  (1 <= budget)%nat ->
  exists strats b1 b2 ran,
    @solve_single RNum SolveValidProofs.mp_game Full draw (@p_lcfr RNum) budget stop =
      (strats, Some (b1, b2), ran) /\
    @si_regret RNum (@info RNum SolveValidProofs.mp_game strats) <= b1 + b2 /\
    0 <= b1 /\ 0 <= b2 /\
    @si_regret RNum (@info RNum SolveValidProofs.mp_game strats) <=
      4 * sqrt 2 / sqrt (INR (N.to_nat ran)) + 4 * sqrt 2 / sqrt (INR (N.to_nat ran)).
Proof.
  intros Hb.
  destruct (@solve_single RNum SolveValidProofs.mp_game Full draw (@p_lcfr RNum) budget stop) as [[strats regs] ran] eqn:E.
  destruct (budget_never_exceeded SolveValidProofs.mp_game Full draw _ stop budget strats regs ran E) as (_ & Hsome & _).
  destruct (Hsome Hb) as (Hran & b1 & b2 & ->).
  exists strats, b1, b2, ran. split; [reflexivity|].
  destruct (lcfr_bound_dominates SolveValidProofs.mp_game draw budget stop strats b1 b2 ran
                                 mp_WFgame mp_PerfectRecall BoundDominates.mp_ChanceOK E) as (Hd & Hb1 & Hb2).
  rewrite Rmult_1_l in Hd.
  split; [exact Hd|]. split; [exact Hb1|]. split; [exact Hb2|].
  destruct (bound_rate_all_params SolveValidProofs.mp_game draw (@p_lcfr RNum) (-1) 1 2 mp_WF mp_PR CfrRate.mp_ChanceOK
                                  mp_Payoffs mp_arities budget stop strats b1 b2 ran E) as (_ & H1 & H2).
  cbn [SolveValidProofs.mp_game g_infos g_infos1 g_infos2 length INR] in H1, H2.
  replace (sqrt (1 + 1)) with (sqrt 2) in H1, H2 by (f_equal; lra).
  assert (Ht : 0 < INR (N.to_nat ran)) by (apply lt_0_INR; lia).
  assert (Hsq : 0 < sqrt (INR (N.to_nat ran))) by (now apply sqrt_lt_R0).
  eapply Rle_trans; [exact Hd|].
  apply (Rmult_le_reg_r (sqrt (INR (N.to_nat ran)))); [assumption|].
  set (s := sqrt (INR (N.to_nat ran))) in *.
  replace ((4 * sqrt 2 / s + 4 * sqrt 2 / s) * s) with (4 * sqrt 2 + 4 * sqrt 2) by (field; lra).
  lra.
Qed.

(** ** The sum [b1 + b2] cannot be replaced by the total bound [Rmax b1 b2].

    For vanilla params the true regret is below [Rmax b1 b2]
    ([BoundDominatesClosed.bound_dominates_closed]).  For LCFR it is not: in the 2x2 game
    [BoundDominates.g2], after two iterations, both returned bounds are [1/12] while the
    true regret of the returned profile is at least [5/36] (it is exactly [5/36]). *)
Lemma lcfr_rm_np x y : x <= 0 -> 0 < y -> @regret_match RNum (@p_lcfr RNum) [x; y] = [0; 1].
Proof.
  intros Hx Hy. rewrite regret_match_unfold. cbv zeta. cbn [filter].
  assert (E1 : Rltb 0 x = false) by (apply Rltb_false; lra).
  assert (E2 : Rltb 0 y = true) by (apply Rltb_true; lra).
  rewrite E1, E2. cbn [Rsum].
  assert (E3 : Rltb 0 (y + 0) = true) by (apply Rltb_true; lra).
  rewrite E3. cbn [map]. rewrite E1, E2. f_equal. f_equal. field. lra.
Qed.

Lemma lcfr_rm_pn x y : 0 < x -> y <= 0 -> @regret_match RNum (@p_lcfr RNum) [x; y] = [1; 0].
Proof.
  intros Hx Hy. rewrite regret_match_unfold. cbv zeta. cbn [filter].
  assert (E1 : Rltb 0 x = true) by (apply Rltb_true; lra).
  assert (E2 : Rltb 0 y = false) by (apply Rltb_false; lra).
  rewrite E1, E2. cbn [Rsum].
  assert (E3 : Rltb 0 (x + 0) = true) by (apply Rltb_true; lra).
  rewrite E3. cbn [map]. rewrite E1, E2. f_equal. field. lra.
Qed.

Lemma g2_lcfr_iter draw t a1 a2 c1 c2 e1 e2 a3 a4 c3 c4 f1 f2 :
  (1 <= t)%nat ->
  @vanilla_iter RNum g2 false draw (@p_lcfr RNum) (N.of_nat t)
                (st12 a1 a2 c1 c2 a3 a4 c3 c4 [e1; e2] [f1; f2]) =
  let dd := lcfr_d t in
  let r11 := a1 - f2 * e2 in
  let r12 := a2 + f2 - f2 * e2 in
  let r21 := a3 + e2 * f2 in
  let r22 := a4 - e2 + e2 * f2 in
  (st12 (r11 * dd) (r12 * dd) ((c1 + e1) * dd) ((c2 + e2) * dd)
        (r21 * dd) (r22 * dd) ((c3 + 2 * f1) * dd) ((c4 + 2 * f2) * dd)
        (@regret_match RNum (@p_lcfr RNum) [r11; r12]) (@regret_match RNum (@p_lcfr RNum) [r21; r22]),
   (2 * Rmax (Rmax (r11 * dd) (r12 * dd)) 0 / INR t,
    2 * Rmax (Rmax (r21 * dd) (r22 * dd)) 0 / INR t)).
Proof.
  intros Ht. rewrite vanilla_iter_eq. cbv zeta. change (g_chance g2) with (@nil (list R)).
  rewrite g2_vrec. rewrite !advance_all_map. unfold st12.
  cbn [fst snd map Rsum]. unfold advance. cbn [fst snd cum_regret cum_strat strat].
  rewrite !lcfr_discount_reg, !lcfr_discount_avg by assumption.
  rewrite !cum_regret_bound_eq. cbn [map]. unfold Rmaxl. cbn [reduce_max fold_left fmax RNum].
  rewrite Nat2N.id. f_equal. f_equal; lra.
Qed.

Lemma dstate_at_unfold (g : game) (draw : oracle) (p : params) k :
  dstate_at g draw p (S k) =
  fst (@vanilla_iter RNum g false draw p (N.of_nat (S k)) (dstate_at g draw p k)).
Proof. reflexivity. Qed.

Lemma g2_lcfr_state1 draw :
  dstate_at g2 draw (@p_lcfr RNum) 1 =
  st12 (-1 / 8) (1 / 8) (1 / 4) (1 / 4) (1 / 8) (-1 / 8) (1 / 2) (1 / 2) [0; 1] [1; 0].
Proof.
  cbn [dstate_at]. rewrite g2_init, (g2_lcfr_iter draw 1) by lia. cbv zeta. cbn [fst].
  rewrite lcfr_rm_np, lcfr_rm_pn by lra. unfold lcfr_d. cbn [INR].
  apply st12_ext; try reflexivity; lra.
Qed.

Lemma g2_lcfr_state2 draw :
  exists s1 s2,
    dstate_at g2 draw (@p_lcfr RNum) 2 =
    st12 (-1 / 12) (1 / 12) (1 / 6) (5 / 6) (1 / 12) (-3 / 4) (5 / 3) (1 / 3) s1 s2.
Proof.
  do 2 eexists.
  rewrite (dstate_at_unfold g2 draw (@p_lcfr RNum) 1).
  rewrite g2_lcfr_state1, (g2_lcfr_iter draw 2) by lia. cbv zeta. cbn [fst].
  unfold lcfr_d. cbn [INR]. apply st12_ext; try reflexivity; lra.
Qed.

Lemma g2_lcfr_bounds2 draw : dbounds_at g2 draw (@p_lcfr RNum) 2 = (1 / 12, 1 / 12).
Proof.
  unfold dbounds_at. change (2 - 1)%nat with 1%nat.
  rewrite g2_lcfr_state1, (g2_lcfr_iter draw 2) by lia. cbv zeta. cbn [snd].
  unfold lcfr_d. cbn [INR].
  rewrite bound2_r, bound2_l by lra. f_equal; lra.
Qed.

Theorem lcfr_max_bound_refuted (draw : oracle) :
  exists (g : game) budget stop strats b1 b2 ran,
    @WFgame RNum g /\ @PerfectRecall RNum g /\ ChanceOK g /\
    @solve_single RNum g Full draw (@p_lcfr RNum) budget stop = (strats, Some (b1, b2), ran) /\
    Rmax b1 b2 < @si_regret RNum (@info RNum g strats) /\
    @si_regret RNum (@info RNum g strats) <= b1 + b2.
Proof.
  destruct (@solve_single RNum g2 Full draw (@p_lcfr RNum) 2 never) as [[strats regs] ran] eqn:E.
  pose proof (solve_single_no_stop g2 Full draw (@p_lcfr RNum) 2 never (fun _ => eq_refl)) as Hran.
  rewrite E in Hran. cbn [snd] in Hran.
  destruct (budget_never_exceeded g2 Full draw _ never 2 strats regs ran E) as (_ & Hsome & _).
  destruct (Hsome ltac:(lia)) as (_ & b1 & b2 & ->).
  exists g2, 2%nat, never, strats, b1, b2, ran.
  split; [exact g2_WFgame|]. split; [exact g2_PerfectRecall|]. split; [exact g2_ChanceOK|].
  split; [exact E|]. split.
  2:{ pose proof (lcfr_bound_dominates g2 draw 2 never strats b1 b2 ran g2_WFgame g2_PerfectRecall
                                        g2_ChanceOK E) as (Hd & _). lra. }
  apply dsolve_single_traj in E as (T & HT & -> & Hb & HranT).
  assert (HT2 : T = 2%nat) by (apply Nat2N.inj; congruence). subst T.
  rewrite g2_lcfr_bounds2 in Hb. injection Hb as <- <-.
  pose proof (WFgame_arities_pos g2 g2_WFgame) as Hpos.
  destruct (dfinal_strats_rows g2 draw (@p_lcfr RNum) 2 Hpos) as [ER1 ER2].
  pose proof (davg_StratOf g2 draw (@p_lcfr RNum) 2 true Hpos) as HA1.
  pose proof (davg_StratOf g2 draw (@p_lcfr RNum) 2 false Hpos) as HA2.
  unfold si_regret, info. cbn [si_reg1 si_reg2 fmax sub add zero RNum].
  rewrite ER1, ER2.
  rewrite (expected_exact g2 _ _ (StratOf_nonneg _ _ _ HA1) (StratOf_nonneg _ _ _ HA2)).
  assert (Hst : StratOf g2 false [[1; 0]]).
  { split; [|reflexivity]. constructor; [|constructor]. split; [repeat constructor; lra|cbn; lra]. }
  pose proof (br_upper g2 false (davg g2 draw (@p_lcfr RNum) 2 true) g2_WFgame g2_PerfectRecall
                       g2_ChanceOK (StratOf_nonneg _ _ _ HA1) [[1; 0]] Hst) as U2.
  destruct (g2_lcfr_state2 draw) as (s1 & s2 & Est).
  assert (EA1 : davg g2 draw (@p_lcfr RNum) 2 true = [[1 / 6; 5 / 6]]).
  { unfold davg. rewrite Est. unfold st12. cbn [ps_get fst map cum_strat].
    rewrite avg2 by lra. f_equal. f_equal; [|f_equal]; lra. }
  assert (EA2 : davg g2 draw (@p_lcfr RNum) 2 false = [[5 / 6; 1 / 6]]).
  { unfold davg. rewrite Est. unfold st12. cbn [ps_get snd map cum_strat].
    rewrite avg2 by lra. f_equal. f_equal; [|f_equal]; lra. }
  rewrite EA1, EA2 in *.
  assert (Eu : u_game g2 [[1 / 6; 5 / 6]] [[5 / 6; 1 / 6]] = 5 / 36).
  { unfold u_game. cbv -[Rdiv Rplus Rmult Rminus Ropp Rinv IZR]. lra. }
  assert (Ev : u_me g2 false [[1; 0]] [[1 / 6; 5 / 6]] = 0).
  { unfold u_me, u_game. cbv -[Rdiv Rplus Rmult Rminus Ropp Rinv IZR]. lra. }
  rewrite Eu. rewrite Ev in U2.
  set (br1 := @br_value RNum g2 true _). set (br2 := @br_value RNum g2 false _) in *.
  pose proof (Rmax_r (Rmax (br1 - 5 / 36) 0) (Rmax (br2 + 5 / 36) 0)).
  pose proof (Rmax_l (br2 + 5 / 36) 0).
  rewrite (Rmax_left (1 / 12) (1 / 12)) by lra. lra.
Qed.

(** ** What a solve returns, in terms of the trajectory: the strategies are the
    normalised [cum_strat] of the state after [T = ran] iterations, and the bound of each
    player is [sum_I 2 * max(max_a cum_regret_T(I, a), 0) / T] (with
    [cum_regret_T] given by [lcfr_regret_at_sum]) *)
Theorem lcfr_solve_single_spec (g : game) (draw : oracle) budget (stop : R -> bool) strats b1 b2 ran :
  arities_pos g ->
  @solve_single RNum g Full draw (@p_lcfr RNum) budget stop = (strats, Some (b1, b2), ran) ->
  let p := @p_lcfr RNum in
  let T := N.to_nat ran in
  (1 <= T <= budget)%nat /\
  strats = @final_strats RNum (dstate_at g draw p T) /\
  b1 = Rsumn (ninfos g true)
         (fun i => 2 * Rmax (Rmaxl (cum_regret (@ri_get RNum (dstate_at g draw p T) true i))) 0 / INR T) /\
  b2 = Rsumn (ninfos g false)
         (fun i => 2 * Rmax (Rmaxl (cum_regret (@ri_get RNum (dstate_at g draw p T) false i))) 0 / INR T).
Proof.
  intros Hpos Hs. cbv zeta.
  apply dsolve_single_traj in Hs as (T & HT & -> & Hb & ->). rewrite Nat2N.id.
  split; [exact HT|]. split; [reflexivity|].
  pose proof (lcfr_bound_pl_eq g draw Hpos T true ltac:(lia)) as E1.
  pose proof (lcfr_bound_pl_eq g draw Hpos T false ltac:(lia)) as E2.
  unfold dbound_pl in E1, E2. rewrite Hb in E1, E2. cbn [fst snd] in E1, E2. split; assumption.
Qed.
