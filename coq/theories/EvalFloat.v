(** * EvalFloat: [regret::expected] at binary64 itself (instance [FNum]).

    Property C01 says that the reported player-one utility is the expected terminal
    payoff.  Over the reals this is [EvalProofs.expected_exact]; this file is about the
    very function that is executed, [@expected FNum], and gives a forward error bound:

      | FR (expected g s1 s2) - U |  <=  ((1 + 2^-53)^k - 1) * (S + L * B * 2^-1022)

    where [U] is the exact (real) expected payoff computed from the real values of the
    same binary64 probabilities and payoffs, [S] the sum over the leaves of
    reach * |payoff|, [L] the number of leaves, [B >= 1] a bound on the |payoffs|, and
    [k = depth + 1 + L].  The term [L * B * 2^-1022] pays for every possible underflow
    of a product (no hypothesis "no underflow" is needed); the result is finite (no
    NaN, no infinity) as soon as [(1+2^-53)^k * (S + L*B*2^-1022) < 2^1024].

    Evaluation order analysed (see [Eval.exp_acc]): depth first with one running
    accumulator; the reach probability is multiplied down the path
    ([reach_new = fl (p x reach)], one rounding per level), a leaf does
    [fl (acc + fl (reach x payoff))] (two roundings), children are visited last to first,
    and actions whose probability is not [> 0] are skipped at player nodes.
    Rounding count: a leaf at depth [j] sees [j] roundings on its reach, one for the
    product with the payoff, and then one per addition performed from that leaf on,
    at most [L]: hence [k = depth + 1 + L].

    Main results
    - [exp_acc_spec]            the invariant, for any subtree, reach and accumulator;
    - [expected_float_general]  finite + error bound, under "the bound is < 2^1024";
    - [expected_float_bound]    the same under [k * 2^-53 <= 1/2] and [L * B <= 2^1000],
                                with the linear form [k * 2^-52 * (S + L*B*2^-1022)];
    - [expected_float_relative] error relative to [S] alone when [S >= L*B*2^-969];
    - [U_exact_spec] / [U_exact_model] / [U_exact_leaves] / [S_abs_leaves]:
                                [U] is [EvalSpec.u] = [@expected RNum] = the leaf sum on the
                                [FR]-image of the game, [S] the leaf sum of reach * |payoff|;
    - [expected_float_vs_real]  binary64 evaluator against the real-number model;
    - [info_util_float_bound]   the same for [si_util (info g prof)], the reported utility;
    - [ex_expected_value], [ex_bound]  a concrete tree. *)
From Coq Require Import List ZArith Reals Floats Bool Lia Lra Arith Psatz.
From Flocq Require Import Core IEEE754.BinarySingleNaN IEEE754.PrimFloat Plus_error Relative.
From Cfr.theories Require Import Num FInst RInst Tree GameWF Eval Valid EvalSpec EvalProofs
  TruncFloat DistFloat NormFloat.
Import ListNotations.

Local Existing Instance Flocq.IEEE754.PrimFloat.Hprec.
Local Existing Instance Flocq.IEEE754.PrimFloat.Hmax.

Local Open Scope R_scope.
Local Notation float := PrimFloat.float.
Local Notation Hp := Flocq.IEEE754.PrimFloat.Hprec.
Local Notation Hm := Flocq.IEEE754.PrimFloat.Hmax.
Local Notation node := (@node FNum).
Local Notation game := (@game FNum).

Local Instance fexp_valid'' : Valid_exp (SpecFloat.fexp prec emax) := fexp_correct prec emax Hp.

(** ** Constants *)

(** smallest positive normal binary64 number *)
Definition om1022 : R := bpow radix2 (-1022).
(** overflow threshold *)
Definition Omax : R := bpow radix2 emax.

(** [(1 + 2^-53)^m]: the accumulated rounding factor of [m] operations *)
Definition G (m : nat) : R := (1 + u53) ^ m.

Lemma om1022_pos : 0 < om1022.
Proof. apply bpow_gt_0. Qed.

Lemma om1022_le_1 : om1022 <= 1.
Proof. change 1 with (bpow radix2 0). apply bpow_le. lia. Qed.

Lemma u53_om1022 : u53 * om1022 = eta1075.
Proof. unfold u53, om1022, eta1075. rewrite <- bpow_plus. reflexivity. Qed.

Lemma G_0 : G 0 = 1.
Proof. reflexivity. Qed.

Lemma G_S : forall m, G (S m) = (1 + u53) * G m.
Proof. reflexivity. Qed.

Lemma G_ge_1 : forall m, 1 <= G m.
Proof. intros m. unfold G. apply pow_R1_Rle. generalize u53_pos. lra. Qed.

Lemma G_mono : forall m n, (m <= n)%nat -> G m <= G n.
Proof. intros m n H. unfold G. apply Rle_pow; [generalize u53_pos; lra | exact H]. Qed.

(** ** The three real-number steps of the error analysis *)

(** one more level: [r' = rnd (p * r)] *)
Lemma reach_step_R : forall p r rho r' g,
  0 <= p <= 1 -> 0 <= rho -> 0 <= r -> 0 <= g ->
  Rabs (r - rho) <= g * (rho + om1022) ->
  Rabs (r' - p * r) <= u53 * (p * r + om1022) ->
  Rabs (r' - p * rho) <= ((1 + u53) * (1 + g) - 1) * (p * rho + om1022).
Proof.
  intros p r rho r' g [Hp0 Hp1] Hrho Hr Hg He Hd.
  assert (Hu := u53_pos). assert (Hw := om1022_pos).
  apply Rabs_le_inv in He. apply Rabs_le_inv in Hd. apply Rabs_le.
  set (e := r - rho) in *.
  assert (Er : r = rho + e) by (unfold e; ring).
  rewrite Er in Hd.
  assert (H1 : p * e <= p * (g * (rho + om1022))) by (apply Rmult_le_compat_l; lra).
  assert (H2 : - (p * (g * (rho + om1022))) <= p * e).
  { replace (- (p * (g * (rho + om1022)))) with (p * (- (g * (rho + om1022)))) by ring.
    apply Rmult_le_compat_l; lra. }
  assert (H3 : u53 * (p * e) <= u53 * (p * (g * (rho + om1022))))
    by (apply Rmult_le_compat_l; lra).
  assert (H4 : 0 <= (1 - p) * (g * (1 + u53) * om1022)).
  { apply Rmult_le_pos; [lra|]. apply Rmult_le_pos; [|lra]. apply Rmult_le_pos; lra. }
  replace (r' - p * rho) with ((r' - p * (rho + e)) + p * e) by ring.
  split; lra.
Qed.

(** the product at a leaf: [t = rnd (r * x)] *)
Lemma leaf_step_R : forall r rho x t g B,
  0 <= rho -> 0 <= r -> 0 <= g -> Rabs x <= B -> 1 <= B ->
  Rabs (r - rho) <= g * (rho + om1022) ->
  Rabs (t - r * x) <= u53 * (Rabs (r * x) + om1022) ->
  Rabs (t - rho * x) <= ((1 + u53) * (1 + g) - 1) * (rho * Rabs x + om1022 * B).
Proof.
  intros r rho x t g B Hrho Hr Hg HxB HB He Hd.
  assert (Hu := u53_pos). assert (Hw := om1022_pos).
  rewrite Rabs_mult, (Rabs_pos_eq r Hr) in Hd.
  set (a := Rabs x) in *.
  assert (Ha : 0 <= a) by apply Rabs_pos.
  replace (t - rho * x) with ((t - r * x) + (r - rho) * x) by ring.
  apply Rle_trans with (1 := Rabs_triang _ _).
  rewrite (Rabs_mult (r - rho) x). fold a.
  assert (H1 : Rabs (r - rho) * a <= g * (rho + om1022) * a)
    by (apply Rmult_le_compat_r; assumption).
  assert (Hr' : r <= rho + g * (rho + om1022)).
  { apply Rabs_le_inv in He. lra. }
  assert (H2 : u53 * (r * a) <= u53 * ((rho + g * (rho + om1022)) * a)).
  { apply Rmult_le_compat_l; [lra|]. apply Rmult_le_compat_r; assumption. }
  assert (H3 : 0 <= g * (1 + u53) * om1022 * (B - a)).
  { apply Rmult_le_pos; [|lra]. apply Rmult_le_pos; [|lra]. apply Rmult_le_pos; lra. }
  assert (H4 : 0 <= u53 * om1022 * (B - 1)).
  { apply Rmult_le_pos; [|lra]. apply Rmult_le_pos; lra. }
  lra.
Qed.

(** the addition into the accumulator: [a' = rnd (a + t) = (a + t)(1 + eps)] *)
Lemma acc_step_R : forall a A M t tau mu a' g,
  0 <= g -> Rabs A <= M -> Rabs tau <= mu ->
  Rabs (a - A) <= g * M ->
  Rabs (t - tau) <= g * mu ->
  Rabs (a' - (a + t)) <= u53 * Rabs (a + t) ->
  Rabs (A + tau) <= M + mu /\
  Rabs (a' - (A + tau)) <= ((1 + u53) * (1 + g) - 1) * (M + mu) /\
  Rabs a' <= (1 + u53) * (1 + g) * (M + mu).
Proof.
  intros a A M t tau mu a' g Hg HA Htau Ha Ht Hd.
  assert (Hu := u53_pos).
  assert (HM : 0 <= M) by (apply Rle_trans with (2 := HA); apply Rabs_pos).
  assert (Hmu : 0 <= mu) by (apply Rle_trans with (2 := Htau); apply Rabs_pos).
  assert (HAt : Rabs (A + tau) <= M + mu).
  { apply Rle_trans with (1 := Rabs_triang _ _). lra. }
  assert (HE : Rabs ((a + t) - (A + tau)) <= g * (M + mu)).
  { replace ((a + t) - (A + tau)) with ((a - A) + (t - tau)) by ring.
    apply Rle_trans with (1 := Rabs_triang _ _). lra. }
  assert (Hat : Rabs (a + t) <= (1 + g) * (M + mu)).
  { replace (a + t) with ((A + tau) + ((a + t) - (A + tau))) by ring.
    apply Rle_trans with (1 := Rabs_triang _ _). lra. }
  assert (H1 : u53 * Rabs (a + t) <= u53 * ((1 + g) * (M + mu)))
    by (apply Rmult_le_compat_l; lra).
  assert (Hmain : Rabs (a' - (A + tau)) <= ((1 + u53) * (1 + g) - 1) * (M + mu)).
  { replace (a' - (A + tau)) with ((a' - (a + t)) + ((a + t) - (A + tau))) by ring.
    apply Rle_trans with (1 := Rabs_triang _ _). lra. }
  split; [exact HAt|]. split; [exact Hmain|].
  replace a' with ((A + tau) + (a' - (A + tau))) by ring.
  apply Rle_trans with (1 := Rabs_triang _ _). lra.
Qed.

(** ** Rounding errors of the two operations *)

(** any rounding (used for the products): relative error [2^-53] with respect to
    [|x| + 2^-1022]; covers underflow *)
Lemma mul_err : forall x, Rabs (rnd x - x) <= u53 * (Rabs x + om1022).
Proof.
  intros x. apply Rle_trans with (1 := div_err x).
  rewrite Rmult_plus_distr_l, u53_om1022. lra.
Qed.

(** a sum of two binary64 numbers: purely relative error, also when the sum is
    subnormal *)
Lemma add_rel : forall x y, fmt x -> fmt y ->
  Rabs (rnd (x + y) - (x + y)) <= u53 * Rabs (x + y).
Proof.
  intros x y Hx Hy.
  destruct (FLT_plus_error_N_ex radix2 (SpecFloat.emin prec emax) prec
              (fun n => negb (Z.even n)) x y Hx Hy) as [e [He Heq]].
  change (round radix2 (FLT_exp (SpecFloat.emin prec emax) prec)
            (Znearest (fun n => negb (Z.even n))) (x + y)) with (rnd (x + y)) in Heq.
  assert (Hu : u_ro radix2 prec = u53).
  { unfold u_ro. rewrite half_bpow. reflexivity. }
  rewrite Hu in He.
  assert (Hup := u53_pos).
  assert (He' : Rabs e <= u53).
  { apply Rle_trans with (1 := He).
    apply Rmult_le_reg_r with (1 + u53); [lra|].
    unfold Rdiv. rewrite Rmult_assoc, Rinv_l by lra. nra. }
  rewrite Heq.
  replace ((x + y) * (1 + e) - (x + y)) with ((x + y) * e) by ring.
  rewrite Rabs_mult, Rmult_comm.
  apply Rmult_le_compat_r; [apply Rabs_pos | exact He'].
Qed.

Lemma one_lt_Omax : 1 < Omax.
Proof.
  unfold Omax. apply Rlt_trans with (2 := bpow53_lt_emax). apply IZR_lt. lia.
Qed.

(** reach probability one level down *)
Lemma mul_reach : forall p r : float, fin01 p -> fin01 r ->
  fin01 (p * r)%float /\ FR (p * r)%float = rnd (FR p * FR r).
Proof.
  intros p r [Hpf [Hp0 Hp1]] [Hrf [Hr0 Hr1]].
  assert (H0 : 0 <= FR p * FR r) by (apply Rmult_le_pos; assumption).
  assert (H1 : FR p * FR r <= 1).
  { replace 1 with (1 * 1) by ring. apply Rmult_le_compat; assumption. }
  assert (Hr0' : 0 <= rnd (FR p * FR r)) by (apply rnd_ge_fmt; [apply fmt_0 | exact H0]).
  assert (Hr1' : rnd (FR p * FR r) <= 1) by (apply rnd_le_fmt; [apply fmt_1 | exact H1]).
  assert (Hb : Rabs (rnd (FR p * FR r)) < bpow radix2 emax).
  { rewrite Rabs_pos_eq by exact Hr0'. apply Rle_lt_trans with (1 := Hr1'). apply one_lt_Omax. }
  destruct (mul_ok p r Hpf Hrf Hb) as [Hf He].
  split; [|exact He]. split; [exact Hf|]. rewrite He. split; assumption.
Qed.

Lemma FR_lt_Omax : forall x : float, Rabs (FR x) < Omax.
Proof. intros x. unfold FR, Omax. apply abs_B2R_lt_emax. Qed.

(** reach times payoff at a leaf *)
Lemma mul_leaf : forall r x : float, fin01 r -> Ffin x ->
  Ffin (r * x)%float /\ FR (r * x)%float = rnd (FR r * FR x).
Proof.
  intros r x [Hrf [Hr0 Hr1]] Hxf.
  assert (Ha : Rabs (FR r * FR x) <= Rabs (FR x)).
  { rewrite Rabs_mult, (Rabs_pos_eq _ Hr0).
    rewrite <- (Rmult_1_l (Rabs (FR x))) at 2.
    apply Rmult_le_compat_r; [apply Rabs_pos | exact Hr1]. }
  apply Rabs_le_inv in Ha.
  assert (Hfa : fmt (Rabs (FR x))) by (apply generic_format_abs; apply fmt_FR).
  assert (Hfo : fmt (- Rabs (FR x))) by (apply generic_format_opp; exact Hfa).
  assert (Hup : rnd (FR r * FR x) <= Rabs (FR x)) by (apply rnd_le_fmt; [exact Hfa | lra]).
  assert (Hlo : - Rabs (FR x) <= rnd (FR r * FR x)) by (apply rnd_ge_fmt; [exact Hfo | lra]).
  assert (Hb : Rabs (rnd (FR r * FR x)) < bpow radix2 emax).
  { apply Rle_lt_trans with (Rabs (FR x)); [apply Rabs_le; lra | apply FR_lt_Omax]. }
  exact (mul_ok r x Hrf Hxf Hb).
Qed.

(** ** Shape of a tree *)

Fixpoint depth (n : node) : nat :=
  match n with
  | Term _ => O
  | Chance _ kids => S (list_max (map depth kids))
  | Player _ _ kids => S (list_max (map depth kids))
  end.

Fixpoint nleaves (n : node) : nat :=
  match n with
  | Term _ => 1%nat
  | Chance _ kids => list_sum (map nleaves kids)
  | Player _ _ kids => list_sum (map nleaves kids)
  end.

(** every payoff is a finite float of magnitude at most [B] *)
Inductive PayOK (B : R) : node -> Prop :=
| PayOK_Term : forall x, Ffin x -> Rabs (FR x) <= B -> PayOK B (@Term FNum x)
| PayOK_Chance : forall ci kids, Forall (PayOK B) kids -> PayOK B (@Chance FNum ci kids)
| PayOK_Player : forall pl i kids, Forall (PayOK B) kids -> PayOK B (@Player FNum pl i kids).

(** ** The exact quantities, over the reals, on the same binary64 data *)

Section WSum.
  Context (v : node -> R).
  (** [sum_k FR p_k * v kid_k] over the common prefix *)
  Fixpoint wsum (ps : list float) (ks : list node) {struct ks} : R :=
    match ps, ks with
    | p :: ps', k :: ks' => FR p * v k + wsum ps' ks'
    | _, _ => 0
    end.
End WSum.

Section Exact.
  Context (chance s1 s2 : list (list float)).

  (** exact expected payoff of player one *)
  Fixpoint uR (n : node) : R :=
    match n with
    | Term x => FR x
    | Chance ci kids => wsum uR (@row FNum chance ci) kids
    | Player pl i kids => wsum uR (@row FNum (if pl then s1 else s2) i) kids
    end.

  (** exact expected absolute payoff: sum over the leaves of reach * |payoff| *)
  Fixpoint aR (n : node) : R :=
    match n with
    | Term x => Rabs (FR x)
    | Chance ci kids => wsum aR (@row FNum chance ci) kids
    | Player pl i kids => wsum aR (@row FNum (if pl then s1 else s2) i) kids
    end.
End Exact.

(** ** The loops of [exp_acc], as one top-level function

    [tst] is the test "visit this child": always true at chance nodes, [0 < p] at
    player nodes. *)
Section Loops.
  Context (f : node -> float -> float -> float) (tst : float -> bool) (reach : float).
  Fixpoint fgo (ps : list float) (ks : list node) (acc : float) {struct ks} : float :=
    match ps, ks with
    | p :: ps', k :: ks' =>
        if tst p then f k (p * reach)%float (fgo ps' ks' acc) else fgo ps' ks' acc
    | _, _ => acc
    end.
End Loops.

Lemma exp_acc_Term : forall chance s1 s2 x reach acc,
  @exp_acc FNum chance s1 s2 (Term x) reach acc = (acc + reach * x)%float.
Proof. reflexivity. Qed.

Lemma exp_acc_Chance : forall chance s1 s2 ci kids reach acc,
  @exp_acc FNum chance s1 s2 (Chance ci kids) reach acc =
  fgo (@exp_acc FNum chance s1 s2) (fun _ => true) reach (@row FNum chance ci) kids acc.
Proof. reflexivity. Qed.

Lemma exp_acc_Player : forall chance s1 s2 pl i kids reach acc,
  @exp_acc FNum chance s1 s2 (Player pl i kids) reach acc =
  fgo (@exp_acc FNum chance s1 s2) (fun p => PrimFloat.ltb 0 p) reach
      (@row FNum (if pl then s1 else s2) i) kids acc.
Proof. reflexivity. Qed.

(** ** Invariants *)

(** the computed reach [r] against the exact reach [rho], after [j] levels *)
Definition reachOK (r : float) (rho : R) (j : nat) : Prop :=
  fin01 r /\ 0 <= rho /\ Rabs (FR r - rho) <= (G j - 1) * (rho + om1022).

(** the computed accumulator [a] against the exact partial sum [A]; [M] bounds the
    absolute mass accumulated so far, [m] counts roundings *)
Definition accOK (a : float) (A M : R) (m : nat) : Prop :=
  Ffin a /\ Rabs A <= M /\ Rabs (FR a - A) <= (G m - 1) * M.

Lemma accOK_weaken : forall a A M m A2 M2 m2,
  accOK a A M m -> A = A2 -> M <= M2 -> (m <= m2)%nat -> accOK a A2 M2 m2.
Proof.
  intros a A M m A2 M2 m2 [Hf [HA He]] <- HM Hm.
  assert (HM0 : 0 <= M) by (apply Rle_trans with (2 := HA); apply Rabs_pos).
  split; [exact Hf|]. split; [lra|].
  apply Rle_trans with (1 := He).
  assert (H1 := G_ge_1 m). assert (H2 := G_mono m m2 Hm).
  apply Rmult_le_compat; lra.
Qed.

Lemma accOK_bound : forall a A M m, accOK a A M m -> Rabs (FR a) <= G m * M.
Proof.
  intros a A M m [_ [HA He]].
  replace (FR a) with (A + (FR a - A)) by ring.
  apply Rle_trans with (1 := Rabs_triang _ _). lra.
Qed.

Lemma reachOK_one : reachOK 1%float 1 0.
Proof.
  split; [|split].
  - split; [apply Ffin_one | rewrite FR_one; lra].
  - lra.
  - rewrite FR_one, G_0. replace (1 - 1) with 0 by ring. rewrite Rabs_R0. lra.
Qed.

Lemma accOK_zero : accOK 0%float 0 0 0.
Proof.
  split; [apply Ffin_zero|]. rewrite FR_zero, Rabs_R0.
  split; [lra|]. replace (0 - 0) with 0 by ring. rewrite Rabs_R0. lra.
Qed.

(** one level down *)
Lemma reachOK_step : forall p r rho j,
  fin01 p -> reachOK r rho j -> reachOK (p * r)%float (FR p * rho) (S j).
Proof.
  intros p r rho j Hp [Hr [Hrho He]].
  destruct (mul_reach p r Hp Hr) as [Hf Heq].
  destruct Hp as [_ Hp01]. destruct Hr as [_ [Hr0 _]].
  split; [exact Hf|]. split; [apply Rmult_le_pos; lra|].
  rewrite Heq, G_S.
  assert (Hg : 0 <= G j - 1) by (generalize (G_ge_1 j); lra).
  replace ((1 + u53) * G j - 1) with ((1 + u53) * (1 + (G j - 1)) - 1) by ring.
  apply (reach_step_R (FR p) (FR r) rho _ (G j - 1) Hp01 Hrho Hr0 Hg He).
  assert (Hm := mul_err (FR p * FR r)).
  rewrite (Rabs_pos_eq (FR p * FR r)) in Hm by (apply Rmult_le_pos; lra).
  exact Hm.
Qed.

(** a leaf *)
Lemma leaf_step : forall B r rho j a A M m x,
  1 <= B -> Ffin x -> Rabs (FR x) <= B ->
  reachOK r rho j -> accOK a A M m ->
  let m' := (Nat.max m (j + 1) + 1)%nat in
  let M' := M + rho * Rabs (FR x) + om1022 * B in
  G m' * M' < Omax ->
  accOK (a + r * x)%float (A + rho * FR x) M' m'.
Proof.
  intros B r rho j a A M m x HB Hxf HxB [Hr [Hrho He]] [Haf [HA Hea]] m' M' Hov.
  destruct (mul_leaf r x Hr Hxf) as [Htf Hteq].
  destruct Hr as [_ [Hr0 _]].
  set (K := Nat.max m (j + 1)) in *.
  set (g := G K - 1).
  assert (Hg : 0 <= g) by (unfold g; generalize (G_ge_1 K); lra).
  assert (HM0 : 0 <= M) by (apply Rle_trans with (2 := HA); apply Rabs_pos).
  assert (Hw := om1022_pos).
  assert (Hgm : G m - 1 <= g).
  { unfold g. generalize (G_mono m K (Nat.le_max_l _ _)). lra. }
  assert (Hgj : (1 + u53) * (1 + (G j - 1)) - 1 <= g).
  { unfold g. generalize (G_mono (S j) K ltac:(unfold K; lia)). rewrite G_S. lra. }
  set (mu := rho * Rabs (FR x) + om1022 * B).
  assert (Hmu0 : 0 <= mu).
  { unfold mu. apply Rplus_le_le_0_compat; apply Rmult_le_pos; try lra. apply Rabs_pos. }
  (* the product *)
  assert (Ht : Rabs (FR (r * x)%float - rho * FR x) <= g * mu).
  { rewrite Hteq.
    apply Rle_trans with (((1 + u53) * (1 + (G j - 1)) - 1) * mu).
    - apply (leaf_step_R (FR r) rho (FR x) _ (G j - 1) B Hrho Hr0); try assumption.
      + generalize (G_ge_1 j); lra.
      + apply mul_err.
    - apply Rmult_le_compat_r; assumption. }
  assert (Htau : Rabs (rho * FR x) <= mu).
  { unfold mu. rewrite Rabs_mult, (Rabs_pos_eq rho Hrho).
    assert (0 <= om1022 * B) by (apply Rmult_le_pos; lra). lra. }
  assert (Hea' : Rabs (FR a - A) <= g * M).
  { apply Rle_trans with (1 := Hea). apply Rmult_le_compat_r; assumption. }
  (* the sum *)
  assert (Hadd := add_rel (FR a) (FR (r * x)%float) (fmt_FR _) (fmt_FR _)).
  destruct (acc_step_R (FR a) A M (FR (r * x)%float) (rho * FR x) mu
              (rnd (FR a + FR (r * x)%float)) g Hg HA Htau Hea' Ht Hadd)
    as [R1 [R2 R3]].
  assert (HGm' : G m' = (1 + u53) * (1 + g)).
  { unfold m', g. fold K. rewrite Nat.add_1_r, G_S. ring. }
  assert (HM' : M' = M + mu) by (unfold M', mu; ring).
  assert (Hb : Rabs (rnd (FR a + FR (r * x)%float)) < bpow radix2 emax).
  { apply Rle_lt_trans with (1 := R3). rewrite <- HGm', <- HM'. exact Hov. }
  destruct (add_ok a (r * x)%float Haf Htf Hb) as [Hf Heq].
  split; [exact Hf|]. rewrite Heq, HGm', HM'.
  split; [|exact R2].
  replace (A + rho * FR x) with (A + rho * FR x) by ring. exact R1.
Qed.

Lemma ov_mono : forall m1 m2 M1 M2,
  (m1 <= m2)%nat -> 0 <= M1 <= M2 -> G m2 * M2 < Omax -> G m1 * M1 < Omax.
Proof.
  intros m1 m2 M1 M2 Hm [H0 HM] Hov.
  apply Rle_lt_trans with (2 := Hov).
  assert (H1 := G_ge_1 m1). assert (H2 := G_mono m1 m2 Hm).
  apply Rmult_le_compat; lra.
Qed.

(** ** Tables of probabilities *)

Definition TblOK (t : list (list float)) : Prop := Forall (Forall fin01) t.

Lemma row_fin01 : forall t i, TblOK t -> Forall fin01 (@row FNum t i).
Proof.
  intros t i Ht. unfold row.
  destruct (Nat.lt_ge_cases i (length t)) as [Hi|Hi].
  - unfold TblOK in Ht. rewrite Forall_forall in Ht. apply Ht. apply nth_In. exact Hi.
  - rewrite nth_overflow by exact Hi. constructor.
Qed.

Lemma wsum_nonneg : forall (v : node -> R) ks ps,
  Forall (fun k => 0 <= v k) ks -> Forall fin01 ps -> 0 <= wsum v ps ks.
Proof.
  intros v ks ps Hk. revert ps.
  induction Hk as [|k ks Hk _ IH]; intros [|p ps] Hps; cbn [wsum]; try lra.
  inversion Hps as [|? ? [_ [Hp0 _]] Hps']; subst.
  apply Rplus_le_le_0_compat; [apply Rmult_le_pos; assumption | apply IH; exact Hps'].
Qed.

Section Analysis.
  Context (chance s1 s2 : list (list float)) (B : R).
  Context (Hchance : TblOK chance) (Hs1 : TblOK s1) (Hs2 : TblOK s2) (HB : 1 <= B).

  Local Notation uR := (uR chance s1 s2).
  Local Notation aR := (aR chance s1 s2).

  Lemma aR_nonneg : forall n, 0 <= aR n.
  Proof.
    induction n as [x|ci kids IH|pl i kids IH] using node_ind'.
    - cbn [EvalFloat.aR]. apply Rabs_pos.
    - cbn [EvalFloat.aR]. apply wsum_nonneg; [exact IH | apply row_fin01; exact Hchance].
    - cbn [EvalFloat.aR]. apply wsum_nonneg; [exact IH|].
      apply row_fin01. destruct pl; assumption.
  Qed.

  (** what one subtree does to the accumulator *)
  Definition FSpec (f : node -> float -> float -> float) (k : node) : Prop :=
    forall r rho j a A M m,
      reachOK r rho j -> accOK a A M m ->
      let m' := (Nat.max m (j + depth k + 1) + nleaves k)%nat in
      let M' := M + rho * aR k + INR (nleaves k) * (om1022 * B) in
      G m' * M' < Omax ->
      accOK (f k r a) (A + rho * uR k) M' m'.

  Lemma fgo_spec : forall f (tst : float -> bool),
    (forall p, fin01 p -> tst p = false -> FR p = 0) ->
    forall ks, Forall (FSpec f) ks ->
    forall ps, Forall fin01 ps ->
    forall r rho j a A M m,
      reachOK r rho j -> accOK a A M m ->
      let D := list_max (map depth ks) in
      let Ls := list_sum (map nleaves ks) in
      let m' := (Nat.max m (S j + D + 1) + Ls)%nat in
      let M' := M + rho * wsum aR ps ks + INR Ls * (om1022 * B) in
      G m' * M' < Omax ->
      accOK (fgo f tst r ps ks a) (A + rho * wsum uR ps ks) M' m'.
  Proof.
    intros f tst Htst ks Hks.
    assert (HwB : 0 <= om1022 * B) by (apply Rmult_le_pos; [left; apply om1022_pos | lra]).
    induction Hks as [|k ks Hk Hks IH]; intros ps Hps r rho j a A M m Hr Ha D Ls m' M' Hov.
    - (* no child *)
      destruct ps; cbn [fgo wsum]; (apply (accOK_weaken a A M m); [exact Ha | ring | | unfold m'; lia]);
        unfold M'; cbn [wsum]; unfold Ls; cbn [map list_sum fold_right INR]; lra.
    - assert (HM0 : 0 <= M).
      { destruct Ha as [_ [HA _]]. apply Rle_trans with (2 := HA). apply Rabs_pos. }
      assert (Hrho : 0 <= rho) by (destruct Hr as [_ [H _]]; exact H).
      assert (HLs0 : 0 <= INR Ls * (om1022 * B)) by (apply Rmult_le_pos; [apply pos_INR | exact HwB]).
      destruct ps as [|p ps].
      + cbn [fgo wsum]. apply (accOK_weaken a A M m); [exact Ha | ring | | unfold m'; lia].
        unfold M'. cbn [wsum]. lra.
      + inversion Hps as [|? ? Hp Hps']; subst.
        assert (Hp01 := Hp). destruct Hp01 as [_ [Hp0 Hp1]].
        set (D1 := list_max (map depth ks)).
        set (L1 := list_sum (map nleaves ks)).
        assert (ED : D = Nat.max (depth k) D1) by reflexivity.
        assert (EL : Ls = (nleaves k + L1)%nat) by reflexivity.
        set (W1 := wsum aR ps ks).
        assert (HW1 : 0 <= W1).
        { apply wsum_nonneg; [|exact Hps']. apply Forall_forall. intros q _. apply aR_nonneg. }
        assert (Hak := aR_nonneg k).
        assert (EM : M' = M + rho * (FR p * aR k + W1) + INR Ls * (om1022 * B)) by reflexivity.
        assert (HLsplit : INR Ls = INR (nleaves k) + INR L1) by (rewrite EL; apply plus_INR).
        assert (HL1 : 0 <= INR L1) by apply pos_INR.
        assert (HLk : 0 <= INR (nleaves k)) by apply pos_INR.
        assert (HrW : 0 <= rho * W1) by (apply Rmult_le_pos; assumption).
        assert (Hrpa : 0 <= rho * (FR p * aR k)).
        { apply Rmult_le_pos; [exact Hrho|]. apply Rmult_le_pos; assumption. }
        assert (HL1w : 0 <= INR L1 * (om1022 * B)) by (apply Rmult_le_pos; assumption).
        assert (HLkw : 0 <= INR (nleaves k) * (om1022 * B)) by (apply Rmult_le_pos; assumption).
        (* the tail of the list first *)
        set (m1 := (Nat.max m (S j + D1 + 1) + L1)%nat).
        set (M1 := M + rho * W1 + INR L1 * (om1022 * B)).
        assert (Hm1 : (m1 <= m')%nat) by (unfold m1, m'; lia).
        assert (HM1 : 0 <= M1 <= M').
        { unfold M1. rewrite EM, HLsplit. split; [lra|].
          rewrite Rmult_plus_distr_l, (Rmult_plus_distr_r (INR (nleaves k))). lra. }
        assert (Hov1 : G m1 * M1 < Omax) by (apply (ov_mono m1 m' M1 M'); assumption).
        assert (Ha1 := IH ps Hps' r rho j a A M m Hr Ha Hov1).
        fold W1 in Ha1.
        cbn [fgo wsum].
        destruct (tst p) eqn:Et.
        * (* the child is visited *)
          assert (Hr1 := reachOK_step p r rho j Hp Hr).
          set (m2 := (Nat.max m1 (S j + depth k + 1) + nleaves k)%nat).
          set (M2 := M1 + FR p * rho * aR k + INR (nleaves k) * (om1022 * B)).
          assert (Hm2 : (m2 <= m')%nat) by (unfold m2, m1, m'; lia).
          assert (HM2 : M2 = M').
          { unfold M2, M1. rewrite EM, HLsplit. ring. }
          assert (Hov2 : G m2 * M2 < Omax).
          { apply (ov_mono m2 m' M2 M'); [exact Hm2 | rewrite HM2; lra | exact Hov]. }
          assert (Ha2 := Hk (p * r)%float (FR p * rho) (S j) _ _ M1 m1 Hr1 Ha1 Hov2).
          apply (accOK_weaken _ _ _ _ _ M' m' Ha2); [ring | fold M2; lra | exact Hm2].
        * (* the child is skipped: its probability is zero *)
          assert (Hz := Htst p Hp Et).
          apply (accOK_weaken _ _ _ _ _ M' m' Ha1); [rewrite Hz; ring | exact (proj2 HM1) | exact Hm1].
  Qed.

  Theorem exp_acc_spec : forall n, PayOK B n -> FSpec (@exp_acc FNum chance s1 s2) n.
  Proof.
    induction n as [x|ci kids IH|pl i kids IH] using node_ind'; intros Hpay.
    - inversion Hpay as [x' Hxf HxB| |]; subst.
      intros r rho j a A M m Hr Ha m' M' Hov.
      rewrite exp_acc_Term.
      assert (Em : m' = (Nat.max m (j + 1) + 1)%nat) by (unfold m'; cbn [depth nleaves]; lia).
      assert (EM : M' = M + rho * Rabs (FR x) + om1022 * B).
      { unfold M'. cbn [EvalFloat.aR nleaves INR]. ring. }
      rewrite Em, EM in Hov |- *.
      apply (leaf_step B r rho j a A M m x HB Hxf HxB Hr Ha Hov).
    - inversion Hpay as [|ci' kids' Hkids|]; subst.
      intros r rho j a A M m Hr Ha m' M' Hov.
      rewrite exp_acc_Chance.
      assert (Hspec : Forall (FSpec (@exp_acc FNum chance s1 s2)) kids).
      { rewrite Forall_forall in IH, Hkids |- *. intros k Hk. apply IH; [exact Hk | apply Hkids; exact Hk]. }
      assert (Hgo := fgo_spec (@exp_acc FNum chance s1 s2) (fun _ => true)
                       ltac:(intros; discriminate) kids Hspec
                       (@row FNum chance ci) (row_fin01 chance ci Hchance)
                       r rho j a A M m Hr Ha).
      cbv zeta in Hgo.
      assert (Em : m' = (Nat.max m (S j + list_max (map depth kids) + 1)
                         + list_sum (map nleaves kids))%nat)
        by (unfold m'; cbn [depth nleaves]; lia).
      rewrite <- Em in Hgo. exact (Hgo Hov).
    - inversion Hpay as [| |pl' i' kids' Hkids]; subst.
      intros r rho j a A M m Hr Ha m' M' Hov.
      rewrite exp_acc_Player.
      assert (Hspec : Forall (FSpec (@exp_acc FNum chance s1 s2)) kids).
      { rewrite Forall_forall in IH, Hkids |- *. intros k Hk. apply IH; [exact Hk | apply Hkids; exact Hk]. }
      assert (Htst : forall p, fin01 p -> PrimFloat.ltb 0 p = false -> FR p = 0).
      { intros p [Hpf [Hp0 _]] Hlt.
        destruct (Rle_lt_or_eq_dec _ _ Hp0) as [Hpos|Hz]; [|symmetry; exact Hz].
        apply (ltb_zero_pos p Hpf) in Hpos. rewrite Hpos in Hlt. discriminate. }
      assert (Hrow : Forall fin01 (@row FNum (if pl then s1 else s2) i)).
      { apply row_fin01. destruct pl; assumption. }
      assert (Hgo := fgo_spec (@exp_acc FNum chance s1 s2) (fun p => PrimFloat.ltb 0 p)
                       Htst kids Hspec _ Hrow r rho j a A M m Hr Ha).
      cbv zeta in Hgo.
      assert (Em : m' = (Nat.max m (S j + list_max (map depth kids) + 1)
                         + list_sum (map nleaves kids))%nat)
        by (unfold m'; cbn [depth nleaves]; lia).
      rewrite <- Em in Hgo. exact (Hgo Hov).
  Qed.
End Analysis.

(** ** Closed forms *)

Lemma G_inv_bound : forall k, INR k * u53 <= 1 -> G k * (1 - INR k * u53) <= 1.
Proof.
  assert (Hu := u53_pos).
  induction k as [|k IH]; intros Hk.
  - rewrite G_0. cbn [INR]. lra.
  - rewrite S_INR in Hk |- *. rewrite G_S.
    assert (Hk0 : 0 <= INR k) by apply pos_INR.
    assert (Hk' : INR k * u53 <= 1) by nra.
    specialize (IH Hk').
    assert (HG := G_ge_1 k).
    assert (Hle : (1 + u53) * (1 - (INR k + 1) * u53) <= 1 - INR k * u53) by nra.
    apply Rle_trans with (2 := IH).
    replace ((1 + u53) * G k * (1 - (INR k + 1) * u53))
      with (G k * ((1 + u53) * (1 - (INR k + 1) * u53))) by ring.
    apply Rmult_le_compat_l; [lra | exact Hle].
Qed.

Lemma G_small : forall k, INR k * u53 <= / 2 ->
  G k <= 2 /\ G k - 1 <= 2 * (INR k * u53).
Proof.
  intros k Hk.
  assert (H := G_inv_bound k ltac:(lra)).
  assert (HG := G_ge_1 k).
  assert (Hk0 : 0 <= INR k * u53).
  { apply Rmult_le_pos; [apply pos_INR | left; apply u53_pos]. }
  assert (H2 : G k <= 2) by nra.
  split; [exact H2|]. nra.
Qed.


(** the absolute mass is at most (number of leaves) * B *)
Lemma wsum_le : forall (v : node -> R) (c : R) ks ps,
  Forall (fun k => 0 <= v k <= INR (nleaves k) * c) ks -> Forall fin01 ps ->
  wsum v ps ks <= INR (list_sum (map nleaves ks)) * c.
Proof.
  intros v c ks ps Hk. revert ps.
  assert (Hnn : forall qs, Forall (fun k => 0 <= v k <= INR (nleaves k) * c) qs ->
                0 <= INR (list_sum (map nleaves qs)) * c).
  { intros qs Hqs. induction Hqs as [|q qs Hq _ IHq]; [cbn; lra|].
    change (list_sum (map nleaves (q :: qs)))
      with (nleaves q + list_sum (map nleaves qs))%nat.
    rewrite plus_INR, Rmult_plus_distr_r. lra. }
  induction Hk as [|k ks Hk Hks IH]; intros [|p ps] Hps; cbn [wsum map].
  - cbn. lra.
  - cbn. lra.
  - apply (Hnn (k :: ks)). constructor; assumption.
  - inversion Hps as [|? ? [_ [Hp0 Hp1]] Hps']; subst.
    change (list_sum (nleaves k :: map nleaves ks))
      with (nleaves k + list_sum (map nleaves ks))%nat.
    rewrite plus_INR, Rmult_plus_distr_r.
    specialize (IH ps Hps').
    assert (FR p * v k <= 1 * (INR (nleaves k) * c)).
    { apply Rmult_le_compat; lra. }
    lra.
Qed.

Lemma aR_le : forall chance s1 s2 B,
  TblOK chance -> TblOK s1 -> TblOK s2 ->
  forall n, PayOK B n -> aR chance s1 s2 n <= INR (nleaves n) * B.
Proof.
  intros chance s1 s2 B Hc H1 H2.
  induction n as [x|ci kids IH|pl i kids IH] using node_ind'; intros Hpay.
  - inversion Hpay as [x' Hxf HxB| |]; subst. cbn [aR nleaves INR]. lra.
  - inversion Hpay as [|ci' kids' Hkids|]; subst. cbn [aR nleaves].
    apply wsum_le; [|apply row_fin01; exact Hc].
    rewrite Forall_forall in IH, Hkids |- *. intros k Hk.
    split; [apply aR_nonneg; assumption | apply IH; [exact Hk | apply Hkids; exact Hk]].
  - inversion Hpay as [| |pl' i' kids' Hkids]; subst. cbn [aR nleaves].
    apply wsum_le; [|apply row_fin01; destruct pl; assumption].
    rewrite Forall_forall in IH, Hkids |- *. intros k Hk.
    split; [apply aR_nonneg; assumption | apply IH; [exact Hk | apply Hkids; exact Hk]].
Qed.

Lemma uR_le_aR : forall chance s1 s2,
  TblOK chance -> TblOK s1 -> TblOK s2 ->
  forall n, Rabs (uR chance s1 s2 n) <= aR chance s1 s2 n.
Proof.
  intros chance s1 s2 Hc H1 H2.
  assert (Hw : forall ks ps, Forall fin01 ps ->
            Forall (fun k => Rabs (uR chance s1 s2 k) <= aR chance s1 s2 k) ks ->
            Rabs (wsum (uR chance s1 s2) ps ks) <= wsum (aR chance s1 s2) ps ks).
  { intros ks ps Hps Hks. revert ps Hps.
    induction Hks as [|k ks Hk _ IH]; intros [|p ps] Hps; cbn [wsum];
      try (rewrite Rabs_R0; lra).
    inversion Hps as [|? ? [_ [Hp0 _]] Hps']; subst.
    apply Rle_trans with (1 := Rabs_triang _ _).
    rewrite Rabs_mult, (Rabs_pos_eq _ Hp0).
    apply Rplus_le_compat; [apply Rmult_le_compat_l; assumption | apply IH; exact Hps']. }
  induction n as [x|ci kids IH|pl i kids IH] using node_ind'.
  - cbn [uR aR]. lra.
  - cbn [uR aR]. apply Hw; [apply row_fin01; exact Hc | exact IH].
  - cbn [uR aR]. apply Hw; [apply row_fin01; destruct pl; assumption | exact IH].
Qed.

(** ** The evaluator *)

(** exact expected payoff, exact absolute mass, number of roundings *)
Definition U_exact (g : game) (s1 s2 : list (list float)) : R :=
  uR (g_chance g) s1 s2 (g_root g).
Definition S_abs (g : game) (s1 s2 : list (list float)) : R :=
  aR (g_chance g) s1 s2 (g_root g).
Definition n_leaves (g : game) : nat := nleaves (g_root g).
Definition k_ops (g : game) : nat := (depth (g_root g) + 1 + nleaves (g_root g))%nat.

(** the mass against which the error is relative: [S] plus the underflow allowance *)
Definition mass (g : game) (s1 s2 : list (list float)) (B : R) : R :=
  S_abs g s1 s2 + INR (n_leaves g) * B * bpow radix2 (-1022).

(** General form: finiteness needs only that the bound itself stays below [2^1024]. *)
Theorem expected_float_general : forall (g : game) (s1 s2 : list (list float)) (B : R),
  TblOK (g_chance g) -> TblOK s1 -> TblOK s2 ->
  1 <= B -> PayOK B (g_root g) ->
  (1 + bpow radix2 (-53)) ^ k_ops g * mass g s1 s2 B < bpow radix2 emax ->
  let uF := @expected FNum g s1 s2 in
  Ffin uF /\
  Rabs (FR uF - U_exact g s1 s2) <= ((1 + bpow radix2 (-53)) ^ k_ops g - 1) * mass g s1 s2 B /\
  Rabs (FR uF) <= (1 + bpow radix2 (-53)) ^ k_ops g * mass g s1 s2 B /\
  Rabs (U_exact g s1 s2) <= S_abs g s1 s2.
Proof.
  intros g s1 s2 B Hc H1 H2 HB Hpay Hov uF.
  change (bpow radix2 (-53)) with u53 in Hov |- *. fold (G (k_ops g)) in Hov |- *.
  assert (Hspec := exp_acc_spec (g_chance g) s1 s2 B Hc H1 H2 HB (g_root g) Hpay
                     1%float 1 0%nat 0%float 0 0 0%nat reachOK_one accOK_zero).
  cbv zeta in Hspec.
  assert (Em : (Nat.max 0 (0 + depth (g_root g) + 1) + nleaves (g_root g))%nat = k_ops g)
    by (unfold k_ops; lia).
  assert (EM : 0 + 1 * aR (g_chance g) s1 s2 (g_root g)
               + INR (nleaves (g_root g)) * (om1022 * B) = mass g s1 s2 B).
  { unfold mass, S_abs, n_leaves, om1022. ring. }
  rewrite Em, EM in Hspec. specialize (Hspec Hov).
  assert (EA : 0 + 1 * uR (g_chance g) s1 s2 (g_root g) = U_exact g s1 s2)
    by (unfold U_exact; ring).
  rewrite EA in Hspec.
  change (@expected FNum g s1 s2) with
    (@exp_acc FNum (g_chance g) s1 s2 (g_root g) 1%float 0%float) in uF.
  fold uF in Hspec.
  assert (Hb := accOK_bound _ _ _ _ Hspec).
  destruct Hspec as [Hf [HA He]].
  split; [exact Hf|]. split; [exact He|]. split; [exact Hb|].
  apply uR_le_aR; assumption.
Qed.

(** Simple sufficient conditions: [k * 2^-53 <= 1/2] and [L * B <= 2^1000]. *)
Theorem expected_float_bound : forall (g : game) (s1 s2 : list (list float)) (B : R),
  TblOK (g_chance g) -> TblOK s1 -> TblOK s2 ->
  1 <= B -> PayOK B (g_root g) ->
  INR (k_ops g) * bpow radix2 (-53) <= / 2 ->
  INR (n_leaves g) * B <= bpow radix2 1000 ->
  let uF := @expected FNum g s1 s2 in
  Ffin uF /\
  Rabs (FR uF - U_exact g s1 s2) <= ((1 + bpow radix2 (-53)) ^ k_ops g - 1) * mass g s1 s2 B /\
  Rabs (FR uF - U_exact g s1 s2) <= INR (k_ops g) * bpow radix2 (-52) * mass g s1 s2 B /\
  Rabs (FR uF) <= 2 * mass g s1 s2 B /\
  mass g s1 s2 B <= 2 * (INR (n_leaves g) * B).
Proof.
  intros g s1 s2 B Hc H1 H2 HB Hpay Hk HL uF.
  change (bpow radix2 (-53)) with u53 in Hk.
  destruct (G_small (k_ops g) Hk) as [HG2 HGk].
  assert (HS0 : 0 <= S_abs g s1 s2) by (apply aR_nonneg; assumption).
  assert (HSL : S_abs g s1 s2 <= INR (n_leaves g) * B) by (apply aR_le; assumption).
  assert (HLB0 : 0 <= INR (n_leaves g) * B).
  { apply Rmult_le_pos; [apply pos_INR | lra]. }
  assert (Hw := om1022_le_1). assert (Hw0 := om1022_pos).
  assert (HLw : 0 <= INR (n_leaves g) * B * om1022 <= INR (n_leaves g) * B).
  { split; [apply Rmult_le_pos; lra|].
    rewrite <- (Rmult_1_r (INR (n_leaves g) * B)) at 2.
    apply Rmult_le_compat_l; lra. }
  assert (Hmass : mass g s1 s2 B <= 2 * (INR (n_leaves g) * B)).
  { unfold mass. fold om1022. lra. }
  assert (Hmass0 : 0 <= mass g s1 s2 B).
  { unfold mass. fold om1022. lra. }
  assert (Hov : (1 + bpow radix2 (-53)) ^ k_ops g * mass g s1 s2 B < bpow radix2 emax).
  { change (bpow radix2 (-53)) with u53. fold (G (k_ops g)).
    apply Rle_lt_trans with (2 * (2 * bpow radix2 1000)).
    - assert (HG1 := G_ge_1 (k_ops g)). apply Rmult_le_compat; lra.
    - change 2 with (bpow radix2 1). rewrite <- !bpow_plus. apply bpow_lt. reflexivity. }
  destruct (expected_float_general g s1 s2 B Hc H1 H2 HB Hpay Hov) as [Hf [He [Hb _]]].
  fold uF in Hf, He, Hb.
  change (bpow radix2 (-53)) with u53 in He, Hb |- *. fold (G (k_ops g)) in He, Hb |- *.
  split; [exact Hf|]. split; [exact He|]. split; [|split; [|exact Hmass]].
  - apply Rle_trans with (1 := He).
    apply Rmult_le_compat_r; [exact Hmass0|].
    apply Rle_trans with (1 := HGk).
    replace (bpow radix2 (-52)) with (2 * u53); [lra|].
    unfold u53. change 2 with (bpow radix2 1). rewrite <- bpow_plus. reflexivity.
  - apply Rle_trans with (1 := Hb). apply Rmult_le_compat_r; assumption.
Qed.

(** ** [U_exact] is the real-number model on the [FR]-image of the game

    [U_exact] was defined by its own recursion; it is the specification [EvalSpec.u]
    (hence, by [EvalProofs.expected_exact], the model [@expected RNum], and by
    [EvalProofs.u_leaves] the sum over the leaves of reach times payoff) of the game
    whose probabilities and payoffs are the real values of the binary64 ones. *)

Fixpoint nodeR (n : node) : @Tree.node RNum :=
  match n with
  | Term x => @Term RNum (FR x)
  | Chance ci kids => @Chance RNum ci (map nodeR kids)
  | Player pl i kids => @Player RNum pl i (map nodeR kids)
  end.

Definition tblR (t : list (list float)) : list (list R) := map (map FR) t.

Definition gameR (g : game) : @Tree.game RNum :=
  @mkGame RNum (tblR (g_chance g)) (g_infos1 g) (g_infos2 g) (g_singles1 g) (g_singles2 g)
          (nodeR (g_root g)).

Lemma rowR_tblR : forall t i, rowR (tblR t) i = map FR (@row FNum t i).
Proof.
  intros t i. unfold rowR, tblR, row.
  change (@nil R) with (map FR (@nil float)). apply map_nth.
Qed.

Lemma dot_wsum : forall (v : @Tree.node RNum -> R) ks ps,
  dot (map FR ps) (map v (map nodeR ks)) = wsum (fun k => v (nodeR k)) ps ks.
Proof.
  intros v ks. unfold dot.
  induction ks as [|k ks IH]; intros [|p ps]; cbn [map combine RInst.Rsum wsum fst snd];
    try reflexivity.
  rewrite IH. reflexivity.
Qed.

Lemma wsum_ext : forall (v w : node -> R) ks ps,
  Forall (fun k => v k = w k) ks -> wsum v ps ks = wsum w ps ks.
Proof.
  intros v w ks ps Hk. revert ps.
  induction Hk as [|k ks Hk _ IH]; intros [|p ps]; cbn [wsum]; try reflexivity.
  rewrite Hk, IH. reflexivity.
Qed.

Lemma uR_u : forall chance s1 s2 n,
  uR chance s1 s2 n = u (tblR chance) (tblR s1) (tblR s2) (nodeR n).
Proof.
  intros chance s1 s2.
  induction n as [x|ci kids IH|pl i kids IH] using node_ind'.
  - reflexivity.
  - cbn [uR nodeR u]. rewrite rowR_tblR, dot_wsum. apply wsum_ext. exact IH.
  - cbn [uR nodeR u].
    replace (rowR (if pl then tblR s1 else tblR s2) i)
      with (map FR (@row FNum (if pl then s1 else s2) i))
      by (destruct pl; symmetry; apply rowR_tblR).
    rewrite dot_wsum. apply wsum_ext. exact IH.
Qed.

Lemma TblOK_NonnegRows : forall t, TblOK t -> NonnegRows (tblR t).
Proof.
  intros t Ht. unfold NonnegRows, tblR.
  apply Forall_forall. intros r Hr. apply in_map_iff in Hr. destruct Hr as [r0 [<- Hr0]].
  apply Forall_forall. intros x Hx. apply in_map_iff in Hx. destruct Hx as [x0 [<- Hx0]].
  unfold TblOK in Ht. rewrite Forall_forall in Ht. specialize (Ht r0 Hr0).
  rewrite Forall_forall in Ht. destruct (Ht x0 Hx0) as [_ [H0 _]]. exact H0.
Qed.

Theorem U_exact_spec : forall (g : game) (s1 s2 : list (list float)),
  U_exact g s1 s2 = u_game (gameR g) (tblR s1) (tblR s2).
Proof. intros g s1 s2. unfold U_exact, u_game. apply uR_u. Qed.

Theorem U_exact_model : forall (g : game) (s1 s2 : list (list float)),
  TblOK s1 -> TblOK s2 ->
  U_exact g s1 s2 = @expected RNum (gameR g) (tblR s1) (tblR s2).
Proof.
  intros g s1 s2 H1 H2. rewrite U_exact_spec. symmetry.
  apply expected_exact; apply TblOK_NonnegRows; assumption.
Qed.

Theorem U_exact_leaves : forall (g : game) (s1 s2 : list (list float)),
  U_exact g s1 s2 =
  lsum (leaves (tblR (g_chance g)) (tblR s1) (tblR s2) (nodeR (g_root g))).
Proof. intros g s1 s2. rewrite U_exact_spec. unfold u_game. apply u_leaves. Qed.

(** The headline statement: the binary64 evaluator against the real-number model
    run on the same data. *)
Corollary expected_float_vs_real : forall (g : game) (s1 s2 : list (list float)) (B : R),
  TblOK (g_chance g) -> TblOK s1 -> TblOK s2 ->
  1 <= B -> PayOK B (g_root g) ->
  INR (k_ops g) * bpow radix2 (-53) <= / 2 ->
  INR (n_leaves g) * B <= bpow radix2 1000 ->
  Ffin (@expected FNum g s1 s2) /\
  Rabs (FR (@expected FNum g s1 s2) - @expected RNum (gameR g) (tblR s1) (tblR s2))
  <= INR (k_ops g) * bpow radix2 (-52) * mass g s1 s2 B.
Proof.
  intros g s1 s2 B Hc H1 H2 HB Hpay Hk HL.
  destruct (expected_float_bound g s1 s2 B Hc H1 H2 HB Hpay Hk HL) as [Hf [_ [He _]]].
  rewrite <- U_exact_model by assumption. split; assumption.
Qed.

(** ** The reported utility: [Strategies::get_info] *)

Lemma TblOK_split_by : forall (ars : list nat) (flat : list float),
  Forall fin01 flat -> TblOK (split_by flat ars).
Proof.
  induction ars as [|n ars IH]; intros flat Hf; cbn [split_by]; [constructor|].
  constructor; [apply Forall_firstn'; exact Hf | apply IH; apply Forall_skipn'; exact Hf].
Qed.

Corollary info_util_float_bound : forall (g : game) (prof : list float * list float) (B : R),
  TblOK (g_chance g) -> Forall fin01 (fst prof) -> Forall fin01 (snd prof) ->
  1 <= B -> PayOK B (g_root g) ->
  INR (k_ops g) * bpow radix2 (-53) <= / 2 ->
  INR (n_leaves g) * B <= bpow radix2 1000 ->
  let s1 := split_by (fst prof) (arities g true) in
  let s2 := split_by (snd prof) (arities g false) in
  let uF := si_util (@info FNum g prof) in
  Ffin uF /\
  Rabs (FR uF - U_exact g s1 s2) <= INR (k_ops g) * bpow radix2 (-52) * mass g s1 s2 B.
Proof.
  intros g prof B Hc Hp1 Hp2 HB Hpay Hk HL s1 s2 uF.
  assert (H1 : TblOK s1) by (apply TblOK_split_by; exact Hp1).
  assert (H2 : TblOK s2) by (apply TblOK_split_by; exact Hp2).
  destruct (expected_float_bound g s1 s2 B Hc H1 H2 HB Hpay Hk HL) as [Hf [_ [He _]]].
  change uF with (@expected FNum g s1 s2). split; assumption.
Qed.

(** [S_abs] is the sum over the leaves of reach times |payoff| *)
Definition labs (l : list (R * R)) : R := Rsum (map (fun rx => fst rx * Rabs (snd rx)) l).

Lemma labs_app : forall a b, labs (a ++ b) = labs a + labs b.
Proof. intros a b. unfold labs. rewrite map_app, Rsum_app. reflexivity. Qed.

Lemma labs_scale : forall p l, labs (scale_leaves p l) = p * labs l.
Proof.
  intros p l. unfold labs, scale_leaves.
  induction l as [|x l IH]; cbn [map RInst.Rsum fst snd]; [lra|].
  rewrite IH. lra.
Qed.

Lemma aR_leaves : forall chance s1 s2 n,
  aR chance s1 s2 n = labs (leaves (tblR chance) (tblR s1) (tblR s2) (nodeR n)).
Proof.
  intros chance s1 s2.
  set (lv := leaves (tblR chance) (tblR s1) (tblR s2)).
  assert (Hw : forall ks ps,
            Forall (fun k => aR chance s1 s2 k = labs (lv (nodeR k))) ks ->
            wsum (aR chance s1 s2) ps ks =
            labs (concat (map (fun pl => scale_leaves (fst pl) (snd pl))
                              (combine (map FR ps) (map lv (map nodeR ks)))))).
  { intros ks ps Hks. revert ps.
    induction Hks as [|k ks Hk _ IH]; intros [|p ps]; cbn [wsum map combine concat];
      try reflexivity.
    cbn [fst snd]. rewrite labs_app, labs_scale, <- IH, Hk. reflexivity. }
  induction n as [x|ci kids IH|pl i kids IH] using node_ind'.
  - unfold lv, labs. cbn. lra.
  - unfold lv at 1. cbn [aR nodeR leaves]. fold lv. rewrite rowR_tblR. apply Hw. exact IH.
  - unfold lv at 1. cbn [aR nodeR leaves]. fold lv.
    replace (rowR (if pl then tblR s1 else tblR s2) i)
      with (map FR (@row FNum (if pl then s1 else s2) i))
      by (destruct pl; symmetry; apply rowR_tblR).
    apply Hw. exact IH.
Qed.

Theorem S_abs_leaves : forall (g : game) (s1 s2 : list (list float)),
  S_abs g s1 s2 =
  labs (leaves (tblR (g_chance g)) (tblR s1) (tblR s2) (nodeR (g_root g))).
Proof. intros g s1 s2. unfold S_abs. apply aR_leaves. Qed.

(** ** A purely relative bound

    When the absolute mass [S] is not astronomically small compared with [L * B]
    (a factor [2^-969]), the underflow allowance is absorbed by one more rounding
    factor: the error is relative to [S] alone. *)
Theorem expected_float_relative : forall (g : game) (s1 s2 : list (list float)) (B : R),
  TblOK (g_chance g) -> TblOK s1 -> TblOK s2 ->
  1 <= B -> PayOK B (g_root g) ->
  INR (S (k_ops g)) * bpow radix2 (-53) <= / 2 ->
  INR (n_leaves g) * B <= bpow radix2 1000 ->
  INR (n_leaves g) * B * bpow radix2 (-969) <= S_abs g s1 s2 ->
  let uF := @expected FNum g s1 s2 in
  Ffin uF /\
  Rabs (FR uF - U_exact g s1 s2) <= ((1 + bpow radix2 (-53)) ^ S (k_ops g) - 1) * S_abs g s1 s2 /\
  Rabs (FR uF - U_exact g s1 s2) <= INR (S (k_ops g)) * bpow radix2 (-52) * S_abs g s1 s2.
Proof.
  intros g s1 s2 B Hc H1 H2 HB Hpay Hk HL HS uF.
  assert (Hu := u53_pos).
  change (bpow radix2 (-53)) with u53 in Hk |- *.
  assert (Hk' : INR (k_ops g) * u53 <= / 2).
  { rewrite S_INR in Hk. nra. }
  destruct (expected_float_bound g s1 s2 B Hc H1 H2 HB Hpay Hk' HL) as [Hf [He _]].
  fold uF in Hf, He.
  change (bpow radix2 (-53)) with u53 in He. fold (G (k_ops g)) in He.
  fold (G (S (k_ops g))).
  assert (HS0 : 0 <= S_abs g s1 s2) by (apply aR_nonneg; assumption).
  assert (Hmass : mass g s1 s2 B <= (1 + u53) * S_abs g s1 s2).
  { unfold mass.
    replace (bpow radix2 (-1022)) with (bpow radix2 (-969) * u53)
      by (unfold u53; rewrite <- bpow_plus; reflexivity).
    rewrite <- Rmult_assoc.
    assert (INR (n_leaves g) * B * bpow radix2 (-969) * u53 <= S_abs g s1 s2 * u53)
      by (apply Rmult_le_compat_r; lra).
    lra. }
  assert (HG := G_ge_1 (k_ops g)).
  assert (Hmain : Rabs (FR uF - U_exact g s1 s2) <= (G (S (k_ops g)) - 1) * S_abs g s1 s2).
  { apply Rle_trans with (1 := He).
    apply Rle_trans with ((G (k_ops g) - 1) * ((1 + u53) * S_abs g s1 s2)).
    - apply Rmult_le_compat_l; lra.
    - rewrite G_S, <- Rmult_assoc. apply Rmult_le_compat_r; [exact HS0|]. nra. }
  split; [exact Hf|]. split; [exact Hmain|].
  apply Rle_trans with (1 := Hmain).
  apply Rmult_le_compat_r; [exact HS0|].
  destruct (G_small (S (k_ops g)) Hk) as [_ HGk].
  apply Rle_trans with (1 := HGk).
  replace (bpow radix2 (-52)) with (2 * u53); [lra|].
  unfold u53. change 2 with (bpow radix2 1). rewrite <- bpow_plus. reflexivity.
Qed.

(** ** Boolean checkers for the hypotheses *)

Definition tblokb (t : list (list float)) : bool := forallb (forallb fin01b) t.

Lemma tblokb_spec : forall t, tblokb t = true -> TblOK t.
Proof.
  intros t H. unfold tblokb in H. rewrite forallb_forall in H.
  apply Forall_forall. intros r Hr. apply forallb_fin01b. apply H. exact Hr.
Qed.

Fixpoint payokb (b : float) (n : node) : bool :=
  match n with
  | Term x => f_is_fin x && PrimFloat.leb (PrimFloat.abs x) b
  | Chance _ kids => forallb (payokb b) kids
  | Player _ _ kids => forallb (payokb b) kids
  end.

Lemma payokb_spec : forall b, Ffin b -> forall n, payokb b n = true -> PayOK (FR b) n.
Proof.
  intros b Hb.
  induction n as [x|ci kids IH|pl i kids IH] using node_ind'; cbn [payokb]; intros H.
  - apply andb_true_iff in H. destruct H as [Hf Hle].
    apply NormFloat.f_is_fin_true in Hf.
    rewrite (leb_fin _ _ (Ffin_abs x Hf) Hb), FR_abs in Hle.
    constructor; [exact Hf|].
    destruct (Rle_bool_spec (Rabs (FR x)) (FR b)) as [Hr|Hr]; [exact Hr | discriminate].
  - constructor. rewrite forallb_forall in H. rewrite Forall_forall in IH |- *.
    intros k Hk. apply IH; [exact Hk | apply H; exact Hk].
  - constructor. rewrite forallb_forall in H. rewrite Forall_forall in IH |- *.
    intros k Hk. apply IH; [exact Hk | apply H; exact Hk].
Qed.

(** ** 3. Example

    chance (1/2, 1/2); player one plays (0.3, 0.7) to payoffs 1 and -2; player two plays
    (0.6, 0.4) to payoffs 3 and 0.1.  Exact value with decimal data: 0.37. *)
Definition ex_root : node :=
  @Chance FNum 0
    [ @Player FNum true 0 [ @Term FNum 1%float; @Term FNum (-2)%float ];
      @Player FNum false 0 [ @Term FNum 3%float; @Term FNum 0x1.999999999999ap-4%float ] ].
Definition ex_g : game := @mkGame FNum [[0.5; 0.5]%float] [] [] [] [] ex_root.
Definition ex_s1 : list (list float) := [[0x1.3333333333333p-2; 0x1.6666666666666p-1]%float].
Definition ex_s2 : list (list float) := [[0x1.3333333333333p-1; 0x1.999999999999ap-2]%float].

(** what the evaluator returns: the binary64 number nearest to 0.37 *)
Example ex_expected_value : @expected FNum ex_g ex_s1 ex_s2 = 0x1.7ae147ae147aep-2%float.
Proof. vm_compute. reflexivity. Qed.

Example ex_shape : k_ops ex_g = 7%nat /\ n_leaves ex_g = 4%nat.
Proof. split; reflexivity. Qed.

Lemma FR_three : Ffin 3%float /\ FR 3%float = 3.
Proof.
  replace 3%float with (f_of_N (N.of_nat 3)) by (vm_compute; reflexivity).
  destruct (of_N_ok 3 ltac:(cbv; reflexivity)) as [Hf He].
  split; [exact Hf|]. rewrite He. cbn [INR]. lra.
Qed.

(** the hypotheses hold with [B = 3], and the bound reads
    [|result - U| <= 7 * 2^-52 * (S + 4 * 3 * 2^-1022)] *)
Example ex_bound :
  let uF := @expected FNum ex_g ex_s1 ex_s2 in
  Ffin uF /\
  Rabs (FR uF - U_exact ex_g ex_s1 ex_s2)
  <= 7 * bpow radix2 (-52) * (S_abs ex_g ex_s1 ex_s2 + 4 * 3 * bpow radix2 (-1022)).
Proof.
  destruct FR_three as [H3f H3].
  assert (Hc : TblOK (g_chance ex_g)) by (apply tblokb_spec; vm_compute; reflexivity).
  assert (H1 : TblOK ex_s1) by (apply tblokb_spec; vm_compute; reflexivity).
  assert (H2 : TblOK ex_s2) by (apply tblokb_spec; vm_compute; reflexivity).
  assert (Hpay : PayOK 3 (g_root ex_g)).
  { rewrite <- H3. apply payokb_spec; [exact H3f | vm_compute; reflexivity]. }
  assert (Hu : bpow radix2 (-53) <= / 16).
  { apply Rle_trans with (bpow radix2 (-4)); [apply bpow_le; lia|].
    right. change (bpow radix2 (-4)) with (/ IZR (Z.pow_pos 2 4)).
    f_equal. }
  assert (Hk : INR (k_ops ex_g) * bpow radix2 (-53) <= / 2).
  { change (k_ops ex_g) with 7%nat. cbn [INR]. lra. }
  assert (HL : INR (n_leaves ex_g) * 3 <= bpow radix2 1000).
  { change (n_leaves ex_g) with 4%nat. cbn [INR].
    apply Rle_trans with (bpow radix2 4); [|apply bpow_le; lia].
    change (bpow radix2 4) with (IZR (Z.pow_pos 2 4)).
    replace (IZR (Z.pow_pos 2 4)) with 16 by (cbv; reflexivity). lra. }
  destruct (expected_float_bound ex_g ex_s1 ex_s2 3 Hc H1 H2 ltac:(lra) Hpay Hk HL)
    as [Hf [_ [He _]]].
  cbv zeta. split; [exact Hf|].
  unfold mass in He. change (n_leaves ex_g) with 4%nat in He.
  change (k_ops ex_g) with 7%nat in He. cbn [INR] in He.
  replace (1 + 1 + 1 + 1 + 1 + 1 + 1) with 7 in He by lra.
  replace ((1 + 1 + 1 + 1) * 3) with (4 * 3) in He by lra.
  exact He.
Qed.
