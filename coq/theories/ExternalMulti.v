(** * ExternalMulti: model of the multi-threaded external-sampling solver
    ([solve/external.rs]: [next_nodes], [thread_threshold], [single_player_iter],
    [solve_external_multi]).

    One pass for the active player [me]:
    1. [ext_frontier] ([thread_threshold] + [next_nodes]) walks down from the root and
       returns the nodes left in [queue]; a node is identified by its path from the
       root (the code keys [payoffs] by node address: different paths are different
       addresses);
    2. every node of the frontier is a task [recurse_regret(node, no cache)]: by
       [ExtIncr.erec_incs] its value is [eval] and its effect the increments [eincs];
       the tasks run concurrently: the increments of all tasks are applied in the order
       [sched] chooses;
    3. [erec_cached]: [recurse_regret(root, &payoffs)], the same traversal except that
       a node found in the cache returns the cached value without being traversed;
    4. the infosets advance as in the single-threaded solver. *)
From Coq Require Import Reals List Lra Lia Bool Arith NArith Permutation.
From Cfr.theories Require Import Num RInst Tree GameWF Strat Eval Solve SolveValidProofs ExtIncr.
Import ListNotations.

Local Notation nodeR := (@node RNum).
Local Notation gameR := (@game RNum).
Local Notation pstateR := (@pstate RNum).
Local Notation rinfoR := (@rinfo RNum).
Local Notation oracleR := (@oracle RNum).
Local Notation paramsR := (@params RNum).

(** ** Paths *)
Definition epath := list nat.
Definition pnode := (epath * nodeR)%type.

Definition e_kids_of (n : nodeR) : list nodeR :=
  match n with Term _ => [] | Chance _ kids => kids | Player _ _ kids => kids end.

Fixpoint subtree (n : nodeR) (q : epath) {struct q} : option nodeR :=
  match q with
  | [] => Some n
  | a :: q' => match nth_error (e_kids_of n) a with Some c => subtree c q' | None => None end
  end.

(** a cache of payoffs keyed by the path *relative to the current node*; going down to
    child [k] strips the first step *)
Definition cachet := epath -> option R.
Definition cshift (k : nat) (cache : cachet) : cachet := fun q => cache (k :: q).
Definition no_cache : cachet := fun _ => None.

Definition epath_eq_dec : forall p q : epath, {p = q} + {p <> q} := list_eq_dec Nat.eq_dec.

(** [payoffs]: the [HashMap] filled by the tasks *)
Fixpoint cache_of (l : list (epath * R)) (q : epath) : option R :=
  match l with
  | [] => None
  | (p, v) :: r => if epath_eq_dec p q then Some v else cache_of r q
  end.

Definition consp (a : nat) (x : pnode) : pnode := (a :: fst x, snd x).

Fixpoint mapi_kids (a : nat) (ks : list nodeR) : list pnode :=
  match ks with [] => [] | c :: r => ([a], c) :: mapi_kids (S a) r end.

(** ** [recurse_regret] with a cache: state-threading form *)
Section Cached.
  Context (chance : list (list R)) (draw : oracleR) (cpass ppass : N) (noff : nat) (me : bool).

  Fixpoint erec_cached (n : nodeR) (cache : cachet) (st : pstateR) {struct n} : R * pstateR :=
    match cache [] with
    | Some pay => (pay, st)
    | None =>
        match n with
        | Term x => (if me then x else (- x)%R, st)
        | Chance ci kids =>
            let k := cdraw chance draw cpass ci in
            pickf (fun c => erec_cached c (cshift k cache) st) (0%R, st) kids k
        | Player pl i kids =>
            let ri := @ri_get RNum st pl i in
            if Bool.eqb pl me then
              (* ActiveInfo::recurse *)
              let (e, st2) := egoi (fun a c => erec_cached c (cshift a cache)) pl i
                                   kids (strat ri) O 0%R st in
              (e, e_apply_incr st2 (E_IRegAll pl i e))
            else
              (* ExternalInfo::next_update *)
              let st0 := e_apply_incr st (E_IStrat pl i) in
              let k := draw false (ext_id noff pl i) ppass (strat ri) in
              pickf (fun c => erec_cached c (cshift k cache) st0) (0%R, st0) kids k
        end
    end.

  (** ** Pure forms, reading only the strategies [sg] *)
  Section PureCached.
    Context (sg : bool -> nat -> list R).
    Local Notation cdraw := (cdraw chance draw cpass).
    Local Notation pdraw := (pdraw draw ppass noff sg).
    Local Notation eval := (eval chance draw cpass ppass noff me sg).

    Fixpoint evalc (n : nodeR) (cache : cachet) {struct n} : R :=
      match cache [] with
      | Some pay => pay
      | None =>
          match n with
          | Term x => if me then x else (- x)%R
          | Chance ci kids => pickf (fun c => evalc c (cshift (cdraw ci) cache)) 0%R kids (cdraw ci)
          | Player pl i kids =>
              if Bool.eqb pl me
              then goval (fun a c => evalc c (cshift a cache)) kids (sg pl i) O 0%R
              else pickf (fun c => evalc c (cshift (pdraw pl i) cache)) 0%R kids (pdraw pl i)
          end
      end.

    Section TraceCached.
      Context {E : Type}
              (ePre : bool -> nat -> list E) (eChild : bool -> nat -> nat -> R -> list E)
              (ePost : bool -> nat -> R -> list E) (eExt : bool -> nat -> list E).

      Fixpoint etrc (n : nodeR) (cache : cachet) {struct n} : list E :=
        match cache [] with
        | Some _ => []
        | None =>
            match n with
            | Term _ => []
            | Chance ci kids =>
                pickf (fun c => etrc c (cshift (cdraw ci) cache)) [] kids (cdraw ci)
            | Player pl i kids =>
                if Bool.eqb pl me then
                  ePre pl i
                  ++ gotr (fun a c => etrc c (cshift a cache)
                                      ++ eChild pl i a (evalc c (cshift a cache)))
                          kids (sg pl i) O
                  ++ ePost pl i (goval (fun a c => evalc c (cshift a cache)) kids (sg pl i) O 0%R)
                else
                  eExt pl i
                  ++ pickf (fun c => etrc c (cshift (pdraw pl i) cache)) [] kids (pdraw pl i)
            end
        end.
    End TraceCached.

    (** increments and active infosets entered by the cached traversal *)
    Definition eincsc : nodeR -> cachet -> list e_incr :=
      etrc (fun _ _ => []) (fun pl i a x => [E_IReg pl i a x])
           (fun pl i e => [E_IRegAll pl i e]) (fun pl i => [E_IStrat pl i]).
    Definition evisitsc : nodeR -> cachet -> list nat :=
      etrc (fun _ i => [i]) (fun _ _ _ _ => []) (fun _ _ _ => []) (fun _ _ => []).

    (** the cached nodes the cached traversal runs into (relative path, node) *)
    Fixpoint efront (n : nodeR) (cache : cachet) {struct n} : list pnode :=
      match cache [] with
      | Some _ => [([], n)]
      | None =>
          match n with
          | Term _ => []
          | Chance ci kids =>
              map (consp (cdraw ci))
                  (pickf (fun c => efront c (cshift (cdraw ci) cache)) [] kids (cdraw ci))
          | Player pl i kids =>
              if Bool.eqb pl me
              then gotr (fun a c => map (consp a) (efront c (cshift a cache))) kids (sg pl i) O
              else map (consp (pdraw pl i))
                       (pickf (fun c => efront c (cshift (pdraw pl i) cache)) [] kids (pdraw pl i))
          end
      end.

    (** the sampled tree: the paths of the nodes a pass visits *)
    Fixpoint esamp (q : epath) (n : nodeR) {struct q} : Prop :=
      match q with
      | [] => True
      | a :: q' =>
          (match n with
           | Term _ => False
           | Chance ci _ => a = cdraw ci
           | Player pl i _ => if Bool.eqb pl me then (a < length (sg pl i))%nat else a = pdraw pl i
           end)
          /\ match nth_error (e_kids_of n) a with Some c => esamp q' c | None => False end
      end.

    (** ** [next_nodes]: from a node, follow the sampled outcome at chance nodes and the
        sampled action at the external player's nodes (without [update_cum_strat]) down
        to a terminal (nothing) or a node of the active player (all its children).
        Paths are relative to the start node. *)
    Fixpoint next_rel (n : nodeR) : list pnode :=
      match n with
      | Term _ => []
      | Chance ci kids => map (consp (cdraw ci)) (pickf next_rel [] kids (cdraw ci))
      | Player pl i kids =>
          if Bool.eqb pl me then mapi_kids O kids
          else map (consp (pdraw pl i)) (pickf next_rel [] kids (pdraw pl i))
      end.

    Definition next_nodes (x : pnode) : list pnode :=
      map (fun y => (fst x ++ fst y, snd y)) (next_rel (snd x)).

    (** ** [thread_threshold].  [queue] and [work] are the two [Vec]s (back = end of the
        list); [fuel] bounds the number of loop iterations (the loop of the code always
        terminates: it is this function at any large enough [fuel]). *)
    Fixpoint tt_loop (fuel target : nat) (queue work : list pnode) {struct fuel}
      : list pnode * list pnode :=
      match fuel with
      | O => (queue, work)
      | S f =>
          if (match queue, work with [], [] => true | _, _ => false end)
             || (target <=? length queue + length work)%nat
          then (queue, work)
          else
            match rev queue with
            | x :: rq => tt_loop f target (rev rq) (work ++ next_nodes x)  (* queue.pop() *)
            | [] => tt_loop f target work []                             (* mem::swap *)
            end
      end.

    (** the nodes sent to the pool: what is left in [queue] ([work] is dropped) *)
    Definition ext_frontier (target fuel : nat) (root : nodeR) : list pnode :=
      fst (tt_loop fuel target [([], root)] []).
  End PureCached.

  (** ** One pass of [single_player_iter] (steps 1-3; the advance is in [ext_multi_iter]) *)
  Definition ext_multi_pass (target fuel : nat) (sched : list e_incr -> list e_incr)
             (root : nodeR) (st : pstateR) : R * pstateR :=
    let sg := e_strat_view st in
    let Q := ext_frontier sg target fuel root in
    (* every task is [erec] on its node: value [eval], effect [eincs] (ExtIncr.erec_incs) *)
    let payoffs := map (fun x : pnode => (fst x, eval chance draw cpass ppass noff me sg (snd x))) Q in
    let tasks := flat_map (fun x : pnode => eincs chance draw cpass ppass noff me sg (snd x)) Q in
    let st1 := fold_left e_apply_incr (sched tasks) st in
    erec_cached root (cache_of payoffs) st1.
End Cached.

(** ** [active_player_infosets.par_iter_mut().map(advance).sum()]: the infosets advance
    independently and rayon adds the bound contributions as a reduction tree (some
    bracketing of the list, possibly with neutral elements) instead of left to right.
    [psum_ok l s]: [s] is such a sum of [l]. *)
Inductive psum_ok : list R -> R -> Prop :=
| ps_nil : psum_ok [] 0%R
| ps_one (x : R) : psum_ok [x] x
| ps_app (l1 l2 : list R) (a b : R) :
    psum_ok l1 a -> psum_ok l2 b -> psum_ok (l1 ++ l2) (a + b)%R.

Definition advance_all_par (psum : list R -> R) (p : paramsR) (it it_avg : N) (l : list rinfoR)
  : list rinfoR * R :=
  (map (fun ri => fst (@advance RNum p it it_avg ri)) l,
   psum (map (fun ri => snd (@advance RNum p it it_avg ri)) l)).

(** ** One iteration: both players' passes, as [external_iter] *)
Definition ext_multi_iter (g : gameR) (draw : oracleR) (p : paramsR) (target fuel : nat)
           (sched1 sched2 : list e_incr -> list e_incr) (psum1 psum2 : list R -> R)
           (it : N) (st : pstateR)
  : pstateR * (R * R) :=
  let noff := length (g_infos1 g) in
  let '(_, st1) := ext_multi_pass (g_chance g) draw (2 * (it - 1))%N (it - 1)%N noff true
                                  target fuel sched1 (g_root g) st in
  let (l1, r1) := advance_all_par psum1 p it (it - 1)%N (fst st1) in
  let st2 := (l1, snd st1) in
  let '(_, st3) := ext_multi_pass (g_chance g) draw (2 * (it - 1) + 1)%N it noff false
                                  target fuel sched2 (g_root g) st2 in
  let (l2, r2) := advance_all_par psum2 p it it (snd st3) in
  ((fst st3, l2), (r1, r2)).

(** ** The loop of [solve_external_multi]; [scheds it pl] is the interleaving of the
    tasks of iteration [it], pass of player [pl]; [psums it pl] the reduction of the
    bounds at the end of that pass *)
Fixpoint solve_loop_multi (g : gameR) (draw : oracleR) (p : paramsR) (stop : R -> bool)
         (target fuel : nat) (scheds : N -> bool -> list e_incr -> list e_incr)
         (psums : N -> bool -> list R -> R)
         (remaining : nat) (it : N) (st : pstateR) (regs : option (R * R)) (ran : N)
  : pstateR * option (R * R) * N :=
  match remaining with
  | O => (st, regs, ran)
  | S r =>
      let '(st', (r1, r2)) :=
        ext_multi_iter g draw p target fuel (scheds it true) (scheds it false)
                       (psums it true) (psums it false) it st in
      if stop (Rmax r1 r2) then (st', Some (r1, r2), it)
      else solve_loop_multi g draw p stop target fuel scheds psums r (it + 1)%N st'
                            (Some (r1, r2)) it
  end.

Definition solve_ext_multi (g : gameR) (draw : oracleR) (p : paramsR) (target fuel : nat)
           (scheds : N -> bool -> list e_incr -> list e_incr) (psums : N -> bool -> list R -> R)
           (budget : nat) (stop : R -> bool)
  : (list R * list R) * option (R * R) * N :=
  let '(st, regs, ran) :=
    solve_loop_multi g draw p stop target fuel scheds psums budget 1%N (@init_state RNum g)
                     None 0%N in
  (@final_strats RNum st, regs, ran).
