(** * StratAgreeProofs: [Game::from_named] (hash maps, modelled by [import_fast]) and
    [Game::from_named_eq] (linear scans, modelled by [import_slow]) return the same
    outcome — the same profile or the same error — on every input whatsoever.

    Proved for an arbitrary arithmetic instance [NN : Num] (the argument only uses
    the uniqueness of infoset names and of the actions of an infoset). *)
From Coq Require Import List NArith Bool Arith Lia.
From Cfr.theories Require Import Num Tree Strat.
Import ListNotations.

(** ** Well-formedness of a player's tables (what [from_root] guarantees) *)
Definition WFnames_tables (infos : list pinfo) (singles : list (N * N)) : Prop :=
  NoDup (map pi_name infos ++ map fst singles) /\
  Forall (fun pi => NoDup (pi_actions pi) /\ 2 <= length (pi_actions pi)) infos.

Definition WFnames {NN : Num} (g : @game NN) : Prop :=
  WFnames_tables (g_infos1 g) (g_singles1 g) /\ WFnames_tables (g_infos2 g) (g_singles2 g).

(** ** [find_index] *)
Section FindIndex.
  Context {A : Type}.

  Lemma find_index_some (f : A -> bool) l i x d :
    find_index f l = Some (i, x) -> i < length l /\ nth i l d = x /\ f x = true.
  Proof.
    revert i; induction l as [|y l IH]; intros i; cbn [find_index]; [discriminate|].
    destruct (f y) eqn:E.
    - intros H; inversion H; subst. cbn [length nth]. repeat split; [lia|assumption].
    - destruct (find_index f l) as [[j z]|]; [|discriminate].
      intros H; inversion H; subst. destruct (IH j eq_refl) as (H1 & H2 & H3).
      cbn [length nth]. repeat split; [lia|assumption|assumption].
  Qed.

  Lemma find_index_none (f : A -> bool) l :
    find_index f l = None <-> (forall x, In x l -> f x = false).
  Proof.
    induction l as [|y l IH]; cbn [find_index].
    - split; [intros _ x []|reflexivity].
    - destruct (f y) eqn:E.
      + split; [discriminate|]. intros H. rewrite (H y (or_introl eq_refl)) in E. discriminate.
      + destruct (find_index f l) as [[j z]|].
        * split; [discriminate|]. intros H.
          assert (Some (j, z) = None) as C; [|discriminate C].
          apply IH. intros x Hx. apply H. now right.
        * split; [|reflexivity]. intros _ x [<-|Hx]; [assumption|]. now apply (proj1 IH).
  Qed.

  Lemma find_index_In (f : A -> bool) l i x : find_index f l = Some (i, x) -> In x l.
  Proof.
    intros H. destruct (find_index_some f l i x x H) as (H1 & H2 & _).
    rewrite <- H2. now apply nth_In.
  Qed.
End FindIndex.

Section Agree.
  Context {NN : Num}.
  Local Notation T := (T NN).
  Local Notation pinfo := (@pinfo).

  Definition arity (pi : pinfo) : nat := length (pi_actions pi).

  (** ** [aget] on a map built by successive insertions *)
  Lemma aget_ains {V} k k' (v : V) m :
    aget k (ains k' v m) = if N.eqb k k' then Some v else aget k m.
  Proof. reflexivity. Qed.

  (** *** actions of one infoset *)
  Lemma build_actions_snd acts next m :
    snd (build_actions acts next m) = next + length acts.
  Proof.
    revert next m; induction acts as [|a r IH]; intros next m; cbn [build_actions length snd]; [lia|].
    rewrite IH. lia.
  Qed.

  Lemma build_actions_aget acts : NoDup acts -> forall next m a,
    aget a (fst (build_actions acts next m)) =
    match find_index (N.eqb a) acts with
    | Some (ai, _) => Some (next + ai)
    | None => aget a m
    end.
  Proof.
    induction 1 as [|b r Hb Hr IH]; intros next m a; cbn [build_actions find_index fst]; [reflexivity|].
    rewrite IH. destruct (N.eqb a b) eqn:E.
    - apply N.eqb_eq in E; subst b.
      assert (Hn : find_index (N.eqb a) r = None).
      { apply find_index_none. intros x Hx. apply N.eqb_neq. intros ->. contradiction. }
      rewrite Hn, aget_ains, N.eqb_refl. f_equal; lia.
    - destruct (find_index (N.eqb a) r) as [[j z]|].
      + f_equal; lia.
      + rewrite aget_ains, E. reflexivity.
  Qed.

  Definition amap_of (pi : pinfo) (base : nat) : amap nat :=
    fst (build_actions (pi_actions pi) base []).

  (** the hash lookup of an action is the scan for it *)
  Lemma fast_multi_slow (pi : pinfo) base : NoDup (pi_actions pi) ->
    forall (entries : list (N * T)) (dense : list T),
      fast_multi (amap_of pi base) entries dense = slow_multi (pi_actions pi) base entries dense.
  Proof.
    intros Hnd; induction entries as [|[a p] r IH]; intros dense; cbn [fast_multi slow_multi]; [reflexivity|].
    destruct (prob_ok p); [|reflexivity].
    unfold amap_of. rewrite build_actions_aget by assumption.
    destruct (find_index (N.eqb a) (pi_actions pi)) as [[ai z]|]; [|reflexivity].
    apply IH.
  Qed.

  (** *** infosets *)
  Lemma build_inds_snd infos next m :
    snd (build_inds infos next m) = fold_left Nat.add (map arity infos) next.
  Proof.
    revert next m; induction infos as [|pi r IH]; intros next m; cbn [build_inds map fold_left]; [reflexivity|].
    destruct (build_actions (pi_actions pi) next []) as [am next'] eqn:E.
    rewrite IH. f_equal.
    change next' with (snd (am, next')). rewrite <- E, build_actions_snd. reflexivity.
  Qed.

  Lemma build_inds_aget infos : NoDup (map pi_name infos) -> forall next m name,
    aget name (fst (build_inds infos next m)) =
    match find_index (fun pi => N.eqb (pi_name pi) name) infos with
    | Some (ind, pi) => Some (amap_of pi (nth ind (offsets (map arity infos) next) O))
    | None => aget name m
    end.
  Proof.
    induction infos as [|pi r IH]; intros Hnd next m name; cbn [build_inds find_index map offsets fst];
      [reflexivity|].
    cbn [map] in Hnd. apply NoDup_cons_iff in Hnd as [Hpi Hr].
    destruct (build_actions (pi_actions pi) next []) as [am next'] eqn:E.
    assert (Ham : am = amap_of pi next) by (unfold amap_of; now rewrite E).
    assert (Hnext : next' = next + arity pi).
    { change next' with (snd (am, next')). rewrite <- E, build_actions_snd. reflexivity. }
    rewrite IH by assumption. destruct (N.eqb (pi_name pi) name) eqn:En.
    - apply N.eqb_eq in En. subst name.
      assert (Hn : find_index (fun pi0 => N.eqb (pi_name pi0) (pi_name pi)) r = None).
      { apply find_index_none. intros x Hx. apply N.eqb_neq. intros Heq. apply Hpi.
        rewrite <- Heq. now apply in_map. }
      rewrite Hn, aget_ains, N.eqb_refl. cbn [nth]. now rewrite Ham.
    - destruct (find_index (fun pi0 => N.eqb (pi_name pi0) name) r) as [[j z]|].
      + cbn [nth]. now rewrite Hnext.
      + rewrite aget_ains. rewrite N.eqb_sym, En. reflexivity.
  Qed.

  (** ** The single-action infosets: hash map state versus [seen] vector *)
  Definition key_is (name : N) (e : N * N) : bool := N.eqb (fst e) name.

  (** [sm] (hash map infoset -> (action, seen)) and [seen] describe the same state *)
  Definition SimS (singles : list (N * N)) (sm : amap (N * bool)) (seen : list bool) : Prop :=
    length seen = length singles /\
    forall name, aget name sm =
                 match find_index (key_is name) singles with
                 | Some (ind, (_, act)) => Some (act, nth ind seen false)
                 | None => None
                 end.

  Lemma build_singles_aget raw : NoDup (map fst raw) -> forall m name,
    aget name (fold_left (fun m e => ains (fst e) (snd e, false) m) raw m) =
    match find_index (key_is name) raw with
    | Some (_, (_, act)) => Some (act, false)
    | None => aget name m
    end.
  Proof.
    induction raw as [|[i a] r IH]; intros Hnd m name; cbn [fold_left find_index]; [reflexivity|].
    cbn [map fst] in Hnd. apply NoDup_cons_iff in Hnd as [Hi Hr].
    rewrite IH by assumption. unfold key_is at 2; cbn [fst snd].
    destruct (N.eqb i name) eqn:E.
    - apply N.eqb_eq in E; subst i.
      assert (Hn : find_index (key_is name) r = None).
      { apply find_index_none. intros [j b] Hx. unfold key_is; cbn [fst]. apply N.eqb_neq. intros ->.
        apply Hi. change name with (fst (name, b)). now apply in_map. }
      rewrite Hn, aget_ains, N.eqb_refl. reflexivity.
    - destruct (find_index (key_is name) r) as [[j [i' a']]|]; [reflexivity|].
      rewrite aget_ains, N.eqb_sym, E. reflexivity.
  Qed.

  Lemma nth_repeat_false i n : nth i (repeat false n) false = false.
  Proof. revert i; induction n as [|n IH]; intros [|i]; cbn [repeat nth]; auto. Qed.

  Lemma SimS_init singles : NoDup (map fst singles) ->
    SimS singles (build_singles singles) (repeat false (length singles)).
  Proof.
    intros Hnd; split; [apply repeat_length|]. intros name. unfold build_singles.
    rewrite build_singles_aget by assumption.
    destruct (find_index (key_is name) singles) as [[j [i a]]|]; [|reflexivity].
    now rewrite nth_repeat_false.
  Qed.

  Lemma upd_length {A} (l : list A) i v : length (upd l i v) = length l.
  Proof. revert i; induction l as [|x l IH]; intros [|i]; cbn [upd length]; auto. Qed.

  Lemma nth_upd_eq {A} (l : list A) i v d : i < length l -> nth i (upd l i v) d = v.
  Proof.
    revert i; induction l as [|x l IH]; intros [|i] H; cbn [upd nth length] in *; try lia; auto.
    apply IH; lia.
  Qed.

  Lemma nth_upd_neq {A} (l : list A) i j v d : i <> j -> nth j (upd l i v) d = nth j l d.
  Proof.
    revert i j; induction l as [|x l IH]; intros [|i] [|j] H; cbn [upd nth]; try reflexivity; try lia.
    apply IH; lia.
  Qed.

  Lemma SimS_step singles sm seen name ind i act b :
    SimS singles sm seen ->
    find_index (key_is name) singles = Some (ind, (i, act)) ->
    SimS singles (ains name (act, b) sm) (upd seen ind b).
  Proof.
    intros [Hlen Hget] Hf; split; [now rewrite upd_length|]. intros name'.
    rewrite aget_ains. destruct (N.eqb name' name) eqn:E.
    - apply N.eqb_eq in E; subst name'. rewrite Hf.
      destruct (find_index_some _ _ _ _ (0%N, 0%N) Hf) as (Hlt & _ & _).
      rewrite nth_upd_eq by lia. reflexivity.
    - rewrite Hget. destruct (find_index (key_is name') singles) as [[j [i' a']]|] eqn:Ef; [|reflexivity].
      assert (ind <> j).
      { intros ->.
        destruct (find_index_some _ _ _ _ (0%N, 0%N) Hf) as (_ & Hn1 & Hk1).
        destruct (find_index_some _ _ _ _ (0%N, 0%N) Ef) as (_ & Hn2 & Hk2).
        rewrite Hn1 in Hn2. inversion Hn2; subst. unfold key_is in *; cbn [fst] in *.
        apply N.eqb_eq in Hk1, Hk2. subst. rewrite N.eqb_refl in E. discriminate. }
      now rewrite nth_upd_neq.
  Qed.

  (** with unique keys, the scan for the key at position [i] finds position [i] *)
  Lemma find_index_nth_key singles : NoDup (map fst singles) -> forall i d,
    i < length singles ->
    find_index (key_is (fst (nth i singles d))) singles = Some (i, nth i singles d).
  Proof.
    induction singles as [|[k a] r IH]; intros Hnd i d Hi; cbn [length] in Hi; [lia|].
    cbn [map fst] in Hnd. apply NoDup_cons_iff in Hnd as [Hk Hr].
    destruct i as [|i]; cbn [nth find_index].
    - unfold key_is; cbn [fst]. now rewrite N.eqb_refl.
    - unfold key_is at 1; cbn [fst].
      destruct (N.eqb k (fst (nth i r d))) eqn:E.
      + apply N.eqb_eq in E. exfalso. apply Hk. rewrite E. apply in_map. apply nth_In. lia.
      + rewrite IH by (assumption || lia). reflexivity.
  Qed.

  Lemma amap_keys_seen_map keys (m : amap (N * bool)) :
    amap_keys_seen keys m =
    map (fun k => match aget k m with Some (_, b) => b | None => false end) keys.
  Proof. induction keys as [|k r IH]; cbn [amap_keys_seen map]; [reflexivity|now rewrite IH]. Qed.

  Lemma SimS_final singles sm seen : NoDup (map fst singles) ->
    SimS singles sm seen -> amap_keys_seen (map fst singles) sm = seen.
  Proof.
    intros Hnd [Hlen Hget]. rewrite amap_keys_seen_map, map_map.
    apply nth_ext with (d := false) (d' := false); [now rewrite map_length|].
    intros n Hn. rewrite map_length in Hn.
    set (f := fun x : N * N => match aget (fst x) sm with Some (_, b) => b | None => false end).
    assert (Hd : false = f (0%N, 0%N) \/ True) by now right.
    rewrite nth_indep with (d' := f (0%N, 0%N)) by now rewrite map_length.
    rewrite map_nth. unfold f. rewrite Hget, find_index_nth_key by assumption.
    destruct (nth n singles (0%N, 0%N)); reflexivity.
  Qed.

  (** ** The main loops *)
  Definition loop_rel (singles : list (N * N))
             (a : sres (list T * amap (N * bool))) (b : sres (list T * list bool)) : Prop :=
    match a, b with
    | SOk (d, sm), SOk (d', seen) => d = d' /\ SimS singles sm seen
    | SErr e, SErr e' => e = e'
    | _, _ => False
    end.

  Lemma loops_agree infos singles :
    NoDup (map pi_name infos) -> Forall (fun pi => NoDup (pi_actions pi)) infos ->
    forall (strat : list (N * list (N * T))) (dense : list T) sm seen,
      SimS singles sm seen ->
      loop_rel singles
        (fast_loop (fst (build_inds infos O [])) strat dense sm)
        (slow_loop infos (offsets (map arity infos) O) singles strat dense seen).
  Proof.
    intros Hnd Hacts; induction strat as [|[name entries] rest IH]; intros dense sm seen Hsim;
      cbn [fast_loop slow_loop].
    - split; [reflexivity|assumption].
    - rewrite build_inds_aget by assumption. cbn [aget].
      destruct (find_index (fun pi => N.eqb (pi_name pi) name) infos) as [[ind pi]|] eqn:Ef.
      + rewrite fast_multi_slow.
        * destruct (slow_multi _ _ entries dense) as [dense'|e]; [|reflexivity]. now apply IH.
        * apply find_index_In in Ef. rewrite Forall_forall in Hacts. now apply Hacts.
      + destruct Hsim as [Hlen Hget]. rewrite Hget. fold (key_is name).
        destruct (find_index (key_is name) singles) as [[ind [i act]]|] eqn:Es; [|reflexivity].
        destruct (slow_single act entries (nth ind seen false)) as [b|e]; [|reflexivity].
        apply IH. eapply SimS_step; [split; eassumption|eassumption].
  Qed.

  Lemma NoDup_app_inv {A} (l1 l2 : list A) :
    NoDup (l1 ++ l2) -> NoDup l1 /\ NoDup l2 /\ (forall x, In x l1 -> ~ In x l2).
  Proof.
    induction l1 as [|x l1 IH]; cbn [app]; intros H.
    - repeat split; [constructor|assumption|intros x []].
    - apply NoDup_cons_iff in H as [Hx H]. destruct (IH H) as (H1 & H2 & H3).
      repeat split; [|assumption|].
      + constructor; [|assumption]. intros Hi. apply Hx. apply in_or_app. now left.
      + intros y [<-|Hy] Hy2; [|now apply (H3 y)]. apply Hx. apply in_or_app. now right.
  Qed.

  Lemma WFtables_names infos singles :
    WFnames_tables infos singles -> NoDup (map pi_name infos) /\ NoDup (map fst singles).
  Proof. intros [H _]. apply NoDup_app_inv in H as (H1 & H2 & _). now split. Qed.

  Lemma WFtables_actions infos singles :
    WFnames_tables infos singles -> Forall (fun pi => NoDup (pi_actions pi)) infos.
  Proof. intros [_ H]. eapply Forall_impl; [|exact H]. now intros pi [? _]. Qed.

  Lemma players_agree infos singles (strat : list (N * list (N * T))) :
    WFnames_tables infos singles ->
    import_fast_player infos singles strat = import_slow_player infos singles strat.
  Proof.
    intros Hwf. destruct (WFtables_names _ _ Hwf) as [Hn Hs]. pose proof (WFtables_actions _ _ Hwf) as Ha.
    unfold import_fast_player, import_slow_player.
    destruct (build_inds infos 0 []) as [inds n] eqn:Eb.
    assert (Hinds : inds = fst (build_inds infos 0 [])) by now rewrite Eb.
    assert (Hnn : n = fold_left Nat.add (map arity infos) 0).
    { change n with (snd (inds, n)). rewrite <- Eb. apply build_inds_snd. }
    fold arity. rewrite <- Hnn.
    pose proof (loops_agree infos singles Hn Ha strat (repeat (zero NN) n) _ _ (SimS_init singles Hs)) as H.
    rewrite <- Hinds in H.
    destruct (fast_loop inds strat _ _) as [[d sm]|e];
      destruct (slow_loop infos _ singles strat _ _) as [[d' seen]|e']; cbn [loop_rel] in H; try contradiction.
    - destruct H as [-> Hsim]. now rewrite (SimS_final singles sm seen Hs Hsim).
    - now subst.
  Qed.

  Lemma paths_agree (g : @game NN) : WFnames g -> forall x, import_fast g x = import_slow g x.
  Proof.
    intros [H1 H2] x. unfold import_fast, import_slow, import2.
    now rewrite !players_agree by assumption.
  Qed.
End Agree.
