(** * ScaleFloat: scaling the payoffs by a power of two is exact at binary64 (instance [FNum]).

    Property C12 says that multiplying the payoffs by [c > 0] multiplies utilities, regrets
    and bounds by [c].  Over the reals this is [PayoffEvalProofs]; at binary64 it holds bit
    for bit when [c = 2^e] and nothing underflows or overflows, because correctly rounded
    operations commute with the scaling by a power of two in the normal range.

    Main results
    - [rnd_scale]       [rnd (y * 2^e) = rnd y * 2^e] when [y] and [y * 2^e] are zero or normal;
    - [rnd_add_scale]   [rnd (a*2^e + b*2^e) = rnd (a + b) * 2^e] for binary64 [a], [b] whose
                        scalings are binary64 numbers: NO condition on the sum;
    - [Sc e a a']       "[a'] is the float [a] scaled exactly by [2^e]" (finite, real value,
                        sign of zero); [Sc_mulc] (multiplication by the float [2^e]),
                        [Sc_eq] ([Sc e a a' -> a' = a * c], equality of floats),
                        [Sc_add], [Sc_sub], [Sc_opp], [Sc_mul], [Sc_div], [Sc_fmax], [Sc_ltb],
                        [div_scale_both] ([(x*c) / (t*c) = x / t]);
    - [mul_pow2_exact], [add_scale_exact] ([a*c + b*c = (a+b)*c]), [mul_scale_exact]
                        ([p * (x*c) = (p*x) * c]): equalities between floats;
    - [pow2_IsPow2]     [ldexp 1 e] is the float [2^e] for [-1074 <= e <= 1023];
    - [exp_acc_scale], [expected_scale_float]
                        [expected (scale_game c g) s1 s2 = expected g s1 s2 * c] under the
                        inductive "in range" predicate [RangeOK] that follows the evaluation;
    - [expected_scale_float_simple]
                        the same under a closed sufficient condition (probabilities zero or
                        [>= 2^-q], payoffs zero or within [2^-A, 2^A], [q*depth + A + |e| <= 1022]);
    - [truncate_scale_float], [distance_scale_float]  (no payoff involved: by computation);
    - examples: [c = 2^-70], [2^-200], [2^150]; a counterexample with [c = 2^-1070].
    The best-response side ([search], [br_value], [info]) is in [ScaleFloatBR]. *)
From Coq Require Import List ZArith Reals Floats Bool Lia Lra Arith Psatz.
From Flocq Require Import Core IEEE754.BinarySingleNaN IEEE754.PrimFloat Plus_error Mult_error.
From Cfr.theories Require Import Num FInst Tree GameWF Strat Eval
  TruncFloat DistFloat NormFloat EvalFloat.
Import ListNotations.

Local Existing Instance Flocq.IEEE754.PrimFloat.Hprec.
Local Existing Instance Flocq.IEEE754.PrimFloat.Hmax.

Local Open Scope R_scope.
Local Notation float := PrimFloat.float.
Local Notation Hp := Flocq.IEEE754.PrimFloat.Hprec.
Local Notation Hm := Flocq.IEEE754.PrimFloat.Hmax.
Local Notation node := (@node FNum).
Local Notation game := (@game FNum).
Local Notation bp := (bpow radix2).

Local Instance fexp_valid_s : Valid_exp (SpecFloat.fexp prec emax) := fexp_correct prec emax Hp.

(** ** 1a. Real-number facts: rounding commutes with scaling by [2^e] *)

(** zero, or of magnitude at least the smallest positive normal number [2^-1022] *)
Definition nz (y : R) : Prop := y = 0 \/ bp (-1022) <= Rabs y.

Lemma fexp64 : forall m : Z, SpecFloat.fexp prec emax m = Z.max (m - 53) (-1074).
Proof. intros m. reflexivity. Qed.

Lemma bp_pos : forall e, 0 < bp e.
Proof. intros e. apply bpow_gt_0. Qed.

Lemma normal_mag : forall y, bp (-1022) <= Rabs y -> (-1021 <= mag radix2 y)%Z.
Proof. intros y Hy. apply mag_ge_bpow. exact Hy. Qed.

Lemma normal_neq0 : forall y, bp (-1022) <= Rabs y -> y <> 0.
Proof.
  intros y Hy Hz. rewrite Hz, Rabs_R0 in Hy. generalize (bp_pos (-1022)). lra.
Qed.

(** the key fact: no underflow before or after scaling => rounding commutes *)
Lemma rnd_scale_normal : forall y e,
  bp (-1022) <= Rabs y -> bp (-1022) <= Rabs (y * bp e) ->
  rnd (y * bp e) = rnd y * bp e.
Proof.
  intros y e H1 H2.
  assert (Hy0 := normal_neq0 y H1).
  assert (M1 := normal_mag y H1). assert (M2 := normal_mag _ H2).
  rewrite (mag_mult_bpow radix2 y e Hy0) in M2.
  assert (Hc : cexp radix2 (SpecFloat.fexp prec emax) (y * bp e)
               = (cexp radix2 (SpecFloat.fexp prec emax) y + e)%Z).
  { unfold cexp. rewrite (mag_mult_bpow radix2 y e Hy0), !fexp64. lia. }
  unfold rnd, round, scaled_mantissa. rewrite Hc.
  unfold F2R. cbn [Fnum Fexp].
  replace (y * bp e * bp (- (cexp radix2 (SpecFloat.fexp prec emax) y + e)))
    with (y * bp (- cexp radix2 (SpecFloat.fexp prec emax) y)).
  - rewrite bpow_plus. ring.
  - rewrite Z.opp_add_distr, bpow_plus, bpow_opp, (bpow_opp radix2 e).
    field. split; apply Rgt_not_eq; apply bp_pos.
Qed.

Lemma rnd_0 : rnd 0 = 0.
Proof. unfold rnd. apply round_0. auto with typeclass_instances. Qed.

Theorem rnd_scale : forall y e, nz y -> nz (y * bp e) -> rnd (y * bp e) = rnd y * bp e.
Proof.
  intros y e [Hy|Hy] [Hs|Hs].
  - rewrite Hy, Rmult_0_l, rnd_0. ring.
  - rewrite Hy, Rmult_0_l, rnd_0. ring.
  - assert (y = 0).
    { apply Rmult_integral in Hs. destruct Hs as [Hs|Hs]; [exact Hs|].
      generalize (bp_pos e). lra. }
    subst y. rewrite Rmult_0_l, rnd_0. ring.
  - apply rnd_scale_normal; assumption.
Qed.

(** scaling a binary64 number: still a binary64 number if the result is normal or zero,
    or if it is scaled up *)
Lemma fmt_scale : forall x e, fmt x -> nz (x * bp e) -> fmt (x * bp e).
Proof.
  intros x e Hx [Hs|Hs].
  - rewrite Hs. apply fmt_0.
  - assert (Hx0 : x <> 0).
    { intros Hz. rewrite Hz, Rmult_0_l, Rabs_R0 in Hs. generalize (bp_pos (-1022)). lra. }
    assert (M := normal_mag _ Hs). rewrite (mag_mult_bpow radix2 x e Hx0) in M.
    apply (mult_bpow_exact_FLT radix2 (SpecFloat.emin prec emax) prec x e Hx).
    change (SpecFloat.emin prec emax) with (-1074)%Z. change prec with 53%Z. lia.
Qed.

Lemma fmt_scale_up : forall x e, fmt x -> (0 <= e)%Z -> fmt (x * bp e).
Proof.
  intros x e Hx He.
  apply (mult_bpow_pos_exact_FLT radix2 (SpecFloat.emin prec emax) prec x e Hx He).
Qed.

Lemma fmt_plus_small : forall x y, fmt x -> fmt y -> Rabs (x + y) <= bp (-1021) -> fmt (x + y).
Proof.
  intros x y Hx Hy H.
  apply (FLT_format_plus_small radix2 (SpecFloat.emin prec emax) prec x y Hx Hy).
  exact H.
Qed.

Lemma fmt_rnd : forall x, fmt (rnd x).
Proof. intros x. unfold fmt, rnd. apply generic_format_round; auto with typeclass_instances. Qed.

(** Addition needs no range condition on the sum: if both operands scale exactly, the
    rounded sum scales exactly (a subnormal sum of two binary64 numbers is exact). *)
Theorem rnd_add_scale : forall a b e,
  fmt a -> fmt b -> fmt (a * bp e) -> fmt (b * bp e) ->
  rnd (a * bp e + b * bp e) = rnd (a + b) * bp e.
Proof.
  intros a b e Ha Hb Ha' Hb'.
  replace (a * bp e + b * bp e) with ((a + b) * bp e) by ring.
  assert (Hlt : bp (-1022) < bp (-1021)) by (apply bpow_lt; lia).
  assert (Hboth : fmt (a + b) -> fmt ((a + b) * bp e) -> rnd ((a + b) * bp e) = rnd (a + b) * bp e).
  { intros F1 F2. rewrite (rnd_fmt _ F1), (rnd_fmt _ F2). reflexivity. }
  destruct (Rle_lt_dec (bp (-1022)) (Rabs (a + b))) as [H1|H1];
    destruct (Rle_lt_dec (bp (-1022)) (Rabs ((a + b) * bp e))) as [H2|H2].
  - apply rnd_scale_normal; assumption.
  - (* the scaled sum is subnormal: exact; the sum is the scaled sum scaled up *)
    assert (F2 : fmt ((a + b) * bp e)).
    { replace ((a + b) * bp e) with (a * bp e + b * bp e) by ring.
      apply fmt_plus_small; try assumption.
      replace (a * bp e + b * bp e) with ((a + b) * bp e) by ring. lra. }
    assert (He : (e < 0)%Z).
    { destruct (Z_lt_le_dec e 0) as [G|G]; [exact G|exfalso].
      assert (1 <= bp e) by (change 1 with (bp 0); apply bpow_le; exact G).
      rewrite Rabs_mult, (Rabs_pos_eq (bp e)) in H2 by (left; apply bp_pos).
      assert (0 <= Rabs (a + b)) by apply Rabs_pos. nra. }
    apply Hboth; [|exact F2].
    replace (a + b) with ((a + b) * bp e * bp (- e)).
    + apply fmt_scale_up; [exact F2 | lia].
    + rewrite Rmult_assoc, <- bpow_plus, Z.add_opp_diag_r. cbn [bpow]. ring.
  - assert (F1 : fmt (a + b)) by (apply fmt_plus_small; try assumption; lra).
    apply Hboth; [exact F1|]. apply fmt_scale; [exact F1 | right; exact H2].
  - assert (F1 : fmt (a + b)) by (apply fmt_plus_small; try assumption; lra).
    apply Hboth; [exact F1|].
    replace ((a + b) * bp e) with (a * bp e + b * bp e) by ring.
    apply fmt_plus_small; try assumption.
    replace (a * bp e + b * bp e) with ((a + b) * bp e) by ring. lra.
Qed.

(** ** 1b. The float operations, with the sign of the result *)

Definition Fsign (x : float) : bool := Bsign (Prim2B x).

Lemma mul_ok_sign : forall x y,
  Ffin x -> Ffin y ->
  Rabs (rnd (FR x * FR y)) < bp emax ->
  Ffin (x * y)%float /\ FR (x * y)%float = rnd (FR x * FR y) /\
  Fsign (x * y)%float = xorb (Fsign x) (Fsign y).
Proof.
  intros x y Hx Hy Hb. unfold Ffin, FR, Fsign. rewrite mul_equiv.
  generalize (Bmult_correct prec emax Hp Hm mode_NE (Prim2B x) (Prim2B y)).
  change (round_mode mode_NE) with ZnearestE.
  fold (FR x) (FR y). fold (rnd (FR x * FR y)).
  rewrite Rlt_bool_true by exact Hb.
  intros [H1 [H2 H3]].
  assert (Hf : is_finite (Bmult mode_NE (Prim2B x) (Prim2B y)) = true).
  { rewrite H2. unfold Ffin in Hx, Hy. rewrite Hx, Hy. reflexivity. }
  split; [exact Hf|]. split; [exact H1|].
  apply H3. destruct (Bmult mode_NE (Prim2B x) (Prim2B y)); try reflexivity; discriminate Hf.
Qed.

Lemma add_ok_sign : forall x y,
  Ffin x -> Ffin y ->
  Rabs (rnd (FR x + FR y)) < bp emax ->
  Ffin (x + y)%float /\ FR (x + y)%float = rnd (FR x + FR y) /\
  Fsign (x + y)%float =
    match Rcompare (FR x + FR y) 0 with
    | Eq => andb (Fsign x) (Fsign y)
    | Lt => true
    | Gt => false
    end.
Proof.
  intros x y Hx Hy Hb. unfold Ffin, FR, Fsign. rewrite add_equiv.
  generalize (Bplus_correct prec emax Hp Hm mode_NE (Prim2B x) (Prim2B y) Hx Hy).
  change (round_mode mode_NE) with ZnearestE.
  fold (FR x) (FR y). fold (rnd (FR x + FR y)).
  rewrite Rlt_bool_true by exact Hb.
  intros [H1 [H2 H3]]. split; [exact H2|]. split; [exact H1 | exact H3].
Qed.

(** two finite floats with the same real value and the same sign are the same float *)
Lemma float_eq : forall x y : float,
  Ffin x -> Ffin y -> FR x = FR y -> Fsign x = Fsign y -> x = y.
Proof.
  intros x y Hx Hy Hr Hs. apply Prim2B_inj.
  apply (B2R_Bsign_inj prec emax); assumption.
Qed.

(** ** 1c. The scaling factor and the relation "is the exact scaling of" *)

(** [c] is the float [2^e] *)
Definition IsPow2 (c : float) (e : Z) : Prop := Ffin c /\ FR c = bp e.

Lemma IsPow2_sign : forall c e, IsPow2 c e -> Fsign c = false.
Proof.
  intros c e [Hc Hr]. unfold Fsign. apply Bsign_pos; [exact Hc|].
  fold (FR c). rewrite Hr. apply bp_pos.
Qed.

(** [a'] is [a] scaled by [2^e] exactly, sign of zero included *)
Definition Sc (e : Z) (a a' : float) : Prop :=
  Ffin a /\ Ffin a' /\ FR a' = FR a * bp e /\ Fsign a' = Fsign a.

Lemma FR_lt_emax : forall x : float, Rabs (FR x) < bp emax.
Proof. intros x. unfold FR. apply abs_B2R_lt_emax. Qed.

(** multiplying by the float [2^e] is exact whenever the exact product is a binary64
    number (in particular when it is zero or in the normal range) *)
Theorem Sc_mulc : forall c e a, IsPow2 c e -> Ffin a ->
  fmt (FR a * bp e) -> Rabs (FR a * bp e) < bp emax ->
  Sc e a (a * c)%float.
Proof.
  intros c e a Hc Ha Hf Hb.
  assert (Hs := IsPow2_sign c e Hc). destruct Hc as [Hcf Hcr].
  assert (Hb' : Rabs (rnd (FR a * FR c)) < bp emax).
  { rewrite Hcr, (rnd_fmt _ Hf). exact Hb. }
  destruct (mul_ok_sign a c Ha Hcf Hb') as [G1 [G2 G3]].
  split; [exact Ha|]. split; [exact G1|]. split.
  - rewrite G2, Hcr. apply rnd_fmt. exact Hf.
  - rewrite G3, Hs. apply xorb_false_r.
Qed.

Lemma Sc_inj : forall e a a1 a2, Sc e a a1 -> Sc e a a2 -> a1 = a2.
Proof.
  intros e a a1 a2 [_ [F1 [R1 S1]]] [_ [F2 [R2 S2]]].
  apply float_eq; try assumption; congruence.
Qed.

Theorem Sc_eq : forall c e a a', IsPow2 c e -> Sc e a a' -> a' = (a * c)%float.
Proof.
  intros c e a a' Hc Hs. apply (Sc_inj e a); [exact Hs|].
  destruct Hs as [Ha [Ha' [Hr _]]].
  apply Sc_mulc; [exact Hc | exact Ha | rewrite <- Hr; apply fmt_FR | rewrite <- Hr; apply FR_lt_emax].
Qed.

Lemma Sc_zero : forall e, Sc e 0%float 0%float.
Proof.
  intros e. split; [apply Ffin_zero|]. split; [apply Ffin_zero|].
  split; [rewrite FR_zero; ring | reflexivity].
Qed.

(** sums of exactly scaled floats are exactly scaled: no range condition on the sum
    apart from the absence of overflow *)
Theorem Sc_add : forall e a a' b b',
  Sc e a a' -> Sc e b b' ->
  Rabs (rnd (FR a + FR b)) < bp emax ->
  Rabs (rnd (FR a + FR b) * bp e) < bp emax ->
  Sc e (a + b)%float (a' + b')%float.
Proof.
  intros e a a' b b' [Ha [Ha' [Ra Sa]]] [Hb [Hb' [Rb Sb]]] Ho Ho'.
  assert (Hk : rnd (FR a' + FR b') = rnd (FR a + FR b) * bp e).
  { rewrite Ra, Rb. apply rnd_add_scale; try apply fmt_FR.
    - rewrite <- Ra. apply fmt_FR.
    - rewrite <- Rb. apply fmt_FR. }
  assert (Ho2 : Rabs (rnd (FR a' + FR b')) < bp emax) by (rewrite Hk; exact Ho').
  destruct (add_ok_sign a b Ha Hb Ho) as [G1 [G2 G3]].
  destruct (add_ok_sign a' b' Ha' Hb' Ho2) as [G1' [G2' G3']].
  split; [exact G1|]. split; [exact G1'|]. split.
  - rewrite G2', G2. exact Hk.
  - rewrite G3', G3, Sa, Sb.
    replace (FR a' + FR b') with ((FR a + FR b) * bp e) by (rewrite Ra, Rb; ring).
    replace 0 with (0 * bp e) at 1 by ring.
    rewrite (Rcompare_mult_r (bp e) _ _ (bp_pos e)). reflexivity.
Qed.

(** a product by an unscaled factor [p]: exactly scaled when the exact product neither
    underflows before nor after the scaling *)
Theorem Sc_mul : forall e p x x',
  Ffin p -> Sc e x x' ->
  nz (FR p * FR x) -> nz (FR p * FR x * bp e) ->
  Rabs (rnd (FR p * FR x)) < bp emax ->
  Rabs (rnd (FR p * FR x) * bp e) < bp emax ->
  Sc e (p * x)%float (p * x')%float.
Proof.
  intros e p x x' Hp [Hx [Hx' [Rx Sx]]] N1 N2 Ho Ho'.
  assert (Hk : rnd (FR p * FR x') = rnd (FR p * FR x) * bp e).
  { rewrite Rx, <- Rmult_assoc. apply rnd_scale; assumption. }
  assert (Ho2 : Rabs (rnd (FR p * FR x')) < bp emax) by (rewrite Hk; exact Ho').
  destruct (mul_ok_sign p x Hp Hx Ho) as [G1 [G2 G3]].
  destruct (mul_ok_sign p x' Hp Hx' Ho2) as [G1' [G2' G3']].
  split; [exact G1|]. split; [exact G1'|]. split.
  - rewrite G2', G2. exact Hk.
  - rewrite G3', G3, Sx. reflexivity.
Qed.

(** *** The same statements as equalities between floats (bit for bit) *)

(** [FR (x * c) = FR x * 2^e] *)
Theorem mul_pow2_exact : forall c e x, IsPow2 c e -> Ffin x ->
  nz (FR x * bp e) -> Rabs (FR x * bp e) < bp emax ->
  Ffin (x * c)%float /\ FR (x * c)%float = FR x * bp e /\ Fsign (x * c)%float = Fsign x.
Proof.
  intros c e x Hc Hx Hn Hb.
  destruct (Sc_mulc c e x Hc Hx (fmt_scale _ _ (fmt_FR x) Hn) Hb) as [_ [H1 [H2 H3]]].
  split; [exact H1|]. split; assumption.
Qed.

Theorem mul_pow2_exact_up : forall c e x, IsPow2 c e -> Ffin x ->
  (0 <= e)%Z -> Rabs (FR x * bp e) < bp emax ->
  Ffin (x * c)%float /\ FR (x * c)%float = FR x * bp e /\ Fsign (x * c)%float = Fsign x.
Proof.
  intros c e x Hc Hx He Hb.
  destruct (Sc_mulc c e x Hc Hx (fmt_scale_up _ _ (fmt_FR x) He) Hb) as [_ [H1 [H2 H3]]].
  split; [exact H1|]. split; assumption.
Qed.

(** [(a * c) + (b * c) = (a + b) * c] *)
Theorem add_scale_exact : forall c e a b, IsPow2 c e -> Ffin a -> Ffin b ->
  fmt (FR a * bp e) -> Rabs (FR a * bp e) < bp emax ->
  fmt (FR b * bp e) -> Rabs (FR b * bp e) < bp emax ->
  Rabs (rnd (FR a + FR b)) < bp emax ->
  Rabs (rnd (FR a + FR b) * bp e) < bp emax ->
  (a * c + b * c = (a + b) * c)%float.
Proof.
  intros c e a b Hc Ha Hb Fa Ba Fb Bb Ho Ho'.
  apply (Sc_eq c e); [exact Hc|].
  apply Sc_add; try assumption; apply Sc_mulc; assumption.
Qed.

(** [p * (x * c) = (p * x) * c] *)
Theorem mul_scale_exact : forall c e p x, IsPow2 c e -> Ffin p -> Ffin x ->
  fmt (FR x * bp e) -> Rabs (FR x * bp e) < bp emax ->
  nz (FR p * FR x) -> nz (FR p * FR x * bp e) ->
  Rabs (rnd (FR p * FR x)) < bp emax ->
  Rabs (rnd (FR p * FR x) * bp e) < bp emax ->
  (p * (x * c) = (p * x) * c)%float.
Proof.
  intros c e p x Hc Hp Hx Fx Bx N1 N2 Ho Ho'.
  apply (Sc_eq c e); [exact Hc|].
  apply Sc_mul; try assumption. apply Sc_mulc; assumption.
Qed.

(** *** The factor itself: [ldexp 1 e] is the float [2^e] for [-1074 <= e <= 1023] *)

Lemma fmt_bp : forall e : Z, (-1074 <= e)%Z -> fmt (bp e).
Proof.
  intros e He. unfold fmt.
  apply (generic_format_FLT_bpow radix2 (SpecFloat.emin prec emax) prec). exact He.
Qed.

Definition pow2 (e : Z) : float := Z.ldexp 1%float e.

Theorem pow2_IsPow2 : forall e : Z, (-1074 <= e <= 1023)%Z -> IsPow2 (pow2 e) e.
Proof.
  intros e [H1 H2]. unfold IsPow2, Ffin, FR, pow2.
  rewrite ldexp_equiv, Prim2B_one.
  generalize (Bldexp_correct prec emax Hp Hm mode_NE Bone e).
  change (round_mode mode_NE) with ZnearestE.
  rewrite (Bone_correct prec emax Hp Hm), Rmult_1_l.
  fold (rnd (bp e)). rewrite (rnd_fmt _ (fmt_bp e H1)).
  rewrite Rlt_bool_true.
  - intros [G1 [G2 _]]. split; [rewrite G2; apply is_finite_Bone | exact G1].
  - rewrite Rabs_pos_eq by (left; apply bp_pos). apply bpow_lt. change emax with 1024%Z. lia.
Qed.

(** ** 2. The evaluator [expected] on a game whose payoffs are multiplied by [c = 2^e] *)

Fixpoint scale_node (c : float) (n : node) : node :=
  match n with
  | Term x => @Term FNum (x * c)%float
  | Chance ci kids => @Chance FNum ci (map (scale_node c) kids)
  | Player pl i kids => @Player FNum pl i (map (scale_node c) kids)
  end.

Definition scale_game (c : float) (g : game) : game :=
  @mkGame FNum (g_chance g) (g_infos1 g) (g_infos2 g) (g_singles1 g) (g_singles2 g)
          (scale_node c (g_root g)).

(** The "in range" predicate, following the evaluation: at every leaf that is visited,
    with the reach [r] computed on the way down (a float; the same in both runs),
    - the scaled payoff [x * 2^e] is zero or normal (so [x * c] is exact), no overflow;
    - the exact product [r * x] is zero or normal, before and after the scaling (so the
      rounding of the product commutes with the scaling);
    - [|r * x|] and [|r * x * 2^e|] are at most [2^M] (with [L * 2^M < 2^1024] below, the
      accumulators cannot overflow). *)
Definition LeafOK (e M : Z) (r x : float) : Prop :=
  Ffin r /\ Ffin x /\
  nz (FR x * bp e) /\ Rabs (FR x * bp e) < bp emax /\
  nz (FR r * FR x) /\ nz (FR r * FR x * bp e) /\
  Rabs (FR r * FR x) <= bp M /\ Rabs (FR r * FR x * bp e) <= bp M.

Section RLoop.
  Context (P : node -> float -> Prop) (tst : float -> bool) (reach : float).
  Fixpoint rgo (ps : list float) (ks : list node) {struct ks} : Prop :=
    match ps, ks with
    | p :: ps', k :: ks' => (if tst p then P k (p * reach)%float else True) /\ rgo ps' ks'
    | _, _ => True
    end.
End RLoop.

Section Range.
  Context (e M : Z) (chance s1 s2 : list (list float)).

  Fixpoint RangeOK (n : node) (reach : float) {struct n} : Prop :=
    match n with
    | Term x => LeafOK e M reach x
    | Chance ci kids =>
        (fix go (ps : list float) (ks : list node) {struct ks} : Prop :=
           match ps, ks with
           | p :: ps', k :: ks' => RangeOK k (p * reach)%float /\ go ps' ks'
           | _, _ => True
           end) (@row FNum chance ci) kids
    | Player pl i kids =>
        (fix go (ps : list float) (ks : list node) {struct ks} : Prop :=
           match ps, ks with
           | p :: ps', k :: ks' =>
               (if PrimFloat.ltb 0 p then RangeOK k (p * reach)%float else True) /\ go ps' ks'
           | _, _ => True
           end) (@row FNum (if pl then s1 else s2) i) kids
    end.

  Lemma RangeOK_Term : forall x r, RangeOK (Term x) r = LeafOK e M r x.
  Proof. reflexivity. Qed.

  Lemma RangeOK_Chance : forall ci kids r,
    RangeOK (Chance ci kids) r = rgo RangeOK (fun _ => true) r (@row FNum chance ci) kids.
  Proof. reflexivity. Qed.

  Lemma RangeOK_Player : forall pl i kids r,
    RangeOK (Player pl i kids) r =
    rgo RangeOK (fun p => PrimFloat.ltb 0 p) r (@row FNum (if pl then s1 else s2) i) kids.
  Proof. reflexivity. Qed.
End Range.

Lemma scale_node_Term : forall c x, scale_node c (Term x) = @Term FNum (x * c)%float.
Proof. reflexivity. Qed.

Lemma fmt_IZR_bp : forall (n M : Z), (Z.abs n < 2 ^ 53)%Z -> (-1074 <= M)%Z -> fmt (IZR n * bp M).
Proof.
  intros n M Hn HM. unfold fmt.
  apply (generic_format_FLT radix2 (SpecFloat.emin prec emax) prec).
  apply (FLT_spec radix2 (SpecFloat.emin prec emax) prec (IZR n * bp M) (Float radix2 n M)).
  - reflexivity.
  - exact Hn.
  - exact HM.
Qed.

Lemma IZR_bp_lt_emax : forall (n M : Z), (0 <= n < 2 ^ 53)%Z -> (M <= 971)%Z ->
  IZR n * bp M < bp emax.
Proof.
  intros n M Hn HM.
  apply Rlt_le_trans with (bp 53 * bp M).
  - apply Rmult_lt_compat_r; [apply bp_pos|].
    change (bp 53) with (IZR (Zpower radix2 53)). apply IZR_lt. exact (proj2 Hn).
  - rewrite <- bpow_plus. apply bpow_le. change emax with 1024%Z. lia.
Qed.

Lemma rnd_abs_le : forall x y, fmt y -> Rabs x <= y -> Rabs (rnd x) <= y.
Proof.
  intros x y Hy H. unfold rnd. apply abs_round_le_generic; auto with typeclass_instances.
Qed.

Section ScaleEval.
  Context (c : float) (e M : Z) (chance s1 s2 : list (list float)).
  Context (Hc : IsPow2 c e) (HM : (-1074 <= M <= 971)%Z).

  (** invariant on the two accumulators: exactly scaled, both bounded by [j * 2^M] *)
  Definition Inv (j : Z) (a a' : float) : Prop :=
    Sc e a a' /\ Rabs (FR a) <= IZR j * bp M /\ Rabs (FR a') <= IZR j * bp M.

  Lemma Inv_mono : forall j j' a a', (j <= j')%Z -> Inv j a a' -> Inv j' a a'.
  Proof.
    intros j j' a a' Hj [H1 [H2 H3]].
    assert (IZR j * bp M <= IZR j' * bp M).
    { apply Rmult_le_compat_r; [left; apply bp_pos | apply IZR_le; exact Hj]. }
    split; [exact H1|]. split; lra.
  Qed.

  Lemma leaf_scale : forall r x a a' j,
    LeafOK e M r x -> Inv j a a' -> (0 <= j)%Z -> (j + 1 < 2 ^ 53)%Z ->
    Inv (j + 1) (a + r * x)%float (a' + r * (x * c))%float.
  Proof.
    intros r x a a' j [Hr [Hx [Nx [Bx [N1 [N2 [B1 B2]]]]]]] [Hs [Ba Ba']] Hj0 Hj.
    assert (HbM : bp M < bp emax) by (apply bpow_lt; change emax with 1024%Z; lia).
    assert (FM : fmt (bp M)) by (apply fmt_bp; lia).
    assert (Hsx : Sc e x (x * c)%float).
    { apply Sc_mulc; try assumption. apply fmt_scale; [apply fmt_FR | exact Nx]. }
    assert (T1 : Rabs (rnd (FR r * FR x)) <= bp M) by (apply rnd_abs_le; assumption).
    assert (T2 : Rabs (rnd (FR r * FR x) * bp e) <= bp M).
    { rewrite <- (rnd_scale _ e N1 N2). apply rnd_abs_le; assumption. }
    assert (Hst : Sc e (r * x)%float (r * (x * c))%float).
    { apply Sc_mul; try assumption; lra. }
    assert (Et : FR (r * x)%float = rnd (FR r * FR x)).
    { apply (mul_ok r x Hr Hx). lra. }
    assert (Et' : FR (r * (x * c))%float = rnd (FR r * FR x) * bp e).
    { destruct Hst as [_ [_ [Rt _]]]. rewrite Rt, Et. reflexivity. }
    assert (FJ : fmt (IZR (j + 1) * bp M)) by (apply fmt_IZR_bp; lia).
    assert (BJ : IZR (j + 1) * bp M < bp emax) by (apply IZR_bp_lt_emax; lia).
    assert (EJ : IZR (j + 1) * bp M = IZR j * bp M + bp M) by (rewrite plus_IZR; ring).
    assert (S1 : Rabs (rnd (FR a + FR (r * x)%float)) <= IZR (j + 1) * bp M).
    { apply rnd_abs_le; [exact FJ|]. apply Rle_trans with (1 := Rabs_triang _ _).
      rewrite Et, EJ. lra. }
    assert (Hk : rnd (FR a' + FR (r * (x * c))%float) = rnd (FR a + FR (r * x)%float) * bp e).
    { destruct Hs as [_ [_ [Ra _]]]. destruct Hst as [_ [_ [Rt _]]].
      rewrite Ra, Rt. apply rnd_add_scale; try apply fmt_FR.
      - rewrite <- Ra. apply fmt_FR.
      - rewrite <- Rt. apply fmt_FR. }
    assert (S2 : Rabs (rnd (FR a + FR (r * x)%float) * bp e) <= IZR (j + 1) * bp M).
    { rewrite <- Hk. apply rnd_abs_le; [exact FJ|]. apply Rle_trans with (1 := Rabs_triang _ _).
      rewrite Et', EJ. lra. }
    assert (Hsum : Sc e (a + r * x)%float (a' + r * (x * c))%float).
    { apply Sc_add; try assumption; lra. }
    split; [exact Hsum|].
    destruct Hsum as [Hf [Hf' [Rs _]]].
    assert (Es : FR (a + r * x)%float = rnd (FR a + FR (r * x)%float)).
    { destruct Hs as [Ha _]. destruct Hst as [Ht _].
      apply (add_ok a (r * x)%float Ha Ht). lra. }
    split; [rewrite Es; exact S1 | rewrite Rs, Es; exact S2].
  Qed.

  Local Notation ea := (@exp_acc FNum chance s1 s2).
  Local Notation ROK := (RangeOK e M chance s1 s2).

  Definition SSpec (k : node) : Prop := forall r a a' j,
    ROK k r -> Inv j a a' -> (0 <= j)%Z -> (j + Z.of_nat (nleaves k) < 2 ^ 53)%Z ->
    Inv (j + Z.of_nat (nleaves k)) (ea k r a) (ea (scale_node c k) r a').

  Lemma fgo_scale : forall (tst : float -> bool) ks, Forall SSpec ks ->
    forall ps r a a' j,
    rgo ROK tst r ps ks -> Inv j a a' -> (0 <= j)%Z ->
    (j + Z.of_nat (list_sum (map nleaves ks)) < 2 ^ 53)%Z ->
    Inv (j + Z.of_nat (list_sum (map nleaves ks)))
        (fgo ea tst r ps ks a) (fgo ea tst r ps (map (scale_node c) ks) a').
  Proof.
    intros tst ks Hks. induction Hks as [|k ks Hk Hks IH]; intros ps r a a' j Hr Hi Hj0 Hj.
    - destruct ps; cbn [fgo map list_sum fold_right]; rewrite Z.add_0_r; exact Hi.
    - destruct ps as [|p ps].
      + cbn [fgo map]. apply (Inv_mono j); [lia | exact Hi].
      + change (list_sum (map nleaves (k :: ks)))
          with (nleaves k + list_sum (map nleaves ks))%nat in Hj |- *.
        rewrite Nat2Z.inj_add in Hj |- *.
        cbn [rgo] in Hr. destruct Hr as [Hr1 Hr2].
        assert (H1 := IH ps r a a' j Hr2 Hi Hj0 ltac:(lia)).
        cbn [fgo map]. destruct (tst p).
        * assert (H2 := Hk (p * r)%float _ _ _ Hr1 H1 ltac:(lia) ltac:(lia)).
          eapply Inv_mono; [|exact H2]. lia.
        * eapply Inv_mono; [|exact H1]. lia.
  Qed.

  Theorem exp_acc_scale : forall n, SSpec n.
  Proof.
    induction n as [x|ci kids IH|pl i kids IH] using node_ind'; intros r a a' j Hr Hi Hj0 Hj.
    - rewrite scale_node_Term, !exp_acc_Term. cbn [nleaves] in Hj |- *.
      rewrite RangeOK_Term in Hr.
      apply leaf_scale; try assumption.
    - rewrite RangeOK_Chance in Hr.
      change (scale_node c (Chance ci kids)) with (@Chance FNum ci (map (scale_node c) kids)).
      rewrite !exp_acc_Chance. cbn [nleaves] in Hj |- *.
      apply fgo_scale; assumption.
    - rewrite RangeOK_Player in Hr.
      change (scale_node c (Player pl i kids)) with (@Player FNum pl i (map (scale_node c) kids)).
      rewrite !exp_acc_Player. cbn [nleaves] in Hj |- *.
      apply fgo_scale; assumption.
  Qed.
End ScaleEval.

(** Main theorem, with the inductive range predicate.  [e] may be any integer for
    which [c] is the float [2^e]; [M] is the magnitude budget of the terms. *)
Theorem expected_scale_float : forall (c : float) (e M : Z) (g : game) (s1 s2 : list (list float)),
  IsPow2 c e -> (-1074 <= M <= 971)%Z ->
  (Z.of_nat (nleaves (g_root g)) < 2 ^ 53)%Z ->
  RangeOK e M (g_chance g) s1 s2 (g_root g) 1%float ->
  @expected FNum (scale_game c g) s1 s2 = (@expected FNum g s1 s2 * c)%float /\
  Ffin (@expected FNum g s1 s2) /\ Ffin (@expected FNum (scale_game c g) s1 s2) /\
  FR (@expected FNum (scale_game c g) s1 s2) = FR (@expected FNum g s1 s2) * bp e.
Proof.
  intros c e M g s1 s2 Hc HM HL Hr.
  assert (H0 : Inv e M 0 0%float 0%float).
  { split; [apply Sc_zero|]. rewrite FR_zero, Rabs_R0. cbn. lra. }
  assert (H := exp_acc_scale c e M (g_chance g) s1 s2 Hc HM (g_root g)
                 1%float 0%float 0%float 0%Z Hr H0 (Z.le_refl 0) ltac:(lia)).
  destruct H as [Hs _].
  change (@exp_acc FNum (g_chance g) s1 s2 (g_root g) 1%float 0%float)
    with (@expected FNum g s1 s2) in Hs.
  change (@exp_acc FNum (g_chance g) s1 s2 (scale_node c (g_root g)) 1%float 0%float)
    with (@expected FNum (scale_game c g) s1 s2) in Hs.
  split; [apply (Sc_eq c e); assumption|].
  destruct Hs as [F1 [F2 [R _]]]. split; [exact F1|]. split; [exact F2 | exact R].
Qed.

(** ** 2b. A clean sufficient condition for [RangeOK]

    - every probability (chance table and both strategies) is a float in [0,1] that is
      zero or at least [2^-q];
    - every payoff is finite, and zero or of magnitude within [2^-A, 2^A];
    - [q * depth + A + |e| <= 1022] and [A + |e| <= 971]. *)

(** zero, or of magnitude within [2^lo, 2^hi] *)
Definition Rng (lo hi : Z) (y : R) : Prop := y = 0 \/ (bp lo <= Rabs y <= bp hi).

Lemma Rng_mul : forall lo1 hi1 lo2 hi2 u v,
  Rng lo1 hi1 u -> Rng lo2 hi2 v -> Rng (lo1 + lo2) (hi1 + hi2) (u * v).
Proof.
  intros lo1 hi1 lo2 hi2 u v [Hu|[Hu1 Hu2]] [Hv|[Hv1 Hv2]];
    try (left; subst; ring).
  right. rewrite Rabs_mult, !bpow_plus.
  assert (0 < bp lo1) by apply bp_pos. assert (0 < bp lo2) by apply bp_pos.
  split; apply Rmult_le_compat; lra.
Qed.

Lemma Rng_bp : forall e, Rng e e (bp e).
Proof. intros e. right. rewrite Rabs_pos_eq by (left; apply bp_pos). lra. Qed.

Lemma Rng_nz : forall lo hi y, Rng lo hi y -> (-1022 <= lo)%Z -> nz y.
Proof.
  intros lo hi y [H|[H _]] Hlo; [left; exact H | right].
  apply Rle_trans with (2 := H). apply bpow_le. exact Hlo.
Qed.

Lemma Rng_le : forall lo hi y M, Rng lo hi y -> (hi <= M)%Z -> Rabs y <= bp M.
Proof.
  intros lo hi y M [H|[_ H]] Hhi.
  - rewrite H, Rabs_R0. left. apply bp_pos.
  - apply Rle_trans with (1 := H). apply bpow_le. exact Hhi.
Qed.

Definition ProbOK (q : Z) (p : float) : Prop := fin01 p /\ (FR p = 0 \/ bp (- q) <= FR p).
Definition TblQ (q : Z) (t : list (list float)) : Prop := Forall (Forall (ProbOK q)) t.

Inductive PayIn (A : Z) : node -> Prop :=
| PayIn_Term : forall x, Ffin x -> Rng (- A) A (FR x) -> PayIn A (@Term FNum x)
| PayIn_Chance : forall ci kids, Forall (PayIn A) kids -> PayIn A (@Chance FNum ci kids)
| PayIn_Player : forall pl i kids, Forall (PayIn A) kids -> PayIn A (@Player FNum pl i kids).

(** reach after [j] levels *)
Definition ReachQ (q : Z) (j : nat) (r : float) : Prop :=
  fin01 r /\ (FR r = 0 \/ bp (- (q * Z.of_nat j)) <= FR r).

Lemma ReachQ_one : forall q, ReachQ q 0 1%float.
Proof.
  intros q. split; [split; [apply Ffin_one | rewrite FR_one; lra]|].
  right. rewrite FR_one, Z.mul_0_r. cbn. lra.
Qed.

Lemma ReachQ_step : forall q j p r, (0 <= q)%Z -> (q * Z.of_nat (S j) <= 1074)%Z ->
  ProbOK q p -> ReachQ q j r -> ReachQ q (S j) (p * r)%float.
Proof.
  intros q j p r Hq Hqj [Hp Hpl] [Hr Hrl].
  destruct (mul_reach p r Hp Hr) as [Hf He].
  split; [exact Hf|]. rewrite He.
  destruct Hpl as [Hpz|Hpl]; [left; rewrite Hpz, Rmult_0_l; apply rnd_0|].
  destruct Hrl as [Hrz|Hrl]; [left; rewrite Hrz, Rmult_0_r; apply rnd_0|].
  right. apply rnd_ge_fmt; [apply fmt_bp; lia|].
  replace (- (q * Z.of_nat (S j)))%Z with (- q + - (q * Z.of_nat j))%Z by lia.
  rewrite bpow_plus.
  assert (0 < bp (- q)) by apply bp_pos. assert (0 < bp (- (q * Z.of_nat j))) by apply bp_pos.
  apply Rmult_le_compat; lra.
Qed.

Lemma row_ProbOK : forall q t i, TblQ q t -> Forall (ProbOK q) (@row FNum t i).
Proof.
  intros q t i Ht. unfold row.
  destruct (Nat.lt_ge_cases i (length t)) as [Hi|Hi].
  - unfold TblQ in Ht. rewrite Forall_forall in Ht. apply Ht. apply nth_In. exact Hi.
  - rewrite nth_overflow by exact Hi. constructor.
Qed.

Section Simple.
  Context (e q A : Z) (D : nat) (chance s1 s2 : list (list float)).
  Context (Hq : (0 <= q)%Z) (HA : (0 <= A)%Z).
  Context (H1022 : (q * Z.of_nat D + A + Z.abs e <= 1022)%Z) (H971 : (A + Z.abs e <= 971)%Z).
  Context (Hchance : TblQ q chance) (Hs1 : TblQ q s1) (Hs2 : TblQ q s2).

  Local Notation ROK := (RangeOK e (A + Z.abs e) chance s1 s2).

  Lemma leaf_simple : forall j r x, (j <= D)%nat -> ReachQ q j r ->
    Ffin x -> Rng (- A) A (FR x) -> LeafOK e (A + Z.abs e) r x.
  Proof.
    intros j r x Hj [[Hrf [Hr0 Hr1]] Hrl] Hx Hxr.
    assert (HjD : (q * Z.of_nat j <= q * Z.of_nat D)%Z) by (apply Z.mul_le_mono_nonneg_l; lia).
    assert (Rr : Rng (- (q * Z.of_nat j)) 0 (FR r)).
    { destruct Hrl as [Hz|Hl]; [left; exact Hz | right].
      rewrite Rabs_pos_eq by exact Hr0. cbn [bpow]. lra. }
    assert (Rxe := Rng_mul _ _ _ _ _ _ Hxr (Rng_bp e)).
    assert (Rrx := Rng_mul _ _ _ _ _ _ Rr Hxr).
    assert (Rrxe := Rng_mul _ _ _ _ _ _ Rrx (Rng_bp e)).
    split; [exact Hrf|]. split; [exact Hx|].
    split; [apply (Rng_nz _ _ _ Rxe); lia|].
    split.
    { apply Rle_lt_trans with (bp (A + Z.abs e)); [apply (Rng_le _ _ _ _ Rxe); lia|].
      apply bpow_lt. change emax with 1024%Z. lia. }
    split; [apply (Rng_nz _ _ _ Rrx); lia|].
    split; [apply (Rng_nz _ _ _ Rrxe); lia|].
    split; [apply (Rng_le _ _ _ _ Rrx); lia | apply (Rng_le _ _ _ _ Rrxe); lia].
  Qed.

  Definition RSpec (k : node) : Prop := forall j r,
    (j + depth k <= D)%nat -> ReachQ q j r -> PayIn A k -> ROK k r.

  Lemma rgo_simple : forall (tst : float -> bool) ks, Forall RSpec ks ->
    forall ps j r, Forall (ProbOK q) ps -> Forall (PayIn A) ks ->
    (S j + list_max (map depth ks) <= D)%nat -> ReachQ q j r ->
    rgo ROK tst r ps ks.
  Proof.
    intros tst ks Hks. induction Hks as [|k ks Hk Hks IH]; intros ps j r Hps Hpay Hd Hr.
    - destruct ps; exact I.
    - destruct ps as [|p ps]; [exact I|].
      inversion Hps as [|? ? Hp Hps']; subst. inversion Hpay as [|? ? Hpk Hpay']; subst.
      change (list_max (map depth (k :: ks))) with (Nat.max (depth k) (list_max (map depth ks))) in Hd.
      cbn [rgo]. split.
      + destruct (tst p); [|exact I].
        apply (Hk (S j)); [lia | | exact Hpk].
        apply ReachQ_step; try assumption.
        assert ((q * Z.of_nat (S j) <= q * Z.of_nat D)%Z) by (apply Z.mul_le_mono_nonneg_l; lia).
        lia.
      + apply (IH ps j r); try assumption. lia.
  Qed.

  Lemma RangeOK_simple : forall n, RSpec n.
  Proof.
    induction n as [x|ci kids IH|pl i kids IH] using node_ind'; intros j r Hd Hr Hpay.
    - inversion Hpay as [x' Hx Hxr| |]; subst. rewrite RangeOK_Term.
      apply (leaf_simple j); try assumption. lia.
    - inversion Hpay as [|ci' kids' Hkids|]; subst. rewrite RangeOK_Chance.
      cbn [depth] in Hd.
      apply (rgo_simple _ kids IH _ j); try assumption; [apply row_ProbOK; exact Hchance | lia].
    - inversion Hpay as [| |pl' i' kids' Hkids]; subst. rewrite RangeOK_Player.
      cbn [depth] in Hd.
      apply (rgo_simple _ kids IH _ j); try assumption; [|lia].
      apply row_ProbOK. destruct pl; assumption.
  Qed.
End Simple.

Theorem expected_scale_float_simple :
  forall (c : float) (e q A : Z) (g : game) (s1 s2 : list (list float)),
  IsPow2 c e -> (0 <= q)%Z -> (0 <= A)%Z ->
  (q * Z.of_nat (depth (g_root g)) + A + Z.abs e <= 1022)%Z -> (A + Z.abs e <= 971)%Z ->
  TblQ q (g_chance g) -> TblQ q s1 -> TblQ q s2 -> PayIn A (g_root g) ->
  (Z.of_nat (nleaves (g_root g)) < 2 ^ 53)%Z ->
  @expected FNum (scale_game c g) s1 s2 = (@expected FNum g s1 s2 * c)%float /\
  Ffin (@expected FNum g s1 s2) /\ Ffin (@expected FNum (scale_game c g) s1 s2) /\
  FR (@expected FNum (scale_game c g) s1 s2) = FR (@expected FNum g s1 s2) * bp e.
Proof.
  intros c e q A g s1 s2 Hc Hq HA H1 H2 Tc T1 T2 Hpay HL.
  apply (expected_scale_float c e (A + Z.abs e)); try assumption; [lia|].
  apply (RangeOK_simple e q A (depth (g_root g)) (g_chance g) s1 s2 Hq HA H1 H2 Tc T1 T2
           (g_root g) 0%nat 1%float); [lia | apply ReachQ_one | exact Hpay].
Qed.

(** ** 2c. More operations preserved by exact scaling: subtraction, negation, division,
    comparisons, [f64::max], and the scale-invariance of a quotient *)

Lemma sub_ok_sign : forall x y,
  Ffin x -> Ffin y ->
  Rabs (rnd (FR x - FR y)) < bp emax ->
  Ffin (x - y)%float /\ FR (x - y)%float = rnd (FR x - FR y) /\
  Fsign (x - y)%float =
    match Rcompare (FR x - FR y) 0 with
    | Eq => andb (Fsign x) (negb (Fsign y))
    | Lt => true
    | Gt => false
    end.
Proof.
  intros x y Hx Hy Hb. unfold Ffin, FR, Fsign. rewrite sub_equiv.
  generalize (Bminus_correct prec emax Hp Hm mode_NE (Prim2B x) (Prim2B y) Hx Hy).
  change (round_mode mode_NE) with ZnearestE.
  fold (FR x) (FR y). fold (rnd (FR x - FR y)).
  rewrite Rlt_bool_true by exact Hb.
  intros [H1 [H2 H3]]. split; [exact H2|]. split; [exact H1 | exact H3].
Qed.

Lemma div_ok_sign : forall x y,
  Ffin x -> FR y <> 0 ->
  Rabs (rnd (FR x / FR y)) < bp emax ->
  Ffin (x / y)%float /\ FR (x / y)%float = rnd (FR x / FR y) /\
  Fsign (x / y)%float = xorb (Fsign x) (Fsign y).
Proof.
  intros x y Hx Hy Hb. unfold Ffin, FR, Fsign. rewrite div_equiv.
  generalize (Bdiv_correct prec emax Hp Hm mode_NE (Prim2B x) (Prim2B y) Hy).
  change (round_mode mode_NE) with ZnearestE.
  fold (FR x) (FR y). fold (rnd (FR x / FR y)).
  rewrite Rlt_bool_true by exact Hb.
  intros [H1 [H2 H3]].
  assert (Hf : is_finite (Bdiv mode_NE (Prim2B x) (Prim2B y)) = true) by (rewrite H2; exact Hx).
  split; [exact Hf|]. split; [exact H1|].
  apply H3. destruct (Bdiv mode_NE (Prim2B x) (Prim2B y)); try reflexivity; discriminate Hf.
Qed.

Lemma fmt_opp : forall x, fmt x -> fmt (- x).
Proof. intros x Hx. unfold fmt. apply generic_format_opp. exact Hx. Qed.

Theorem Sc_sub : forall e a a' b b',
  Sc e a a' -> Sc e b b' ->
  Rabs (rnd (FR a - FR b)) < bp emax ->
  Rabs (rnd (FR a - FR b) * bp e) < bp emax ->
  Sc e (a - b)%float (a' - b')%float.
Proof.
  intros e a a' b b' [Ha [Ha' [Ra Sa]]] [Hb [Hb' [Rb Sb]]] Ho Ho'.
  assert (Hk : rnd (FR a' - FR b') = rnd (FR a - FR b) * bp e).
  { rewrite Ra, Rb.
    replace (FR a * bp e - FR b * bp e) with (FR a * bp e + (- FR b) * bp e) by ring.
    unfold Rminus. apply rnd_add_scale.
    - apply fmt_FR.
    - apply fmt_opp, fmt_FR.
    - rewrite <- Ra. apply fmt_FR.
    - replace (- FR b * bp e) with (- (FR b * bp e)) by ring. rewrite <- Rb. apply fmt_opp, fmt_FR. }
  assert (Ho2 : Rabs (rnd (FR a' - FR b')) < bp emax) by (rewrite Hk; exact Ho').
  destruct (sub_ok_sign a b Ha Hb Ho) as [G1 [G2 G3]].
  destruct (sub_ok_sign a' b' Ha' Hb' Ho2) as [G1' [G2' G3']].
  split; [exact G1|]. split; [exact G1'|]. split.
  - rewrite G2', G2. exact Hk.
  - rewrite G3', G3, Sa, Sb.
    replace (FR a' - FR b') with ((FR a - FR b) * bp e) by (rewrite Ra, Rb; ring).
    replace 0 with (0 * bp e) at 1 by ring.
    rewrite (Rcompare_mult_r (bp e) _ _ (bp_pos e)). reflexivity.
Qed.

Theorem Sc_opp : forall e a a', Sc e a a' -> Sc e (- a)%float (- a')%float.
Proof.
  intros e a a' [Ha [Ha' [Ra Sa]]].
  unfold Sc, Ffin, FR, Fsign in *. rewrite !opp_equiv, !is_finite_Bopp, !B2R_Bopp.
  split; [exact Ha|]. split; [exact Ha'|]. split.
  - rewrite Ra. ring.
  - rewrite !Bsign_Bopp.
    + rewrite Sa. reflexivity.
    + destruct (Prim2B a); try reflexivity; discriminate Ha.
    + destruct (Prim2B a'); try reflexivity; discriminate Ha'.
Qed.

(** a quotient by an unscaled divisor *)
Theorem Sc_div : forall e x x' t,
  Sc e x x' -> Ffin t -> FR t <> 0 ->
  nz (FR x / FR t) -> nz (FR x / FR t * bp e) ->
  Rabs (rnd (FR x / FR t)) < bp emax ->
  Rabs (rnd (FR x / FR t) * bp e) < bp emax ->
  Sc e (x / t)%float (x' / t)%float.
Proof.
  intros e x x' t [Hx [Hx' [Rx Sx]]] Ht Ht0 N1 N2 Ho Ho'.
  assert (Hk : rnd (FR x' / FR t) = rnd (FR x / FR t) * bp e).
  { rewrite Rx. replace (FR x * bp e / FR t) with (FR x / FR t * bp e) by (field; exact Ht0).
    apply rnd_scale; assumption. }
  assert (Ho2 : Rabs (rnd (FR x' / FR t)) < bp emax) by (rewrite Hk; exact Ho').
  destruct (div_ok_sign x t Hx Ht0 Ho) as [G1 [G2 G3]].
  destruct (div_ok_sign x' t Hx' Ht0 Ho2) as [G1' [G2' G3']].
  split; [exact G1|]. split; [exact G1'|]. split.
  - rewrite G2', G2. exact Hk.
  - rewrite G3', G3, Sx. reflexivity.
Qed.

(** numerator and denominator both scaled: the quotient is the same float (this is why
    regret matching returns the same strategy) *)
Theorem div_scale_both : forall e x x' t t',
  Sc e x x' -> Sc e t t' -> FR t <> 0 ->
  Rabs (rnd (FR x / FR t)) < bp emax ->
  (x' / t')%float = (x / t)%float.
Proof.
  intros e x x' t t' [Hx [Hx' [Rx Sx]]] [Ht [Ht' [Rt St]]] Ht0 Ho.
  assert (Hbe : bp e <> 0) by (apply Rgt_not_eq, bp_pos).
  assert (Ht0' : FR t' <> 0).
  { rewrite Rt. intros Hz. apply Rmult_integral in Hz. tauto. }
  assert (Hq : FR x' / FR t' = FR x / FR t) by (rewrite Rx, Rt; field; split; assumption).
  assert (Ho2 : Rabs (rnd (FR x' / FR t')) < bp emax) by (rewrite Hq; exact Ho).
  destruct (div_ok_sign x t Hx Ht0 Ho) as [G1 [G2 G3]].
  destruct (div_ok_sign x' t' Hx' Ht0' Ho2) as [G1' [G2' G3']].
  apply float_eq; try assumption.
  - rewrite G2', G2, Hq. reflexivity.
  - rewrite G3', G3, Sx, St. reflexivity.
Qed.

(** comparisons do not see the scaling *)
Theorem Sc_ltb : forall e a a' b b', Sc e a a' -> Sc e b b' ->
  PrimFloat.ltb a' b' = PrimFloat.ltb a b.
Proof.
  intros e a a' b b' [Ha [Ha' [Ra _]]] [Hb [Hb' [Rb _]]].
  rewrite (ltb_fin a' b' Ha' Hb'), (ltb_fin a b Ha Hb), Ra, Rb.
  assert (He := bp_pos e).
  destruct (Rlt_bool_spec (FR a) (FR b)) as [H|H].
  - apply Rlt_bool_true. apply Rmult_lt_compat_r; assumption.
  - apply Rlt_bool_false. apply Rmult_le_compat_r; [lra | exact H].
Qed.

Lemma Sc_ltb_0l : forall e a a', Sc e a a' -> PrimFloat.ltb 0 a' = PrimFloat.ltb 0 a.
Proof. intros e a a' H. apply (Sc_ltb e 0%float 0%float a a' (Sc_zero e) H). Qed.

Lemma Sc_ltb_0r : forall e a a', Sc e a a' -> PrimFloat.ltb a' 0 = PrimFloat.ltb a 0.
Proof. intros e a a' H. apply (Sc_ltb e a a' 0%float 0%float H (Sc_zero e)). Qed.

(** [f64::max] *)
Theorem Sc_fmax : forall e a a' b b', Sc e a a' -> Sc e b b' ->
  Sc e (f_max a b) (f_max a' b').
Proof.
  intros e a a' b b' Ha Hb. unfold f_max.
  rewrite (Sc_ltb e a a' b b' Ha Hb).
  destruct (PrimFloat.ltb a b); [exact Hb|].
  destruct Ha as [Fa [Fa' Hr]].
  rewrite (f_is_nan_fin a Fa), (f_is_nan_fin a' Fa').
  split; [exact Fa|]. split; [exact Fa' | exact Hr].
Qed.

(** [f_max] returns one of its arguments: bounds are inherited *)
Lemma f_max_cases : forall a b : float, f_max a b = a \/ f_max a b = b.
Proof.
  intros a b. unfold f_max. destruct (PrimFloat.ltb a b); [right; reflexivity|].
  destruct (f_is_nan a); [right | left]; reflexivity.
Qed.

(** ** 3. Functions that do not read the payoffs are unchanged (by computation) *)

Theorem truncate_scale_float : forall (c h : float) (g : game) (prof : list float * list float),
  @truncate FNum (scale_game c g) h prof = @truncate FNum g h prof.
Proof. reflexivity. Qed.

Theorem distance_scale_float : forall (c p : float) (g : game) (a b : list float * list float),
  @distance FNum (scale_game c g) p a b = @distance FNum g p a b.
Proof. reflexivity. Qed.

(** ** Boolean checkers for the hypotheses of [expected_scale_float_simple] *)

Definition probokb (q : Z) (p : float) : bool :=
  fin01b p && (PrimFloat.eqb p 0 || PrimFloat.leb (pow2 (- q)) p).

Lemma probokb_spec : forall q p, (0 <= q <= 1074)%Z -> probokb q p = true -> ProbOK q p.
Proof.
  intros q p Hq H. unfold probokb in H. apply andb_true_iff in H. destruct H as [H1 H2].
  apply fin01b_spec in H1. split; [exact H1|].
  destruct H1 as [Hf _].
  apply orb_true_iff in H2. destruct H2 as [H2|H2].
  - left. apply (eqb_zero_fin p Hf). exact H2.
  - right. destruct (pow2_IsPow2 (- q) ltac:(lia)) as [Gf Gr].
    rewrite (leb_fin _ _ Gf Hf), Gr in H2.
    destruct (Rle_bool_spec (bp (- q)) (FR p)) as [Hr|Hr]; [exact Hr | discriminate].
Qed.

Definition tblqb (q : Z) (t : list (list float)) : bool := forallb (forallb (probokb q)) t.

Lemma tblqb_spec : forall q t, (0 <= q <= 1074)%Z -> tblqb q t = true -> TblQ q t.
Proof.
  intros q t Hq H. unfold tblqb in H. rewrite forallb_forall in H.
  apply Forall_forall. intros r Hr. specialize (H r Hr). rewrite forallb_forall in H.
  apply Forall_forall. intros p Hp. apply probokb_spec; [exact Hq | apply H; exact Hp].
Qed.

Definition payin1b (A : Z) (x : float) : bool :=
  f_is_fin x &&
  (PrimFloat.eqb x 0 ||
   (PrimFloat.leb (pow2 (- A)) (PrimFloat.abs x) && PrimFloat.leb (PrimFloat.abs x) (pow2 A))).

Fixpoint payinb (A : Z) (n : node) : bool :=
  match n with
  | Term x => payin1b A x
  | Chance _ kids => forallb (payinb A) kids
  | Player _ _ kids => forallb (payinb A) kids
  end.

Lemma payinb_spec : forall A, (0 <= A <= 1023)%Z -> forall n, payinb A n = true -> PayIn A n.
Proof.
  intros A HA.
  induction n as [x|ci kids IH|pl i kids IH] using node_ind'; cbn [payinb]; intros H.
  - unfold payin1b in H. apply andb_true_iff in H. destruct H as [Hf H2].
    apply NormFloat.f_is_fin_true in Hf.
    constructor; [exact Hf|].
    apply orb_true_iff in H2. destruct H2 as [H2|H2].
    + left. apply (eqb_zero_fin x Hf). exact H2.
    + right. apply andb_true_iff in H2. destruct H2 as [L1 L2].
      destruct (pow2_IsPow2 (- A) ltac:(lia)) as [Gf Gr].
      destruct (pow2_IsPow2 A ltac:(lia)) as [Gf' Gr'].
      rewrite (leb_fin _ _ Gf (Ffin_abs x Hf)), Gr, FR_abs in L1.
      rewrite (leb_fin _ _ (Ffin_abs x Hf) Gf'), Gr', FR_abs in L2.
      destruct (Rle_bool_spec (bp (- A)) (Rabs (FR x))) as [Hr|Hr]; [|discriminate].
      destruct (Rle_bool_spec (Rabs (FR x)) (bp A)) as [Hr'|Hr']; [|discriminate].
      split; assumption.
  - constructor. rewrite forallb_forall in H. rewrite Forall_forall in IH |- *.
    intros k Hk. apply IH; [exact Hk | apply H; exact Hk].
  - constructor. rewrite forallb_forall in H. rewrite Forall_forall in IH |- *.
    intros k Hk. apply IH; [exact Hk | apply H; exact Hk].
Qed.

(** ** 4. Examples (the tree of [EvalFloat.ex_g]: payoffs 1, -2, 3, 0.1) *)

Definition c70 : float := pow2 (-70).

Example c70_value : c70 = 0x1p-70%float.
Proof. vm_compute. reflexivity. Qed.

(** both sides computed: equal, bit for bit *)
Example ex_scale_both :
  @expected FNum (scale_game c70 ex_g) ex_s1 ex_s2 = 0x1.7ae147ae147aep-72%float /\
  (@expected FNum ex_g ex_s1 ex_s2 * c70)%float = 0x1.7ae147ae147aep-72%float.
Proof. split; vm_compute; reflexivity. Qed.

(** the same equality as an instance of the theorem: probabilities [>= 2^-2], depth 2,
    payoffs within [2^-4, 2^2] (so [A = 4]), [e = -70]: [2 * 2 + 4 + 70 <= 1022] *)
Example ex_scale_thm :
  @expected FNum (scale_game c70 ex_g) ex_s1 ex_s2 = (@expected FNum ex_g ex_s1 ex_s2 * c70)%float.
Proof.
  apply (expected_scale_float_simple c70 (-70) 2 4 ex_g ex_s1 ex_s2).
  - apply pow2_IsPow2. lia.
  - lia.
  - lia.
  - change (depth (g_root ex_g)) with 2%nat. cbn. lia.
  - cbn. lia.
  - apply tblqb_spec; [lia | vm_compute; reflexivity].
  - apply tblqb_spec; [lia | vm_compute; reflexivity].
  - apply tblqb_spec; [lia | vm_compute; reflexivity].
  - apply payinb_spec; [lia | vm_compute; reflexivity].
  - change (nleaves (g_root ex_g)) with 4%nat. cbn. lia.
Qed.

(** the units used by the correspondence check, [2^-200] and [2^150], also qualify *)
Example ex_scale_units :
  @expected FNum (scale_game (pow2 (-200)) ex_g) ex_s1 ex_s2
    = (@expected FNum ex_g ex_s1 ex_s2 * pow2 (-200))%float /\
  @expected FNum (scale_game (pow2 150) ex_g) ex_s1 ex_s2
    = (@expected FNum ex_g ex_s1 ex_s2 * pow2 150)%float.
Proof.
  assert (Tc : TblQ 2 (g_chance ex_g)) by (apply tblqb_spec; [lia | vm_compute; reflexivity]).
  assert (T1 : TblQ 2 ex_s1) by (apply tblqb_spec; [lia | vm_compute; reflexivity]).
  assert (T2 : TblQ 2 ex_s2) by (apply tblqb_spec; [lia | vm_compute; reflexivity]).
  assert (Hpay : PayIn 4 (g_root ex_g)) by (apply payinb_spec; [lia | vm_compute; reflexivity]).
  split.
  - apply (expected_scale_float_simple _ (-200) 2 4 ex_g ex_s1 ex_s2); try assumption;
      try lia; try (apply pow2_IsPow2; lia);
      change (depth (g_root ex_g)) with 2%nat; change (nleaves (g_root ex_g)) with 4%nat; cbn; lia.
  - apply (expected_scale_float_simple _ 150 2 4 ex_g ex_s1 ex_s2); try assumption;
      try lia; try (apply pow2_IsPow2; lia);
      change (depth (g_root ex_g)) with 2%nat; change (nleaves (g_root ex_g)) with 4%nat; cbn; lia.
Qed.

(** the range hypotheses cannot be dropped: with [c = 2^-1070] products underflow and the
    two sides differ *)
Example ex_scale_underflow :
  @expected FNum (scale_game (pow2 (-1070)) ex_g) ex_s1 ex_s2
  <> (@expected FNum ex_g ex_s1 ex_s2 * pow2 (-1070))%float.
Proof.
  intros H. apply (f_equal (fun x => PrimFloat.eqb x (@expected FNum ex_g ex_s1 ex_s2 * pow2 (-1070))%float)) in H.
  vm_compute in H. discriminate H.
Qed.
