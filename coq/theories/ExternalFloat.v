(** * ExternalFloat: external sampling stays finite at binary64 (instance [FNum]).

    The whole-solve theorem of [SolveFloat.v] for the third method.  [SolveFloat.v] covers
    the unsampled and the chance-sampled traversal [vrec]; here the external-sampling
    traversal [erec] (the updating player's nodes expand every action, the opponent's nodes
    and the chance nodes follow one sampled child; the sampling oracle [draw] is arbitrary,
    an index out of range ends the walk with the value 0, as in [Solve.v]).

    Same constants as [SolveFloat.v]: [nleaves], [rcount], [scount], [reg_cap].  One pass for
    the player [me] moves every cumulative regret *of [me]* by at most [rcount * 2^e] and
    every cumulative strategy entry *of the opponent* by at most [scount]; the other two
    families of accumulators are untouched.  Hence one iteration (two passes, one per
    player, each followed by the [advance] of that player's infosets) moves every
    accumulator by the same amount as one iteration of the other two methods, and the very
    same cap [reg_cap g T] works for the three methods.

    Main results
    - [erec_float_ok] / [erec_float_finite]      item 1: one pass, from any state [StOK2];
    - [external_iter_ok], [one_iter_ok_all]      one iteration (any method);
    - [solve_loop_float_ok_all]                  the loop (any method);
    - [solve_loop_float_state_all] / [solve_loop_float_state_external]         item 2;
    - [solve_single_float_valid_params_all]      item 3, every method, every parameter set
                                                 with [nosoftmax] and [disc_ok];
    - [solve_single_float_valid_all], [solve_single_float_valid_cfr_plus_all]  vanilla, CFR+;
    - [solve_single_float_valid_external], [..._cfr_plus_external],
      [..._params_external], [..._simple_external]                             [m = External];
    - [exe_run], [exe_valid], [exe_valid_cfr_plus]   the concrete game of [SolveFloat.v].

    The only hypothesis that is new with respect to [SolveFloat.v]: for a parameter set with
    a positive average-strategy exponent, the factor of the very first [advance] of player
    one, [(0/(0+1))^gamma] (the code discounts player one's average strategy with [it - 1]),
    has to be a probability too: [strat_factor_ok p 0]. *)
From Coq Require Import List ZArith NArith Reals Floats Bool Lia Lra Arith Psatz.
From Flocq Require Import Core IEEE754.BinarySingleNaN IEEE754.PrimFloat.
From Cfr.theories Require Import Num FInst Tree GameWF Strat Eval Solve
  TruncFloat DistFloat NormFloat EvalFloat SolveFloat.
Import ListNotations.

Local Existing Instance Flocq.IEEE754.PrimFloat.Hprec.
Local Existing Instance Flocq.IEEE754.PrimFloat.Hmax.

Local Open Scope R_scope.
Local Notation float := PrimFloat.float.
Local Notation node := (@node FNum).
Local Notation game := (@game FNum).
Local Notation rinfo := (@rinfo FNum).
Local Notation pstate := (@pstate FNum).

Local Notation LS ks := (list_sum (map nleaves ks)).
Local Notation RS ks := (list_sum (map rcount ks)).
Local Notation SS ks := (list_sum (map scount ks)).

(** ** The inner loops of [erec] at [FNum], abstracted over the recursive call *)

Section InnerLoopsE.
  Context (rec : node -> pstate -> float * pstate).

  (** follow the sampled child (chance node, opponent's node) *)
  Definition epick (st : pstate) :=
    fix pick (ks : list node) (k : nat) {struct ks} : float * pstate :=
      match ks with
      | [] => (0%float, st)
      | c :: r => match k with
                  | O => rec c st
                  | S k' => pick r k'
                  end
      end.

  (** [ActiveInfo::recurse], first loop *)
  Definition ego (pl : bool) (i : nat) :=
    fix go (ks : list node) (ss : list float) (ai : nat) (e : float) (st : pstate)
           {struct ks} : float * pstate :=
      match ks, ss with
      | c :: ks', prob :: ss' =>
          let (util, st') := rec c st in
          let ri' := @ri_get FNum st' pl i in
          let cr := cum_regret ri' in
          go ks' ss' (S ai) (e + prob * util)%float
             (@ri_set FNum st' pl i
                      (@mkRinfo FNum (upd cr ai (nth ai cr 0 + util)%float)
                                (cum_strat ri') (strat ri')))
      | _, _ => (e, st)
      end.
End InnerLoopsE.

Lemma ferec_Term chance draw cpass ppass noff me x st :
  @erec FNum chance draw cpass ppass noff me (Term x) st =
  (if me then x else (- x)%float, st).
Proof. reflexivity. Qed.

Lemma ferec_Chance chance draw cpass ppass noff me ci kids st :
  @erec FNum chance draw cpass ppass noff me (Chance ci kids) st =
  epick (@erec FNum chance draw cpass ppass noff me) st kids
        (draw true ci cpass (@row FNum chance ci)).
Proof. reflexivity. Qed.

Lemma ferec_Player chance draw cpass ppass noff me pl i kids st :
  @erec FNum chance draw cpass ppass noff me (Player pl i kids) st =
  let ri := @ri_get FNum st pl i in
  if Bool.eqb pl me then
    let (e, st2) := ego (@erec FNum chance draw cpass ppass noff me) pl i kids (strat ri) O
                        0%float st in
    let ri2 := @ri_get FNum st2 pl i in
    (e, @ri_set FNum st2 pl i (@mkRinfo FNum (map (fun v => (v - e)%float) (cum_regret ri2))
                                       (cum_strat ri2) (strat ri2)))
  else
    let cs := map (fun vc : float * float => (snd vc + fst vc)%float)
                  (combine (strat ri) (cum_strat ri)) in
    let st0 := @ri_set FNum st pl i (@mkRinfo FNum (cum_regret ri) cs (strat ri)) in
    epick (@erec FNum chance draw cpass ppass noff me) st0 kids
          (draw false (if pl then i else (noff + i)%nat) ppass (strat ri)).
Proof. reflexivity. Qed.

(** ** The state invariant, per player *)

(** the infosets of [me] satisfy [RiOK ra sa], those of the opponent [RiOK rp sp] *)
Definition StOK2 (e : Z) (me : bool) (ra sa rp sp : nat) (st : pstate) : Prop :=
  Forall (RiOK e ra sa) (@ps_get FNum st me) /\ Forall (RiOK e rp sp) (@ps_get FNum st (negb me)).

Lemma StOK2_weaken : forall e me ra sa rp sp ra' sa' rp' sp' st,
  StOK2 e me ra sa rp sp st ->
  (ra <= ra')%nat -> (sa <= sa')%nat -> (rp <= rp')%nat -> (sp <= sp')%nat ->
  StOK2 e me ra' sa' rp' sp' st.
Proof.
  intros e me ra sa rp sp ra' sa' rp' sp' st [H1 H2] Ha Hb Hc Hd.
  split; [apply Forall_impl with (2 := H1) | apply Forall_impl with (2 := H2)];
    intros ri Hri; eapply RiOK_weaken; eauto.
Qed.

Lemma StOK2_get_a : forall e me ra sa rp sp st i,
  StOK2 e me ra sa rp sp st -> RiOK e ra sa (@ri_get FNum st me i).
Proof.
  intros e me ra sa rp sp st i [H1 _]. unfold ri_get.
  apply Forall_nth_d; [exact H1 | apply RiOK_default].
Qed.

Lemma StOK2_get_p : forall e me ra sa rp sp st i,
  StOK2 e me ra sa rp sp st -> RiOK e rp sp (@ri_get FNum st (negb me) i).
Proof.
  intros e me ra sa rp sp st i [_ H2]. unfold ri_get.
  apply Forall_nth_d; [exact H2 | apply RiOK_default].
Qed.

Lemma StOK2_set_a : forall e me ra sa rp sp st i ri,
  StOK2 e me ra sa rp sp st -> RiOK e ra sa ri ->
  StOK2 e me ra sa rp sp (@ri_set FNum st me i ri).
Proof.
  intros e me ra sa rp sp st i ri [H1 H2] Hri. unfold StOK2, ri_set, ps_set, ps_get in *.
  destruct me; cbn [negb fst snd] in *; split; try assumption; apply Forall_upd; assumption.
Qed.

Lemma StOK2_set_p : forall e me ra sa rp sp st i ri,
  StOK2 e me ra sa rp sp st -> RiOK e rp sp ri ->
  StOK2 e me ra sa rp sp (@ri_set FNum st (negb me) i ri).
Proof.
  intros e me ra sa rp sp st i ri [H1 H2] Hri. unfold StOK2, ri_set, ps_set, ps_get in *.
  destruct me; cbn [negb fst snd] in *; split; try assumption; apply Forall_upd; assumption.
Qed.

Lemma StOK2_of_StOK : forall e me mr ms st, StOK e mr ms st -> StOK2 e me mr ms mr ms st.
Proof.
  intros e me mr ms st [H1 H2]. unfold StOK2, ps_get. destruct me; cbn [negb]; split; assumption.
Qed.

Lemma StOK2_true : forall e ra sa rp sp st,
  StOK2 e true ra sa rp sp st <-> Forall (RiOK e ra sa) (fst st) /\ Forall (RiOK e rp sp) (snd st).
Proof. intros. unfold StOK2, ps_get. cbn [negb]. tauto. Qed.

Lemma StOK2_false : forall e ra sa rp sp st,
  StOK2 e false ra sa rp sp st <-> Forall (RiOK e ra sa) (snd st) /\ Forall (RiOK e rp sp) (fst st).
Proof. intros. unfold StOK2, ps_get. cbn [negb]. tauto. Qed.

(** [cum_strat += strat] (the opponent's infoset on the sampled path) *)
Lemma RiOK_cum_strat_ext : forall (e : Z) (Ms : nat), (Z.of_nat Ms < 2 ^ 53)%Z ->
  forall mr ms ri,
  RiOK e mr ms ri -> (S ms <= Ms)%nat ->
  RiOK e mr (S ms)
       (@mkRinfo FNum (cum_regret ri)
          (map (fun vc : float * float => (snd vc + fst vc)%float)
               (combine (strat ri) (cum_strat ri)))
          (strat ri)).
Proof.
  intros e Ms HMs mr ms ri (H1 & H2 & H3 & H4 & H5) Hm.
  unfold RiOK. cbn [strat cum_regret cum_strat].
  split; [exact H1|]. split; [exact H2|]. split; [|split; [exact H4|]].
  - apply Forall_forall. intros y Hy.
    apply in_map_iff in Hy. destruct Hy as [[s c] [Hy Hin]]. subst y. cbn [fst snd].
    rewrite Forall_forall in H1, H3.
    assert (Hs := H1 s (in_combine_l _ _ _ _ Hin)).
    assert (Hc := H3 c (in_combine_r _ _ _ _ Hin)).
    apply cs_ok_add; [exact Hc | exact Hs | lia].
  - unfold small in H4, H5 |- *. rewrite map_length, combine_length.
    assert (Hle := Nat.le_min_r (length (strat ri)) (length (cum_strat ri))).
    apply Nat2Z.inj_le in Hle. apply Z.le_lt_trans with (1 := Hle). exact H5.
Qed.

(** ** 1. The pass *)

Section Erec.
  Context (e : Z) (He : (-1074 <= e)%Z).
  Context (Mx : nat) (HMx : (Z.of_nat Mx < 2 ^ 53)%Z).
  Context (Hov : INR Mx * bpow radix2 e < bpow radix2 emax).
  Context (Ms : nat) (HMs : (Z.of_nat Ms < 2 ^ 53)%Z).
  Context (me : bool).

  Local Notation bnd := (bnd e).
  Local Notation StOK2 := (StOK2 e me).

  (** what a pass over the subtree [c] does: the value is finite with magnitude at most
      [leaves(c) * 2^e]; every cumulative regret of [me] moves by at most [rcount c * 2^e],
      every cumulative strategy entry of the opponent by at most [scount c]; the cumulative
      strategy of [me] and the cumulative regret of the opponent keep their bounds *)
  Definition EPf (rec : node -> pstate -> float * pstate) (c : node) : Prop :=
    forall st ra sa rp sp,
      StOK2 ra sa rp sp st ->
      (nleaves c <= Mx)%nat -> (ra + rcount c <= Mx)%nat -> (sp + scount c <= Ms)%nat ->
      bnd (nleaves c) (fst (rec c st)) /\
      StOK2 (ra + rcount c) sa rp (sp + scount c) (snd (rec c st)).

  Context (rec : node -> pstate -> float * pstate).

  Lemma epick_ok : forall st ra sa rp sp ks k,
    Forall (EPf rec) ks -> StOK2 ra sa rp sp st ->
    (LS ks <= Mx)%nat -> (ra + RS ks <= Mx)%nat -> (sp + SS ks <= Ms)%nat ->
    bnd (LS ks) (fst (epick rec st ks k)) /\
    StOK2 (ra + RS ks) sa rp (sp + SS ks) (snd (epick rec st ks k)).
  Proof.
    intros st ra sa rp sp ks k HK Hst. revert k.
    induction HK as [|c ks Hc HK IH]; intros k HL HR HS; cbn [epick].
    - cbn [fst snd]. split; [apply bnd_zero|].
      apply (StOK2_weaken _ _ _ _ _ _ _ _ _ _ _ Hst); lia.
    - cbn [map list_sum fold_right] in HL, HR, HS |- *.
      fold (LS ks) in HL |- *. fold (RS ks) in HR |- *. fold (SS ks) in HS |- *.
      destruct k as [|k].
      + destruct (Hc st ra sa rp sp Hst ltac:(lia) ltac:(lia) ltac:(lia)) as [Hv Hs].
        split; [apply (bnd_weaken e _ _ _ Hv); lia
               | apply (StOK2_weaken _ _ _ _ _ _ _ _ _ _ _ Hs); lia].
      + destruct (IH k ltac:(lia) ltac:(lia) ltac:(lia)) as [Hv Hs].
        split; [apply (bnd_weaken e _ _ _ Hv); lia
               | apply (StOK2_weaken _ _ _ _ _ _ _ _ _ _ _ Hs); lia].
  Qed.

  Lemma ego_ok : forall i ks,
    Forall (EPf rec) ks ->
    forall ss ai ee st a ra sa rp sp,
    Forall fin01 ss -> bnd a ee -> StOK2 ra sa rp sp st ->
    (a + LS ks <= Mx)%nat -> (ra + RS ks + LS ks <= Mx)%nat -> (sp + SS ks <= Ms)%nat ->
    let r := ego rec me i ks ss ai ee st in
    bnd (a + LS ks) (fst r) /\ StOK2 (ra + RS ks + LS ks) sa rp (sp + SS ks) (snd r).
  Proof.
    intros i ks HK.
    induction HK as [|c ks Hc HK IH]; intros ss ai ee st a ra sa rp sp Hss Hee Hst HL HR HS r.
    - unfold r. destruct ss; cbn [ego fst snd]; (split;
        [apply (bnd_weaken e _ _ _ Hee); lia
        | apply (StOK2_weaken _ _ _ _ _ _ _ _ _ _ _ Hst); lia]).
    - destruct ss as [|prob ss].
      + unfold r. cbn [ego fst snd]. split;
          [apply (bnd_weaken e _ _ _ Hee); lia
          | apply (StOK2_weaken _ _ _ _ _ _ _ _ _ _ _ Hst); lia].
      + inversion Hss as [|? ? Hprob Hss']; subst.
        unfold r. cbn [ego].
        cbn [map list_sum fold_right] in HL, HR, HS |- *.
        fold (LS ks) in HL, HR |- *. fold (RS ks) in HR |- *. fold (SS ks) in HS |- *.
        destruct (Hc st ra sa rp sp Hst ltac:(lia) ltac:(lia) ltac:(lia)) as [Hv Hs].
        destruct (rec c st) as [u st']. cbn [fst snd] in Hv, Hs. cbv zeta.
        assert (Hri := StOK2_get_a e me _ _ _ _ st' i Hs).
        assert (Hst'' : StOK2 (ra + rcount c + nleaves c) sa rp (sp + scount c)
                  (@ri_set FNum st' me i
                     (@mkRinfo FNum
                        (upd (cum_regret (@ri_get FNum st' me i)) ai
                             (nth ai (cum_regret (@ri_get FNum st' me i)) 0 + u)%float)
                        (cum_strat (@ri_get FNum st' me i)) (strat (@ri_get FNum st' me i))))).
        { apply StOK2_set_a.
          - apply (StOK2_weaken _ _ _ _ _ _ _ _ _ _ _ Hs); lia.
          - apply (RiOK_reg_add e He Mx HMx Hov); [exact Hri | exact Hv | lia]. }
        assert (Hee' : bnd (a + nleaves c) (ee + prob * u)%float).
        { apply (bnd_add e He Mx HMx Hov); [exact Hee | | lia].
          apply (bnd_mul_l e He Mx HMx Hov); [apply fin01_fin11; exact Hprob | exact Hv | lia]. }
        destruct (IH ss (S ai) _ _ _ _ _ _ _ Hss' Hee' Hst''
                     ltac:(lia) ltac:(lia) ltac:(lia)) as [G1 G2].
        split; [apply (bnd_weaken e _ _ _ G1); lia
               | apply (StOK2_weaken _ _ _ _ _ _ _ _ _ _ _ G2); lia].
  Qed.
End Erec.

Lemma eqb_true_eq : forall a b : bool, Bool.eqb a b = true -> a = b.
Proof. intros a b H. apply Bool.eqb_prop. exact H. Qed.

Lemma eqb_false_negb : forall a b : bool, Bool.eqb a b = false -> a = negb b.
Proof. intros [] []; cbn; intros H; try reflexivity; discriminate H. Qed.

(** Item 1: every value returned by [erec] is finite with [|value| <= leaves * 2^e]; every
    cumulative regret of the updating player stays finite and moves by at most
    [rcount * 2^e]; every cumulative strategy entry of the opponent stays finite,
    non-negative and moves by at most [scount]; all other accumulators keep their bounds;
    the strategy rows stay rows of probabilities.  Every oracle, both players. *)
Theorem erec_float_ok : forall (e : Z) (Mx Ms : nat),
  (-1074 <= e)%Z ->
  (Z.of_nat Mx < 2 ^ 53)%Z -> INR Mx * bpow radix2 e < bpow radix2 emax ->
  (Z.of_nat Ms < 2 ^ 53)%Z ->
  forall (chance : list (list float)) (draw : @oracle FNum) (cpass ppass : N) (noff : nat)
         (me : bool),
  forall n : node, PayOK (bpow radix2 e) n ->
  EPf e Mx Ms me (@erec FNum chance draw cpass ppass noff me) n.
Proof.
  intros e Mx Ms He HMx Hov HMs chance draw cpass ppass noff me.
  induction n as [x|ci kids IH|pl i kids IH] using node_ind'; intros Hpay.
  - inversion Hpay as [x' Hxf HxB| |]; subst.
    intros st ra sa rp sp Hst HL HR HS.
    rewrite ferec_Term. cbn [fst snd nleaves rcount scount].
    split.
    + cbn [INR]. unfold bnd. rewrite Rmult_1_l. destruct me.
      * split; assumption.
      * split; [apply Ffin_opp; exact Hxf | rewrite FR_opp, Rabs_Ropp; exact HxB].
    + apply (StOK2_weaken _ _ _ _ _ _ _ _ _ _ _ Hst); lia.
  - inversion Hpay as [|ci' kids' Hkids|]; subst.
    assert (HK : Forall (EPf e Mx Ms me (@erec FNum chance draw cpass ppass noff me)) kids).
    { rewrite Forall_forall in IH, Hkids |- *. intros k Hk. apply IH; [exact Hk | apply Hkids; exact Hk]. }
    intros st ra sa rp sp Hst HL HR HS.
    rewrite ferec_Chance. cbn [nleaves rcount scount] in HL, HR, HS |- *.
    apply (epick_ok e Mx Ms me); assumption.
  - inversion Hpay as [| |pl' i' kids' Hkids]; subst.
    assert (HK : Forall (EPf e Mx Ms me (@erec FNum chance draw cpass ppass noff me)) kids).
    { rewrite Forall_forall in IH, Hkids |- *. intros k Hk. apply IH; [exact Hk | apply Hkids; exact Hk]. }
    intros st ra sa rp sp Hst HL HR HS.
    rewrite ferec_Player. cbv zeta.
    cbn [nleaves rcount scount] in HL, HR, HS |- *.
    destruct (Bool.eqb pl me) eqn:Epl.
    + apply eqb_true_eq in Epl. subst pl.
      assert (Hri : RiOK e ra sa (@ri_get FNum st me i)) by (eapply StOK2_get_a; exact Hst).
      destruct Hri as [Hstrat _].
      destruct (ego_ok e He Mx HMx Hov Ms me _ i kids HK
                  (strat (@ri_get FNum st me i)) O 0%float st O ra sa rp sp Hstrat
                  (bnd_zero e O) Hst ltac:(lia) ltac:(lia) ltac:(lia)) as [G1 G2].
      destruct (ego _ _ _ _ _ _ _ _) as [ee st2].
      cbn [fst snd] in G1, G2 |- *.
      split; [exact G1|].
      apply (StOK2_weaken e me (ra + RS kids + LS kids + LS kids) sa rp (sp + SS kids)); try lia.
      apply StOK2_set_a.
      * apply (StOK2_weaken _ _ _ _ _ _ _ _ _ _ _ G2); lia.
      * apply (RiOK_reg_sub e He Mx HMx Hov); [eapply StOK2_get_a; exact G2 | exact G1 | lia].
    + apply eqb_false_negb in Epl. subst pl.
      assert (Hri : RiOK e rp sp (@ri_get FNum st (negb me) i)) by (eapply StOK2_get_p; exact Hst).
      set (st0 := @ri_set FNum st (negb me) i _).
      assert (Hst0 : StOK2 e me ra sa rp (S sp) st0).
      { apply StOK2_set_p.
        - apply (StOK2_weaken _ _ _ _ _ _ _ _ _ _ _ Hst); lia.
        - apply (RiOK_cum_strat_ext e Ms HMs); [exact Hri | lia]. }
      destruct (epick_ok e Mx Ms me _ st0 ra sa rp (S sp) kids
                  (draw false (if negb me then i else (noff + i)%nat) ppass
                        (strat (@ri_get FNum st (negb me) i)))
                  HK Hst0 ltac:(lia) ltac:(lia) ltac:(lia)) as [G1 G2].
      split; [exact G1|].
      apply (StOK2_weaken _ _ _ _ _ _ _ _ _ _ _ G2); lia.
Qed.

(** Item 1, unfolded *)
Corollary erec_float_finite : forall (e : Z) (Mx Ms : nat),
  (-1074 <= e)%Z ->
  (Z.of_nat Mx < 2 ^ 53)%Z -> INR Mx * bpow radix2 e < bpow radix2 emax ->
  (Z.of_nat Ms < 2 ^ 53)%Z ->
  forall (chance : list (list float)) (draw : @oracle FNum) (cpass ppass : N) (noff : nat)
         (me : bool),
  forall n : node, PayOK (bpow radix2 e) n ->
  forall (st : pstate) (ra sa rp sp : nat),
  StOK2 e me ra sa rp sp st ->
  (nleaves n <= Mx)%nat -> (ra + rcount n <= Mx)%nat -> (sp + scount n <= Ms)%nat ->
  let r := @erec FNum chance draw cpass ppass noff me n st in
  Ffin (fst r) /\ Rabs (FR (fst r)) <= INR (nleaves n) * bpow radix2 e /\
  StOK2 e me (ra + rcount n) sa rp (sp + scount n) (snd r).
Proof.
  intros e Mx Ms He HMx Hov HMs chance draw cpass ppass noff me n Hpay st ra sa rp sp
         Hst HL HR HS r.
  destruct (erec_float_ok e Mx Ms He HMx Hov HMs chance draw cpass ppass noff me n Hpay
              st ra sa rp sp Hst HL HR HS) as [[Hf Hb] Hs].
  split; [exact Hf|]. split; [exact Hb | exact Hs].
Qed.

(** ** The pass keeps the number of infosets *)

Section ErecLen.
  Definition ELPf (rec : node -> pstate -> float * pstate) (c : node) : Prop :=
    forall st, lens2 (snd (rec c st)) = lens2 st.

  Context (rec : node -> pstate -> float * pstate).

  Lemma epick_len : forall st ks k,
    Forall (ELPf rec) ks -> lens2 (snd (epick rec st ks k)) = lens2 st.
  Proof.
    intros st ks k HK. revert k.
    induction HK as [|c ks Hc HK IH]; intros k; cbn [epick]; [reflexivity|].
    destruct k as [|k]; [apply Hc | apply IH].
  Qed.

  Lemma ego_len : forall pl i ks,
    Forall (ELPf rec) ks -> forall ss ai ee st,
    lens2 (snd (ego rec pl i ks ss ai ee st)) = lens2 st.
  Proof.
    intros pl i ks HK.
    induction HK as [|c ks Hc HK IH]; intros ss ai ee st; destruct ss as [|prob ss];
      cbn [ego]; try reflexivity.
    pose proof (Hc st) as H.
    destruct (rec c st) as [u st']. cbn [snd] in H. cbv zeta.
    rewrite IH, ri_set_lens2. exact H.
  Qed.
End ErecLen.

Lemma erec_float_len : forall chance draw cpass ppass noff me (n : node),
  ELPf (@erec FNum chance draw cpass ppass noff me) n.
Proof.
  intros chance draw cpass ppass noff me.
  induction n as [x|ci kids IH|pl i kids IH] using node_ind'; intros st.
  - reflexivity.
  - rewrite ferec_Chance. apply epick_len. exact IH.
  - rewrite ferec_Player. cbv zeta. destruct (Bool.eqb pl me).
    + pose proof (ego_len (@erec FNum chance draw cpass ppass noff me) pl i kids IH
                    (strat (@ri_get FNum st pl i)) O 0%float st) as H.
      destruct (ego _ _ _ _ _ _ _ _) as [ee st2]. cbn [snd] in H |- *.
      rewrite ri_set_lens2. exact H.
    + rewrite epick_len by exact IH. apply ri_set_lens2.
Qed.

(** ** One iteration of the external method *)

Lemma external_iter_F_eq : forall (g : game) draw p it st,
  @external_iter FNum g draw p it st =
  let noff := length (g_infos1 g) in
  let st1 := snd (@erec FNum (g_chance g) draw (2 * (it - 1))%N (it - 1)%N noff true
                        (g_root g) st) in
  let A1 := @advance_all FNum p it (it - 1)%N (fst st1) 0%float in
  let st2 := (fst A1, snd st1) in
  let st3 := snd (@erec FNum (g_chance g) draw (2 * (it - 1) + 1)%N it noff false
                        (g_root g) st2) in
  let A2 := @advance_all FNum p it it (snd st3) 0%float in
  ((fst st3, fst A2), (snd A1, snd A2)).
Proof.
  intros g draw p it st. unfold external_iter. cbn [zero FNum].
  destruct (erec _ _ _ _ _ _ _ _) as [x st1]. cbn [snd].
  destruct (advance_all p it (it - 1)%N (fst st1) 0%float) as [l1 r1]. cbn [fst snd].
  destruct (erec _ _ _ _ _ _ _ _) as [y st3]. cbn [snd].
  destruct (advance_all p it it (snd st3) 0%float) as [l2 r2].
  reflexivity.
Qed.

Section IterE.
  Context (e : Z) (He : (-1074 <= e)%Z).
  Context (Mx : nat) (HMx : (Z.of_nat Mx < 2 ^ 53)%Z).
  Context (Hov : INR Mx * bpow radix2 e < bpow radix2 emax).
  Context (Ms : nat) (HMs : (Z.of_nat Ms < 2 ^ 53)%Z).
  Context (g : game) (Hch : TblOK (g_chance g)) (Hpay : PayOK (bpow radix2 e) (g_root g)).
  Context (draw : @oracle FNum) (stop : float -> bool).
  Context (Tb : nat) (HTb : (Z.of_nat Tb < 2 ^ 53)%Z).
  Context (N1 N2 : nat).
  Context (p : @params FNum) (Hns : nosoftmax p).
  Context (Hdisc : forall k : nat, (k < Tb)%nat -> disc_ok p (N.of_nat (S k)) (N.of_nat (S k))).

  Local Notation Rr := (rcount (g_root g)).
  Local Notation Sr := (scount (g_root g)).
  Local Notation Nmax := (Nat.max 1 (Nat.max N1 N2)).

  Context (HcapL : (nleaves (g_root g) <= Mx)%nat).
  Context (HcapR : (2 * Nmax * (Tb * Rr) <= Mx)%nat).
  Context (HcapS : (Tb * Sr <= Ms)%nat).

  Local Notation SInv := (SInv e g N1 N2).

  (** the discount factors of player one's [advance] in iteration [k+1]: the average
      strategy is discounted with [k] instead of [k+1] *)
  Lemma disc_ok_first : forall k, strat_factor_ok p 0%N -> (k < Tb)%nat ->
    disc_ok p (N.of_nat (S k)) (N.of_nat k).
  Proof.
    intros k Hsf0 Hk. destruct (Hdisc k Hk) as [D1 [D2 _]].
    split; [exact D1|]. split; [exact D2|].
    destruct k as [|k']; [exact Hsf0|].
    destruct (Hdisc k' ltac:(lia)) as [_ [_ D3]]. exact D3.
  Qed.

  Lemma external_iter_ok : forall k st,
    strat_factor_ok p 0%N -> (k < Tb)%nat -> SInv k st ->
    let res := @external_iter FNum g draw p (N.of_nat (S k)) st in
    SInv (S k) (fst res) /\ bnn e Mx (fst (snd res)) /\ bnn e Mx (snd (snd res)).
  Proof.
    intros k st Hsf0 Hk [Hst Hlen] res. unfold res. clear res.
    rewrite external_iter_F_eq.
    replace (N.of_nat (S k) - 1)%N with (N.of_nat k) by lia.
    cbv zeta.
    remember (2 * N.of_nat k + 1)%N as cp2 eqn:Ecp2. clear Ecp2.
    remember (2 * N.of_nat k)%N as cp1 eqn:Ecp1. clear Ecp1.
    set (noff := length (g_infos1 g)).
    assert (HkR : (S k * Rr <= Tb * Rr)%nat) by (apply Nat.mul_le_mono_r; lia).
    assert (HkS : (S k * Sr <= Tb * Sr)%nat) by (apply Nat.mul_le_mono_r; lia).
    assert (HN1 : (N1 * (2 * (S k * Rr)) <= Nmax * (2 * (Tb * Rr)))%nat)
      by (apply Nat.mul_le_mono; lia).
    assert (HN2 : (N2 * (2 * (S k * Rr)) <= Nmax * (2 * (Tb * Rr)))%nat)
      by (apply Nat.mul_le_mono; lia).
    assert (H1x : (1 * (2 * (S k * Rr)) <= Nmax * (2 * (Tb * Rr)))%nat)
      by (apply Nat.mul_le_mono; lia).
    assert (Hit1 : (1 <= N.of_nat (S k))%N) by lia.
    assert (Hit2 : (Z.of_N (N.of_nat (S k)) < 2 ^ 53)%Z) by (rewrite nat_N_Z; lia).
    (* player one's pass *)
    pose proof (erec_float_ok e Mx Ms He HMx Hov HMs (g_chance g) draw cp1 (N.of_nat k) noff true
                  (g_root g) Hpay st (k * Rr)%nat (k * Sr)%nat (k * Rr)%nat (k * Sr)%nat
                  (StOK2_of_StOK e true _ _ st Hst) HcapL ltac:(lia) ltac:(lia)) as [_ Hst1].
    pose proof (erec_float_len (g_chance g) draw cp1 (N.of_nat k) noff true (g_root g) st) as Hlen1.
    set (st1 := snd (@erec FNum (g_chance g) draw cp1 (N.of_nat k) noff true (g_root g) st)) in *.
    rewrite Hlen in Hlen1. unfold lens2 in Hlen1.
    assert (HL1 : length (fst st1) = N1) by (apply (f_equal fst) in Hlen1; exact Hlen1).
    assert (HL2 : length (snd st1) = N2) by (apply (f_equal snd) in Hlen1; exact Hlen1).
    apply StOK2_true in Hst1. destruct Hst1 as [HA HB].
    assert (HA' : Forall (RiOK e (S k * Rr) (k * Sr)) (fst st1)).
    { apply Forall_impl with (2 := HA). intros ri Hri.
      apply (RiOK_weaken e _ _ _ _ ri Hri); lia. }
    (* player one's infosets advance *)
    destruct (advance_all_ok e He Mx HMx Hov p (N.of_nat (S k)) (N.of_nat k)
                (fst st1) 0%float O (S k * Rr)%nat (k * Sr)%nat Hns (disc_ok_first k Hsf0 Hk) HA'
                (bnn_zero e O) ltac:(rewrite HL1; lia) ltac:(lia) ltac:(lia) Hit1 Hit2)
      as [A1 [A2 A3]].
    set (AA1 := @advance_all FNum p (N.of_nat (S k)) (N.of_nat k) (fst st1) 0%float) in *.
    (* player two's pass *)
    set (st2 := (fst AA1, snd st1)).
    assert (Hst2 : StOK2 e false (k * Rr) (k * Sr + Sr) (S k * Rr) (k * Sr) st2).
    { apply StOK2_false. unfold st2. cbn [fst snd]. split; [exact HB | exact A1]. }
    assert (Hlen2 : lens2 st2 = (N1, N2)).
    { unfold lens2, st2. cbn [fst snd]. rewrite A2, HL1, HL2. reflexivity. }
    pose proof (erec_float_ok e Mx Ms He HMx Hov HMs (g_chance g) draw cp2 (N.of_nat (S k)) noff
                  false (g_root g) Hpay st2 _ _ _ _ Hst2 HcapL ltac:(lia) ltac:(lia)) as [_ Hst3].
    pose proof (erec_float_len (g_chance g) draw cp2 (N.of_nat (S k)) noff false (g_root g) st2)
      as Hlen3.
    set (st3 := snd (@erec FNum (g_chance g) draw cp2 (N.of_nat (S k)) noff false (g_root g) st2))
      in *.
    rewrite Hlen2 in Hlen3. unfold lens2 in Hlen3.
    assert (HL3 : length (fst st3) = N1) by (apply (f_equal fst) in Hlen3; exact Hlen3).
    assert (HL4 : length (snd st3) = N2) by (apply (f_equal snd) in Hlen3; exact Hlen3).
    apply StOK2_false in Hst3. destruct Hst3 as [HC HD].
    assert (HC' : Forall (RiOK e (S k * Rr) (S k * Sr)) (snd st3)).
    { apply Forall_impl with (2 := HC). intros ri Hri.
      apply (RiOK_weaken e _ _ _ _ ri Hri); lia. }
    assert (HD' : Forall (RiOK e (S k * Rr) (S k * Sr)) (fst st3)).
    { apply Forall_impl with (2 := HD). intros ri Hri.
      apply (RiOK_weaken e _ _ _ _ ri Hri); lia. }
    destruct (advance_all_ok e He Mx HMx Hov p (N.of_nat (S k)) (N.of_nat (S k))
                (snd st3) 0%float O (S k * Rr)%nat (S k * Sr)%nat Hns (Hdisc k Hk) HC'
                (bnn_zero e O) ltac:(rewrite HL4; lia) ltac:(lia) ltac:(lia) Hit1 Hit2)
      as [B1 [B2 B3]].
    cbn [fst snd].
    split; [split|split].
    - split; cbn [fst snd]; assumption.
    - unfold lens2. cbn [fst snd]. rewrite B2, HL3, HL4. reflexivity.
    - destruct A3 as [A3 A3']. split; [|exact A3'].
      apply (bnd_weaken e _ _ _ A3). rewrite HL1. lia.
    - destruct B3 as [B3 B3']. split; [|exact B3'].
      apply (bnd_weaken e _ _ _ B3). rewrite HL4. lia.
  Qed.

  (** one iteration of any of the three methods *)
  Lemma one_iter_ok_all : forall m k st,
    (m = External -> strat_factor_ok p 0%N) -> (k < Tb)%nat -> SInv k st ->
    let res := @one_iter FNum g m draw p (N.of_nat (S k)) st in
    SInv (S k) (fst res) /\ bnn e Mx (fst (snd res)) /\ bnn e Mx (snd (snd res)).
  Proof.
    intros m k st Hm Hk Hst.
    destruct m.
    - apply (one_iter_ok e He Mx HMx Hov Ms HMs g Hch Hpay draw Tb HTb N1 N2 p Hns Hdisc
               HcapL HcapR HcapS Full k st); [discriminate | exact Hk | exact Hst].
    - apply (one_iter_ok e He Mx HMx Hov Ms HMs g Hch Hpay draw Tb HTb N1 N2 p Hns Hdisc
               HcapL HcapR HcapS Sampled k st); [discriminate | exact Hk | exact Hst].
    - cbn [one_iter]. apply external_iter_ok; [apply Hm; reflexivity | exact Hk | exact Hst].
  Qed.

  (** the loop, any method *)
  Lemma solve_loop_float_ok_all : forall m rem k st regs ran,
    (m = External -> strat_factor_ok p 0%N) ->
    (k + rem <= Tb)%nat -> SInv k st -> regs_ok e Mx regs ->
    let res := @solve_loop FNum g m draw p stop rem (N.of_nat (S k)) st regs ran in
    (exists k', (k' <= Tb)%nat /\ SInv k' (fst (fst res))) /\ regs_ok e Mx (snd (fst res)).
  Proof.
    intros m rem. induction rem as [|r IH]; intros k st regs ran Hm Hk Hst Hregs res; unfold res.
    - cbn [solve_loop fst snd]. split; [exists k; split; [lia | exact Hst] | exact Hregs].
    - cbn [solve_loop].
      pose proof (one_iter_ok_all m k st Hm ltac:(lia) Hst) as [G1 [G2 G3]].
      destruct (@one_iter FNum g m draw p (N.of_nat (S k)) st) as [st' [r1 r2]].
      cbn [fst snd] in G1, G2, G3.
      destruct (stop _).
      + cbn [fst snd]. split; [exists (S k); split; [lia | exact G1] | split; assumption].
      + replace (N.of_nat (S k) + 1)%N with (N.of_nat (S (S k))) by lia.
        apply IH; [exact Hm | lia | exact G1 | split; assumption].
  Qed.
End IterE.

(** ** 2. The state after the loop, any method *)

Lemma solve_loop_inv_all :
  forall (g : game) (m : method) (draw : @oracle FNum) (p : @params FNum)
         (budget : nat) (stop : float -> bool) (e : Z),
  nosoftmax p ->
  (forall k : nat, (k < budget)%nat -> disc_ok p (N.of_nat (S k)) (N.of_nat (S k))) ->
  (m = External -> strat_factor_ok p 0%N) ->
  TblOK (g_chance g) ->
  arities_small g ->
  (-1074 <= e)%Z ->
  PayOK (bpow radix2 e) (g_root g) ->
  (Z.of_nat budget < 2 ^ 53)%Z ->
  (Z.of_nat (budget * scount (g_root g)) < 2 ^ 53)%Z ->
  (Z.of_nat (reg_cap g budget) < 2 ^ 53)%Z ->
  INR (reg_cap g budget) * bpow radix2 e < bpow radix2 emax ->
  let L := @solve_loop FNum g m draw p stop budget 1%N (@init_state FNum g) None 0%N in
  (exists k : nat, (k <= budget)%nat /\
     StOK e (k * rcount (g_root g)) (k * scount (g_root g)) (fst (fst L))) /\
  regs_ok e (reg_cap g budget) (snd (fst L)).
Proof.
  intros g m draw p budget stop e Hns Hdisc Hm Hch Har He Hpay HT HS HMx Hov L.
  destruct (init_state_ok e g Har) as [Hst0 Hlen0].
  set (Mx := reg_cap g budget) in *.
  assert (HcapL : (nleaves (g_root g) <= Mx)%nat) by (unfold Mx, reg_cap; apply Nat.le_max_l).
  assert (HcapR : (2 * Nat.max 1 (Nat.max (length (g_infos1 g)) (length (g_infos2 g)))
                   * (budget * rcount (g_root g)) <= Mx)%nat)
    by (unfold Mx, reg_cap; apply Nat.le_max_r).
  assert (Hinv0 : SInv e g (length (g_infos1 g)) (length (g_infos2 g)) O (@init_state FNum g)).
  { split; [exact Hst0 | exact Hlen0]. }
  pose proof (solve_loop_float_ok_all e He Mx HMx Hov (budget * scount (g_root g))%nat HS g Hch Hpay
                draw stop budget HT (length (g_infos1 g)) (length (g_infos2 g))
                p Hns Hdisc HcapL HcapR (le_n _) m budget O (@init_state FNum g) None 0%N Hm
                ltac:(lia) Hinv0 I) as [[k' [Hk' [Hst _]]] Hregs].
  change (N.of_nat 1) with 1%N in Hst, Hregs.
  split; [exists k'; split; [exact Hk' | exact Hst] | exact Hregs].
Qed.

(** Item 2 for the three methods: every accumulator of the state the loop ends in *)
Theorem solve_loop_float_state_all :
  forall (g : @Tree.game FNum) (m : method) (draw : @oracle FNum) (p : @params FNum)
         (budget : nat) (stop : float -> bool) (e : Z),
  nosoftmax p ->
  (forall k : nat, (k < budget)%nat -> disc_ok p (N.of_nat (S k)) (N.of_nat (S k))) ->
  (m = External -> strat_factor_ok p 0%N) ->
  TblOK (g_chance g) ->
  arities_small g ->
  (-1074 <= e)%Z ->
  PayOK (bpow radix2 e) (g_root g) ->
  (Z.of_nat budget < 2 ^ 53)%Z ->
  (Z.of_nat (budget * scount (g_root g)) < 2 ^ 53)%Z ->
  (Z.of_nat (reg_cap g budget) < 2 ^ 53)%Z ->
  INR (reg_cap g budget) * bpow radix2 e < bpow radix2 emax ->
  let st := fst (fst (@solve_loop FNum g m draw p stop budget 1%N (@init_state FNum g) None 0%N)) in
  exists k : nat, (k <= budget)%nat /\
    forall (pl : bool) (i : nat),
      let ri := @ri_get FNum st pl i in
      Forall fin01 (strat ri) /\
      Forall (fun x => Ffin x /\ Rabs (FR x) <= INR (k * rcount (g_root g)) * bpow radix2 e)
             (cum_regret ri) /\
      Forall (fun x => Ffin x /\ 0 <= FR x <= INR (k * scount (g_root g))) (cum_strat ri).
Proof.
  intros g m draw p budget stop e Hns Hdisc Hm Hch Har He Hpay HT HS HMx Hov st.
  destruct (solve_loop_inv_all g m draw p budget stop e Hns Hdisc Hm Hch Har He Hpay HT HS HMx Hov)
    as [[k' [Hk' Hst]] _].
  exists k'. split; [exact Hk'|]. intros pl i ri.
  assert (Hri : RiOK e (k' * rcount (g_root g)) (k' * scount (g_root g)) ri).
  { unfold ri, st. apply StOK_get. exact Hst. }
  destruct Hri as (K1 & K2 & K3 & _ & _).
  split; [exact K1|]. split; [exact K2|].
  apply Forall_impl with (2 := K3). intros x [Hf Hx]. split; [exact Hf|].
  rewrite INR_IZR_INZ. exact Hx.
Qed.

(** ** 3. [solve_single] at binary64, the three methods *)

Theorem solve_single_float_valid_params_all :
  forall (g : @Tree.game FNum) (m : method) (draw : @oracle FNum) (p : @params FNum)
         (budget : nat) (stop : float -> bool) (e : Z),
  nosoftmax p ->
  (forall k : nat, (k < budget)%nat -> disc_ok p (N.of_nat (S k)) (N.of_nat (S k))) ->
  (m = External -> strat_factor_ok p 0%N) ->
  TblOK (g_chance g) ->
  arities_small g ->
  (-1074 <= e)%Z ->
  PayOK (bpow radix2 e) (g_root g) ->
  (Z.of_nat budget < 2 ^ 53)%Z ->
  (Z.of_nat (budget * scount (g_root g)) < 2 ^ 53)%Z ->
  (Z.of_nat (reg_cap g budget) < 2 ^ 53)%Z ->
  INR (reg_cap g budget) * bpow radix2 e < bpow radix2 emax ->
  let res := @solve_single FNum g m draw p budget stop in
  Forall fin01 (fst (fst (fst res))) /\
  Forall fin01 (snd (fst (fst res))) /\
  match snd (fst res) with
  | None => True
  | Some (r1, r2) =>
      (Ffin r1 /\ 0 <= FR r1 <= INR (reg_cap g budget) * bpow radix2 e) /\
      (Ffin r2 /\ 0 <= FR r2 <= INR (reg_cap g budget) * bpow radix2 e)
  end.
Proof.
  intros g m draw p budget stop e Hns Hdisc Hm Hch Har He Hpay HT HS HMx Hov res.
  unfold res, solve_single.
  destruct (solve_loop_inv_all g m draw p budget stop e Hns Hdisc Hm Hch Har He Hpay HT HS HMx Hov)
    as [[k' [_ Hst]] Hregs].
  match goal with
  | |- context [@solve_loop ?a ?b ?c ?d ?p0 ?f ?h ?i ?j ?k ?l] =>
      set (L := @solve_loop a b c d p0 f h i j k l)
  end.
  change (StOK e (k' * rcount (g_root g)) (k' * scount (g_root g)) (fst (fst L))) in Hst.
  change (regs_ok e (reg_cap g budget) (snd (fst L))) in Hregs.
  destruct L as [[st regs] ran].
  cbn [fst snd] in Hst, Hregs |- *.
  destruct (final_strats_ok e _ _ st Hst) as [F1 F2].
  split; [exact F1|]. split; [exact F2|].
  destruct regs as [[r1 r2]|]; [|exact I].
  destruct Hregs as [[[R1f R1b] R10] [[R2f R2b] R20]].
  rewrite Rabs_pos_eq in R1b by exact R10. rewrite Rabs_pos_eq in R2b by exact R20.
  split; (split; [assumption | split; assumption]).
Qed.

Lemma strat_factor_ok_vanilla0 : strat_factor_ok (@p_vanilla FNum) 0%N.
Proof. destruct (disc_ok_vanilla 1%N 0%N) as [_ [_ H]]. exact H. Qed.

Lemma strat_factor_ok_cfr_plus0 : strat_factor_ok (@p_cfr_plus FNum) 0%N.
Proof.
  destruct (disc_ok_cfr_plus 1%N 0%N) as [_ [_ H]]; [cbn; lia | exact H].
Qed.

(** the vanilla parameters, every method *)
Theorem solve_single_float_valid_all :
  forall (g : @Tree.game FNum) (m : method) (draw : @oracle FNum) (budget : nat)
         (stop : float -> bool) (e : Z),
  TblOK (g_chance g) ->
  arities_small g ->
  (-1074 <= e)%Z ->
  PayOK (bpow radix2 e) (g_root g) ->
  (Z.of_nat budget < 2 ^ 53)%Z ->
  (Z.of_nat (budget * scount (g_root g)) < 2 ^ 53)%Z ->
  (Z.of_nat (reg_cap g budget) < 2 ^ 53)%Z ->
  INR (reg_cap g budget) * bpow radix2 e < bpow radix2 emax ->
  let res := @solve_single FNum g m draw (@p_vanilla FNum) budget stop in
  Forall fin01 (fst (fst (fst res))) /\
  Forall fin01 (snd (fst (fst res))) /\
  match snd (fst res) with
  | None => True
  | Some (r1, r2) =>
      (Ffin r1 /\ 0 <= FR r1 <= INR (reg_cap g budget) * bpow radix2 e) /\
      (Ffin r2 /\ 0 <= FR r2 <= INR (reg_cap g budget) * bpow radix2 e)
  end.
Proof.
  intros g m draw budget stop e.
  apply (solve_single_float_valid_params_all g m draw (@p_vanilla FNum) budget stop e
           nosoftmax_vanilla).
  - intros k _. apply disc_ok_vanilla.
  - intros _. exact strat_factor_ok_vanilla0.
Qed.

(** CFR+, every method *)
Theorem solve_single_float_valid_cfr_plus_all :
  forall (g : @Tree.game FNum) (m : method) (draw : @oracle FNum) (budget : nat)
         (stop : float -> bool) (e : Z),
  TblOK (g_chance g) ->
  arities_small g ->
  (-1074 <= e)%Z ->
  PayOK (bpow radix2 e) (g_root g) ->
  (Z.of_nat budget + 1 < 2 ^ 53)%Z ->
  (Z.of_nat (budget * scount (g_root g)) < 2 ^ 53)%Z ->
  (Z.of_nat (reg_cap g budget) < 2 ^ 53)%Z ->
  INR (reg_cap g budget) * bpow radix2 e < bpow radix2 emax ->
  let res := @solve_single FNum g m draw (@p_cfr_plus FNum) budget stop in
  Forall fin01 (fst (fst (fst res))) /\
  Forall fin01 (snd (fst (fst res))) /\
  match snd (fst res) with
  | None => True
  | Some (r1, r2) =>
      (Ffin r1 /\ 0 <= FR r1 <= INR (reg_cap g budget) * bpow radix2 e) /\
      (Ffin r2 /\ 0 <= FR r2 <= INR (reg_cap g budget) * bpow radix2 e)
  end.
Proof.
  intros g m draw budget stop e Hch Har He Hpay HT.
  apply (solve_single_float_valid_params_all g m draw (@p_cfr_plus FNum) budget stop e
           nosoftmax_cfr_plus); try assumption; [| |lia].
  - intros k Hk. apply disc_ok_cfr_plus. rewrite nat_N_Z. lia.
  - intros _. exact strat_factor_ok_cfr_plus0.
Qed.

(** payoffs at most [2^971]: no overflow condition left; every method *)
Corollary solve_single_float_valid_simple_all :
  forall (g : @Tree.game FNum) (m : method) (draw : @oracle FNum) (budget : nat)
         (stop : float -> bool) (e : Z),
  TblOK (g_chance g) ->
  arities_small g ->
  (-1074 <= e <= 971)%Z ->
  PayOK (bpow radix2 e) (g_root g) ->
  (Z.of_nat budget < 2 ^ 53)%Z ->
  (Z.of_nat (budget * scount (g_root g)) < 2 ^ 53)%Z ->
  (Z.of_nat (reg_cap g budget) < 2 ^ 53)%Z ->
  let res := @solve_single FNum g m draw (@p_vanilla FNum) budget stop in
  Forall fin01 (fst (fst (fst res))) /\
  Forall fin01 (snd (fst (fst res))) /\
  match snd (fst res) with
  | None => True
  | Some (r1, r2) => finnn r1 /\ finnn r2
  end.
Proof.
  intros g m draw budget stop e Hch Har [He1 He2] Hpay HT HS HMx res.
  destruct (solve_single_float_valid_all g m draw budget stop e Hch Har He1 Hpay HT HS HMx
              (cap_no_overflow _ e HMx He2)) as [F1 [F2 F3]].
  fold res in F1, F2, F3.
  split; [exact F1|]. split; [exact F2|].
  destruct (snd (fst res)) as [[r1 r2]|]; [|exact I].
  destruct F3 as [[A1 [A2 _]] [B1 [B2 _]]]. split; split; assumption.
Qed.

(** ** The statements for [m = External] *)

Theorem solve_loop_float_state_external :
  forall (g : @Tree.game FNum) (draw : @oracle FNum) (p : @params FNum)
         (budget : nat) (stop : float -> bool) (e : Z),
  nosoftmax p ->
  (forall k : nat, (k < budget)%nat -> disc_ok p (N.of_nat (S k)) (N.of_nat (S k))) ->
  strat_factor_ok p 0%N ->
  TblOK (g_chance g) ->
  arities_small g ->
  (-1074 <= e)%Z ->
  PayOK (bpow radix2 e) (g_root g) ->
  (Z.of_nat budget < 2 ^ 53)%Z ->
  (Z.of_nat (budget * scount (g_root g)) < 2 ^ 53)%Z ->
  (Z.of_nat (reg_cap g budget) < 2 ^ 53)%Z ->
  INR (reg_cap g budget) * bpow radix2 e < bpow radix2 emax ->
  let st := fst (fst (@solve_loop FNum g External draw p stop budget 1%N
                                  (@init_state FNum g) None 0%N)) in
  exists k : nat, (k <= budget)%nat /\
    forall (pl : bool) (i : nat),
      let ri := @ri_get FNum st pl i in
      Forall fin01 (strat ri) /\
      Forall (fun x => Ffin x /\ Rabs (FR x) <= INR (k * rcount (g_root g)) * bpow radix2 e)
             (cum_regret ri) /\
      Forall (fun x => Ffin x /\ 0 <= FR x <= INR (k * scount (g_root g))) (cum_strat ri).
Proof.
  intros g draw p budget stop e Hns Hdisc Hsf0.
  apply (solve_loop_float_state_all g External draw p budget stop e Hns Hdisc (fun _ => Hsf0)).
Qed.

Theorem solve_single_float_valid_params_external :
  forall (g : @Tree.game FNum) (draw : @oracle FNum) (p : @params FNum)
         (budget : nat) (stop : float -> bool) (e : Z),
  nosoftmax p ->
  (forall k : nat, (k < budget)%nat -> disc_ok p (N.of_nat (S k)) (N.of_nat (S k))) ->
  strat_factor_ok p 0%N ->
  TblOK (g_chance g) ->
  arities_small g ->
  (-1074 <= e)%Z ->
  PayOK (bpow radix2 e) (g_root g) ->
  (Z.of_nat budget < 2 ^ 53)%Z ->
  (Z.of_nat (budget * scount (g_root g)) < 2 ^ 53)%Z ->
  (Z.of_nat (reg_cap g budget) < 2 ^ 53)%Z ->
  INR (reg_cap g budget) * bpow radix2 e < bpow radix2 emax ->
  let res := @solve_single FNum g External draw p budget stop in
  Forall fin01 (fst (fst (fst res))) /\
  Forall fin01 (snd (fst (fst res))) /\
  match snd (fst res) with
  | None => True
  | Some (r1, r2) =>
      (Ffin r1 /\ 0 <= FR r1 <= INR (reg_cap g budget) * bpow radix2 e) /\
      (Ffin r2 /\ 0 <= FR r2 <= INR (reg_cap g budget) * bpow radix2 e)
  end.
Proof.
  intros g draw p budget stop e Hns Hdisc Hsf0.
  apply (solve_single_float_valid_params_all g External draw p budget stop e Hns Hdisc
           (fun _ => Hsf0)).
Qed.

Theorem solve_single_float_valid_external :
  forall (g : @Tree.game FNum) (draw : @oracle FNum) (budget : nat)
         (stop : float -> bool) (e : Z),
  TblOK (g_chance g) ->
  arities_small g ->
  (-1074 <= e)%Z ->
  PayOK (bpow radix2 e) (g_root g) ->
  (Z.of_nat budget < 2 ^ 53)%Z ->
  (Z.of_nat (budget * scount (g_root g)) < 2 ^ 53)%Z ->
  (Z.of_nat (reg_cap g budget) < 2 ^ 53)%Z ->
  INR (reg_cap g budget) * bpow radix2 e < bpow radix2 emax ->
  let res := @solve_single FNum g External draw (@p_vanilla FNum) budget stop in
  Forall fin01 (fst (fst (fst res))) /\
  Forall fin01 (snd (fst (fst res))) /\
  match snd (fst res) with
  | None => True
  | Some (r1, r2) =>
      (Ffin r1 /\ 0 <= FR r1 <= INR (reg_cap g budget) * bpow radix2 e) /\
      (Ffin r2 /\ 0 <= FR r2 <= INR (reg_cap g budget) * bpow radix2 e)
  end.
Proof. intros g. apply (solve_single_float_valid_all g External). Qed.

Theorem solve_single_float_valid_cfr_plus_external :
  forall (g : @Tree.game FNum) (draw : @oracle FNum) (budget : nat)
         (stop : float -> bool) (e : Z),
  TblOK (g_chance g) ->
  arities_small g ->
  (-1074 <= e)%Z ->
  PayOK (bpow radix2 e) (g_root g) ->
  (Z.of_nat budget + 1 < 2 ^ 53)%Z ->
  (Z.of_nat (budget * scount (g_root g)) < 2 ^ 53)%Z ->
  (Z.of_nat (reg_cap g budget) < 2 ^ 53)%Z ->
  INR (reg_cap g budget) * bpow radix2 e < bpow radix2 emax ->
  let res := @solve_single FNum g External draw (@p_cfr_plus FNum) budget stop in
  Forall fin01 (fst (fst (fst res))) /\
  Forall fin01 (snd (fst (fst res))) /\
  match snd (fst res) with
  | None => True
  | Some (r1, r2) =>
      (Ffin r1 /\ 0 <= FR r1 <= INR (reg_cap g budget) * bpow radix2 e) /\
      (Ffin r2 /\ 0 <= FR r2 <= INR (reg_cap g budget) * bpow radix2 e)
  end.
Proof. intros g. apply (solve_single_float_valid_cfr_plus_all g External). Qed.

Corollary solve_single_float_valid_simple_external :
  forall (g : @Tree.game FNum) (draw : @oracle FNum) (budget : nat)
         (stop : float -> bool) (e : Z),
  TblOK (g_chance g) ->
  arities_small g ->
  (-1074 <= e <= 971)%Z ->
  PayOK (bpow radix2 e) (g_root g) ->
  (Z.of_nat budget < 2 ^ 53)%Z ->
  (Z.of_nat (budget * scount (g_root g)) < 2 ^ 53)%Z ->
  (Z.of_nat (reg_cap g budget) < 2 ^ 53)%Z ->
  let res := @solve_single FNum g External draw (@p_vanilla FNum) budget stop in
  Forall fin01 (fst (fst (fst res))) /\
  Forall fin01 (snd (fst (fst res))) /\
  match snd (fst res) with
  | None => True
  | Some (r1, r2) => finnn r1 /\ finnn r2
  end.
Proof. intros g. apply (solve_single_float_valid_simple_all g External). Qed.

(** ** Example: the game of [SolveFloat.v], external sampling, an oracle that alternates *)

(** chance nodes: the second child in every third pass, the first child otherwise;
    decision nodes: child [(pass + id) mod 2] *)
Definition exe_draw : @oracle FNum :=
  fun is_chance id pass _ =>
    if is_chance then (if N.eqb (pass mod 3) 2 then 1%nat else 0%nat)
    else ((N.to_nat pass + id) mod 2)%nat.

Example exe_run :
  @solve_single FNum exs_g External exe_draw (@p_vanilla FNum) 10 (fun _ => false) =
  (* = ([0.2258...; 0.7741...], [0.2952...; 0.7047...], Some (0.72, 0.92), 10) *)
  (([0x1.ce739ce739ce7p-3; 0x1.8c6318c6318c6p-1]%float,
    [0x1.2e52e52e52e53p-2; 0x1.68d68d68d68d7p-1]%float),
   Some (0x1.70a3d70a3d70ap-1, 0x1.d70a3d70a3d7p-1)%float, 10%N).
Proof. vm_compute. reflexivity. Qed.

Example exe_run_cfr_plus :
  @solve_single FNum exs_g External exe_draw (@p_cfr_plus FNum) 10 (fun _ => false) =
  (* = ([0.6782...; 0.3217...], [0.3027...; 0.6972...], Some (0.9226..., 1.0952...), 10) *)
  (([0x1.5b48279e171eap-1; 0x1.496fb0c3d1c2dp-2]%float,
    [0x1.35f73e16cf05cp-2; 0x1.650460f4987d2p-1]%float),
   Some (0x1.d867791c4cc2ap-1, 0x1.186482866f931p+0)%float, 10%N).
Proof. vm_compute. reflexivity. Qed.

(** the hypotheses are satisfiable for [External] (payoffs of magnitude at most [2^2],
    [reg_cap exs_g 10 = 320]) *)
Example exe_valid :
  let res := @solve_single FNum exs_g External exe_draw (@p_vanilla FNum) 10 (fun _ => false) in
  Forall fin01 (fst (fst (fst res))) /\ Forall fin01 (snd (fst (fst res))) /\
  match snd (fst res) with None => True | Some (r1, r2) => finnn r1 /\ finnn r2 end.
Proof.
  destruct FR_four as [H4f H4].
  apply (solve_single_float_valid_simple_external exs_g exe_draw 10 (fun _ => false) 2).
  - apply tblokb_spec. vm_compute. reflexivity.
  - split; repeat constructor; unfold arity_small; cbn; lia.
  - lia.
  - rewrite <- H4. apply payokb_spec; [exact H4f | vm_compute; reflexivity].
  - cbn; lia.
  - cbn; lia.
  - cbn; lia.
Qed.

Example exe_valid_cfr_plus :
  let res := @solve_single FNum exs_g External exe_draw (@p_cfr_plus FNum) 10 (fun _ => false) in
  Forall fin01 (fst (fst (fst res))) /\ Forall fin01 (snd (fst (fst res))) /\
  match snd (fst res) with
  | None => True
  | Some (r1, r2) =>
      (Ffin r1 /\ 0 <= FR r1 <= INR (reg_cap exs_g 10) * bpow radix2 2) /\
      (Ffin r2 /\ 0 <= FR r2 <= INR (reg_cap exs_g 10) * bpow radix2 2)
  end.
Proof.
  destruct FR_four as [H4f H4].
  apply (solve_single_float_valid_cfr_plus_external exs_g exe_draw 10 (fun _ => false) 2).
  - apply tblokb_spec. vm_compute. reflexivity.
  - split; repeat constructor; unfold arity_small; cbn; lia.
  - lia.
  - rewrite <- H4. apply payokb_spec; [exact H4f | vm_compute; reflexivity].
  - cbn; lia.
  - cbn; lia.
  - cbn; lia.
  - apply cap_no_overflow; [cbn; lia | lia].
Qed.
