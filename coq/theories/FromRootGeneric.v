(** * FromRootGeneric: facts about [from_root] / [init] that hold for EVERY instance
    of [Num] (in particular for binary64, [FNum]); no arithmetic law is used.

    - an induction principle for the nested inductive [gnode];
    - top-level versions of the two local loops of [init] with unfolding lemmas;
    - [from_root_data_ok]: an accepted tree has only finite payoffs, only positive
      finite chance weights, and no empty chance or decision node.

    Totality ("construction never panics"): [init] and [from_root] are Gallina
    functions of type [res _], defined by structural recursion on the raw tree, so
    they return [Ok _] or [Err _] on every input by construction; there is nothing
    to prove. *)
From Coq Require Import List NArith Bool Arith Lia.
From Cfr.theories Require Import Num Tree GameWF.
Import ListNotations.

Section FromRootGeneric.
  Context {NN : Num}.
  Local Notation T := (T NN).
  Local Notation gnode := (@gnode NN).
  Local Notation node := (@node NN).
  Local Notation bst := (@bst NN).
  Local Notation game := (@game NN).

  Definition pprev := (option (nat * nat) * option (nat * nat))%type.

  (** ** Induction principle for [gnode] *)
  Fixpoint gnode_ind' (P : gnode -> Prop)
           (HT : forall p, P (GTerm p))
           (HC : forall info outs, Forall (fun wc => P (snd wc)) outs -> P (GChance info outs))
           (HP : forall pl info acts, Forall (fun ac => P (snd ac)) acts -> P (GPlayer pl info acts))
           (n : gnode) : P n :=
    match n with
    | GTerm p => HT p
    | GChance info outs =>
        HC info outs ((fix go (l : list (T * gnode)) : Forall (fun wc => P (snd wc)) l :=
                         match l with
                         | [] => Forall_nil _
                         | wc :: r => Forall_cons wc (gnode_ind' P HT HC HP (snd wc)) (go r)
                         end) outs)
    | GPlayer pl info acts =>
        HP pl info acts ((fix go (l : list (N * gnode)) : Forall (fun ac => P (snd ac)) l :=
                            match l with
                            | [] => Forall_nil _
                            | ac :: r => Forall_cons ac (gnode_ind' P HT HC HP (snd ac)) (go r)
                            end) acts)
    end.

  (** ** The loops of [init], top level *)
  Definition wok (w : T) : bool := ltb NN (zero NN) w && is_fin NN w.

  (** the loop of the chance case, exactly as in [init] (with accumulators) *)
  Definition cgo (prev : pprev) :=
    fix go (outs : list (T * gnode)) (s : bst) (probs : list T)
           (kids : list node) : res (list T * list node * bst) :=
    match outs with
    | [] => Ok (rev probs, rev kids, s)
    | (p, c) :: r =>
        if ltb NN (zero NN) p && is_fin NN p then
          match init c prev s with
          | Ok (c', s') => go r s' (p :: probs) (c' :: kids)
          | Err e => Err e
          end
        else Err NonPositiveChance
    end.

  (** the loop of the decision case, exactly as in [init] *)
  Definition pgo (prev : pprev) (pl : bool) (ind : nat) :=
    fix go (acts : list (N * gnode)) (ai : nat)
           (s : bst) (kids : list node) : res (list node * bst) :=
    match acts with
    | [] => Ok (rev kids, s)
    | (_, c) :: r =>
        match init c (set_prev prev pl (Some (ind, ai))) s with
        | Ok (c', s') => go r (S ai) s' (c' :: kids)
        | Err e => Err e
        end
    end.

  (** accumulator-free versions *)
  Fixpoint cloop (prev : pprev) (outs : list (T * gnode)) (s : bst) : res (list node * bst) :=
    match outs with
    | [] => Ok ([], s)
    | (p, c) :: r =>
        if wok p then
          match init c prev s with
          | Ok (c', s') =>
              match cloop prev r s' with
              | Ok (ks, s'') => Ok (c' :: ks, s'')
              | Err e => Err e
              end
          | Err e => Err e
          end
        else Err NonPositiveChance
    end.

  Fixpoint ploop (prev : pprev) (pl : bool) (ind : nat) (acts : list (N * gnode)) (ai : nat)
           (s : bst) : res (list node * bst) :=
    match acts with
    | [] => Ok ([], s)
    | (_, c) :: r =>
        match init c (set_prev prev pl (Some (ind, ai))) s with
        | Ok (c', s') =>
            match ploop prev pl ind r (S ai) s' with
            | Ok (ks, s'') => Ok (c' :: ks, s'')
            | Err e => Err e
            end
        | Err e => Err e
        end
    end.

  Lemma cgo_cloop prev outs : forall s probs kids,
    cgo prev outs s probs kids =
    match cloop prev outs s with
    | Ok (ks, s') => Ok (rev probs ++ map fst outs, rev kids ++ ks, s')
    | Err e => Err e
    end.
  Proof.
    induction outs as [|[p c] r IH]; intros s probs kids.
    - cbn [cgo cloop map]. now rewrite !app_nil_r.
    - change (cgo prev ((p, c) :: r) s probs kids) with
        (if ltb NN (zero NN) p && is_fin NN p then
           match init c prev s with
           | Ok (c', s') => cgo prev r s' (p :: probs) (c' :: kids)
           | Err e => Err e
           end
         else Err NonPositiveChance).
      cbn [cloop map].
      unfold wok. destruct (ltb NN (zero NN) p && is_fin NN p); [|reflexivity].
      destruct (init c prev s) as [[c' s']|e]; [|reflexivity].
      rewrite IH. destruct (cloop prev r s') as [[ks s'']|e]; [|reflexivity].
      cbn [rev fst]. now rewrite <- !app_assoc.
  Qed.

  Lemma pgo_ploop prev pl ind acts : forall ai s kids,
    pgo prev pl ind acts ai s kids =
    match ploop prev pl ind acts ai s with
    | Ok (ks, s') => Ok (rev kids ++ ks, s')
    | Err e => Err e
    end.
  Proof.
    induction acts as [|[a c] r IH]; intros ai s kids.
    - cbn [pgo ploop]. now rewrite app_nil_r.
    - change (pgo prev pl ind ((a, c) :: r) ai s kids) with
        (match init c (set_prev prev pl (Some (ind, ai))) s with
         | Ok (c', s') => pgo prev pl ind r (S ai) s' (c' :: kids)
         | Err e => Err e
         end).
      cbn [ploop].
      destruct (init c (set_prev prev pl (Some (ind, ai))) s) as [[c' s']|e]; [|reflexivity].
      rewrite IH. destruct (ploop prev pl ind r (S ai) s') as [[ks s'']|e]; [|reflexivity].
      cbn [rev]. now rewrite <- app_assoc.
  Qed.

  Lemma cloop_length prev outs : forall s ks s',
    cloop prev outs s = Ok (ks, s') -> length ks = length outs.
  Proof.
    induction outs as [|[p c] r IH]; intros s ks s' H; cbn [cloop] in H.
    - now inversion H.
    - destruct (wok p); [|discriminate].
      destruct (init c prev s) as [[c' s1]|e]; [|discriminate].
      destruct (cloop prev r s1) as [[ks1 s2]|e] eqn:E; [|discriminate].
      inversion H; subst. cbn [length]. f_equal. eapply IH; eassumption.
  Qed.

  Lemma ploop_length prev pl ind acts : forall ai s ks s',
    ploop prev pl ind acts ai s = Ok (ks, s') -> length ks = length acts.
  Proof.
    induction acts as [|[a c] r IH]; intros ai s ks s' H; cbn [ploop] in H.
    - now inversion H.
    - destruct (init c _ s) as [[c' s1]|e]; [|discriminate].
      destruct (ploop prev pl ind r (S ai) s1) as [[ks1 s2]|e] eqn:E; [|discriminate].
      inversion H; subst. cbn [length]. f_equal. eapply IH; eassumption.
  Qed.

  (** ** Unfolding [init] once per constructor *)
  Lemma init_GTerm p prev s :
    init (GTerm p) prev s = if is_fin NN p then Ok (Term p, s) else Err NonFinitePayoff.
  Proof. reflexivity. Qed.

  (** what happens after the loop of a chance node *)
  Definition chance_fin (info : option N) (ws : list T) (kids : list node) (s' : bst)
    : res (node * bst) :=
    match kids with
    | [] => Err EmptyChance
    | [k] => Ok (k, s')
    | _ =>
        let probs := normalise ws in
        match info with
        | None =>
            Ok (Chance (length (b_chance s')) kids, set_chance s' (b_chance s' ++ [(None, probs)]))
        | Some k =>
            match find_index (opt_key_eqb k) (b_chance s') with
            | Some (ind, (_, old)) =>
                if list_eqb (eqb NN) old probs then Ok (Chance ind kids, s')
                else Err ProbabilitiesNotEqual
            | None =>
                Ok (Chance (length (b_chance s')) kids,
                    set_chance s' (b_chance s' ++ [(Some k, probs)]))
            end
        end
    end.

  Lemma init_GChance_cgo info outs prev s :
    init (GChance info outs) prev s =
    match cgo prev outs s [] [] with
    | Err e => Err e
    | Ok (probs, kids, s') => chance_fin info probs kids s'
    end.
  Proof. reflexivity. Qed.

  Lemma init_GChance info outs prev s :
    init (GChance info outs) prev s =
    match cloop prev outs s with
    | Err e => Err e
    | Ok (kids, s') => chance_fin info (map fst outs) kids s'
    end.
  Proof.
    rewrite init_GChance_cgo, cgo_cloop.
    destruct (cloop prev outs s) as [[ks s']|e]; reflexivity.
  Qed.

  (** the table lookup / allocation of a multi-action decision node *)
  Definition lookup_info (pl : bool) (info : N) (actions : list N) (prev : pprev) (s : bst)
    : res (nat * bst) :=
    match find_index (fun pi => N.eqb (pi_name pi) info) (b_infos s pl) with
    | Some (ind, pi) =>
        if negb (list_eqb N.eqb (pi_actions pi) actions) then Err ActionsNotEqual
        else if negb (prev_eqb (pi_prev pi) (get_prev prev pl)) then Err ImperfectRecall
        else Ok (ind, s)
    | None =>
        if nodupb actions then
          Ok (length (b_infos s pl),
              set_infos s pl (b_infos s pl ++ [mkPinfo info actions (get_prev prev pl)]))
        else Err ActionsNotUnique
    end.

  Lemma init_GPlayer_nil pl info prev (s : bst) :
    init (GPlayer pl info []) prev s = Err EmptyPlayer.
  Proof. reflexivity. Qed.

  Lemma init_GPlayer_single pl info a (c : gnode) prev (s : bst) :
    init (GPlayer pl info [(a, c)]) prev s =
    if existsb (fun pi => N.eqb (pi_name pi) info) (b_infos s pl)
    then Err ActionsNotEqual
    else
      match find_index (fun e => N.eqb (fst e) info) (b_singles s pl) with
      | Some (_, (_, a')) =>
          if N.eqb a' a then init c prev s else Err ActionsNotEqual
      | None => init c prev (set_singles s pl (b_singles s pl ++ [(info, a)]))
      end.
  Proof. reflexivity. Qed.

  Lemma init_GPlayer_multi_pgo pl info (x y : N * gnode) r prev (s : bst) :
    init (GPlayer pl info (x :: y :: r)) prev s =
    if existsb (fun e => N.eqb (fst e) info) (b_singles s pl)
    then Err ActionsNotEqual
    else
      match lookup_info pl info (map fst (x :: y :: r)) prev s with
      | Err e => Err e
      | Ok (ind, s0) =>
          match pgo prev pl ind (x :: y :: r) O s0 [] with
          | Err e => Err e
          | Ok (kids, s') => Ok (Player pl ind kids, s')
          end
      end.
  Proof. destruct x as [a c]. reflexivity. Qed.

  Lemma init_GPlayer_multi pl info (x y : N * gnode) r prev (s : bst) :
    init (GPlayer pl info (x :: y :: r)) prev s =
    if existsb (fun e => N.eqb (fst e) info) (b_singles s pl)
    then Err ActionsNotEqual
    else
      match lookup_info pl info (map fst (x :: y :: r)) prev s with
      | Err e => Err e
      | Ok (ind, s0) =>
          match ploop prev pl ind (x :: y :: r) O s0 with
          | Err e => Err e
          | Ok (kids, s') => Ok (Player pl ind kids, s')
          end
      end.
  Proof.
    rewrite init_GPlayer_multi_pgo.
    destruct (existsb _ _); [reflexivity|].
    destruct (lookup_info _ _ _ _ _) as [[ind s0]|e]; [|reflexivity].
    rewrite pgo_ploop.
    destruct (ploop _ _ _ _ _ _) as [[ks s']|e]; reflexivity.
  Qed.

  (** ** Part A: accepted trees have admissible data *)
  Inductive DataOK : gnode -> Prop :=
  | DOK_term p : is_fin NN p = true -> DataOK (GTerm p)
  | DOK_chance info outs :
      outs <> [] ->
      Forall (fun wc => ltb NN (zero NN) (fst wc) && is_fin NN (fst wc) = true /\ DataOK (snd wc))
             outs ->
      DataOK (GChance info outs)
  | DOK_player pl info acts :
      acts <> [] ->
      Forall (fun ac => DataOK (snd ac)) acts ->
      DataOK (GPlayer pl info acts).

  Lemma cloop_data_ok prev outs :
    Forall (fun wc => forall prev s r, init (snd wc) prev s = Ok r -> DataOK (snd wc)) outs ->
    forall s r, cloop prev outs s = Ok r ->
    Forall (fun wc => ltb NN (zero NN) (fst wc) && is_fin NN (fst wc) = true /\ DataOK (snd wc)) outs.
  Proof.
    induction 1 as [|[p c] l Hc Hl IH]; intros s r H; [constructor|].
    cbn [cloop] in H. unfold wok in H.
    destruct (ltb NN (zero NN) p && is_fin NN p) eqn:Ew; [|discriminate].
    destruct (init c prev s) as [[c' s1]|e] eqn:Ec; [|discriminate].
    destruct (cloop prev l s1) as [[ks s2]|e] eqn:El; [|discriminate].
    constructor.
    - cbn [fst snd]. split; [assumption|]. eapply (Hc prev s). exact Ec.
    - eapply IH. exact El.
  Qed.

  Lemma ploop_data_ok prev pl ind acts :
    Forall (fun ac => forall prev s r, init (snd ac) prev s = Ok r -> DataOK (snd ac)) acts ->
    forall ai s r, ploop prev pl ind acts ai s = Ok r ->
    Forall (fun ac => DataOK (snd ac)) acts.
  Proof.
    induction 1 as [|[a c] l Hc Hl IH]; intros ai s r H; [constructor|].
    cbn [ploop] in H.
    destruct (init c _ s) as [[c' s1]|e] eqn:Ec; [|discriminate].
    destruct (ploop prev pl ind l (S ai) s1) as [[ks s2]|e] eqn:El; [|discriminate].
    constructor.
    - cbn [snd]. eapply Hc. exact Ec.
    - eapply IH. exact El.
  Qed.

  Lemma init_data_ok (n : gnode) : forall prev s r, init n prev s = Ok r -> DataOK n.
  Proof.
    induction n as [p|info outs IH|pl info acts IH] using gnode_ind'; intros prev s r H.
    - rewrite init_GTerm in H. destruct (is_fin NN p) eqn:E; [|discriminate].
      now constructor.
    - rewrite init_GChance in H.
      destruct (cloop prev outs s) as [[ks s']|e] eqn:El; [|discriminate].
      constructor.
      + intros ->. cbn [cloop] in El. inversion El; subst. discriminate H.
      + eapply cloop_data_ok; eassumption.
    - destruct acts as [|[a c] [|y r']].
      + discriminate H.
      + constructor; [discriminate|]. constructor; [|constructor]. cbn [snd].
        rewrite init_GPlayer_single in H.
        destruct (existsb _ _); [discriminate|].
        inversion IH as [|? ? Hc _]; subst. cbn [snd] in Hc.
        destruct (find_index _ _) as [[i [n0 a']]|].
        * destruct (N.eqb a' a); [|discriminate]. eapply Hc; exact H.
        * eapply Hc; exact H.
      + constructor; [discriminate|].
        rewrite init_GPlayer_multi in H.
        destruct (existsb _ _); [discriminate|].
        destruct (lookup_info _ _ _ _ _) as [[ind s0]|e]; [|discriminate].
        destruct (ploop _ _ _ _ _ _) as [[ks s']|e] eqn:El; [|discriminate].
        eapply ploop_data_ok; eassumption.
  Qed.

  Theorem from_root_data_ok (t : gnode) (g : game) : from_root t = Ok g -> DataOK t.
  Proof.
    unfold from_root. intros H.
    destruct (init t (None, None) b_empty) as [[root s]|e] eqn:E; [|discriminate].
    eapply init_data_ok; exact E.
  Qed.
End FromRootGeneric.
