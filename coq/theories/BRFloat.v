(** * BRFloat: the best-response evaluator at binary64 itself (instance [FNum]).

    Property C01 says that each player's reported regret is the largest gain that player
    can obtain by deviating.  Over the reals this is [BestResponseProofs]; this file is
    about the functions that are executed: [@br_value FNum] (model of
    [regret::optimal_deviations] / [next_infoset_search]) and [@info FNum] ([regret::regret]).

    Evaluation order analysed (see [Eval.v]): [collect] records the own decision nodes with
    their reach (products [fl (p * reach)] down the path, own nodes do not multiply);
    [resolve_from] resolves the infosets from the last index down; [resolve_one] computes,
    for infoset [i], [total = fl-sum of the reaches], for each action the running sum
    [pays_a = fl (pays_a + fl (search(kid_a, 1, 0) * reach))], [m = max_a pays_a] and
    [if total > 0 then fl (m / total) else 0] (the repaired D16 guard; it is used in
    [resolve_one_bound] and [resolve_one_rel]: the division is only performed with a finite
    positive divisor, so [0/0] cannot occur); [search] is the accumulator evaluation of
    [EvalFloat] stopped at the next own infosets, whose values are read from the table.

    Hypotheses used throughout: tables with [fin01] entries ([TblOK]) whose rows sum (over
    the reals) to at most [(1+2^-53)^c] ([RowSum c]; [rowsumb] checks it: every row has at
    most [c] entries and a binary64 sum [<= 1]); finite payoffs of magnitude [<= B], [1 <= B]
    ([PayOK]).  Shape of the game: [br_D] depth, [br_N] size ([tsz]) of the tree, [br_n]
    number of infosets of the player.  Without the row-sum hypothesis the values can grow
    geometrically with the number of infoset levels and no bound of the shape below holds.

    Main results
    - [search_spec]             invariant of [search] (any subtree, reach, accumulator) against
                                the exact value [sV] for the binary64 infoset values;
    - [resolve_one_bound], [resolve_from_bound]  finiteness and magnitude of infoset values;
    - [br_value_float_gen]      finite, [|br| <= (1+2^-53)^br_ops * (B + n * sl)], for a slack
                                [sl] that is [1/2] in general and [0] when no recorded reach
                                underflowed;
    - [br_value_float_finite]   item 1: no NaN / no infinity, NO hypothesis on underflow
                                ([|br| <= 2 * (B + n/2)]; a product value * reach with a
                                subnormal reach can be off by half a unit of the reach, which
                                is why a clean [(1+eps)^k * B] bound is false in general);
    - [br_value_float_bounded]  item 2: under [NoUF] (recorded reaches zero or normal)
                                [|br| <= (1+2^-53)^br_ops * B <= 2 * B];
    - [info_float_finite]       item 1: [si_util], [si_reg1], [si_reg2], [si_regret] of
                                [@info FNum] are finite, the regrets are [>= 0];
    - [collect_rel], [resolve_one_rel], [resolve_from_rel]  binary64 against the real model
                                [@... RNum] on the [FR]-image ([gameR], [tblR]) when no reach
                                product underflows ([CollOK]; checker [collokb]);
    - [br_value_float_error]    item 3: [| FR br_F - @br_value RNum (gameR g) me (tblR so) |
                                <= ((1+2^-53)^br_err_ops - 1) * br_mass], [br_mass =
                                (1+2^-53)^((n+1)*c*D) * B >= |br_R|];
    - [br_value_float_error_simple]  the same as [br_err_ops * 2^-52 * 2B];
    - [info_float_error]        item 4: utility, both regrets and exploitability of
                                [@info FNum g prof] against [@info RNum] on the image;
    - [bx_br_values], [bx_br_bounded], [bx_info_finite], [bx_info_error]  item 5: the
                                game [bx_g] of [ScaleFloatBR]. *)
From Coq Require Import List ZArith Reals Floats Bool Lia Lra Arith Psatz.
From Flocq Require Import Core IEEE754.BinarySingleNaN IEEE754.PrimFloat Plus_error Relative.
From Cfr.theories Require Import Num FInst RInst Tree GameWF Eval Valid EvalSpec
  TruncFloat DistFloat NormFloat EvalFloat ScaleFloat ScaleFloatBR.
From Cfr.theories Require BestResponseProofs.
Import ListNotations.

Local Existing Instance Flocq.IEEE754.PrimFloat.Hprec.
Local Existing Instance Flocq.IEEE754.PrimFloat.Hmax.

Local Open Scope R_scope.
Local Notation float := PrimFloat.float.
Local Notation node := (@node FNum).
Local Notation game := (@game FNum).

Local Instance fexp_valid_brf : Valid_exp (SpecFloat.fexp prec emax) :=
  fexp_correct prec emax Flocq.IEEE754.PrimFloat.Hprec.

(** ** The rounding factor [G m = (1 + 2^-53)^m] *)

Lemma G_add : forall a b, G (a + b) = G a * G b.
Proof. intros a b. unfold G. apply pow_add. Qed.

Lemma G_pos : forall m, 0 < G m.
Proof. intros m. generalize (G_ge_1 m). lra. Qed.

Lemma G_bernoulli : forall n, 1 + INR n * u53 <= G n.
Proof.
  assert (Hu := u53_pos).
  induction n as [|n IH]; [rewrite G_0; cbn [INR]; lra|].
  rewrite S_INR, G_S. assert (H0 := pos_INR n). nra.
Qed.

(** ** One leaf of a search: [acc + x * reach] / [acc - x * reach] *)

Lemma leaf_core : forall B r rho j a A M m (xr tt : R),
  1 <= B -> Rabs xr <= B -> reachOK r rho j -> accOK a A M m ->
  Rabs (tt - FR r * xr) <= u53 * (Rabs (FR r * xr) + om1022) ->
  fmt tt ->
  let m' := (Nat.max m (j + 1) + 1)%nat in
  let M' := M + rho * Rabs xr + om1022 * B in
  Rabs (A + rho * xr) <= M' /\
  Rabs (rnd (FR a + tt) - (A + rho * xr)) <= (G m' - 1) * M' /\
  Rabs (rnd (FR a + tt)) <= G m' * M'.
Proof.
  intros B r rho j a A M m xr tt HB HxB [Hr [Hrho He]] [Haf [HA Hea]] Hd Hft m' M'.
  destruct Hr as [_ [Hr0 _]].
  set (K := Nat.max m (j + 1)) in *.
  set (g := G K - 1).
  assert (Hg : 0 <= g) by (unfold g; generalize (G_ge_1 K); lra).
  assert (HM0 : 0 <= M) by (apply Rle_trans with (2 := HA); apply Rabs_pos).
  assert (Hw := om1022_pos).
  assert (Hgm : G m - 1 <= g).
  { unfold g. generalize (G_mono m K (Nat.le_max_l _ _)). lra. }
  assert (Hgj : (1 + u53) * (1 + (G j - 1)) - 1 <= g).
  { unfold g. generalize (G_mono (S j) K ltac:(unfold K; lia)). rewrite G_S. lra. }
  set (mu := rho * Rabs xr + om1022 * B).
  assert (Hmu0 : 0 <= mu).
  { unfold mu. apply Rplus_le_le_0_compat; apply Rmult_le_pos; try lra. apply Rabs_pos. }
  assert (Ht : Rabs (tt - rho * xr) <= g * mu).
  { apply Rle_trans with (((1 + u53) * (1 + (G j - 1)) - 1) * mu).
    - apply (leaf_step_R (FR r) rho xr tt (G j - 1) B Hrho Hr0); try assumption.
      generalize (G_ge_1 j); lra.
    - apply Rmult_le_compat_r; assumption. }
  assert (Htau : Rabs (rho * xr) <= mu).
  { unfold mu. rewrite Rabs_mult, (Rabs_pos_eq rho Hrho).
    assert (0 <= om1022 * B) by (apply Rmult_le_pos; lra). lra. }
  assert (Hea' : Rabs (FR a - A) <= g * M).
  { apply Rle_trans with (1 := Hea). apply Rmult_le_compat_r; assumption. }
  assert (Hadd := add_rel (FR a) tt (fmt_FR _) Hft).
  destruct (acc_step_R (FR a) A M tt (rho * xr) mu (rnd (FR a + tt)) g Hg HA Htau Hea' Ht Hadd)
    as [R1 [R2 R3]].
  assert (HGm' : G m' = (1 + u53) * (1 + g)).
  { unfold m', g. fold K. rewrite Nat.add_1_r, G_S. ring. }
  assert (HM' : M' = M + mu) by (unfold M', mu; ring).
  rewrite HGm', HM'. split; [exact R1|]. split; [exact R2 | exact R3].
Qed.

Lemma mul_leaf' : forall x r : float, Ffin x -> fin01 r ->
  Ffin (x * r)%float /\ FR (x * r)%float = rnd (FR r * FR x).
Proof.
  intros x r Hxf Hr. destruct (mul_leaf r x Hr Hxf) as [_ He].
  assert (Hb : Rabs (rnd (FR x * FR r)) < bpow radix2 emax).
  { rewrite (Rmult_comm (FR x)), <- He. apply FR_lt_Omax. }
  destruct (mul_ok x r Hxf (proj1 Hr) Hb) as [Hf He2].
  split; [exact Hf|]. rewrite He2, Rmult_comm. reflexivity.
Qed.

Lemma leaf_add : forall B r rho j a A M m (x : float),
  1 <= B -> Ffin x -> Rabs (FR x) <= B -> reachOK r rho j -> accOK a A M m ->
  let m' := (Nat.max m (j + 1) + 1)%nat in
  let M' := M + rho * Rabs (FR x) + om1022 * B in
  G m' * M' < Omax ->
  accOK (a + x * r)%float (A + rho * FR x) M' m'.
Proof.
  intros B r rho j a A M m x HB Hxf HxB Hr Ha m' M' Hov.
  destruct (mul_leaf' x r Hxf (proj1 Hr)) as [Htf Hteq].
  assert (Hd : Rabs (FR (x * r)%float - FR r * FR x) <= u53 * (Rabs (FR r * FR x) + om1022))
    by (rewrite Hteq; apply mul_err).
  pose proof (leaf_core B r rho j a A M m (FR x) (FR (x * r)%float) HB HxB Hr Ha Hd (fmt_FR _)) as HC.
  cbv zeta in HC. destruct HC as [R1 [R2 R3]].
  assert (Hb : Rabs (rnd (FR a + FR (x * r)%float)) < bpow radix2 emax)
    by (apply Rle_lt_trans with (1 := R3); exact Hov).
  destruct (add_ok a (x * r)%float (proj1 Ha) Htf Hb) as [Hf Heq].
  split; [exact Hf|]. rewrite Heq. split; assumption.
Qed.

Lemma leaf_sub : forall B r rho j a A M m (x : float),
  1 <= B -> Ffin x -> Rabs (FR x) <= B -> reachOK r rho j -> accOK a A M m ->
  let m' := (Nat.max m (j + 1) + 1)%nat in
  let M' := M + rho * Rabs (FR x) + om1022 * B in
  G m' * M' < Omax ->
  accOK (a - x * r)%float (A + rho * - FR x) M' m'.
Proof.
  intros B r rho j a A M m x HB Hxf HxB Hr Ha m' M' Hov.
  destruct (mul_leaf' x r Hxf (proj1 Hr)) as [Htf Hteq].
  assert (Hd : Rabs (- FR (x * r)%float - FR r * - FR x)
               <= u53 * (Rabs (FR r * - FR x) + om1022)).
  { replace (- FR (x * r)%float - FR r * - FR x) with (- (FR (x * r)%float - FR r * FR x)) by ring.
    replace (FR r * - FR x) with (- (FR r * FR x)) by ring.
    rewrite !Rabs_Ropp, Hteq. apply mul_err. }
  assert (HxB' : Rabs (- FR x) <= B) by (rewrite Rabs_Ropp; exact HxB).
  pose proof (leaf_core B r rho j a A M m (- FR x) (- FR (x * r)%float) HB HxB' Hr Ha Hd
                (fmt_opp _ (fmt_FR _))) as HC.
  cbv zeta in HC. rewrite Rabs_Ropp in HC. destruct HC as [R1 [R2 R3]].
  assert (Hb : Rabs (rnd (FR a - FR (x * r)%float)) < bpow radix2 emax)
    by (apply Rle_lt_trans with (1 := R3); exact Hov).
  destruct (sub_ok a (x * r)%float (proj1 Ha) Htf Hb) as [Hf Heq].
  split; [exact Hf|]. rewrite Heq. split; assumption.
Qed.

(** ** The loop over the children, for any traversal with an [accOK] specification *)
Section GLoop.
  Context (v av : node -> R) (dep nl : node -> nat) (c0 : R).
  Context (Hav : forall k, 0 <= av k) (Hc0 : 0 <= c0).

  Definition GSp (f : node -> float -> float -> float) (k : node) : Prop :=
    forall r rho j a A M m,
      reachOK r rho j -> accOK a A M m ->
      let m' := (Nat.max m (j + dep k + 1) + nl k)%nat in
      let M' := M + rho * av k + INR (nl k) * c0 in
      G m' * M' < Omax ->
      accOK (f k r a) (A + rho * v k) M' m'.

  Lemma pgo_spec : forall f (tst : float -> bool),
    (forall p, fin01 p -> tst p = false -> FR p = 0) ->
    forall ks, Forall (GSp f) ks ->
    forall ps, Forall fin01 ps ->
    forall r rho j a A M m,
      reachOK r rho j -> accOK a A M m ->
      let D := list_max (map dep ks) in
      let Ls := list_sum (map nl ks) in
      let m' := (Nat.max m (S j + D + 1) + Ls)%nat in
      let M' := M + rho * wsum av ps ks + INR Ls * c0 in
      G m' * M' < Omax ->
      accOK (pgo f tst r ps ks a) (A + rho * wsum v ps ks) M' m'.
  Proof.
    intros f tst Htst ks Hks.
    induction Hks as [|k ks Hk Hks IH]; intros ps Hps r rho j a A M m Hr Ha D Ls m' M' Hov.
    - destruct ps; cbn [pgo wsum]; (apply (accOK_weaken a A M m); [exact Ha | ring | | unfold m'; lia]);
        unfold M'; cbn [wsum]; unfold Ls; cbn [map list_sum fold_right INR]; lra.
    - assert (HM0 : 0 <= M).
      { destruct Ha as [_ [HA _]]. apply Rle_trans with (2 := HA). apply Rabs_pos. }
      assert (Hrho : 0 <= rho) by (destruct Hr as [_ [H _]]; exact H).
      assert (HLs0 : 0 <= INR Ls * c0) by (apply Rmult_le_pos; [apply pos_INR | exact Hc0]).
      destruct ps as [|p ps].
      + cbn [pgo wsum]. apply (accOK_weaken a A M m); [exact Ha | ring | | unfold m'; lia].
        unfold M'. cbn [wsum]. lra.
      + inversion Hps as [|? ? Hp Hps']; subst.
        assert (Hp01 := Hp). destruct Hp01 as [_ [Hp0 Hp1]].
        set (D1 := list_max (map dep ks)).
        set (L1 := list_sum (map nl ks)).
        assert (ED : D = Nat.max (dep k) D1) by reflexivity.
        assert (EL : Ls = (nl k + L1)%nat) by reflexivity.
        set (W1 := wsum av ps ks).
        assert (HW1 : 0 <= W1).
        { apply wsum_nonneg; [|exact Hps']. apply Forall_forall. intros q _. apply Hav. }
        assert (Hak := Hav k).
        assert (EM : M' = M + rho * (FR p * av k + W1) + INR Ls * c0) by reflexivity.
        assert (HLsplit : INR Ls = INR (nl k) + INR L1) by (rewrite EL; apply plus_INR).
        assert (HL1 : 0 <= INR L1) by apply pos_INR.
        assert (HLk : 0 <= INR (nl k)) by apply pos_INR.
        assert (HrW : 0 <= rho * W1) by (apply Rmult_le_pos; assumption).
        assert (Hrpa : 0 <= rho * (FR p * av k)).
        { apply Rmult_le_pos; [exact Hrho|]. apply Rmult_le_pos; assumption. }
        assert (HL1w : 0 <= INR L1 * c0) by (apply Rmult_le_pos; assumption).
        assert (HLkw : 0 <= INR (nl k) * c0) by (apply Rmult_le_pos; assumption).
        set (m1 := (Nat.max m (S j + D1 + 1) + L1)%nat).
        set (M1 := M + rho * W1 + INR L1 * c0).
        assert (Hm1 : (m1 <= m')%nat) by (unfold m1, m'; lia).
        assert (HM1 : 0 <= M1 <= M').
        { unfold M1. rewrite EM, HLsplit. split; [lra|].
          rewrite Rmult_plus_distr_l, (Rmult_plus_distr_r (INR (nl k))). lra. }
        assert (Hov1 : G m1 * M1 < Omax) by (apply (ov_mono m1 m' M1 M'); assumption).
        assert (Ha1 := IH ps Hps' r rho j a A M m Hr Ha Hov1).
        fold W1 in Ha1.
        cbn [pgo wsum].
        destruct (tst p) eqn:Et.
        * assert (Hr1 := reachOK_step p r rho j Hp Hr).
          set (m2 := (Nat.max m1 (S j + dep k + 1) + nl k)%nat).
          set (M2 := M1 + FR p * rho * av k + INR (nl k) * c0).
          assert (Hm2 : (m2 <= m')%nat) by (unfold m2, m1, m'; lia).
          assert (HM2 : M2 = M').
          { unfold M2, M1. rewrite EM, HLsplit. ring. }
          assert (Hov2 : G m2 * M2 < Omax).
          { apply (ov_mono m2 m' M2 M'); [exact Hm2 | rewrite HM2; lra | exact Hov]. }
          assert (Ha2 := Hk (p * r)%float (FR p * rho) (S j) _ _ M1 m1 Hr1 Ha1 Hov2).
          apply (accOK_weaken _ _ _ _ _ M' m' Ha2); [ring | fold M2; lra | exact Hm2].
        * assert (Hz := Htst p Hp Et).
          apply (accOK_weaken _ _ _ _ _ M' m' Ha1); [rewrite Hz; ring | exact (proj2 HM1) | exact Hm1].
  Qed.
End GLoop.

(** ** [search] (next-infoset search) against its exact value

    [sV]: exact value of the subtree up to the next own infosets, whose values are the real
    values of the binary64 numbers [mu i]; [aV]: the same with absolute values (the mass);
    [sdep] / [snl]: depth and number of leaves of the searched part (own decision nodes are
    leaves of the search). *)
Fixpoint sV (chance so : list (list float)) (me : bool) (mu : nat -> float) (n : node) : R :=
  match n with
  | Term x => if me then FR x else - FR x
  | Chance ci kids => wsum (sV chance so me mu) (@row FNum chance ci) kids
  | Player pl i kids =>
      if Bool.eqb pl me then FR (mu i)
      else wsum (sV chance so me mu) (@row FNum so i) kids
  end.

Fixpoint aV (chance so : list (list float)) (me : bool) (mu : nat -> float) (n : node) : R :=
  match n with
  | Term x => Rabs (FR x)
  | Chance ci kids => wsum (aV chance so me mu) (@row FNum chance ci) kids
  | Player pl i kids =>
      if Bool.eqb pl me then Rabs (FR (mu i))
      else wsum (aV chance so me mu) (@row FNum so i) kids
  end.

Fixpoint sdep (me : bool) (n : node) : nat :=
  match n with
  | Term _ => O
  | Chance _ kids => S (list_max (map (sdep me) kids))
  | Player pl _ kids => if Bool.eqb pl me then O else S (list_max (map (sdep me) kids))
  end.

Fixpoint snl (me : bool) (n : node) : nat :=
  match n with
  | Term _ => 1%nat
  | Chance _ kids => list_sum (map (snl me) kids)
  | Player pl _ kids => if Bool.eqb pl me then 1%nat else list_sum (map (snl me) kids)
  end.

Lemma ltb0_false_zero : forall p, fin01 p -> PrimFloat.ltb 0 p = false -> FR p = 0.
Proof.
  intros p [Hpf [Hp0 _]] Hlt.
  destruct (Rle_lt_or_eq_dec _ _ Hp0) as [Hpos|Hz]; [|symmetry; exact Hz].
  apply (ltb_zero_pos p Hpf) in Hpos. rewrite Hpos in Hlt. discriminate.
Qed.

Section SearchAnalysis.
  Context (chance so : list (list float)) (mu : nat -> float) (H : R).
  Context (Hchance : TblOK chance) (Hso : TblOK so) (HH : 1 <= H).
  Context (Hmu : forall i, Ffin (mu i) /\ Rabs (FR (mu i)) <= H).

  Lemma aV_nonneg : forall me n, 0 <= aV chance so me mu n.
  Proof.
    intros me.
    induction n as [x|ci kids IH|pl i kids IH] using node_ind'.
    - cbn [aV]. apply Rabs_pos.
    - cbn [aV]. apply wsum_nonneg; [exact IH | apply row_fin01; exact Hchance].
    - cbn [aV]. destruct (Bool.eqb pl me); [apply Rabs_pos|].
      apply wsum_nonneg; [exact IH | apply row_fin01; exact Hso].
  Qed.

  Theorem search_spec : forall me n, PayOK H n ->
    GSp (sV chance so me mu) (aV chance so me mu) (sdep me) (snl me) (om1022 * H)
        (@search FNum chance so me mu) n.
  Proof.
    intros me.
    assert (Hc0 : 0 <= om1022 * H) by (apply Rmult_le_pos; [left; apply om1022_pos | lra]).
    induction n as [x|ci kids IH|pl i kids IH] using node_ind'; intros Hpay.
    - inversion Hpay as [x' Hxf HxB| |]; subst.
      intros r rho j a A M m Hr Ha m' M' Hov.
      rewrite search_Term.
      assert (Em : m' = (Nat.max m (j + 1) + 1)%nat) by (unfold m'; cbn [sdep snl]; lia).
      assert (EM : M' = M + rho * Rabs (FR x) + om1022 * H).
      { unfold M'. cbn [aV snl INR]. ring. }
      rewrite Em, EM in Hov |- *. cbn [sV].
      destruct me.
      + apply (leaf_add H r rho j a A M m x HH Hxf HxB Hr Ha Hov).
      + apply (leaf_sub H r rho j a A M m x HH Hxf HxB Hr Ha Hov).
    - inversion Hpay as [|ci' kids' Hkids|]; subst.
      intros r rho j a A M m Hr Ha m' M' Hov.
      rewrite search_Chance.
      assert (Hspec : Forall (GSp (sV chance so me mu) (aV chance so me mu) (sdep me) (snl me)
                                  (om1022 * H) (@search FNum chance so me mu)) kids).
      { rewrite Forall_forall in IH, Hkids |- *. intros k Hk. apply IH; [exact Hk | apply Hkids; exact Hk]. }
      assert (Hgo := pgo_spec (sV chance so me mu) (aV chance so me mu) (sdep me) (snl me)
                       (om1022 * H) (aV_nonneg me) Hc0
                       (@search FNum chance so me mu) (fun _ => true)
                       ltac:(intros; discriminate) kids Hspec
                       (@row FNum chance ci) (row_fin01 chance ci Hchance)
                       r rho j a A M m Hr Ha).
      cbv zeta in Hgo.
      assert (Em : m' = (Nat.max m (S j + list_max (map (sdep me) kids) + 1)
                         + list_sum (map (snl me) kids))%nat)
        by (unfold m'; cbn [sdep snl]; lia).
      rewrite <- Em in Hgo. exact (Hgo Hov).
    - inversion Hpay as [| |pl' i' kids' Hkids]; subst.
      intros r rho j a A M m Hr Ha m' M' Hov.
      rewrite search_Player.
      unfold m', M' in *. clear m' M'. cbn [sV aV sdep snl] in Hov |- *.
      destruct (Bool.eqb pl me).
      + destruct (Hmu i) as [Hmf HmB].
        assert (Em : (Nat.max m (j + 0 + 1) + 1 = Nat.max m (j + 1) + 1)%nat) by lia.
        assert (EM : M + rho * Rabs (FR (mu i)) + INR 1 * (om1022 * H)
                     = M + rho * Rabs (FR (mu i)) + om1022 * H) by (cbn [INR]; ring).
        rewrite Em, EM in Hov |- *.
        apply (leaf_add H r rho j a A M m (mu i) HH Hmf HmB Hr Ha Hov).
      + assert (Hspec : Forall (GSp (sV chance so me mu) (aV chance so me mu) (sdep me) (snl me)
                                    (om1022 * H) (@search FNum chance so me mu)) kids).
        { rewrite Forall_forall in IH, Hkids |- *. intros k Hk. apply IH; [exact Hk | apply Hkids; exact Hk]. }
        assert (Hgo := pgo_spec (sV chance so me mu) (aV chance so me mu) (sdep me) (snl me)
                         (om1022 * H) (aV_nonneg me) Hc0
                         (@search FNum chance so me mu) (fun p => PrimFloat.ltb 0 p)
                         ltb0_false_zero kids Hspec
                         (@row FNum so i) (row_fin01 so i Hso)
                         r rho j a A M m Hr Ha).
        cbv zeta in Hgo.
        assert (Em : (Nat.max m (j + S (list_max (map (sdep me) kids)) + 1)
                      + list_sum (map (snl me) kids)
                      = Nat.max m (S j + list_max (map (sdep me) kids) + 1)
                        + list_sum (map (snl me) kids))%nat) by lia.
        rewrite Em in Hov |- *. exact (Hgo Hov).
  Qed.
End SearchAnalysis.

(** ** Row sums: the rows of the tables sum to at most [(1 + 2^-53)^c] (over the reals) *)
Definition RowSum (c : nat) (t : list (list float)) : Prop := Forall (fun r => RS r <= G c) t.

Lemma row_RS : forall c t i, RowSum c t -> RS (@row FNum t i) <= G c.
Proof.
  intros c t i Ht. unfold row.
  destruct (Nat.lt_ge_cases i (length t)) as [Hi|Hi].
  - unfold RowSum in Ht. rewrite Forall_forall in Ht. apply Ht. apply nth_In. exact Hi.
  - rewrite nth_overflow by exact Hi. change (0 <= G c). generalize (G_ge_1 c). lra.
Qed.

Lemma wsum_le_RS : forall (v : node -> R) (X : R) ks ps,
  0 <= X -> Forall (fun k => v k <= X) ks -> Forall fin01 ps ->
  wsum v ps ks <= RS ps * X.
Proof.
  intros v X ks ps HX Hk. revert ps.
  induction Hk as [|k ks Hk _ IH]; intros [|p ps] Hps; cbn [wsum];
    try (apply Rmult_le_pos; [apply RS_nonneg; exact Hps | exact HX]).
  inversion Hps as [|? ? [_ [Hp0 Hp1]] Hps']; subst.
    rewrite RS_cons, Rmult_plus_distr_r. specialize (IH ps Hps').
    assert (FR p * v k <= FR p * X) by (apply Rmult_le_compat_l; assumption). lra.
Qed.

Lemma list_max_In_le : forall (l : list nat) x, In x l -> (x <= list_max l)%nat.
Proof.
  intros l x Hx. assert (H := proj1 (list_max_le l (list_max l)) (Nat.le_refl _)).
  rewrite Forall_forall in H. apply H. exact Hx.
Qed.

Lemma list_sum_In_le : forall (l : list nat) x, In x l -> (x <= list_sum l)%nat.
Proof.
  induction l as [|y l IH]; intros x Hx; [destruct Hx|].
  cbn [list_sum fold_right]. destruct Hx as [<-|Hx]; [lia|]. specialize (IH x Hx).
  unfold list_sum in IH. lia.
Qed.

Lemma PayOK_mono : forall B B' n, B <= B' -> PayOK B n -> PayOK B' n.
Proof.
  intros B B' n HB.
  induction n as [x|ci kids IH|pl i kids IH] using node_ind'; intros Hp.
  - inversion Hp as [x' Hxf HxB| |]; subst. constructor; [exact Hxf | lra].
  - inversion Hp as [|ci' kids' Hkids|]; subst. constructor.
    rewrite Forall_forall in IH, Hkids |- *. intros k Hk. apply IH; [exact Hk | apply Hkids; exact Hk].
  - inversion Hp as [| |pl' i' kids' Hkids]; subst. constructor.
    rewrite Forall_forall in IH, Hkids |- *. intros k Hk. apply IH; [exact Hk | apply Hkids; exact Hk].
Qed.

Section ValueBound.
  Context (chance so : list (list float)) (mu : nat -> float) (H : R) (c : nat).
  Context (Hchance : TblOK chance) (Hso : TblOK so) (HH : 1 <= H).
  Context (Rchance : RowSum c chance) (Rso : RowSum c so).
  Context (Hmu : forall i, Ffin (mu i) /\ Rabs (FR (mu i)) <= H).

  Lemma aV_le : forall me n, PayOK H n ->
    aV chance so me mu n <= G (c * sdep me n) * H.
  Proof.
    intros me.
    assert (Hloop : forall kids ps,
              Forall (fun k => PayOK H k -> aV chance so me mu k <= G (c * sdep me k) * H) kids ->
              Forall (PayOK H) kids -> Forall fin01 ps -> RS ps <= G c ->
              wsum (aV chance so me mu) ps kids
              <= G (c * S (list_max (map (sdep me) kids))) * H).
    { intros kids ps IH Hkids Hps HRS.
      set (X := G (c * list_max (map (sdep me) kids)) * H).
      assert (HX : 0 <= X).
      { unfold X. apply Rmult_le_pos; [left; apply G_pos | lra]. }
      apply Rle_trans with (RS ps * X).
      - apply wsum_le_RS; [exact HX | | exact Hps].
        rewrite Forall_forall in IH, Hkids |- *. intros k Hk.
        apply Rle_trans with (1 := IH k Hk (Hkids k Hk)). unfold X.
        apply Rmult_le_compat_r; [lra|]. apply G_mono. apply Nat.mul_le_mono_l.
        apply list_max_In_le. apply in_map. exact Hk.
      - unfold X. rewrite Nat.mul_succ_r, Nat.add_comm, G_add, Rmult_assoc.
        apply Rmult_le_compat_r; [exact HX | exact HRS]. }
    induction n as [x|ci kids IH|pl i kids IH] using node_ind'; intros Hpay.
    - inversion Hpay as [x' Hxf HxB| |]; subst. cbn [aV sdep].
      rewrite Nat.mul_0_r, G_0. lra.
    - inversion Hpay as [|ci' kids' Hkids|]; subst. cbn [aV sdep].
      apply Hloop; [exact IH | exact Hkids | apply row_fin01; exact Hchance | apply row_RS; exact Rchance].
    - inversion Hpay as [| |pl' i' kids' Hkids]; subst. cbn [aV sdep].
      destruct (Bool.eqb pl me).
      + rewrite Nat.mul_0_r, G_0. destruct (Hmu i) as [_ Hb]. lra.
      + apply Hloop; [exact IH | exact Hkids | apply row_fin01; exact Hso | apply row_RS; exact Rso].
  Qed.

  Lemma sV_le_aV : forall me n, Rabs (sV chance so me mu n) <= aV chance so me mu n.
  Proof.
    intros me.
    assert (Hw : forall ks ps, Forall fin01 ps ->
              Forall (fun k => Rabs (sV chance so me mu k) <= aV chance so me mu k) ks ->
              Rabs (wsum (sV chance so me mu) ps ks) <= wsum (aV chance so me mu) ps ks).
    { intros ks ps Hps Hks. revert ps Hps.
      induction Hks as [|k ks Hk _ IH]; intros [|p ps] Hps; cbn [wsum];
        try (rewrite Rabs_R0; lra).
      inversion Hps as [|? ? [_ [Hp0 _]] Hps']; subst.
      apply Rle_trans with (1 := Rabs_triang _ _).
      rewrite Rabs_mult, (Rabs_pos_eq _ Hp0).
      apply Rplus_le_compat; [apply Rmult_le_compat_l; assumption | apply IH; exact Hps']. }
    induction n as [x|ci kids IH|pl i kids IH] using node_ind'.
    - cbn [sV aV]. destruct me; [|rewrite Rabs_Ropp]; lra.
    - cbn [sV aV]. apply Hw; [apply row_fin01; exact Hchance | exact IH].
    - cbn [sV aV]. destruct (Bool.eqb pl me); [lra|].
      apply Hw; [apply row_fin01; exact Hso | exact IH].
  Qed.

  (** the value of a subtree searched from reach one *)
  Lemma search_root_acc : forall me (D L : nat) kid,
    PayOK H kid -> (sdep me kid <= D)%nat -> (snl me kid <= L)%nat ->
    INR L * om1022 <= u53 ->
    G (D + 1 + L) * (G (c * D + 1) * H) < Omax ->
    accOK (@search FNum chance so me mu kid 1%float 0%float)
          (sV chance so me mu kid) (G (c * D + 1) * H) (D + 1 + L).
  Proof.
    intros me D L kid Hpay Hd Hl HL Hov.
    assert (Hu := u53_pos). assert (Hw := om1022_pos).
    assert (Hspec := search_spec chance so mu H Hchance Hso HH Hmu me kid Hpay
                       1%float 1 0%nat 0%float 0 0 0%nat reachOK_one accOK_zero).
    cbv zeta in Hspec.
    set (m' := (Nat.max 0 (0 + sdep me kid + 1) + snl me kid)%nat) in *.
    set (M' := 0 + 1 * aV chance so me mu kid + INR (snl me kid) * (om1022 * H)) in *.
    assert (Hm' : (m' <= D + 1 + L)%nat) by (unfold m'; lia).
    assert (HaV := aV_le me kid Hpay). assert (HaV0 := aV_nonneg chance so mu Hchance Hso me kid).
    assert (HGD : G (c * sdep me kid) <= G (c * D)) by (apply G_mono; apply Nat.mul_le_mono_l; exact Hd).
    assert (HG1 := G_ge_1 (c * D)).
    assert (Hnl : INR (snl me kid) * om1022 <= u53).
    { apply Rle_trans with (2 := HL). apply Rmult_le_compat_r; [lra | apply le_INR; exact Hl]. }
    assert (Hnl0 : 0 <= INR (snl me kid)) by apply pos_INR.
    assert (HM' : 0 <= M' <= G (c * D + 1) * H).
    { unfold M'. split.
      - assert (0 <= INR (snl me kid) * (om1022 * H)).
        { apply Rmult_le_pos; [exact Hnl0|]. apply Rmult_le_pos; lra. }
        lra.
      - rewrite Nat.add_1_r, G_S.
        assert (E1 : aV chance so me mu kid <= G (c * D) * H).
        { apply Rle_trans with (1 := HaV). apply Rmult_le_compat_r; lra. }
        assert (E2 : INR (snl me kid) * (om1022 * H) <= u53 * H).
        { rewrite <- Rmult_assoc. apply Rmult_le_compat_r; lra. }
        assert (E3 : u53 * H <= u53 * (G (c * D) * H)).
        { apply Rmult_le_compat_l; [lra|]. rewrite <- (Rmult_1_l H) at 1.
          apply Rmult_le_compat_r; lra. }
        lra. }
    assert (Hov' : G m' * M' < Omax) by (apply (ov_mono m' (D + 1 + L) M' _ Hm' HM' Hov)).
    specialize (Hspec Hov').
    apply (accOK_weaken _ _ _ _ _ _ _ Hspec); [ring | exact (proj2 HM') | exact Hm'].
  Qed.
End ValueBound.

(** ** [resolve_one]: the value of one infoset *)

Lemma pos_ge_emin : forall p : float, 0 < FR p -> bpow radix2 (-1074) <= FR p.
Proof.
  intros p Hp.
  apply (generic_format_ge_bpow radix2 (SpecFloat.fexp prec emax) (-1074)%Z);
    [|exact Hp|apply fmt_FR].
  intros e. unfold SpecFloat.fexp. apply Z.le_max_r.
Qed.

(** a reach probability is "good" for the slack [sl] when its products cannot lose
    relative accuracy by underflow: it is zero or a normal number -- or the slack is
    [1/2] and pays for the underflow *)
Definition Tgood (sl : R) (p : float) : Prop := FR p = 0 \/ om1022 <= FR p \/ / 2 <= sl.

Lemma tprod_bound : forall (V p : float) (Hv sl : R),
  fin01 p -> Ffin V -> Rabs (FR V) <= Hv -> 1 <= Hv -> 0 <= sl -> Tgood sl p ->
  Ffin (V * p)%float /\ Rabs (FR (V * p)%float) <= G 2 * (Hv + sl) * FR p.
Proof.
  intros V p Hv sl Hp HVf HVb HHv Hsl Hg.
  destruct (mul_leaf' V p HVf Hp) as [Hf He]. split; [exact Hf|]. rewrite He.
  destruct Hp as [Hpf [Hp0 Hp1]].
  assert (Hu := u53_pos). assert (Hw := om1022_pos).
  set (x := FR p * FR V).
  assert (Hx : Rabs x <= FR p * Hv).
  { unfold x. rewrite Rabs_mult, (Rabs_pos_eq _ Hp0). apply Rmult_le_compat_l; assumption. }
  assert (Hm := mul_err x).
  assert (Hr : Rabs (rnd x) <= (1 + u53) * Rabs x + u53 * om1022).
  { replace (rnd x) with (x + (rnd x - x)) by ring.
    apply Rle_trans with (1 := Rabs_triang _ _). lra. }
  assert (HG2 : G 2 = (1 + u53) * (1 + u53)) by (unfold G; simpl; ring).
  assert (Ha : 0 <= FR p * Hv) by (apply Rmult_le_pos; lra).
  assert (Hb : 0 <= FR p * sl) by (apply Rmult_le_pos; lra).
  assert (Hzero : FR p = 0 -> Rabs (rnd x) <= G 2 * (Hv + sl) * FR p).
  { intros Hz. unfold x. rewrite Hz, Rmult_0_l, (rnd_fmt 0 fmt_0), Rabs_R0, Rmult_0_r. lra. }
  rewrite HG2.
  replace ((1 + u53) * (1 + u53) * (Hv + sl) * FR p)
    with ((1 + 2 * u53 + u53 * u53) * (FR p * Hv) + (1 + u53) * (1 + u53) * (FR p * sl)) by ring.
  assert (Huu : 0 <= u53 * u53 * (FR p * Hv)).
  { apply Rmult_le_pos; [apply Rmult_le_pos; lra | exact Ha]. }
  assert (Hbb : FR p * sl <= (1 + u53) * (1 + u53) * (FR p * sl)).
  { rewrite <- (Rmult_1_l (FR p * sl)) at 1. apply Rmult_le_compat_r; [exact Hb|]. nra. }
  assert (Hux : (1 + u53) * Rabs x <= (1 + u53) * (FR p * Hv)) by (apply Rmult_le_compat_l; lra).
  assert (Hua : 0 <= u53 * (FR p * Hv)) by (apply Rmult_le_pos; lra).
  destruct Hg as [Hz | [Hn | Hs]].
  - rewrite HG2 in Hzero.
    replace ((1 + u53) * (1 + u53) * (Hv + sl) * FR p)
      with ((1 + 2 * u53 + u53 * u53) * (FR p * Hv) + (1 + u53) * (1 + u53) * (FR p * sl))
      in Hzero by ring.
    exact (Hzero Hz).
  - assert (u53 * om1022 <= u53 * (FR p * Hv)).
    { apply Rmult_le_compat_l; [lra|]. apply Rle_trans with (1 := Hn).
      rewrite <- (Rmult_1_r (FR p)) at 1. apply Rmult_le_compat_l; lra. }
    lra.
  - destruct (Rle_lt_or_eq_dec _ _ Hp0) as [Hpos|Hz].
    + assert (He1 := pos_ge_emin p Hpos).
      assert (Heta : u53 * om1022 = / 2 * bpow radix2 (-1074)).
      { rewrite u53_om1022. unfold eta1075. rewrite half_bpow. reflexivity. }
      assert (u53 * om1022 <= FR p * sl).
      { rewrite Heta. rewrite (Rmult_comm (FR p)). apply Rmult_le_compat; try lra.
        apply bpow_ge_0. }
      lra.
    + rewrite HG2 in Hzero.
      replace ((1 + u53) * (1 + u53) * (Hv + sl) * FR p)
        with ((1 + 2 * u53 + u53 * u53) * (FR p * Hv) + (1 + u53) * (1 + u53) * (FR p * sl))
        in Hzero by ring.
      exact (Hzero (eq_sym Hz)).
Qed.

(** invariant of one running payoff: finite, and bounded by the reach mass so far *)
Definition PBd (C : R) (n : nat) (Sm : R) (y : float) : Prop :=
  Ffin y /\ Rabs (FR y) <= G n * (C * Sm).

Lemma PBd_step : forall C n Sm y t p, 0 <= C -> 0 <= Sm -> 0 <= p ->
  PBd C n Sm y -> Ffin t -> Rabs (FR t) <= C * p ->
  G (S n) * (C * (Sm + p)) < Omax -> PBd C (S n) (Sm + p) (y + t)%float.
Proof.
  intros C n Sm y t p HC HS Hp [Hyf Hyb] Htf Htb Hov.
  assert (Hu := u53_pos). assert (HG := G_ge_1 n).
  assert (Hadd := add_rel (FR y) (FR t) (fmt_FR _) (fmt_FR _)).
  assert (Hcs : 0 <= C * Sm) by (apply Rmult_le_pos; assumption).
  assert (Hcp : 0 <= C * p) by (apply Rmult_le_pos; assumption).
  assert (Hsum : Rabs (FR y + FR t) <= G n * (C * (Sm + p))).
  { apply Rle_trans with (1 := Rabs_triang _ _).
    rewrite Rmult_plus_distr_l, Rmult_plus_distr_l.
    assert (C * p <= G n * (C * p)).
    { rewrite <- (Rmult_1_l (C * p)) at 1. apply Rmult_le_compat_r; lra. }
    lra. }
  assert (Hr : Rabs (rnd (FR y + FR t)) <= G (S n) * (C * (Sm + p))).
  { replace (rnd (FR y + FR t)) with ((FR y + FR t) + (rnd (FR y + FR t) - (FR y + FR t))) by ring.
    apply Rle_trans with (1 := Rabs_triang _ _). rewrite G_S.
    assert (u53 * Rabs (FR y + FR t) <= u53 * (G n * (C * (Sm + p))))
      by (apply Rmult_le_compat_l; lra).
    lra. }
  assert (Hb : Rabs (rnd (FR y + FR t)) < bpow radix2 emax)
    by (apply Rle_lt_trans with (1 := Hr); exact Hov).
  destruct (add_ok y t Hyf Htf Hb) as [Hf He].
  split; [exact Hf | rewrite He; exact Hr].
Qed.

Lemma RS_le_len : forall l : list float, Forall fin01 l -> RS l <= INR (length l).
Proof.
  intros l Hl. induction Hl as [|x l [_ [_ Hx]] _ IH]; [rewrite RS_nil; cbn; lra|].
  rewrite RS_cons. change (length (x :: l)) with (S (length l)). rewrite S_INR. lra.
Qed.

(** the float sum of non-negative terms is at least the exact sum divided by [G n] *)
Lemma RS_le_G_sum : forall l : list float, Forall fin01 l ->
  (Z.of_nat (length l) < 2 ^ 53)%Z ->
  Ffin (@sum FNum l) /\ 0 <= FR (@sum FNum l) /\ RS l <= G (length l) * FR (@sum FNum l).
Proof.
  intros l Hl Hn. rewrite sum_FNum.
  assert (H0 : 0 <= FR 0%float <= IZR 0) by (rewrite FR_zero; lra).
  destruct (fsum_inv l 0%float 0%Z Hl Ffin_zero H0 (Z.le_refl 0) ltac:(lia)) as [Hf [Hge _]].
  assert (He := fsum_err l 0%float 0%Z Hl Ffin_zero H0 (Z.le_refl 0) ltac:(lia)).
  rewrite FR_zero in Hge, He. split; [exact Hf|]. split; [exact Hge|].
  set (T := FR (fold_left PrimFloat.add l 0%float)) in *.
  apply Rabs_le_inv in He.
  assert (Hb := G_bernoulli (length l)).
  assert ((1 + INR (length l) * u53) * T <= G (length l) * T)
    by (apply Rmult_le_compat_r; assumption).
  lra.
Qed.

Definition reaches (mine : list centry) : list float :=
  map (fun en : centry => snd (snd en)) mine.

Section ResolveOne.
  Context (chance so : list (list float)) (me : bool) (mu : nat -> float) (Hv sl : R).
  Context (HHv : 1 <= Hv) (Hsl : 0 <= sl).
  Local Notation srch := (@search FNum chance so me).
  Local Notation C := (G 2 * (Hv + sl)).

  Definition Vok (kid : node) : Prop :=
    Ffin (srch mu kid 1%float 0%float) /\ Rabs (FR (srch mu kid 1%float 0%float)) <= Hv.

  Definition EntOK (en : centry) : Prop :=
    fin01 (snd (snd en)) /\ Forall Vok (fst (snd en)) /\ Tgood sl (snd (snd en)).

  Lemma C_nonneg : 0 <= C.
  Proof. apply Rmult_le_pos; [left; apply G_pos | lra]. Qed.

  Lemma paystep_PBd : forall n Sm pays (en : centry),
    0 <= Sm -> Forall (PBd C n Sm) pays -> EntOK en ->
    G (S n) * (C * (Sm + FR (snd (snd en)))) < Omax ->
    Forall (PBd C (S n) (Sm + FR (snd (snd en)))) (paystep chance so me mu pays en).
  Proof.
    intros n Sm pays [i0 [kids p]] HS Hpays [Hp [Hk Hg]] Hov. cbn [fst snd] in *.
    unfold paystep. revert kids Hk.
    induction Hpays as [|y pays Hy _ IH]; intros kids Hk; [constructor|].
    destruct kids as [|kid kids]; [constructor|].
    inversion Hk as [|? ? [HVf HVb] Hk']; subst.
    cbn [combine map fst snd]. constructor; [|apply IH; exact Hk'].
    destruct (tprod_bound _ p Hv sl Hp HVf HVb HHv Hsl Hg) as [Htf Htb].
    apply PBd_step; try assumption; [apply C_nonneg | destruct Hp as [_ [H0 _]]; exact H0].
  Qed.

  Lemma EntOK_reaches : forall mine, Forall EntOK mine -> Forall fin01 (reaches mine).
  Proof.
    intros mine H. induction H as [|en mine [Hp _] _ IH]; [constructor|].
    unfold reaches. cbn [map]. constructor; [exact Hp | exact IH].
  Qed.

  Lemma payfold_PBd : forall mine, Forall EntOK mine ->
    forall n Sm pays, 0 <= Sm -> Forall (PBd C n Sm) pays ->
    G (n + length mine) * (C * (Sm + RS (reaches mine))) < Omax ->
    Forall (PBd C (n + length mine) (Sm + RS (reaches mine)))
           (fold_left (paystep chance so me mu) mine pays).
  Proof.
    intros mine Hm. induction Hm as [|en mine Hen Hm IH]; intros n Sm pays HS Hpays Hov.
    - cbn [fold_left length reaches map]. rewrite RS_nil, Nat.add_0_r, Rplus_0_r. exact Hpays.
    - assert (Hrest := RS_nonneg _ (EntOK_reaches mine Hm)).
      assert (Hp0 : 0 <= FR (snd (snd en))) by (destruct Hen as [[_ [H0 _]] _]; exact H0).
      assert (ES : Sm + RS (reaches (en :: mine))
                   = Sm + FR (snd (snd en)) + RS (reaches mine)).
      { unfold reaches. cbn [map]. rewrite RS_cons. ring. }
      assert (EN : (n + length (en :: mine) = S n + length mine)%nat) by (cbn [length]; lia).
      rewrite ES, EN in Hov |- *. cbn [fold_left].
      assert (HC := C_nonneg).
      apply IH; [lra | | exact Hov].
      apply paystep_PBd; try assumption.
      apply (ov_mono (S n) (S n + length mine) _ (C * (Sm + FR (snd (snd en)) + RS (reaches mine))));
        [lia | | exact Hov].
      split; [apply Rmult_le_pos; lra | apply Rmult_le_compat_l; lra].
  Qed.

  Lemma repeat_zero_PBd : forall k, Forall (PBd C 0 0) (@repeatT FNum 0%float k).
  Proof.
    induction k as [|k IH]; cbn [repeatT]; constructor; [|exact IH].
    split; [apply Ffin_zero|]. rewrite FR_zero, Rabs_R0, Rmult_0_r, Rmult_0_r. lra.
  Qed.

  (** The repaired D16 guard [if total_reach > 0] is used here: the division is performed
      only when the total reach is a finite positive number, so [0 / 0] cannot occur. *)
  Theorem resolve_one_bound : forall nodes arity i (Nn : nat),
    Forall EntOK nodes -> (length nodes <= Nn)%nat -> (Z.of_nat Nn < 2 ^ 53)%Z ->
    G (Nn + 2) * ((Hv + sl) * INR Nn) < Omax ->
    G (2 * Nn + 3) * (Hv + sl) < Omax ->
    Ffin (@resolve_one FNum chance so me nodes arity mu i) /\
    Rabs (FR (@resolve_one FNum chance so me nodes arity mu i)) <= G (2 * Nn + 3) * (Hv + sl).
  Proof.
    intros nodes arity i Nn Hnodes Hlen HN Hov1 Hov2.
    assert (Hu := u53_pos).
    assert (Hzero : Ffin 0%float /\ Rabs (FR 0%float) <= G (2 * Nn + 3) * (Hv + sl)).
    { split; [apply Ffin_zero|]. rewrite FR_zero, Rabs_R0.
      apply Rmult_le_pos; [left; apply G_pos | lra]. }
    rewrite resolve_one_FNum.
    assert (Hmine : Forall EntOK (rmine nodes i)) by (apply Forall_filter; exact Hnodes).
    assert (Hml : (length (rmine nodes i) <= Nn)%nat).
    { apply Nat.le_trans with (2 := Hlen). apply filter_length_le. }
    destruct (rmine nodes i) as [|en0 mine0] eqn:Em; [exact Hzero|].
    set (mine := en0 :: mine0) in *.
    set (n := length mine) in *.
    assert (Hre := EntOK_reaches mine Hmine).
    assert (Hlr : length (reaches mine) = n) by (unfold reaches; apply map_length).
    assert (HSn : RS (reaches mine) <= INR n) by (rewrite <- Hlr; apply RS_le_len; exact Hre).
    assert (HS0 := RS_nonneg _ Hre).
    assert (HC := C_nonneg).
    assert (HnN : INR n <= INR Nn) by (apply le_INR; exact Hml).
    assert (Hn0 : 0 <= INR n) by apply pos_INR.
    assert (HGn : G n <= G Nn) by (apply G_mono; exact Hml).
    assert (HGn1 := G_ge_1 n).
    assert (Hovf : G (0 + n) * (C * (0 + RS (reaches mine))) < Omax).
    { apply Rle_lt_trans with (2 := Hov1). rewrite Nat.add_0_l, Rplus_0_l, G_add.
      replace (G Nn * G 2 * ((Hv + sl) * INR Nn)) with (G Nn * (G 2 * (Hv + sl) * INR Nn)) by ring.
      apply Rmult_le_compat; try lra.
      - apply Rmult_le_pos; lra.
      - apply Rmult_le_compat_l; lra. }
    assert (Hpay := payfold_PBd mine Hmine 0%nat 0 _ (Rle_refl 0) (repeat_zero_PBd arity) Hovf).
    rewrite Nat.add_0_l, Rplus_0_l in Hpay.
    change (fold_left (paystep chance so me mu) mine (@repeatT FNum 0%float arity))
      with (payoffs chance so me mu mine arity) in Hpay.
    destruct (payoffs chance so me mu mine arity) as [|x rest]; [exact Hzero|].
    cbn [reduce_max].
    inversion Hpay as [|? ? Hx Hrest]; subst.
    assert (HrF : Forall Ffin rest).
    { apply Forall_impl with (2 := Hrest). intros y [Hy _]. exact Hy. }
    destruct (fold_fmax rest x HrF (proj1 Hx)) as [_ [_ [_ Hin]]].
    change (fmax FNum) with f_max.
    set (m := fold_left f_max rest x) in *.
    assert (Hm : PBd C n (RS (reaches mine)) m).
    { destruct Hin as [-> | Hin]; [exact Hx|].
      rewrite Forall_forall in Hrest. apply Hrest. exact Hin. }
    destruct Hm as [Hmf Hmb].
    change (rtotal mine) with (@sum FNum (reaches mine)).
    destruct (RS_le_G_sum (reaches mine) Hre ltac:(rewrite Hlr; lia)) as [HTf [HT0 HTS]].
    rewrite Hlr in HTS.
    set (T := @sum FNum (reaches mine)) in *.
    change (ltb FNum (zero FNum) T) with (PrimFloat.ltb 0 T).
    destruct (PrimFloat.ltb 0 T) eqn:Hpos; [|exact Hzero].
    apply (ltb_zero_pos T HTf) in Hpos.
    set (X := G (2 * Nn + 2) * (Hv + sl)).
    assert (HX1 : 1 <= X).
    { unfold X. generalize (G_ge_1 (2 * Nn + 2)). intros HG. 
      apply Rle_trans with (1 * (Hv + sl)); [lra|]. apply Rmult_le_compat_r; lra. }
    assert (Hq : Rabs (FR m / FR T) <= X).
    { unfold Rdiv. rewrite Rabs_mult, Rabs_inv, (Rabs_pos_eq (FR T)) by lra.
      apply Rmult_le_reg_r with (FR T); [exact Hpos|].
      rewrite Rmult_assoc, Rinv_l, Rmult_1_r by lra.
      apply Rle_trans with (1 := Hmb).
      apply Rle_trans with (G n * (C * (G n * FR T))).
      - apply Rmult_le_compat_l; [lra|]. apply Rmult_le_compat_l; assumption.
      - unfold X. replace (2 * Nn + 2)%nat with (Nn + Nn + 2)%nat by lia.
        rewrite !G_add.
        replace (G n * (G 2 * (Hv + sl) * (G n * FR T)))
          with (G n * G n * (G 2 * (Hv + sl) * FR T)) by ring.
        replace (G Nn * G Nn * G 2 * (Hv + sl) * FR T)
          with (G Nn * G Nn * (G 2 * (Hv + sl) * FR T)) by ring.
        apply Rmult_le_compat_r; [apply Rmult_le_pos; lra|].
        apply Rmult_le_compat; lra. }
    assert (Hrq : Rabs (rnd (FR m / FR T)) <= G (2 * Nn + 3) * (Hv + sl)).
    { apply Rabs_le_inv in Hq.
      assert (H1 : rnd (FR m / FR T) <= rnd X) by (apply rnd_le; lra).
      assert (H2 : rnd (- X) <= rnd (FR m / FR T)) by (apply rnd_le; lra).
      rewrite rnd_opp in H2.
      assert (H3 := rnd_rel_ge1 X HX1).
      replace (2 * Nn + 3)%nat with (S (2 * Nn + 2)) by lia. rewrite G_S.
      fold X in H3. apply Rabs_le. unfold X in *. lra. }
    assert (Hb : Rabs (rnd (FR m / FR T)) < bpow radix2 emax)
      by (apply Rle_lt_trans with (1 := Hrq); exact Hov2).
    change (div FNum m T) with (m / T)%float.
    destruct (div_ok m T Hmf ltac:(lra) Hb) as [Hf He].
    change (Ffin (m / T)%float /\ Rabs (FR (m / T)%float) <= G (2 * Nn + 3) * (Hv + sl)).
    split; [exact Hf | rewrite He; exact Hrq].
  Qed.
End ResolveOne.

(** ** [collect]: the recorded decision nodes *)

Lemma sdep_le_depth : forall me (n : node), (sdep me n <= depth n)%nat.
Proof.
  intros me.
  assert (Hl : forall kids, Forall (fun k => (sdep me k <= depth k)%nat) kids ->
               (list_max (map (sdep me) kids) <= list_max (map depth kids))%nat).
  { intros kids H. induction H as [|k ks Hk _ IH]; [apply Nat.le_refl|].
    change (list_max (map (sdep me) (k :: ks)))
      with (Nat.max (sdep me k) (list_max (map (sdep me) ks))).
    change (list_max (map depth (k :: ks))) with (Nat.max (depth k) (list_max (map depth ks))).
    lia. }
  induction n as [x|ci kids IH|pl i kids IH] using node_ind'; cbn [sdep depth]; [lia| |].
  - apply le_n_S, Hl, IH.
  - destruct (Bool.eqb pl me); [lia|]. apply le_n_S, Hl, IH.
Qed.

Lemma snl_le_tsz : forall me (n : node), (snl me n <= tsz n)%nat.
Proof.
  intros me.
  induction n as [x|ci kids IH|pl i kids IH] using node_ind'; cbn [snl tsz]; [lia| |].
  - apply list_sum_map_le. exact IH.
  - destruct (Bool.eqb pl me); [lia|].
    apply Nat.le_trans with (list_sum (map tsz kids)); [|lia].
    apply list_sum_map_le. exact IH.
Qed.

(** hereditary shape of the subtrees: payoffs bounded, depth and size bounded *)
Definition Shape (B : R) (D N : nat) (k : node) : Prop :=
  PayOK B k /\ (depth k <= D)%nat /\ (tsz k <= N)%nat.

Lemma Shape_Chance : forall B D N ci kids, Shape B D N (Chance ci kids) -> Forall (Shape B D N) kids.
Proof.
  intros B D N ci kids [Hp [Hd Hn]]. inversion Hp as [|ci' kids' Hkids|]; subst.
  cbn [depth tsz] in Hd, Hn. rewrite Forall_forall in Hkids |- *. intros k Hk.
  split; [apply Hkids; exact Hk|]. split.
  - assert (H := list_max_In_le (map depth kids) (depth k) (in_map depth _ _ Hk)). lia.
  - assert (H := list_sum_In_le (map tsz kids) (tsz k) (in_map tsz _ _ Hk)). lia.
Qed.

Lemma Shape_Player : forall B D N pl i kids, Shape B D N (Player pl i kids) -> Forall (Shape B D N) kids.
Proof.
  intros B D N pl i kids [Hp [Hd Hn]]. inversion Hp as [| |pl' i' kids' Hkids]; subst.
  cbn [depth tsz] in Hd, Hn. rewrite Forall_forall in Hkids |- *. intros k Hk.
  split; [apply Hkids; exact Hk|]. split.
  - assert (H := list_max_In_le (map depth kids) (depth k) (in_map depth _ _ Hk)). lia.
  - assert (H := list_sum_In_le (map tsz kids) (tsz k) (in_map tsz _ _ Hk)). lia.
Qed.

Section CollectProps.
  Context (chance so : list (list float)) (me : bool) (B : R) (D N : nat).
  Context (Hchance : TblOK chance) (Hso : TblOK so).
  Local Notation col := (@collect FNum chance so me).

  Definition CEnt (en : centry) : Prop :=
    fin01 (snd (snd en)) /\ Forall (Shape B D N) (fst (snd en)).

  Definition CInv (l : list centry) (b : nat) : Prop := Forall CEnt l /\ (length l <= b)%nat.

  Definition CSp (k : node) : Prop := forall reach acc b,
    Shape B D N k -> fin01 reach -> CInv acc b -> CInv (col k reach acc) (b + tsz k).

  Lemma pgo_CInv : forall (tst : float -> bool) ks, Forall CSp ks ->
    forall ps reach acc b, Forall (Shape B D N) ks -> Forall fin01 ps -> fin01 reach ->
    CInv acc b -> CInv (pgo col tst reach ps ks acc) (b + list_sum (map tsz ks)).
  Proof.
    intros tst ks Hks. induction Hks as [|k ks Hk _ IH]; intros ps reach acc b Hsh Hps Hr Hi.
    - destruct ps; cbn [pgo map list_sum fold_right]; rewrite Nat.add_0_r; exact Hi.
    - change (list_sum (map tsz (k :: ks))) with (tsz k + list_sum (map tsz ks))%nat.
      inversion Hsh as [|? ? Hsk Hsh']; subst.
      destruct ps as [|p ps].
      + cbn [pgo]. destruct Hi as [H1 H2]. split; [exact H1 | lia].
      + inversion Hps as [|? ? Hp Hps']; subst.
        assert (H1 := IH ps reach acc b Hsh' Hps' Hr Hi).
        cbn [pgo]. destruct (tst p).
        * assert (H2 := Hk (p * reach)%float _ _ Hsk (proj1 (mul_reach p reach Hp Hr)) H1).
          destruct H2 as [H2 H3]. split; [exact H2 | lia].
        * destruct H1 as [H1 H2]. split; [exact H1 | lia].
  Qed.

  Lemma ogo_CInv : forall ks, Forall CSp ks ->
    forall reach acc b, Forall (Shape B D N) ks -> fin01 reach ->
    CInv acc b -> CInv (ogo col reach ks acc) (b + list_sum (map tsz ks)).
  Proof.
    intros ks Hks. induction Hks as [|k ks Hk _ IH]; intros reach acc b Hsh Hr Hi.
    - cbn [ogo map list_sum fold_right]. rewrite Nat.add_0_r. exact Hi.
    - change (list_sum (map tsz (k :: ks))) with (tsz k + list_sum (map tsz ks))%nat.
      inversion Hsh as [|? ? Hsk Hsh']; subst.
      assert (H1 := IH reach acc b Hsh' Hr Hi).
      cbn [ogo]. destruct (Hk reach _ _ Hsk Hr H1) as [H2 H3]. split; [exact H2 | lia].
  Qed.

  Theorem collect_CInv : forall n, CSp n.
  Proof.
    induction n as [x|ci kids IH|pl i kids IH] using node_ind'; intros reach acc b Hsh Hr Hi.
    - cbn [collect tsz]. destruct Hi as [H1 H2]. split; [exact H1 | lia].
    - rewrite collect_Chance. cbn [tsz].
      apply pgo_CInv; try assumption;
        [apply (Shape_Chance _ _ _ ci); exact Hsh | apply row_fin01; exact Hchance].
    - rewrite collect_Player. cbn [tsz].
      assert (Hk := Shape_Player _ _ _ _ _ _ Hsh).
      destruct (Bool.eqb pl me).
      + replace (b + S (list_sum (map tsz kids)))%nat with (S b + list_sum (map tsz kids))%nat by lia.
        apply ogo_CInv; try assumption.
        destruct Hi as [H1 H2]. split.
        * apply Forall_app. split; [exact H1|]. constructor; [|constructor].
          split; [exact Hr | exact Hk].
        * rewrite app_length. cbn [length].
          apply Nat.le_trans with (b + 1)%nat; [apply Nat.add_le_mono_r; exact H2 | lia].
      + assert (H1 := pgo_CInv (fun p => PrimFloat.ltb 0 p) kids IH (@row FNum so i) reach acc b
                        Hk (row_fin01 so i Hso) Hr Hi).
        destruct H1 as [H1 H2]. split; [exact H1 | lia].
  Qed.
End CollectProps.

(** ** [resolve_from]: all infoset values *)

Lemma nth_Forall : forall (A : Type) (P : A -> Prop) (l : list A) (d : A) (j : nat),
  Forall P l -> P d -> P (nth j l d).
Proof.
  intros A P l d j Hl Hd. revert j. induction Hl as [|x l Hx _ IH]; intros [|j]; cbn [nth]; auto.
Qed.

Section ResolveFrom.
  Context (chance so : list (list float)) (me : bool) (B sl : R) (c D N : nat).
  Context (Hchance : TblOK chance) (Hso : TblOK so).
  Context (Rchance : RowSum c chance) (Rso : RowSum c so).
  Context (HB : 1 <= B) (Hsl : 0 <= sl) (HN : (Z.of_nat N < 2 ^ 53)%Z).

  Definition Kv : nat := (D + 1 + N + c * D + 1)%nat.
  Definition Ks : nat := (2 * N + 3 + Kv)%nat.
  Definition Xs (k : nat) : R := G (k * Ks) * (B + INR k * sl).

  Lemma Xs_ge : forall k, B <= Xs k.
  Proof.
    intros k. unfold Xs. assert (HG := G_ge_1 (k * Ks)).
    assert (0 <= INR k * sl) by (apply Rmult_le_pos; [apply pos_INR | exact Hsl]).
    apply Rle_trans with (1 * (B + INR k * sl)); [lra|]. apply Rmult_le_compat_r; lra.
  Qed.

  Lemma Xs_step : forall k, G Ks * (Xs k + sl) <= Xs (S k).
  Proof.
    intros k. unfold Xs. assert (HG := G_ge_1 (k * Ks)). assert (HG' := G_ge_1 Ks).
    assert (Hk : 0 <= INR k * sl) by (apply Rmult_le_pos; [apply pos_INR | exact Hsl]).
    change (S k * Ks)%nat with (Ks + k * Ks)%nat. rewrite G_add, S_INR, Rmult_assoc.
    apply Rmult_le_compat_l; [lra|].
    assert (sl <= G (k * Ks) * sl).
    { rewrite <- (Rmult_1_l sl) at 1. apply Rmult_le_compat_r; lra. }
    lra.
  Qed.

  Lemma Xs_S_le : forall k, Xs k <= Xs (S k).
  Proof.
    intros k. apply Rle_trans with (2 := Xs_step k). assert (HG' := G_ge_1 Ks).
    assert (H1 := Xs_ge k).
    apply Rle_trans with (1 * (Xs k + sl)); [lra|]. apply Rmult_le_compat_r; lra.
  Qed.

  Lemma Xs_mono : forall k k', (k <= k')%nat -> Xs k <= Xs k'.
  Proof.
    intros k k' H. induction H as [|k' _ IH]; [lra|].
    apply Rle_trans with (1 := IH). apply Xs_S_le.
  Qed.

  (** all the "no overflow" side conditions at level [k] follow from one global bound *)
  Lemma conds : forall k nmax, (k <= nmax)%nat ->
    Xs (S nmax) * INR (S N) < Omax ->
    let H := Xs k in
    G (D + 1 + N) * (G (c * D + 1) * H) < Omax /\
    G (N + 2) * ((G Kv * H + sl) * INR N) < Omax /\
    G (2 * N + 3) * (G Kv * H + sl) < Omax /\
    G (2 * N + 3) * (G Kv * H + sl) <= Xs (S k).
  Proof.
    intros k nmax Hk Hglob H.
    assert (HH : 1 <= H) by (apply Rle_trans with (1 := HB); apply Xs_ge).
    assert (HW : G Ks * (H + sl) * INR (S N) < Omax).
    { apply Rle_lt_trans with (2 := Hglob).
      apply Rmult_le_compat_r; [apply pos_INR|].
      apply Rle_trans with (1 := Xs_step k). apply Xs_mono. lia. }
    assert (HSN : 1 <= INR (S N)) by (rewrite S_INR; generalize (pos_INR N); lra).
    assert (HNN : INR N <= INR (S N)) by (rewrite S_INR; lra).
    assert (HN0 := pos_INR N).
    assert (EKs : G Ks = G (2 * N + 3) * G Kv) by (unfold Ks; apply G_add).
    assert (E23 : G (2 * N + 3) = G (N + 2) * G (N + 1)).
    { rewrite <- G_add. f_equal. lia. }
    assert (EKv : G Kv = G (D + 1 + N) * G (c * D + 1)).
    { unfold Kv. rewrite <- G_add. f_equal. lia. }
    assert (G1 := G_ge_1 (2 * N + 3)). assert (G2 := G_ge_1 Kv).
    assert (G3 := G_ge_1 (N + 2)). assert (G4 := G_ge_1 (N + 1)).
    assert (Hin : G Kv * H + sl <= G Kv * (H + sl)).
    { rewrite Rmult_plus_distr_l.
      assert (sl <= G Kv * sl) by (rewrite <- (Rmult_1_l sl) at 1; apply Rmult_le_compat_r; lra).
      lra. }
    assert (Hin0 : 0 <= G Kv * H + sl).
    { assert (0 <= G Kv * H) by (apply Rmult_le_pos; lra). lra. }
    assert (Hhs : 0 <= H + sl) by lra.
    assert (Hkh : 0 <= G Kv * (H + sl)) by (apply Rmult_le_pos; lra).
    assert (H3 : G (2 * N + 3) * (G Kv * H + sl) <= G Ks * (H + sl)).
    { rewrite EKs, Rmult_assoc. apply Rmult_le_compat_l; lra. }
    assert (Hpos : 0 <= G Ks * (H + sl)).
    { rewrite EKs, Rmult_assoc. apply Rmult_le_pos; lra. }
    assert (HtoW : G Ks * (H + sl) <= G Ks * (H + sl) * INR (S N)).
    { rewrite <- (Rmult_1_r (G Ks * (H + sl))) at 1. apply Rmult_le_compat_l; lra. }
    split; [|split; [|split]].
    - apply Rle_lt_trans with (2 := HW). apply Rle_trans with (2 := HtoW).
      rewrite <- Rmult_assoc, <- EKv, EKs, Rmult_assoc.
      apply Rle_trans with (G Kv * (H + sl)).
      + apply Rmult_le_compat_l; lra.
      + rewrite <- (Rmult_1_l (G Kv * (H + sl))) at 1. apply Rmult_le_compat_r; lra.
    - apply Rle_lt_trans with (2 := HW).
      rewrite EKs, E23.
      replace (G (N + 2) * G (N + 1) * G Kv * (H + sl) * INR (S N))
        with (G (N + 2) * (G (N + 1) * (G Kv * (H + sl) * INR (S N)))) by ring.
      apply Rmult_le_compat_l; [lra|].
      apply Rle_trans with (G Kv * (H + sl) * INR (S N)).
      + apply Rmult_le_compat; lra.
      + rewrite <- (Rmult_1_l (G Kv * (H + sl) * INR (S N))) at 1.
        apply Rmult_le_compat_r; [apply Rmult_le_pos; lra | lra].
    - apply Rle_lt_trans with (2 := HW). lra.
    - apply Rle_trans with (1 := H3). apply Xs_step.
  Qed.

  (** an entry of the node list, as needed by [resolve_one] *)
  Definition NEnt (en : centry) : Prop :=
    fin01 (snd (snd en)) /\ Forall (Shape B D N) (fst (snd en)) /\ Tgood sl (snd (snd en)).

  Definition ValB (X : R) (y : float) : Prop := Ffin y /\ Rabs (FR y) <= X.

  Lemma ValB_zero : forall X, 0 <= X -> ValB X 0%float.
  Proof. intros X HX. split; [apply Ffin_zero|]. rewrite FR_zero, Rabs_R0. exact HX. Qed.

  Lemma kids_Vok : forall (mu : nat -> float) (H : R),
    1 <= H -> B <= H -> (forall i, ValB H (mu i)) ->
    G (D + 1 + N) * (G (c * D + 1) * H) < Omax ->
    forall kid, Shape B D N kid -> Vok chance so me mu (G Kv * H) kid.
  Proof.
    intros mu H HH HBH Hmu Hov kid [Hp [Hd Hn]].
    assert (HNom : INR N * om1022 <= u53).
    { apply Rle_trans with (bpow radix2 53 * om1022).
      - apply Rmult_le_compat_r; [left; apply om1022_pos|].
        rewrite INR_IZR_INZ. change (bpow radix2 53) with (IZR (2 ^ 53)). apply IZR_le. lia.
      - unfold om1022, u53. rewrite <- bpow_plus. apply bpow_le. lia. }
    assert (Hacc := search_root_acc chance so mu H c Hchance Hso HH Rchance Rso Hmu me D N kid
                      (PayOK_mono B H kid HBH Hp)
                      (Nat.le_trans _ _ _ (sdep_le_depth me kid) Hd)
                      (Nat.le_trans _ _ _ (snl_le_tsz me kid) Hn) HNom Hov).
    split; [exact (proj1 Hacc)|].
    apply Rle_trans with (1 := accOK_bound _ _ _ _ Hacc).
    unfold Kv. replace (D + 1 + N + c * D + 1)%nat with ((D + 1 + N) + (c * D + 1))%nat by lia.
    rewrite (G_add (D + 1 + N) (c * D + 1)). right. ring.
  Qed.

  Theorem resolve_from_bound : forall nodes ars nmax,
    Forall NEnt nodes -> (length nodes <= N)%nat ->
    Xs (S nmax) * INR (S N) < Omax ->
    forall k i, (k <= nmax)%nat ->
    Forall (ValB (Xs k)) (@resolve_from FNum chance so me nodes ars i k).
  Proof.
    intros nodes ars nmax Hnodes Hlen Hglob.
    induction k as [|k IH]; intros i Hk; [constructor|].
    rewrite resolve_from_S.
    assert (Hrest := IH (S i) ltac:(lia)).
    set (rest := @resolve_from FNum chance so me nodes ars (S i) k) in *.
    set (mu := fun j : nat => nth (j - S i) rest 0%float).
    pose proof (conds k nmax ltac:(lia) Hglob) as Hc. cbv zeta in Hc.
    destruct Hc as [C1 [C2 [C3 C4]]].
    set (H := Xs k) in *.
    assert (HBH : B <= H) by apply Xs_ge.
    assert (HH : 1 <= H) by lra.
    assert (Hmu : forall j, ValB H (mu j)).
    { intros j. unfold mu. apply nth_Forall; [exact Hrest | apply ValB_zero; lra]. }
    assert (HHv : 1 <= G Kv * H).
    { generalize (G_ge_1 Kv). intros HG. apply Rle_trans with (1 * H); [lra|].
      apply Rmult_le_compat_r; lra. }
    assert (Hents : Forall (EntOK chance so me mu (G Kv * H) sl) nodes).
    { apply Forall_impl with (2 := Hnodes). intros en [Hp [Hkids Hg]].
      split; [exact Hp|]. split; [|exact Hg].
      apply Forall_impl with (2 := Hkids). apply kids_Vok; assumption. }
    destruct (resolve_one_bound chance so me mu (G Kv * H) sl HHv Hsl nodes (nth i ars O) i N
                Hents Hlen HN C2 C3) as [Hf Hb].
    constructor.
    - split; [exact Hf | lra].
    - apply Forall_impl with (2 := Hrest). intros y [Hy1 Hy2]. split; [exact Hy1|].
      apply Rle_trans with (1 := Hy2). apply Xs_S_le.
  Qed.
End ResolveFrom.

(** ** [br_value] at binary64 *)

(** shape parameters of a best-response computation: [br_Ks] roundings per infoset level,
    [br_ops] in total *)
Definition br_D (g : game) : nat := depth (g_root g).
Definition br_N (g : game) : nat := tsz (g_root g).
Definition br_n (g : game) (me : bool) : nat := length (arities g me).
Definition br_Ks (g : game) (c : nat) : nat := Ks c (br_D g) (br_N g).
Definition br_ops (g : game) (me : bool) (c : nat) : nat :=
  (Kv c (br_D g) (br_N g) + br_n g me * br_Ks g c)%nat.

(** the decision nodes recorded by [collect] for player [me] *)
Definition br_nodes (g : game) (me : bool) (so : list (list float)) : list centry :=
  @collect FNum (g_chance g) so me (g_root g) 1%float [].

(** "no underflow of a recorded reach": every reach probability with which an own decision
    node is recorded is zero or a normal binary64 number *)
Definition NoUF (g : game) (me : bool) (so : list (list float)) : Prop :=
  Forall (fun en : centry => FR (snd (snd en)) = 0 \/ om1022 <= FR (snd (snd en)))
         (br_nodes g me so).

Lemma fin01_one : fin01 1%float.
Proof. split; [apply Ffin_one | rewrite FR_one; lra]. Qed.

Theorem br_value_float_gen :
  forall (g : game) (me : bool) (so : list (list float)) (B sl : R) (c : nat),
  TblOK (g_chance g) -> TblOK so -> RowSum c (g_chance g) -> RowSum c so ->
  1 <= B -> PayOK B (g_root g) -> 0 <= sl ->
  Forall (fun en : centry => Tgood sl (snd (snd en))) (br_nodes g me so) ->
  (Z.of_nat (br_N g) < 2 ^ 53)%Z ->
  G (S (br_n g me) * br_Ks g c) * (B + INR (S (br_n g me)) * sl) * INR (S (br_N g)) < Omax ->
  Ffin (@br_value FNum g me so) /\
  Rabs (FR (@br_value FNum g me so)) <= G (br_ops g me c) * (B + INR (br_n g me) * sl).
Proof.
  intros g me so B sl c Hc Hso Rc Rso HB Hpay Hsl Hgood HN Hglob.
  set (D := br_D g) in *. set (N := br_N g) in *. set (n := br_n g me) in *.
  change (G (S n * br_Ks g c) * (B + INR (S n) * sl)) with (Xs B sl c D N (S n)) in Hglob.
  rewrite br_value_FNum.
  fold (br_nodes g me so). set (nodes := br_nodes g me so) in *.
  assert (Hroot : Shape B D N (g_root g)).
  { split; [exact Hpay|]. split; apply Nat.le_refl. }
  destruct (collect_CInv (g_chance g) so me B D N Hc Hso (g_root g) 1%float [] 0%nat
              Hroot fin01_one (conj (Forall_nil _) (Nat.le_refl 0))) as [Hents Hlen].
  fold (br_nodes g me so) in Hents, Hlen. fold nodes in Hents, Hlen.
  rewrite Nat.add_0_l in Hlen. fold (br_N g) in Hlen. fold N in Hlen.
  assert (Hnodes : Forall (NEnt B sl D N) nodes).
  { rewrite Forall_forall in Hents, Hgood |- *. intros en Hen.
    destruct (Hents en Hen) as [H1 H2]. split; [exact H1|]. split; [exact H2 | exact (Hgood en Hen)]. }
  assert (Htbl := resolve_from_bound (g_chance g) so me B sl c D N Hc Hso Rc Rso HB Hsl HN
                    nodes (arities g me) n Hnodes Hlen Hglob n O (Nat.le_refl n)).
  fold (br_n g me) in Htbl |- *. fold n in Htbl |- *.
  set (tbl := @resolve_from FNum (g_chance g) so me nodes (arities g me) 0 n) in *.
  pose proof (conds B sl c D N HB Hsl n n (Nat.le_refl n) Hglob) as Hcd. cbv zeta in Hcd.
  destruct Hcd as [C1 _].
  assert (HBH : B <= Xs B sl c D N n) by (apply Xs_ge; assumption).
  assert (Hmu : forall j, ValB (Xs B sl c D N n) (nth j tbl 0%float)).
  { intros j. apply nth_Forall; [exact Htbl | apply ValB_zero; lra]. }
  destruct (kids_Vok (g_chance g) so me B c D N Hc Hso Rc Rso HN _ (Xs B sl c D N n)
              ltac:(lra) HBH Hmu C1 (g_root g) Hroot) as [Hf Hb].
  split; [exact Hf|]. apply Rle_trans with (1 := Hb).
  unfold br_ops, Xs. fold D N n. unfold br_Ks. fold D N.
  rewrite (G_add (Kv c D N) (n * Ks c D N)). right. ring.
Qed.

Lemma G_le_2 : forall k, INR k * bpow radix2 (-53) <= / 2 -> G k <= 2.
Proof. intros k Hk. exact (proj1 (G_small k Hk)). Qed.

Lemma bpow_1001_lt : 2 * bpow radix2 1000 < Omax.
Proof.
  unfold Omax. change 2 with (bpow radix2 1). rewrite <- bpow_plus. apply bpow_lt. reflexivity.
Qed.

(** *** 1. No NaN, no infinity -- without any hypothesis on underflow.

    The price of a reach probability that underflowed is an additive slack of one half per
    infoset level (a product [value * reach] with a subnormal [reach] can be off by half
    a unit of [reach]). *)
Theorem br_value_float_finite :
  forall (g : game) (me : bool) (so : list (list float)) (B : R) (c : nat),
  TblOK (g_chance g) -> TblOK so -> RowSum c (g_chance g) -> RowSum c so ->
  1 <= B -> PayOK B (g_root g) ->
  (Z.of_nat (br_N g) < 2 ^ 53)%Z ->
  INR (S (br_n g me) * br_Ks g c) * bpow radix2 (-53) <= / 2 ->
  (B + INR (S (br_n g me)) * / 2) * INR (S (br_N g)) <= bpow radix2 1000 ->
  Ffin (@br_value FNum g me so) /\
  Rabs (FR (@br_value FNum g me so))
    <= (1 + bpow radix2 (-53)) ^ br_ops g me c * (B + INR (br_n g me) * / 2) /\
  Rabs (FR (@br_value FNum g me so)) <= 2 * (B + INR (br_n g me) * / 2).
Proof.
  intros g me so B c Hc Hso Rc Rso HB Hpay HN Hk Hsz.
  assert (HG := G_le_2 _ Hk). assert (HG1 := G_ge_1 (S (br_n g me) * br_Ks g c)).
  assert (Hn0 := pos_INR (br_n g me)). assert (HN0 := pos_INR (S (br_N g))).
  assert (Hn1 := pos_INR (S (br_n g me))).
  assert (Hglob : G (S (br_n g me) * br_Ks g c) * (B + INR (S (br_n g me)) * / 2)
                  * INR (S (br_N g)) < Omax).
  { apply Rle_lt_trans with (2 := bpow_1001_lt). rewrite Rmult_assoc.
    apply Rmult_le_compat; try lra. apply Rmult_le_pos; lra. }
  assert (Hgood : Forall (fun en : centry => Tgood (/ 2) (snd (snd en))) (br_nodes g me so)).
  { apply Forall_forall. intros en _. right. right. lra. }
  destruct (br_value_float_gen g me so B (/ 2) c Hc Hso Rc Rso HB Hpay ltac:(lra) Hgood HN Hglob)
    as [Hf Hb].
  split; [exact Hf|]. split; [exact Hb|].
  apply Rle_trans with (1 := Hb). apply Rmult_le_compat_r; [lra|].
  apply Rle_trans with (2 := HG). apply G_mono. unfold br_ops, br_Ks, Ks. cbn [Nat.mul]. lia.
Qed.

(** *** 2. Boundedness: when no recorded reach underflowed, the best-response value is the
    largest payoff magnitude up to [br_ops] roundings. *)
Theorem br_value_float_bounded :
  forall (g : game) (me : bool) (so : list (list float)) (B : R) (c : nat),
  TblOK (g_chance g) -> TblOK so -> RowSum c (g_chance g) -> RowSum c so ->
  1 <= B -> PayOK B (g_root g) -> NoUF g me so ->
  (Z.of_nat (br_N g) < 2 ^ 53)%Z ->
  INR (S (br_n g me) * br_Ks g c) * bpow radix2 (-53) <= / 2 ->
  B * INR (S (br_N g)) <= bpow radix2 1000 ->
  Ffin (@br_value FNum g me so) /\
  Rabs (FR (@br_value FNum g me so)) <= (1 + bpow radix2 (-53)) ^ br_ops g me c * B /\
  Rabs (FR (@br_value FNum g me so)) <= 2 * B.
Proof.
  intros g me so B c Hc Hso Rc Rso HB Hpay Hnu HN Hk Hsz.
  assert (HG := G_le_2 _ Hk). assert (HG1 := G_ge_1 (S (br_n g me) * br_Ks g c)).
  assert (HN0 := pos_INR (S (br_N g))).
  assert (Hglob : G (S (br_n g me) * br_Ks g c) * (B + INR (S (br_n g me)) * 0)
                  * INR (S (br_N g)) < Omax).
  { apply Rle_lt_trans with (2 := bpow_1001_lt). rewrite Rmult_0_r, Rplus_0_r, Rmult_assoc.
    apply Rmult_le_compat; try lra. apply Rmult_le_pos; lra. }
  assert (Hgood : Forall (fun en : centry => Tgood 0 (snd (snd en))) (br_nodes g me so)).
  { apply Forall_impl with (2 := Hnu). intros en [H|H]; [left; exact H | right; left; exact H]. }
  destruct (br_value_float_gen g me so B 0 c Hc Hso Rc Rso HB Hpay (Rle_refl 0) Hgood HN Hglob)
    as [Hf Hb].
  rewrite Rmult_0_r, Rplus_0_r in Hb.
  split; [exact Hf|]. split; [exact Hb|].
  apply Rle_trans with (1 := Hb). apply Rmult_le_compat_r; [lra|].
  apply Rle_trans with (2 := HG). apply G_mono. unfold br_ops, br_Ks, Ks. cbn [Nat.mul]. lia.
Qed.

(** ** [info] ([regret::regret]): utility, both regrets and their maximum *)

Lemma fmax0_ok : forall a, Ffin a ->
  Ffin (f_max a 0) /\ 0 <= FR (f_max a 0) /\ FR a <= FR (f_max a 0) /\
  FR (f_max a 0) <= Rabs (FR a).
Proof.
  intros a Ha. destruct (fmax_fin a 0%float Ha Ffin_zero) as [Hf [H1 [H2 H3]]].
  rewrite FR_zero in H2. split; [exact Hf|]. split; [exact H2|]. split; [exact H1|].
  destruct H3 as [-> | ->]; [apply Rle_abs | rewrite FR_zero; apply Rabs_pos].
Qed.

Lemma bp1003_lt : bpow radix2 1003 < bpow radix2 emax.
Proof. apply bpow_lt. reflexivity. Qed.

Lemma comb_bound : forall x y : R,
  Rabs x <= 2 * bpow radix2 1000 -> Rabs y <= 4 * bpow radix2 1000 ->
  Rabs x + Rabs y <= bpow radix2 1003.
Proof.
  intros x y Hx Hy.
  replace (bpow radix2 1003) with (8 * bpow radix2 1000).
  - assert (0 < bpow radix2 1000) by apply bpow_gt_0. lra.
  - change 8 with (bpow radix2 3). rewrite <- bpow_plus. reflexivity.
Qed.

Lemma sub_small : forall b e : float, Ffin b -> Ffin e ->
  Rabs (FR b) <= 2 * bpow radix2 1000 -> Rabs (FR e) <= 4 * bpow radix2 1000 ->
  Ffin (b - e)%float /\ Rabs (FR (b - e)%float) <= bpow radix2 1003 /\
  FR (b - e)%float = rnd (FR b - FR e).
Proof.
  intros b e Hb He Bb Be.
  assert (Hr : Rabs (rnd (FR b - FR e)) <= bpow radix2 1003).
  { apply rnd_abs_le; [apply fmt_bp; lia|].
    apply Rle_trans with (2 := comb_bound _ _ Bb Be).
    unfold Rminus. apply Rle_trans with (1 := Rabs_triang _ _). rewrite Rabs_Ropp. lra. }
  destruct (sub_ok b e Hb He (Rle_lt_trans _ _ _ Hr bp1003_lt)) as [Hf Heq].
  split; [exact Hf|]. split; [rewrite Heq; exact Hr | exact Heq].
Qed.

Lemma add_small : forall b e : float, Ffin b -> Ffin e ->
  Rabs (FR b) <= 2 * bpow radix2 1000 -> Rabs (FR e) <= 4 * bpow radix2 1000 ->
  Ffin (b + e)%float /\ Rabs (FR (b + e)%float) <= bpow radix2 1003 /\
  FR (b + e)%float = rnd (FR b + FR e).
Proof.
  intros b e Hb He Bb Be.
  assert (Hr : Rabs (rnd (FR b + FR e)) <= bpow radix2 1003).
  { apply rnd_abs_le; [apply fmt_bp; lia|].
    apply Rle_trans with (2 := comb_bound _ _ Bb Be). apply Rabs_triang. }
  destruct (add_ok b e Hb He (Rle_lt_trans _ _ _ Hr bp1003_lt)) as [Hf Heq].
  split; [exact Hf|]. split; [rewrite Heq; exact Hr | exact Heq].
Qed.

Lemma k_ops_le_Ks : forall (g : game) (c : nat), (k_ops g <= br_Ks g c)%nat.
Proof.
  intros g c. unfold k_ops, br_Ks, Ks, Kv, br_D, br_N.
  assert (H := nleaves_le_tsz (g_root g)). lia.
Qed.

(** *** 1 (continued). The reported numbers are finite and the regrets non-negative. *)
Theorem info_float_finite :
  forall (g : game) (prof : list float * list float) (B : R) (c : nat),
  let s1 := split_by (fst prof) (arities g true) in
  let s2 := split_by (snd prof) (arities g false) in
  TblOK (g_chance g) -> Forall fin01 (fst prof) -> Forall fin01 (snd prof) ->
  RowSum c (g_chance g) -> RowSum c s1 -> RowSum c s2 ->
  1 <= B -> PayOK B (g_root g) ->
  (Z.of_nat (br_N g) < 2 ^ 53)%Z ->
  INR (S (br_n g true) * br_Ks g c) * bpow radix2 (-53) <= / 2 ->
  INR (S (br_n g false) * br_Ks g c) * bpow radix2 (-53) <= / 2 ->
  (B + INR (S (br_n g true)) * / 2) * INR (S (br_N g)) <= bpow radix2 1000 ->
  (B + INR (S (br_n g false)) * / 2) * INR (S (br_N g)) <= bpow radix2 1000 ->
  let I := @info FNum g prof in
  Ffin (si_util I) /\
  Ffin (si_reg1 I) /\ 0 <= FR (si_reg1 I) /\
  Ffin (si_reg2 I) /\ 0 <= FR (si_reg2 I) /\
  Ffin (@si_regret FNum I) /\ 0 <= FR (@si_regret FNum I) /\
  FR (si_reg1 I) <= FR (@si_regret FNum I) /\ FR (si_reg2 I) <= FR (@si_regret FNum I) /\
  FR (@si_regret FNum I) <= bpow radix2 1003.
Proof.
  intros g prof B c s1 s2 Hc Hp1 Hp2 Rc R1 R2 HB Hpay HN Hk1 Hk2 Hz1 Hz2 I.
  assert (H1 : TblOK s1) by (apply TblOK_split_by; exact Hp1).
  assert (H2 : TblOK s2) by (apply TblOK_split_by; exact Hp2).
  assert (Hu : 0 < bpow radix2 (-53)) by apply bpow_gt_0.
  assert (HN0 := pos_INR (br_N g)).
  assert (HSN : INR (S (br_N g)) = INR (br_N g) + 1) by apply S_INR.
  (* the utility *)
  assert (Hke : INR (k_ops g) * bpow radix2 (-53) <= / 2).
  { apply Rle_trans with (2 := Hk1). apply Rmult_le_compat_r; [lra|]. apply le_INR.
    apply Nat.le_trans with (1 := k_ops_le_Ks g c). cbn [Nat.mul]. lia. }
  assert (Hn1 := pos_INR (S (br_n g true))).
  assert (HLB : INR (n_leaves g) * B <= bpow radix2 1000).
  { apply Rle_trans with (2 := Hz1).
    assert (INR (n_leaves g) <= INR (br_N g)) by (apply le_INR; apply nleaves_le_tsz).
    assert (0 <= INR (n_leaves g)) by apply pos_INR.
    rewrite HSN. nra. }
  destruct (expected_float_bound g s1 s2 B Hc H1 H2 HB Hpay Hke HLB)
    as [Hef [_ [_ [Heb Hmass]]]].
  set (ev := @expected FNum g s1 s2) in *.
  assert (Heb' : Rabs (FR ev) <= 4 * bpow radix2 1000) by lra.
  (* the two best-response values *)
  destruct (br_value_float_finite g true s2 B c Hc H2 Rc R2 HB Hpay HN Hk1 Hz1) as [Hb1f [_ Hb1]].
  destruct (br_value_float_finite g false s1 B c Hc H1 Rc R1 HB Hpay HN Hk2 Hz2) as [Hb2f [_ Hb2]].
  set (b1 := @br_value FNum g true s2) in *. set (b2 := @br_value FNum g false s1) in *.
  assert (Hb1' : Rabs (FR b1) <= 2 * bpow radix2 1000).
  { apply Rle_trans with (1 := Hb1). apply Rmult_le_compat_l; [lra|].
    apply Rle_trans with (2 := Hz1). rewrite (S_INR (br_n g true)).
    assert (0 <= INR (br_n g true)) by apply pos_INR. nra. }
  assert (Hb2' : Rabs (FR b2) <= 2 * bpow radix2 1000).
  { apply Rle_trans with (1 := Hb2). apply Rmult_le_compat_l; [lra|].
    apply Rle_trans with (2 := Hz2). rewrite (S_INR (br_n g false)).
    assert (0 <= INR (br_n g false)) by apply pos_INR. nra. }
  destruct (sub_small b1 ev Hb1f Hef Hb1' Heb') as [Hd1f [Hd1b _]].
  destruct (add_small b2 ev Hb2f Hef Hb2' Heb') as [Hd2f [Hd2b _]].
  destruct (fmax0_ok _ Hd1f) as [Hr1f [Hr10 [_ Hr1b]]].
  destruct (fmax0_ok _ Hd2f) as [Hr2f [Hr20 [_ Hr2b]]].
  assert (EI : I = @mkSinfo FNum ev (f_max (b1 - ev) 0) (f_max (b2 + ev) 0)) by reflexivity.
  rewrite EI. unfold si_regret. cbn [si_util si_reg1 si_reg2].
  change (fmax FNum) with f_max.
  destruct (fmax_fin _ _ Hr1f Hr2f) as [Hmf [Hm1 [Hm2 Hm3]]].
  split; [exact Hef|]. split; [exact Hr1f|]. split; [exact Hr10|].
  split; [exact Hr2f|]. split; [exact Hr20|]. split; [exact Hmf|].
  split; [lra|]. split; [exact Hm1|]. split; [exact Hm2|].
  destruct Hm3 as [-> | ->]; lra.
Qed.

(** ** Boolean checkers for the hypotheses *)

(** every row has at most [c] entries, all [fin01], and its binary64 sum is at most one:
    then its exact sum is at most [(1 + 2^-53)^c] *)
Definition rowsumb (c : nat) (t : list (list float)) : bool :=
  forallb (fun r => forallb fin01b r && (length r <=? c)%nat && PrimFloat.leb (@sum FNum r) 1) t.

Lemma rowsumb_spec : forall c t, (Z.of_nat c < 2 ^ 53)%Z -> rowsumb c t = true -> RowSum c t.
Proof.
  intros c t Hc H. unfold rowsumb in H. rewrite forallb_forall in H.
  apply Forall_forall. intros r Hr. specialize (H r Hr).
  apply andb_true_iff in H. destruct H as [H H3].
  apply andb_true_iff in H. destruct H as [H1 H2].
  apply forallb_fin01b in H1. apply Nat.leb_le in H2.
  destruct (RS_le_G_sum r H1 ltac:(lia)) as [Hf [H0 HS]].
  rewrite (leb_fin _ _ Hf Ffin_one), FR_one in H3.
  destruct (Rle_bool_spec (FR (@sum FNum r)) 1) as [Hle|Hle]; [|discriminate].
  apply Rle_trans with (1 := HS).
  apply Rle_trans with (G (length r) * 1).
  - apply Rmult_le_compat_l; [left; apply G_pos | exact Hle].
  - rewrite Rmult_1_r. apply G_mono. exact H2.
Qed.

Definition noufb (g : game) (me : bool) (so : list (list float)) : bool :=
  forallb (fun en : centry =>
             f_is_fin (snd (snd en)) &&
             (PrimFloat.eqb (snd (snd en)) 0 || PrimFloat.leb (pow2 (-1022)) (snd (snd en))))
          (br_nodes g me so).

Lemma noufb_spec : forall g me so, noufb g me so = true -> NoUF g me so.
Proof.
  intros g me so H. unfold noufb in H. rewrite forallb_forall in H.
  apply Forall_forall. intros en Hen. specialize (H en Hen).
  apply andb_true_iff in H. destruct H as [Hf H].
  apply NormFloat.f_is_fin_true in Hf.
  apply orb_true_iff in H. destruct H as [H|H].
  - left. apply (eqb_zero_fin _ Hf). exact H.
  - right. destruct (pow2_IsPow2 (-1022) ltac:(lia)) as [Gf Gr].
    rewrite (leb_fin _ _ Gf Hf), Gr in H.
    destruct (Rle_bool_spec (bpow radix2 (-1022)) (FR (snd (snd en)))) as [Hr|Hr];
      [exact Hr | discriminate].
Qed.

Lemma small_ops : forall k : nat, (Z.of_nat k <= 2 ^ 52)%Z -> INR k * bpow radix2 (-53) <= / 2.
Proof.
  intros k Hk. apply Rle_trans with (bpow radix2 52 * bpow radix2 (-53)).
  - apply Rmult_le_compat_r; [apply bpow_ge_0|].
    rewrite INR_IZR_INZ. change (bpow radix2 52) with (IZR (2 ^ 52)). apply IZR_le. exact Hk.
  - rewrite <- bpow_plus. right. change (bpow radix2 (52 + -53)) with (/ IZR (Z.pow_pos 2 1)).
    f_equal.
Qed.

Lemma le_1024_bpow1000 : forall x, x <= 1024 -> x <= bpow radix2 1000.
Proof.
  intros x Hx. apply Rle_trans with (1 := Hx).
  apply Rle_trans with (bpow radix2 10); [|apply bpow_le; lia].
  right. change (bpow radix2 10) with (IZR (Z.pow_pos 2 10)). f_equal.
Qed.

(** ** 5. Example: the game [bx_g] of [ScaleFloatBR] (one infoset per player, a chance move) *)

Definition bx_s1 : list (list float) := split_by (fst bx_prof) (arities bx_g true).
Definition bx_s2 : list (list float) := split_by (snd bx_prof) (arities bx_g false).

Example bx_shape :
  br_D bx_g = 3%nat /\ br_N bx_g = 8%nat /\ br_n bx_g true = 1%nat /\
  br_Ks bx_g 2 = 38%nat /\ br_ops bx_g true 2 = 57%nat /\ br_ops bx_g false 2 = 57%nat.
Proof. repeat split; reflexivity. Qed.

(** what is computed: the best responses are 1.2375 and 0.1875 up to rounding *)
Example bx_br_values :
  @br_value FNum bx_g true bx_s2 = 0x1.3ccccccccccccp+0%float /\
  @br_value FNum bx_g false bx_s1 = 0x1.7fffffffffffcp-3%float.
Proof. split; vm_compute; reflexivity. Qed.

Lemma bx_hyps :
  TblOK (g_chance bx_g) /\ TblOK bx_s1 /\ TblOK bx_s2 /\
  RowSum 2 (g_chance bx_g) /\ RowSum 2 bx_s1 /\ RowSum 2 bx_s2 /\
  PayOK 3 (g_root bx_g) /\ NoUF bx_g true bx_s2 /\ NoUF bx_g false bx_s1.
Proof.
  destruct FR_three as [H3f H3].
  repeat split.
  - apply tblokb_spec; vm_compute; reflexivity.
  - apply tblokb_spec; vm_compute; reflexivity.
  - apply tblokb_spec; vm_compute; reflexivity.
  - apply rowsumb_spec; [lia | vm_compute; reflexivity].
  - apply rowsumb_spec; [lia | vm_compute; reflexivity].
  - apply rowsumb_spec; [lia | vm_compute; reflexivity].
  - rewrite <- H3. apply payokb_spec; [exact H3f | vm_compute; reflexivity].
  - apply noufb_spec; vm_compute; reflexivity.
  - apply noufb_spec; vm_compute; reflexivity.
Qed.

(** the hypotheses of [br_value_float_bounded] hold with [B = 3], [c = 2]: both best-response
    values are finite and of magnitude at most [(1 + 2^-53)^57 * 3] *)
Example bx_br_bounded :
  Ffin (@br_value FNum bx_g true bx_s2) /\
  Rabs (FR (@br_value FNum bx_g true bx_s2)) <= (1 + bpow radix2 (-53)) ^ 57 * 3 /\
  Ffin (@br_value FNum bx_g false bx_s1) /\
  Rabs (FR (@br_value FNum bx_g false bx_s1)) <= (1 + bpow radix2 (-53)) ^ 57 * 3.
Proof.
  destruct bx_hyps as [Hc [H1 [H2 [Rc [R1 [R2 [Hpay [N1 N2]]]]]]]].
  assert (HN : (Z.of_nat (br_N bx_g) < 2 ^ 53)%Z) by (vm_compute; reflexivity).
  assert (Hk : forall me, INR (S (br_n bx_g me) * br_Ks bx_g 2) * bpow radix2 (-53) <= / 2).
  { intros me. apply small_ops. destruct me; vm_compute; discriminate. }
  assert (Hsz : 3 * INR (S (br_N bx_g)) <= bpow radix2 1000).
  { apply le_1024_bpow1000. change (br_N bx_g) with 8%nat. cbn [INR]. lra. }
  destruct (br_value_float_bounded bx_g true bx_s2 3 2 Hc H2 Rc R2 ltac:(lra) Hpay N1 HN (Hk true) Hsz)
    as [F1 [B1 _]].
  destruct (br_value_float_bounded bx_g false bx_s1 3 2 Hc H1 Rc R1 ltac:(lra) Hpay N2 HN (Hk false) Hsz)
    as [F2 [B2 _]].
  change (br_ops bx_g true 2) with 57%nat in B1. change (br_ops bx_g false 2) with 57%nat in B2.
  repeat split; assumption.
Qed.

(** the reported numbers of [get_info]: finite, regrets non-negative *)
Example bx_info_finite :
  let I := @info FNum bx_g bx_prof in
  Ffin (si_util I) /\
  Ffin (si_reg1 I) /\ 0 <= FR (si_reg1 I) /\
  Ffin (si_reg2 I) /\ 0 <= FR (si_reg2 I) /\
  Ffin (@si_regret FNum I) /\ 0 <= FR (@si_regret FNum I).
Proof.
  destruct bx_hyps as [Hc [H1 [H2 [Rc [R1 [R2 [Hpay _]]]]]]].
  assert (Hp1 : Forall fin01 (fst bx_prof)) by (apply forallb_fin01b; vm_compute; reflexivity).
  assert (Hp2 : Forall fin01 (snd bx_prof)) by (apply forallb_fin01b; vm_compute; reflexivity).
  assert (HN : (Z.of_nat (br_N bx_g) < 2 ^ 53)%Z) by (vm_compute; reflexivity).
  assert (Hk : forall me, INR (S (br_n bx_g me) * br_Ks bx_g 2) * bpow radix2 (-53) <= / 2).
  { intros me. apply small_ops. destruct me; vm_compute; discriminate. }
  assert (Hsz : forall me, (3 + INR (S (br_n bx_g me)) * / 2) * INR (S (br_N bx_g))
                           <= bpow radix2 1000).
  { intros me. apply le_1024_bpow1000. change (br_N bx_g) with 8%nat.
    replace (br_n bx_g me) with 1%nat by (destruct me; reflexivity). cbn [INR]. lra. }
  destruct (info_float_finite bx_g bx_prof 3 2 Hc Hp1 Hp2 Rc R1 R2 ltac:(lra) Hpay HN
              (Hk true) (Hk false) (Hsz true) (Hsz false))
    as [A1 [A2 [A3 [A4 [A5 [A6 [A7 _]]]]]]].
  cbv zeta. repeat split; assumption.
Qed.

(** * Part B: forward error against the real-number model on the same data *)

(** ** Rounding of a normal number: relative error in both directions *)

Definition Nrm (x : R) : Prop := x = 0 \/ om1022 <= x.

Lemma rnd_normal : forall x, om1022 <= x ->
  rnd x <= (1 + u53) * x /\ x <= (1 + u53) * rnd x /\ om1022 <= rnd x.
Proof.
  intros x Hx. assert (Hw := om1022_pos).
  assert (H1 := relative_error_N_FLT radix2 (SpecFloat.emin prec emax) prec eq_refl
                  (fun n => negb (Z.even n)) x).
  assert (H2 := relative_error_N_FLT_round radix2 (SpecFloat.emin prec emax) prec eq_refl
                  (fun n => negb (Z.even n)) x).
  change (round radix2 (FLT_exp (SpecFloat.emin prec emax) prec)
            (Znearest (fun n => negb (Z.even n))) x) with (rnd x) in H1, H2.
  rewrite half_bpow in H1, H2.
  change (bpow radix2 (- prec + 1 - 1)) with u53 in H1, H2.
  assert (Hb : bpow radix2 (SpecFloat.emin prec emax + prec - 1) <= Rabs x).
  { rewrite Rabs_pos_eq by lra. exact Hx. }
  specialize (H1 Hb). specialize (H2 Hb).
  assert (Hr : om1022 <= rnd x) by (apply rnd_ge_fmt; [apply fmt_bp; lia | exact Hx]).
  rewrite (Rabs_pos_eq x) in H1 by lra. rewrite (Rabs_pos_eq (rnd x)) in H2 by lra.
  apply Rabs_le_inv in H1. apply Rabs_le_inv in H2.
  split; [lra|]. split; [lra | exact Hr].
Qed.

(** ** The exact value of a search, for real infoset values [muR] *)
Fixpoint vR (chance so : list (list float)) (me : bool) (muR : nat -> R) (n : node) : R :=
  match n with
  | Term x => if me then FR x else - FR x
  | Chance ci kids => wsum (vR chance so me muR) (@row FNum chance ci) kids
  | Player pl i kids =>
      if Bool.eqb pl me then muR i
      else wsum (vR chance so me muR) (@row FNum so i) kids
  end.

Lemma sV_vR : forall chance so me mu n,
  sV chance so me mu n = vR chance so me (fun i => FR (mu i)) n.
Proof.
  intros chance so me mu.
  induction n as [x|ci kids IH|pl i kids IH] using node_ind'.
  - reflexivity.
  - cbn [sV vR]. apply wsum_ext. exact IH.
  - cbn [sV vR]. destruct (Bool.eqb pl me); [reflexivity|]. apply wsum_ext. exact IH.
Qed.

Lemma wsum_sub : forall (v1 v2 : node -> R) ks ps,
  wsum (fun k => v1 k - v2 k) ps ks = wsum v1 ps ks - wsum v2 ps ks.
Proof.
  intros v1 v2. induction ks as [|k ks IH]; intros [|p ps]; cbn [wsum]; try ring.
  rewrite IH. ring.
Qed.

Lemma wsum_abs_le : forall (v : node -> R) (X : R) ks ps,
  0 <= X -> Forall (fun k => Rabs (v k) <= X) ks -> Forall fin01 ps ->
  Rabs (wsum v ps ks) <= RS ps * X.
Proof.
  intros v X ks ps HX Hk. revert ps.
  induction Hk as [|k ks Hk _ IH]; intros [|p ps] Hps; cbn [wsum];
    try (rewrite Rabs_R0; apply Rmult_le_pos; [apply RS_nonneg; exact Hps | exact HX]).
  inversion Hps as [|? ? [_ [Hp0 Hp1]] Hps']; subst.
  rewrite RS_cons, Rmult_plus_distr_r. specialize (IH ps Hps').
  apply Rle_trans with (1 := Rabs_triang _ _).
  rewrite Rabs_mult, (Rabs_pos_eq _ Hp0).
  assert (FR p * Rabs (v k) <= FR p * X) by (apply Rmult_le_compat_l; assumption). lra.
Qed.

Section RealSearch.
  Context (chance so : list (list float)) (me : bool) (c : nat).
  Context (Hchance : TblOK chance) (Hso : TblOK so).
  Context (Rchance : RowSum c chance) (Rso : RowSum c so).

  (** generic: a quantity [F n] defined like [vR], bounded at the leaves, is bounded by
      [G (c * sdep n) * X] *)
  Lemma vR_lip : forall (mu1 mu2 : nat -> R) (dl : R), 0 <= dl ->
    (forall i, Rabs (mu1 i - mu2 i) <= dl) ->
    forall n, Rabs (vR chance so me mu1 n - vR chance so me mu2 n) <= G (c * sdep me n) * dl.
  Proof.
    intros mu1 mu2 dl Hdl Hmu.
    assert (Hloop : forall kids ps,
              Forall (fun k => Rabs (vR chance so me mu1 k - vR chance so me mu2 k)
                               <= G (c * sdep me k) * dl) kids ->
              Forall fin01 ps -> RS ps <= G c ->
              Rabs (wsum (vR chance so me mu1) ps kids - wsum (vR chance so me mu2) ps kids)
              <= G (c * S (list_max (map (sdep me) kids))) * dl).
    { intros kids ps IH Hps HRS.
      set (X := G (c * list_max (map (sdep me) kids)) * dl).
      assert (HX : 0 <= X) by (unfold X; apply Rmult_le_pos; [left; apply G_pos | exact Hdl]).
      rewrite <- wsum_sub.
      apply Rle_trans with (RS ps * X).
      - apply wsum_abs_le; [exact HX | | exact Hps].
        rewrite Forall_forall in IH |- *. intros k Hk.
        apply Rle_trans with (1 := IH k Hk). unfold X.
        apply Rmult_le_compat_r; [exact Hdl|]. apply G_mono. apply Nat.mul_le_mono_l.
        apply list_max_In_le. apply in_map. exact Hk.
      - unfold X. rewrite Nat.mul_succ_r, Nat.add_comm, G_add, Rmult_assoc.
        apply Rmult_le_compat_r; [exact HX | exact HRS]. }
    induction n as [x|ci kids IH|pl i kids IH] using node_ind'.
    - cbn [vR sdep]. rewrite Nat.mul_0_r, G_0.
      replace ((if me then FR x else - FR x) - (if me then FR x else - FR x)) with 0 by ring.
      rewrite Rabs_R0. lra.
    - cbn [vR sdep].
      apply Hloop; [exact IH | apply row_fin01; exact Hchance | apply row_RS; exact Rchance].
    - cbn [vR sdep]. destruct (Bool.eqb pl me).
      + rewrite Nat.mul_0_r, G_0, Rmult_1_l. apply Hmu.
      + apply Hloop; [exact IH | apply row_fin01; exact Hso | apply row_RS; exact Rso].
  Qed.

  Lemma vR_bound : forall (muR : nat -> R) (H : R), 0 <= H ->
    (forall i, Rabs (muR i) <= H) ->
    forall n, PayOK H n -> Rabs (vR chance so me muR n) <= G (c * sdep me n) * H.
  Proof.
    intros muR H HH Hmu.
    assert (Hloop : forall kids ps,
              Forall (fun k => PayOK H k ->
                               Rabs (vR chance so me muR k) <= G (c * sdep me k) * H) kids ->
              Forall (PayOK H) kids -> Forall fin01 ps -> RS ps <= G c ->
              Rabs (wsum (vR chance so me muR) ps kids)
              <= G (c * S (list_max (map (sdep me) kids))) * H).
    { intros kids ps IH Hkids Hps HRS.
      set (X := G (c * list_max (map (sdep me) kids)) * H).
      assert (HX : 0 <= X) by (unfold X; apply Rmult_le_pos; [left; apply G_pos | exact HH]).
      apply Rle_trans with (RS ps * X).
      - apply wsum_abs_le; [exact HX | | exact Hps].
        rewrite Forall_forall in IH, Hkids |- *. intros k Hk.
        apply Rle_trans with (1 := IH k Hk (Hkids k Hk)). unfold X.
        apply Rmult_le_compat_r; [exact HH|]. apply G_mono. apply Nat.mul_le_mono_l.
        apply list_max_In_le. apply in_map. exact Hk.
      - unfold X. rewrite Nat.mul_succ_r, Nat.add_comm, G_add, Rmult_assoc.
        apply Rmult_le_compat_r; [exact HX | exact HRS]. }
    induction n as [x|ci kids IH|pl i kids IH] using node_ind'; intros Hpay.
    - inversion Hpay as [x' Hxf HxB| |]; subst. cbn [vR sdep].
      rewrite Nat.mul_0_r, G_0, Rmult_1_l. destruct me; [|rewrite Rabs_Ropp]; exact HxB.
    - inversion Hpay as [|ci' kids' Hkids|]; subst. cbn [vR sdep].
      apply Hloop; [exact IH | exact Hkids | apply row_fin01; exact Hchance | apply row_RS; exact Rchance].
    - inversion Hpay as [| |pl' i' kids' Hkids]; subst. cbn [vR sdep].
      destruct (Bool.eqb pl me).
      + rewrite Nat.mul_0_r, G_0, Rmult_1_l. apply Hmu.
      + apply Hloop; [exact IH | exact Hkids | apply row_fin01; exact Hso | apply row_RS; exact Rso].
  Qed.
End RealSearch.

(** ** The real-number model on the image of the game: [search] is affine *)
Module BR := BestResponseProofs.

Section RealModelSearch.
  Context (chance so : list (list float)) (me : bool) (muR : nat -> R).
  Context (Hchance : TblOK chance) (Hso : TblOK so).
  Local Notation srchR := (@search RNum (tblR chance) (tblR so) me muR).
  Local Notation v := (vR chance so me muR).

  Definition LinSp (k : node) : Prop :=
    forall rho A : R, srchR (nodeR k) rho A = A + rho * v k.

  Lemma lgo_c_lin : forall ks, Forall LinSp ks -> forall ps (rho A : R),
    BR.lgo_c srchR rho (map FR ps) (map nodeR ks) A = A + rho * wsum v ps ks.
  Proof.
    intros ks Hks. induction Hks as [|k ks Hk _ IH]; intros [|p ps] rho A;
      cbn [map BR.lgo_c wsum]; try lra.
    rewrite IH, Hk. lra.
  Qed.

  Lemma lgo_p_lin : forall ks, Forall LinSp ks -> forall ps (rho A : R), Forall fin01 ps ->
    BR.lgo_p srchR rho (map FR ps) (map nodeR ks) A = A + rho * wsum v ps ks.
  Proof.
    intros ks Hks. induction Hks as [|k ks Hk _ IH]; intros [|p ps] rho A Hps;
      cbn [map BR.lgo_p wsum]; try lra.
    inversion Hps as [|? ? [_ [Hp0 _]] Hps']; subst.
    destruct (Rltb 0 (FR p)) eqn:E.
    - rewrite IH by exact Hps'. rewrite Hk. lra.
    - apply Rltb_false in E. assert (Hz : FR p = 0) by lra.
      rewrite IH by exact Hps'. rewrite Hz. lra.
  Qed.

  Theorem searchR_lin : forall n, LinSp n.
  Proof.
    induction n as [x|ci kids IH|pl i kids IH] using node_ind'; intros rho A.
    - cbn [nodeR]. rewrite BR.search_Term. cbn [vR]. destruct me; lra.
    - cbn [nodeR]. rewrite BR.search_Chance, rowR_tblR. cbn [vR]. apply lgo_c_lin. exact IH.
    - cbn [nodeR]. rewrite BR.search_Player, rowR_tblR. cbn [vR].
      destruct (Bool.eqb pl me); [lra|].
      apply lgo_p_lin; [exact IH | apply row_fin01; exact Hso].
  Qed.
End RealModelSearch.

(** ** Reach probabilities without underflow: relative accuracy in both directions *)

Definition RelR (r : float) (rho : R) (j : nat) : Prop :=
  fin01 r /\ Nrm (FR r) /\ rho <= G j * FR r /\ FR r <= G j * rho.

Lemma RelR_one : RelR 1%float 1 0.
Proof.
  split; [apply fin01_one|]. rewrite FR_one, G_0. split; [|lra].
  right. apply om1022_le_1.
Qed.

Lemma RelR_nonneg : forall r rho j, RelR r rho j -> 0 <= rho.
Proof.
  intros r rho j [[_ [H0 _]] [_ [_ H2]]]. assert (HG := G_pos j).
  destruct (Rle_or_lt 0 rho) as [H|H]; [exact H|exfalso].
  assert (G j * rho < 0) by nra.
  lra.
Qed.

Lemma RelR_mono : forall r rho j j', RelR r rho j -> (j <= j')%nat -> RelR r rho j'.
Proof.
  intros r rho j j' Hr Hj. assert (H0 := RelR_nonneg _ _ _ Hr).
  destruct Hr as [Hf [Hn [H1 H2]]]. assert (Hr0 : 0 <= FR r) by (destruct Hf as [_ [H _]]; exact H).
  assert (HG := G_mono j j' Hj). assert (HG0 := G_pos j).
  split; [exact Hf|]. split; [exact Hn|]. split.
  - apply Rle_trans with (1 := H1). apply Rmult_le_compat_r; assumption.
  - apply Rle_trans with (1 := H2). apply Rmult_le_compat_r; assumption.
Qed.

Lemma RelR_step : forall p r rho j, fin01 p -> RelR r rho j -> Nrm (FR p * FR r) ->
  RelR (p * r)%float (FR p * rho) (S j).
Proof.
  intros p r rho j Hp Hr Hn. assert (Hrho := RelR_nonneg _ _ _ Hr).
  destruct Hr as [Hrf [_ [H1 H2]]].
  destruct (mul_reach p r Hp Hrf) as [Hf He].
  destruct Hp as [_ [Hp0 Hp1]]. assert (Hr0 : 0 <= FR r) by (destruct Hrf as [_ [H _]]; exact H).
  assert (Hu := u53_pos). assert (HG := G_ge_1 j).
  split; [exact Hf|]. rewrite He, G_S.
  destruct Hn as [Hz|Hn].
  - rewrite Hz, (rnd_fmt 0 fmt_0). split; [left; reflexivity|].
    assert (Hz' : FR p * rho = 0).
    { destruct (Rmult_integral _ _ Hz) as [E|E]; [rewrite E; ring|].
      rewrite E in H1. assert (rho = 0) by lra. subst rho. ring. }
    rewrite Hz'. lra.
  - destruct (rnd_normal _ Hn) as [R1 [R2 R3]].
    split; [right; exact R3|].
    assert (E1 : FR p * rho <= G j * (FR p * FR r)).
    { replace (G j * (FR p * FR r)) with (FR p * (G j * FR r)) by ring.
      apply Rmult_le_compat_l; assumption. }
    assert (E2 : FR p * FR r <= G j * (FR p * rho)).
    { replace (G j * (FR p * rho)) with (FR p * (G j * rho)) by ring.
      apply Rmult_le_compat_l; assumption. }
    assert (E3 : G j * (FR p * FR r) <= G j * ((1 + u53) * rnd (FR p * FR r)))
      by (apply Rmult_le_compat_l; lra).
    assert (E4 : (1 + u53) * (FR p * FR r) <= (1 + u53) * (G j * (FR p * rho)))
      by (apply Rmult_le_compat_l; lra).
    split; lra.
Qed.

(** ** "No underflow of a reach probability" along [collect] *)
Section CLoop.
  Context (P : node -> float -> Prop) (tst : float -> bool) (reach : float).
  Fixpoint cgo (ps : list float) (ks : list node) {struct ks} : Prop :=
    match ps, ks with
    | p :: ps', k :: ks' =>
        (if tst p then Nrm (FR p * FR reach) /\ P k (p * reach)%float else True) /\ cgo ps' ks'
    | _, _ => True
    end.
  Fixpoint cgo_me (ks : list node) : Prop :=
    match ks with
    | [] => True
    | k :: r => P k reach /\ cgo_me r
    end.
End CLoop.

(** every product [p * reach] formed while collecting the own decision nodes is zero or a
    normal number (exactly, before rounding) *)
Fixpoint CollOK (chance so : list (list float)) (me : bool) (n : node) (reach : float)
  {struct n} : Prop :=
  match n with
  | Term _ => True
  | Chance ci kids =>
      (fix go (ps : list float) (ks : list node) {struct ks} : Prop :=
         match ps, ks with
         | p :: ps', k :: ks' =>
             (Nrm (FR p * FR reach) /\ CollOK chance so me k (p * reach)%float) /\ go ps' ks'
         | _, _ => True
         end) (@row FNum chance ci) kids
  | Player pl i kids =>
      if Bool.eqb pl me then
        (fix go (ks : list node) : Prop :=
           match ks with
           | [] => True
           | k :: r => CollOK chance so me k reach /\ go r
           end) kids
      else
        (fix go (ps : list float) (ks : list node) {struct ks} : Prop :=
           match ps, ks with
           | p :: ps', k :: ks' =>
               (if PrimFloat.ltb 0 p
                then Nrm (FR p * FR reach) /\ CollOK chance so me k (p * reach)%float
                else True) /\ go ps' ks'
           | _, _ => True
           end) (@row FNum so i) kids
  end.

Lemma CollOK_Chance : forall chance so me ci kids r,
  CollOK chance so me (Chance ci kids) r =
  cgo (CollOK chance so me) (fun _ => true) r (@row FNum chance ci) kids.
Proof. reflexivity. Qed.

Lemma CollOK_Player : forall chance so me pl i kids r,
  CollOK chance so me (Player pl i kids) r =
  if Bool.eqb pl me then cgo_me (CollOK chance so me) r kids
  else cgo (CollOK chance so me) (fun p => PrimFloat.ltb 0 p) r (@row FNum so i) kids.
Proof. reflexivity. Qed.

Lemma ltb0_Rltb : forall p, Ffin p -> PrimFloat.ltb 0 p = Rltb 0 (FR p).
Proof.
  intros p Hp. rewrite (ltb_fin 0 p Ffin_zero Hp), FR_zero.
  destruct (Rlt_bool_spec 0 (FR p)) as [H|H].
  - symmetry. apply Rltb_true. exact H.
  - symmetry. apply Rltb_false. exact H.
Qed.

(** ** [collect] at binary64 against [collect] of the real model *)
Definition ERel (D : nat) (eF : centry) (eR : BR.centry) : Prop :=
  fst eF = fst eR /\ fst (snd eR) = map nodeR (fst (snd eF)) /\
  RelR (snd (snd eF)) (snd (snd eR)) D.

Section CollectRel.
  Context (chance so : list (list float)) (me : bool) (D : nat).
  Context (Hchance : TblOK chance) (Hso : TblOK so).
  Local Notation colF := (@collect FNum chance so me).
  Local Notation colR := (@collect RNum (tblR chance) (tblR so) me).
  Local Notation COK := (CollOK chance so me).

  Definition CRSp (k : node) : Prop := forall r rho j accF accR,
    COK k r -> RelR r rho j -> (j + depth k <= D)%nat ->
    Forall2 (ERel D) accF accR ->
    Forall2 (ERel D) (colF k r accF) (colR (nodeR k) rho accR).

  Lemma pgo_c_rel : forall ks, Forall CRSp ks ->
    forall ps r rho j accF accR, Forall fin01 ps ->
    cgo COK (fun _ => true) r ps ks -> RelR r rho j ->
    (S j + list_max (map depth ks) <= D)%nat ->
    Forall2 (ERel D) accF accR ->
    Forall2 (ERel D) (pgo colF (fun _ => true) r ps ks accF)
                     (BR.lgo_c colR rho (map FR ps) (map nodeR ks) accR).
  Proof.
    intros ks Hks. induction Hks as [|k ks Hk _ IH]; intros ps r rho j accF accR Hps Hok Hr Hd Hacc.
    - destruct ps; exact Hacc.
    - destruct ps as [|p ps]; [exact Hacc|].
      inversion Hps as [|? ? Hp Hps']; subst.
      change (list_max (map depth (k :: ks))) with (Nat.max (depth k) (list_max (map depth ks))) in Hd.
      cbn [cgo] in Hok. destruct Hok as [[Hn Hk1] Hok'].
      cbn [pgo map BR.lgo_c].
      apply (Hk (p * r)%float (FR p * rho) (S j)); [exact Hk1 | | lia |].
      + apply RelR_step; assumption.
      + apply (IH ps r rho j); try assumption. lia.
  Qed.

  Lemma pgo_p_rel : forall ks, Forall CRSp ks ->
    forall ps r rho j accF accR, Forall fin01 ps ->
    cgo COK (fun p => PrimFloat.ltb 0 p) r ps ks -> RelR r rho j ->
    (S j + list_max (map depth ks) <= D)%nat ->
    Forall2 (ERel D) accF accR ->
    Forall2 (ERel D) (pgo colF (fun p => PrimFloat.ltb 0 p) r ps ks accF)
                     (BR.lgo_p colR rho (map FR ps) (map nodeR ks) accR).
  Proof.
    intros ks Hks. induction Hks as [|k ks Hk _ IH]; intros ps r rho j accF accR Hps Hok Hr Hd Hacc.
    - destruct ps; exact Hacc.
    - destruct ps as [|p ps]; [exact Hacc|].
      inversion Hps as [|? ? Hp Hps']; subst.
      change (list_max (map depth (k :: ks))) with (Nat.max (depth k) (list_max (map depth ks))) in Hd.
      cbn [cgo] in Hok. destruct Hok as [Hk1 Hok'].
      cbn [pgo map BR.lgo_p]. rewrite <- (ltb0_Rltb p (proj1 Hp)).
      assert (Hrest := IH ps r rho j accF accR Hps' Hok' Hr ltac:(lia) Hacc).
      destruct (PrimFloat.ltb 0 p); [|exact Hrest].
      destruct Hk1 as [Hn Hk1].
      apply (Hk (p * r)%float (FR p * rho) (S j)); [exact Hk1 | | lia | exact Hrest].
      apply RelR_step; assumption.
  Qed.

  Lemma ogo_rel : forall ks, Forall CRSp ks ->
    forall r rho j accF accR,
    cgo_me COK r ks -> RelR r rho j ->
    (S j + list_max (map depth ks) <= D)%nat ->
    Forall2 (ERel D) accF accR ->
    Forall2 (ERel D) (ogo colF r ks accF) (BR.lgo_me colR rho (map nodeR ks) accR).
  Proof.
    intros ks Hks. induction Hks as [|k ks Hk _ IH]; intros r rho j accF accR Hok Hr Hd Hacc.
    - exact Hacc.
    - change (list_max (map depth (k :: ks))) with (Nat.max (depth k) (list_max (map depth ks))) in Hd.
      cbn [cgo_me] in Hok. destruct Hok as [Hk1 Hok'].
      cbn [ogo map BR.lgo_me].
      apply (Hk r rho j); [exact Hk1 | exact Hr | lia |].
      apply (IH r rho j); try assumption. lia.
  Qed.

  Theorem collect_rel : forall n, CRSp n.
  Proof.
    induction n as [x|ci kids IH|pl i kids IH] using node_ind'; intros r rho j accF accR Hok Hr Hd Hacc.
    - exact Hacc.
    - rewrite CollOK_Chance in Hok. cbn [nodeR depth] in Hd |- *.
      rewrite collect_Chance, BR.collect_Chance, rowR_tblR.
      apply (pgo_c_rel kids IH _ r rho j); try assumption; [apply row_fin01; exact Hchance | lia].
    - rewrite CollOK_Player in Hok. cbn [nodeR depth] in Hd |- *.
      rewrite collect_Player, BR.collect_Player, rowR_tblR.
      destruct (Bool.eqb pl me).
      + apply (ogo_rel kids IH r rho j); try assumption; [lia|].
        apply Forall2_app; [exact Hacc|]. constructor; [|constructor].
        split; [reflexivity|]. split; [reflexivity|]. cbn [fst snd].
        apply (RelR_mono r rho j D Hr). lia.
      + apply (pgo_p_rel kids IH _ r rho j); try assumption; [apply row_fin01; exact Hso | lia].
  Qed.
End CollectRel.

(** ** [resolve_one] at binary64 against [resolve_one] of the real model *)

(** one product [value * reach] *)
Lemma tprod_err : forall (vF vR r rho Hv : R) (mv j : nat),
  1 <= Hv -> Rabs vR <= Hv -> Rabs (vF - vR) <= (G mv - 1) * Hv ->
  0 <= r -> Nrm r -> rho <= G j * r -> r <= G j * rho ->
  Rabs (rnd (r * vF) - vR * rho) <= (G (mv + j + 2) - 1) * (Hv * rho).
Proof.
  intros vF vR r rho Hv mv j HHv HvR Hd Hr0 Hn H1 H2.
  assert (Hu := u53_pos). assert (HGj := G_ge_1 j). assert (HGm := G_ge_1 mv).
  assert (Hw := om1022_pos).
  assert (Hrho : 0 <= rho).
  { destruct (Rle_or_lt 0 rho) as [H|H]; [exact H|exfalso]. assert (G j * rho < 0) by nra. lra. }
  destruct Hn as [Hz|Hn].
  - subst r. assert (rho = 0) by lra. subst rho.
    rewrite Rmult_0_l, (rnd_fmt 0 fmt_0), !Rmult_0_r. replace (0 - 0) with 0 by ring.
    rewrite Rabs_R0. lra.
  - set (a := Hv * rho). set (b := Hv * r). set (d := G j * a).
    assert (Ha : 0 <= a) by (unfold a; apply Rmult_le_pos; lra).
    assert (Hb : 0 <= b) by (unfold b; apply Rmult_le_pos; lra).
    assert (Hbd : b <= d).
    { unfold b, d, a. replace (G j * (Hv * rho)) with (Hv * (G j * rho)) by ring.
      apply Rmult_le_compat_l; lra. }
    assert (HvF : Rabs vF <= G mv * Hv).
    { replace vF with (vR + (vF - vR)) by ring. apply Rle_trans with (1 := Rabs_triang _ _). lra. }
    set (cc := G mv * b).
    assert (Hx : Rabs (r * vF) <= cc).
    { rewrite Rabs_mult, (Rabs_pos_eq r Hr0). unfold cc, b.
      replace (G mv * (Hv * r)) with (r * (G mv * Hv)) by ring.
      apply Rmult_le_compat_l; assumption. }
    assert (Hbc : b <= cc).
    { unfold cc. rewrite <- (Rmult_1_l b) at 1. apply Rmult_le_compat_r; lra. }
    assert (Hom : om1022 <= b).
    { unfold b. apply Rle_trans with (1 := Hn). rewrite <- (Rmult_1_l r) at 1.
      apply Rmult_le_compat_r; lra. }
    assert (E1 : Rabs (rnd (r * vF) - r * vF) <= 2 * u53 * cc).
    { apply Rle_trans with (1 := mul_err _).
      apply Rle_trans with (u53 * (cc + cc)); [apply Rmult_le_compat_l; lra | lra]. }
    assert (E2 : Rabs (r * vF - r * vR) <= (G mv - 1) * b).
    { replace (r * vF - r * vR) with (r * (vF - vR)) by ring.
      rewrite Rabs_mult, (Rabs_pos_eq r Hr0). unfold b.
      replace ((G mv - 1) * (Hv * r)) with (r * ((G mv - 1) * Hv)) by ring.
      apply Rmult_le_compat_l; assumption. }
    assert (E3 : Rabs (r * vR - vR * rho) <= (G j - 1) * a).
    { replace (r * vR - vR * rho) with (vR * (r - rho)) by ring.
      rewrite Rabs_mult. unfold a.
      replace ((G j - 1) * (Hv * rho)) with (Hv * ((G j - 1) * rho)) by ring.
      apply Rmult_le_compat; try apply Rabs_pos; [exact HvR|].
      apply Rabs_le. split.
      - destruct (Rle_or_lt r rho) as [Hc|Hc]; [|nra].
        assert ((G j - 1) * r <= (G j - 1) * rho) by (apply Rmult_le_compat_l; lra). lra.
      - lra. }
    replace (rnd (r * vF) - vR * rho)
      with ((rnd (r * vF) - r * vF) + ((r * vF - r * vR) + (r * vR - vR * rho))) by ring.
    apply Rle_trans with (1 := Rabs_triang _ _).
    apply Rle_trans with (2 * u53 * cc + ((G mv - 1) * b + (G j - 1) * a)).
    { apply Rplus_le_compat; [exact E1|]. apply Rle_trans with (1 := Rabs_triang _ _). lra. }
    fold a.
    (* everything in terms of d = G j * a *)
    assert (Hcd : cc <= G mv * d) by (unfold cc; apply Rmult_le_compat_l; lra).
    assert (Hgb : (G mv - 1) * b <= (G mv - 1) * d) by (apply Rmult_le_compat_l; lra).
    assert (Hucc : 2 * u53 * cc <= 2 * u53 * (G mv * d)) by (apply Rmult_le_compat_l; lra).
    assert (HG2 : G (mv + j + 2) = G mv * G j * ((1 + u53) * (1 + u53))).
    { rewrite !G_add. f_equal. unfold G. simpl. ring. }
    rewrite HG2.
    assert (Hd0 : 0 <= G mv * d).
    { apply Rmult_le_pos; [lra|]. unfold d. apply Rmult_le_pos; lra. }
    assert (Huu : 0 <= u53 * u53 * (G mv * d)).
    { apply Rmult_le_pos; [|exact Hd0]. apply Rmult_le_pos; lra. }
    replace ((G mv * G j * ((1 + u53) * (1 + u53)) - 1) * a)
      with ((1 + 2 * u53 + u53 * u53) * (G mv * d) - a) by (unfold d; ring).
    replace ((G j - 1) * a) with (d - a) by (unfold d; ring).
    lra.
Qed.

(** the running maximum *)
Lemma Rmax_lip : forall a b A B e, Rabs (a - A) <= e -> Rabs (b - B) <= e ->
  Rabs (Rmax a b - Rmax A B) <= e.
Proof.
  intros a b A B e H1 H2. apply Rabs_le_inv in H1. apply Rabs_le_inv in H2. apply Rabs_le.
  unfold Rmax. destruct (Rle_dec a b); destruct (Rle_dec A B); lra.
Qed.

Lemma fmax_acc : forall a b A B M m, accOK a A M m -> accOK b B M m ->
  accOK (f_max a b) (Rmax A B) M m.
Proof.
  intros a b A B M m [Ha [HA Hea]] [Hb [HB Heb]].
  assert (E : FR (f_max a b) = Rmax (FR a) (FR b)).
  { unfold f_max. rewrite (ltb_fin a b Ha Hb), (f_is_nan_fin a Ha).
    unfold Rmax. destruct (Rlt_bool_spec (FR a) (FR b)); destruct (Rle_dec (FR a) (FR b)); lra. }
  split.
  - destruct (fmax_fin a b Ha Hb) as [Hf _]. exact Hf.
  - split.
    + unfold Rmax. destruct (Rle_dec A B); assumption.
    + rewrite E. apply Rmax_lip; assumption.
Qed.

Lemma fold_fmax_acc : forall M m l L, Forall2 (fun y Y => accOK y Y M m) l L ->
  forall x X, accOK x X M m -> accOK (fold_left f_max l x) (fold_left Rmax L X) M m.
Proof.
  intros M m l L H. induction H as [|y Y l L Hy _ IH]; intros x X Hx; [exact Hx|].
  cbn [fold_left]. apply IH. apply fmax_acc; assumption.
Qed.

(** the float sum of non-negative terms is at most [G n] times the exact sum *)
Lemma fsum_le_G : forall (l : list float) (acc : float) (n : Z),
  Forall fin01 l -> Ffin acc -> 0 <= FR acc <= IZR n -> (0 <= n)%Z ->
  (n + Z.of_nat (length l) < 2 ^ 53)%Z ->
  FR (fold_left PrimFloat.add l acc) <= G (length l) * (FR acc + RS l).
Proof.
  induction l as [|p l IH]; intros acc n Hl Ha Hb Hn0 Hn.
  - cbn [fold_left length]. rewrite RS_nil, G_0. lra.
  - inversion Hl as [|p' l' Hp Hl']; subst.
    change (length (p :: l)) with (S (length l)) in *. rewrite Nat2Z.inj_succ in Hn.
    cbn [fold_left]. rewrite RS_cons.
    destruct (add_step acc p n Ha Hp Hb Hn0 ltac:(lia)) as [Hf [He [H1 [H2 H3]]]].
    assert (Hb' : 0 <= FR (acc + p)%float <= IZR (n + 1)) by (split; [lra | exact H3]).
    specialize (IH (acc + p)%float (n + 1)%Z Hl' Hf Hb' ltac:(lia) ltac:(lia)).
    apply Rle_trans with (1 := IH).
    assert (Hadd := add_rel (FR acc) (FR p) (fmt_FR acc) (fmt_FR p)).
    rewrite <- He in Hadd. destruct Hp as [_ [Hp0 _]].
    rewrite (Rabs_pos_eq (FR acc + FR p)) in Hadd by lra.
    apply Rabs_le_inv in Hadd.
    assert (HG := G_pos (length l)). assert (HR := RS_nonneg l Hl').
    rewrite G_S.
    assert (FR (acc + p)%float + RS l <= (1 + u53) * (FR acc + (FR p + RS l))).
    { assert (Hu := u53_pos). assert (0 <= u53 * RS l) by (apply Rmult_le_pos; lra). lra. }
    replace ((1 + u53) * G (length l) * (FR acc + (FR p + RS l)))
      with (G (length l) * ((1 + u53) * (FR acc + (FR p + RS l)))) by ring.
    apply Rmult_le_compat_l; lra.
Qed.

(** the division by the total reach *)
Lemma div_err_rel : forall (m mR TF TR Hv : R) (a s : nat),
  1 <= Hv -> 0 < TF -> 0 < TR -> TR <= G s * TF -> TF <= G s * TR ->
  Rabs mR <= Hv * TR -> Rabs (m - mR) <= (G a - 1) * (Hv * TR) ->
  Rabs (mR / TR) <= Hv /\
  Rabs (rnd (m / TF) - mR / TR) <= (G (a + s + 2) - 1) * Hv /\
  Rabs (rnd (m / TF)) <= G (a + s + 2) * Hv.
Proof.
  intros m mR TF TR Hv a s HHv HTF HTR H1 H2 HmR Hm.
  assert (Hu := u53_pos). assert (HGa := G_ge_1 a). assert (HGs := G_ge_1 s).
  set (iF := / TF). assert (HiF : 0 < iF) by (apply Rinv_0_lt_compat; exact HTF).
  assert (EiF : TF * iF = 1) by (unfold iF; apply Rinv_r; lra).
  set (k := TR * iF).
  assert (Hk0 : 0 < k) by (unfold k; apply Rmult_lt_0_compat; assumption).
  assert (Hk1 : k <= G s).
  { unfold k. apply Rle_trans with (G s * TF * iF); [apply Rmult_le_compat_r; lra|].
    rewrite Rmult_assoc, EiF. lra. }
  assert (Hk2 : 1 <= G s * k).
  { unfold k. rewrite <- EiF, <- Rmult_assoc. apply Rmult_le_compat_r; lra. }
  set (Q := mR / TR).
  assert (EQ : mR = Q * TR) by (unfold Q; field; lra).
  assert (HQ : Rabs Q <= Hv).
  { unfold Q, Rdiv. rewrite Rabs_mult, Rabs_inv, (Rabs_pos_eq TR) by lra.
    apply Rmult_le_reg_r with TR; [exact HTR|].
    rewrite Rmult_assoc, Rinv_l, Rmult_1_r by lra. exact HmR. }
  set (e := m - mR).
  assert (Eq : m / TF = Q * k + e * iF).
  { unfold Rdiv. fold iF. unfold e, k. rewrite EQ. ring. }
  assert (He : Rabs (e * iF) <= (G a - 1) * Hv * G s).
  { rewrite Rabs_mult, (Rabs_pos_eq iF) by lra.
    apply Rle_trans with ((G a - 1) * (Hv * TR) * iF); [apply Rmult_le_compat_r; [lra | exact Hm]|].
    replace ((G a - 1) * (Hv * TR) * iF) with ((G a - 1) * Hv * k) by (unfold k; ring).
    apply Rmult_le_compat_l; [|exact Hk1]. apply Rmult_le_pos; lra. }
  assert (Hk : Rabs (k - 1) <= G s - 1).
  { apply Rabs_le. split; [|lra].
    destruct (Rle_or_lt 1 k) as [Hc|Hc]; [lra|].
    assert ((G s - 1) * k <= (G s - 1) * 1) by (apply Rmult_le_compat_l; lra). lra. }
  assert (HQk : Rabs (Q * (k - 1)) <= Hv * (G s - 1)).
  { rewrite Rabs_mult. apply Rmult_le_compat; try apply Rabs_pos; assumption. }
  assert (Hd : Rabs (m / TF - Q) <= (G (a + s) - 1) * Hv).
  { rewrite Eq. replace (Q * k + e * iF - Q) with (Q * (k - 1) + e * iF) by ring.
    apply Rle_trans with (1 := Rabs_triang _ _). rewrite G_add.
    replace ((G a * G s - 1) * Hv) with (Hv * (G s - 1) + (G a - 1) * Hv * G s) by ring. lra. }
  assert (Hq : Rabs (m / TF) <= G (a + s) * Hv).
  { replace (m / TF) with (Q + (m / TF - Q)) by ring.
    apply Rle_trans with (1 := Rabs_triang _ _). lra. }
  assert (Hr : Rabs (rnd (m / TF) - m / TF) <= 2 * u53 * (G (a + s) * Hv)).
  { apply Rle_trans with (1 := div_err _). rewrite <- u53_om1022.
    assert (HG := G_ge_1 (a + s)).
    assert (u53 * Rabs (m / TF) <= u53 * (G (a + s) * Hv)) by (apply Rmult_le_compat_l; lra).
    assert (om1022 <= G (a + s) * Hv).
    { apply Rle_trans with (1 := om1022_le_1). apply Rle_trans with (1 * 1); [lra|].
      apply Rmult_le_compat; lra. }
    assert (u53 * om1022 <= u53 * (G (a + s) * Hv)) by (apply Rmult_le_compat_l; lra).
    lra. }
  assert (HG2 : G (a + s + 2) = G (a + s) * ((1 + u53) * (1 + u53))).
  { rewrite (G_add (a + s) 2). f_equal. unfold G. simpl. ring. }
  assert (HGas := G_ge_1 (a + s)).
  assert (Hpos : 0 <= u53 * u53 * (G (a + s) * Hv)).
  { apply Rmult_le_pos; [apply Rmult_le_pos; lra | apply Rmult_le_pos; lra]. }
  assert (Hfin : Rabs (rnd (m / TF) - Q) <= (G (a + s + 2) - 1) * Hv).
  { replace (rnd (m / TF) - Q) with ((rnd (m / TF) - m / TF) + (m / TF - Q)) by ring.
    apply Rle_trans with (1 := Rabs_triang _ _). rewrite HG2.
    replace ((G (a + s) * ((1 + u53) * (1 + u53)) - 1) * Hv)
      with ((1 + 2 * u53 + u53 * u53) * (G (a + s) * Hv) - Hv) by ring.
    lra. }
  split; [exact HQ|]. split; [exact Hfin|].
  replace (rnd (m / TF)) with (Q + (rnd (m / TF) - Q)) by ring.
  apply Rle_trans with (1 := Rabs_triang _ _). lra.
Qed.

Lemma Forall2_filter_key : forall (D : nat) (i : nat) lF lR,
  Forall2 (ERel D) lF lR ->
  Forall2 (ERel D) (filter (fun en : centry => Nat.eqb (fst en) i) lF)
                   (filter (fun en : BR.centry => Nat.eqb (fst en) i) lR).
Proof.
  intros D i lF lR H. induction H as [|eF eR lF lR He _ IH]; [constructor|].
  cbn [filter]. destruct He as [Hk He]. rewrite <- Hk.
  destruct (Nat.eqb (fst eF) i); [constructor; [split; assumption | exact IH] | exact IH].
Qed.

Lemma Forall2_length' : forall (A B : Type) (P : A -> B -> Prop) l l',
  Forall2 P l l' -> length l = length l'.
Proof. intros A B P l l' H. induction H; cbn [length]; congruence. Qed.

Section ResolveRel.
  Context (chance so : list (list float)) (me : bool) (D N mv : nat).
  Context (muF : nat -> float) (muR : nat -> R) (Hv : R).
  Context (Hchance : TblOK chance) (Hso : TblOK so) (HHv : 1 <= Hv).
  Local Notation srchF := (@search FNum chance so me muF).
  Local Notation srchR := (@search RNum (tblR chance) (tblR so) me muR).
  Local Notation mt := (mv + D + 2)%nat.

  (** the value of a child, searched from reach one, in both models *)
  Definition VRel (kid : node) : Prop :=
    Ffin (srchF kid 1%float 0%float) /\
    Rabs (vR chance so me muR kid) <= Hv /\
    Rabs (FR (srchF kid 1%float 0%float) - vR chance so me muR kid) <= (G mv - 1) * Hv.

  Definition paystepR (pays : list R) (en : BR.centry) : list R :=
    let '(_, (kids, p)) := en in
    map (fun pk => fst pk + srchR (snd pk) 1 0 * p) (combine pays kids).

  Definition rhos (mine : list BR.centry) : list R :=
    map (fun en : BR.centry => snd (snd en)) mine.

  Lemma resolve_one_RNum : forall nodes arity i,
    @resolve_one RNum (tblR chance) (tblR so) me nodes arity muR i =
    match filter (fun en : BR.centry => Nat.eqb (fst en) i) nodes with
    | [] => 0
    | _ :: _ =>
        let mine := filter (fun en : BR.centry => Nat.eqb (fst en) i) nodes in
        match @reduce_max RNum (fold_left paystepR mine (@repeatT RNum 0 arity)) with
        | Some m => if Rltb 0 (@sum RNum (rhos mine)) then m / @sum RNum (rhos mine) else 0
        | None => 0
        end
    end.
  Proof. reflexivity. Qed.

  Lemma paystep_rel : forall m S0 paysF paysR eF eR,
    (mt <= m)%nat -> 0 <= S0 ->
    Forall2 (fun y Y => accOK y Y (Hv * S0) m) paysF paysR ->
    ERel D eF eR -> Forall VRel (fst (snd eF)) ->
    G (S m) * (Hv * (S0 + snd (snd eR))) < Omax ->
    Forall2 (fun y Y => accOK y Y (Hv * (S0 + snd (snd eR))) (S m))
            (paystep chance so me muF paysF eF) (paystepR paysR eR).
  Proof.
    intros m S0 paysF paysR [iF [kidsF r]] [iR [kidsR rho]] Hm HS0 Hpays [_ [Hk Hr]] HV Hov.
    cbn [fst snd] in *. subst kidsR. unfold paystep, paystepR.
    assert (Hrho := RelR_nonneg _ _ _ Hr). destruct Hr as [Hrf [Hn [H1 H2]]].
    assert (Hr0 : 0 <= FR r) by (destruct Hrf as [_ [H _]]; exact H).
    revert kidsF HV. induction Hpays as [|y Y paysF paysR Hy _ IH]; intros kidsF HV; [constructor|].
    destruct kidsF as [|kid kidsF]; [constructor|].
    inversion HV as [|? ? [HVf [HVb HVe]] HV']; subst.
    cbn [map combine fst snd]. constructor; [|apply IH; exact HV'].
    rewrite (searchR_lin chance so me muR Hso kid 1 0).
    replace (0 + 1 * vR chance so me muR kid) with (vR chance so me muR kid) by ring.
    set (V := srchF kid 1%float 0%float) in *. set (vr := vR chance so me muR kid) in *.
    destruct (mul_leaf' V r HVf Hrf) as [Htf Hte].
    assert (Ht : Rabs (FR (V * r)%float - vr * rho) <= (G m - 1) * (Hv * rho)).
    { rewrite Hte. apply Rle_trans with (1 := tprod_err (FR V) vr (FR r) rho Hv mv D HHv HVb HVe Hr0 Hn H1 H2).
      apply Rmult_le_compat_r; [apply Rmult_le_pos; lra|].
      assert (HG := G_mono (mv + D + 2) m Hm). lra. }
    destruct Hy as [Hyf [HYb Hye]].
    assert (Hg : 0 <= G m - 1) by (generalize (G_ge_1 m); lra).
    assert (Htau : Rabs (vr * rho) <= Hv * rho).
    { rewrite Rabs_mult, (Rabs_pos_eq rho Hrho). apply Rmult_le_compat_r; assumption. }
    assert (Hadd := add_rel (FR y) (FR (V * r)%float) (fmt_FR _) (fmt_FR _)).
    destruct (acc_step_R (FR y) Y (Hv * S0) (FR (V * r)%float) (vr * rho) (Hv * rho)
                (rnd (FR y + FR (V * r)%float)) (G m - 1) Hg HYb Htau Hye Ht Hadd)
      as [R1 [R2 R3]].
    replace ((1 + u53) * (1 + (G m - 1))) with (G (S m)) in R2, R3 by (rewrite G_S; ring).
    replace (Hv * S0 + Hv * rho) with (Hv * (S0 + rho)) in R1, R2, R3 by ring.
    assert (Hb : Rabs (rnd (FR y + FR (V * r)%float)) < bpow radix2 emax)
      by (apply Rle_lt_trans with (1 := R3); exact Hov).
    destruct (add_ok y (V * r)%float Hyf Htf Hb) as [Hf He].
    split; [exact Hf|]. rewrite He. split; assumption.
  Qed.

  Lemma rhos_nonneg : forall mineF mineR, Forall2 (ERel D) mineF mineR ->
    Forall (fun x => 0 <= x) (rhos mineR).
  Proof.
    intros mineF mineR H. induction H as [|eF eR lF lR [_ [_ Hr]] _ IH]; [constructor|].
    unfold rhos. cbn [map]. constructor; [exact (RelR_nonneg _ _ _ Hr) | exact IH].
  Qed.

  Lemma payfold_rel : forall mineF mineR, Forall2 (ERel D) mineF mineR ->
    Forall (fun en : centry => Forall VRel (fst (snd en))) mineF ->
    forall m S0 paysF paysR, (mt <= m)%nat -> 0 <= S0 ->
    Forall2 (fun y Y => accOK y Y (Hv * S0) m) paysF paysR ->
    G (m + length mineF) * (Hv * (S0 + Rsum (rhos mineR))) < Omax ->
    Forall2 (fun y Y => accOK y Y (Hv * (S0 + Rsum (rhos mineR))) (m + length mineF))
            (fold_left (paystep chance so me muF) mineF paysF)
            (fold_left paystepR mineR paysR).
  Proof.
    intros mineF mineR Hm. induction Hm as [|eF eR lF lR He Hl IH];
      intros HV m S0 paysF paysR Hmt HS0 Hpays Hov.
    - cbn [fold_left length rhos map Rsum]. rewrite Nat.add_0_r, Rplus_0_r. exact Hpays.
    - inversion HV as [|? ? HV1 HV']; subst.
      assert (Hrest := Rsum_nonneg _ (rhos_nonneg _ _ Hl)).
      assert (Hrho : 0 <= snd (snd eR)) by (destruct He as [_ [_ Hr]]; exact (RelR_nonneg _ _ _ Hr)).
      assert (ES : S0 + Rsum (rhos (eR :: lR)) = S0 + snd (snd eR) + Rsum (rhos lR)).
      { unfold rhos. cbn [map Rsum]. ring. }
      assert (EN : (m + length (eF :: lF) = S m + length lF)%nat) by (cbn [length]; lia).
      rewrite ES, EN in Hov |- *. cbn [fold_left].
      apply IH; [exact HV' | lia | lra | | exact Hov].
      apply paystep_rel; try assumption.
      apply (ov_mono (S m) (S m + length lF) _ (Hv * (S0 + snd (snd eR) + Rsum (rhos lR))));
        [lia | | exact Hov].
      split; [apply Rmult_le_pos; lra | apply Rmult_le_compat_l; lra].
  Qed.

  Lemma repeat_zero_acc : forall k m,
    Forall2 (fun y Y => accOK y Y (Hv * 0) m) (@repeatT FNum 0%float k) (@repeatT RNum 0 k).
  Proof.
    intros k m. induction k as [|k IH]; cbn [repeatT]; constructor; [|exact IH].
    split; [apply Ffin_zero|]. rewrite FR_zero, Rmult_0_r, Rabs_R0.
    split; [lra|]. replace (0 - 0) with 0 by ring. rewrite Rabs_R0. lra.
  Qed.

  (** exact sums of the reaches in both models *)
  Lemma reach_sums : forall mineF mineR, Forall2 (ERel D) mineF mineR ->
    Forall fin01 (reaches mineF) /\
    Rsum (rhos mineR) <= G D * RS (reaches mineF) /\
    RS (reaches mineF) <= G D * Rsum (rhos mineR).
  Proof.
    intros mineF mineR H. induction H as [|eF eR lF lR [_ [_ Hr]] _ [IH1 [IH2 IH3]]].
    - unfold reaches, rhos. cbn [map Rsum]. rewrite RS_nil. split; [constructor|]. lra.
    - destruct Hr as [Hf [_ [H1 H2]]].
      unfold reaches, rhos in *. cbn [map Rsum]. rewrite RS_cons.
      split; [constructor; assumption|]. rewrite !Rmult_plus_distr_l. lra.
  Qed.

  Theorem resolve_one_rel : forall nodesF nodesR arity i,
    Forall2 (ERel D) nodesF nodesR -> (length nodesF <= N)%nat -> (Z.of_nat N < 2 ^ 53)%Z ->
    Forall (fun en : centry => Forall VRel (fst (snd en))) nodesF ->
    G (mt + N) * (Hv * (G D * INR N)) < Omax ->
    G (mv + 2 * D + 2 * N + 4) * Hv < Omax ->
    accOK (@resolve_one FNum chance so me nodesF arity muF i)
          (@resolve_one RNum (tblR chance) (tblR so) me nodesR arity muR i)
          Hv (mv + 2 * D + 2 * N + 4).
  Proof.
    intros nodesF nodesR arity i Hnodes Hlen HN HV Hov1 Hov2.
    assert (Hzero : accOK 0%float 0 Hv (mv + 2 * D + 2 * N + 4)).
    { split; [apply Ffin_zero|]. rewrite FR_zero, Rabs_R0. split; [lra|].
      replace (0 - 0) with 0 by ring. rewrite Rabs_R0.
      apply Rmult_le_pos; [generalize (G_ge_1 (mv + 2 * D + 2 * N + 4)); lra | lra]. }
    rewrite resolve_one_FNum, resolve_one_RNum.
    assert (Hmine := Forall2_filter_key D i _ _ Hnodes).
    assert (HVm : Forall (fun en : centry => Forall VRel (fst (snd en))) (rmine nodesF i))
      by (apply Forall_filter; exact HV).
    assert (Hml : (length (rmine nodesF i) <= N)%nat).
    { apply Nat.le_trans with (2 := Hlen). apply filter_length_le. }
    change (filter (fun en : centry => Nat.eqb (fst en) i) nodesF) with (rmine nodesF i) in Hmine.
    set (mineF := rmine nodesF i) in *.
    set (mineR := filter (fun en : BR.centry => Nat.eqb (fst en) i) nodesR) in *.
    destruct Hmine as [|eF eR lF lR He Hl]; [exact Hzero|].
    assert (Hmine : Forall2 (ERel D) (eF :: lF) (eR :: lR)) by (constructor; assumption).
    set (mF := eF :: lF) in *. set (mR := eR :: lR) in *. cbv zeta.
    set (n := length mF) in *.
    destruct (reach_sums mF mR Hmine) as [Hre [HS1 HS2]].
    assert (Hlr : length (reaches mF) = n) by (unfold reaches; apply map_length).
    destruct (RS_le_G_sum (reaches mF) Hre ltac:(rewrite Hlr; lia)) as [HTf [HT0 HTS]].
    rewrite Hlr in HTS.
    assert (HTle : FR (@sum FNum (reaches mF)) <= G n * RS (reaches mF)).
    { rewrite sum_FNum.
      assert (H0 : 0 <= FR 0%float <= IZR 0) by (rewrite FR_zero; lra).
      assert (H := fsum_le_G (reaches mF) 0%float 0%Z Hre Ffin_zero H0 (Z.le_refl 0)
                     ltac:(rewrite Hlr; lia)).
      rewrite Hlr, FR_zero, Rplus_0_l in H. exact H. }
    set (TF := FR (@sum FNum (reaches mF))) in *.
    rewrite sum_Rsum. set (TR := Rsum (rhos mR)) in *.
    assert (HTR0 : 0 <= TR) by (apply Rsum_nonneg; apply (rhos_nonneg mF); exact Hmine).
    assert (HGD := G_ge_1 D). assert (HGn := G_ge_1 n).
    assert (HRS0 := RS_nonneg _ Hre).
    assert (HRSn : RS (reaches mF) <= INR n) by (rewrite <- Hlr; apply RS_le_len; exact Hre).
    assert (HnN : INR n <= INR N) by (apply le_INR; exact Hml).
    assert (Hn0 := pos_INR n).
    (* both totals within G (D + n) of each other *)
    assert (Hs1 : TR <= G (D + n) * TF).
    { rewrite G_add, Rmult_assoc. apply Rle_trans with (1 := HS1).
      apply Rmult_le_compat_l; lra. }
    assert (Hs2 : TF <= G (D + n) * TR).
    { rewrite G_add, (Rmult_comm (G D)), Rmult_assoc. apply Rle_trans with (1 := HTle).
      apply Rmult_le_compat_l; lra. }
    (* the payoffs *)
    assert (Hovf : G (mt + n) * (Hv * (0 + TR)) < Omax).
    { apply (ov_mono (mt + n) (mt + N) _ (Hv * (G D * INR N))); [lia | | exact Hov1].
      rewrite Rplus_0_l. split; [apply Rmult_le_pos; lra|].
      apply Rmult_le_compat_l; [lra|]. apply Rle_trans with (1 := HS1).
      apply Rmult_le_compat_l; lra. }
    assert (Hpay := payfold_rel mF mR Hmine HVm mt 0 _ _ (Nat.le_refl _) (Rle_refl 0)
                      (repeat_zero_acc arity mt) Hovf).
    fold n in Hpay. rewrite Rplus_0_l in Hpay. fold TR in Hpay.
    change (fold_left (paystep chance so me muF) mF (@repeatT FNum 0%float arity))
      with (payoffs chance so me muF mF arity) in Hpay.
    destruct Hpay as [|x X rest Rest Hx Hrest]; [exact Hzero|].
    cbn [reduce_max]. change (fmax FNum) with f_max. change (fmax RNum) with Rmax.
    assert (Hm := fold_fmax_acc _ _ _ _ Hrest x X Hx).
    set (m := fold_left f_max rest x) in *. set (mRv := fold_left Rmax Rest X) in *.
    change (rtotal mF) with (@sum FNum (reaches mF)).
    change (ltb FNum (zero FNum) (@sum FNum (reaches mF)))
      with (PrimFloat.ltb 0 (@sum FNum (reaches mF))).
    rewrite (ltb0_Rltb _ HTf). fold TF.
    destruct (Rltb 0 TF) eqn:EF; destruct (Rltb 0 TR) eqn:ER.
    - apply Rltb_true in EF. apply Rltb_true in ER.
      destruct Hm as [Hmf [HmR Hme]].
      destruct (div_err_rel (FR m) mRv TF TR Hv (mt + n) (D + n) HHv EF ER Hs1 Hs2 HmR Hme)
        as [Q1 [Q2 Q3]].
      assert (Ek : (mt + n + (D + n) + 2 <= mv + 2 * D + 2 * N + 4)%nat) by lia.
      assert (Hb : Rabs (rnd (FR m / TF)) < bpow radix2 emax).
      { apply Rle_lt_trans with (1 := Q3). apply Rle_lt_trans with (2 := Hov2).
        apply Rmult_le_compat_r; [lra | apply G_mono; exact Ek]. }
      change (div FNum m (@sum FNum (reaches mF))) with (m / @sum FNum (reaches mF))%float.
      destruct (div_ok m (@sum FNum (reaches mF)) Hmf ltac:(fold TF; lra) Hb) as [Hf Hdv].
      fold TF in Hdv.
      assert (Hacc : accOK (m / @sum FNum (reaches mF))%float (mRv / TR) Hv (mt + n + (D + n) + 2)).
      { split; [exact Hf|]. rewrite Hdv. split; assumption. }
      apply (accOK_weaken _ _ _ _ _ _ _ Hacc); [reflexivity | lra | exact Ek].
    - exfalso. apply Rltb_true in EF. apply Rltb_false in ER.
      assert (TR = 0) by lra. assert (G (D + n) * TR = 0) by (rewrite H; ring). lra.
    - exfalso. apply Rltb_false in EF. apply Rltb_true in ER.
      assert (TF = 0) by (unfold TF in *; lra). assert (G (D + n) * TF = 0) by (rewrite H; ring). lra.
    - exact Hzero.
  Qed.
End ResolveRel.

(** ** [resolve_from] and [br_value] against the real model *)

Lemma Forall2_nth : forall (A B : Type) (P : A -> B -> Prop) l l' d d' j,
  Forall2 P l l' -> P d d' -> P (nth j l d) (nth j l' d').
Proof.
  intros A B P l l' d d' j H Hd. revert j.
  induction H as [|x y l l' Hx _ IH]; intros [|j]; cbn [nth]; auto.
Qed.

Lemma Forall2_imp : forall (A B : Type) (P Q : A -> B -> Prop),
  (forall a b, P a b -> Q a b) -> forall l l', Forall2 P l l' -> Forall2 Q l l'.
Proof. intros A B P Q H l l' H2. induction H2; constructor; auto. Qed.

Lemma accOK_zero_any : forall H m, 0 <= H -> accOK 0%float 0 H m.
Proof.
  intros H m HH. split; [apply Ffin_zero|]. rewrite FR_zero, Rabs_R0. split; [exact HH|].
  replace (0 - 0) with 0 by ring. rewrite Rabs_R0.
  apply Rmult_le_pos; [generalize (G_ge_1 m); lra | exact HH].
Qed.

Section BRRel.
  Context (chance so : list (list float)) (me : bool) (B : R) (c D N : nat).
  Context (Hchance : TblOK chance) (Hso : TblOK so).
  Context (Rchance : RowSum c chance) (Rso : RowSum c so).
  Context (HB : 1 <= B) (HN : (Z.of_nat N < 2 ^ 53)%Z).

  (** per infoset level: [Ke] more roundings, the values grow by at most [G (c * D)] *)
  Definition Ke : nat := (3 * D + 3 * N + 6)%nat.
  Definition Hs (k : nat) : R := G (k * (c * D)) * B.
  Definition ms (k : nat) : nat := (k * Ke)%nat.

  Lemma Hs_S : forall k, Hs (S k) = G (c * D) * Hs k.
  Proof. intros k. unfold Hs. change (S k * (c * D))%nat with (c * D + k * (c * D))%nat.
         rewrite G_add. ring. Qed.

  Lemma Hs_ge : forall k, B <= Hs k.
  Proof.
    intros k. unfold Hs. generalize (G_ge_1 (k * (c * D))). intros HG.
    rewrite <- (Rmult_1_l B) at 1. apply Rmult_le_compat_r; lra.
  Qed.

  Lemma Hs_mono : forall k k', (k <= k')%nat -> Hs k <= Hs k'.
  Proof.
    intros k k' H. unfold Hs. apply Rmult_le_compat_r; [lra|]. apply G_mono.
    apply Nat.mul_le_mono_r. exact H.
  Qed.

  Definition Cap (k : nat) : R := G (ms k) * (Hs k * INR (S N)).

  Lemma Cap_mono : forall k k', (k <= k')%nat -> Cap k <= Cap k'.
  Proof.
    intros k k' H. unfold Cap. assert (H1 := Hs_mono k k' H). assert (H2 := Hs_ge k).
    assert (H3 : G (ms k) <= G (ms k')) by (apply G_mono; unfold ms; apply Nat.mul_le_mono_r; exact H).
    assert (H4 := G_ge_1 (ms k)). assert (H5 := pos_INR (S N)).
    apply Rmult_le_compat; try lra.
    - apply Rmult_le_pos; lra.
    - apply Rmult_le_compat_r; lra.
  Qed.

  (** from related infoset values to related subtree values *)
  Lemma VRel_from_mu : forall (muF : nat -> float) (muR : nat -> R) (k : nat),
    (forall j, accOK (muF j) (muR j) (Hs k) (ms k)) ->
    Cap (S k) < Omax ->
    forall kid, Shape B D N kid ->
    VRel chance so me (ms k + D + N + 2) muF muR (Hs (S k)) kid.
  Proof.
    intros muF muR k Hmu Hcap kid [Hp [Hd Hn]].
    set (H := Hs k) in *. set (m := ms k) in *.
    assert (HBH : B <= H) by apply Hs_ge. assert (HH : 1 <= H) by lra.
    assert (Hu := u53_pos). assert (HGm := G_ge_1 m). assert (HGcd := G_ge_1 (c * D)).
    set (Hf := G m * H).
    assert (HHf : H <= Hf).
    { unfold Hf. rewrite <- (Rmult_1_l H) at 1. apply Rmult_le_compat_r; lra. }
    assert (HmuF : forall i, Ffin (muF i) /\ Rabs (FR (muF i)) <= Hf).
    { intros i. split; [exact (proj1 (Hmu i)) | exact (accOK_bound _ _ _ _ (Hmu i))]. }
    assert (HNom : INR N * om1022 <= u53).
    { apply Rle_trans with (bpow radix2 53 * om1022).
      - apply Rmult_le_compat_r; [left; apply om1022_pos|].
        rewrite INR_IZR_INZ. change (bpow radix2 53) with (IZR (2 ^ 53)). apply IZR_le. lia.
      - unfold om1022, u53. rewrite <- bpow_plus. apply bpow_le. lia. }
    assert (HSN : 1 <= INR (S N)) by (rewrite S_INR; generalize (pos_INR N); lra).
    (* no overflow of the local search *)
    assert (EK : (ms (S k) = m + Ke)%nat) by (unfold m, ms; cbn [Nat.mul]; lia).
    assert (Hov : G (D + 1 + N) * (G (c * D + 1) * Hf) < Omax).
    { apply Rle_lt_trans with (2 := Hcap). unfold Cap. rewrite EK, Hs_S. fold H.
      unfold Hf. rewrite (G_add (c * D) 1).
      replace (G (D + 1 + N) * (G (c * D) * G 1 * (G m * H)))
        with (G (D + 1 + N) * G 1 * G m * (G (c * D) * H)) by ring.
      rewrite <- !G_add.
      apply Rmult_le_compat.
      - left; apply G_pos.
      - apply Rmult_le_pos; lra.
      - apply G_mono. unfold Ke. lia.
      - rewrite <- (Rmult_1_r (G (c * D) * H)) at 1. apply Rmult_le_compat_l; [|exact HSN].
        apply Rmult_le_pos; lra. }
    assert (Hacc := search_root_acc chance so muF Hf c Hchance Hso ltac:(lra) Rchance Rso HmuF me D N kid
                      (PayOK_mono B Hf kid ltac:(lra) Hp)
                      (Nat.le_trans _ _ _ (sdep_le_depth me kid) Hd)
                      (Nat.le_trans _ _ _ (snl_le_tsz me kid) Hn) HNom Hov).
    destruct Hacc as [HVf [_ HVe]].
    rewrite sV_vR in HVe.
    split; [exact HVf|].
    assert (Hsd : G (c * sdep me kid) <= G (c * D)).
    { apply G_mono, Nat.mul_le_mono_l. apply Nat.le_trans with (1 := sdep_le_depth me kid). exact Hd. }
    assert (HmuRb : forall i, Rabs (muR i) <= H) by (intros i; destruct (Hmu i) as [_ [Hb _]]; exact Hb).
    assert (Hb := vR_bound chance so me c Hchance Hso Rchance Rso muR H ltac:(lra) HmuRb kid
                    (PayOK_mono B H kid HBH Hp)).
    split.
    - rewrite Hs_S. fold H. apply Rle_trans with (1 := Hb). apply Rmult_le_compat_r; lra.
    - set (dl := (G m - 1) * H).
      assert (Hdl : 0 <= dl) by (unfold dl; apply Rmult_le_pos; lra).
      assert (Hmud : forall i, Rabs (FR (muF i) - muR i) <= dl).
      { intros i. destruct (Hmu i) as [_ [_ He]]. exact He. }
      assert (Hl := vR_lip chance so me c Hchance Hso Rchance Rso (fun i => FR (muF i)) muR dl Hdl Hmud kid).
      set (V := FR (@search FNum chance so me muF kid 1%float 0%float)) in *.
      set (v1 := vR chance so me (fun i => FR (muF i)) kid) in *.
      set (v2 := vR chance so me muR kid) in *.
      replace (V - v2) with ((V - v1) + (v1 - v2)) by ring.
      apply Rle_trans with (1 := Rabs_triang _ _).
      rewrite Hs_S. fold H.
      assert (E1 : Rabs (v1 - v2) <= G (c * D) * dl).
      { apply Rle_trans with (1 := Hl). apply Rmult_le_compat_r; assumption. }
      apply Rle_trans with ((G (D + 1 + N) - 1) * (G (c * D + 1) * Hf) + G (c * D) * dl);
        [lra|].
      unfold Hf, dl. rewrite (G_add (c * D) 1).
      replace (m + D + N + 2)%nat with ((D + 1 + N) + (m + 1))%nat by lia.
      rewrite (G_add (D + 1 + N) (m + 1)), (G_add m 1).
      set (a := G (D + 1 + N)). set (b := G m). set (g1 := G 1). set (cd := G (c * D)).
      assert (Ha : 1 <= a) by apply G_ge_1. assert (Hg1 : 1 <= g1) by apply G_ge_1.
      assert (Hb1 : 1 <= b) by apply G_ge_1. assert (Hcd1 : 1 <= cd) by apply G_ge_1.
      replace ((a - 1) * (cd * g1 * (b * H)) + cd * ((b - 1) * H))
        with (((a - 1) * (b * g1) + (b - 1)) * (cd * H)) by ring.
      apply Rmult_le_compat_r; [apply Rmult_le_pos; lra|].
      assert (b <= b * g1) by (rewrite <- (Rmult_1_r b) at 1; apply Rmult_le_compat_l; lra).
      replace (a * (b * g1) - 1) with ((a - 1) * (b * g1) + (b * g1 - 1)) by ring. lra.
  Qed.

  Theorem resolve_from_rel : forall nodesF nodesR ars nmax,
    Forall2 (ERel D) nodesF nodesR -> (length nodesF <= N)%nat ->
    Forall (CEnt B D N) nodesF ->
    Cap (S nmax) < Omax ->
    forall k i, (k <= nmax)%nat ->
    Forall2 (fun y Y => accOK y Y (Hs k) (ms k))
            (@resolve_from FNum chance so me nodesF ars i k)
            (@resolve_from RNum (tblR chance) (tblR so) me nodesR ars i k).
  Proof.
    intros nodesF nodesR ars nmax Hnodes Hlen Hents Hcap.
    induction k as [|k IH]; intros i Hk; [constructor|].
    rewrite resolve_from_S.
    change (@resolve_from RNum (tblR chance) (tblR so) me nodesR ars i (S k))
      with (@resolve_one RNum (tblR chance) (tblR so) me nodesR (nth i ars O)
              (fun j => nth (j - S i)
                          (@resolve_from RNum (tblR chance) (tblR so) me nodesR ars (S i) k) 0) i
            :: @resolve_from RNum (tblR chance) (tblR so) me nodesR ars (S i) k).
    assert (Hrest := IH (S i) ltac:(lia)).
    set (restF := @resolve_from FNum chance so me nodesF ars (S i) k) in *.
    set (restR := @resolve_from RNum (tblR chance) (tblR so) me nodesR ars (S i) k) in *.
    set (muF := fun j : nat => nth (j - S i) restF 0%float).
    set (muR := fun j : nat => nth (j - S i) restR 0).
    assert (HBk := Hs_ge k).
    assert (Hmu : forall j, accOK (muF j) (muR j) (Hs k) (ms k)).
    { intros j. unfold muF, muR.
      apply (Forall2_nth _ _ (fun y Y => accOK y Y (Hs k) (ms k))); [exact Hrest|].
      apply accOK_zero_any. lra. }
    assert (Hcapk : Cap (S k) < Omax).
    { apply Rle_lt_trans with (2 := Hcap). apply Cap_mono. lia. }
    assert (HV : Forall (fun en : centry =>
                   Forall (VRel chance so me (ms k + D + N + 2) muF muR (Hs (S k))) (fst (snd en)))
                   nodesF).
    { apply Forall_impl with (2 := Hents). intros en [_ Hkids].
      apply Forall_impl with (2 := Hkids). apply VRel_from_mu; assumption. }
    assert (HHv : 1 <= Hs (S k)) by (generalize (Hs_ge (S k)); lra).
    assert (EK : (ms (S k) = ms k + Ke)%nat) by (unfold ms; cbn [Nat.mul]; lia).
    assert (HSN : 1 <= INR (S N)) by (rewrite S_INR; generalize (pos_INR N); lra).
    assert (HNN : INR N <= INR (S N)) by (rewrite S_INR; lra).
    assert (HN0 := pos_INR N).
    assert (Hov1 : G (ms k + D + N + 2 + D + 2 + N) * (Hs (S k) * (G D * INR N)) < Omax).
    { apply Rle_lt_trans with (2 := Hcapk). unfold Cap. rewrite EK.
      replace (G (ms k + D + N + 2 + D + 2 + N) * (Hs (S k) * (G D * INR N)))
        with (G (ms k + D + N + 2 + D + 2 + N) * G D * (Hs (S k) * INR N)) by ring.
      rewrite <- G_add. apply Rmult_le_compat.
      - left; apply G_pos.
      - apply Rmult_le_pos; lra.
      - apply G_mono. unfold Ke. lia.
      - apply Rmult_le_compat_l; lra. }
    assert (Hov2 : G (ms k + D + N + 2 + 2 * D + 2 * N + 4) * Hs (S k) < Omax).
    { apply Rle_lt_trans with (2 := Hcapk). unfold Cap. rewrite EK.
      apply Rmult_le_compat.
      - left; apply G_pos.
      - lra.
      - apply G_mono. unfold Ke. lia.
      - rewrite <- (Rmult_1_r (Hs (S k))) at 1. apply Rmult_le_compat_l; lra. }
    assert (Hone := resolve_one_rel chance so me D N (ms k + D + N + 2) muF muR (Hs (S k)) Hso HHv
                      nodesF nodesR (nth i ars O) i Hnodes Hlen HN HV Hov1 Hov2).
    constructor.
    - apply (accOK_weaken _ _ _ _ _ _ _ Hone); [reflexivity | lra | rewrite EK; unfold Ke; lia].
    - apply (Forall2_imp _ _ (fun y Y => accOK y Y (Hs k) (ms k))); [|exact Hrest].
      intros y Y Hy. apply (accOK_weaken _ _ _ _ _ _ _ Hy);
        [reflexivity | rewrite Hs_S; generalize (G_ge_1 (c * D)); nra | rewrite EK; lia].
  Qed.
End BRRel.

(** ** 3. Forward error of [br_value] *)

Lemma br_value_RNum_image : forall (g : game) (me : bool) (so : list (list float)),
  @br_value RNum (gameR g) me (tblR so) =
  @search RNum (tblR (g_chance g)) (tblR so) me
    (fun j => nth j (@resolve_from RNum (tblR (g_chance g)) (tblR so) me
                       (@collect RNum (tblR (g_chance g)) (tblR so) me (nodeR (g_root g)) 1 [])
                       (arities g me) O (length (arities g me))) 0)
    (nodeR (g_root g)) 1 0.
Proof. intros g me so. destruct me; reflexivity. Qed.

(** roundings per infoset level, total number of roundings, and the mass against which the
    error is relative: [B] times the largest possible growth [(1+2^-53)^(c*D)] per level of
    rows that sum to slightly more than one *)
Definition br_Ke (g : game) : nat := Ke (br_D g) (br_N g).
Definition br_err_ops (g : game) (me : bool) : nat :=
  (br_n g me * br_Ke g + br_D g + br_N g + 2)%nat.
Definition br_mass (g : game) (me : bool) (B : R) (c : nat) : R :=
  G (S (br_n g me) * (c * br_D g)) * B.

Theorem br_value_float_error :
  forall (g : game) (me : bool) (so : list (list float)) (B : R) (c : nat),
  TblOK (g_chance g) -> TblOK so -> RowSum c (g_chance g) -> RowSum c so ->
  1 <= B -> PayOK B (g_root g) ->
  CollOK (g_chance g) so me (g_root g) 1%float ->
  (Z.of_nat (br_N g) < 2 ^ 53)%Z ->
  G (S (br_n g me) * br_Ke g) * (br_mass g me B c * INR (S (br_N g))) < Omax ->
  Ffin (@br_value FNum g me so) /\
  Rabs (FR (@br_value FNum g me so) - @br_value RNum (gameR g) me (tblR so))
    <= (G (br_err_ops g me) - 1) * br_mass g me B c /\
  Rabs (@br_value RNum (gameR g) me (tblR so)) <= br_mass g me B c.
Proof.
  intros g me so B c Hc Hso Rc Rso HB Hpay Hcoll HN Hcap.
  set (D := br_D g) in *. set (N := br_N g) in *. set (n := br_n g me) in *.
  change (G (S n * br_Ke g) * (br_mass g me B c * INR (S N))) with (Cap B c D N (S n)) in Hcap.
  rewrite br_value_FNum, br_value_RNum_image.
  set (nodesF := @collect FNum (g_chance g) so me (g_root g) 1%float []).
  set (nodesR := @collect RNum (tblR (g_chance g)) (tblR so) me (nodeR (g_root g)) 1 []).
  assert (Hroot : Shape B D N (g_root g)).
  { split; [exact Hpay|]. split; apply Nat.le_refl. }
  destruct (collect_CInv (g_chance g) so me B D N Hc Hso (g_root g) 1%float [] 0%nat
              Hroot fin01_one (conj (Forall_nil _) (Nat.le_refl 0))) as [Hents Hlen].
  fold nodesF in Hents, Hlen. rewrite Nat.add_0_l in Hlen. fold (br_N g) in Hlen. fold N in Hlen.
  assert (Hrel : Forall2 (ERel D) nodesF nodesR).
  { apply (collect_rel (g_chance g) so me D Hc Hso (g_root g) 1%float 1 0%nat [] []);
      [exact Hcoll | exact RelR_one | apply Nat.le_refl | constructor]. }
  assert (Htbl := resolve_from_rel (g_chance g) so me B c D N Hc Hso Rc Rso HB HN
                    nodesF nodesR (arities g me) n Hrel Hlen Hents Hcap n O (Nat.le_refl n)).
  fold (br_n g me) in Htbl |- *. fold n in Htbl |- *.
  set (tblF := @resolve_from FNum (g_chance g) so me nodesF (arities g me) 0 n) in *.
  set (tblRr := @resolve_from RNum (tblR (g_chance g)) (tblR so) me nodesR (arities g me) 0 n) in *.
  assert (HBn := Hs_ge B c D HB n).
  assert (Hmu : forall j, accOK (nth j tblF 0%float) (nth j tblRr 0) (Hs B c D n) (ms D N n)).
  { intros j. apply (Forall2_nth _ _ (fun y Y => accOK y Y (Hs B c D n) (ms D N n))); [exact Htbl|].
    apply accOK_zero_any. lra. }
  destruct (VRel_from_mu (g_chance g) so me B c D N Hc Hso Rc Rso HB HN _ _ n Hmu Hcap
              (g_root g) Hroot) as [Hf [Hb He]].
  rewrite (searchR_lin (g_chance g) so me _ Hso (g_root g) 1 0).
  replace (0 + 1 * vR (g_chance g) so me (fun j : nat => nth j tblRr 0) (g_root g))
    with (vR (g_chance g) so me (fun j : nat => nth j tblRr 0) (g_root g)) by ring.
  split; [exact Hf|]. split; [|exact Hb].
  exact He.
Qed.

(** the same with simple sufficient conditions and a linear bound *)
Theorem br_value_float_error_simple :
  forall (g : game) (me : bool) (so : list (list float)) (B : R) (c : nat),
  TblOK (g_chance g) -> TblOK so -> RowSum c (g_chance g) -> RowSum c so ->
  1 <= B -> PayOK B (g_root g) ->
  CollOK (g_chance g) so me (g_root g) 1%float ->
  (Z.of_nat (br_N g) < 2 ^ 53)%Z ->
  INR (S (br_n g me) * br_Ke g) * bpow radix2 (-53) <= / 2 ->
  INR (S (br_n g me) * (c * br_D g)) * bpow radix2 (-53) <= / 2 ->
  B * INR (S (br_N g)) <= bpow radix2 1000 ->
  Ffin (@br_value FNum g me so) /\
  Rabs (FR (@br_value FNum g me so) - @br_value RNum (gameR g) me (tblR so))
    <= ((1 + bpow radix2 (-53)) ^ br_err_ops g me - 1) * br_mass g me B c /\
  Rabs (FR (@br_value FNum g me so) - @br_value RNum (gameR g) me (tblR so))
    <= INR (br_err_ops g me) * bpow radix2 (-52) * (2 * B) /\
  Rabs (@br_value RNum (gameR g) me (tblR so)) <= 2 * B.
Proof.
  intros g me so B c Hc Hso Rc Rso HB Hpay Hcoll HN Hk1 Hk2 Hsz.
  assert (HG1 := G_le_2 _ Hk1). assert (HG2 := G_le_2 _ Hk2).
  assert (HN0 := pos_INR (S (br_N g))).
  assert (Hmass : br_mass g me B c <= 2 * B).
  { unfold br_mass. apply Rmult_le_compat_r; lra. }
  assert (Hmass0 : 0 <= br_mass g me B c).
  { unfold br_mass. apply Rmult_le_pos; [left; apply G_pos | lra]. }
  assert (Hcap : G (S (br_n g me) * br_Ke g) * (br_mass g me B c * INR (S (br_N g))) < Omax).
  { apply Rle_lt_trans with (2 * (2 * bpow radix2 1000)).
    - assert (HGp := G_ge_1 (S (br_n g me) * br_Ke g)).
      apply Rmult_le_compat; try lra; [apply Rmult_le_pos; lra|].
      apply Rle_trans with (2 * B * INR (S (br_N g))); [apply Rmult_le_compat_r; lra | lra].
    - unfold Omax. change 2 with (bpow radix2 1). rewrite <- !bpow_plus. apply bpow_lt. reflexivity. }
  destruct (br_value_float_error g me so B c Hc Hso Rc Rso HB Hpay Hcoll HN Hcap) as [Hf [He Hb]].
  split; [exact Hf|]. split; [exact He|]. split; [|lra].
  apply Rle_trans with (1 := He).
  assert (Hops : (br_err_ops g me <= S (br_n g me) * br_Ke g)%nat).
  { unfold br_err_ops, br_Ke, Ke. cbn [Nat.mul]. lia. }
  assert (Hk3 : INR (br_err_ops g me) * u53 <= / 2).
  { apply Rle_trans with (2 := Hk1). apply Rmult_le_compat_r; [apply bpow_ge_0 | apply le_INR; exact Hops]. }
  destruct (G_small _ Hk3) as [_ HGk].
  assert (HGe := G_ge_1 (br_err_ops g me)).
  apply Rle_trans with ((G (br_err_ops g me) - 1) * (2 * B)).
  - apply Rmult_le_compat_l; lra.
  - apply Rmult_le_compat_r; [lra|]. apply Rle_trans with (1 := HGk).
    replace (bpow radix2 (-52)) with (2 * u53); [lra|].
    unfold u53. change 2 with (bpow radix2 1). rewrite <- bpow_plus. reflexivity.
Qed.

(** ** 4. The reported regrets against the real model *)

Lemma tblR_split_by : forall (ars : list nat) (l : list float),
  tblR (split_by l ars) = split_by (map FR l) ars.
Proof.
  induction ars as [|n ars IH]; intros l; [reflexivity|].
  cbn [split_by]. unfold tblR in *. cbn [map]. rewrite IH, firstn_map, skipn_map. reflexivity.
Qed.

Lemma FR_fmax : forall a b, Ffin a -> Ffin b -> FR (f_max a b) = Rmax (FR a) (FR b).
Proof.
  intros a b Ha Hb. unfold f_max. rewrite (ltb_fin a b Ha Hb), (f_is_nan_fin a Ha).
  unfold Rmax. destruct (Rlt_bool_spec (FR a) (FR b)); destruct (Rle_dec (FR a) (FR b)); lra.
Qed.

(** the real-number model run on the real values of the same binary64 data *)
Definition infoR (g : game) (prof : list float * list float) : @sinfo RNum :=
  @info RNum (gameR g) (map FR (fst prof), map FR (snd prof)).

Lemma infoR_unfold : forall (g : game) (prof : list float * list float),
  let s1 := split_by (fst prof) (arities g true) in
  let s2 := split_by (snd prof) (arities g false) in
  let eR := @expected RNum (gameR g) (tblR s1) (tblR s2) in
  let b1R := @br_value RNum (gameR g) true (tblR s2) in
  let b2R := @br_value RNum (gameR g) false (tblR s1) in
  infoR g prof = @mkSinfo RNum eR (Rmax (b1R - eR) 0) (Rmax (b2R + eR) 0).
Proof.
  intros g prof s1 s2 eR b1R b2R. unfold infoR, info. cbn [fst snd].
  change (arities (gameR g) true) with (arities g true).
  change (arities (gameR g) false) with (arities g false).
  rewrite <- !tblR_split_by. reflexivity.
Qed.

(** one combination [b - e] or [b + e] followed by [max(., 0)] *)
Lemma reg_err : forall (x : float) (y Y dl Yb : R),
  Ffin x -> FR x = rnd y -> Rabs (rnd y - y) <= u53 * Rabs y ->
  Rabs (y - Y) <= dl -> Rabs Y <= Yb ->
  Rabs (FR (f_max x 0) - Rmax Y 0) <= dl + u53 * (Yb + dl).
Proof.
  intros x y Y dl Yb Hx He Hy Hd HY.
  rewrite (FR_fmax x 0%float Hx Ffin_zero), FR_zero.
  assert (Hu := u53_pos).
  assert (Hdl : 0 <= dl) by (apply Rle_trans with (2 := Hd); apply Rabs_pos).
  assert (HYb : 0 <= Yb) by (apply Rle_trans with (2 := HY); apply Rabs_pos).
  apply Rmax_lip.
  - rewrite He. replace (rnd y - Y) with ((rnd y - y) + (y - Y)) by ring.
    apply Rle_trans with (1 := Rabs_triang _ _).
    assert (Hyb : Rabs y <= Yb + dl).
    { replace y with (Y + (y - Y)) by ring. apply Rle_trans with (1 := Rabs_triang _ _). lra. }
    assert (u53 * Rabs y <= u53 * (Yb + dl)) by (apply Rmult_le_compat_l; lra).
    lra.
  - replace (0 - 0) with 0 by ring. rewrite Rabs_R0.
    assert (0 <= u53 * (Yb + dl)) by (apply Rmult_le_pos; lra). lra.
Qed.

(** one bound on the number of roundings per infoset level that covers all the analyses *)
Definition br_Kall (g : game) (c : nat) : nat :=
  (3 * br_D g + 3 * br_N g + c * br_D g + 6)%nat.

Lemma Kall_ge : forall g c,
  (br_Ks g c <= br_Kall g c)%nat /\ (br_Ke g <= br_Kall g c)%nat /\
  (c * br_D g <= br_Kall g c)%nat.
Proof. intros g c. unfold br_Ks, Ks, Kv, br_Ke, Ke, br_Kall. lia. Qed.

Lemma ops_le : forall (a b : nat), (a <= b)%nat ->
  INR b * bpow radix2 (-53) <= / 2 -> INR a * bpow radix2 (-53) <= / 2.
Proof.
  intros a b Hab Hb. apply Rle_trans with (2 := Hb).
  apply Rmult_le_compat_r; [apply bpow_ge_0 | apply le_INR; exact Hab].
Qed.

Theorem info_float_error :
  forall (g : game) (prof : list float * list float) (B : R) (c : nat),
  let s1 := split_by (fst prof) (arities g true) in
  let s2 := split_by (snd prof) (arities g false) in
  TblOK (g_chance g) -> Forall fin01 (fst prof) -> Forall fin01 (snd prof) ->
  RowSum c (g_chance g) -> RowSum c s1 -> RowSum c s2 ->
  1 <= B -> PayOK B (g_root g) ->
  CollOK (g_chance g) s2 true (g_root g) 1%float ->
  CollOK (g_chance g) s1 false (g_root g) 1%float ->
  (Z.of_nat (br_N g) < 2 ^ 53)%Z ->
  (forall me, INR (S (br_n g me) * br_Kall g c) * bpow radix2 (-53) <= / 2) ->
  (forall me, (B + INR (S (br_n g me)) * / 2) * INR (S (br_N g)) <= bpow radix2 1000) ->
  let I := @info FNum g prof in
  let IR := infoR g prof in
  let Eu := INR (k_ops g) * bpow radix2 (-52) * mass g s1 s2 B in
  let Eb1 := INR (br_err_ops g true) * bpow radix2 (-52) * (2 * B) in
  let Eb2 := INR (br_err_ops g false) * bpow radix2 (-52) * (2 * B) in
  let Yb := 2 * B + mass g s1 s2 B in
  let E1 := (Eb1 + Eu) + bpow radix2 (-53) * (Yb + (Eb1 + Eu)) in
  let E2 := (Eb2 + Eu) + bpow radix2 (-53) * (Yb + (Eb2 + Eu)) in
  Rabs (FR (si_util I) - si_util IR) <= Eu /\
  Rabs (FR (si_reg1 I) - si_reg1 IR) <= E1 /\
  Rabs (FR (si_reg2 I) - si_reg2 IR) <= E2 /\
  Rabs (FR (@si_regret FNum I) - @si_regret RNum IR) <= Rmax E1 E2.
Proof.
  intros g prof B c s1 s2 Hc Hp1 Hp2 Rc R1 R2 HB Hpay Hco1 Hco2 HN Hk Hz I IR Eu Eb1 Eb2 Yb E1 E2.
  assert (H1 : TblOK s1) by (apply TblOK_split_by; exact Hp1).
  assert (H2 : TblOK s2) by (apply TblOK_split_by; exact Hp2).
  destruct (Kall_ge g c) as [K1 [K2 K3]].
  assert (Hu : 0 < bpow radix2 (-53)) by apply bpow_gt_0.
  assert (HN0 := pos_INR (br_N g)).
  assert (HSN : INR (S (br_N g)) = INR (br_N g) + 1) by apply S_INR.
  assert (HKs : forall me, INR (S (br_n g me) * br_Ks g c) * bpow radix2 (-53) <= / 2).
  { intros me. apply (ops_le _ _ (Nat.mul_le_mono_l _ _ _ K1) (Hk me)). }
  assert (HKe : forall me, INR (S (br_n g me) * br_Ke g) * bpow radix2 (-53) <= / 2).
  { intros me. apply (ops_le _ _ (Nat.mul_le_mono_l _ _ _ K2) (Hk me)). }
  assert (HKc : forall me, INR (S (br_n g me) * (c * br_D g)) * bpow radix2 (-53) <= / 2).
  { intros me. apply (ops_le _ _ (Nat.mul_le_mono_l _ _ _ K3) (Hk me)). }
  assert (HBN : B * INR (S (br_N g)) <= bpow radix2 1000).
  { apply Rle_trans with (2 := Hz true). assert (0 <= INR (S (br_n g true))) by apply pos_INR.
    apply Rmult_le_compat_r; [apply pos_INR | lra]. }
  (* the utility *)
  assert (Hke : INR (k_ops g) * bpow radix2 (-53) <= / 2).
  { apply (ops_le _ _ (Nat.le_trans _ _ _ (k_ops_le_Ks g c) (Nat.le_add_r _ _)) (HKs true)). }
  assert (HLB : INR (n_leaves g) * B <= bpow radix2 1000).
  { apply Rle_trans with (2 := HBN).
    assert (INR (n_leaves g) <= INR (br_N g)) by (apply le_INR; apply nleaves_le_tsz).
    assert (0 <= INR (n_leaves g)) by apply pos_INR. rewrite HSN. nra. }
  destruct (expected_float_bound g s1 s2 B Hc H1 H2 HB Hpay Hke HLB)
    as [Hef [_ [Hee [Heb Hmass]]]].
  set (ev := @expected FNum g s1 s2) in *.
  assert (Heb' : Rabs (FR ev) <= 4 * bpow radix2 1000) by lra.
  rewrite (U_exact_model g s1 s2 H1 H2) in Hee.
  set (eR := @expected RNum (gameR g) (tblR s1) (tblR s2)) in *.
  assert (HeRb : Rabs eR <= mass g s1 s2 B).
  { unfold eR. rewrite <- (U_exact_model g s1 s2 H1 H2).
    apply Rle_trans with (S_abs g s1 s2); [apply uR_le_aR; assumption|].
    unfold mass. assert (0 <= INR (n_leaves g) * B * bpow radix2 (-1022)).
    { apply Rmult_le_pos; [apply Rmult_le_pos; [apply pos_INR | lra] | apply bpow_ge_0]. }
    lra. }
  (* the two best-response values *)
  destruct (br_value_float_finite g true s2 B c Hc H2 Rc R2 HB Hpay HN (HKs true) (Hz true))
    as [Hb1f [_ Hb1]].
  destruct (br_value_float_finite g false s1 B c Hc H1 Rc R1 HB Hpay HN (HKs false) (Hz false))
    as [Hb2f [_ Hb2]].
  destruct (br_value_float_error_simple g true s2 B c Hc H2 Rc R2 HB Hpay Hco1 HN
              (HKe true) (HKc true) HBN) as [_ [_ [He1 Hb1R]]].
  destruct (br_value_float_error_simple g false s1 B c Hc H1 Rc R1 HB Hpay Hco2 HN
              (HKe false) (HKc false) HBN) as [_ [_ [He2 Hb2R]]].
  set (b1 := @br_value FNum g true s2) in *. set (b2 := @br_value FNum g false s1) in *.
  set (b1R := @br_value RNum (gameR g) true (tblR s2)) in *.
  set (b2R := @br_value RNum (gameR g) false (tblR s1)) in *.
  assert (Hb1' : Rabs (FR b1) <= 2 * bpow radix2 1000).
  { apply Rle_trans with (1 := Hb1). apply Rmult_le_compat_l; [lra|].
    apply Rle_trans with (2 := Hz true). rewrite (S_INR (br_n g true)).
    assert (0 <= INR (br_n g true)) by apply pos_INR. nra. }
  assert (Hb2' : Rabs (FR b2) <= 2 * bpow radix2 1000).
  { apply Rle_trans with (1 := Hb2). apply Rmult_le_compat_l; [lra|].
    apply Rle_trans with (2 := Hz false). rewrite (S_INR (br_n g false)).
    assert (0 <= INR (br_n g false)) by apply pos_INR. nra. }
  destruct (sub_small b1 ev Hb1f Hef Hb1' Heb') as [Hd1f [_ Hd1e]].
  destruct (add_small b2 ev Hb2f Hef Hb2' Heb') as [Hd2f [_ Hd2e]].
  (* rounding of the combinations *)
  assert (Hr1 : Rabs (rnd (FR b1 - FR ev) - (FR b1 - FR ev)) <= u53 * Rabs (FR b1 - FR ev)).
  { unfold Rminus at 2 3 4. apply add_rel; [apply fmt_FR | apply fmt_opp, fmt_FR]. }
  assert (Hr2 : Rabs (rnd (FR b2 + FR ev) - (FR b2 + FR ev)) <= u53 * Rabs (FR b2 + FR ev)).
  { apply add_rel; apply fmt_FR. }
  assert (Hy1 : Rabs ((FR b1 - FR ev) - (b1R - eR)) <= Eb1 + Eu).
  { replace ((FR b1 - FR ev) - (b1R - eR)) with ((FR b1 - b1R) + - (FR ev - eR)) by ring.
    apply Rle_trans with (1 := Rabs_triang _ _). rewrite Rabs_Ropp. unfold Eb1, Eu. lra. }
  assert (Hy2 : Rabs ((FR b2 + FR ev) - (b2R + eR)) <= Eb2 + Eu).
  { replace ((FR b2 + FR ev) - (b2R + eR)) with ((FR b2 - b2R) + (FR ev - eR)) by ring.
    apply Rle_trans with (1 := Rabs_triang _ _). unfold Eb2, Eu. lra. }
  assert (HY1 : Rabs (b1R - eR) <= Yb).
  { unfold Rminus. apply Rle_trans with (1 := Rabs_triang _ _). rewrite Rabs_Ropp. unfold Yb. lra. }
  assert (HY2 : Rabs (b2R + eR) <= Yb).
  { apply Rle_trans with (1 := Rabs_triang _ _). unfold Yb. lra. }
  assert (G1 := reg_err _ _ _ _ _ Hd1f Hd1e Hr1 Hy1 HY1).
  assert (G2 := reg_err _ _ _ _ _ Hd2f Hd2e Hr2 Hy2 HY2).
  destruct (fmax0_ok _ Hd1f) as [Hr1f _]. destruct (fmax0_ok _ Hd2f) as [Hr2f _].
  assert (EI : I = @mkSinfo FNum ev (f_max (b1 - ev) 0) (f_max (b2 + ev) 0)) by reflexivity.
  assert (EIR : IR = @mkSinfo RNum eR (Rmax (b1R - eR) 0) (Rmax (b2R + eR) 0))
    by (apply infoR_unfold).
  rewrite EI, EIR. unfold si_regret. cbn [si_util si_reg1 si_reg2].
  change (fmax FNum) with f_max. change (fmax RNum) with Rmax.
  split; [exact Hee|]. split; [exact G1|]. split; [exact G2|].
  rewrite (FR_fmax _ _ Hr1f Hr2f).
  apply Rmax_lip.
  - apply Rle_trans with (1 := G1). apply Rmax_l.
  - apply Rle_trans with (1 := G2). apply Rmax_r.
Qed.

(** ** A boolean checker for [CollOK] (sufficient, with one binade of margin) *)

Definition nrmb (p r : float) : bool :=
  PrimFloat.eqb p 0 || PrimFloat.eqb r 0 || PrimFloat.leb (pow2 (-1021)) (p * r).

Lemma nrmb_spec : forall p r, fin01 p -> fin01 r -> nrmb p r = true -> Nrm (FR p * FR r).
Proof.
  intros p r Hp Hr H. unfold nrmb in H.
  apply orb_true_iff in H. destruct H as [H|H].
  - apply orb_true_iff in H. destruct H as [H|H].
    + apply (eqb_zero_fin p (proj1 Hp)) in H. left. rewrite H. ring.
    + apply (eqb_zero_fin r (proj1 Hr)) in H. left. rewrite H. ring.
  - destruct (mul_reach p r Hp Hr) as [[Hf _] He].
    destruct (pow2_IsPow2 (-1021) ltac:(lia)) as [Gf Gr].
    rewrite (leb_fin _ _ Gf Hf), Gr, He in H.
    destruct (Rle_bool_spec (bpow radix2 (-1021)) (rnd (FR p * FR r))) as [Hle|Hle]; [|discriminate].
    right. destruct (Rle_or_lt om1022 (FR p * FR r)) as [Hc|Hc]; [exact Hc|exfalso].
    assert (Hup : rnd (FR p * FR r) <= om1022).
    { apply rnd_le_fmt; [apply fmt_bp; lia | lra]. }
    assert (om1022 < bpow radix2 (-1021)) by (apply bpow_lt; lia). lra.
Qed.

Section CLoopB.
  Context (P : node -> float -> bool) (tst : float -> bool) (reach : float).
  Fixpoint cgob (ps : list float) (ks : list node) {struct ks} : bool :=
    match ps, ks with
    | p :: ps', k :: ks' =>
        (if tst p then nrmb p reach && P k (p * reach)%float else true) && cgob ps' ks'
    | _, _ => true
    end.
  Fixpoint cgob_me (ks : list node) : bool :=
    match ks with
    | [] => true
    | k :: r => P k reach && cgob_me r
    end.
End CLoopB.

Fixpoint collokb (chance so : list (list float)) (me : bool) (n : node) (reach : float)
  {struct n} : bool :=
  match n with
  | Term _ => true
  | Chance ci kids =>
      (fix go (ps : list float) (ks : list node) {struct ks} : bool :=
         match ps, ks with
         | p :: ps', k :: ks' =>
             (nrmb p reach && collokb chance so me k (p * reach)%float) && go ps' ks'
         | _, _ => true
         end) (@row FNum chance ci) kids
  | Player pl i kids =>
      if Bool.eqb pl me then
        (fix go (ks : list node) : bool :=
           match ks with
           | [] => true
           | k :: r => collokb chance so me k reach && go r
           end) kids
      else
        (fix go (ps : list float) (ks : list node) {struct ks} : bool :=
           match ps, ks with
           | p :: ps', k :: ks' =>
               (if PrimFloat.ltb 0 p
                then nrmb p reach && collokb chance so me k (p * reach)%float
                else true) && go ps' ks'
           | _, _ => true
           end) (@row FNum so i) kids
  end.

Lemma collokb_Chance : forall chance so me ci kids r,
  collokb chance so me (Chance ci kids) r =
  cgob (collokb chance so me) (fun _ => true) r (@row FNum chance ci) kids.
Proof. reflexivity. Qed.

Lemma collokb_Player : forall chance so me pl i kids r,
  collokb chance so me (Player pl i kids) r =
  if Bool.eqb pl me then cgob_me (collokb chance so me) r kids
  else cgob (collokb chance so me) (fun p => PrimFloat.ltb 0 p) r (@row FNum so i) kids.
Proof. reflexivity. Qed.

Section CollOKb.
  Context (chance so : list (list float)) (me : bool).
  Context (Hchance : TblOK chance) (Hso : TblOK so).

  Definition CBSp (k : node) : Prop :=
    forall r, fin01 r -> collokb chance so me k r = true -> CollOK chance so me k r.

  Lemma cgob_spec : forall (tst : float -> bool) ks, Forall CBSp ks ->
    forall ps r, Forall fin01 ps -> fin01 r ->
    cgob (collokb chance so me) tst r ps ks = true ->
    cgo (CollOK chance so me) tst r ps ks.
  Proof.
    intros tst ks Hks. induction Hks as [|k ks Hk _ IH]; intros ps r Hps Hr H.
    - destruct ps; exact I.
    - destruct ps as [|p ps]; [exact I|].
      inversion Hps as [|? ? Hp Hps']; subst.
      cbn [cgob] in H. apply andb_true_iff in H. destruct H as [H1 H2].
      cbn [cgo]. split; [|apply IH; assumption].
      destruct (tst p); [|exact I].
      apply andb_true_iff in H1. destruct H1 as [H1 H3].
      split; [apply nrmb_spec; assumption|].
      apply Hk; [exact (proj1 (mul_reach p r Hp Hr)) | exact H3].
  Qed.

  Lemma cgob_me_spec : forall ks, Forall CBSp ks ->
    forall r, fin01 r -> cgob_me (collokb chance so me) r ks = true ->
    cgo_me (CollOK chance so me) r ks.
  Proof.
    intros ks Hks. induction Hks as [|k ks Hk _ IH]; intros r Hr H; [exact I|].
    cbn [cgob_me] in H. apply andb_true_iff in H. destruct H as [H1 H2].
    cbn [cgo_me]. split; [apply Hk; assumption | apply IH; assumption].
  Qed.

  Theorem collokb_spec : forall n, CBSp n.
  Proof.
    induction n as [x|ci kids IH|pl i kids IH] using node_ind'; intros r Hr H.
    - exact I.
    - rewrite collokb_Chance in H. rewrite CollOK_Chance.
      apply cgob_spec; try assumption. apply row_fin01; exact Hchance.
    - rewrite collokb_Player in H. rewrite CollOK_Player.
      destruct (Bool.eqb pl me).
      + apply cgob_me_spec; assumption.
      + apply cgob_spec; try assumption. apply row_fin01; exact Hso.
  Qed.
End CollOKb.

(** ** 5 (continued). The error bounds on the example *)

Example bx_err_shape :
  br_Kall bx_g 2 = 45%nat /\ br_err_ops bx_g true = 52%nat /\ br_err_ops bx_g false = 52%nat /\
  k_ops bx_g = 9%nat.
Proof. repeat split; reflexivity. Qed.

Lemma bx_collok :
  CollOK (g_chance bx_g) bx_s2 true (g_root bx_g) 1%float /\
  CollOK (g_chance bx_g) bx_s1 false (g_root bx_g) 1%float.
Proof.
  destruct bx_hyps as [Hc [H1 [H2 _]]].
  split.
  - apply (collokb_spec _ _ _ Hc H2); [apply fin01_one | vm_compute; reflexivity].
  - apply (collokb_spec _ _ _ Hc H1); [apply fin01_one | vm_compute; reflexivity].
Qed.

Lemma INR_9 : INR 9 = 9. Proof. cbn [INR]. lra. Qed.
Lemma INR_52 : INR 52 = 52.
Proof. change 52%nat with (4 * 13)%nat. rewrite mult_INR. cbn [INR]. lra. Qed.

(** the binary64 utility, regrets and exploitability of the example against the real-number
    model run on the same data: within about [60 * 2^-52 * 7] of each other *)
Example bx_info_error :
  let I := @info FNum bx_g bx_prof in
  let IR := infoR bx_g bx_prof in
  let Eu := 9 * bpow radix2 (-52) * mass bx_g bx_s1 bx_s2 3 in
  let Eb := 52 * bpow radix2 (-52) * (2 * 3) in
  let E := (Eb + Eu) + bpow radix2 (-53) * (2 * 3 + mass bx_g bx_s1 bx_s2 3 + (Eb + Eu)) in
  Rabs (FR (si_util I) - si_util IR) <= Eu /\
  Rabs (FR (si_reg1 I) - si_reg1 IR) <= E /\
  Rabs (FR (si_reg2 I) - si_reg2 IR) <= E /\
  Rabs (FR (@si_regret FNum I) - @si_regret RNum IR) <= E.
Proof.
  destruct bx_hyps as [Hc [H1 [H2 [Rc [R1 [R2 [Hpay _]]]]]]].
  destruct bx_collok as [C1 C2].
  assert (Hp1 : Forall fin01 (fst bx_prof)) by (apply forallb_fin01b; vm_compute; reflexivity).
  assert (Hp2 : Forall fin01 (snd bx_prof)) by (apply forallb_fin01b; vm_compute; reflexivity).
  assert (HN : (Z.of_nat (br_N bx_g) < 2 ^ 53)%Z) by (vm_compute; reflexivity).
  assert (Hk : forall me, INR (S (br_n bx_g me) * br_Kall bx_g 2) * bpow radix2 (-53) <= / 2).
  { intros me. apply small_ops. destruct me; vm_compute; discriminate. }
  assert (Hsz : forall me, (3 + INR (S (br_n bx_g me)) * / 2) * INR (S (br_N bx_g))
                           <= bpow radix2 1000).
  { intros me. apply le_1024_bpow1000. change (br_N bx_g) with 8%nat.
    replace (br_n bx_g me) with 1%nat by (destruct me; reflexivity). cbn [INR]. lra. }
  pose proof (info_float_error bx_g bx_prof 3 2 Hc Hp1 Hp2 Rc R1 R2 ltac:(lra) Hpay C1 C2 HN Hk Hsz)
    as HE.
  cbv zeta in HE.
  change (k_ops bx_g) with 9%nat in HE.
  change (br_err_ops bx_g true) with 52%nat in HE.
  change (br_err_ops bx_g false) with 52%nat in HE.
  rewrite INR_9, INR_52 in HE.
  fold bx_s1 bx_s2 in HE.
  cbv zeta.
  destruct HE as [A1 [A2 [A3 A4]]].
  split; [exact A1|]. split; [exact A2|]. split; [exact A3|].
  apply Rle_trans with (1 := A4). unfold Rmax. destruct (Rle_dec _ _); lra.
Qed.
