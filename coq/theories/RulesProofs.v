(** * RulesProofs: the update rules of [RegretParams] ([solve/data.rs]) mean what
    the documentation says (property C08): discount factors, average-strategy
    weights, regret matching and its fall-backs, the order of operations in
    [advance], and the named presets.  All statements are about the real-number
    instance. *)
From Coq Require Import Reals List NArith Bool Arith Lra Lia.
From Cfr.theories Require Import Num RInst Tree Strat Eval Solve.
Import ListNotations.
Open Scope R_scope.

Local Notation Rexp := Rtrigo_def.exp.
Local Notation Rln := Rpower.ln.

(** ** 4. [gen_discount] *)
Lemma ln_add_exp_spec (a b : R) : Rexp (@ln_add_exp RNum a b) = Rexp a + Rexp b.
Proof.
  unfold ln_add_exp, two. cbn [eqb is_nan ltb add sub neg zero one exp ln RNum].
  destruct (Reqb a b) eqn:E.
  - apply Reqb_true in E; subst b. rewrite exp_plus, exp_ln by lra. lra.
  - destruct (Rltb 0 (a - b)) eqn:E2.
    + rewrite exp_plus, exp_ln by (pose proof (exp_pos (- (a - b))); lra).
      rewrite Rmult_plus_distr_l, <- exp_plus. replace (a + - (a - b)) with b by lra. lra.
    + rewrite exp_plus, exp_ln by (pose proof (exp_pos (a - b)); lra).
      rewrite Rmult_plus_distr_l, <- exp_plus. replace (b + (a - b)) with a by lra. lra.
Qed.

(** holds for every [t]; for [t >= 1] the base [INR t] is positive and [Rpower] is
    the genuine real power *)
Lemma gen_discount_fin (t : N) (a : R) :
  @gen_discount RNum t (@Fin RNum a) =
  Rpower (INR (N.to_nat t)) a / (Rpower (INR (N.to_nat t)) a + 1).
Proof.
  unfold gen_discount, two. cbn [eqb zero one add div mul sub exp ln of_N RNum].
  destruct (Reqb a 0) eqn:E.
  - apply Reqb_true in E; subst a. unfold Rpower. rewrite Rmult_0_l, exp_0. reflexivity.
  - unfold Rpower. set (x := a * Rln (INR (N.to_nat t))).
    unfold Rminus. rewrite exp_plus, exp_Ropp, ln_add_exp_spec, exp_0. reflexivity.
Qed.

Lemma gen_discount_inf (t : N) :
  @gen_discount RNum t NegInf = 0 /\ @gen_discount RNum t PosInf = 1.
Proof. split; reflexivity. Qed.

Lemma INR_N_pos (t : N) : (1 <= t)%N -> 0 < INR (N.to_nat t).
Proof. intros H. apply lt_0_INR. lia. Qed.

Lemma gen_discount_range (t : N) (d : @ext RNum) : 0 <= @gen_discount RNum t d <= 1.
Proof.
  destruct d as [|a|].
  - cbn [gen_discount zero RNum]. lra.
  - rewrite gen_discount_fin. unfold Rpower. set (E := Rexp _).
    assert (0 < E) by apply exp_pos.
    split.
    + unfold Rdiv. apply Rmult_le_pos; [lra|]. left. apply Rinv_0_lt_compat; lra.
    + apply (Rmult_le_reg_r (E + 1)); [lra|]. unfold Rdiv. rewrite Rmult_assoc, Rinv_l by lra. lra.
  - cbn [gen_discount one RNum]. lra.
Qed.

(** natural exponents: [Rpower] is the ordinary power *)
Lemma gen_discount_nat (t : N) (n : nat) :
  (1 <= t)%N ->
  @gen_discount RNum t (@Fin RNum (INR n)) = INR (N.to_nat t) ^ n / (INR (N.to_nat t) ^ n + 1).
Proof.
  intros Ht. rewrite gen_discount_fin. rewrite Rpower_pow by now apply INR_N_pos. reflexivity.
Qed.

(** ** 5. [discount_cum_regret] *)
Lemma discount_cum_regret_spec (p : @params RNum) (t : N) (regs : list R) :
  @discount_cum_regret RNum p t regs =
  map (fun r => if Rlt_dec 0 r then r * @gen_discount RNum t (a_pos p)
                else if Rlt_dec r 0 then r * @gen_discount RNum t (a_neg p)
                     else r) regs.
Proof.
  unfold discount_cum_regret. cbn [ltb zero mul RNum]. apply map_ext. intros r. unfold Rltb.
  destruct (Rlt_dec 0 r); [reflexivity|]. destruct (Rlt_dec r 0); reflexivity.
Qed.

(** ** 6. [discount_average_strat] *)
Lemma discount_average_strat_pos (p : @params RNum) (t : N) (g : R) (avg : list R) :
  a_strat p = @Fin RNum g -> 0 < g -> (1 <= t)%N ->
  @discount_average_strat RNum p t avg =
  map (fun a => a * Rpower (INR (N.to_nat t) / (INR (N.to_nat t) + 1)) g) avg.
Proof.
  intros Hp Hg Ht. unfold discount_average_strat. rewrite Hp.
  cbn [ltb zero one add div mul pow of_N RNum].
  rewrite (proj2 (Rltb_true 0 g) Hg). apply map_ext. intros a. f_equal.
  unfold Rpowf. destruct (Req_EM_T g 0) as [->|_]; [lra|].
  pose proof (INR_N_pos t Ht) as Hpos.
  destruct (Rlt_dec 0 _) as [|Hn]; [reflexivity|]. exfalso; apply Hn.
  unfold Rdiv. apply Rmult_lt_0_compat; [lra|]. apply Rinv_0_lt_compat; lra.
Qed.

(** iteration number 0 (player one's first advance in the external method): everything is forgotten *)
Lemma discount_average_strat_pos_0 (p : @params RNum) (g : R) (avg : list R) :
  a_strat p = @Fin RNum g -> 0 < g ->
  @discount_average_strat RNum p 0%N avg = map (fun a => a * 0) avg.
Proof.
  intros Hp Hg. unfold discount_average_strat. rewrite Hp.
  cbn [ltb zero one add div mul pow of_N RNum].
  rewrite (proj2 (Rltb_true 0 g) Hg). apply map_ext. intros a. f_equal.
  unfold Rpowf. destruct (Req_EM_T g 0) as [->|_]; [lra|].
  change (N.to_nat 0) with 0%nat. cbn [INR].
  destruct (Rlt_dec 0 _) as [Hn|]; [|reflexivity]. exfalso. unfold Rdiv in Hn. rewrite Rmult_0_l in Hn. lra.
Qed.

Lemma discount_average_strat_nonpos (p : @params RNum) (t : N) (g : R) (avg : list R) :
  a_strat p = @Fin RNum g -> g <= 0 -> @discount_average_strat RNum p t avg = avg.
Proof.
  intros Hp Hg. unfold discount_average_strat. rewrite Hp. cbn [ltb zero RNum].
  now rewrite (proj2 (Rltb_false 0 g) Hg).
Qed.

Lemma discount_average_strat_inf (p : @params RNum) (t : N) (avg : list R) :
  (a_strat p = PosInf -> @discount_average_strat RNum p t avg = map (fun _ => 0) avg) /\
  (a_strat p = NegInf -> @discount_average_strat RNum p t avg = avg).
Proof. split; intros Hp; unfold discount_average_strat; rewrite Hp; reflexivity. Qed.

(** the product of the ratios applied after iterations [s, s+1, .., s+n-1] *)
Fixpoint ratio_prod (g : R) (s n : nat) : R :=
  match n with
  | O => 1
  | S k => Rpower (INR s / (INR s + 1)) g * ratio_prod g (S s) k
  end.

Lemma Rpower_base_1 g : Rpower 1 g = 1.
Proof. unfold Rpower. rewrite ln_1, Rmult_0_r. apply exp_0. Qed.

Lemma ratio_prod_spec (g : R) (s n : nat) :
  (1 <= s)%nat -> ratio_prod g s n = Rpower (INR s / INR (s + n)) g.
Proof.
  revert s; induction n as [|k IH]; intros s Hs; cbn [ratio_prod].
  - rewrite Nat.add_0_r. assert (0 < INR s) by (apply lt_0_INR; lia).
    replace (INR s / INR s) with 1 by (field; lra). now rewrite Rpower_base_1.
  - rewrite IH by lia.
    assert (0 < INR s) by (apply lt_0_INR; lia).
    assert (0 < INR (S s + k)) by (apply lt_0_INR; lia).
    replace (s + S k)%nat with (S s + k)%nat by lia.
    rewrite S_INR in *.
    rewrite Rpower_mult_distr.
    + f_equal. field. split; lra.
    + unfold Rdiv. apply Rmult_lt_0_compat; [lra|]. apply Rinv_0_lt_compat; lra.
    + unfold Rdiv. apply Rmult_lt_0_compat; [lra|]. now apply Rinv_0_lt_compat.
Qed.

Lemma Rpower_div_base (x y g : R) :
  0 < x -> 0 < y -> Rpower (x / y) g = Rpower x g / Rpower y g.
Proof.
  intros Hx Hy. unfold Rpower, Rdiv.
  rewrite ln_mult by (try apply Rinv_0_lt_compat; assumption). rewrite ln_Rinv by assumption.
  rewrite <- exp_Ropp, <- exp_plus. f_equal. ring.
Qed.

(** the telescoping product: [prod_{t=s}^{T} (t/(t+1))^g = (s/(T+1))^g = s^g / (T+1)^g] *)
Lemma ratio_prod_telescope (g : R) (s T : nat) :
  (1 <= s <= T)%nat ->
  ratio_prod g s (T - s + 1) = Rpower (INR s / INR (T + 1)) g /\
  ratio_prod g s (T - s + 1) = Rpower (INR s) g / Rpower (INR (T + 1)) g.
Proof.
  intros H. rewrite ratio_prod_spec by lia. replace (s + (T - s + 1))%nat with (T + 1)%nat by lia.
  split; [reflexivity|]. apply Rpower_div_base; apply lt_0_INR; lia.
Qed.

(** applying the model's discount after each of the iterations [s, .., s+n-1] *)
Fixpoint discount_iter (p : @params RNum) (s n : nat) (avg : list R) : list R :=
  match n with
  | O => avg
  | S k => discount_iter p (S s) k (@discount_average_strat RNum p (N.of_nat s) avg)
  end.

Lemma discount_iter_spec (p : @params RNum) (g : R) (s n : nat) (avg : list R) :
  a_strat p = @Fin RNum g -> 0 < g -> (1 <= s)%nat ->
  discount_iter p s n avg = map (fun a => a * ratio_prod g s n) avg.
Proof.
  intros Hp Hg. revert s avg; induction n as [|k IH]; intros s avg Hs; cbn [discount_iter ratio_prod].
  - rewrite <- (map_id avg) at 1. apply map_ext. intros; lra.
  - rewrite IH by lia. rewrite (discount_average_strat_pos p _ g avg Hp Hg) by lia.
    rewrite map_map, Nat2N.id. apply map_ext. intros a. ring.
Qed.

(** a contribution made during iteration [s] has weight [(s/(T+1))^g] after iteration [T] *)
Lemma discount_iter_weight (p : @params RNum) (g : R) (s T : nat) (avg : list R) :
  a_strat p = @Fin RNum g -> 0 < g -> (1 <= s <= T)%nat ->
  discount_iter p s (T - s + 1) avg =
  map (fun a => a * (Rpower (INR s) g / Rpower (INR (T + 1)) g)) avg.
Proof.
  intros Hp Hg H. rewrite (discount_iter_spec p g) by (assumption || lia).
  destruct (ratio_prod_telescope g s T H) as [_ ->]. reflexivity.
Qed.

(** ** 7. [regret_match] *)
Definition posnorm (regs : list R) : R := Rsum (filter (fun v => Rltb 0 v) regs).

Lemma posnorm_ge (regs : list R) r : In r regs -> 0 < r -> r <= posnorm regs.
Proof.
  unfold posnorm. induction regs as [|x l IH]; intros Hin Hr; [destruct Hin|].
  assert (Hnn : 0 <= Rsum (filter (fun v => Rltb 0 v) l)).
  { apply Rsum_nonneg. apply Forall_forall. intros y Hy. apply filter_In in Hy as [_ Hy].
    apply Rltb_true in Hy. lra. }
  cbn [filter]. destruct Hin as [->|Hin].
  - rewrite (proj2 (Rltb_true 0 r) Hr). cbn [Rsum]. lra.
  - specialize (IH Hin Hr). destruct (Rltb 0 x) eqn:E; cbn [Rsum]; [apply Rltb_true in E|]; lra.
Qed.

Lemma filter_pos_none (regs : list R) :
  (forall r, In r regs -> r <= 0) -> filter (fun v => Rltb 0 v) regs = [].
Proof.
  induction regs as [|x l IH]; intros H; cbn [filter]; [reflexivity|].
  rewrite (proj2 (Rltb_false 0 x)) by (apply H; now left). apply IH. intros r Hr; apply H; now right.
Qed.

(** (a) *)
Lemma regret_match_pos (p : @params RNum) (regs : list R) :
  (exists r, In r regs /\ 0 < r) ->
  0 < posnorm regs /\
  @regret_match RNum p regs = map (fun r => if Rlt_dec 0 r then r / posnorm regs else 0) regs.
Proof.
  intros (r0 & Hin & Hr0). pose proof (posnorm_ge regs r0 Hin Hr0) as Hge.
  assert (Hpos : 0 < posnorm regs) by lra. split; [exact Hpos|].
  unfold regret_match. cbv zeta. rewrite sum_Rsum. cbn [ltb zero div RNum]. change (Rsum (filter _ regs)) with (posnorm regs).
  rewrite (proj2 (Rltb_true 0 _) Hpos). apply map_ext. intros r. unfold Rltb.
  destruct (Rlt_dec 0 r); reflexivity.
Qed.

(** with no positive regret the fall-back branch is taken *)
Lemma regret_match_nopos (p : @params RNum) (regs : list R) :
  (forall r, In r regs -> r <= 0) ->
  @regret_match RNum p regs =
  match a_nopos p with
  | PosInf => match regs with
              | [] => []
              | v :: r => @one_hot_at RNum (length regs) O (@argmax_last RNum r 1 O v)
              end
  | NegInf => match regs with
              | [] => []
              | v :: r => @one_hot_at RNum (length regs) O (@argmin_first RNum r 1 O v)
              end
  | Fin w =>
      if Reqb w 0 then @repeatT RNum (1 / @lenT RNum regs) (length regs)
      else
        let shift := match (if Rltb 0 w then @reduce_max RNum regs else @reduce_min RNum regs) with
                     | Some m => m
                     | None => 0
                     end in
        map (fun r => Rexp ((r - shift) * w) /
                      Rsum (map (fun r => Rexp ((r - shift) * w)) regs)) regs
  end.
Proof.
  intros H. unfold regret_match. cbv zeta. rewrite !sum_Rsum.
  cbn [ltb zero one sub mul div exp eqb T RNum].
  rewrite (filter_pos_none regs H). cbn [Rsum].
  rewrite (proj2 (Rltb_false 0 0)) by lra.
  destruct (a_nopos p) as [|w|]; try reflexivity.
  destruct (Reqb w 0); [reflexivity|]. cbv zeta. rewrite sum_Rsum. reflexivity.
Qed.

Lemma repeatT_map {A} (x : R) (l : list A) : @repeatT RNum x (length l) = map (fun _ => x) l.
Proof. induction l as [|y l IH]; cbn [repeatT length map]; [reflexivity|now rewrite IH]. Qed.

(** (b) *)
Lemma regret_match_uniform (p : @params RNum) (regs : list R) :
  (forall r, In r regs -> r <= 0) -> a_nopos p = @Fin RNum 0 ->
  @regret_match RNum p regs = map (fun _ => 1 / INR (length regs)) regs.
Proof.
  intros H Hp. rewrite regret_match_nopos by assumption. rewrite Hp.
  rewrite (proj2 (Reqb_true 0 0)) by reflexivity.
  rewrite repeatT_map. unfold lenT. cbn [of_N RNum]. now rewrite Nat2N.id.
Qed.

Lemma Rsum_exp_shift (s w : R) (l : list R) :
  Rsum (map (fun r => Rexp ((r - s) * w)) l) =
  Rexp (- s * w) * Rsum (map (fun b => Rexp (w * b)) l).
Proof.
  induction l as [|x l IH]; cbn [map Rsum]; [lra|]. rewrite IH.
  replace ((x - s) * w) with (- s * w + w * x) by ring. rewrite exp_plus. ring.
Qed.

Lemma Rsum_exp_pos (w : R) (l : list R) : l <> [] -> 0 < Rsum (map (fun b => Rexp (w * b)) l).
Proof.
  intros Hne. destruct l as [|x l]; [congruence|]. cbn [map Rsum].
  assert (0 <= Rsum (map (fun b => Rexp (w * b)) l)).
  { apply Rsum_nonneg. apply Forall_forall. intros y Hy. apply in_map_iff in Hy as (b & <- & _).
    left. apply exp_pos. }
  pose proof (exp_pos (w * x)). lra.
Qed.

(** (c) *)
Lemma regret_match_softmax (p : @params RNum) (w : R) (regs : list R) :
  (forall r, In r regs -> r <= 0) -> a_nopos p = @Fin RNum w -> w <> 0 ->
  @regret_match RNum p regs =
  map (fun r => Rexp (w * r) / Rsum (map (fun b => Rexp (w * b)) regs)) regs.
Proof.
  intros H Hp Hw. rewrite regret_match_nopos by assumption. rewrite Hp.
  rewrite (proj2 (Reqb_false w 0) Hw). cbv zeta.
  set (s := match (if Rltb 0 w then @reduce_max RNum regs else @reduce_min RNum regs) with
            | Some m => m | None => 0 end).
  rewrite Rsum_exp_shift. apply map_ext_in. intros r Hr.
  assert (Hne : regs <> []) by (intros ->; destruct Hr).
  pose proof (Rsum_exp_pos w regs Hne). pose proof (exp_pos (- s * w)).
  replace ((r - s) * w) with (- s * w + w * r) by ring. rewrite exp_plus. field. split; lra.
Qed.

(** *** [argmax_last] / [argmin_first] *)
Lemma nth_snoc_lt (pre : list R) v j : (j < length pre)%nat -> nth j (pre ++ [v]) 0 = nth j pre 0.
Proof. intros; now apply app_nth1. Qed.
Lemma nth_snoc_eq (pre : list R) v : nth (length pre) (pre ++ [v]) 0 = v.
Proof. rewrite app_nth2 by lia. now rewrite Nat.sub_diag. Qed.
Lemma length_snoc (pre : list R) v : length (pre ++ [v]) = S (length pre).
Proof. rewrite app_length. cbn [length]. lia. Qed.

Lemma argmax_last_spec (l pre : list R) (bi : nat) (bv : R) :
  (bi < length pre)%nat -> nth bi pre 0 = bv ->
  (forall j, (j < length pre)%nat -> nth j pre 0 <= bv) ->
  (forall j, (bi < j < length pre)%nat -> nth j pre 0 < bv) ->
  let full := pre ++ l in
  let k := @argmax_last RNum l (length pre) bi bv in
  (k < length full)%nat /\
  (forall j, (j < length full)%nat -> nth j full 0 <= nth k full 0) /\
  (forall j, (k < j < length full)%nat -> nth j full 0 < nth k full 0).
Proof.
  revert pre bi bv; induction l as [|v r IH]; intros pre bi bv Hbi Hbv Hall Hafter; cbv zeta.
  - cbn [argmax_last]. rewrite app_nil_r, Hbv. auto.
  - cbn [argmax_last]. cbn [ltb RNum].
    replace (pre ++ v :: r) with ((pre ++ [v]) ++ r) by (rewrite <- app_assoc; reflexivity).
    rewrite <- (length_snoc pre v).
    destruct (Rltb v bv) eqn:E.
    + apply Rltb_true in E. apply IH.
      * rewrite length_snoc; lia.
      * now rewrite nth_snoc_lt.
      * intros j Hj. rewrite length_snoc in Hj.
        destruct (Nat.eq_dec j (length pre)) as [->|Hne]; [rewrite nth_snoc_eq; lra|].
        rewrite nth_snoc_lt by lia. apply Hall; lia.
      * intros j Hj. rewrite length_snoc in Hj.
        destruct (Nat.eq_dec j (length pre)) as [->|Hne]; [rewrite nth_snoc_eq; lra|].
        rewrite nth_snoc_lt by lia. apply Hafter; lia.
    + apply Rltb_false in E. apply IH.
      * rewrite length_snoc; lia.
      * apply nth_snoc_eq.
      * intros j Hj. rewrite length_snoc in Hj.
        destruct (Nat.eq_dec j (length pre)) as [->|Hne]; [rewrite nth_snoc_eq; lra|].
        rewrite nth_snoc_lt by lia. specialize (Hall j ltac:(lia)). lra.
      * intros j Hj. rewrite length_snoc in Hj. lia.
Qed.

Lemma argmin_first_spec (l pre : list R) (bi : nat) (bv : R) :
  (bi < length pre)%nat -> nth bi pre 0 = bv ->
  (forall j, (j < length pre)%nat -> bv <= nth j pre 0) ->
  (forall j, (j < bi)%nat -> bv < nth j pre 0) ->
  let full := pre ++ l in
  let k := @argmin_first RNum l (length pre) bi bv in
  (k < length full)%nat /\
  (forall j, (j < length full)%nat -> nth k full 0 <= nth j full 0) /\
  (forall j, (j < k)%nat -> nth k full 0 < nth j full 0).
Proof.
  revert pre bi bv; induction l as [|v r IH]; intros pre bi bv Hbi Hbv Hall Hbefore; cbv zeta.
  - cbn [argmin_first]. rewrite app_nil_r, Hbv. auto.
  - cbn [argmin_first]. cbn [ltb RNum].
    replace (pre ++ v :: r) with ((pre ++ [v]) ++ r) by (rewrite <- app_assoc; reflexivity).
    rewrite <- (length_snoc pre v).
    destruct (Rltb v bv) eqn:E.
    + apply Rltb_true in E. apply IH.
      * rewrite length_snoc; lia.
      * apply nth_snoc_eq.
      * intros j Hj. rewrite length_snoc in Hj.
        destruct (Nat.eq_dec j (length pre)) as [->|Hne]; [rewrite nth_snoc_eq; lra|].
        rewrite nth_snoc_lt by lia. specialize (Hall j ltac:(lia)). lra.
      * intros j Hj. rewrite nth_snoc_lt by lia. specialize (Hall j ltac:(lia)). lra.
    + apply Rltb_false in E. apply IH.
      * rewrite length_snoc; lia.
      * now rewrite nth_snoc_lt.
      * intros j Hj. rewrite length_snoc in Hj.
        destruct (Nat.eq_dec j (length pre)) as [->|Hne]; [rewrite nth_snoc_eq; lra|].
        rewrite nth_snoc_lt by lia. apply Hall; lia.
      * intros j Hj. rewrite nth_snoc_lt by lia. apply Hbefore; lia.
Qed.

Lemma one_hot_at_spec (n i k : nat) :
  @one_hot_at RNum n i k = map (fun j => if Nat.eqb j k then 1 else 0) (seq i n).
Proof.
  revert i; induction n as [|n IH]; intros i; cbn [one_hot_at seq map]; [reflexivity|].
  now rewrite IH.
Qed.

(** (d) *)
Lemma regret_match_best (p : @params RNum) (regs : list R) :
  (forall r, In r regs -> r <= 0) -> a_nopos p = PosInf -> regs <> [] ->
  exists k,
    (k < length regs)%nat /\
    (forall j, (j < length regs)%nat -> nth j regs 0 <= nth k regs 0) /\
    (forall j, (k < j < length regs)%nat -> nth j regs 0 < nth k regs 0) /\
    @regret_match RNum p regs = map (fun j => if Nat.eqb j k then 1 else 0) (seq 0 (length regs)).
Proof.
  intros H Hp Hne. rewrite regret_match_nopos by assumption. rewrite Hp.
  destruct regs as [|v r]; [congruence|].
  exists (@argmax_last RNum r 1 0 v).
  pose proof (argmax_last_spec r [v] 0 v) as Hs. cbv zeta in Hs. cbn [length app] in Hs.
  destruct Hs as (H1 & H2 & H3).
  - lia.
  - reflexivity.
  - intros j Hj. replace j with 0%nat by lia. cbn [nth]. lra.
  - intros j Hj. lia.
  - cbn [length]. repeat split; try assumption. apply one_hot_at_spec.
Qed.

(** (e) *)
Lemma regret_match_worst (p : @params RNum) (regs : list R) :
  (forall r, In r regs -> r <= 0) -> a_nopos p = NegInf -> regs <> [] ->
  exists k,
    (k < length regs)%nat /\
    (forall j, (j < length regs)%nat -> nth k regs 0 <= nth j regs 0) /\
    (forall j, (j < k)%nat -> nth k regs 0 < nth j regs 0) /\
    @regret_match RNum p regs = map (fun j => if Nat.eqb j k then 1 else 0) (seq 0 (length regs)).
Proof.
  intros H Hp Hne. rewrite regret_match_nopos by assumption. rewrite Hp.
  destruct regs as [|v r]; [congruence|].
  exists (@argmin_first RNum r 1 0 v).
  pose proof (argmin_first_spec r [v] 0 v) as Hs. cbv zeta in Hs. cbn [length app] in Hs.
  destruct Hs as (H1 & H2 & H3).
  - lia.
  - reflexivity.
  - intros j Hj. replace j with 0%nat by lia. cbn [nth]. lra.
  - intros j Hj. lia.
  - cbn [length]. repeat split; try assumption. apply one_hot_at_spec.
Qed.

Lemma regret_match_nil (p : @params RNum) : @regret_match RNum p [] = [].
Proof.
  rewrite regret_match_nopos by (intros r []). destruct (a_nopos p) as [|w|]; try reflexivity.
  destruct (Reqb w 0); reflexivity.
Qed.

Lemma regret_match_length (p : @params RNum) (regs : list R) :
  length (@regret_match RNum p regs) = length regs.
Proof.
  destruct (Rlt_dec 0 (posnorm regs)) as [Hpos|Hn].
  - unfold regret_match. cbv zeta. rewrite sum_Rsum. cbn [ltb zero RNum]. change (Rsum (filter _ regs)) with (posnorm regs).
    rewrite (proj2 (Rltb_true 0 _) Hpos). apply map_length.
  - assert (H : forall r, In r regs -> r <= 0).
    { intros r Hr. destruct (Rle_dec r 0) as [|Hgt]; [assumption|].
      pose proof (posnorm_ge regs r Hr ltac:(lra)). lra. }
    rewrite regret_match_nopos by assumption.
    destruct (a_nopos p) as [|w|].
    + destruct regs; [reflexivity|]. rewrite one_hot_at_spec, map_length. apply seq_length.
    + destruct (Reqb w 0); [rewrite repeatT_map; apply map_length|cbv zeta; apply map_length].
    + destruct regs; [reflexivity|]. rewrite one_hot_at_spec, map_length. apply seq_length.
Qed.

(** ** 8. [advance] and the bound *)
Lemma advance_order (p : @params RNum) (it it_avg : N) (ri : @rinfo RNum) :
  @advance RNum p it it_avg ri =
  (mkRinfo (discount_cum_regret p it (cum_regret ri))
           (discount_average_strat p it_avg (cum_strat ri))
           (regret_match p (cum_regret ri)),
   cum_regret_bound it (discount_cum_regret p it (cum_regret ri))).
Proof. reflexivity. Qed.

Lemma cum_regret_bound_unfold (it : N) (cr : list R) :
  @cum_regret_bound RNum it cr =
  2 * Rmax (match cr with [] => 0 | x :: r => fold_left Rmax r x end) 0 / INR (N.to_nat it).
Proof.
  unfold cum_regret_bound, two, reduce_max. cbn [div mul add one zero fmax of_N RNum].
  replace (1 + 1) with 2 by lra. destruct cr; reflexivity.
Qed.

Lemma fold_max_spec (r : list R) (x : R) :
  In (fold_left Rmax r x) (x :: r) /\ forall y, In y (x :: r) -> y <= fold_left Rmax r x.
Proof.
  revert x; induction r as [|v r IH]; intros x; cbn [fold_left].
  - split; [now left|]. intros y [->|[]]. lra.
  - destruct (IH (Rmax x v)) as [Hin Hmax]. split.
    + destruct Hin as [Heq|Hin]; [|right; now right].
      rewrite <- Heq. unfold Rmax. destruct (Rle_dec x v); [right; now left|now left].
    + intros y Hy.
      assert (Hxv : x <= fold_left Rmax r (Rmax x v) /\ v <= fold_left Rmax r (Rmax x v)).
      { pose proof (Hmax _ (or_introl eq_refl)). pose proof (Rmax_l x v). pose proof (Rmax_r x v). lra. }
      destruct Hy as [->|[->|Hy]]; [lra|lra|]. apply Hmax. now right.
Qed.

Lemma cum_regret_bound_spec (it : N) (cr : list R) :
  cr <> [] ->
  exists mx, In mx cr /\ (forall y, In y cr -> y <= mx) /\
             @cum_regret_bound RNum it cr = 2 * Rmax mx 0 / INR (N.to_nat it).
Proof.
  intros Hne. destruct cr as [|x r]; [congruence|].
  exists (fold_left Rmax r x). destruct (fold_max_spec r x) as [H1 H2].
  split; [exact H1|]. split; [exact H2|]. apply cum_regret_bound_unfold.
Qed.

Lemma cum_regret_bound_nil (it : N) : @cum_regret_bound RNum it [] = 0 :> R.
Proof.
  rewrite cum_regret_bound_unfold. rewrite Rmax_left by lra. unfold Rdiv. ring.
Qed.

(** which iteration numbers the two traversals pass to [advance] *)
Lemma vanilla_iter_unfold (g : @game RNum) sampled (draw : @oracle RNum) (p : @params RNum) it st :
  @vanilla_iter RNum g sampled draw p it st =
  let st1 := snd (vrec (g_chance g) sampled draw (it - 1)%N (g_root g) 1 1 1 st) in
  let '(l1, r1) := advance_all p it it (fst st1) 0 in
  let '(l2, r2) := advance_all p it it (snd st1) 0 in
  ((l1, l2), (r1, r2)).
Proof.
  unfold vanilla_iter. cbn [one zero RNum]. destruct (vrec _ _ _ _ _ _ _ _ _) as [u st1]. reflexivity.
Qed.

Lemma external_iter_unfold (g : @game RNum) (draw : @oracle RNum) (p : @params RNum) it st :
  @external_iter RNum g draw p it st =
  let noff := length (g_infos1 g) in
  let st1 := snd (erec (g_chance g) draw (2 * (it - 1))%N (it - 1)%N noff true (g_root g) st) in
  let '(l1, r1) := advance_all p it (it - 1)%N (fst st1) 0 in
  let st3 := snd (erec (g_chance g) draw (2 * (it - 1) + 1)%N it noff false (g_root g) (l1, snd st1)) in
  let '(l2, r2) := advance_all p it it (snd st3) 0 in
  ((fst st3, l2), (r1, r2)).
Proof.
  unfold external_iter. cbn [one zero RNum]. cbv zeta.
  destruct (erec _ _ _ _ _ _ _ _) as [u st1]. cbn [snd].
  destruct (advance_all _ _ _ _ _) as [l1 r1].
  destruct (erec _ _ _ _ _ _ _ _) as [u' st3]. reflexivity.
Qed.

(** ** 9. Presets *)
Lemma presets_spec :
  @p_vanilla RNum = @mkParams RNum PosInf PosInf (@Fin RNum 0) (@Fin RNum 0) /\
  @p_lcfr RNum = @mkParams RNum (@Fin RNum 1) (@Fin RNum 1) (@Fin RNum 1) PosInf /\
  @p_cfr_plus RNum = @mkParams RNum PosInf NegInf (@Fin RNum 2) PosInf /\
  @p_dcfr RNum = @mkParams RNum (@Fin RNum (3 / 2)) (@Fin RNum 0) (@Fin RNum 2) PosInf /\
  @p_dcfr_prune RNum = @mkParams RNum (@Fin RNum (3 / 2)) (@Fin RNum (1 / 2)) (@Fin RNum 2) PosInf /\
  @p_default RNum = @p_dcfr RNum.
Proof.
  assert (H2 : @two RNum = 2) by (unfold two; cbn [add one RNum]; lra).
  assert (H3 : @of_nat_T RNum 3 = 3).
  { unfold of_nat_T. cbn [of_N RNum]. rewrite Nat2N.id. cbn [INR]. lra. }
  unfold p_vanilla, p_lcfr, p_cfr_plus, p_default, p_dcfr, p_dcfr_prune.
  rewrite H2, H3. cbn [zero one div RNum]. repeat split; reflexivity.
Qed.

Lemma presets_ok :
  @params_ok RNum p_vanilla = true /\ @params_ok RNum p_lcfr = true /\
  @params_ok RNum p_cfr_plus = true /\ @params_ok RNum p_dcfr = true /\
  @params_ok RNum p_dcfr_prune = true.
Proof.
  unfold params_ok, p_vanilla, p_lcfr, p_cfr_plus, p_dcfr, p_dcfr_prune, two.
  cbn [a_strat leb zero one add RNum].
  repeat split; apply Rleb_true; lra.
Qed.

(** ** Packaged statements and examples (used by Properties/C08.v) *)
Lemma gen_discount_spec :
  forall t : N, (1 <= t)%N ->
    0 < INR (N.to_nat t) /\
    (forall a : R,
        @gen_discount RNum t (@Fin RNum a) =
        Rpower (INR (N.to_nat t)) a / (Rpower (INR (N.to_nat t)) a + 1)) /\
    @gen_discount RNum t NegInf = 0 /\
    @gen_discount RNum t (@Fin RNum 0) = 1 / 2 /\
    @gen_discount RNum t PosInf = 1.
Proof.
  intros t Ht. split; [now apply INR_N_pos|]. split; [intros a; apply gen_discount_fin|].
  split; [reflexivity|]. split; [|reflexivity].
  rewrite gen_discount_fin. unfold Rpower. rewrite Rmult_0_l, exp_0. lra.
Qed.

Lemma avg_weight_spec :
  forall (p : @params RNum) (t : N) (g : R) (avg : list R),
    a_strat p = @Fin RNum g ->
    (0 < g -> (1 <= t)%N ->
     @discount_average_strat RNum p t avg =
     map (fun a => a * Rpower (INR (N.to_nat t) / (INR (N.to_nat t) + 1)) g) avg) /\
    (0 < g -> @discount_average_strat RNum p 0%N avg = map (fun a => a * 0) avg) /\
    (g <= 0 -> @discount_average_strat RNum p t avg = avg).
Proof.
  intros p t g avg Hp. split; [intros; now apply discount_average_strat_pos|].
  split; [intros; now apply (discount_average_strat_pos_0 p g)|intros; now apply (discount_average_strat_nonpos p t g)].
Qed.

Lemma discount_iter_general :
  forall (p : @params RNum) (g : R) (s n : nat) (avg : list R),
    a_strat p = @Fin RNum g -> 0 < g -> (1 <= s)%nat ->
    discount_iter p s n avg = map (fun a => a * Rpower (INR s / INR (s + n)) g) avg.
Proof.
  intros p g s n avg Hp Hg Hs. rewrite (discount_iter_spec p g) by assumption.
  now rewrite ratio_prod_spec.
Qed.

Lemma argmax_last_top :
  forall (v : R) (r : list R),
    let l := v :: r in
    let k := @argmax_last RNum r 1 0 v in
    (k < length l)%nat /\
    (forall j, (j < length l)%nat -> nth j l 0 <= nth k l 0) /\
    (forall j, (k < j < length l)%nat -> nth j l 0 < nth k l 0).
Proof.
  intros v r. apply (argmax_last_spec r [v] 0 v); cbn [length nth]; try lia; try reflexivity.
  intros j Hj. replace j with 0%nat by lia. lra.
Qed.

Lemma argmin_first_top :
  forall (v : R) (r : list R),
    let l := v :: r in
    let k := @argmin_first RNum r 1 0 v in
    (k < length l)%nat /\
    (forall j, (j < length l)%nat -> nth k l 0 <= nth j l 0) /\
    (forall j, (j < k)%nat -> nth k l 0 < nth j l 0).
Proof.
  intros v r. apply (argmin_first_spec r [v] 0 v); cbn [length nth]; try lia; try reflexivity.
  intros j Hj. replace j with 0%nat by lia. lra.
Qed.

Lemma example_discount : @gen_discount RNum 2%N (@Fin RNum 1) = 2 / 3.
Proof.
  change (@Fin RNum 1) with (@Fin RNum (INR 1)). rewrite gen_discount_nat by lia.
  change (N.to_nat 2) with 2%nat. cbn [INR pow]. lra.
Qed.

Lemma example_ties :
  @regret_match RNum p_lcfr [-1; -1] = [0; 1] /\
  @regret_match RNum (@mkParams RNum PosInf PosInf (@Fin RNum 0) NegInf) [-1; -1] = [1; 0] /\
  @regret_match RNum p_vanilla [-1; -3] = [1 / 2; 1 / 2] /\
  @regret_match RNum p_vanilla [3; -1; 1] = [3 / 4; 0; 1 / 4].
Proof.
  assert (Hneg : forall r, In r [-1; -1] -> r <= 0) by (intros r [<-|[<-|[]]]; lra).
  assert (E : Rltb (-1) (-1) = false) by (apply Rltb_false; lra).
  split; [|split; [|split]].
  - rewrite regret_match_nopos by exact Hneg.
    cbn [a_nopos p_lcfr argmax_last length ltb RNum]. rewrite E. reflexivity.
  - rewrite regret_match_nopos by exact Hneg.
    cbn [a_nopos argmin_first length ltb RNum]. rewrite E. reflexivity.
  - rewrite regret_match_uniform; [|intros r [<-|[<-|[]]]; lra|reflexivity].
    cbn [map length INR]. reflexivity.
  - destruct (regret_match_pos p_vanilla [3; -1; 1]) as [_ ->]; [exists 3; split; [now left|lra]|].
    unfold posnorm. cbn [filter map].
    rewrite (proj2 (Rltb_true 0 3)), (proj2 (Rltb_false 0 (-1))), (proj2 (Rltb_true 0 1)) by lra.
    cbn [Rsum]. destruct (Rlt_dec 0 3); [|lra]. destruct (Rlt_dec 0 (-1)); [lra|].
    destruct (Rlt_dec 0 1); [|lra]. repeat f_equal; lra.
Qed.

Lemma example_weight :
  discount_iter p_lcfr 2 (5 - 2 + 1) [1] = [2 / 6].
Proof.
  rewrite (discount_iter_weight p_lcfr 1 2 5) by (reflexivity || lra || lia).
  cbn [map]. rewrite !Rpower_1 by (apply lt_0_INR; lia). cbn [INR Nat.add]. f_equal. lra.
Qed.

(** ** Matching before or after the discount: with a positive regret and a positive
    alpha factor the two orders give the same strategy (the positive entries are
    scaled by a common positive factor and no sign changes). *)
Lemma gen_discount_pos (t : N) (d : @ext RNum) : d <> NegInf -> 0 < @gen_discount RNum t d.
Proof.
  intros Hd. destruct d as [|a|]; [congruence| |cbn [gen_discount one RNum]; lra].
  rewrite gen_discount_fin. unfold Rpower. set (E := Rexp _). assert (0 < E) by apply exp_pos.
  unfold Rdiv. apply Rmult_lt_0_compat; [lra|]. apply Rinv_0_lt_compat; lra.
Qed.

Lemma regret_match_discount_invariant (p : @params RNum) (t : N) (regs : list R) :
  (exists r, In r regs /\ 0 < r) -> a_pos p <> NegInf ->
  @regret_match RNum p (@discount_cum_regret RNum p t regs) = @regret_match RNum p regs.
Proof.
  intros Hex Hp. pose proof (gen_discount_pos t (a_pos p) Hp) as Hc.
  pose proof (gen_discount_range t (a_neg p)) as Hd.
  rewrite discount_cum_regret_spec.
  set (c := @gen_discount RNum t (a_pos p)) in *. set (d := @gen_discount RNum t (a_neg p)) in *.
  set (f := fun r : R => if Rlt_dec 0 r then r * c else if Rlt_dec r 0 then r * d else r).
  assert (Hsign : forall r, Rltb 0 (f r) = Rltb 0 r).
  { intros r. unfold f. destruct (Rlt_dec 0 r) as [Hr|Hr].
    - rewrite (proj2 (Rltb_true 0 r) Hr). apply Rltb_true. now apply Rmult_lt_0_compat.
    - rewrite (proj2 (Rltb_false 0 r)) by lra. apply Rltb_false.
      destruct (Rlt_dec r 0) as [Hn|Hn]; [|lra].
      assert (0 <= (- r) * d) by (apply Rmult_le_pos; lra). lra. }
  assert (Hfpos : forall r, 0 < r -> f r = r * c).
  { intros r Hr. unfold f. destruct (Rlt_dec 0 r); [reflexivity|lra]. }
  assert (Hnorm : posnorm (map f regs) = posnorm regs * c).
  { clear Hex. unfold posnorm. induction regs as [|x l IH]; cbn [map filter Rsum]; [lra|].
    rewrite Hsign. destruct (Rltb 0 x) eqn:E; cbn [Rsum]; [|exact IH].
    apply Rltb_true in E. rewrite Hfpos by assumption. rewrite IH. lra. }
  destruct (regret_match_pos p regs Hex) as [Hpos ->].
  destruct (regret_match_pos p (map f regs)) as [_ ->].
  { destruct Hex as (r & Hin & Hr). exists (f r). split; [now apply in_map|].
    rewrite Hfpos by assumption. now apply Rmult_lt_0_compat. }
  rewrite map_map. apply map_ext. intros r. rewrite Hnorm.
  pose proof (Hsign r) as Hs. unfold Rltb in Hs.
  destruct (Rlt_dec 0 (f r)), (Rlt_dec 0 r); try discriminate; [|reflexivity].
  rewrite Hfpos by assumption. field. split; lra.
Qed.
