(** * Tree: raw game trees (the input of [Game::from_root]), compact games (its
    output), and the model of [from_root] / [init_recurse] / [compact::Builder].

    Everything here is generic in the arithmetic ([Num]); the same definitions are
    executed at binary64 and reasoned about. Labels (infoset names, actions,
    chance infoset names) are numbers; the harness maps strings to numbers. *)
From Coq Require Import List NArith Bool Arith.
From Cfr.theories Require Import Num.
Import ListNotations.

Inductive gerr :=
| EmptyChance | NonPositiveChance | ProbabilitiesNotEqual | ImperfectRecall
| EmptyPlayer | ActionsNotEqual | ActionsNotUnique | NonFinitePayoff.

Inductive res (A : Type) := Ok (a : A) | Err (e : gerr).
Arguments Ok {A}. Arguments Err {A}.

Section Tree.
  Context {NN : Num}.
  Local Notation T := (T NN).

  (** ** Raw trees: [GameNode] *)
  Inductive gnode :=
  | GTerm (p : T)
  | GChance (info : option N) (outs : list (T * gnode))
  | GPlayer (pl : bool) (info : N) (acts : list (N * gnode)).
  (* [pl = true] is [PlayerNum::One] *)

  (** ** Compact games: [Node], [Game] *)
  Inductive node :=
  | Term (x : T)
  | Chance (ci : nat) (kids : list node)
  | Player (pl : bool) (i : nat) (kids : list node).

  (** [PlayerInfosetData]: name, actions, previous (infoset, action) of the player *)
  Record pinfo := mkPinfo {
    pi_name : N;
    pi_actions : list N;
    pi_prev : option (nat * nat)
  }.

  Record game := mkGame {
    g_chance : list (list T);          (* chance infoset -> normalised probabilities *)
    g_infos1 : list pinfo; g_infos2 : list pinfo;
    g_singles1 : list (N * N); g_singles2 : list (N * N);
    g_root : node
  }.

  Definition g_infos (g : game) (pl : bool) := if pl then g_infos1 g else g_infos2 g.
  Definition g_singles (g : game) (pl : bool) := if pl then g_singles1 g else g_singles2 g.

  (** ** Builder state threaded through the depth-first construction *)
  Record bst := mkBst {
    b_chance : list (option N * list T);       (* [OptBuilder]; insertion order = index *)
    b_infos1 : list pinfo; b_infos2 : list pinfo;   (* [Builder]; insertion order = index *)
    b_singles1 : list (N * N); b_singles2 : list (N * N)  (* [HashMap]; order immaterial *)
  }.

  Definition b_empty : bst := mkBst [] [] [] [] [].
  Definition b_infos (s : bst) (pl : bool) := if pl then b_infos1 s else b_infos2 s.
  Definition b_singles (s : bst) (pl : bool) := if pl then b_singles1 s else b_singles2 s.
  Definition set_infos (s : bst) (pl : bool) (l : list pinfo) : bst :=
    if pl then mkBst (b_chance s) l (b_infos2 s) (b_singles1 s) (b_singles2 s)
    else mkBst (b_chance s) (b_infos1 s) l (b_singles1 s) (b_singles2 s).
  Definition set_singles (s : bst) (pl : bool) (l : list (N * N)) : bst :=
    if pl then mkBst (b_chance s) (b_infos1 s) (b_infos2 s) l (b_singles2 s)
    else mkBst (b_chance s) (b_infos1 s) (b_infos2 s) (b_singles1 s) l.
  Definition set_chance (s : bst) (l : list (option N * list T)) : bst :=
    mkBst l (b_infos1 s) (b_infos2 s) (b_singles1 s) (b_singles2 s).

  (** index of the first element satisfying [f] *)
  Fixpoint find_index {A} (f : A -> bool) (l : list A) : option (nat * A) :=
    match l with
    | [] => None
    | x :: r => if f x then Some (O, x)
                else match find_index f r with
                     | Some (i, y) => Some (S i, y)
                     | None => None
                     end
    end.

  Definition opt_key_eqb (k : N) (e : option N * list T) : bool :=
    match fst e with Some k' => N.eqb k k' | None => false end.

  Fixpoint list_eqb {A} (eq : A -> A -> bool) (a b : list A) : bool :=
    match a, b with
    | [], [] => true
    | x :: a', y :: b' => eq x y && list_eqb eq a' b'
    | _, _ => false
    end.

  Fixpoint nodupb (l : list N) : bool :=
    match l with
    | [] => true
    | x :: r => negb (existsb (N.eqb x) r) && nodupb r
    end.

  Definition prev_eqb (a b : option (nat * nat)) : bool :=
    match a, b with
    | None, None => true
    | Some (i, x), Some (j, y) => Nat.eqb i j && Nat.eqb x y
    | _, _ => false
    end.

  Definition set_prev (prev : option (nat * nat) * option (nat * nat)) (pl : bool)
             (v : option (nat * nat)) :=
    if pl then (v, snd prev) else (fst prev, v).
  Definition get_prev (prev : option (nat * nat) * option (nat * nat)) (pl : bool) :=
    if pl then fst prev else snd prev.

  (** normalisation of chance weights: [total = probs.iter().sum(); *prob /= total];
      when the sum of the (finite, positive) weights overflows binary64 they are first
      divided by their maximum (repair D14; over the reals this branch is never taken) *)
  Definition normalise (ws : list T) : list T :=
    let total := sum ws in
    if is_fin NN total then map (fun w => div NN w total) ws
    else
      let m := fold_left (fmax NN) ws (zero NN) in
      let ws' := map (fun w => div NN w m) ws in
      let total' := sum ws' in
      map (fun w => div NN w total') ws'.

  (** ** [init_recurse] *)
  Fixpoint init (n : gnode) (prev : option (nat * nat) * option (nat * nat)) (s : bst)
    : res (node * bst) :=
    match n with
    | GTerm p => if is_fin NN p then Ok (Term p, s) else Err NonFinitePayoff
    | GChance info outs =>
        let fix go (outs : list (T * gnode)) (s : bst) (probs : list T) (kids : list node)
          : res (list T * list node * bst) :=
          match outs with
          | [] => Ok (rev probs, rev kids, s)
          | (p, c) :: r =>
              if ltb NN (zero NN) p && is_fin NN p then
                match init c prev s with
                | Ok (c', s') => go r s' (p :: probs) (c' :: kids)
                | Err e => Err e
                end
              else Err NonPositiveChance
          end in
        match go outs s [] [] with
        | Err e => Err e
        | Ok (probs, kids, s') =>
            match kids with
            | [] => Err EmptyChance
            | [k] => Ok (k, s')
            | _ =>
                let probs := normalise probs in
                match info with
                | None =>
                    let ind := length (b_chance s') in
                    Ok (Chance ind kids, set_chance s' (b_chance s' ++ [(None, probs)]))
                | Some k =>
                    match find_index (opt_key_eqb k) (b_chance s') with
                    | Some (ind, (_, old)) =>
                        if list_eqb (eqb NN) old probs then Ok (Chance ind kids, s')
                        else Err ProbabilitiesNotEqual
                    | None =>
                        let ind := length (b_chance s') in
                        Ok (Chance ind kids, set_chance s' (b_chance s' ++ [(Some k, probs)]))
                    end
                end
            end
        end
    | GPlayer pl info acts =>
        match acts with
        | [] => Err EmptyPlayer
        | [(a, c)] =>
            if existsb (fun pi => N.eqb (pi_name pi) info) (b_infos s pl)
            then Err ActionsNotEqual
            else
              match find_index (fun e => N.eqb (fst e) info) (b_singles s pl) with
              | Some (_, (_, a')) =>
                  if N.eqb a' a then init c prev s else Err ActionsNotEqual
              | None => init c prev (set_singles s pl (b_singles s pl ++ [(info, a)]))
              end
        | _ =>
            let actions := map fst acts in
            if existsb (fun e => N.eqb (fst e) info) (b_singles s pl)
            then Err ActionsNotEqual
            else
              let found :=
                match find_index (fun pi => N.eqb (pi_name pi) info) (b_infos s pl) with
                | Some (ind, pi) =>
                    if negb (list_eqb N.eqb (pi_actions pi) actions) then Err ActionsNotEqual
                    else if negb (prev_eqb (pi_prev pi) (get_prev prev pl)) then Err ImperfectRecall
                    else Ok (ind, s)
                | None =>
                    if nodupb actions then
                      Ok (length (b_infos s pl),
                          set_infos s pl (b_infos s pl ++ [mkPinfo info actions (get_prev prev pl)]))
                    else Err ActionsNotUnique
                end in
              match found with
              | Err e => Err e
              | Ok (ind, s0) =>
                  let fix go (acts : list (N * gnode)) (ai : nat) (s : bst) (kids : list node)
                    : res (list node * bst) :=
                    match acts with
                    | [] => Ok (rev kids, s)
                    | (_, c) :: r =>
                        match init c (set_prev prev pl (Some (ind, ai))) s with
                        | Ok (c', s') => go r (S ai) s' (c' :: kids)
                        | Err e => Err e
                        end
                    end in
                  match go acts O s0 [] with
                  | Err e => Err e
                  | Ok (kids, s') => Ok (Player pl ind kids, s')
                  end
              end
        end
    end.

  Definition from_root (t : gnode) : res game :=
    match init t (None, None) b_empty with
    | Err e => Err e
    | Ok (root, s) =>
        Ok (mkGame (map snd (b_chance s)) (b_infos1 s) (b_infos2 s)
                   (b_singles1 s) (b_singles2 s) root)
    end.

  Definition num_infosets (g : game) : nat := length (g_infos1 g) + length (g_infos2 g).

  (** arities of a player's infosets, the lengths [split_by] is called with *)
  Definition arities (g : game) (pl : bool) : list nat :=
    map (fun pi => length (pi_actions pi)) (g_infos g pl).
End Tree.
