(** * RmPotential: the regret-matching potential (pure algebra, one infoset).

    [sqpos R = Σ_a (max R_a 0)²].  If [sigma = regret_match p R] and the increment
    [r] is orthogonal to [sigma], then [sqpos (R + r) <= sqpos R + Σ_a r_a²]
    ([rm_potential]); discounting afterwards (positive part times a factor in
    [0,1], negative part times a non-negative factor) does not increase the
    potential ([rm_potential_discounted], for every [params]). *)
From Coq Require Import Reals List Lra Lia Bool Arith NArith.
From Cfr.theories Require Import Num RInst Tree Strat Eval Solve Valid TruncProofs
     SolveValidProofs Incr IterChar.
Import ListNotations.
Open Scope R_scope.

Local Notation paramsR := (@params RNum).

Definition pos (x : R) : R := Rmax x 0.
Definition sqpos (l : list R) : R := Rsum (map (fun x => pos x * pos x) l).
Definition sqsum (l : list R) : R := Rsum (map (fun x => x * x) l).

Lemma pos_nonneg x : 0 <= pos x.
Proof. unfold pos. apply Rmax_r. Qed.

Lemma pos_of_pos x : 0 < x -> pos x = x.
Proof. intros H. unfold pos. apply Rmax_left. lra. Qed.

Lemma pos_of_nonpos x : x <= 0 -> pos x = 0.
Proof. intros H. unfold pos. now apply Rmax_right. Qed.

Lemma sqpos_nonneg l : 0 <= sqpos l.
Proof.
  unfold sqpos. apply Rsum_nonneg. apply Forall_forall. intros y Hy.
  apply in_map_iff in Hy as (x & <- & _). pose proof (pos_nonneg x). nra.
Qed.

Lemma sqsum_nonneg l : 0 <= sqsum l.
Proof.
  unfold sqsum. apply Rsum_nonneg. apply Forall_forall. intros y Hy.
  apply in_map_iff in Hy as (x & <- & _). nra.
Qed.

(** the pointwise inequality *)
Lemma pos_add_sq x y : pos (x + y) * pos (x + y) <= (pos x + y) * (pos x + y).
Proof.
  destruct (Rle_lt_dec (x + y) 0) as [H|H].
  - rewrite (pos_of_nonpos (x + y)) by assumption.
    pose proof (Rle_0_sqr (pos x + y)) as Hs. unfold Rsqr in Hs. lra.
  - rewrite (pos_of_pos (x + y)) by assumption.
    destruct (Rle_lt_dec x 0) as [Hx|Hx].
    + rewrite (pos_of_nonpos x) by assumption.
      assert (0 <= (- x) * (y + (x + y))) by (apply Rmult_le_pos; lra). nra.
    + rewrite (pos_of_pos x) by assumption. lra.
Qed.

Lemma pot_step_gen (Rg r : list R) :
  length Rg = length r ->
  sqpos (vadd Rg r) <= sqpos Rg + 2 * dot (map pos Rg) r + sqsum r.
Proof.
  unfold sqpos, sqsum, vadd. revert r; induction Rg as [|x Rg IH]; intros r E;
    destruct r as [|y r]; try discriminate.
  - cbn [combine map Rsum dot]. lra.
  - cbn [combine map Rsum dot fst snd]. cbn [length] in E.
    specialize (IH r ltac:(lia)). pose proof (pos_add_sq x y). nra.
Qed.

Lemma pot_step (Rg r : list R) :
  length Rg = length r -> dot (map pos Rg) r = 0 ->
  sqpos (vadd Rg r) <= sqpos Rg + sqsum r.
Proof. intros E H. pose proof (pot_step_gen Rg r E). lra. Qed.

(** *** regret matching is proportional to the positive part, when there is one *)
Lemma Rsum_filter_pos_nonneg (l : list R) : 0 <= Rsum (filter (fun v => Rltb 0 v) l).
Proof.
  induction l as [|x l IH]; cbn [filter Rsum]; [lra|].
  destruct (Rltb 0 x) eqn:E; [|exact IH]. apply Rltb_true in E. cbn [Rsum]. lra.
Qed.

Lemma no_positive (l : list R) :
  Rsum (filter (fun v => Rltb 0 v) l) <= 0 -> Forall (fun x => x <= 0) l.
Proof.
  induction l as [|x l IH]; cbn [filter]; intros H; constructor.
  - destruct (Rltb 0 x) eqn:E; [|now apply Rltb_false in E].
    apply Rltb_true in E. cbn [Rsum] in H. pose proof (Rsum_filter_pos_nonneg l). lra.
  - apply IH. destruct (Rltb 0 x) eqn:E; [|exact H].
    apply Rltb_true in E. cbn [Rsum] in H. pose proof (Rsum_filter_pos_nonneg l). lra.
Qed.

Lemma dot_pos_zero (Rg r : list R) : Forall (fun x => x <= 0) Rg -> dot (map pos Rg) r = 0.
Proof.
  intros H; revert r; induction H as [|x Rg Hx H IH]; intros r; destruct r as [|y r];
    cbn [map dot]; try reflexivity.
  rewrite IH, pos_of_nonpos by assumption. lra.
Qed.

Lemma dot_normalised (Rg r : list R) (c : R) :
  c <> 0 ->
  dot (map (fun x => if Rltb 0 x then x / c else 0) Rg) r = dot (map pos Rg) r / c.
Proof.
  intros Hc. revert r; induction Rg as [|x Rg IH]; intros r; destruct r as [|y r];
    cbn [map dot]; try (unfold Rdiv; lra).
  rewrite IH. destruct (Rltb 0 x) eqn:E.
  - apply Rltb_true in E. rewrite pos_of_pos by assumption. field. exact Hc.
  - apply Rltb_false in E. rewrite pos_of_nonpos by assumption. field. exact Hc.
Qed.

Lemma rm_dot (p : paramsR) (Rg r : list R) :
  dot (@regret_match RNum p Rg) r = 0 -> dot (map pos Rg) r = 0.
Proof.
  rewrite regret_match_unfold. cbv zeta.
  destruct (Rltb 0 (Rsum (filter (fun v => Rltb 0 v) Rg))) eqn:E.
  - apply Rltb_true in E. rewrite dot_normalised by lra. intros H.
    set (c := Rsum _) in *. apply (Rmult_eq_compat_r c) in H.
    unfold Rdiv in H. rewrite Rmult_assoc, Rinv_l in H by lra. lra.
  - intros _. apply Rltb_false in E. apply dot_pos_zero. now apply no_positive.
Qed.

(** ** The potential inequality *)
Theorem rm_potential (p : paramsR) (Rg r : list R) :
  length Rg = length r ->
  dot (@regret_match RNum p Rg) r = 0 ->
  sqpos (vadd Rg r) <= sqpos Rg + sqsum r.
Proof. intros E H. apply pot_step; [exact E|]. now apply (rm_dot p). Qed.

(** ** Discounting does not increase the potential *)
Lemma ln_add_exp_ge (a : R) : a <= @ln_add_exp RNum a 0.
Proof.
  unfold ln_add_exp. cbn [eqb is_nan sub add zero one ltb neg exp ln RNum]. unfold two.
  cbn [add one RNum].
  destruct (Reqb a 0); [replace (1 + 1) with 2 by lra; pose proof ln_lt_2; lra|].
  assert (H1 : forall x, 0 < Rpower.ln (1 + Rtrigo_def.exp x)).
  { intros x. rewrite <- ln_1. apply ln_increasing; [lra|]. pose proof (exp_pos x). lra. }
  destruct (Rltb 0 (a - 0)) eqn:E.
  - pose proof (H1 (- (a - 0))). lra.
  - apply Rltb_false in E. pose proof (H1 (a - 0)). lra.
Qed.

Lemma gen_discount_range it (d : @ext RNum) : 0 <= @gen_discount RNum it d <= 1.
Proof.
  destruct d as [|d|]; cbn [gen_discount zero one RNum]; try lra.
  cbn [eqb RNum]. destruct (Reqb d 0).
  - unfold two. cbn [div add one RNum]. lra.
  - cbn [exp sub mul RNum]. set (numer := d * _).
    pose proof (ln_add_exp_ge numer) as H. cbn [zero RNum] in H.
    split; [left; apply exp_pos|].
    rewrite <- exp_0. destruct (Req_dec (numer - @ln_add_exp RNum numer 0) 0) as [->|Hne];
      [lra|]. left. apply exp_increasing. lra.
Qed.

Lemma pos_discount (x f1 f2 : R) :
  0 <= f1 <= 1 -> 0 <= f2 ->
  pos (if Rltb 0 x then x * f1 else if Rltb x 0 then x * f2 else x) = pos x * f1.
Proof.
  intros H1 H2. destruct (Rltb 0 x) eqn:E.
  - apply Rltb_true in E. rewrite (pos_of_pos x) by assumption.
    destruct (Req_dec f1 0) as [->|Hne].
    + rewrite pos_of_nonpos; lra.
    + rewrite pos_of_pos; [lra|]. apply Rmult_lt_0_compat; lra.
  - apply Rltb_false in E. rewrite (pos_of_nonpos x) by assumption.
    destruct (Rltb x 0) eqn:E2.
    + apply Rltb_true in E2. rewrite pos_of_nonpos; [lra|]. nra.
    + rewrite pos_of_nonpos; lra.
Qed.

Lemma sqpos_discount (p : paramsR) it (l : list R) :
  sqpos (@discount_cum_regret RNum p it l) <= sqpos l.
Proof.
  unfold discount_cum_regret. cbv zeta.
  pose proof (gen_discount_range it (a_pos p)) as H1.
  pose proof (gen_discount_range it (a_neg p)) as H2.
  set (f1 := gen_discount it (a_pos p)) in *. set (f2 := gen_discount it (a_neg p)) in *.
  unfold sqpos. induction l as [|x l IH]; cbn [map Rsum]; [lra|].
  change (ltb RNum) with Rltb. change (zero RNum) with 0. change (mul RNum) with Rmult.
  rewrite pos_discount by lra. pose proof (pos_nonneg x).
  assert (pos x * f1 * (pos x * f1) <= pos x * pos x).
  { assert (0 <= pos x * pos x) by nra. assert (f1 * f1 <= 1) by nra.
    replace (pos x * f1 * (pos x * f1)) with ((pos x * pos x) * (f1 * f1)) by ring. nra. }
  change (ltb RNum) with Rltb in IH. change (zero RNum) with 0 in IH.
  change (mul RNum) with Rmult in IH. lra.
Qed.

Theorem rm_potential_discounted (p q : paramsR) it (Rg r : list R) :
  length Rg = length r ->
  dot (@regret_match RNum p Rg) r = 0 ->
  sqpos (@discount_cum_regret RNum q it (vadd Rg r)) <= sqpos Rg + sqsum r.
Proof.
  intros E H. pose proof (sqpos_discount q it (vadd Rg r)). pose proof (rm_potential p Rg r E H). lra.
Qed.

(** ** The maximum positive regret is at most the square root of the potential *)
Lemma fold_Rmax_bound (l : list R) (x b : R) :
  x <= b -> Forall (fun y => y <= b) l -> fold_left Rmax l x <= b.
Proof.
  intros Hx H; revert x Hx; induction H as [|y l Hy H IH]; intros x Hx; cbn [fold_left];
    [exact Hx|]. apply IH. now apply Rmax_lub.
Qed.

Lemma pos_sq_le_sqpos (l : list R) x : In x l -> pos x * pos x <= sqpos l.
Proof.
  intros Hin. unfold sqpos. apply Rsum_ge_In.
  - apply Forall_forall. intros y Hy. apply in_map_iff in Hy as (z & <- & _).
    pose proof (pos_nonneg z). nra.
  - apply in_map_iff. exists x. auto.
Qed.

Lemma le_sqrt_sqpos (l : list R) x : In x l -> x <= sqrt (sqpos l).
Proof.
  intros Hin. pose proof (pos_sq_le_sqpos l x Hin) as H. pose proof (pos_nonneg x) as Hp.
  assert (pos x <= sqrt (sqpos l)).
  { rewrite <- (sqrt_square (pos x)) by assumption. now apply sqrt_le_1_alt. }
  unfold pos in *. pose proof (Rmax_l x 0). lra.
Qed.

Theorem max_le_sqrt_potential (l : list R) : Rmax (Rmaxl l) 0 <= sqrt (sqpos l).
Proof.
  apply Rmax_lub; [|apply sqrt_pos].
  unfold Rmaxl, reduce_max. destruct l as [|x l]; [apply sqrt_pos|].
  change (fmax RNum) with Rmax. apply fold_Rmax_bound.
  - apply le_sqrt_sqpos. now left.
  - apply Forall_forall. intros y Hy. apply le_sqrt_sqpos. now right.
Qed.
