(** * CliUtilityProofs: the C15 clause about the utilities printed for a constant-sum
    Gambit file, with the payoff-shift lemma of [PayoffEvalProofs] (property C12) plugged
    into [CliGambitProofs.cli_gambit_utilities]. *)
From Coq Require Import Reals List Lra NArith.
From Cfr.theories Require Import Num RInst Tree GameWF Strat Eval Valid Cli CliProofs
     CliNamesProofs CliGambitProofs PayoffEvalProofs.
Import ListNotations.
Open Scope R_scope.

Local Notation gameR := (@game RNum).
Local Notation enodeR := (@enode RNum).

(** the two developments define the same map over the payoffs of a compact game *)
Lemma game_map_payoffs_same f (g : gameR) :
  CliGambitProofs.game_map_payoffs f g = PayoffEvalProofs.game_map_payoffs f g.
Proof. reflexivity. Qed.

Lemma shift_util_holds (k : R) (g : gameR) (prof : list R * list R) :
  ChanceOK g -> shaped g (g_root g) -> Valid g prof ->
  si_util (@info RNum (CliGambitProofs.game_map_payoffs (fun x => x + k) g) prof) =
  si_util (@info RNum g prof) + k.
Proof. exact (info_shift_util k g prof). Qed.

(** C.9: for a constant-sum file ([c] = the sum of the two players' own payoffs at every
    terminal) that loads to [(g, sum)]: [sum = c/2], [g] is the game [g1] of player one's
    own payoffs (the same tree without the subtraction) shifted by [- c/2], and for every
    valid profile the printed utilities are the two players' expected OWN payoffs of the
    printed profile on [g1]: they add up to [c] *)
Theorem cli_gambit_utilities_shift numname (root : enodeR) (c : R) (g : gameR) (sum : R) :
  (forall p, In p (own_pairs root) -> fst p + snd p = c) ->
  @gambit_load RNum numname root = Loaded (g, sum) ->
  exists n1 n2 g1,
    final_names numname true root = Some n1 /\ final_names numname false root = Some n2 /\
    @from_root RNum (@joined RNum (outcomes_of root) n1 n2 0 root 0) = Ok g1 /\
    sum = c / 2 /\ g = CliGambitProofs.game_map_payoffs (fun x => x - c / 2) g1 /\
    (ChanceOK g1 -> shaped g1 (g_root g1) ->
     forall clip prof, Valid g prof ->
       let out := @cli_choose RNum g sum clip prof in
       let e := @expected RNum g1 (split_by (fst (o_prof out)) (arities g1 true))
                          (split_by (snd (o_prof out)) (arities g1 false)) in
       Valid g1 (o_prof out) /\
       o_util1 out = e /\ o_util2 out = c - e /\ o_util1 out + o_util2 out = c).
Proof. exact (cli_gambit_utilities shift_util_holds numname root c g sum). Qed.
