(** * CliNamesProofs: the infoset-name resolution of the Gambit reader
    ([get_global_info] of [gambit.rs], modelled by [given_names], [infoset_numbers],
    [final_names] in [Cli.v]).

    GENERIC: everything in this file holds for every arithmetic instance [NN : Num]
    (names are numbers; no arithmetic is involved), hence for the real instance and the
    binary64 instance alike. *)
From Coq Require Import List NArith Bool Arith Lia.
From Cfr.theories Require Import Num Tree Cli.
Import ListNotations.

(** ** Lists of numbers *)
Lemma existsb_Neqb x l : existsb (N.eqb x) l = true <-> In x l.
Proof.
  rewrite existsb_exists. split.
  - intros (y & Hy & E). apply N.eqb_eq in E. now subst.
  - intros H. exists x. split; [assumption|apply N.eqb_refl].
Qed.

Lemma nodupb_iff l : nodupb l = true <-> NoDup l.
Proof.
  induction l as [|x l IH]; cbn [nodupb]; [split; [constructor|reflexivity]|].
  rewrite andb_true_iff, negb_true_iff, IH. split.
  - intros [H1 H2]. constructor; [|assumption]. intros C. apply existsb_Neqb in C. congruence.
  - intros H. inversion H as [|? ? Hn Hd]; subst. split; [|assumption].
    destruct (existsb (N.eqb x) l) eqn:E; [|reflexivity]. apply existsb_Neqb in E. contradiction.
Qed.

Lemma NoDup_snoc {A} (l : list A) x : NoDup l -> ~ In x l -> NoDup (l ++ [x]).
Proof.
  induction 1 as [|y l Hn Hd IH]; intros Hx; cbn [app].
  - constructor; [intros []|constructor].
  - constructor.
    + rewrite in_app_iff. intros [C|[C|[]]]; [contradiction|]. subst. apply Hx. now left.
    + apply IH. intros C. apply Hx. now right.
Qed.

Lemma alookup_none {A} k (l : list (N * A)) : alookup k l = None <-> ~ In k (map fst l).
Proof.
  induction l as [|[k' v] l IH]; cbn [alookup map fst In]; [tauto|].
  destruct (N.eqb k k') eqn:E.
  - apply N.eqb_eq in E. subst. split; [discriminate|]. intros H. exfalso. apply H. now left.
  - apply N.eqb_neq in E. rewrite IH. split; [intros H [C|C]; [congruence|contradiction]|tauto].
Qed.

Lemma alookup_some_in {A} k (l : list (N * A)) v : alookup k l = Some v -> In (k, v) l.
Proof.
  induction l as [|[k' v'] l IH]; cbn [alookup In]; [discriminate|].
  destruct (N.eqb k k') eqn:E.
  - apply N.eqb_eq in E. intros H; inversion H; subst. now left.
  - intros H. right. now apply IH.
Qed.

Lemma alookup_in_nodup {A} k (l : list (N * A)) v :
  NoDup (map fst l) -> In (k, v) l -> alookup k l = Some v.
Proof.
  induction l as [|[k' v'] l IH]; cbn [alookup In map fst]; [intros _ []|].
  intros Hd [H|H]; inversion Hd as [|? ? Hn Hd']; subst.
  - inversion H; subst. now rewrite N.eqb_refl.
  - destruct (N.eqb k k') eqn:E; [|now apply IH].
    apply N.eqb_eq in E. subst. exfalso. apply Hn. apply in_map_iff. now exists (k', v).
Qed.

Lemma alookup_app {A} k (l1 l2 : list (N * A)) :
  alookup k (l1 ++ l2) = match alookup k l1 with Some v => Some v | None => alookup k l2 end.
Proof.
  induction l1 as [|[k' v] l1 IH]; cbn [alookup app]; [reflexivity|].
  destruct (N.eqb k k'); [reflexivity|exact IH].
Qed.

(** a name carried by two different keys: what [nodupb] on the names detects *)
Lemma dup_names_iff (l : list (N * N)) :
  NoDup (map fst l) ->
  (nodupb (map snd l) = false <->
   exists k1 k2 nm, k1 <> k2 /\ In (k1, nm) l /\ In (k2, nm) l).
Proof.
  induction l as [|[k nm] l IH]; intros Hd; cbn [map fst snd nodupb].
  - split; [discriminate|]. intros (k1 & k2 & n & _ & [] & _).
  - inversion Hd as [|? ? Hn Hd']; subst. specialize (IH Hd').
    rewrite andb_false_iff, negb_false_iff. split.
    + intros [H|H].
      * apply existsb_Neqb in H. apply in_map_iff in H as ([k2 nm2] & E & Hin). cbn [snd] in E. subst nm2.
        exists k, k2, nm. split; [|split; [now left|now right]].
        intros ->. apply Hn. apply in_map_iff. now exists (k2, nm).
      * apply IH in H as (k1 & k2 & n & Hne & H1 & H2).
        exists k1, k2, n. split; [assumption|]. split; now right.
    + intros (k1 & k2 & n & Hne & H1 & H2).
      assert (Hkey : forall a b, In (a, b) l -> In a (map fst l)).
      { intros a b H. apply in_map_iff. now exists (a, b). }
      assert (Hnm : forall a b, In (a, b) l -> In b (map snd l)).
      { intros a b H. apply in_map_iff. now exists (a, b). }
      destruct H1 as [H1|H1], H2 as [H2|H2].
      * inversion H1; inversion H2; subst. congruence.
      * inversion H1; subst. left. apply existsb_Neqb. eapply Hnm; eassumption.
      * inversion H2; subst. left. apply existsb_Neqb. eapply Hnm; eassumption.
      * right. apply IH. exists k1, k2, n. auto.
Qed.

Section Names.
  Context {NN : Num}.
  Local Notation T := (T NN).
  Local Notation enode := (@enode NN).

  (** ** Induction principle for the nested inductive [enode] *)
  Fixpoint enode_ind' (P : enode -> Prop)
           (HT : forall oid pay, P (ETerm oid pay))
           (HC : forall info acts oid pay,
               Forall (fun e => P (snd e)) acts -> P (EChance info acts oid pay))
           (HP : forall pl info name acts oid pay,
               Forall (fun e => P (snd e)) acts -> P (EPlayer pl info name acts oid pay))
           (n : enode) : P n :=
    match n with
    | ETerm oid pay => HT oid pay
    | EChance info acts oid pay =>
        HC info acts oid pay
           ((fix go (l : list (N * T * enode)) : Forall (fun e => P (snd e)) l :=
               match l with
               | [] => Forall_nil _
               | e :: r => Forall_cons e (enode_ind' P HT HC HP (snd e)) (go r)
               end) acts)
    | EPlayer pl info name acts oid pay =>
        HP pl info name acts oid pay
           ((fix go (l : list (N * enode)) : Forall (fun e => P (snd e)) l :=
               match l with
               | [] => Forall_nil _
               | e :: r => Forall_cons e (enode_ind' P HT HC HP (snd e)) (go r)
               end) acts)
    end.

  (** ** The nodes of a file in the order of [e_fold] (depth first, first child first) *)
  Fixpoint enodes (n : enode) : list enode :=
    n :: match n with
         | ETerm _ _ => []
         | EChance _ acts _ _ =>
             (fix go (l : list (N * T * enode)) : list enode :=
                match l with [] => [] | (_, _, c) :: r => enodes c ++ go r end) acts
         | EPlayer _ _ _ acts _ _ =>
             (fix go (l : list (N * enode)) : list enode :=
                match l with [] => [] | (_, c) :: r => enodes c ++ go r end) acts
         end.

  Lemma enodes_EChance info (acts : list (N * T * enode)) oid pay :
    enodes (EChance info acts oid pay) =
    EChance info acts oid pay :: flat_map (fun e => enodes (snd e)) acts.
  Proof.
    cbn [enodes]. f_equal.
    induction acts as [|[[a p] c] r IH]; [reflexivity|]. cbn [flat_map snd]. now rewrite <- IH.
  Qed.

  Lemma enodes_EPlayer pl info name (acts : list (N * enode)) oid pay :
    enodes (EPlayer pl info name acts oid pay) =
    EPlayer pl info name acts oid pay :: flat_map (fun e => enodes (snd e)) acts.
  Proof.
    cbn [enodes]. f_equal.
    induction acts as [|[a c] r IH]; [reflexivity|]. cbn [flat_map snd]. now rewrite <- IH.
  Qed.

  Lemma enodes_root_in n : In n (enodes n).
  Proof. destruct n; cbn [enodes]; now left. Qed.

  (** [e_fold] is a left fold over the nodes *)
  Theorem e_fold_enodes {A} (f : enode -> A -> A) (n : enode) : forall acc,
    e_fold f n acc = fold_left (fun a m => f m a) (enodes n) acc.
  Proof.
    induction n as [oid pay|info acts oid pay IH|pl info name acts oid pay IH] using enode_ind';
      intros acc.
    - reflexivity.
    - rewrite enodes_EChance. cbn [e_fold fold_left].
      generalize (f (EChance info acts oid pay) acc) as acc0.
      induction IH as [|[[a p] c] r Hc Hr IHr]; intros acc0; [reflexivity|].
      cbn [flat_map snd] in *. rewrite fold_left_app, <- Hc. apply IHr.
    - rewrite enodes_EPlayer. cbn [e_fold fold_left].
      generalize (f (EPlayer pl info name acts oid pay) acc) as acc0.
      induction IH as [|[a c] r Hc Hr IHr]; intros acc0; [reflexivity|].
      cbn [flat_map snd] in *. rewrite fold_left_app, <- Hc. apply IHr.
  Qed.

  (** ** Decision nodes: (player, infoset number, given name) *)
  Definition header (n : enode) : option (bool * N * option N) :=
    match n with
    | EPlayer pl info name _ _ _ => Some (pl, info, name)
    | _ => None
    end.

  (** infoset number [k] of player [me] occurs in the file *)
  Definition has_infoset (me : bool) (root : enode) (k : N) : Prop :=
    exists n name, In n (enodes root) /\ header n = Some (me, k, name).

  (** some node of infoset [k] of player [me] carries the name [nm] *)
  Definition has_name (me : bool) (root : enode) (k nm : N) : Prop :=
    exists n, In n (enodes root) /\ header n = Some (me, k, Some nm).

  (** *** [infoset_numbers] *)
  Definition num_step (me : bool) (acc : list N) (n : enode) : list N :=
    match n with
    | EPlayer pl info _ _ _ _ =>
        if Bool.eqb pl me && negb (existsb (N.eqb info) acc) then acc ++ [info] else acc
    | _ => acc
    end.

  Lemma infoset_numbers_fold me (root : enode) :
    infoset_numbers me root = fold_left (num_step me) (enodes root) [].
  Proof. unfold infoset_numbers. rewrite e_fold_enodes. reflexivity. Qed.

  Lemma num_fold_spec me (l : list enode) : forall acc,
    NoDup acc ->
    NoDup (fold_left (num_step me) l acc) /\
    forall k, In k (fold_left (num_step me) l acc) <->
              In k acc \/ exists n name, In n l /\ header n = Some (me, k, name).
  Proof.
    induction l as [|n l IH]; intros acc Hd; cbn [fold_left].
    - split; [assumption|]. intros k. split; [auto|]. intros [H|(n & nm & [] & _)]; assumption.
    - assert (Hstep : NoDup (num_step me acc n) /\
                      forall k, In k (num_step me acc n) <->
                                In k acc \/ exists name, header n = Some (me, k, name)).
      { destruct n as [oid pay|info acts oid pay|pl info name acts oid pay]; cbn [num_step header].
        - split; [assumption|]. intros k; split; [auto|]. intros [H|[nm H]]; [assumption|discriminate].
        - split; [assumption|]. intros k; split; [auto|]. intros [H|[nm H]]; [assumption|discriminate].
        - destruct (Bool.eqb pl me) eqn:Epl; cbn [andb].
          + apply eqb_prop in Epl. subst pl.
            destruct (existsb (N.eqb info) acc) eqn:Eex; cbn [negb].
            * apply existsb_Neqb in Eex. split; [assumption|]. intros k; split; [auto|].
              intros [H|[nm H]]; [assumption|]. inversion H; subst. assumption.
            * assert (~ In info acc) as Hni.
              { intros C. apply existsb_Neqb in C. congruence. }
              split.
              -- now apply NoDup_snoc.
              -- intros k. rewrite in_app_iff. cbn [In]. split.
                 ++ intros [H|[H|[]]]; [now left|]. subst. right. now exists name.
                 ++ intros [H|[nm H]]; [now left|]. inversion H; subst. right. now left.
          + split; [assumption|]. intros k; split; [auto|].
            intros [H|[nm H]]; [assumption|]. inversion H; subst.
            rewrite eqb_reflx in Epl. discriminate. }
      destruct Hstep as [Hd' Hin']. destruct (IH _ Hd') as [IH1 IH2]. split; [assumption|].
      intros k. rewrite IH2, Hin'. split.
      + intros [[H|[nm H]]|(m & nm & Hm & Hh)].
        * now left.
        * right. exists n, nm. split; [now left|assumption].
        * right. exists m, nm. split; [now right|assumption].
      + intros [H|(m & nm & [Hm|Hm] & Hh)].
        * left; now left.
        * subst m. left; right. now exists nm.
        * right. now exists m, nm.
  Qed.

  Theorem infoset_numbers_nodup me (root : enode) : NoDup (infoset_numbers me root).
  Proof. rewrite infoset_numbers_fold. apply num_fold_spec. constructor. Qed.

  Theorem infoset_numbers_in me (root : enode) k : In k (infoset_numbers me root) <-> has_infoset me root k.
  Proof.
    rewrite infoset_numbers_fold. destruct (num_fold_spec me (enodes root) [] (NoDup_nil _)) as [_ H].
    rewrite H. unfold has_infoset. split; [intros [[]|H']; exact H'|now right].
  Qed.

  (** *** [given_names] *)
  Definition given_step (me : bool) (acc : list (N * N)) (n : enode) : list (N * N) :=
    match n with
    | EPlayer pl info (Some nm) _ _ _ =>
        if Bool.eqb pl me then
          match alookup info acc with Some _ => acc | None => acc ++ [(info, nm)] end
        else acc
    | _ => acc
    end.

  Lemma given_names_fold me (root : enode) :
    given_names me root = fold_left (given_step me) (enodes root) [].
  Proof. unfold given_names. rewrite e_fold_enodes. reflexivity. Qed.

  Lemma given_step_spec me acc n :
    NoDup (map fst acc) ->
    NoDup (map fst (given_step me acc n)) /\
    (forall k, In k (map fst (given_step me acc n)) <->
               In k (map fst acc) \/ exists nm, header n = Some (me, k, Some nm)) /\
    (forall k nm, In (k, nm) (given_step me acc n) ->
                  In (k, nm) acc \/ header n = Some (me, k, Some nm)).
  Proof.
    intros Hd.
    assert (Triv : forall a : list (N * N),
               (forall k, ~ exists nm : N, header n = Some (me, k, Some nm)) ->
               NoDup (map fst a) ->
               NoDup (map fst a) /\
               (forall k, In k (map fst a) <->
                          In k (map fst a) \/ exists nm, header n = Some (me, k, Some nm)) /\
               (forall k nm, In (k, nm) a -> In (k, nm) a \/ header n = Some (me, k, Some nm))).
    { intros a Hno Ha. split; [assumption|]. split; [|auto].
      intros k; split; [auto|]. intros [H|H]; [assumption|]. exfalso. now apply (Hno k). }
    destruct n as [oid pay|info acts oid pay|pl info [nm|] acts oid pay]; cbn [given_step].
    - apply Triv; [|assumption]. intros k [nm H]; discriminate.
    - apply Triv; [|assumption]. intros k [nm H]; discriminate.
    - destruct (Bool.eqb pl me) eqn:Epl.
      + apply eqb_prop in Epl. subst pl. cbn [header].
        destruct (alookup info acc) as [v|] eqn:El.
        * split; [assumption|]. split; [|auto].
          intros k; split; [auto|]. intros [H|[nm' H]]; [assumption|]. inversion H; subst.
          apply alookup_some_in in El. apply in_map_iff. now exists (k, v).
        * apply alookup_none in El. split; [|split].
          -- rewrite map_app. cbn [map fst]. now apply NoDup_snoc.
          -- intros k. rewrite map_app, in_app_iff. cbn [map fst In]. split.
             ++ intros [H|[H|[]]]; [now left|]. subst. right. now exists nm.
             ++ intros [H|[nm' H]]; [now left|]. inversion H; subst. right. now left.
          -- intros k nm'. rewrite in_app_iff. cbn [In].
             intros [H|[H|[]]]; [now left|]. inversion H; subst. now right.
      + apply Triv; [|assumption]. intros k [nm' H]. cbn [header] in H. inversion H; subst.
        rewrite eqb_reflx in Epl. discriminate.
    - apply Triv; [|assumption]. intros k [nm' H]; discriminate.
  Qed.

  Lemma given_fold_spec me (l : list enode) : forall acc,
    NoDup (map fst acc) ->
    NoDup (map fst (fold_left (given_step me) l acc)) /\
    (forall k, In k (map fst (fold_left (given_step me) l acc)) <->
               In k (map fst acc) \/ exists n nm, In n l /\ header n = Some (me, k, Some nm)) /\
    (forall k nm, In (k, nm) (fold_left (given_step me) l acc) ->
                  In (k, nm) acc \/ exists n, In n l /\ header n = Some (me, k, Some nm)).
  Proof.
    induction l as [|n l IH]; intros acc Hd; cbn [fold_left].
    - split; [assumption|]. split.
      + intros k; split; [auto|]. intros [H|(n & nm & [] & _)]; assumption.
      + auto.
    - destruct (given_step_spec me acc n Hd) as (S1 & S2 & S3).
      destruct (IH _ S1) as (I1 & I2 & I3). split; [assumption|]. split.
      + intros k. rewrite I2, S2. split.
        * intros [[H|[nm H]]|(m & nm & Hm & Hh)].
          -- now left.
          -- right. exists n, nm. split; [now left|assumption].
          -- right. exists m, nm. split; [now right|assumption].
        * intros [H|(m & nm & [Hm|Hm] & Hh)].
          -- left; now left.
          -- subst m. left; right. now exists nm.
          -- right. now exists m, nm.
      + intros k nm H. apply I3 in H as [H|(m & Hm & Hh)].
        * apply S3 in H as [H|H]; [now left|]. right. exists n. split; [now left|assumption].
        * right. exists m. split; [now right|assumption].
  Qed.

  (** every infoset number has at most one given name in the table *)
  Theorem given_names_nodup me (root : enode) : NoDup (map fst (given_names me root)).
  Proof. rewrite given_names_fold. apply given_fold_spec. constructor. Qed.

  (** an infoset is in the table iff one of its nodes carries a name *)
  Theorem given_names_keys me (root : enode) k :
    In k (map fst (given_names me root)) <-> exists nm, has_name me root k nm.
  Proof.
    rewrite given_names_fold.
    destruct (given_fold_spec me (enodes root) [] (NoDup_nil _)) as (_ & H & _).
    rewrite H. unfold has_name. split.
    - intros [[]|(n & nm & Hn & Hh)]. now exists nm, n.
    - intros (nm & n & Hn & Hh). right. now exists n, nm.
  Qed.

  (** a name in the table is carried by a node of that infoset *)
  Theorem given_names_in me (root : enode) k nm : In (k, nm) (given_names me root) -> has_name me root k nm.
  Proof.
    rewrite given_names_fold.
    destruct (given_fold_spec me (enodes root) [] (NoDup_nil _)) as (_ & _ & H).
    intros Hin. apply H in Hin as [[]|Hin]. exact Hin.
  Qed.

  (** ** [final_names] *)
  Definition unnamed_numbers (me : bool) (root : enode) : list N :=
    filter (fun k => match alookup k (given_names me root) with Some _ => false | None => true end)
           (infoset_numbers me root).

  (** all the names of one player: given ones, then the numeric fallbacks *)
  Definition assigned_names (numname : N -> N) (me : bool) (root : enode) : list (N * N) :=
    given_names me root ++ map (fun k => (k, numname k)) (unnamed_numbers me root).

  (** an unnamed infoset: occurs in the file, no node of it carries a name *)
  Theorem unnamed_numbers_in me (root : enode) k :
    In k (unnamed_numbers me root) <->
    has_infoset me root k /\ ~ exists nm, has_name me root k nm.
  Proof.
    unfold unnamed_numbers. rewrite filter_In, infoset_numbers_in, <- given_names_keys.
    apply and_iff_compat_l.
    destruct (alookup k (given_names me root)) as [v|] eqn:E.
    - split; [discriminate|]. intros H. exfalso. apply H.
      apply alookup_some_in in E. apply in_map_iff. now exists (k, v).
    - apply alookup_none in E. tauto.
  Qed.

  Lemma NoDup_filter {A} (f : A -> bool) l : NoDup l -> NoDup (filter f l).
  Proof.
    induction 1 as [|x l Hn Hd IH]; cbn [filter]; [constructor|].
    destruct (f x); [|assumption]. constructor; [|assumption].
    intros C. apply filter_In in C as [C _]. contradiction.
  Qed.

  (** each infoset number gets one name *)
  Theorem assigned_names_keys_nodup numname me (root : enode) :
    NoDup (map fst (assigned_names numname me root)).
  Proof.
    unfold assigned_names. rewrite map_app, map_map. cbn [fst]. rewrite map_id.
    assert (H1 := given_names_nodup me root).
    assert (H2 : NoDup (unnamed_numbers me root)).
    { unfold unnamed_numbers. apply NoDup_filter, infoset_numbers_nodup. }
    assert (H3 : forall k, In k (map fst (given_names me root)) -> ~ In k (unnamed_numbers me root)).
    { intros k Hk C. apply unnamed_numbers_in in C as [_ C]. apply C. now apply given_names_keys. }
    revert H1 H3. generalize (map fst (given_names me root)) as l1.
    induction l1 as [|x l1 IH]; intros H1 H3; cbn [app]; [assumption|].
    inversion H1 as [|? ? Hn Hd]; subst. constructor.
    - rewrite in_app_iff. intros [C|C]; [contradiction|]. apply (H3 x); [now left|assumption].
    - apply IH; [assumption|]. intros k Hk. apply H3. now right.
  Qed.

  (** the keys of the assignment are exactly the infoset numbers of the player *)
  Theorem assigned_names_keys numname me (root : enode) k :
    In k (map fst (assigned_names numname me root)) <-> has_infoset me root k.
  Proof.
    unfold assigned_names. rewrite map_app, map_map, in_app_iff. cbn [fst]. rewrite map_id.
    rewrite given_names_keys, unnamed_numbers_in. split.
    - intros [(nm & n & Hn & Hh)|[H _]]; [|assumption]. now exists n, (Some nm).
    - intros H.
      destruct (alookup k (given_names me root)) as [v|] eqn:E.
      + left. apply given_names_keys. apply alookup_some_in in E. apply in_map_iff. now exists (k, v).
      + right. split; [assumption|]. apply alookup_none in E. now rewrite <- given_names_keys.
  Qed.

  (** the first cause of the duplicate-infosets diagnostic: the decimal string of the
      number of an unnamed infoset is a given name of the same player *)
  Definition numeric_clash (numname : N -> N) (me : bool) (root : enode) : Prop :=
    exists k, In k (unnamed_numbers me root) /\ In (numname k) (map snd (given_names me root)).

  (** the second cause: two infoset numbers of the player with the same final name *)
  Definition same_name_clash (numname : N -> N) (me : bool) (root : enode) : Prop :=
    exists k1 k2 nm, k1 <> k2 /\ In (k1, nm) (assigned_names numname me root) /\
                     In (k2, nm) (assigned_names numname me root).

  Theorem final_names_none_iff numname me (root : enode) :
    final_names numname me root = None <->
    numeric_clash numname me root \/ same_name_clash numname me root.
  Proof.
    unfold final_names. fold (unnamed_numbers me root). cbv zeta.
    fold (assigned_names numname me root).
    destruct (existsb _ (unnamed_numbers me root)) eqn:E1.
    - split; [intros _|reflexivity]. left.
      apply existsb_exists in E1 as (k & Hk & E). apply existsb_Neqb in E. now exists k.
    - assert (Hno : ~ numeric_clash numname me root).
      { intros (k & Hk & Hin).
        assert (existsb (fun k => existsb (N.eqb (numname k)) (map snd (given_names me root)))
                        (unnamed_numbers me root) = true) as C; [|congruence].
        apply existsb_exists. exists k. split; [assumption|]. now apply existsb_Neqb. }
      pose proof (dup_names_iff _ (assigned_names_keys_nodup numname me root)) as Hdup.
      fold (same_name_clash numname me root) in Hdup.
      destruct (nodupb (map snd (assigned_names numname me root))) eqn:E2.
      + split; [discriminate|]. intros [C|C]; [contradiction|]. apply Hdup in C. discriminate.
      + split; [intros _|reflexivity]. right. now apply Hdup.
  Qed.

  Theorem final_names_some_iff numname me (root : enode) names :
    final_names numname me root = Some names <->
    names = assigned_names numname me root /\
    ~ numeric_clash numname me root /\ NoDup (map snd (assigned_names numname me root)).
  Proof.
    split.
    - intros H.
      assert (Hn : final_names numname me root <> None) by congruence.
      rewrite final_names_none_iff in Hn.
      revert H. unfold final_names. fold (unnamed_numbers me root). cbv zeta.
      fold (assigned_names numname me root).
      destruct (existsb _ (unnamed_numbers me root)); [discriminate|].
      destruct (nodupb _) eqn:E; [|discriminate].
      intros H; inversion H; subst. split; [reflexivity|]. split; [tauto|]. now apply nodupb_iff.
    - intros (-> & H1 & H2).
      destruct (final_names numname me root) as [l|] eqn:E.
      + revert E. unfold final_names. fold (unnamed_numbers me root). cbv zeta.
        fold (assigned_names numname me root).
        destruct (existsb _ (unnamed_numbers me root)); [discriminate|].
        destruct (nodupb _); [|discriminate]. congruence.
      + apply final_names_none_iff in E as [E|E]; [contradiction|].
        exfalso. apply dup_names_iff in E; [|apply assigned_names_keys_nodup].
        apply nodupb_iff in H2. congruence.
  Qed.

  (** when the names are accepted, different infosets of a player have different names and
      every infoset of the player has one: no two infosets are merged, none is split *)
  Theorem final_names_injective numname me (root : enode) names k1 k2 nm :
    final_names numname me root = Some names ->
    In (k1, nm) names -> In (k2, nm) names -> k1 = k2.
  Proof.
    intros H H1 H2. apply final_names_some_iff in H as (-> & _ & Hd).
    destruct (N.eq_dec k1 k2) as [|Hne]; [assumption|]. exfalso.
    assert (nodupb (map snd (assigned_names numname me root)) = false) as C.
    { apply dup_names_iff; [apply assigned_names_keys_nodup|]. now exists k1, k2, nm. }
    apply nodupb_iff in Hd. congruence.
  Qed.

  Theorem final_names_lookup numname me (root : enode) names k :
    final_names numname me root = Some names -> has_infoset me root k ->
    exists nm, alookup k names = Some nm.
  Proof.
    intros H Hk. apply final_names_some_iff in H as (-> & _ & _).
    destruct (alookup k (assigned_names numname me root)) as [nm|] eqn:E; [now exists nm|].
    apply alookup_none in E. exfalso. apply E. now apply assigned_names_keys.
  Qed.

  (** the parser's validation: the names written on the nodes of one infoset agree *)
  Definition names_consistent (me : bool) (root : enode) : Prop :=
    forall k nm nm', has_name me root k nm -> has_name me root k nm' -> nm = nm'.

  Theorem given_names_in_iff me (root : enode) k nm :
    names_consistent me root ->
    (In (k, nm) (given_names me root) <-> has_name me root k nm).
  Proof.
    intros Hc. split; [apply given_names_in|]. intros H.
    assert (Hk : In k (map fst (given_names me root))) by (apply given_names_keys; now exists nm).
    apply in_map_iff in Hk as ([k' nm'] & E & Hin). cbn [fst] in E. subst k'.
    rewrite (Hc k nm nm' H (given_names_in me root k nm' Hin)). exact Hin.
  Qed.

  (** the first cause, on the file itself: an infoset of the player none of whose nodes is
      named, and the string of its number is written as the name of another infoset of the
      same player *)
  Theorem numeric_clash_iff numname me (root : enode) :
    names_consistent me root ->
    (numeric_clash numname me root <->
     exists k k' : N, has_infoset me root k /\ ~ (exists nm : N, has_name me root k nm) /\
                      has_name me root k' (numname k)).
  Proof.
    intros Hc. unfold numeric_clash. split.
    - intros (k & Hk & Hin). apply unnamed_numbers_in in Hk as [H1 H2].
      apply in_map_iff in Hin as ([k' nm] & E & Hin). cbn [snd] in E. subst nm.
      exists k, k'. repeat split; [assumption|assumption|]. now apply given_names_in.
    - intros (k & k' & H1 & H2 & H3). exists k. split; [now apply unnamed_numbers_in|].
      apply in_map_iff. exists (k', numname k). split; [reflexivity|].
      now apply given_names_in_iff.
  Qed.

  (** ** The two players' name spaces are separate *)

  (** forget the names given to player two's infosets *)
  Fixpoint erase_names (who : bool) (n : enode) : enode :=
    match n with
    | ETerm oid pay => ETerm oid pay
    | EChance info acts oid pay =>
        EChance info
                ((fix go (l : list (N * T * enode)) : list (N * T * enode) :=
                    match l with [] => [] | (a, p, c) :: r => (a, p, erase_names who c) :: go r end)
                   acts) oid pay
    | EPlayer pl info name acts oid pay =>
        EPlayer pl info (if Bool.eqb pl who then None else name)
                ((fix go (l : list (N * enode)) : list (N * enode) :=
                    match l with [] => [] | (a, c) :: r => (a, erase_names who c) :: go r end)
                   acts) oid pay
    end.

  Lemma erase_names_EChance who info (acts : list (N * T * enode)) oid pay :
    erase_names who (EChance info acts oid pay) =
    EChance info (map (fun e => (fst e, erase_names who (snd e))) acts) oid pay.
  Proof.
    cbn [erase_names]. f_equal.
    induction acts as [|[[a p] c] r IH]; [reflexivity|]. cbn [map fst snd]. now rewrite <- IH.
  Qed.

  Lemma erase_names_EPlayer who pl info name (acts : list (N * enode)) oid pay :
    erase_names who (EPlayer pl info name acts oid pay) =
    EPlayer pl info (if Bool.eqb pl who then None else name)
            (map (fun e => (fst e, erase_names who (snd e))) acts) oid pay.
  Proof.
    cbn [erase_names]. f_equal.
    induction acts as [|[a c] r IH]; [reflexivity|]. cbn [map fst snd]. now rewrite <- IH.
  Qed.

  Lemma enodes_erase who n : enodes (erase_names who n) = map (erase_names who) (enodes n).
  Proof.
    induction n as [oid pay|info acts oid pay IH|pl info name acts oid pay IH] using enode_ind'.
    - reflexivity.
    - rewrite erase_names_EChance, !enodes_EChance. cbn [map]. rewrite <- erase_names_EChance.
      f_equal. induction IH as [|[[a p] c] r Hc Hr IHr]; [reflexivity|].
      cbn [map flat_map fst snd] in *. now rewrite map_app, Hc, IHr.
    - rewrite erase_names_EPlayer, !enodes_EPlayer. cbn [map]. rewrite <- erase_names_EPlayer.
      f_equal. induction IH as [|[a c] r Hc Hr IHr]; [reflexivity|].
      cbn [map flat_map fst snd] in *. now rewrite map_app, Hc, IHr.
  Qed.

  Lemma fold_left_map_step {A C} (f : A -> C -> A) (h : C -> C) l : forall acc,
    (forall a c, f a (h c) = f a c) ->
    fold_left f (map h l) acc = fold_left f l acc.
  Proof.
    induction l as [|x l IH]; intros acc H; [reflexivity|]. cbn [map fold_left]. rewrite H. now apply IH.
  Qed.

  Lemma given_step_erase me who acc n :
    who <> me -> given_step me acc (erase_names who n) = given_step me acc n.
  Proof.
    intros Hne. destruct n as [oid pay|info acts oid pay|pl info name acts oid pay].
    - reflexivity.
    - now rewrite erase_names_EChance.
    - rewrite erase_names_EPlayer. cbn [given_step].
      destruct (Bool.eqb pl who) eqn:E; [|reflexivity].
      apply eqb_prop in E. subst pl.
      assert (Bool.eqb who me = false) as -> by (destruct who, me; try reflexivity; congruence).
      now destruct name.
  Qed.

  Lemma num_step_erase me who acc n : num_step me acc (erase_names who n) = num_step me acc n.
  Proof.
    destruct n as [oid pay|info acts oid pay|pl info name acts oid pay].
    - reflexivity.
    - now rewrite erase_names_EChance.
    - now rewrite erase_names_EPlayer.
  Qed.

  Theorem given_names_erase me who (root : enode) :
    who <> me -> given_names me (erase_names who root) = given_names me root.
  Proof.
    intros Hne. rewrite !given_names_fold, enodes_erase.
    apply fold_left_map_step. intros a c. now apply given_step_erase.
  Qed.

  Theorem infoset_numbers_erase me who (root : enode) :
    infoset_numbers me (erase_names who root) = infoset_numbers me root.
  Proof.
    rewrite !infoset_numbers_fold, enodes_erase.
    apply fold_left_map_step. intros a c. apply num_step_erase.
  Qed.

  (** the names of a player's infosets do not depend on the names written on the other
      player's infosets: erasing the latter changes nothing ... *)
  Theorem final_names_erase numname me who (root : enode) :
    who <> me -> final_names numname me (erase_names who root) = final_names numname me root.
  Proof.
    intros Hne. unfold final_names.
    now rewrite (given_names_erase me who root Hne), infoset_numbers_erase.
  Qed.

  (** ... hence two files that differ only in the [name] fields of player two's decision
      nodes give player one's infosets the same names (and are rejected for player one's
      names alike) *)
  Corollary final_names_separate numname (root root' : enode) :
    erase_names false root = erase_names false root' ->
    final_names numname true root = final_names numname true root'.
  Proof.
    intros H.
    rewrite <- (final_names_erase numname true false root), <- (final_names_erase numname true false root'),
      H by discriminate. reflexivity.
  Qed.

  Corollary final_names_separate2 numname (root root' : enode) :
    erase_names true root = erase_names true root' ->
    final_names numname false root = final_names numname false root'.
  Proof.
    intros H.
    rewrite <- (final_names_erase numname false true root), <- (final_names_erase numname false true root'),
      H by discriminate. reflexivity.
  Qed.
End Names.
