(** * SampledConcentration: second moment and a Chebyshev bound for the chance-sampled solver.

    [SampledMartingale.v] shows that along a run of the chance-sampled solver the differences
    [d_t = sampled increment - true increment] of the regret of [(pl, i, a)] are martingale
    differences.  Here:

    - [md_orthogonal_past], [md_orthogonal]: [d_t] is orthogonal to every function of the
      first [t] draw vectors, in particular to [d_s], [s < t], under the expectation over any
      number [T > t] of iterations;
    - [mart_second_moment]: [E[M_T^2] = sum_{t<T} E[d_t^2]] for [M_T = sum_{t<T} d_t];
    - [md_abs_bound]: [|d_t| <= 2 (hi - lo)] on every history that carries weight;
    - [chebyshev_run]: the finite Chebyshev inequality for [expect_run];
    - [sampled_chebyshev], [sampled_chebyshev_rate], [sampled_chebyshev_vanilla],
      [sampled_deviation_vanishes]: the probability bounds. *)
From Coq Require Import Reals List Lra Lia Bool Arith NArith.
From Cfr.theories Require Import Num RInst Tree GameWF Strat Eval Solve Valid TruncProofs
     SolveValidProofs LoopProofs Incr IterChar RmPotential CfMass CfrRate SampledRate Unbiased
     SampledMartingale.
Import ListNotations.
Open Scope R_scope.

Local Notation nodeR := (@node RNum).
Local Notation gameR := (@game RNum).
Local Notation pstateR := (@pstate RNum).
Local Notation paramsR := (@params RNum).
Local Notation oracleR := (@oracle RNum).

(** ** The histories that carry weight: every draw is an index into its chance row *)
Definition draw_in (rows : list (list R)) (d : list nat) : Prop :=
  Forall2 (fun k r => (k < length r)%nat) d rows.

Definition history_in (rows : list (list R)) (n : nat) (ds : list (list nat)) : Prop :=
  length ds = n /\ Forall (draw_in rows) ds.

Lemma history_in_nth rows n ds t :
  history_in rows n ds -> (t < n)%nat -> draw_in rows (nth t ds []).
Proof.
  intros [Hl HF] Ht. rewrite Forall_forall in HF. apply HF. apply nth_In. lia.
Qed.

(** monotonicity needs the comparison on these histories only *)
Lemma wsum_le_dom r (g h : nat -> R) :
  Forall (fun x => 0 <= x) r -> (forall k, (k < length r)%nat -> g k <= h k) ->
  wsum r g <= wsum r h.
Proof.
  intros Hr. revert g h; induction Hr as [|x r Hx Hr IH]; intros g h H; cbn [wsum]; [lra|].
  assert (H1 : wsum r (fun k => g (S k)) <= wsum r (fun k => h (S k))).
  { apply IH. intros k Hk. apply H. cbn [length]. lia. }
  pose proof (H O ltac:(cbn [length]; lia)) as H0. nra.
Qed.

Lemma expect_le_dom rows (f h : list nat -> R) :
  Forall (Forall (fun x => 0 <= x)) rows -> (forall d, draw_in rows d -> f d <= h d) ->
  expect rows f <= expect rows h.
Proof.
  intros Hr. revert f h; induction Hr as [|r rs Hx Hr IH]; intros f h H; cbn [expect].
  - apply H. constructor.
  - apply wsum_le_dom; [assumption|]. intros k Hk. apply IH. intros d Hd. apply H.
    constructor; assumption.
Qed.

Lemma expect_run_le_dom rows n (f h : list (list nat) -> R) :
  Forall (Forall (fun x => 0 <= x)) rows -> (forall ds, history_in rows n ds -> f ds <= h ds) ->
  expect_run rows n f <= expect_run rows n h.
Proof.
  intros Hr. revert f h; induction n as [|n IH]; intros f h H; cbn [expect_run].
  - apply H. split; [reflexivity|constructor].
  - apply expect_le_dom; [assumption|]. intros d Hd. apply IH. intros ds [Hl HF]. apply H.
    split; [cbn [length]; now rewrite Hl|now constructor].
Qed.

(** ** More about [expect_run] *)

(** a function of the first [n] iterations: any number of trailing iterations is irrelevant *)
Lemma expect_run_firstn rows n k (f : list (list nat) -> R) :
  Forall (fun r => Rsum r = 1) rows ->
  expect_run rows (n + k) (fun ds => f (firstn n ds)) = expect_run rows n f.
Proof.
  intros Hr. induction k as [|k IH].
  - rewrite Nat.add_0_r. apply expect_run_ext. intros ds [Hl _]. now rewrite <- Hl, firstn_all.
  - rewrite Nat.add_succ_r, <- IH.
    rewrite <- (expect_run_S_irrelevant rows (n + k) (fun ds => f (firstn n ds))) by assumption.
    apply expect_run_ext. intros ds _. rewrite firstn_firstn. now rewrite Nat.min_l by lia.
Qed.

Lemma expect_run_zero rows n : expect_run rows n (fun _ => 0) = 0.
Proof.
  rewrite (expect_run_ext rows n _ (fun _ => 0 * 0)) by (intros; lra).
  rewrite (expect_run_scal rows n 0 (fun _ => 0)). lra.
Qed.

Lemma expect_run_sum_upto rows n m (F : nat -> list (list nat) -> R) :
  expect_run rows n (fun ds => sum_upto m (fun t => F t ds)) =
  sum_upto m (fun t => expect_run rows n (F t)).
Proof.
  induction m as [|m IH]; cbn [sum_upto]; [apply expect_run_zero|].
  now rewrite expect_run_plus, IH.
Qed.

Lemma sum_upto_le n (f h : nat -> R) :
  (forall t, (t < n)%nat -> f t <= h t) -> sum_upto n f <= sum_upto n h.
Proof.
  induction n as [|n IH]; intros H; cbn [sum_upto]; [lra|].
  pose proof (H n ltac:(lia)). assert (sum_upto n f <= sum_upto n h) by (apply IH; intros; apply H; lia).
  lra.
Qed.

Lemma sum_upto_const n c : sum_upto n (fun _ => c) = c * INR n.
Proof.
  induction n as [|n IH]; [cbn [sum_upto INR]; lra|].
  cbn [sum_upto]. rewrite IH, S_INR. lra.
Qed.

Lemma nth_firstn_lt {A} (l : list A) n t d : (t < n)%nat -> nth t (firstn n l) d = nth t l d.
Proof.
  revert n t; induction l as [|x l IH]; intros n t Ht.
  - now rewrite firstn_nil.
  - destruct n as [|n]; [lia|]. cbn [firstn]. destruct t as [|t]; [reflexivity|].
    cbn [nth]. apply IH. lia.
Qed.

(** ** The finite Chebyshev inequality *)

(** the indicator of the event [lam <= |x|] *)
Definition ind_ge (lam x : R) : R := if Rle_dec lam (Rabs x) then 1 else 0.

Lemma ind_ge_range lam x : 0 <= ind_ge lam x <= 1.
Proof. unfold ind_ge. destruct (Rle_dec lam (Rabs x)); lra. Qed.

Lemma ind_ge_le_sq lam x : 0 < lam -> ind_ge lam x <= x ^ 2 / lam ^ 2.
Proof.
  intros Hl. unfold ind_ge, Rdiv.
  assert (Hu : 0 < / lam ^ 2) by (apply Rinv_0_lt_compat; nra).
  assert (E : lam ^ 2 * / lam ^ 2 = 1) by (apply Rinv_r; nra).
  assert (Hx : 0 <= x ^ 2) by nra.
  destruct (Rle_dec lam (Rabs x)) as [H|H].
  - assert (H2 : lam ^ 2 <= x ^ 2).
    { rewrite <- (pow2_abs x). pose proof (Rabs_pos x). nra. }
    pose proof (Rmult_le_compat_r (/ lam ^ 2) _ _ (Rlt_le _ _ Hu) H2). lra.
  - apply Rmult_le_pos; lra.
Qed.

Theorem chebyshev_run rows n lam (f : list (list nat) -> R) :
  Forall (Forall (fun x => 0 <= x)) rows -> 0 < lam ->
  expect_run rows n (fun ds => ind_ge lam (f ds)) <=
  expect_run rows n (fun ds => f ds ^ 2) / lam ^ 2.
Proof.
  intros Hr Hl. unfold Rdiv. rewrite Rmult_comm, <- expect_run_scal.
  apply expect_run_le; [assumption|]. intros ds.
  pose proof (ind_ge_le_sq lam (f ds) Hl) as H. unfold Rdiv in H. lra.
Qed.

(** the weight of an event is between 0 and 1 *)
Lemma expect_run_ind_range rows n lam (f : list (list nat) -> R) :
  Forall (Forall (fun x => 0 <= x)) rows -> Forall (fun r => Rsum r = 1) rows ->
  0 <= expect_run rows n (fun ds => ind_ge lam (f ds)) <= 1.
Proof.
  intros Hn Hs. split.
  - rewrite <- (expect_run_zero rows n). apply expect_run_le; [assumption|].
    intros ds. apply ind_ge_range.
  - rewrite <- (expect_run_const rows n 1 Hs). apply expect_run_le; [assumption|].
    intros ds. apply ind_ge_range.
Qed.

Lemma ChanceOK_nonneg (g : gameR) :
  ChanceOK g -> Forall (Forall (fun x => 0 <= x)) (g_chance g).
Proof.
  unfold ChanceOK. apply Forall_impl. intros r [H _]. revert H. apply Forall_impl.
  intros x Hx. lra.
Qed.

(** ** The martingale of the chance-sampled run *)
Section Conc.
  Context (g : gameR) (p : paramsR).
  Context (HWF : WFgame g) (HCO : ChanceOK g) (HNR : NoRepeat (g_root g)).
  Local Notation rows := (g_chance g).

  (** the martingale difference of iteration [t+1] and the martingale *)
  Definition md (pl : bool) (i a : nat) (ds : list (list nat)) (t : nat) : R :=
    sampled_inc_at g p pl i a ds t - true_inc_at g p pl i a ds t.
  Definition mart (pl : bool) (i a : nat) (T : nat) (ds : list (list nat)) : R :=
    sum_upto T (md pl i a ds).

  Lemma mart_split pl i a T ds :
    mart pl i a T ds =
    sum_upto T (sampled_inc_at g p pl i a ds) - sum_upto T (true_inc_at g p pl i a ds).
  Proof. unfold mart, md. apply sum_upto_minus. Qed.

  (** [d_t] depends on the first [t+1] draw vectors only *)
  Lemma md_firstn pl i a ds n t : (t < n)%nat -> md pl i a (firstn n ds) t = md pl i a ds t.
  Proof.
    intros Ht. unfold md, sampled_inc_at, true_inc_at.
    rewrite firstn_firstn, Nat.min_l by lia. now rewrite nth_firstn_lt by assumption.
  Qed.

  Lemma mart_firstn pl i a ds n T : (T <= n)%nat -> mart pl i a T (firstn n ds) = mart pl i a T ds.
  Proof. intros H. apply sum_upto_ext. intros t Ht. apply md_firstn. lia. Qed.

  (** *** 1. Orthogonality *)
  Theorem md_orthogonal_past pl i a n T (h : list (list nat) -> R) :
    (n < T)%nat ->
    expect_run rows T (fun ds => h (firstn n ds) * md pl i a ds n) = 0.
  Proof.
    intros Hn. pose proof (ChanceOK_sums g HCO) as Hr.
    replace T with (S n + (T - S n))%nat by lia.
    pose (F := fun es : list (list nat) => h (firstn n es) * md pl i a es n).
    rewrite (expect_run_ext rows _ _ (fun ds => F (firstn (S n) ds))).
    2:{ intros ds _. unfold F. rewrite firstn_firstn, Nat.min_l by lia.
        now rewrite md_firstn by lia. }
    rewrite (expect_run_firstn rows (S n) (T - S n) F Hr). unfold F.
    exact (sampled_md_orthogonal g p HWF HCO HNR pl i a n h).
  Qed.

  Theorem md_orthogonal pl i a s t T :
    (s < t)%nat -> (t < T)%nat ->
    expect_run rows T (fun ds => md pl i a ds s * md pl i a ds t) = 0.
  Proof.
    intros Hs Ht.
    rewrite <- (md_orthogonal_past pl i a t T (fun ds => md pl i a ds s) Ht).
    apply expect_run_ext. intros ds _. now rewrite md_firstn by assumption.
  Qed.

  (** the same across two different regret entries: covariances of different iterations vanish *)
  Theorem md_orthogonal_cross pl i a pl' i' a' s t T :
    (s < t)%nat -> (t < T)%nat ->
    expect_run rows T (fun ds => md pl' i' a' ds s * md pl i a ds t) = 0.
  Proof.
    intros Hs Ht.
    rewrite <- (md_orthogonal_past pl i a t T (fun ds => md pl' i' a' ds s) Ht).
    apply expect_run_ext. intros ds _. now rewrite md_firstn by assumption.
  Qed.

  (** *** 2. The second moment *)
  Lemma mart_second_moment_prefix pl i a n T :
    (n <= T)%nat ->
    expect_run rows T (fun ds => mart pl i a n ds ^ 2) =
    sum_upto n (fun t => expect_run rows T (fun ds => md pl i a ds t ^ 2)).
  Proof.
    pose proof (ChanceOK_sums g HCO) as Hr.
    induction n as [|n IH]; intros Hn.
    - cbn [sum_upto]. rewrite (expect_run_ext rows T _ (fun _ => 0)); [apply expect_run_zero|].
      intros ds _. unfold mart. cbn [sum_upto]. lra.
    - cbn [sum_upto]. rewrite <- IH by lia.
      rewrite (expect_run_ext rows T _
                 (fun ds => mart pl i a n ds ^ 2 +
                            (2 * (mart pl i a n (firstn n ds) * md pl i a ds n) +
                             md pl i a ds n ^ 2))).
      2:{ intros ds _. rewrite mart_firstn by lia. unfold mart. cbn [sum_upto]. ring. }
      rewrite expect_run_plus, expect_run_plus, expect_run_scal.
      rewrite (md_orthogonal_past pl i a n T (mart pl i a n)) by lia. lra.
  Qed.

  Theorem mart_second_moment pl i a T :
    expect_run rows T (fun ds => mart pl i a T ds ^ 2) =
    sum_upto T (fun t => expect_run rows T (fun ds => md pl i a ds t ^ 2)).
  Proof. apply mart_second_moment_prefix. lia. Qed.

  (** *** 2'. with a bound on the differences as a hypothesis *)
  Section Bounded.
    Context (pl : bool) (i a : nat) (C : R).
    Context (HC : forall T ds t, history_in rows T ds -> (t < T)%nat -> Rabs (md pl i a ds t) <= C).

    Lemma mart_second_moment_le T :
      expect_run rows T (fun ds => mart pl i a T ds ^ 2) <= C ^ 2 * INR T.
    Proof.
      pose proof (ChanceOK_sums g HCO) as Hr. pose proof (ChanceOK_nonneg g HCO) as Hnn.
      rewrite mart_second_moment, <- sum_upto_const.
      apply sum_upto_le. intros t Ht.
      rewrite <- (expect_run_const rows T (C ^ 2) Hr).
      apply expect_run_le_dom; [assumption|]. intros ds Hds.
      pose proof (HC T ds t Hds Ht) as H. rewrite <- (pow2_abs (md pl i a ds t)).
      pose proof (Rabs_pos (md pl i a ds t)). nra.
    Qed.

    Theorem mart_chebyshev_gen T lam :
      0 < lam ->
      expect_run rows T (fun ds => ind_ge lam (mart pl i a T ds)) <= C ^ 2 * INR T / lam ^ 2.
    Proof.
      intros Hl. pose proof (ChanceOK_nonneg g HCO) as Hnn.
      eapply Rle_trans; [apply chebyshev_run; assumption|].
      unfold Rdiv. apply Rmult_le_compat_r; [|apply mart_second_moment_le].
      apply Rlt_le, Rinv_0_lt_compat. nra.
    Qed.
  End Bounded.
End Conc.

(** ** 3. Every difference is bounded by twice the payoff range *)
Lemma draw_in_DrawOK chance d : draw_in chance d -> DrawOK chance (draw_of d).
Proof.
  intros H ci pass Hci. unfold draw_of, row.
  pose proof (Forall2_len _ _ _ H) as Hl.
  exact (Forall2_nth _ d chance ci O [] H ltac:(lia)).
Qed.

Lemma InvA_strat_len (g : gameR) (st : pstateR) pl i :
  InvA (arities g true) (arities g false) st -> (i < length (arities g pl))%nat ->
  length (strat_view st pl i) = nth i (arities g pl) O.
Proof.
  intros [H1 H2] Hi.
  assert (HF : Forall2 RInvA (arities g pl) (ps_get st pl)) by (destruct pl; assumption).
  pose proof (Forall2_nth RInvA _ _ i 0%nat (@mkRinfo RNum [] [] []) HF Hi) as H.
  destruct H as (_ & _ & _ & _ & L3). exact L3.
Qed.

Section Bound.
  Context (g : gameR) (p : paramsR) (lo hi : R).
  Context (HWF : WFgame g) (HPR : PerfectRecall g) (HCO : ChanceOK g)
          (HPay : PayoffsIn lo hi (g_root g)).
  Local Notation rows := (g_chance g).
  Local Notation IA := (InvA (arities g true) (arities g false)).

  (** the sampled increment is [cfr_inc] over the one-hot chance table of the draws *)
  Lemma sampled_inc_onehot pl i a it (st : pstateR) d :
    IA st ->
    sampled_inc g pl i a it st d =
    cfr_inc (samp_chance rows (draw_of d) (it - 1)%N) (strat_view st) pl i a (g_root g) 1 1 1.
  Proof.
    intros HI. unfold sampled_inc. apply reg_sum_vincs_sampled.
    apply shaped_ValShaped; [assumption|assumption|]. now destruct HWF as (HS & _).
  Qed.

  Lemma sampled_inc_abs pl i a it (st : pstateR) d :
    IA st -> draw_in rows d -> (a < length (strat_view st pl i))%nat ->
    Rabs (sampled_inc g pl i a it st d) <= hi - lo.
  Proof.
    intros HI Hd Ha. rewrite sampled_inc_onehot by assumption.
    apply (sampled_inc_bounded g (draw_of d) lo hi HWF HPR HCO HPay (draw_in_DrawOK _ _ Hd));
      assumption.
  Qed.

  Lemma true_inc_abs pl i a (st : pstateR) :
    IA st -> (a < length (strat_view st pl i))%nat -> Rabs (true_inc g pl i a st) <= hi - lo.
  Proof. intros HI Ha. unfold true_inc. now apply cfr_inc_bounded. Qed.

  Context (pl : bool) (i a : nat).
  Context (Hi : (i < length (arities g pl))%nat) (Ha : (a < nth i (arities g pl) O)%nat).

  Lemma run_state_action ds : (a < length (strat_view (run_state g p ds) pl i))%nat.
  Proof. rewrite (InvA_strat_len g _ pl i (run_state_inv g p ds HWF) Hi). exact Ha. Qed.

  Theorem sampled_inc_at_abs T ds t :
    history_in rows T ds -> (t < T)%nat -> Rabs (sampled_inc_at g p pl i a ds t) <= hi - lo.
  Proof.
    intros Hds Ht. unfold sampled_inc_at. apply sampled_inc_abs.
    - now apply run_state_inv.
    - eapply history_in_nth; eauto.
    - apply run_state_action.
  Qed.

  Theorem true_inc_at_abs ds t : Rabs (true_inc_at g p pl i a ds t) <= hi - lo.
  Proof.
    unfold true_inc_at. apply true_inc_abs; [now apply run_state_inv|apply run_state_action].
  Qed.

  Theorem md_abs_bound T ds t :
    history_in rows T ds -> (t < T)%nat -> Rabs (md g p pl i a ds t) <= 2 * (hi - lo).
  Proof.
    intros Hds Ht. unfold md.
    pose proof (sampled_inc_at_abs T ds t Hds Ht) as H1. pose proof (true_inc_at_abs ds t) as H2.
    unfold Rminus. eapply Rle_trans; [apply Rabs_triang|]. rewrite Rabs_Ropp. lra.
  Qed.

  Context (HNR : NoRepeat (g_root g)).

  (** *** the second moment of the martingale grows at most linearly *)
  Theorem mart_second_moment_bound T :
    expect_run rows T (fun ds => mart g p pl i a T ds ^ 2) <= 4 * (hi - lo) ^ 2 * INR T.
  Proof.
    replace (4 * (hi - lo) ^ 2) with ((2 * (hi - lo)) ^ 2) by ring.
    apply (mart_second_moment_le g p HWF HCO HNR pl i a (2 * (hi - lo)) md_abs_bound).
  Qed.

  (** *** 4. Chebyshev: the weight of the histories on which the accumulated sampled regret
      deviates from the accumulated true counterfactual regret by [lam] or more *)
  Theorem sampled_chebyshev T lam :
    0 < lam ->
    expect_run rows T (fun ds => ind_ge lam (mart g p pl i a T ds)) <=
    4 * (hi - lo) ^ 2 * INR T / lam ^ 2.
  Proof.
    intros Hl. replace (4 * (hi - lo) ^ 2) with ((2 * (hi - lo)) ^ 2) by ring.
    apply (mart_chebyshev_gen g p HWF HCO HNR pl i a (2 * (hi - lo)) md_abs_bound T lam Hl).
  Qed.

  Corollary sampled_chebyshev_explicit T lam :
    0 < lam ->
    expect_run rows T
      (fun ds => if Rle_dec lam (Rabs (sum_upto T (sampled_inc_at g p pl i a ds) -
                                       sum_upto T (true_inc_at g p pl i a ds)))
                 then 1 else 0) <=
    4 * (hi - lo) ^ 2 * INR T / lam ^ 2.
  Proof.
    intros Hl. eapply Rle_trans; [|apply (sampled_chebyshev T lam Hl)].
    apply Req_le. apply expect_run_ext. intros ds _. unfold ind_ge. now rewrite mart_split.
  Qed.
End Bound.

(** ** 5. Rate form: the average deviation per iteration *)
Lemma ind_ge_scale eps x c : 0 < c -> ind_ge eps (x / c) = ind_ge (eps * c) x.
Proof.
  intros Hc. unfold ind_ge, Rdiv.
  assert (Hu : 0 < / c) by now apply Rinv_0_lt_compat.
  assert (E : c * / c = 1) by (apply Rinv_r; lra).
  rewrite Rabs_mult, (Rabs_right (/ c)) by lra.
  set (y := Rabs x). set (u := / c) in *.
  destruct (Rle_dec eps (y * u)) as [H1|H1], (Rle_dec (eps * c) y) as [H2|H2];
    try reflexivity; exfalso.
  - apply H2. pose proof (Rmult_le_compat_r c _ _ (Rlt_le _ _ Hc) H1) as H.
    replace (y * u * c) with (y * (c * u)) in H by ring. rewrite E in H. lra.
  - apply H1. pose proof (Rmult_le_compat_r u _ _ (Rlt_le _ _ Hu) H2) as H.
    replace (eps * c * u) with (eps * (c * u)) in H by ring. rewrite E in H. lra.
Qed.

Lemma nat_above (K : R) : exists n : nat, K < INR n.
Proof.
  destruct (archimed K) as [H _]. exists (Z.to_nat (up K)).
  destruct (Z_lt_le_dec (up K) 0) as [Hn|Hp].
  - apply IZR_lt in Hn. eapply Rlt_le_trans; [apply H|]. pose proof (pos_INR (Z.to_nat (up K))). lra.
  - rewrite INR_IZR_INZ, Z2Nat.id by assumption. lra.
Qed.

Section Rate.
  Context (g : gameR) (p : paramsR) (lo hi : R).
  Context (HWF : WFgame g) (HPR : PerfectRecall g) (HCO : ChanceOK g)
          (HPay : PayoffsIn lo hi (g_root g)) (HNR : NoRepeat (g_root g)).
  Context (pl : bool) (i a : nat).
  Context (Hi : (i < length (arities g pl))%nat) (Ha : (a < nth i (arities g pl) O)%nat).
  Local Notation rows := (g_chance g).

  Theorem sampled_chebyshev_rate T eps :
    (0 < T)%nat -> 0 < eps ->
    expect_run rows T (fun ds => ind_ge eps (mart g p pl i a T ds / INR T)) <=
    4 * (hi - lo) ^ 2 / (eps ^ 2 * INR T).
  Proof.
    intros HT He. assert (HT' : 0 < INR T) by (apply lt_0_INR; lia).
    rewrite (expect_run_ext rows T _ (fun ds => ind_ge (eps * INR T) (mart g p pl i a T ds)))
      by (intros; now apply ind_ge_scale).
    eapply Rle_trans.
    - apply (sampled_chebyshev g p lo hi HWF HPR HCO HPay pl i a Hi Ha HNR T (eps * INR T)). nra.
    - apply Req_le. field. lra.
  Qed.

  (** the bound tends to 0: for every accuracy [eps] and every [delta] the weight of the runs
      whose average deviation is [eps] or more is below [delta] from some budget on *)
  Theorem sampled_deviation_vanishes eps delta :
    0 < eps -> 0 < delta ->
    exists T0 : nat, forall T, (T0 <= T)%nat ->
      expect_run rows T (fun ds => ind_ge eps (mart g p pl i a T ds / INR T)) <= delta.
  Proof.
    intros He Hd. destruct (nat_above (4 * (hi - lo) ^ 2 / (eps ^ 2 * delta))) as [T0 HT0].
    exists (S T0). intros T HT.
    assert (HT' : INR T0 < INR T) by (apply lt_INR; lia).
    assert (Hpos : 0 < INR T) by (apply lt_0_INR; lia).
    eapply Rle_trans; [apply sampled_chebyshev_rate; [lia|assumption]|].
    assert (Hed : 0 < eps ^ 2 * delta) by (apply Rmult_lt_0_compat; nra).
    assert (HeT : 0 < eps ^ 2 * INR T) by (apply Rmult_lt_0_compat; nra).
    assert (HK : 4 * (hi - lo) ^ 2 < INR T * (eps ^ 2 * delta)).
    { replace (4 * (hi - lo) ^ 2)
        with (4 * (hi - lo) ^ 2 / (eps ^ 2 * delta) * (eps ^ 2 * delta)) by (field; lra).
      apply Rmult_lt_compat_r; lra. }
    apply (Rmult_le_reg_r (eps ^ 2 * INR T)); [assumption|].
    replace (4 * (hi - lo) ^ 2 / (eps ^ 2 * INR T) * (eps ^ 2 * INR T))
      with (4 * (hi - lo) ^ 2) by (field; lra).
    lra.
  Qed.
End Rate.

(** ** 5'. Undiscounted parameters: the solver's own cumulative regret *)
Section VanillaConc.
  Context (g : gameR) (lo hi : R).
  Context (HWF : WFgame g) (HPR : PerfectRecall g) (HCO : ChanceOK g)
          (HPay : PayoffsIn lo hi (g_root g)) (HNR : NoRepeat (g_root g)).
  Context (pl : bool) (i a : nat).
  Context (Hi : (i < length (arities g pl))%nat) (Ha : (a < nth i (arities g pl) O)%nat).
  Local Notation rows := (g_chance g).
  Local Notation pv := (@p_vanilla RNum).

  (** the deviation of the cumulative regret the solver holds after the run [ds] from the sum
      of the true counterfactual regret increments at the strategies the run has played *)
  Definition regret_dev (T : nat) (ds : list (list nat)) : R :=
    nth a (cum_regret (@ri_get RNum (run_state g pv ds) pl i)) 0 -
    sum_upto T (true_inc_at g pv pl i a ds).

  Lemma regret_dev_mart T ds : length ds = T -> regret_dev T ds = mart g pv pl i a T ds.
  Proof.
    intros Hl. unfold regret_dev. rewrite mart_split, <- Hl.
    now rewrite (run_state_regret_vanilla g HWF ds pl i a Hi Ha).
  Qed.

  Theorem vanilla_second_moment_bound T :
    expect_run rows T (fun ds => regret_dev T ds ^ 2) <= 4 * (hi - lo) ^ 2 * INR T.
  Proof.
    rewrite (expect_run_ext rows T _ (fun ds => mart g pv pl i a T ds ^ 2)).
    - now apply (mart_second_moment_bound g pv lo hi HWF HPR HCO HPay pl i a Hi Ha HNR T).
    - intros ds [Hl _]. now rewrite regret_dev_mart.
  Qed.

  Theorem sampled_chebyshev_vanilla T lam :
    0 < lam ->
    expect_run rows T (fun ds => ind_ge lam (regret_dev T ds)) <=
    4 * (hi - lo) ^ 2 * INR T / lam ^ 2.
  Proof.
    intros Hl.
    rewrite (expect_run_ext rows T _ (fun ds => ind_ge lam (mart g pv pl i a T ds))).
    - now apply (sampled_chebyshev g pv lo hi HWF HPR HCO HPay pl i a Hi Ha HNR T lam).
    - intros ds [Hl' _]. now rewrite regret_dev_mart.
  Qed.

  Theorem sampled_chebyshev_rate_vanilla T eps :
    (0 < T)%nat -> 0 < eps ->
    expect_run rows T (fun ds => ind_ge eps (regret_dev T ds / INR T)) <=
    4 * (hi - lo) ^ 2 / (eps ^ 2 * INR T).
  Proof.
    intros HT He.
    rewrite (expect_run_ext rows T _ (fun ds => ind_ge eps (mart g pv pl i a T ds / INR T))).
    - now apply (sampled_chebyshev_rate g pv lo hi HWF HPR HCO HPay HNR pl i a Hi Ha T eps).
    - intros ds [Hl' _]. now rewrite regret_dev_mart.
  Qed.

  Theorem sampled_deviation_vanishes_vanilla eps delta :
    0 < eps -> 0 < delta ->
    exists T0 : nat, forall T, (T0 <= T)%nat ->
      expect_run rows T (fun ds => ind_ge eps (regret_dev T ds / INR T)) <= delta.
  Proof.
    intros He Hd.
    destruct (sampled_deviation_vanishes g pv lo hi HWF HPR HCO HPay HNR pl i a Hi Ha eps delta He Hd)
      as [T0 H].
    exists T0. intros T HT. eapply Rle_trans; [|apply (H T HT)]. apply Req_le.
    apply expect_run_ext. intros ds [Hl' _]. now rewrite regret_dev_mart.
  Qed.
End VanillaConc.

(** ** 6. Non-vacuity on [seq_game] (chance root, payoffs in [0, 2]) *)
Lemma seq_idx_true_0 : (0 < length (arities seq_game true))%nat.
Proof. cbn. lia. Qed.
Lemma seq_act_true_0_0 : (0 < nth 0 (arities seq_game true) O)%nat.
Proof. cbn. lia. Qed.

(** two iterations, any parameters: all hypotheses discharged *)
Example seq_chebyshev_2 (p : paramsR) lam :
  0 < lam ->
  expect_run (g_chance seq_game) 2 (fun ds => ind_ge lam (mart seq_game p true 0 0 2 ds)) <=
  32 / lam ^ 2.
Proof.
  intros Hl.
  pose proof (sampled_chebyshev seq_game p 0 2 seq_WF seq_PR seq_ChanceOK seq_Payoffs true 0 0
                seq_idx_true_0 seq_act_true_0_0 seq_NoRepeat 2 lam Hl) as H.
  replace (4 * (2 - 0) ^ 2 * INR 2 / lam ^ 2) with (32 / lam ^ 2) in H; [exact H|].
  cbn [INR]. field. lra.
Qed.

Example seq_second_moment_2 (p : paramsR) :
  expect_run (g_chance seq_game) 2 (fun ds => mart seq_game p true 0 0 2 ds ^ 2) =
  expect_run (g_chance seq_game) 2 (fun ds => md seq_game p true 0 0 ds 0 ^ 2) +
  expect_run (g_chance seq_game) 2 (fun ds => md seq_game p true 0 0 ds 1 ^ 2).
Proof.
  rewrite (mart_second_moment seq_game p seq_WF seq_ChanceOK seq_NoRepeat true 0 0 2).
  cbn [sum_upto]. lra.
Qed.

Example seq_vanilla_chebyshev_2 lam :
  0 < lam ->
  expect_run (g_chance seq_game) 2 (fun ds => ind_ge lam (regret_dev seq_game true 0 0 2 ds)) <=
  32 / lam ^ 2.
Proof.
  intros Hl.
  pose proof (sampled_chebyshev_vanilla seq_game 0 2 seq_WF seq_PR seq_ChanceOK seq_Payoffs
                seq_NoRepeat true 0 0 seq_idx_true_0 seq_act_true_0_0 2 lam Hl) as H.
  replace (4 * (2 - 0) ^ 2 * INR 2 / lam ^ 2) with (32 / lam ^ 2) in H; [exact H|].
  cbn [INR]. field. lra.
Qed.

(** numbers for the first iteration: the difference is [+1/8] or [-1/8] according to the draw,
    its second moment is [1/64], and the generic Chebyshev inequality is attained at [lam = 1/8] *)
Lemma seq_md_first (p : paramsR) k :
  md seq_game p true 0 0 [[k]] 0 =
  sampled_inc seq_game true 0 0 (N.of_nat 1) (@init_state RNum seq_game) [k] -
  true_inc seq_game true 0 0 (@init_state RNum seq_game).
Proof. reflexivity. Qed.

Example seq_second_moment_1 (p : paramsR) :
  expect_run (g_chance seq_game) 1 (fun ds => mart seq_game p true 0 0 1 ds ^ 2) = 1 / 64.
Proof.
  destruct (seq_first_iteration (N.of_nat 1)) as (E0 & E1 & Et).
  change (g_chance seq_game) with [[1 / 2; 1 / 2]]. cbn [expect_run expect wsum].
  unfold mart. cbn [sum_upto]. rewrite !seq_md_first, E0, E1, Et. lra.
Qed.

Example seq_chebyshev_attained (p : paramsR) :
  expect_run (g_chance seq_game) 1 (fun ds => ind_ge (1 / 8) (mart seq_game p true 0 0 1 ds)) = 1 /\
  expect_run (g_chance seq_game) 1 (fun ds => mart seq_game p true 0 0 1 ds ^ 2) / (1 / 8) ^ 2 = 1.
Proof.
  split; [|rewrite seq_second_moment_1; lra].
  destruct (seq_first_iteration (N.of_nat 1)) as (E0 & E1 & Et).
  change (g_chance seq_game) with [[1 / 2; 1 / 2]]. cbn [expect_run expect wsum].
  unfold mart. cbn [sum_upto]. rewrite !seq_md_first, E0, E1, Et.
  unfold ind_ge.
  destruct (Rle_dec (1 / 8) (Rabs (0 + (1 / 4 - 1 / 8)))) as [_|H].
  2:{ exfalso. apply H. rewrite Rabs_right; lra. }
  destruct (Rle_dec (1 / 8) (Rabs (0 + (0 - 1 / 8)))) as [_|H].
  2:{ exfalso. apply H. rewrite Rabs_left; lra. }
  lra.
Qed.

(** ** The final statements *)
Check md_orthogonal :
  forall (g : gameR) (p : paramsR), WFgame g -> ChanceOK g -> NoRepeat (g_root g) ->
  forall pl i a s t T, (s < t)%nat -> (t < T)%nat ->
    expect_run (g_chance g) T (fun ds => md g p pl i a ds s * md g p pl i a ds t) = 0.
Check md_orthogonal_past :
  forall (g : gameR) (p : paramsR), WFgame g -> ChanceOK g -> NoRepeat (g_root g) ->
  forall pl i a n T (h : list (list nat) -> R), (n < T)%nat ->
    expect_run (g_chance g) T (fun ds => h (firstn n ds) * md g p pl i a ds n) = 0.
Check mart_second_moment :
  forall (g : gameR) (p : paramsR), WFgame g -> ChanceOK g -> NoRepeat (g_root g) ->
  forall pl i a T,
    expect_run (g_chance g) T (fun ds => mart g p pl i a T ds ^ 2) =
    sum_upto T (fun t => expect_run (g_chance g) T (fun ds => md g p pl i a ds t ^ 2)).
Check chebyshev_run :
  forall rows n lam (f : list (list nat) -> R),
    Forall (Forall (fun x => 0 <= x)) rows -> 0 < lam ->
    expect_run rows n (fun ds => ind_ge lam (f ds)) <= expect_run rows n (fun ds => f ds ^ 2) / lam ^ 2.
Check mart_chebyshev_gen :
  forall (g : gameR) (p : paramsR), WFgame g -> ChanceOK g -> NoRepeat (g_root g) ->
  forall pl i a C,
    (forall T ds t, history_in (g_chance g) T ds -> (t < T)%nat -> Rabs (md g p pl i a ds t) <= C) ->
    forall T lam, 0 < lam ->
      expect_run (g_chance g) T (fun ds => ind_ge lam (mart g p pl i a T ds)) <= C ^ 2 * INR T / lam ^ 2.
Check md_abs_bound :
  forall (g : gameR) (p : paramsR) lo hi,
    WFgame g -> PerfectRecall g -> ChanceOK g -> PayoffsIn lo hi (g_root g) ->
  forall pl i a, (i < length (arities g pl))%nat -> (a < nth i (arities g pl) O)%nat ->
  forall T ds t, history_in (g_chance g) T ds -> (t < T)%nat ->
    Rabs (md g p pl i a ds t) <= 2 * (hi - lo).
Check mart_second_moment_bound :
  forall (g : gameR) (p : paramsR) lo hi,
    WFgame g -> PerfectRecall g -> ChanceOK g -> PayoffsIn lo hi (g_root g) ->
  forall pl i a, (i < length (arities g pl))%nat -> (a < nth i (arities g pl) O)%nat ->
  NoRepeat (g_root g) ->
  forall T, expect_run (g_chance g) T (fun ds => mart g p pl i a T ds ^ 2) <= 4 * (hi - lo) ^ 2 * INR T.
Check sampled_chebyshev :
  forall (g : gameR) (p : paramsR) lo hi,
    WFgame g -> PerfectRecall g -> ChanceOK g -> PayoffsIn lo hi (g_root g) ->
  forall pl i a, (i < length (arities g pl))%nat -> (a < nth i (arities g pl) O)%nat ->
  NoRepeat (g_root g) ->
  forall T lam, 0 < lam ->
    expect_run (g_chance g) T (fun ds => ind_ge lam (mart g p pl i a T ds)) <=
    4 * (hi - lo) ^ 2 * INR T / lam ^ 2.
Check sampled_chebyshev_explicit :
  forall (g : gameR) (p : paramsR) lo hi,
    WFgame g -> PerfectRecall g -> ChanceOK g -> PayoffsIn lo hi (g_root g) ->
  forall pl i a, (i < length (arities g pl))%nat -> (a < nth i (arities g pl) O)%nat ->
  NoRepeat (g_root g) ->
  forall T lam, 0 < lam ->
    expect_run (g_chance g) T
      (fun ds => if Rle_dec lam (Rabs (sum_upto T (sampled_inc_at g p pl i a ds) -
                                       sum_upto T (true_inc_at g p pl i a ds)))
                 then 1 else 0) <=
    4 * (hi - lo) ^ 2 * INR T / lam ^ 2.
Check sampled_chebyshev_rate :
  forall (g : gameR) (p : paramsR) lo hi,
    WFgame g -> PerfectRecall g -> ChanceOK g -> PayoffsIn lo hi (g_root g) -> NoRepeat (g_root g) ->
  forall pl i a, (i < length (arities g pl))%nat -> (a < nth i (arities g pl) O)%nat ->
  forall T eps, (0 < T)%nat -> 0 < eps ->
    expect_run (g_chance g) T (fun ds => ind_ge eps (mart g p pl i a T ds / INR T)) <=
    4 * (hi - lo) ^ 2 / (eps ^ 2 * INR T).
Check sampled_deviation_vanishes :
  forall (g : gameR) (p : paramsR) lo hi,
    WFgame g -> PerfectRecall g -> ChanceOK g -> PayoffsIn lo hi (g_root g) -> NoRepeat (g_root g) ->
  forall pl i a, (i < length (arities g pl))%nat -> (a < nth i (arities g pl) O)%nat ->
  forall eps delta, 0 < eps -> 0 < delta ->
    exists T0 : nat, forall T, (T0 <= T)%nat ->
      expect_run (g_chance g) T (fun ds => ind_ge eps (mart g p pl i a T ds / INR T)) <= delta.
Check sampled_chebyshev_vanilla :
  forall (g : gameR) lo hi,
    WFgame g -> PerfectRecall g -> ChanceOK g -> PayoffsIn lo hi (g_root g) -> NoRepeat (g_root g) ->
  forall pl i a, (i < length (arities g pl))%nat -> (a < nth i (arities g pl) O)%nat ->
  forall T lam, 0 < lam ->
    expect_run (g_chance g) T (fun ds => ind_ge lam (regret_dev g pl i a T ds)) <=
    4 * (hi - lo) ^ 2 * INR T / lam ^ 2.
Check sampled_chebyshev_rate_vanilla :
  forall (g : gameR) lo hi,
    WFgame g -> PerfectRecall g -> ChanceOK g -> PayoffsIn lo hi (g_root g) -> NoRepeat (g_root g) ->
  forall pl i a, (i < length (arities g pl))%nat -> (a < nth i (arities g pl) O)%nat ->
  forall T eps, (0 < T)%nat -> 0 < eps ->
    expect_run (g_chance g) T (fun ds => ind_ge eps (regret_dev g pl i a T ds / INR T)) <=
    4 * (hi - lo) ^ 2 / (eps ^ 2 * INR T).
Check sampled_deviation_vanishes_vanilla :
  forall (g : gameR) lo hi,
    WFgame g -> PerfectRecall g -> ChanceOK g -> PayoffsIn lo hi (g_root g) -> NoRepeat (g_root g) ->
  forall pl i a, (i < length (arities g pl))%nat -> (a < nth i (arities g pl) O)%nat ->
  forall eps delta, 0 < eps -> 0 < delta ->
    exists T0 : nat, forall T, (T0 <= T)%nat ->
      expect_run (g_chance g) T (fun ds => ind_ge eps (regret_dev g pl i a T ds / INR T)) <= delta.
