(** * PresentationProofs: [from_root] does not depend on the presentation of the tree
    (property C12, first part).

    - infrastructure: induction principle for [gnode], top-level copies of the two
      local loops of [init] with unfolding lemmas;
    - evaluation ([Eval.info]) and solving ([Solve.solve_single]) depend only on the
      root, the chance table and the arities of a compact game;
    - rescaling the weights of chance nodes by positive constants does not change
      the result of [from_root] (errors included);
    - renaming infosets, actions and chance infosets by injective maps renames the
      result of [from_root] (errors are the same), hence leaves every evaluation and
      every solve unchanged, and renames [as_named].

    Inserting / removing transparent nodes is in [PresentationProofs2].
    Theorems are about the real-number instance [RNum]. *)
From Coq Require Import Reals List Lra Lia Bool Arith NArith.
From Cfr.theories Require Import Num RInst Tree Strat Eval Solve.
Import ListNotations.
Open Scope R_scope.

Definition map_res {A B} (f : A -> B) (r : res A) : res B :=
  match r with Ok a => Ok (f a) | Err e => Err e end.

(** ** Infrastructure, generic in the arithmetic *)
Section Infra.
  Context {NN : Num}.
  Local Notation T := (T NN).
  Local Notation gnode := (@gnode NN).
  Local Notation node := (@node NN).
  Local Notation bst := (@bst NN).
  Local Notation pprev := (option (nat * nat) * option (nat * nat))%type.

  (** induction principle for the nested inductive [gnode] *)
  Fixpoint gnode_ind' (P : gnode -> Prop)
           (HT : forall p, P (GTerm p))
           (HC : forall info outs, Forall (fun o => P (snd o)) outs -> P (GChance info outs))
           (HP : forall pl info acts, Forall (fun a => P (snd a)) acts -> P (GPlayer pl info acts))
           (n : gnode) : P n :=
    match n with
    | GTerm p => HT p
    | GChance info outs =>
        HC info outs ((fix go (l : list (T * gnode)) : Forall (fun o => P (snd o)) l :=
                         match l with
                         | [] => Forall_nil _
                         | o :: r => Forall_cons o (gnode_ind' P HT HC HP (snd o)) (go r)
                         end) outs)
    | GPlayer pl info acts =>
        HP pl info acts ((fix go (l : list (N * gnode)) : Forall (fun a => P (snd a)) l :=
                            match l with
                            | [] => Forall_nil _
                            | a :: r => Forall_cons a (gnode_ind' P HT HC HP (snd a)) (go r)
                            end) acts)
    end.

  (** the two local loops of [init], parametrised by the recursive call *)
  Section Loops.
    Context (rec : gnode -> pprev -> bst -> res (node * bst)).
    Context (prev : pprev).

    Fixpoint goC (outs : list (T * gnode)) (s : bst) (probs : list T) (kids : list node)
      : res (list T * list node * bst) :=
      match outs with
      | [] => Ok (rev probs, rev kids, s)
      | (p, c) :: r =>
          if ltb NN (zero NN) p && is_fin NN p then
            match rec c prev s with
            | Ok (c', s') => goC r s' (p :: probs) (c' :: kids)
            | Err e => Err e
            end
          else Err NonPositiveChance
      end.

    Context (pl : bool) (ind : nat).

    Fixpoint goP (acts : list (N * gnode)) (ai : nat) (s : bst) (kids : list node)
      : res (list node * bst) :=
      match acts with
      | [] => Ok (rev kids, s)
      | (_, c) :: r =>
          match rec c (set_prev prev pl (Some (ind, ai))) s with
          | Ok (c', s') => goP r (S ai) s' (c' :: kids)
          | Err e => Err e
          end
      end.
  End Loops.

  (** what [init] does with the collected outcomes of a chance node *)
  Definition finishC (info : option N) (probs : list T) (kids : list node) (s' : bst)
    : res (node * bst) :=
    match kids with
    | [] => Err EmptyChance
    | [k] => Ok (k, s')
    | _ =>
        let probs := normalise probs in
        match info with
        | None =>
            let ind := length (b_chance s') in
            Ok (Chance ind kids, set_chance s' (b_chance s' ++ [(None, probs)]))
        | Some k =>
            match find_index (opt_key_eqb k) (b_chance s') with
            | Some (ind, (_, old)) =>
                if list_eqb (eqb NN) old probs then Ok (Chance ind kids, s')
                else Err ProbabilitiesNotEqual
            | None =>
                let ind := length (b_chance s') in
                Ok (Chance ind kids, set_chance s' (b_chance s' ++ [(Some k, probs)]))
            end
        end
    end.

  (** lookup / creation of the infoset of a decision node with several actions *)
  Definition found_info (prev : pprev) (pl : bool) (info : N) (actions : list N) (s : bst)
    : res (nat * bst) :=
    match find_index (fun pi => N.eqb (pi_name pi) info) (b_infos s pl) with
    | Some (ind, pi) =>
        if negb (list_eqb N.eqb (pi_actions pi) actions) then Err ActionsNotEqual
        else if negb (prev_eqb (pi_prev pi) (get_prev prev pl)) then Err ImperfectRecall
        else Ok (ind, s)
    | None =>
        if nodupb actions then
          Ok (length (b_infos s pl),
              set_infos s pl (b_infos s pl ++ [mkPinfo info actions (get_prev prev pl)]))
        else Err ActionsNotUnique
    end.

  Definition multiP (prev : pprev) (pl : bool) (info : N) (acts : list (N * gnode)) (s : bst)
    : res (node * bst) :=
    if existsb (fun e => N.eqb (fst e) info) (b_singles s pl)
    then Err ActionsNotEqual
    else
      match found_info prev pl info (map fst acts) s with
      | Err e => Err e
      | Ok (ind, s0) =>
          match goP init prev pl ind acts O s0 [] with
          | Err e => Err e
          | Ok (kids, s') => Ok (Player pl ind kids, s')
          end
      end.

  Definition singleP (prev : pprev) (pl : bool) (info : N) (a : N) (c : gnode) (s : bst)
    : res (node * bst) :=
    if existsb (fun pi => N.eqb (pi_name pi) info) (b_infos s pl)
    then Err ActionsNotEqual
    else
      match find_index (fun e => N.eqb (fst e) info) (b_singles s pl) with
      | Some (_, (_, a')) =>
          if N.eqb a' a then init c prev s else Err ActionsNotEqual
      | None => init c prev (set_singles s pl (b_singles s pl ++ [(info, a)]))
      end.

  Lemma init_GTerm p prev s :
    init (GTerm p) prev s = if is_fin NN p then Ok (Term p, s) else Err NonFinitePayoff.
  Proof. reflexivity. Qed.

  Lemma init_GChance info outs prev s :
    init (GChance info outs) prev s =
    match goC init prev outs s [] [] with
    | Err e => Err e
    | Ok (probs, kids, s') => finishC info probs kids s'
    end.
  Proof. reflexivity. Qed.

  Lemma init_GPlayer_nil pl info prev s :
    init (GPlayer pl info (@nil (N * gnode))) prev s = Err EmptyPlayer.
  Proof. reflexivity. Qed.

  Lemma init_GPlayer_single pl info a c prev s :
    init (GPlayer pl info [(a, c)]) prev s = singleP prev pl info a c s.
  Proof. reflexivity. Qed.

  Lemma init_GPlayer_multi pl info x y r prev s :
    init (GPlayer pl info (x :: y :: r)) prev s = multiP prev pl info (x :: y :: r) s.
  Proof. destruct x as [a c]. reflexivity. Qed.

  Definition game_of (root : node) (s : bst) : @game NN :=
    mkGame (map snd (b_chance s)) (b_infos1 s) (b_infos2 s)
           (b_singles1 s) (b_singles2 s) root.

  Lemma from_root_eq t :
    from_root t = map_res (fun ns => game_of (fst ns) (snd ns)) (init t (None, None) b_empty).
  Proof.
    unfold from_root. destruct (init t (None, None) b_empty) as [[root s]|e]; reflexivity.
  Qed.
End Infra.

(** ** Evaluation and solving only read the root, the chance table and the arities *)
Section Core.
  Context {NN : Num}.
  Local Notation game := (@game NN).

  Definition same_core (g g' : game) : Prop :=
    g_root g' = g_root g /\ g_chance g' = g_chance g /\
    arities g' true = arities g true /\ arities g' false = arities g false.

  Lemma same_core_refl g : same_core g g.
  Proof. repeat split. Qed.

  Lemma same_core_of_infos g g' :
    g_root g' = g_root g -> g_chance g' = g_chance g ->
    g_infos1 g' = g_infos1 g -> g_infos2 g' = g_infos2 g -> same_core g g'.
  Proof.
    intros Hr Hc H1 H2. unfold same_core, arities, g_infos. rewrite Hr, Hc, H1, H2. repeat split.
  Qed.

  Lemma info_core g g' : same_core g g' -> forall prof, info g' prof = info g prof.
  Proof.
    intros (Hr & Hc & H1 & H2) prof.
    unfold info, expected, br_value. rewrite Hr, Hc, H1, H2. reflexivity.
  Qed.

  Lemma init_state_arities (g : game) :
    init_state g = (map rinfo_new (arities g true), map rinfo_new (arities g false)).
  Proof. unfold init_state, arities, g_infos. now rewrite !map_map. Qed.

  Lemma len_infos1_arities (g : game) : length (g_infos1 g) = length (arities g true).
  Proof. unfold arities, g_infos. now rewrite map_length. Qed.

  Lemma one_iter_core g g' : same_core g g' ->
    forall m draw p it st, one_iter g' m draw p it st = one_iter g m draw p it st.
  Proof.
    intros (Hr & Hc & H1 & H2) m draw p it st.
    destruct m; unfold one_iter, vanilla_iter, external_iter;
      rewrite ?len_infos1_arities, Hr, Hc, ?H1; reflexivity.
  Qed.

  Lemma solve_loop_core g g' : same_core g g' ->
    forall m draw p stop remaining it st regs ran,
      solve_loop g' m draw p stop remaining it st regs ran =
      solve_loop g m draw p stop remaining it st regs ran.
  Proof.
    intros H m draw p stop remaining.
    induction remaining as [|r IH]; intros it st regs ran; cbn [solve_loop]; [reflexivity|].
    rewrite (one_iter_core g g' H).
    destruct (one_iter g m draw p it st) as [st' [r1 r2]].
    destruct (stop (fmax NN r1 r2)); [reflexivity|apply IH].
  Qed.

  Lemma solve_single_core g g' : same_core g g' ->
    forall m draw p budget stop,
      solve_single g' m draw p budget stop = solve_single g m draw p budget stop.
  Proof.
    intros H m draw p budget stop. unfold solve_single.
    rewrite (solve_loop_core g g' H), !init_state_arities.
    destruct H as (_ & _ & H1 & H2). rewrite H1, H2. reflexivity.
  Qed.
End Core.

(** ** 1. Rescaling the weights of chance nodes *)
Local Notation gnodeR := (@gnode RNum).
Local Notation nodeR := (@node RNum).
Local Notation bstR := (@bst RNum).
Local Notation gameR := (@game RNum).
Local Notation pprev := (option (nat * nat) * option (nat * nat))%type.

Lemma Rsum_map_Rmult c l : Rsum (map (Rmult c) l) = c * Rsum l.
Proof. induction l as [|x l IH]; cbn [Rsum map]; [lra|rewrite IH; lra]. Qed.

Lemma Rsum_pos l : l <> [] -> Forall (fun x => 0 < x) l -> 0 < Rsum l.
Proof.
  intros Hne H. induction H as [|x l Hx Hl IH]; [congruence|].
  cbn [Rsum]. destruct l as [|y l]; [cbn [Rsum]; lra|].
  assert (0 < Rsum (y :: l)) by (apply IH; discriminate). lra.
Qed.

Theorem normalise_scale (c : R) (ws : list R) :
  0 < c -> Forall (fun w => 0 < w) ws ->
  @normalise RNum (map (Rmult c) ws) = @normalise RNum ws.
Proof.
  intros Hc Hws. unfold normalise. cbn [is_fin RNum]. rewrite !sum_Rsum, Rsum_map_Rmult, map_map.
  destruct ws as [|w0 ws]; [reflexivity|].
  assert (Hs : 0 < Rsum (w0 :: ws)) by (apply Rsum_pos; [discriminate|assumption]).
  apply map_ext. intros w. cbn [div RNum T] in *. field. lra.
Qed.

(** same shape, labels and payoffs; at every chance node the weights of the second
    tree are those of the first multiplied by a positive constant (one per node) *)
Inductive Rescaled : gnodeR -> gnodeR -> Prop :=
| Rs_Term p : Rescaled (@GTerm RNum p) (@GTerm RNum p)
| Rs_Chance info c outs outs' :
    0 < c -> RescaledC c outs outs' ->
    Rescaled (@GChance RNum info outs) (@GChance RNum info outs')
| Rs_Player pl info acts acts' :
    RescaledP acts acts' ->
    Rescaled (@GPlayer RNum pl info acts) (@GPlayer RNum pl info acts')
with RescaledC : R -> list (T RNum * gnodeR) -> list (T RNum * gnodeR) -> Prop :=
| RsC_nil c : RescaledC c [] []
| RsC_cons c p p' t t' r r' :
    p' = c * p -> Rescaled t t' -> RescaledC c r r' ->
    RescaledC c ((p, t) :: r) ((p', t') :: r')
with RescaledP : list (N * gnodeR) -> list (N * gnodeR) -> Prop :=
| RsP_nil : RescaledP [] []
| RsP_cons a t t' r r' :
    Rescaled t t' -> RescaledP r r' -> RescaledP ((a, t) :: r) ((a, t') :: r').

Scheme Rescaled_mind := Minimality for Rescaled Sort Prop
  with RescaledC_mind := Minimality for RescaledC Sort Prop
  with RescaledP_mind := Minimality for RescaledP Sort Prop.
Combined Scheme Rescaled_mutind from Rescaled_mind, RescaledC_mind, RescaledP_mind.

(** the probabilities collected by the chance loop are positive *)
Lemma goC_pos (rec : gnodeR -> pprev -> bstR -> res (nodeR * bstR)) prev outs :
  forall s probs kids pr ks s',
    goC rec prev outs s probs kids = Ok (pr, ks, s') ->
    Forall (fun w => 0 < w) probs -> Forall (fun w => 0 < w) pr.
Proof.
  induction outs as [|[p c] r IH]; intros s probs kids pr ks s' H Hp; cbn [goC] in H.
  - injection H as <- _ _. apply Forall_rev. exact Hp.
  - destruct (ltb RNum (zero RNum) p && is_fin RNum p) eqn:E; [|discriminate].
    destruct (rec c prev s) as [[c' s1]|e]; [|discriminate].
    apply (IH _ _ _ _ _ _ H). constructor; [|exact Hp].
    apply andb_true_iff in E as [E _]. now apply Rltb_true in E.
Qed.

Lemma finishC_scale info c pr ks s :
  0 < c -> Forall (fun w => 0 < w) pr ->
  @finishC RNum info (map (Rmult c) pr) ks s = @finishC RNum info pr ks s.
Proof.
  intros Hc Hp. unfold finishC. now rewrite (normalise_scale c pr Hc Hp).
Qed.

Lemma pos_scale c p : 0 < c ->
  ltb RNum (zero RNum) (c * p) && is_fin RNum (c * p) = ltb RNum (zero RNum) p && is_fin RNum p.
Proof.
  intros Hc. cbn [ltb zero is_fin RNum]. f_equal.
  destruct (Rltb 0 p) eqn:E.
  - apply Rltb_true in E. apply Rltb_true. nra.
  - apply Rltb_false in E. apply Rltb_false. nra.
Qed.

(** two action lists with the same labels and pointwise [init]-equivalent subtrees *)
Definition acts_equiv (acts acts' : list (N * gnodeR)) : Prop :=
  Forall2 (fun x y => fst y = fst x /\
                      forall prev s, @init RNum (snd y) prev s = @init RNum (snd x) prev s)
          acts acts'.

Lemma acts_equiv_goP acts acts' : acts_equiv acts acts' ->
  forall prev pl ind ai s kids,
    goP (@init RNum) prev pl ind acts' ai s kids = goP (@init RNum) prev pl ind acts ai s kids.
Proof.
  induction 1 as [|[a c] [a' c'] r r' [_ Hh] _ IH]; intros prev pl ind ai s kids; [reflexivity|].
  cbn [goP]. cbn [snd] in Hh. rewrite Hh.
  destruct (@init RNum c _ s) as [[k s1]|e]; [apply IH|reflexivity].
Qed.

Lemma acts_equiv_fst acts acts' : acts_equiv acts acts' -> map fst acts' = map fst acts.
Proof.
  induction 1 as [|x y r r' [Hf _] _ IH]; [reflexivity|]. cbn [map]. now rewrite Hf, IH.
Qed.

Lemma acts_equiv_init pl info acts acts' : acts_equiv acts acts' ->
  forall prev s, @init RNum (GPlayer pl info acts') prev s = @init RNum (GPlayer pl info acts) prev s.
Proof.
  intros H prev s. pose proof (acts_equiv_fst _ _ H) as Hn.
  pose proof (acts_equiv_goP _ _ H) as Hg.
  revert Hn Hg. destruct H as [|[a c] [a' c'] r r' [Ha Hc] Hr]; [reflexivity|].
  cbn [fst snd] in Ha, Hc. subst a'.
  destruct Hr as [|y y' r r' Hy Hr]; intros Hn Hg.
  - rewrite !init_GPlayer_single. unfold singleP. rewrite !Hc.
    destruct (existsb _ _); [reflexivity|].
    destruct (find_index _ _) as [[i [n a']]|]; [|reflexivity].
    destruct (N.eqb a' a); reflexivity.
  - rewrite !init_GPlayer_multi. unfold multiP. rewrite Hn.
    destruct (existsb _ _); [reflexivity|].
    destruct (found_info _ _ _ _ _) as [[ind s0]|e]; [|reflexivity].
    now rewrite Hg.
Qed.

Lemma rescale_init_all :
  (forall t t', Rescaled t t' -> forall prev s, @init RNum t' prev s = @init RNum t prev s) /\
  (forall c outs outs', RescaledC c outs outs' -> 0 < c ->
     forall prev s (probs : list (T RNum)) kids,
       goC (@init RNum) prev outs' s (map (Rmult c) probs) kids =
       map_res (fun x : list (T RNum) * list nodeR * bstR =>
                  (map (Rmult c) (fst (fst x)), snd (fst x), snd x))
               (goC (@init RNum) prev outs s probs kids)) /\
  (forall acts acts', RescaledP acts acts' -> acts_equiv acts acts').
Proof.
  apply Rescaled_mutind.
  - (* Term *) reflexivity.
  - (* Chance *)
    intros info c outs outs' Hc _ IH prev s. rewrite !init_GChance.
    specialize (IH Hc prev s [] []). change (map (Rmult c) []) with (@nil (T RNum)) in IH.
    rewrite IH.
    destruct (goC (@init RNum) prev outs s [] []) as [[[pr ks] s']|e] eqn:E; cbn [map_res fst snd];
      [|reflexivity].
    apply finishC_scale; [exact Hc|]. apply (goC_pos _ _ _ _ _ _ _ _ _ E). constructor.
  - (* Player *)
    intros pl info acts acts' _ IH prev s. now apply acts_equiv_init.
  - (* C nil *)
    intros c _ prev s probs kids. cbn [goC map_res fst snd]. now rewrite map_rev.
  - (* C cons *)
    intros c p p' t t' r r' -> _ IHt _ IHr Hc prev s probs kids. cbn [goC].
    rewrite pos_scale by exact Hc.
    destruct (ltb RNum (zero RNum) p && is_fin RNum p); [|reflexivity].
    rewrite IHt. destruct (@init RNum t prev s) as [[c' s1]|e]; [|reflexivity].
    specialize (IHr Hc prev s1 (p :: probs) (c' :: kids)). cbn [map] in IHr. exact IHr.
  - (* P nil *)
    constructor.
  - (* P cons *)
    intros a t t' r r' _ IHt _ IHr. constructor; [|exact IHr]. split; [reflexivity|exact IHt].
Qed.

Lemma Rescaled_refl t : Rescaled t t.
Proof.
  induction t as [p|info outs IH|pl info acts IH] using gnode_ind'.
  - constructor.
  - apply Rs_Chance with (c := 1); [lra|].
    induction IH as [|[p c] r Hc _ IHr]; constructor; [cbn [T RNum] in *; lra|exact Hc|exact IHr].
  - apply Rs_Player.
    induction IH as [|[a c] r Hc _ IHr]; constructor; [exact Hc|exact IHr].
Qed.

Theorem rescale_init t t' : Rescaled t t' ->
  forall prev s, @init RNum t' prev s = @init RNum t prev s.
Proof. apply rescale_init_all. Qed.

(** the compact game (or the error) is literally the same *)
Theorem rescale_from_root t t' : Rescaled t t' -> @from_root RNum t' = @from_root RNum t.
Proof. intros H. unfold from_root. now rewrite (rescale_init t t' H). Qed.

Corollary rescale_info t t' g : Rescaled t t' -> @from_root RNum t = Ok g ->
  exists g', @from_root RNum t' = Ok g' /\ forall prof, @info RNum g' prof = @info RNum g prof.
Proof. intros H Hg. exists g. split; [now rewrite (rescale_from_root t t' H)|reflexivity]. Qed.

Corollary rescale_solve t t' g : Rescaled t t' -> @from_root RNum t = Ok g ->
  exists g', @from_root RNum t' = Ok g' /\
             forall m draw p budget stop,
               @solve_single RNum g' m draw p budget stop = @solve_single RNum g m draw p budget stop.
Proof. intros H Hg. exists g. split; [now rewrite (rescale_from_root t t' H)|reflexivity]. Qed.

(** ** 2. Renaming infosets, actions and chance infosets *)

(** list lookups and maps *)
Lemma find_index_map {A B} (g : A -> B) (p : B -> bool) (l : list A) :
  find_index p (map g l) =
  match find_index (fun x => p (g x)) l with
  | Some (i, x) => Some (i, g x)
  | None => None
  end.
Proof.
  induction l as [|x l IH]; cbn [map find_index]; [reflexivity|].
  destruct (p (g x)); [reflexivity|]. rewrite IH.
  destruct (find_index (fun x0 => p (g x0)) l) as [[i y]|]; reflexivity.
Qed.

Lemma find_index_ext {A} (p q : A -> bool) (l : list A) :
  (forall x, p x = q x) -> find_index p l = find_index q l.
Proof.
  intros H. induction l as [|x l IH]; cbn [find_index]; [reflexivity|]. now rewrite H, IH.
Qed.

Lemma existsb_map' {A B} (g : A -> B) (p : B -> bool) (l : list A) :
  existsb p (map g l) = existsb (fun x => p (g x)) l.
Proof. induction l as [|x l IH]; cbn [map existsb]; [reflexivity|now rewrite IH]. Qed.

Lemma existsb_ext' {A} (p q : A -> bool) (l : list A) :
  (forall x, p x = q x) -> existsb p l = existsb q l.
Proof. intros H. induction l as [|x l IH]; cbn [existsb]; [reflexivity|now rewrite H, IH]. Qed.

Definition inj (f : N -> N) : Prop := forall a b, f a = f b -> a = b.

Lemma eqb_inj f a b : inj f -> N.eqb (f a) (f b) = N.eqb a b.
Proof.
  intros Hf. destruct (N.eqb a b) eqn:E.
  - apply N.eqb_eq in E. subst. apply N.eqb_refl.
  - apply N.eqb_neq. apply N.eqb_neq in E. intros H. apply E. now apply Hf.
Qed.

Lemma list_eqb_map_inj f l1 l2 : inj f ->
  list_eqb N.eqb (map f l1) (map f l2) = list_eqb N.eqb l1 l2.
Proof.
  intros Hf. revert l2. induction l1 as [|x l1 IH]; intros [|y l2]; cbn [map list_eqb]; try reflexivity.
  now rewrite eqb_inj, IH.
Qed.

Lemma nodupb_map_inj f l : inj f -> nodupb (map f l) = nodupb l.
Proof.
  intros Hf. induction l as [|x l IH]; cbn [map nodupb]; [reflexivity|].
  rewrite IH, existsb_map'. f_equal. f_equal. apply existsb_ext'. intros y. now apply eqb_inj.
Qed.

Section Rename.
  Context {NN : Num}.
  Local Notation T := (T NN).
  Local Notation gnode := (@gnode NN).
  Local Notation node := (@node NN).
  Local Notation bst := (@bst NN).
  Local Notation game := (@game NN).
  Context (fi1 fi2 fa fc : N -> N).

  Definition fi (pl : bool) : N -> N := if pl then fi1 else fi2.

  Fixpoint rename (t : gnode) : gnode :=
    match t with
    | GTerm p => GTerm p
    | GChance info outs =>
        GChance (option_map fc info) (map (fun o => (fst o, rename (snd o))) outs)
    | GPlayer pl info acts =>
        GPlayer pl (fi pl info) (map (fun a => (fa (fst a), rename (snd a))) acts)
    end.

  Definition rename_pinfo (f : N -> N) (pi : pinfo) : pinfo :=
    mkPinfo (f (pi_name pi)) (map fa (pi_actions pi)) (pi_prev pi).
  Definition rename_single (f : N -> N) (e : N * N) : N * N := (f (fst e), fa (snd e)).
  Definition rename_centry (e : option N * list T) : option N * list T :=
    (option_map fc (fst e), snd e).

  Definition rename_bst (s : bst) : bst :=
    mkBst (map rename_centry (b_chance s))
          (map (rename_pinfo fi1) (b_infos1 s)) (map (rename_pinfo fi2) (b_infos2 s))
          (map (rename_single fi1) (b_singles1 s)) (map (rename_single fi2) (b_singles2 s)).

  (** only the name fields change; root, chance table and [pi_prev] are indices *)
  Definition rename_game (g : game) : game :=
    mkGame (g_chance g)
           (map (rename_pinfo fi1) (g_infos1 g)) (map (rename_pinfo fi2) (g_infos2 g))
           (map (rename_single fi1) (g_singles1 g)) (map (rename_single fi2) (g_singles2 g))
           (g_root g).

  Lemma b_infos_rename s pl :
    b_infos (rename_bst s) pl = map (rename_pinfo (fi pl)) (b_infos s pl).
  Proof. destruct pl; reflexivity. Qed.
  Lemma b_singles_rename s pl :
    b_singles (rename_bst s) pl = map (rename_single (fi pl)) (b_singles s pl).
  Proof. destruct pl; reflexivity. Qed.
  Lemma b_chance_rename s : b_chance (rename_bst s) = map rename_centry (b_chance s).
  Proof. reflexivity. Qed.

  Lemma set_infos_rename s pl l :
    set_infos (rename_bst s) pl (map (rename_pinfo (fi pl)) l) = rename_bst (set_infos s pl l).
  Proof. destruct pl; reflexivity. Qed.
  Lemma set_singles_rename s pl l :
    set_singles (rename_bst s) pl (map (rename_single (fi pl)) l) = rename_bst (set_singles s pl l).
  Proof. destruct pl; reflexivity. Qed.
  Lemma set_chance_rename s l :
    set_chance (rename_bst s) (map rename_centry l) = rename_bst (set_chance s l).
  Proof. reflexivity. Qed.

  Context (Hfi1 : inj fi1) (Hfi2 : inj fi2) (Hfa : inj fa) (Hfc : inj fc).

  Lemma fi_inj pl : inj (fi pl).
  Proof. destruct pl; assumption. Qed.

  Definition ren_ns (ns : node * bst) : node * bst := (fst ns, rename_bst (snd ns)).

  Lemma finishC_rename info pr ks s :
    finishC (option_map fc info) pr ks (rename_bst s) = map_res ren_ns (finishC info pr ks s).
  Proof.
    unfold finishC. destruct ks as [|k [|k2 ks]]; [reflexivity|reflexivity|].
    rewrite b_chance_rename, map_length.
    destruct info as [k0|]; cbn [option_map].
    - rewrite find_index_map.
      rewrite (find_index_ext _ (opt_key_eqb k0)).
      2:{ intros [[k'|] v]; unfold opt_key_eqb, rename_centry; cbn [fst snd option_map];
          [now apply eqb_inj|reflexivity]. }
      destruct (find_index (opt_key_eqb k0) (b_chance s)) as [[ind [o old]]|].
      + unfold rename_centry at 1. cbn [fst snd].
        destruct (list_eqb (eqb NN) old (normalise pr)); reflexivity.
      + cbn [map_res]. unfold ren_ns. cbn [fst snd]. f_equal. f_equal.
        rewrite <- set_chance_rename, map_app. reflexivity.
    - cbn [map_res]. unfold ren_ns. cbn [fst snd]. f_equal. f_equal.
      rewrite <- set_chance_rename, map_app. reflexivity.
  Qed.

  Lemma found_info_rename prev pl info actions s :
    found_info prev pl (fi pl info) (map fa actions) (rename_bst s) =
    map_res (fun x => (fst x, rename_bst (snd x))) (found_info prev pl info actions s).
  Proof.
    unfold found_info. rewrite b_infos_rename, find_index_map, map_length.
    rewrite (find_index_ext _ (fun pi => N.eqb (pi_name pi) info)).
    2:{ intros pi. unfold rename_pinfo. cbn [pi_name]. apply eqb_inj, fi_inj. }
    destruct (find_index _ (b_infos s pl)) as [[ind pi]|].
    - unfold rename_pinfo at 1 2. cbn [pi_actions pi_prev].
      rewrite list_eqb_map_inj by exact Hfa.
      destruct (negb (list_eqb N.eqb (pi_actions pi) actions)); [reflexivity|].
      destruct (negb (prev_eqb (pi_prev pi) (get_prev prev pl))); reflexivity.
    - rewrite nodupb_map_inj by exact Hfa.
      destruct (nodupb actions); [|reflexivity].
      cbn [map_res fst snd]. f_equal. f_equal.
      rewrite <- set_infos_rename, map_app. reflexivity.
  Qed.

  Definition ren_P (t : gnode) : Prop :=
    forall prev s, init (rename t) prev (rename_bst s) = map_res ren_ns (init t prev s).

  Lemma goC_rename prev outs : Forall (fun o => ren_P (snd o)) outs ->
    forall s probs kids,
      goC init prev (map (fun o => (fst o, rename (snd o))) outs) (rename_bst s) probs kids =
      map_res (fun x : list T * list node * bst => (fst (fst x), snd (fst x), rename_bst (snd x)))
              (goC init prev outs s probs kids).
  Proof.
    induction 1 as [|[p c] r Hc _ IH]; intros s probs kids; [reflexivity|].
    cbn [map goC fst snd]. destruct (ltb NN (zero NN) p && is_fin NN p); [|reflexivity].
    cbn [snd] in Hc. rewrite Hc.
    destruct (init c prev s) as [[c' s1]|e]; cbn [map_res ren_ns fst snd]; [apply IH|reflexivity].
  Qed.

  Lemma goP_rename prev pl ind acts : Forall (fun a => ren_P (snd a)) acts ->
    forall ai s kids,
      goP init prev pl ind (map (fun a => (fa (fst a), rename (snd a))) acts) ai (rename_bst s) kids =
      map_res (fun x : list node * bst => (fst x, rename_bst (snd x)))
              (goP init prev pl ind acts ai s kids).
  Proof.
    induction 1 as [|[a c] r Hc _ IH]; intros ai s kids; [reflexivity|].
    cbn [map goP fst snd]. cbn [snd] in Hc. rewrite Hc.
    destruct (init c _ s) as [[c' s1]|e]; cbn [map_res ren_ns fst snd]; [apply IH|reflexivity].
  Qed.

  Lemma rename_init t : ren_P t.
  Proof.
    induction t as [p|info outs IH|pl info acts IH] using gnode_ind'; intros prev s.
    - cbn [rename]. rewrite !init_GTerm. destruct (is_fin NN p); reflexivity.
    - cbn [rename]. rewrite !init_GChance, (goC_rename prev outs IH).
      destruct (goC init prev outs s [] []) as [[[pr ks] s']|e]; cbn [map_res fst snd];
        [apply finishC_rename|reflexivity].
    - cbn [rename]. destruct acts as [|[a c] [|y r]].
      + reflexivity.
      + cbn [map fst snd]. rewrite !init_GPlayer_single. unfold singleP.
        rewrite b_infos_rename, existsb_map'.
        rewrite (existsb_ext' _ (fun pi => N.eqb (pi_name pi) info)).
        2:{ intros pi. unfold rename_pinfo. cbn [pi_name]. apply eqb_inj, fi_inj. }
        destruct (existsb _ (b_infos s pl)); [reflexivity|].
        rewrite b_singles_rename, find_index_map.
        rewrite (find_index_ext _ (fun e => N.eqb (fst e) info)).
        2:{ intros e. unfold rename_single. cbn [fst]. apply eqb_inj, fi_inj. }
        apply Forall_inv in IH. cbn [snd] in IH.
        destruct (find_index _ (b_singles s pl)) as [[i [n a']]|].
        * unfold rename_single. cbn [fst snd]. rewrite eqb_inj by exact Hfa.
          destruct (N.eqb a' a); [apply IH|reflexivity].
        * rewrite <- IH. f_equal. rewrite <- set_singles_rename, map_app. reflexivity.
      + set (acts := (a, c) :: y :: r) in *.
        change (map (fun a0 => (fa (fst a0), rename (snd a0))) acts)
          with ((fa a, rename c) :: (fa (fst y), rename (snd y)) ::
                map (fun a0 => (fa (fst a0), rename (snd a0))) r) at 1.
        rewrite init_GPlayer_multi.
        change ((fa a, rename c) :: (fa (fst y), rename (snd y)) ::
                map (fun a0 => (fa (fst a0), rename (snd a0))) r)
          with (map (fun a0 => (fa (fst a0), rename (snd a0))) acts).
        unfold acts at 2. rewrite init_GPlayer_multi. fold acts. unfold multiP.
        rewrite b_singles_rename, existsb_map'.
        rewrite (existsb_ext' _ (fun e => N.eqb (fst e) info)).
        2:{ intros e. unfold rename_single. cbn [fst]. apply eqb_inj, fi_inj. }
        destruct (existsb _ (b_singles s pl)); [reflexivity|].
        rewrite map_map. cbn [fst]. rewrite <- (map_map fst fa), found_info_rename.
        destruct (found_info prev pl info (map fst acts) s) as [[ind s0]|e]; cbn [map_res fst snd];
          [|reflexivity].
        rewrite (goP_rename prev pl ind acts IH).
        destruct (goP init prev pl ind acts 0 s0 []) as [[ks s']|e]; reflexivity.
  Qed.

  Lemma game_of_rename root s : game_of root (rename_bst s) = rename_game (game_of root s).
  Proof.
    unfold game_of, rename_game, rename_bst. cbn. f_equal.
    rewrite map_map. reflexivity.
  Qed.

  (** the renamed tree is accepted iff the original is (same error otherwise), and the
      compact game is the renamed compact game *)
  Theorem rename_from_root t :
    from_root (rename t) = map_res rename_game (from_root t).
  Proof.
    rewrite !from_root_eq.
    change (@b_empty NN) with (rename_bst b_empty) at 1. rewrite rename_init.
    destruct (init t (None, None) b_empty) as [[root s]|e]; cbn [map_res ren_ns fst snd];
      [|reflexivity].
    now rewrite game_of_rename.
  Qed.
End Rename.

(** *** Consequences of renaming: evaluations, solves, named strategies *)
Section RenameCor.
  Context {NN : Num}.
  Local Notation T := (T NN).
  Local Notation game := (@game NN).
  Context (fi1 fi2 fa fc : N -> N).
  Local Notation fi := (fi fi1 fi2).
  Local Notation rgame := (@rename_game NN fi1 fi2 fa).
  Local Notation rpinfo := (rename_pinfo fa).
  Local Notation rsingle := (rename_single fa).

  Lemma g_infos_rename (g : game) pl :
    g_infos (rgame g) pl = map (rpinfo (fi pl)) (g_infos g pl).
  Proof. destruct pl; reflexivity. Qed.
  Lemma g_singles_rename (g : game) pl :
    g_singles (rgame g) pl = map (rsingle (fi pl)) (g_singles g pl).
  Proof. destruct pl; reflexivity. Qed.

  Lemma arities_rename (g : game) pl : arities (rgame g) pl = arities g pl.
  Proof.
    unfold arities. rewrite g_infos_rename, map_map. apply map_ext. intros pi.
    unfold rename_pinfo. cbn [pi_actions]. apply map_length.
  Qed.

  Lemma same_core_rename (g : game) : same_core g (rgame g).
  Proof. repeat split; apply arities_rename. Qed.

  (** evaluation and solving do not see names at all *)
  Theorem info_rename (g : game) prof : info (rgame g) prof = info g prof.
  Proof. apply info_core, same_core_rename. Qed.

  Theorem solve_single_rename (g : game) m draw p budget stop :
    solve_single (rgame g) m draw p budget stop = solve_single g m draw p budget stop.
  Proof. apply solve_single_core, same_core_rename. Qed.

  (** named strategies: the renamed game exports the renamed named strategy *)
  Definition rename_entries (z : list (N * T)) : list (N * T) :=
    map (fun ap => (fa (fst ap), snd ap)) z.
  Definition rename_named (pl : bool) (l : list (N * list (N * T))) : list (N * list (N * T)) :=
    map (fun e => (fi pl (fst e), rename_entries (snd e))) l.

  Definition rename_nsai (it : @nsai NN) : @nsai NN :=
    match it with
    | AData z => AData (rename_entries z)
    | ASingle o => ASingle (option_map fa o)
    end.
  Definition rename_nsi (f : N -> N) (it : @nsi NN) : @nsi NN :=
    mkNsi (map (rpinfo f) (ns_info it)) (ns_probs it) (map (rsingle f) (ns_singles it)).

  Lemma data_next_rename z :
    data_next (rename_entries z) =
    match data_next z with
    | Some (x, r) => Some ((fa (fst x), snd x), rename_entries r)
    | None => None
    end.
  Proof.
    induction z as [|[a p] z IH]; [reflexivity|].
    unfold rename_entries in *. cbn [map data_next fst snd].
    destruct (ltb NN (zero NN) p); [reflexivity|exact IH].
  Qed.

  Lemma nsai_next_rename it :
    nsai_next (rename_nsai it) =
    match nsai_next it with
    | Some (x, it') => Some ((fa (fst x), snd x), rename_nsai it')
    | None => None
    end.
  Proof.
    destruct it as [z|[a|]]; cbn [rename_nsai nsai_next option_map]; [|reflexivity|reflexivity].
    rewrite data_next_rename. destruct (data_next z) as [[x r]|]; reflexivity.
  Qed.

  Lemma nsai_len_rename it : nsai_len (rename_nsai it) = nsai_len it.
  Proof.
    destruct it as [z|[a|]]; cbn [rename_nsai nsai_len option_map]; [|reflexivity|reflexivity].
    induction z as [|[a p] z IH]; [reflexivity|].
    unfold rename_entries in *. cbn [map filter fst snd].
    destruct (ltb NN (zero NN) p); cbn [length]; now rewrite IH.
  Qed.

  Lemma nsai_drain_rename fuel : forall it,
    nsai_drain fuel (rename_nsai it) = rename_entries (nsai_drain fuel it).
  Proof.
    induction fuel as [|f IH]; intros it; [reflexivity|].
    cbn [nsai_drain]. rewrite nsai_next_rename.
    destruct (nsai_next it) as [[x it']|]; [|reflexivity].
    unfold rename_entries at 1. cbn [map]. now rewrite IH.
  Qed.

  Lemma combine_map_l {A B C} (f : A -> B) (l : list A) (r : list C) :
    combine (map f l) r = map (fun x => (f (fst x), snd x)) (combine l r).
  Proof.
    revert r. induction l as [|x l IH]; intros [|y r]; cbn [map combine fst snd]; try reflexivity.
    now rewrite IH.
  Qed.

  Lemma nsi_next_rename f it :
    nsi_next (rename_nsi f it) =
    match nsi_next it with
    | Some ((name, ai), it') => Some ((f name, rename_nsai ai), rename_nsi f it')
    | None => None
    end.
  Proof.
    destruct it as [infos probs singles]. unfold nsi_next, rename_nsi. cbn [ns_info ns_probs ns_singles].
    destruct infos as [|pi rest]; cbn [map].
    - destruct singles as [|[i a] r]; reflexivity.
    - cbn [pi_name pi_actions rename_pinfo rename_nsai].
      rewrite map_length, combine_map_l. reflexivity.
  Qed.

  Lemma nsi_len_rename f it : nsi_len (rename_nsi f it) = nsi_len it.
  Proof. unfold nsi_len, rename_nsi. cbn [ns_info ns_singles]. now rewrite !map_length. Qed.

  Lemma nsi_drain_rename f fuel : forall it,
    nsi_drain fuel (rename_nsi f it) =
    map (fun e => (f (fst e), rename_entries (snd e))) (nsi_drain fuel it).
  Proof.
    induction fuel as [|k IH]; intros it; [reflexivity|].
    cbn [nsi_drain]. rewrite nsi_next_rename.
    destruct (nsi_next it) as [[[name ai] it']|]; [|reflexivity].
    cbn [map fst snd]. now rewrite nsai_len_rename, nsai_drain_rename, IH.
  Qed.

  Theorem as_named_rename (g : game) pl flat :
    as_named (rgame g) pl flat = rename_named pl (as_named g pl flat).
  Proof.
    unfold as_named, rename_named.
    assert (E : nsi_new (rgame g) pl flat = rename_nsi (fi pl) (nsi_new g pl flat)).
    { unfold nsi_new, rename_nsi. cbn [ns_info ns_probs ns_singles].
      now rewrite g_infos_rename, g_singles_rename. }
    rewrite E, nsi_len_rename. apply nsi_drain_rename.
  Qed.
End RenameCor.

(** the statements of part 2 at the real-number instance, in one place *)
Theorem rename_presentation (fi1 fi2 fa fc : N -> N) (t : gnodeR) :
  inj fi1 -> inj fi2 -> inj fa -> inj fc ->
  @from_root RNum (rename fi1 fi2 fa fc t) =
  map_res (@rename_game RNum fi1 fi2 fa) (@from_root RNum t).
Proof. intros H1 H2 H3 H4. now apply rename_from_root. Qed.

Corollary rename_presentation_ok (fi1 fi2 fa fc : N -> N) (t : gnodeR) (g : gameR) :
  inj fi1 -> inj fi2 -> inj fa -> inj fc -> @from_root RNum t = Ok g ->
  exists g', @from_root RNum (rename fi1 fi2 fa fc t) = Ok g' /\
    g' = @rename_game RNum fi1 fi2 fa g /\
    (forall prof, @info RNum g' prof = @info RNum g prof) /\
    (forall m draw p budget stop,
        @solve_single RNum g' m draw p budget stop = @solve_single RNum g m draw p budget stop) /\
    (forall pl flat,
        @as_named RNum g' pl flat = @rename_named RNum fi1 fi2 fa pl (@as_named RNum g pl flat)).
Proof.
  intros H1 H2 H3 H4 Hg. exists (@rename_game RNum fi1 fi2 fa g).
  rewrite rename_presentation, Hg by assumption. repeat split.
  - intros prof. apply info_rename.
  - intros. apply solve_single_rename.
  - intros. apply as_named_rename.
Qed.

Corollary rename_presentation_err (fi1 fi2 fa fc : N -> N) (t : gnodeR) e :
  inj fi1 -> inj fi2 -> inj fa -> inj fc -> @from_root RNum t = Err e ->
  @from_root RNum (rename fi1 fi2 fa fc t) = Err e.
Proof. intros H1 H2 H3 H4 Hg. rewrite rename_presentation, Hg by assumption. reflexivity. Qed.

(** the deterministic solver on the renamed game returns the renamed named strategies *)
Corollary solve_named_rename (fi1 fi2 fa : N -> N) (g : gameR) m draw p budget stop (pl : bool) :
  let strat_of (g0 : gameR) :=
    let prof := fst (fst (@solve_single RNum g0 m draw p budget stop)) in
    if pl then fst prof else snd prof in
  @as_named RNum (@rename_game RNum fi1 fi2 fa g) pl (strat_of (@rename_game RNum fi1 fi2 fa g)) =
  @rename_named RNum fi1 fi2 fa pl (@as_named RNum g pl (strat_of g)).
Proof. cbv beta zeta. now rewrite solve_single_rename, as_named_rename. Qed.
