(** * CliMoreProofs: (1) the regrets printed for a constant-sum Gambit file are those of
    the printed profile on the game as written (property C15, regret clause);
    (2) the JSON and the Gambit encodings of one abstract game load to the same game
    (property C16).

    Everything is about the real-number instance [RNum]. *)
From Coq Require Import Reals List Lra Lia Bool Arith NArith Sorting.Permutation.
From Cfr.theories Require Import Num RInst Tree GameWF Strat Eval Solve Valid TruncProofs
     Cli CliProofs CliNamesProofs CliGambitProofs PayoffEvalProofs PayoffShiftBRProofs
     CliUtilityProofs CliFinalProofs FromRootGeneric FromRootProofs PresentationProofs.
Import ListNotations.
Open Scope R_scope.

Local Notation gameR := (@game RNum).
Local Notation nodeR := (@node RNum).
Local Notation gnodeR := (@gnode RNum).
Local Notation enodeR := (@enode RNum).
Local Notation jnodeR := (@jnode RNum).
Local Notation bstR := (@bst RNum).
Local Notation pprev := (option (nat * nat) * option (nat * nat))%type.

(** ** 1. Regrets of a shifted game (C15, regret clause) *)

Lemma truncate_shift k (g : gameR) clip prof :
  @truncate RNum (shift k g) clip prof = @truncate RNum g clip prof.
Proof. reflexivity. Qed.

Lemma Valid_shift k (g : gameR) prof : Valid (shift k g) prof <-> Valid g prof.
Proof. apply Valid_game_map_payoffs. Qed.

Lemma truncate_valid (g : gameR) clip prof : Valid g prof -> Valid g (@truncate RNum g clip prof).
Proof.
  intros [H1 H2]. rewrite truncate_is_by.
  split; cbn [truncate_by fst snd]; now apply trunc_flat_valid.
Qed.

(** the whole [Output] on a shifted game: same decision, same profile, same regrets *)
Theorem cli_choose_shift k (g : gameR) (s s' clip : R) prof :
  ChanceOK g -> WFgame g -> Valid g prof ->
  let o := @cli_choose RNum (shift k g) s clip prof in
  let o' := @cli_choose RNum g s' clip prof in
  o_pruned o = o_pruned o' /\ o_prof o = o_prof o' /\
  o_reg1 o = o_reg1 o' /\ o_reg2 o = o_reg2 o' /\ o_regret o = o_regret o'.
Proof.
  intros HC HW HV. cbv zeta. unfold cli_choose. rewrite truncate_shift.
  rewrite (info_shift_WF k g prof HC HW HV).
  rewrite (info_shift_WF k g _ HC HW (truncate_valid g clip prof HV)).
  cbv zeta. unfold si_regret at 1 2 5 6. cbn [si_reg1 si_reg2].
  fold (si_regret (@info RNum g (@truncate RNum g clip prof))).
  fold (si_regret (@info RNum g prof)).
  cbn [o_pruned o_prof o_reg1 o_reg2 o_regret].
  destruct (ltb RNum _ _); cbn [si_reg1 si_reg2 si_regret]; repeat split; reflexivity.
Qed.

(** C15, regret clause.  For a constant-sum Gambit file ([c] = the sum of the two players'
    own cumulative payoffs at every terminal) that loads to [(g, sum)], with [g1] the game
    of the file as written (player one's own cumulative payoffs, no subtraction): whatever
    the solved profile and the clip threshold, the printed regrets are the regrets of the
    printed profile on [g1], the printed profile and the pruning decision are those one
    would get working on [g1] directly. *)
Theorem cli_gambit_regrets numname (root : enodeR) (c : R) (g : gameR) (sum : R) :
  (forall p, In p (own_pairs root) -> fst p + snd p = c) ->
  @gambit_load RNum numname root = Loaded (g, sum) ->
  exists n1 n2 g1,
    final_names numname true root = Some n1 /\ final_names numname false root = Some n2 /\
    @from_root RNum (@joined RNum (outcomes_of root) n1 n2 0 root 0) = Ok g1 /\
    sum = c / 2 /\ g = CliGambitProofs.game_map_payoffs (fun x => x - c / 2) g1 /\
    forall clip prof, Valid g prof ->
      let out := @cli_choose RNum g sum clip prof in
      let i1 := @info RNum g1 (o_prof out) in
      Valid g1 (o_prof out) /\
      o_reg1 out = si_reg1 i1 /\ o_reg2 out = si_reg2 i1 /\ o_regret out = si_regret i1 /\
      o_pruned out = o_pruned (@cli_choose RNum g1 0 clip prof) /\
      o_prof out = o_prof (@cli_choose RNum g1 0 clip prof).
Proof.
  intros Hc Hl.
  destruct (cli_gambit_utilities_final numname root c g sum Hc Hl)
    as (n1 & n2 & g1 & H1 & H2 & H3 & H4 & H5 & _).
  exists n1, n2, g1. do 5 (split; [assumption|]).
  destruct (from_root_sound _ g1 H3) as (HW & _ & HC).
  assert (Eg : g = shift (- (c / 2)) g1).
  { rewrite H5. unfold shift. rewrite <- (game_map_payoffs_same (fun x => x + - (c / 2)) g1).
    apply game_map_payoffs_ext. intros x. lra. }
  intros clip prof HV out i1.
  assert (HV1 : Valid g1 prof) by (rewrite Eg in HV; now apply Valid_shift in HV).
  destruct (cli_choose_shift (- (c / 2)) g1 sum 0 clip prof HC HW HV1) as (A & B & C1 & C2 & C3).
  rewrite <- Eg in A, B, C1, C2, C3. fold out in A, B, C1, C2, C3.
  assert (HVo : Valid g1 (o_prof out)) by (rewrite B; now apply cli_printed_valid).
  destruct (cli_output_is_info_of_printed g1 0 clip prof) as (D3 & D1 & D2 & _).
  unfold i1. rewrite B at 2 3 4. rewrite C1, C2, C3.
  split; [exact HVo|]. repeat split; assumption.
Qed.

(** ** 2. Chance infoset labels that are pairwise distinct are immaterial

    A chance node labelled [Some k] with [k] used nowhere else gets its own entry in the
    chance table, exactly like an unlabelled one: erasing such labels changes nothing in
    the result of [from_root] (the compact game does not record the labels). *)

Lemma NoDup_app_inv {A} (l1 l2 : list A) :
  NoDup (l1 ++ l2) -> NoDup l1 /\ NoDup l2 /\ (forall x, In x l1 -> ~ In x l2).
Proof.
  induction l1 as [|a l1 IH]; cbn [app]; intros H.
  - split; [constructor|]. split; [assumption|]. intros x [].
  - inversion H as [|? ? Hn Hd]; subst. destruct (IH Hd) as (I1 & I2 & I3).
    split; [|split; [assumption|]].
    + constructor; [|assumption]. intros C. apply Hn. apply in_or_app. now left.
    + intros x [<-|Hx]; [|now apply I3]. intros C. apply Hn. apply in_or_app. now right.
Qed.

Section ChanceLabels.
  Context {NN : Num}.
  Local Notation T := (T NN).
  Local Notation gnode := (@gnode NN).
  Local Notation node := (@node NN).
  Local Notation bst := (@bst NN).
  Local Notation game := (@game NN).

  Definition olist (o : option N) : list N := match o with Some k => [k] | None => [] end.

  (** the labels written on the chance nodes of a tree *)
  Fixpoint clabels (t : gnode) : list N :=
    match t with
    | GTerm _ => []
    | GChance info outs => olist info ++ flat_map (fun o => clabels (snd o)) outs
    | GPlayer _ _ acts => flat_map (fun a => clabels (snd a)) acts
    end.

  (** the same tree without them *)
  Fixpoint cerase (t : gnode) : gnode :=
    match t with
    | GTerm p => GTerm p
    | GChance _ outs => GChance None (map (fun o => (fst o, cerase (snd o))) outs)
    | GPlayer pl info acts => GPlayer pl info (map (fun a => (fst a, cerase (snd a))) acts)
    end.

  Definition ckeys (s : bst) : list N := flat_map (fun e => olist (fst e)) (b_chance s).
  Definition er_centry (e : option N * list T) : option N * list T := (None, snd e).
  Definition erase_bst (s : bst) : bst := set_chance s (map er_centry (b_chance s)).
  Definition er_ns (ns : node * bst) : node * bst := (fst ns, erase_bst (snd ns)).

  Lemma b_infos_erase s pl : b_infos (erase_bst s) pl = b_infos s pl.
  Proof. destruct pl; reflexivity. Qed.
  Lemma b_singles_erase s pl : b_singles (erase_bst s) pl = b_singles s pl.
  Proof. destruct pl; reflexivity. Qed.
  Lemma set_infos_erase s pl l : set_infos (erase_bst s) pl l = erase_bst (set_infos s pl l).
  Proof. destruct pl; reflexivity. Qed.
  Lemma set_singles_erase s pl l : set_singles (erase_bst s) pl l = erase_bst (set_singles s pl l).
  Proof. destruct pl; reflexivity. Qed.
  Lemma ckeys_set_infos s pl l : ckeys (set_infos s pl l) = ckeys s.
  Proof. destruct pl; reflexivity. Qed.
  Lemma ckeys_set_singles s pl l : ckeys (set_singles s pl l) = ckeys s.
  Proof. destruct pl; reflexivity. Qed.

  Lemma find_index_none_all {A} (f : A -> bool) l :
    (forall x, In x l -> f x = false) -> find_index f l = None.
  Proof.
    induction l as [|x l IH]; intros H; cbn [find_index]; [reflexivity|].
    rewrite (H x (or_introl eq_refl)), IH; [reflexivity|]. intros y Hy. apply H. now right.
  Qed.

  Lemma find_key_fresh k (s : bst) : ~ In k (ckeys s) -> find_index (opt_key_eqb k) (b_chance s) = None.
  Proof.
    intros Hk. apply find_index_none_all. intros [[k'|] v] Hin; unfold opt_key_eqb; cbn [fst];
      [|reflexivity].
    apply N.eqb_neq. intros ->. apply Hk. unfold ckeys. apply in_flat_map.
    exists (Some k', v). split; [assumption|now left].
  Qed.

  (** the keys after a chance node: those before, and its own label *)
  Lemma finishC_erase info pr ks s :
    (forall k, In k (olist info) -> ~ In k (ckeys s)) ->
    finishC None pr ks (erase_bst s) = map_res er_ns (finishC info pr ks s) /\
    (forall n s', finishC info pr ks s = Ok (n, s') ->
                  forall k, In k (ckeys s') -> In k (ckeys s) \/ In k (olist info)).
  Proof.
    intros Hk. unfold finishC. destruct ks as [|k1 [|k2 ks]].
    - split; [reflexivity|discriminate].
    - split; [reflexivity|]. intros n s' H; inversion H; subst. now left.
    - assert (El : length (b_chance (erase_bst s)) = length (b_chance s)).
      { unfold erase_bst, set_chance. cbn [b_chance]. apply map_length. }
      assert (Eapp : forall o, set_chance (erase_bst s) (b_chance (erase_bst s) ++ [(None, normalise pr)]) =
                               erase_bst (set_chance s (b_chance s ++ [(o, normalise pr)]))).
      { intros o. unfold erase_bst, set_chance. cbn [b_chance b_infos1 b_infos2 b_singles1 b_singles2].
        rewrite map_app. reflexivity. }
      assert (Ekeys : forall o k, In k (ckeys (set_chance s (b_chance s ++ [(o, normalise pr)]))) ->
                                  In k (ckeys s) \/ In k (olist o)).
      { intros o k. unfold ckeys, set_chance. cbn [b_chance]. rewrite flat_map_app, in_app_iff.
        cbn [flat_map fst]. rewrite app_nil_r. tauto. }
      destruct info as [k0|].
      + rewrite (find_key_fresh k0 s) by (apply Hk; now left).
        rewrite El, (Eapp (Some k0)). split; [reflexivity|].
        intros n s' H; inversion H; subst. apply Ekeys.
      + rewrite El, (Eapp None). split; [reflexivity|].
        intros n s' H; inversion H; subst. apply Ekeys.
  Qed.

  Definition er_P (t : gnode) : Prop :=
    forall prev s, NoDup (clabels t) -> (forall k, In k (clabels t) -> ~ In k (ckeys s)) ->
      init (cerase t) prev (erase_bst s) = map_res er_ns (init t prev s) /\
      (forall n s', init t prev s = Ok (n, s') ->
                    forall k, In k (ckeys s') -> In k (ckeys s) \/ In k (clabels t)).

  Lemma goC_erase prev outs : Forall (fun o => er_P (snd o)) outs ->
    forall s probs kids,
      NoDup (flat_map (fun o => clabels (snd o)) outs) ->
      (forall k, In k (flat_map (fun o => clabels (snd o)) outs) -> ~ In k (ckeys s)) ->
      goC init prev (map (fun o => (fst o, cerase (snd o))) outs) (erase_bst s) probs kids =
      map_res (fun x : list T * list node * bst => (fst (fst x), snd (fst x), erase_bst (snd x)))
              (goC init prev outs s probs kids) /\
      (forall pr ks s', goC init prev outs s probs kids = Ok (pr, ks, s') ->
         forall k, In k (ckeys s') ->
                   In k (ckeys s) \/ In k (flat_map (fun o => clabels (snd o)) outs)).
  Proof.
    induction 1 as [|[p c] r Hc _ IH]; intros s probs kids Hnd Hfresh.
    - split; [reflexivity|]. cbn [goC]. intros pr ks s' H; inversion H; subst. now left.
    - cbn [flat_map snd] in Hnd, Hfresh. apply NoDup_app_inv in Hnd as (N1 & N2 & N3).
      cbn [map goC fst snd flat_map]. destruct (ltb NN (zero NN) p && is_fin NN p).
      2:{ split; [reflexivity|discriminate]. }
      cbn [snd] in Hc.
      destruct (Hc prev s N1 (fun k Hk => Hfresh k (in_or_app _ _ _ (or_introl Hk)))) as [E1 K1].
      rewrite E1. destruct (init c prev s) as [[c' s1]|e]; cbn [map_res er_ns fst snd].
      2:{ split; [reflexivity|discriminate]. }
      assert (Hfresh1 : forall k, In k (flat_map (fun o => clabels (snd o)) r) -> ~ In k (ckeys s1)).
      { intros k Hk C. destruct (K1 c' s1 eq_refl k C) as [C'|C'].
        - revert C'. apply Hfresh. apply in_or_app. now right.
        - now apply (N3 k C'). }
      destruct (IH s1 (p :: probs) (c' :: kids) N2 Hfresh1) as [E2 K2].
      split; [exact E2|]. intros pr ks s' H k Hk. rewrite in_app_iff.
      destruct (K2 pr ks s' H k Hk) as [C|C]; [|tauto].
      destruct (K1 c' s1 eq_refl k C); tauto.
  Qed.

  Lemma goP_erase prev pl ind acts : Forall (fun a => er_P (snd a)) acts ->
    forall ai s kids,
      NoDup (flat_map (fun a => clabels (snd a)) acts) ->
      (forall k, In k (flat_map (fun a => clabels (snd a)) acts) -> ~ In k (ckeys s)) ->
      goP init prev pl ind (map (fun a => (fst a, cerase (snd a))) acts) ai (erase_bst s) kids =
      map_res (fun x : list node * bst => (fst x, erase_bst (snd x)))
              (goP init prev pl ind acts ai s kids) /\
      (forall ks s', goP init prev pl ind acts ai s kids = Ok (ks, s') ->
         forall k, In k (ckeys s') ->
                   In k (ckeys s) \/ In k (flat_map (fun a => clabels (snd a)) acts)).
  Proof.
    induction 1 as [|[a c] r Hc _ IH]; intros ai s kids Hnd Hfresh.
    - split; [reflexivity|]. cbn [goP]. intros ks s' H; inversion H; subst. now left.
    - cbn [flat_map snd] in Hnd, Hfresh. apply NoDup_app_inv in Hnd as (N1 & N2 & N3).
      cbn [map goP fst snd flat_map]. cbn [snd] in Hc.
      destruct (Hc (set_prev prev pl (Some (ind, ai))) s N1
                   (fun k Hk => Hfresh k (in_or_app _ _ _ (or_introl Hk)))) as [E1 K1].
      rewrite E1. destruct (init c _ s) as [[c' s1]|e]; cbn [map_res er_ns fst snd].
      2:{ split; [reflexivity|discriminate]. }
      assert (Hfresh1 : forall k, In k (flat_map (fun a => clabels (snd a)) r) -> ~ In k (ckeys s1)).
      { intros k Hk C. destruct (K1 c' s1 eq_refl k C) as [C'|C'].
        - revert C'. apply Hfresh. apply in_or_app. now right.
        - now apply (N3 k C'). }
      destruct (IH (S ai) s1 (c' :: kids) N2 Hfresh1) as [E2 K2].
      split; [exact E2|]. intros ks s' H k Hk. rewrite in_app_iff.
      destruct (K2 ks s' H k Hk) as [C|C]; [|tauto].
      destruct (K1 c' s1 eq_refl k C); tauto.
  Qed.

  Lemma found_info_erase prev pl info actions s :
    found_info prev pl info actions (erase_bst s) =
    map_res (fun x => (fst x, erase_bst (snd x))) (found_info prev pl info actions s) /\
    (forall ind s0, found_info prev pl info actions s = Ok (ind, s0) -> ckeys s0 = ckeys s).
  Proof.
    unfold found_info. rewrite b_infos_erase.
    destruct (find_index _ (b_infos s pl)) as [[ind pi]|].
    - destruct (negb (list_eqb N.eqb (pi_actions pi) actions)); [split; [reflexivity|discriminate]|].
      destruct (negb (prev_eqb (pi_prev pi) (get_prev prev pl))); [split; [reflexivity|discriminate]|].
      split; [reflexivity|]. intros i s0 H; inversion H; subst. reflexivity.
    - destruct (nodupb actions); [|split; [reflexivity|discriminate]].
      cbn [map_res fst snd]. rewrite set_infos_erase. split; [reflexivity|].
      intros i s0 H; inversion H; subst. apply ckeys_set_infos.
  Qed.

  Lemma erase_init t : er_P t.
  Proof.
    induction t as [p|info outs IH|pl info acts IH] using gnode_ind'; intros prev s Hnd Hfresh.
    - cbn [cerase clabels]. rewrite !init_GTerm. destruct (is_fin NN p).
      + split; [reflexivity|]. intros n s' H; inversion H; subst. now left.
      + split; [reflexivity|discriminate].
    - cbn [cerase clabels] in *. apply NoDup_app_inv in Hnd as (N1 & N2 & N3).
      rewrite !init_GChance.
      destruct (goC_erase prev outs IH s [] [] N2
                  (fun k Hk => Hfresh k (in_or_app _ _ _ (or_intror Hk)))) as [E K].
      rewrite E. destruct (goC init prev outs s [] []) as [[[pr ks] s']|e]; cbn [map_res fst snd].
      2:{ split; [reflexivity|discriminate]. }
      assert (Hk' : forall k, In k (olist info) -> ~ In k (ckeys s')).
      { intros k Hk C. destruct (K pr ks s' eq_refl k C) as [C'|C'].
        - revert C'. apply Hfresh. apply in_or_app. now left.
        - now apply (N3 k Hk). }
      destruct (finishC_erase info pr ks s' Hk') as [E2 K2]. split; [exact E2|].
      intros n s'' H k Hk. rewrite in_app_iff.
      destruct (K2 n s'' H k Hk) as [C|C]; [|tauto].
      destruct (K pr ks s' eq_refl k C); tauto.
    - cbn [cerase clabels] in *. destruct acts as [|[a c] [|y r]].
      + split; [reflexivity|discriminate].
      + cbn [map fst snd flat_map] in *. rewrite app_nil_r in *.
        rewrite !init_GPlayer_single. unfold singleP.
        rewrite b_infos_erase, b_singles_erase.
        destruct (existsb _ (b_infos s pl)); [split; [reflexivity|discriminate]|].
        apply Forall_inv in IH. cbn [snd] in IH.
        destruct (find_index _ (b_singles s pl)) as [[i [n a']]|].
        * destruct (N.eqb a' a); [now apply IH|split; [reflexivity|discriminate]].
        * rewrite set_singles_erase.
          destruct (IH prev (set_singles s pl (b_singles s pl ++ [(info, a)])) Hnd) as [E K].
          { intros k Hk. rewrite ckeys_set_singles. now apply Hfresh. }
          split; [exact E|]. intros n s' H k Hk.
          rewrite <- (ckeys_set_singles s pl (b_singles s pl ++ [(info, a)])). now apply (K n s').
      + set (acts := (a, c) :: y :: r) in *.
        change (map (fun a0 => (fst a0, cerase (snd a0))) acts)
          with ((a, cerase c) :: (fst y, cerase (snd y)) ::
                map (fun a0 => (fst a0, cerase (snd a0))) r) at 1.
        rewrite init_GPlayer_multi.
        change ((a, cerase c) :: (fst y, cerase (snd y)) ::
                map (fun a0 => (fst a0, cerase (snd a0))) r)
          with (map (fun a0 => (fst a0, cerase (snd a0))) acts).
        unfold acts at 2 3. rewrite init_GPlayer_multi. fold acts. unfold multiP.
        rewrite b_singles_erase.
        destruct (existsb _ (b_singles s pl)); [split; [reflexivity|discriminate]|].
        rewrite map_map. cbn [fst].
        change (map (fun x : N * gnode => fst x) acts) with (map fst acts).
        destruct (found_info_erase prev pl info (map fst acts) s) as [EF KF]. rewrite EF.
        destruct (found_info prev pl info (map fst acts) s) as [[ind s0]|e]; cbn [map_res fst snd].
        2:{ split; [reflexivity|discriminate]. }
        specialize (KF ind s0 eq_refl).
        destruct (goP_erase prev pl ind acts IH 0%nat s0 [] Hnd) as [E K].
        { intros k Hk. rewrite KF. now apply Hfresh. }
        rewrite E. destruct (goP init prev pl ind acts 0 s0 []) as [[ks s']|e]; cbn [map_res fst snd].
        2:{ split; [reflexivity|discriminate]. }
        split; [reflexivity|]. intros n s'' H k Hk. inversion H; subst.
        rewrite <- KF. now apply (K ks s'').
  Qed.

  (** erasing pairwise distinct chance labels does not change the result of [from_root]:
      same game, or same error *)
  Theorem cerase_from_root t : NoDup (clabels t) -> from_root (cerase t) = from_root t.
  Proof.
    intros Hnd. rewrite !from_root_eq.
    change (@b_empty NN) with (erase_bst b_empty) at 1.
    destruct (erase_init t (None, None) b_empty Hnd) as [E _]; [intros k _ []|].
    rewrite E. destruct (init t (None, None) b_empty) as [[root s]|e]; cbn [map_res er_ns fst snd];
      [|reflexivity].
    f_equal. unfold game_of, erase_bst, set_chance. cbn [b_chance b_infos1 b_infos2 b_singles1 b_singles2].
    f_equal. rewrite map_map. reflexivity.
  Qed.

  (** hence two trees that differ only in such labels load to the same game *)
  Corollary from_root_up_to_labels t t' :
    cerase t = cerase t' -> NoDup (clabels t) -> NoDup (clabels t') -> from_root t = from_root t'.
  Proof. intros E H H'. rewrite <- (cerase_from_root t H), <- (cerase_from_root t' H'). now rewrite E. Qed.
End ChanceLabels.

(** ** 3. One abstract game, two file formats (C16) *)

(** a two-player zero-sum game tree with named outcomes / actions; chance nodes carry no
    infoset label *)
Inductive agame :=
| ATerm (x : R)
| AChance (outs : list (N * (R * agame)))
| APlayer (pl : bool) (info : N) (acts : list (N * agame)).

Fixpoint agame_ind' (P : agame -> Prop)
         (HT : forall x, P (ATerm x))
         (HC : forall outs, Forall (fun e => P (snd (snd e))) outs -> P (AChance outs))
         (HP : forall pl info acts, Forall (fun e => P (snd e)) acts -> P (APlayer pl info acts))
         (a : agame) : P a :=
  match a with
  | ATerm x => HT x
  | AChance outs =>
      HC outs ((fix go (l : list (N * (R * agame))) : Forall (fun e => P (snd (snd e))) l :=
                  match l with
                  | [] => Forall_nil _
                  | e :: r => Forall_cons e (agame_ind' P HT HC HP (snd (snd e))) (go r)
                  end) outs)
  | APlayer pl info acts =>
      HP pl info acts ((fix go (l : list (N * agame)) : Forall (fun e => P (snd e)) l :=
                          match l with
                          | [] => Forall_nil _
                          | e :: r => Forall_cons e (agame_ind' P HT HC HP (snd e)) (go r)
                          end) acts)
  end.

(** *** the JSON file of the game: player one's payoff at the terminals, chance [infoset]
    absent *)
Fixpoint enc_json (a : agame) : jnodeR :=
  match a with
  | ATerm x => @JTerm RNum x
  | AChance outs =>
      @JChance RNum None (map (fun e => (fst e, (fst (snd e), enc_json (snd (snd e))))) outs)
  | APlayer pl info acts =>
      @JPlayer RNum pl info (map (fun e => (fst e, enc_json (snd e))) acts)
  end.

(** *** the Gambit file of the game.  Every node takes a fresh number from one counter:
    a terminal uses it as the id of its own outcome, with payoffs [(x, -x)]; a chance node
    as its infoset number.  Interior nodes have the null outcome.  A decision node carries
    its infoset name, and that name is also used as the infoset number. *)
Section EncLoops.
  Context (rec : agame -> N -> enodeR * N).
  Fixpoint enc_outs (l : list (N * (R * agame))) (m : N) : list (N * R * enodeR) * N :=
    match l with
    | [] => ([], m)
    | (k, (p, c)) :: r =>
        let (e, m1) := rec c m in
        let (es, m2) := enc_outs r m1 in ((k, p, e) :: es, m2)
    end.
  Fixpoint enc_acts (l : list (N * agame)) (m : N) : list (N * enodeR) * N :=
    match l with
    | [] => ([], m)
    | (k, c) :: r =>
        let (e, m1) := rec c m in
        let (es, m2) := enc_acts r m1 in ((k, e) :: es, m2)
    end.
End EncLoops.

Fixpoint encg (a : agame) (n : N) {struct a} : enodeR * N :=
  match a with
  | ATerm x => (@ETerm RNum n (x, - x), N.succ n)
  | AChance outs =>
      let (kids, n') :=
        (fix go (l : list (N * (R * agame))) (m : N) : list (N * R * enodeR) * N :=
           match l with
           | [] => ([], m)
           | (k, (p, c)) :: r =>
               let (e, m1) := encg c m in
               let (es, m2) := go r m1 in ((k, p, e) :: es, m2)
           end) outs (N.succ n) in
      (@EChance RNum n kids 0%N None, n')
  | APlayer pl info acts =>
      let (kids, n') :=
        (fix go (l : list (N * agame)) (m : N) : list (N * enodeR) * N :=
           match l with
           | [] => ([], m)
           | (k, c) :: r =>
               let (e, m1) := encg c m in
               let (es, m2) := go r m1 in ((k, e) :: es, m2)
           end) acts (N.succ n) in
      (@EPlayer RNum pl info (Some info) kids 0%N None, n')
  end.

Definition enc_gambit (a : agame) : enodeR := fst (encg a 1%N).

Lemma encg_AChance outs n :
  encg (AChance outs) n =
  let (kids, n') := enc_outs encg outs (N.succ n) in (@EChance RNum n kids 0%N None, n').
Proof. reflexivity. Qed.

Lemma encg_APlayer pl info acts n :
  encg (APlayer pl info acts) n =
  let (kids, n') := enc_acts encg acts (N.succ n) in
  (@EPlayer RNum pl info (Some info) kids 0%N None, n').
Proof. reflexivity. Qed.

(** *** reading a Gambit file back as an abstract game: player one's payoff at the
    terminals, the given infoset names *)
Fixpoint dec (e : enodeR) : agame :=
  match e with
  | ETerm _ pay => ATerm (fst pay)
  | EChance _ acts _ _ =>
      AChance (map (fun x => (fst (fst x), (snd (fst x), dec (snd x)))) acts)
  | EPlayer pl _ name acts _ _ =>
      APlayer pl (match name with Some nm => nm | None => 0%N end)
              (map (fun x => (fst x, dec (snd x))) acts)
  end.

(** *** comparing by (name, probability) or by name alone is the same when the names differ *)
Lemma insert_by_ext_in {A} (le1 le2 : A -> A -> bool) x l :
  (forall y, In y l -> le1 x y = le2 x y) -> insert_by le1 x l = insert_by le2 x l.
Proof.
  induction l as [|y l IH]; intros H; cbn [insert_by]; [reflexivity|].
  rewrite (H y (or_introl eq_refl)). destruct (le2 x y); [reflexivity|].
  f_equal. apply IH. intros z Hz. apply H. now right.
Qed.

Lemma chance_cmp_key (x y : N * (R * gnodeR)) : fst x <> fst y -> chance_cmp x y = key_leb x y.
Proof.
  intros Hne. unfold chance_cmp, key_leb.
  destruct (N.ltb_spec (fst x) (fst y)) as [Hl|Hl], (N.leb_spec (fst x) (fst y)) as [Hl'|Hl'];
    cbn [orb]; try reflexivity; try lia.
  destruct (N.eqb_spec (fst x) (fst y)) as [E|E]; [contradiction|reflexivity].
Qed.

Lemma sort_by_chance_cmp_key (l : list (N * (R * gnodeR))) :
  NoDup (map fst l) -> sort_by chance_cmp l = sort_by key_leb l.
Proof.
  induction l as [|x l IH]; intros Hd; [reflexivity|].
  cbn [map] in Hd. inversion Hd as [|? ? Hn Hd']; subst.
  rewrite !sort_by_cons, (IH Hd'). apply insert_by_ext_in.
  intros y Hy. apply chance_cmp_key. intros E. apply Hn. rewrite E.
  apply in_map. now apply sort_by_In in Hy.
Qed.

(** *** the outcome table of a file *)
Definition otab_step (n : enodeR) : list (N * (R * R)) :=
  match n with
  | ETerm oid p => [(oid, p)]
  | EChance _ _ oid (Some p) => [(oid, p)]
  | EPlayer _ _ _ _ oid (Some p) => [(oid, p)]
  | _ => []
  end.

Lemma fold_left_app_step {A B} (F : B -> list A) (l : list B) : forall acc,
  fold_left (fun a m => a ++ F m) l acc = acc ++ flat_map F l.
Proof.
  induction l as [|x l IH]; intros acc; cbn [fold_left flat_map]; [now rewrite app_nil_r|].
  now rewrite IH, app_assoc.
Qed.

Definition otab_fold (n : enodeR) (acc : list (N * (R * R))) : list (N * (R * R)) :=
  match n with
  | ETerm oid p => acc ++ [(oid, p)]
  | EChance _ _ oid (Some p) => acc ++ [(oid, p)]
  | EPlayer _ _ _ _ oid (Some p) => acc ++ [(oid, p)]
  | _ => acc
  end.

Lemma otab_fold_flat (l : list enodeR) : forall acc,
  fold_left (fun a m => otab_fold m a) l acc = acc ++ flat_map otab_step l.
Proof.
  induction l as [|n l IH]; intros acc; cbn [fold_left flat_map]; [now rewrite app_nil_r|].
  rewrite IH, app_assoc. f_equal.
  destruct n as [oid p|info acts oid [p|]|pl info name acts oid [p|]]; cbn [otab_step otab_fold];
    try reflexivity; now rewrite app_nil_r.
Qed.

Lemma outcomes_of_flat (root : enodeR) : outcomes_of root = flat_map otab_step (enodes root).
Proof.
  unfold outcomes_of. fold otab_fold. rewrite e_fold_enodes. now rewrite otab_fold_flat.
Qed.

(** the terminal outcome ids and the chance infoset numbers of a file, in file order *)
Definition eouts (e : enodeR) : list N :=
  flat_map (fun n => match n with ETerm oid _ => [oid] | _ => [] end) (enodes e).
Definition echs (e : enodeR) : list N :=
  flat_map (fun n => match n with EChance info _ _ _ => [info] | _ => [] end) (enodes e).

(** what the encoding promises, node by node: a terminal carries a proper outcome with
    opposite payoffs; an interior node has the null outcome; the outcomes of a chance node
    have distinct names; a decision node carries its infoset name *)
Definition elocal (n : enodeR) : Prop :=
  match n with
  | ETerm oid pay => oid <> 0%N /\ snd pay = - fst pay
  | EChance _ acts oid pay => oid = 0%N /\ pay = None /\ NoDup (map (fun x => fst (fst x)) acts)
  | EPlayer _ _ name _ oid pay => oid = 0%N /\ pay = None /\ name <> None
  end.

Lemma flat_map_flat_map {A B C} (f : B -> list C) (g : A -> list B) l :
  flat_map f (flat_map g l) = flat_map (fun x => flat_map f (g x)) l.
Proof.
  induction l as [|x l IH]; cbn [flat_map]; [reflexivity|]. now rewrite flat_map_app, IH.
Qed.

Lemma echs_EChance info (acts : list (N * R * enodeR)) oid pay :
  echs (@EChance RNum info acts oid pay) = info :: flat_map (fun x => echs (snd x)) acts.
Proof.
  unfold echs. rewrite enodes_EChance. cbn [flat_map app]. f_equal. apply flat_map_flat_map.
Qed.

Lemma echs_EPlayer pl info name (acts : list (N * enodeR)) oid pay :
  echs (@EPlayer RNum pl info name acts oid pay) = flat_map (fun x => echs (snd x)) acts.
Proof.
  unfold echs. rewrite enodes_EPlayer. cbn [flat_map app]. apply flat_map_flat_map.
Qed.

Lemma outcomes_keys (root : enodeR) :
  (forall n, In n (enodes root) -> elocal n) -> map fst (outcomes_of root) = eouts root.
Proof.
  rewrite outcomes_of_flat. unfold eouts.
  generalize (enodes root) as l. induction l as [|n l IH]; intros H; [reflexivity|].
  cbn [flat_map]. rewrite map_app. f_equal.
  2:{ apply IH. intros m Hm. apply H. now right. }
  specialize (H n (or_introl eq_refl)).
  destruct n as [oid p|info acts oid [p|]|pl info name acts oid [p|]]; cbn [otab_step map fst elocal] in *;
    try reflexivity; destruct H as (_ & C & _); discriminate.
Qed.

(** with distinct outcome ids on the terminals, every terminal finds its own payoffs *)
Lemma pay_of_terminal (root : enodeR) oid pay :
  (forall n, In n (enodes root) -> elocal n) -> NoDup (eouts root) ->
  In (@ETerm RNum oid pay) (enodes root) -> @pay_of RNum (outcomes_of root) oid = pay.
Proof.
  intros Hl Hd Hin. pose proof (Hl _ Hin) as [Hne _]. unfold pay_of.
  destruct (N.eqb_spec oid 0) as [E|_]; [contradiction|].
  rewrite (alookup_in_nodup oid (outcomes_of root) pay); [reflexivity| |].
  - now rewrite outcomes_keys.
  - rewrite outcomes_of_flat. apply in_flat_map. exists (@ETerm RNum oid pay). split; [assumption|now left].
Qed.

(** *** the raw tree of a well-encoded file, against the JSON reader on the decoded game *)
Section JoinedGood.
  Context (tab : list (N * (R * R))) (n1 n2 : list (N * N)).
  Local Notation jn := (@joined RNum tab n1 n2).

  (** what is needed of the two global tables at one node *)
  Definition Good (n : enodeR) : Prop :=
    match n with
    | ETerm oid pay => @pay_of RNum tab oid = pay /\ snd pay = - fst pay
    | EChance _ acts oid _ => oid = 0%N /\ NoDup (map (fun x => fst (fst x)) acts)
    | EPlayer pl info name _ oid _ =>
        oid = 0%N /\ exists nm, name = Some nm /\ name_of (if pl then n1 else n2) info = nm
    end.

  Lemma pay_of_null : @pay_of RNum tab 0%N = (0, 0).
  Proof. reflexivity. Qed.

  Lemma Good_kids_c info (acts : list (N * R * enodeR)) oid pay :
    (forall n, In n (enodes (@EChance RNum info acts oid pay)) -> Good n) ->
    Good (@EChance RNum info acts oid pay) /\
    forall x, In x acts -> forall n, In n (enodes (snd x)) -> Good n.
  Proof.
    intros H. split; [apply H, enodes_root_in|]. intros x Hx n Hn. apply H.
    rewrite enodes_EChance. right. apply in_flat_map. now exists x.
  Qed.

  Lemma Good_kids_p pl info name (acts : list (N * enodeR)) oid pay :
    (forall n, In n (enodes (@EPlayer RNum pl info name acts oid pay)) -> Good n) ->
    Good (@EPlayer RNum pl info name acts oid pay) /\
    forall x, In x acts -> forall n, In n (enodes (snd x)) -> Good n.
  Proof.
    intros H. split; [apply H, enodes_root_in|]. intros x Hx n Hn. apply H.
    rewrite enodes_EPlayer. right. apply in_flat_map. now exists x.
  Qed.

  (** the two players' cumulative payoffs are opposite at every terminal *)
  Lemma good_terminal_pairs (e : enodeR) :
    (forall n, In n (enodes e) -> Good n) ->
    forall c1 c2 p, In p (@terminal_pairs RNum tab e c1 c2) -> fst p + snd p = c1 + c2.
  Proof.
    induction e as [oid pay|info acts oid pay IH|pl info name acts oid pay IH] using enode_ind';
      intros HG c1 c2 p Hp.
    - rewrite terminal_pairs_ETerm in Hp. destruct Hp as [<-|[]].
      destruct (HG _ (enodes_root_in _)) as [E1 E2]. rewrite E1. cbn [fst snd]. lra.
    - apply Good_kids_c in HG as [[-> _] HK]. rewrite terminal_pairs_EChance, pay_of_null in Hp.
      apply in_flat_map in Hp as (x & Hx & Hp). rewrite Forall_forall in IH.
      rewrite (IH x Hx (HK x Hx) _ _ p Hp). cbn [fst snd]. lra.
    - apply Good_kids_p in HG as [[-> _] HK]. rewrite terminal_pairs_EPlayer, pay_of_null in Hp.
      apply in_flat_map in Hp as (x & Hx & Hp). rewrite Forall_forall in IH.
      rewrite (IH x Hx (HK x Hx) _ _ p Hp). cbn [fst snd]. lra.
  Qed.

  (** the chance labels of the raw tree are the chance infoset numbers of the file *)
  Lemma joined_clabels sum (e : enodeR) : forall cum,
    Permutation (clabels (jn sum e cum)) (echs e).
  Proof.
    induction e as [oid pay|info acts oid pay IH|pl info name acts oid pay IH] using enode_ind';
      intros cum.
    - rewrite joined_ETerm. reflexivity.
    - rewrite joined_EChance, echs_EChance. cbn [clabels olist app]. constructor.
      rewrite flat_map_map'.
      etransitivity; [apply Permutation_flat_map, sort_by_perm|].
      rewrite flat_map_map'. cbn [snd].
      apply Permutation_flat_map_pointwise. eapply Forall_impl; [|exact IH].
      intros x Hx. apply Hx.
    - rewrite joined_EPlayer, echs_EPlayer. cbn [clabels].
      etransitivity; [apply Permutation_flat_map, sort_by_perm|].
      rewrite flat_map_map'. cbn [snd].
      apply Permutation_flat_map_pointwise. eapply Forall_impl; [|exact IH].
      intros x Hx. apply Hx.
  Qed.

  (** the raw tree, chance labels apart, is the tree the JSON reader builds *)
  Lemma joined_is_json (e : enodeR) :
    (forall n, In n (enodes e) -> Good n) ->
    forall cum, cum = 0 -> cerase (jn 0 e cum) = json_to_gnode (enc_json (dec e)).
  Proof.
    induction e as [oid pay|info acts oid pay IH|pl info name acts oid pay IH] using enode_ind';
      intros HG cum Hcum.
    - rewrite joined_ETerm. destruct (HG _ (enodes_root_in _)) as [E1 _]. rewrite E1.
      cbn [cerase dec enc_json json_to_gnode]. f_equal. lra.
    - apply Good_kids_c in HG as [[-> Hnd] HK]. rewrite joined_EChance, pay_of_null.
      cbn [dec enc_json cerase fst]. rewrite json_to_gnode_JChance. f_equal.
      rewrite sort_by_chance_cmp_key by (now rewrite map_map).
      set (h := fun x : N * (R * gnodeR) => (fst x, (fst (snd x), cerase (snd (snd x))))).
      rewrite !map_map.
      transitivity (map snd (map h (sort_by key_leb
         (map (fun x : N * R * enodeR => (fst (fst x), (snd (fst x), jn 0 (snd x) (cum + 0)))) acts)))).
      { rewrite !map_map. reflexivity. }
      rewrite <- (sort_by_map h key_leb key_leb) by reflexivity.
      do 2 f_equal. rewrite map_map. apply map_ext_in. intros x Hx.
      unfold h, jconv_c. cbn [fst snd]. do 2 f_equal.
      rewrite Forall_forall in IH. apply (IH x Hx (HK x Hx)). lra.
    - apply Good_kids_p in HG as [[-> (nm & -> & Hnm)] HK]. rewrite joined_EPlayer, pay_of_null.
      cbn [dec enc_json cerase fst]. rewrite json_to_gnode_JPlayer, Hnm. f_equal.
      set (h := fun x : N * gnodeR => (fst x, cerase (snd x))).
      change (map (fun a : N * gnodeR => (fst a, cerase (snd a)))) with (map h).
      rewrite <- (sort_by_map h key_leb key_leb) by reflexivity.
      f_equal. rewrite !map_map. apply map_ext_in. intros x Hx.
      unfold h, jconv_p. cbn [fst snd]. f_equal.
      rewrite Forall_forall in IH. apply (IH x Hx (HK x Hx)). lra.
  Qed.
End JoinedGood.

(** *** the infoset names of a fully named file *)

(** the numbering of the infosets is an injective renaming of the names, player by player:
    nodes with one number carry one name, nodes with different numbers different names *)
Definition names_inj (me : bool) (root : enodeR) : Prop :=
  forall k k' nm nm', has_name me root k nm -> has_name me root k' nm' -> (k = k' <-> nm = nm').

Section NamedFile.
  Context (numname : N -> N) (root : enodeR).
  Context (Hloc : forall n, In n (enodes root) -> elocal n).

  Lemma infoset_has_name me k : has_infoset me root k -> exists nm, has_name me root k nm.
  Proof.
    intros (n & name & Hn & Hh). pose proof (Hloc n Hn) as HL.
    destruct n as [oid p|info acts oid p|pl info [nm|] acts oid p]; cbn [header] in Hh;
      try discriminate; inversion Hh; subst.
    - exists nm, (@EPlayer RNum me k (Some nm) acts oid p). now split.
    - destruct HL as (_ & _ & C). now contradiction C.
  Qed.

  Lemma no_unnamed me : unnamed_numbers me root = [].
  Proof.
    destruct (unnamed_numbers me root) as [|k l] eqn:E; [reflexivity|]. exfalso.
    assert (Hk : In k (unnamed_numbers me root)) by (rewrite E; now left).
    apply unnamed_numbers_in in Hk as [H1 H2]. apply H2. now apply infoset_has_name.
  Qed.

  Lemma assigned_is_given me : assigned_names numname me root = given_names me root.
  Proof. unfold assigned_names. rewrite no_unnamed. cbn [map]. apply app_nil_r. Qed.

  Lemma named_final_names me :
    names_inj me root -> final_names numname me root = Some (given_names me root).
  Proof.
    intros Hinj. apply final_names_some_iff. rewrite assigned_is_given.
    split; [reflexivity|]. split.
    - intros (k & Hk & _). now rewrite no_unnamed in Hk.
    - apply nodupb_iff. destruct (nodupb (map snd (given_names me root))) eqn:E; [reflexivity|].
      exfalso. apply dup_names_iff in E; [|apply given_names_nodup].
      destruct E as (k1 & k2 & nm & Hne & H1 & H2). apply Hne.
      apply (Hinj k1 k2 nm nm); [now apply given_names_in|now apply given_names_in|reflexivity].
  Qed.

  Lemma named_name_of pl info nm acts oid pay :
    names_inj pl root ->
    In (@EPlayer RNum pl info (Some nm) acts oid pay) (enodes root) ->
    name_of (given_names pl root) info = nm.
  Proof.
    intros Hinj Hin.
    assert (Hn : has_name pl root info nm).
    { exists (@EPlayer RNum pl info (Some nm) acts oid pay). now split. }
    assert (Hk : In info (map fst (given_names pl root))) by (apply given_names_keys; now exists nm).
    unfold name_of. destruct (alookup info (given_names pl root)) as [nm'|] eqn:E.
    - apply alookup_some_in, given_names_in in E. now apply (Hinj info info nm' nm).
    - apply alookup_none in E. contradiction.
  Qed.

  Context (Hinj1 : names_inj true root) (Hinj2 : names_inj false root).
  Context (Houts : NoDup (eouts root)).

  Lemma encoded_good n :
    In n (enodes root) ->
    Good (outcomes_of root) (given_names true root) (given_names false root) n.
  Proof.
    intros Hn. pose proof (Hloc n Hn) as HL.
    destruct n as [oid p|info acts oid p|pl info [nm|] acts oid p]; cbn [Good elocal] in *.
    - split; [now apply pay_of_terminal|apply HL].
    - destruct HL as (H1 & _ & H3). now split.
    - destruct HL as (H1 & _). split; [assumption|]. exists nm. split; [reflexivity|].
      destruct pl; eapply named_name_of; eassumption.
    - destruct HL as (_ & _ & C). now contradiction C.
  Qed.

  (** C16, the tree statement, for any file that encodes a game in the way described:
      it is accepted with the constant 0, and its raw tree is, chance labels apart (they
      are pairwise distinct), the tree the JSON reader builds from the JSON file of the
      same game *)
  Theorem gambit_tree_is_json :
    NoDup (echs root) -> eproper root ->
    exists t, @gambit_tree RNum numname root = Loaded (t, 0) /\
              cerase t = json_to_gnode (enc_json (dec root)) /\
              NoDup (clabels t).
  Proof.
    intros Hch Hprop.
    set (tab := outcomes_of root). set (g1 := given_names true root). set (g2 := given_names false root).
    assert (HG : forall n, In n (enodes root) -> Good tab g1 g2 n) by (apply encoded_good).
    assert (Hc : forall p, In p (own_pairs root) -> fst p + snd p = 0).
    { intros p Hp. unfold own_pairs in Hp.
      transitivity (0 + 0); [exact (good_terminal_pairs tab g1 g2 root HG 0 0 p Hp)|lra]. }
    destruct (gambit_constant_accepted numname root 0 Hc (own_pairs_nonempty root Hprop))
      as (m1 & m2 & F1 & F2 & Ht).
    { exists g1, g2. split; now apply named_final_names. }
    rewrite named_final_names in F1, F2 by assumption.
    inversion F1; inversion F2; subst m1 m2. fold g1 g2 tab in Ht.
    replace (0 / 2) with 0 in Ht by lra.
    exists (@joined RNum tab g1 g2 0 root 0). split; [exact Ht|]. split.
    - now apply joined_is_json.
    - eapply Permutation_NoDup; [apply Permutation_sym, joined_clabels|exact Hch].
  Qed.

  (** hence the two readers produce the same game, or reject with the same error *)
  Theorem gambit_load_is_json :
    NoDup (echs root) -> eproper root ->
    @gambit_load RNum numname root = @json_load RNum (enc_json (dec root)).
  Proof.
    intros Hch Hprop. destruct (gambit_tree_is_json Hch Hprop) as (t & Ht & Et & Hd).
    unfold gambit_load, json_load. rewrite Ht, <- Et. unfold load_tree.
    rewrite (cerase_from_root t Hd). reflexivity.
  Qed.
End NamedFile.

(** *** the concrete Gambit encoding meets these conditions *)

(** side conditions on the abstract game: every chance / decision node has a child (the
    grammar of both formats), the outcomes of a chance node have distinct names *)
Inductive awf : agame -> Prop :=
| awf_T x : awf (ATerm x)
| awf_C outs : outs <> [] -> NoDup (map fst outs) ->
               Forall (fun o => awf (snd (snd o))) outs -> awf (AChance outs)
| awf_P pl info acts : acts <> [] -> Forall (fun o => awf (snd o)) acts -> awf (APlayer pl info acts).

(** all the numbers drawn from the counter, in file order *)
Definition eall (e : enodeR) : list N :=
  flat_map (fun n => match n with
                     | ETerm oid _ => [oid]
                     | EChance info _ _ _ => [info]
                     | EPlayer _ _ _ _ _ _ => []
                     end) (enodes e).

Lemma eall_EChance info (acts : list (N * R * enodeR)) oid pay :
  eall (@EChance RNum info acts oid pay) = info :: flat_map (fun x => eall (snd x)) acts.
Proof.
  unfold eall. rewrite enodes_EChance. cbn [flat_map app]. f_equal. apply flat_map_flat_map.
Qed.

Lemma eall_EPlayer pl info name (acts : list (N * enodeR)) oid pay :
  eall (@EPlayer RNum pl info name acts oid pay) = flat_map (fun x => eall (snd x)) acts.
Proof.
  unfold eall. rewrite enodes_EPlayer. cbn [flat_map app]. apply flat_map_flat_map.
Qed.

Lemma NoDup_app_intro {A} (l1 l2 : list A) :
  NoDup l1 -> NoDup l2 -> (forall x, In x l1 -> ~ In x l2) -> NoDup (l1 ++ l2).
Proof.
  induction 1 as [|a l1 Hn Hd IH]; intros H2 Hdis; cbn [app]; [assumption|].
  constructor.
  - rewrite in_app_iff. intros [C|C]; [contradiction|]. apply (Hdis a); [now left|assumption].
  - apply IH; [assumption|]. intros x Hx. apply Hdis. now right.
Qed.

Lemma NoDup_flat_map_sub {A B} (F H : A -> list B) (l : list A) :
  (forall x, F x = H x \/ F x = []) -> NoDup (flat_map H l) -> NoDup (flat_map F l).
Proof.
  intros Hsub. 
  assert (Hin : forall l' y, In y (flat_map F l') -> In y (flat_map H l')).
  { intros l' y Hy. apply in_flat_map in Hy as (x & Hx & Hy). apply in_flat_map. exists x.
    split; [assumption|]. destruct (Hsub x) as [E|E]; rewrite E in Hy; [assumption|destruct Hy]. }
  induction l as [|x l IH]; cbn [flat_map]; intros Hd; [constructor|].
  apply NoDup_app_inv in Hd as (D1 & D2 & D3).
  destruct (Hsub x) as [E|E]; rewrite E; [|now apply IH].
  apply NoDup_app_intro; [assumption|now apply IH|].
  intros y Hy C. apply (D3 y Hy). now apply Hin.
Qed.

Lemma eall_eouts e : NoDup (eall e) -> NoDup (eouts e).
Proof.
  apply NoDup_flat_map_sub. intros [oid p|info acts oid p|pl info name acts oid p]; auto.
Qed.

Lemma eall_echs e : NoDup (eall e) -> NoDup (echs e).
Proof.
  apply NoDup_flat_map_sub. intros [oid p|info acts oid p|pl info name acts oid p]; auto.
Qed.

Lemma eproper_EChance info (acts : list (N * R * enodeR)) oid pay :
  eproper (@EChance RNum info acts oid pay) <-> acts <> [] /\ Forall (fun x => eproper (snd x)) acts.
Proof.
  cbn [eproper]. apply and_iff_compat_l.
  induction acts as [|[[a p] c] r IH]; [split; [constructor|constructor]|].
  rewrite IH. split.
  - intros [H1 H2]. now constructor.
  - intros H. inversion H; subst. now split.
Qed.

Lemma eproper_EPlayer pl info name (acts : list (N * enodeR)) oid pay :
  eproper (@EPlayer RNum pl info name acts oid pay) <->
  acts <> [] /\ Forall (fun x => eproper (snd x)) acts.
Proof.
  cbn [eproper]. apply and_iff_compat_l.
  induction acts as [|[a c] r IH]; [split; [constructor|constructor]|].
  rewrite IH. split.
  - intros [H1 H2]. now constructor.
  - intros H. inversion H; subst. now split.
Qed.

(** every decision node carries its infoset number as its name *)
Definition self_named (x : enodeR) : Prop :=
  match x with EPlayer _ info name _ _ _ => name = Some info | _ => True end.

Definition EncOK (a : agame) (n : N) (r : enodeR * N) : Prop :=
  dec (fst r) = a /\ (n <= snd r)%N /\
  (forall i, In i (eall (fst r)) -> (n <= i < snd r)%N) /\ NoDup (eall (fst r)) /\
  (forall x, In x (enodes (fst r)) -> self_named x) /\
  (awf a -> (0 < n)%N -> (forall x, In x (enodes (fst r)) -> elocal x) /\ eproper (fst r)).

Definition OutsOK (outs : list (N * (R * agame))) (m : N) (r : list (N * R * enodeR) * N) : Prop :=
  map (fun x => (fst (fst x), (snd (fst x), dec (snd x)))) (fst r) = outs /\ (m <= snd r)%N /\
  (forall i, In i (flat_map (fun x => eall (snd x)) (fst r)) -> (m <= i < snd r)%N) /\
  NoDup (flat_map (fun x => eall (snd x)) (fst r)) /\
  (forall x, In x (flat_map (fun k => enodes (snd k)) (fst r)) -> self_named x) /\
  (Forall (fun o => awf (snd (snd o))) outs -> (0 < m)%N ->
   (forall x, In x (flat_map (fun k => enodes (snd k)) (fst r)) -> elocal x) /\
   Forall (fun x => eproper (snd x)) (fst r)).

Definition ActsOK (acts : list (N * agame)) (m : N) (r : list (N * enodeR) * N) : Prop :=
  map (fun x => (fst x, dec (snd x))) (fst r) = acts /\ (m <= snd r)%N /\
  (forall i, In i (flat_map (fun x => eall (snd x)) (fst r)) -> (m <= i < snd r)%N) /\
  NoDup (flat_map (fun x => eall (snd x)) (fst r)) /\
  (forall x, In x (flat_map (fun k => enodes (snd k)) (fst r)) -> self_named x) /\
  (Forall (fun o => awf (snd o)) acts -> (0 < m)%N ->
   (forall x, In x (flat_map (fun k => enodes (snd k)) (fst r)) -> elocal x) /\
   Forall (fun x => eproper (snd x)) (fst r)).

Lemma enc_outs_ok outs :
  Forall (fun o => forall n, EncOK (snd (snd o)) n (encg (snd (snd o)) n)) outs ->
  forall m, OutsOK outs m (enc_outs encg outs m).
Proof.
  induction 1 as [|[k [p c]] r Hc _ IH]; intros m.
  - cbn [enc_outs]. unfold OutsOK. cbn [fst snd map flat_map].
    split; [reflexivity|]. split; [lia|]. split; [intros i []|]. split; [constructor|].
    split; [intros x []|]. intros _ _. split; [intros x []|constructor].
  - cbn [enc_outs]. cbn [snd] in Hc. specialize (Hc m).
    destruct (encg c m) as [e m1]. specialize (IH m1).
    destruct (enc_outs encg r m1) as [es m2].
    destruct Hc as (A1 & A2 & A3 & A4 & A5 & A6). destruct IH as (B1 & B2 & B3 & B4 & B5 & B6).
    unfold OutsOK. cbn [fst snd map flat_map] in *.
    split; [now rewrite A1, B1|]. split; [lia|]. split; [|split; [|split]].
    + intros i Hi. apply in_app_or in Hi as [Hi|Hi]; [apply A3 in Hi|apply B3 in Hi]; lia.
    + apply NoDup_app_intro; [assumption|assumption|].
      intros i Hi C. apply A3 in Hi. apply B3 in C. lia.
    + intros x Hx. apply in_app_or in Hx as [Hx|Hx]; [now apply A5|now apply B5].
    + intros HW Hm. inversion HW as [|? ? W1 W2]; subst. cbn [snd] in W1.
      destruct (A6 W1 Hm) as [A7 A8]. destruct (B6 W2 ltac:(lia)) as [B7 B8]. split.
      * intros x Hx. apply in_app_or in Hx as [Hx|Hx]; [now apply A7|now apply B7].
      * now constructor.
Qed.

Lemma enc_acts_ok acts :
  Forall (fun o => forall n, EncOK (snd o) n (encg (snd o) n)) acts ->
  forall m, ActsOK acts m (enc_acts encg acts m).
Proof.
  induction 1 as [|[k c] r Hc _ IH]; intros m.
  - cbn [enc_acts]. unfold ActsOK. cbn [fst snd map flat_map].
    split; [reflexivity|]. split; [lia|]. split; [intros i []|]. split; [constructor|].
    split; [intros x []|]. intros _ _. split; [intros x []|constructor].
  - cbn [enc_acts]. cbn [snd] in Hc. specialize (Hc m).
    destruct (encg c m) as [e m1]. specialize (IH m1).
    destruct (enc_acts encg r m1) as [es m2].
    destruct Hc as (A1 & A2 & A3 & A4 & A5 & A6). destruct IH as (B1 & B2 & B3 & B4 & B5 & B6).
    unfold ActsOK. cbn [fst snd map flat_map] in *.
    split; [now rewrite A1, B1|]. split; [lia|]. split; [|split; [|split]].
    + intros i Hi. apply in_app_or in Hi as [Hi|Hi]; [apply A3 in Hi|apply B3 in Hi]; lia.
    + apply NoDup_app_intro; [assumption|assumption|].
      intros i Hi C. apply A3 in Hi. apply B3 in C. lia.
    + intros x Hx. apply in_app_or in Hx as [Hx|Hx]; [now apply A5|now apply B5].
    + intros HW Hm. inversion HW as [|? ? W1 W2]; subst. cbn [snd] in W1.
      destruct (A6 W1 Hm) as [A7 A8]. destruct (B6 W2 ltac:(lia)) as [B7 B8]. split.
      * intros x Hx. apply in_app_or in Hx as [Hx|Hx]; [now apply A7|now apply B7].
      * now constructor.
Qed.

Lemma encg_ok (a : agame) : forall n, EncOK a n (encg a n).
Proof.
  induction a as [x|outs IH|pl info acts IH] using agame_ind'; intros n.
  - unfold EncOK. cbn [encg fst snd dec]. split; [reflexivity|]. split; [lia|].
    split; [intros i [<-|[]]; lia|]. split; [repeat constructor; intros []|].
    split; [intros y [<-|[]]; exact I|]. intros _ Hn. split; [|exact I].
    intros y [<-|[]]. cbn [elocal fst snd]. split; [lia|reflexivity].
  - rewrite encg_AChance. pose proof (enc_outs_ok outs IH (N.succ n)) as HK.
    destruct (enc_outs encg outs (N.succ n)) as [kids n'].
    destruct HK as (B1 & B2 & B3 & B4 & B5 & B6). unfold EncOK. cbn [fst snd dec] in *.
    split; [f_equal; exact B1|]. split; [lia|]. rewrite eall_EChance, enodes_EChance.
    split; [|split; [|split]].
    + intros i [<-|Hi]; [lia|]. apply B3 in Hi. lia.
    + constructor; [|assumption]. intros C. apply B3 in C. lia.
    + intros y [<-|Hy]; [exact I|now apply B5].
    + intros HW Hn. inversion HW as [|? Hne Hnd HF|]; subst.
      destruct (B6 HF ltac:(lia)) as [B7 B8]. split.
      * intros y [<-|Hy]; [|now apply B7]. cbn [elocal]. split; [reflexivity|]. split; [reflexivity|].
        rewrite map_map in Hnd. exact Hnd.
      * apply eproper_EChance. split; [|assumption]. intros ->. now apply Hne.
  - rewrite encg_APlayer. pose proof (enc_acts_ok acts IH (N.succ n)) as HK.
    destruct (enc_acts encg acts (N.succ n)) as [kids n'].
    destruct HK as (B1 & B2 & B3 & B4 & B5 & B6). unfold EncOK. cbn [fst snd dec] in *.
    split; [f_equal; exact B1|]. split; [lia|]. rewrite eall_EPlayer, enodes_EPlayer.
    split; [|split; [|split]].
    + intros i Hi. apply B3 in Hi. lia.
    + assumption.
    + intros y [<-|Hy]; [reflexivity|now apply B5].
    + intros HW Hn. inversion HW as [| |? ? ? Hne HF]; subst.
      destruct (B6 HF ltac:(lia)) as [B7 B8]. split.
      * intros y [<-|Hy]; [|now apply B7]. cbn [elocal]. repeat split. discriminate.
      * apply eproper_EPlayer. split; [|assumption]. intros ->. now apply Hne.
Qed.

Lemma self_named_inj me (root : enodeR) :
  (forall x, In x (enodes root) -> self_named x) -> names_inj me root.
Proof.
  intros H.
  assert (E : forall k nm, has_name me root k nm -> nm = k).
  { intros k nm (n & Hn & Hh). specialize (H n Hn).
    destruct n as [oid p|info acts oid p|pl info name acts oid p]; cbn [header self_named] in *;
      try discriminate. subst name. now inversion Hh. }
  intros k k' nm nm' H1 H2. apply E in H1, H2. subst. reflexivity.
Qed.

(** C16.  The Gambit file of an abstract game is accepted with the constant 0, and its raw
    tree is the tree the JSON reader builds from the JSON file of the same game, up to the
    labels of the chance nodes ([Some k] with pairwise distinct [k] against [None]);
    [numname] is arbitrary since no infoset is unnamed. *)
Theorem json_gambit_agree numname (a : agame) :
  awf a ->
  exists t, @gambit_tree RNum numname (enc_gambit a) = Loaded (t, 0) /\
            cerase t = json_to_gnode (enc_json a) /\ NoDup (clabels t).
Proof.
  intros HW. unfold enc_gambit.
  destruct (encg_ok a 1%N) as (A1 & _ & _ & A4 & A5 & A6).
  destruct (A6 HW ltac:(lia)) as [A7 A8].
  pose proof (gambit_tree_is_json numname (fst (encg a 1%N)) A7
                (self_named_inj true _ A5) (self_named_inj false _ A5)
                (eall_eouts _ A4) (eall_echs _ A4) A8) as H.
  rewrite A1 in H. exact H.
Qed.

(** the two readers produce the same game and the same constant, or reject alike (only
    [Game::from_root] can refuse, with the same error) *)
Theorem json_gambit_same_game numname (a : agame) :
  awf a -> @gambit_load RNum numname (enc_gambit a) = @json_load RNum (enc_json a).
Proof.
  intros HW. destruct (json_gambit_agree numname a HW) as (t & Ht & Et & Hd).
  unfold gambit_load, json_load. rewrite Ht, <- Et. unfold load_tree.
  rewrite (cerase_from_root t Hd). reflexivity.
Qed.

(** hence every evaluation, every solve (whatever the method, the oracle, the settings,
    the budget, the stopping rule) and every [Output] agree *)
Theorem json_gambit_same_solution numname (a : agame) :
  awf a ->
  match @gambit_load RNum numname (enc_gambit a), @json_load RNum (enc_json a) with
  | Loaded (g, s), Loaded (g', s') =>
      s = 0 /\ s' = 0 /\ g' = g /\ same_core g g' /\
      (forall prof, @info RNum g' prof = @info RNum g prof) /\
      (forall m draw p budget stop,
          @solve_single RNum g' m draw p budget stop = @solve_single RNum g m draw p budget stop) /\
      (forall clip prof, @cli_choose RNum g' s' clip prof = @cli_choose RNum g s clip prof)
  | Rejected r, Rejected r' => r = r' /\ exists e, r = RGame e
  | _, _ => False
  end.
Proof.
  intros HW. rewrite (json_gambit_same_game numname a HW).
  unfold json_load, load_tree.
  destruct (@from_root RNum (json_to_gnode (enc_json a))) as [g|e].
  - repeat split; reflexivity.
  - split; [reflexivity|]. now exists e.
Qed.

(** the same for any Gambit file written in that way, whatever numbers it uses *)
Theorem gambit_file_same_solution numname (root : enodeR) :
  (forall n, In n (enodes root) -> elocal n) ->
  names_inj true root -> names_inj false root ->
  NoDup (eouts root) -> NoDup (echs root) -> eproper root ->
  @gambit_load RNum numname root = @json_load RNum (enc_json (dec root)).
Proof. intros. now apply gambit_load_is_json. Qed.

(** ** 4. Examples *)
From Cfr.theories Require Import CliExamples.

(** the constant-sum file of [CliExamples] (payoffs (3, 7) and (6, 4), constant 10): the
    printed regrets are those of the printed profile on the game with payoffs 3 and 6 *)
Example ex_const_regrets numname g sum clip prof :
  @gambit_load RNum numname ex_const = Loaded (g, sum) -> Valid g prof ->
  exists g1,
    @from_root RNum (@GPlayer RNum true (numname 1%N)
                       [(1%N, @GTerm RNum (0 + 0 + 3 - 0)); (2%N, @GTerm RNum (0 + 0 + 6 - 0))]) = Ok g1 /\
    let out := @cli_choose RNum g sum clip prof in
    o_reg1 out = si_reg1 (@info RNum g1 (o_prof out)) /\
    o_reg2 out = si_reg2 (@info RNum g1 (o_prof out)) /\
    o_regret out = si_regret (@info RNum g1 (o_prof out)) /\
    o_pruned out = o_pruned (@cli_choose RNum g1 0 clip prof).
Proof.
  intros Hl HV.
  destruct (cli_gambit_regrets numname ex_const 10 g sum) as (n1 & n2 & g1 & F1 & F2 & Hg1 & _ & _ & H).
  - rewrite ex_const_pairs. intros p [<-|[<-|[]]]; cbn [fst snd]; lra.
  - exact Hl.
  - destruct (ex_const_names numname) as [E1 E2]. rewrite E1 in F1. rewrite E2 in F2.
    inversion F1; inversion F2; subst n1 n2. exists g1. split; [exact Hg1|].
    destruct (H clip prof HV) as (_ & R1 & R2 & R3 & R4 & _). cbv zeta. now repeat split.
Qed.

(** an abstract game: a chance move (outcomes named 2 and 1, written in that order), then
    matching pennies in which player two does not see player one's move *)
Definition ex_mp (w : R) : agame :=
  APlayer true 5
    [(1%N, APlayer false 6 [(1%N, ATerm w); (2%N, ATerm (- w))]);
     (2%N, APlayer false 6 [(1%N, ATerm (- w)); (2%N, ATerm w)])].

Definition ex_agame : agame :=
  AChance [(2%N, (1 / 4, ex_mp 1)); (1%N, (3 / 4, ATerm 2))].

Example ex_agame_wf : awf ex_agame.
Proof.
  assert (M : forall w, awf (ex_mp w)).
  { intros w. unfold ex_mp. repeat (constructor; try discriminate). }
  unfold ex_agame. constructor; [discriminate| |].
  - cbn [map fst]. repeat constructor; cbn [In]; intros C; repeat destruct C as [C|C]; try discriminate; assumption.
  - constructor; [cbn [snd]; apply M|]. constructor; [cbn [snd]; constructor|constructor].
Qed.

(** its Gambit file: nodes numbered 1 .. 10 in file order *)
Example ex_agame_gambit :
  enc_gambit ex_agame =
  @EChance RNum 1
    [(2%N, 1 / 4,
      @EPlayer RNum true 5 (Some 5%N)
        [(1%N, @EPlayer RNum false 6 (Some 6%N)
                 [(1%N, @ETerm RNum 4 (1, - 1)); (2%N, @ETerm RNum 5 (- 1, - - 1))] 0 None);
         (2%N, @EPlayer RNum false 6 (Some 6%N)
                 [(1%N, @ETerm RNum 7 (- 1, - - 1)); (2%N, @ETerm RNum 8 (1, - 1))] 0 None)]
        0 None);
     (1%N, 3 / 4, @ETerm RNum 9 (2, - 2))] 0 None.
Proof. reflexivity. Qed.

(** the tree the JSON reader builds: outcomes in name order, no chance label *)
Example ex_agame_json_tree :
  json_to_gnode (enc_json ex_agame) =
  @GChance RNum None
    [(3 / 4, @GTerm RNum 2);
     (1 / 4, @GPlayer RNum true 5
               [(1%N, @GPlayer RNum false 6 [(1%N, @GTerm RNum 1); (2%N, @GTerm RNum (- 1))]);
                (2%N, @GPlayer RNum false 6 [(1%N, @GTerm RNum (- 1)); (2%N, @GTerm RNum 1)])])].
Proof. reflexivity. Qed.

(** both files load to the same game, whatever the strings of the infoset numbers are *)
Example ex_agame_same numname :
  @gambit_load RNum numname (enc_gambit ex_agame) = @json_load RNum (enc_json ex_agame).
Proof. apply json_gambit_same_game, ex_agame_wf. Qed.

(** a labelled chance node is the same as an unlabelled one when the label is not reused *)
Example ex_label_immaterial (p q x y : R) k :
  @from_root RNum (@GChance RNum (Some k) [(p, @GTerm RNum x); (q, @GTerm RNum y)]) =
  @from_root RNum (@GChance RNum None [(p, @GTerm RNum x); (q, @GTerm RNum y)]).
Proof.
  symmetry. apply (cerase_from_root (@GChance RNum (Some k) [(p, @GTerm RNum x); (q, @GTerm RNum y)])).
  cbn [clabels olist flat_map app snd]. repeat constructor. intros [].
Qed.
