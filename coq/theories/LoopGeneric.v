(** * LoopGeneric: early termination (property C09) for EVERY number type.

    [LoopProofs.v] proves C09 for the real-number instance [RNum].  The content of
    the property -- a thresholded run is the unthresholded run cut at the first
    iteration after which the test fires; a test that never fires never shortens
    a run; the budget is never exceeded -- is about the structure of
    [Solve.solve_loop] / [Solve.solve_single] only.  Here it is proved for an
    arbitrary [NN : Num], with [stop : T NN -> bool] an arbitrary predicate on the
    total bound [fmax NN b1 b2]; nothing is assumed about the arithmetic of [NN]
    (no order, no laws).  The second part instantiates the theorems at the
    executed binary64 instance [FNum] with the test [fun b => PrimFloat.ltb b r]
    and proves that a NaN threshold never shortens a run at binary64.

    All names carry the prefix [G] (generic) resp. [F] (binary64) so that the file
    can be imported next to [LoopProofs.v]. *)
From Coq Require Import List NArith Bool Arith Lia.
From Cfr.theories Require Import Num Tree Strat Eval Solve.
Import ListNotations.

(** bounded search: the least [k] in [t+1 .. t+rem] with [f k = true], or [t+rem]
    (same definition as [LoopProofs.first_fire]) *)
Fixpoint Gfirst_fire (f : nat -> bool) (rem t : nat) : nat :=
  match rem with
  | O => t
  | S r => if f (S t) then S t else Gfirst_fire f r (S t)
  end.

Lemma Gfirst_fire_spec f rem t :
  let k := Gfirst_fire f rem t in
  (t <= k <= t + rem)%nat /\ ((1 <= rem)%nat -> (t < k)%nat) /\
  (forall j, (t < j < k)%nat -> f j = false) /\
  ((k < t + rem)%nat -> f k = true).
Proof.
  revert t; induction rem as [|r IH]; intros t; cbn [Gfirst_fire].
  - cbv zeta. split; [lia|]. split; [lia|]. split; [intros j Hj; lia|lia].
  - destruct (f (S t)) eqn:E; cbv zeta.
    + split; [lia|]. split; [lia|]. split; [intros j Hj; lia|intros _; exact E].
    + specialize (IH (S t)). cbv zeta in IH. destruct IH as (H1 & H2 & H3 & H4).
      split; [lia|]. split; [lia|]. split.
      * intros j Hj. destruct (Nat.eq_dec j (S t)) as [->|Hne]; [exact E|]. apply H3; lia.
      * intros Hk. apply H4; lia.
Qed.

Lemma Gfirst_fire_ext f f' rem t :
  (forall k, (t < k)%nat -> f k = f' k) -> Gfirst_fire f rem t = Gfirst_fire f' rem t.
Proof.
  revert t; induction rem as [|r IH]; intros t H; cbn [Gfirst_fire]; [reflexivity|].
  rewrite (H (S t)) by lia. destruct (f' (S t)); [reflexivity|]. apply IH. intros k Hk; apply H; lia.
Qed.

Lemma Gfirst_fire_shift f f' rem t :
  (forall k, (t < k)%nat -> f (S k) = f' k) ->
  Gfirst_fire f rem (S t) = S (Gfirst_fire f' rem t).
Proof.
  revert t; induction rem as [|r IH]; intros t H; cbn [Gfirst_fire]; [reflexivity|].
  rewrite (H (S t)) by lia. destruct (f' (S t)); [reflexivity|]. apply IH. intros k Hk; apply H; lia.
Qed.

(** [Gfirst_fire] is THE least index, characterised without reference to the code *)
Lemma Gfirst_fire_least f rem t j :
  (t < j <= t + rem)%nat -> f j = true ->
  (Gfirst_fire f rem t <= j)%nat /\ f (Gfirst_fire f rem t) = true.
Proof.
  intros Hj Hf. destruct (Gfirst_fire_spec f rem t) as (H1 & H2 & H3 & H4).
  assert (Hle : (Gfirst_fire f rem t <= j)%nat).
  { destruct (le_lt_dec (Gfirst_fire f rem t) j) as [|Hlt]; [assumption|].
    rewrite H3 in Hf by lia. discriminate. }
  split; [exact Hle|].
  destruct (Nat.eq_dec (Gfirst_fire f rem t) j) as [->|Hne]; [exact Hf|]. apply H4; lia.
Qed.

Lemma Gfirst_fire_none f rem t :
  (forall j, (t < j <= t + rem)%nat -> f j = false) -> Gfirst_fire f rem t = (t + rem)%nat.
Proof.
  intros H. destruct (Gfirst_fire_spec f rem t) as (H1 & H2 & H3 & H4).
  destruct (Nat.eq_dec (Gfirst_fire f rem t) (t + rem)) as [|Hne]; [assumption|].
  assert (Hlt : (Gfirst_fire f rem t < t + rem)%nat) by lia.
  specialize (H4 Hlt).
  destruct rem as [|r]; [lia|]. rewrite H in H4; [discriminate|]. specialize (H2 ltac:(lia)). lia.
Qed.

Section Generic.
  Context {NN : Num}.
  Local Notation T := (T NN).

  (** the test that never fires *)
  Definition Gnever : T -> bool := fun _ => false.

  (** total bound [max(b1,b2)] with the [fmax] of the number type *)
  Definition Gregs_bound (regs : option (T * T)) : option T :=
    match regs with Some (b1, b2) => Some (fmax NN b1 b2) | None => None end.

  (** does [stop] fire on an (optional) bound; no iteration = no bound = no *)
  Definition Gfires (stop : T -> bool) (ob : option T) : bool :=
    match ob with Some b => stop b | None => false end.

  Section Loop.
    Context (g : @game NN) (m : method) (draw : @oracle NN) (p : @params NN).

    Local Notation loop := (@solve_loop NN g m draw p).
    Local Notation iter := (@one_iter NN g m draw p).
    Local Notation pstate := (@pstate NN).

    Lemma Gloop_S (stop : T -> bool) r it (st : pstate) regs ran :
      loop stop (S r) it st regs ran =
      let '(st', (r1, r2)) := iter it st in
      if stop (fmax NN r1 r2) then (st', Some (r1, r2), it)
      else loop stop r (it + 1)%N st' (Some (r1, r2)) it.
    Proof. reflexivity. Qed.

    (** the loop only looks at the values of [stop], not at how it is written
        (no functional extensionality needed) *)
    Lemma Gloop_ext (stop stop' : T -> bool) rem it (st : pstate) regs ran :
      (forall b, stop b = stop' b) ->
      loop stop rem it st regs ran = loop stop' rem it st regs ran.
    Proof.
      intros Hs. revert it st regs ran; induction rem as [|r IH]; intros it st regs ran; [reflexivity|].
      rewrite !Gloop_S. destruct (iter it st) as [st' [r1 r2]].
      rewrite Hs. destruct (stop' (fmax NN r1 r2)); [reflexivity|apply IH].
    Qed.

    (** bound after [k] unthresholded iterations started at iteration number [it] in state [st] *)
    Definition Gbound_from (it : N) (st : pstate) (k : nat) : option T :=
      Gregs_bound (snd (fst (loop Gnever k it st None 0%N))).

    (** once an iteration has run, the initial [regs]/[ran] are forgotten *)
    Lemma Gloop_never_forgets k it (st : pstate) regs ran regs' ran' :
      (1 <= k)%nat ->
      loop Gnever k it st regs ran = loop Gnever k it st regs' ran'.
    Proof. destruct k; [lia|reflexivity]. Qed.

    (** KEY LEMMA: a thresholded run is the unthresholded run cut at the first
        iteration at which the test fires *)
    Lemma Gloop_stop_never (stop : T -> bool) rem it (st : pstate) regs ran :
      loop stop rem it st regs ran =
      loop Gnever (Gfirst_fire (fun k => Gfires stop (Gbound_from it st k)) rem 0) it st regs ran.
    Proof.
      revert it st regs ran; induction rem as [|r IH]; intros it st regs ran; [reflexivity|].
      cbn [Gfirst_fire].
      assert (Hb1 : Gbound_from it st 1 =
                    let '(_, (r1, r2)) := iter it st in Some (fmax NN r1 r2)).
      { unfold Gbound_from. rewrite Gloop_S. destruct (iter it st) as [st' [r1 r2]].
        unfold Gnever at 1. reflexivity. }
      rewrite Hb1. rewrite Gloop_S.
      destruct (iter it st) as [st' [r1 r2]] eqn:E. cbn [Gfires].
      destruct (stop (fmax NN r1 r2)) eqn:Es.
      - rewrite Gloop_S, E. unfold Gnever at 1. reflexivity.
      - rewrite (Gfirst_fire_shift _ (fun k => Gfires stop (Gbound_from (it + 1)%N st' k))).
        + rewrite Gloop_S, E. unfold Gnever at 1. apply IH.
        + intros k Hk. f_equal. unfold Gbound_from. rewrite Gloop_S, E. unfold Gnever at 1.
          rewrite (Gloop_never_forgets k _ _ (Some (r1, r2)) it None 0%N) by lia. reflexivity.
    Qed.

    (** number of iterations reported by an unthresholded run *)
    Lemma Gloop_never_ran k it (st : pstate) regs ran :
      snd (loop Gnever k it st regs ran) =
      match k with O => ran | S _ => (it + N.of_nat k - 1)%N end.
    Proof.
      revert it st regs ran; induction k as [|k IH]; intros it st regs ran; [reflexivity|].
      rewrite Gloop_S. destruct (iter it st) as [st' [r1 r2]]. unfold Gnever at 1.
      rewrite IH. destruct k; lia.
    Qed.

    (** budget and the meaning of stopping early, for the general loop *)
    Lemma Gloop_budget (stop : T -> bool) rem it (st : pstate) regs ran st' regs' ran' :
      loop stop rem it st regs ran = (st', regs', ran') ->
      (rem = 0%nat /\ st' = st /\ regs' = regs /\ ran' = ran) \/
      ((it <= ran')%N /\ (ran' < it + N.of_nat rem)%N /\
       exists b1 b2, regs' = Some (b1, b2) /\
                     ((ran' + 1 < it + N.of_nat rem)%N -> stop (fmax NN b1 b2) = true)).
    Proof.
      revert it st regs ran; induction rem as [|r IH]; intros it st regs ran H.
      - left. cbn [solve_loop] in H. injection H as <- <- <-. auto.
      - right. rewrite Gloop_S in H. destruct (iter it st) as [st1 [r1 r2]].
        destruct (stop (fmax NN r1 r2)) eqn:Es.
        + injection H as <- <- <-. split; [lia|]. split; [lia|]. exists r1, r2. auto.
        + apply IH in H. destruct H as [(-> & -> & -> & ->)|(H1 & H2 & b1 & b2 & -> & H3)].
          * split; [lia|]. split; [lia|]. exists r1, r2. split; [reflexivity|]. intros; lia.
          * split; [lia|]. split; [lia|]. exists b1, b2. split; [reflexivity|]. intros; apply H3; lia.
    Qed.
  End Loop.

  (** ** The unthresholded trajectory and [Gtstar] *)
  Definition Gbound_at (g : @game NN) (m : method) (draw : @oracle NN) (p : @params NN)
             (t : nat) : option T :=
    Gregs_bound (snd (fst (@solve_single NN g m draw p t Gnever))).

  (** the first iteration in [1..N] after which the test fires on the unthresholded
      trajectory, or [N] *)
  Definition Gtstar (g : @game NN) (m : method) (draw : @oracle NN) (p : @params NN)
             (stop : T -> bool) (N : nat) : nat :=
    Gfirst_fire (fun t => Gfires stop (Gbound_at g m draw p t)) N 0.

  Section Single.
    Context (g : @game NN) (m : method) (draw : @oracle NN) (p : @params NN).

    Lemma Gsolve_single_loop budget (stop : T -> bool) :
      @solve_single NN g m draw p budget stop =
      let '(st, regs, ran) := @solve_loop NN g m draw p stop budget 1%N (init_state g) None 0%N in
      (final_strats st, regs, ran).
    Proof. reflexivity. Qed.

    Lemma Gbound_at_from t : Gbound_at g m draw p t = Gbound_from g m draw p 1%N (init_state g) t.
    Proof.
      unfold Gbound_at, Gbound_from. rewrite Gsolve_single_loop.
      destruct (solve_loop _ _ _ _ _ _ _ _ _ _) as [[st regs] ran]. reflexivity.
    Qed.

    Lemma Gbound_at_0 : Gbound_at g m draw p 0 = None.
    Proof. reflexivity. Qed.

    Lemma Gtstar_spec (stop : T -> bool) N :
      let k := Gtstar g m draw p stop N in
      (k <= N)%nat /\ ((1 <= N)%nat -> (1 <= k)%nat) /\
      (forall j, (1 <= j < k)%nat -> Gfires stop (Gbound_at g m draw p j) = false) /\
      ((k < N)%nat -> Gfires stop (Gbound_at g m draw p k) = true).
    Proof.
      cbv zeta. unfold Gtstar.
      destruct (Gfirst_fire_spec (fun t => Gfires stop (Gbound_at g m draw p t)) N 0) as (H1 & H2 & H3 & H4).
      split; [lia|]. split; [intros HN; specialize (H2 HN); lia|]. split.
      - intros j Hj; apply H3; lia.
      - intros Hk; apply H4; lia.
    Qed.

    Lemma Gtstar_least (stop : T -> bool) N j :
      (1 <= j <= N)%nat -> Gfires stop (Gbound_at g m draw p j) = true ->
      (Gtstar g m draw p stop N <= j)%nat /\
      Gfires stop (Gbound_at g m draw p (Gtstar g m draw p stop N)) = true.
    Proof.
      intros Hj Hf. unfold Gtstar.
      apply (Gfirst_fire_least (fun t => Gfires stop (Gbound_at g m draw p t)) N 0 j); [lia|exact Hf].
    Qed.

    Lemma Gtstar_none (stop : T -> bool) N :
      (forall j, (1 <= j <= N)%nat -> Gfires stop (Gbound_at g m draw p j) = false) ->
      Gtstar g m draw p stop N = N.
    Proof.
      intros H. unfold Gtstar. rewrite Gfirst_fire_none; [lia|]. intros j Hj; apply H; lia.
    Qed.

    (** [Gtstar] only looks at the values of [stop] *)
    Lemma Gtstar_ext (stop stop' : T -> bool) N :
      (forall b, stop b = stop' b) -> Gtstar g m draw p stop N = Gtstar g m draw p stop' N.
    Proof.
      intros Hs. unfold Gtstar. apply Gfirst_fire_ext. intros k _.
      destruct (Gbound_at g m draw p k) as [b|]; [apply Hs|reflexivity].
    Qed.

    (** C09.1: a thresholded solve is the unthresholded solve with budget [Gtstar] *)
    Lemma Gearly_stop_exact (stop : T -> bool) N :
      @solve_single NN g m draw p N stop =
      @solve_single NN g m draw p (Gtstar g m draw p stop N) Gnever.
    Proof.
      rewrite !Gsolve_single_loop. rewrite Gloop_stop_never. unfold Gtstar.
      rewrite (Gfirst_fire_ext _ (fun t => Gfires stop (Gbound_at g m draw p t))); [reflexivity|].
      intros k _. now rewrite Gbound_at_from.
    Qed.

    Lemma Gsolve_single_never_ran k :
      snd (@solve_single NN g m draw p k Gnever) = N.of_nat k.
    Proof.
      rewrite Gsolve_single_loop.
      pose proof (Gloop_never_ran g m draw p k 1%N (init_state g) None 0%N) as H.
      destruct (solve_loop _ _ _ _ _ _ _ _ _ _) as [[st regs] ran]. cbn [snd] in *.
      rewrite H. destruct k; lia.
    Qed.

    Lemma Gearly_stop_ran (stop : T -> bool) N :
      snd (@solve_single NN g m draw p N stop) = N.of_nat (Gtstar g m draw p stop N).
    Proof. rewrite Gearly_stop_exact. apply Gsolve_single_never_ran. Qed.

    Lemma Giterations_run (stop : T -> bool) N :
      snd (@solve_single NN g m draw p N stop) = N.of_nat (Gtstar g m draw p stop N) /\
      snd (@solve_single NN g m draw p (Gtstar g m draw p stop N) Gnever) =
      N.of_nat (Gtstar g m draw p stop N).
    Proof. split; [apply Gearly_stop_ran|apply Gsolve_single_never_ran]. Qed.

    (** C09.2 *)
    Lemma Gbudget_never_exceeded (stop : T -> bool) N strats regs ran :
      @solve_single NN g m draw p N stop = (strats, regs, ran) ->
      (ran <= N.of_nat N)%N /\
      ((1 <= N)%nat -> (1 <= ran)%N /\ exists b1 b2, regs = Some (b1, b2)) /\
      ((ran < N.of_nat N)%N ->
       exists b1 b2, regs = Some (b1, b2) /\ stop (fmax NN b1 b2) = true).
    Proof.
      rewrite Gsolve_single_loop.
      destruct (solve_loop _ _ _ _ _ _ _ _ _ _) as [[st regs'] ran'] eqn:E.
      intros H; injection H as <- <- <-.
      apply Gloop_budget in E.
      destruct E as [(-> & _ & -> & ->)|(H1 & H2 & b1 & b2 & -> & H3)].
      - split; [lia|]. split; intros; lia.
      - split; [lia|]. split.
        + intros _. split; [lia|]. exists b1, b2; reflexivity.
        + intros Hlt. exists b1, b2. split; [reflexivity|]. apply H3; lia.
    Qed.

    (** [stop] fired on the returned bound whenever fewer iterations ran than the budget;
        for the threshold test [stop_at r] this reads [ltb NN (fmax NN b1 b2) r = true] *)
    Lemma Gbelow_threshold_when_short (stop : T -> bool) N strats regs ran :
      @solve_single NN g m draw p N stop = (strats, regs, ran) ->
      (ran < N.of_nat N)%N ->
      exists b1 b2, regs = Some (b1, b2) /\ stop (fmax NN b1 b2) = true.
    Proof.
      intros H Hlt.
      destruct (Gbudget_never_exceeded _ N strats regs ran H) as (_ & _ & H3). exact (H3 Hlt).
    Qed.

    Lemma Gbelow_threshold_when_short_at (r : T) N strats regs ran :
      @solve_single NN g m draw p N (@stop_at NN r) = (strats, regs, ran) ->
      (ran < N.of_nat N)%N ->
      exists b1 b2, regs = Some (b1, b2) /\ ltb NN (fmax NN b1 b2) r = true.
    Proof. exact (Gbelow_threshold_when_short (@stop_at NN r) N strats regs ran). Qed.

    (** a test that is false on every value never shortens a run (equal results:
        strategies, bounds and iteration count) and the whole budget is run *)
    Lemma Gnever_stops (stop : T -> bool) N :
      (forall b, stop b = false) ->
      @solve_single NN g m draw p N stop = @solve_single NN g m draw p N Gnever.
    Proof.
      intros Hs. rewrite !Gsolve_single_loop.
      rewrite (Gloop_ext g m draw p stop Gnever); [reflexivity|]. intros b; apply Hs.
    Qed.

    Lemma Gnever_stops_ran (stop : T -> bool) N :
      (forall b, stop b = false) ->
      snd (@solve_single NN g m draw p N stop) = N.of_nat N.
    Proof. intros Hs. rewrite Gnever_stops by exact Hs. apply Gsolve_single_never_ran. Qed.

    (** more precisely: it is enough that the test is false on the bounds of the
        unthresholded trajectory up to the budget *)
    Lemma Gnever_fires_never_stops (stop : T -> bool) N :
      (forall j, (1 <= j <= N)%nat -> Gfires stop (Gbound_at g m draw p j) = false) ->
      @solve_single NN g m draw p N stop = @solve_single NN g m draw p N Gnever.
    Proof. intros H. rewrite Gearly_stop_exact, Gtstar_none by exact H. reflexivity. Qed.

    (** two tests with the same values give the same run *)
    Lemma Gsolve_single_ext (stop stop' : T -> bool) N :
      (forall b, stop b = stop' b) ->
      @solve_single NN g m draw p N stop = @solve_single NN g m draw p N stop'.
    Proof.
      intros Hs. rewrite !Gsolve_single_loop.
      rewrite (Gloop_ext g m draw p stop stop' _ _ _ _ _ Hs). reflexivity.
    Qed.
  End Single.
End Generic.

(** * The executed binary64 instance [FNum]

    The threshold test of the code, [max(b1,b2) < max_reg], is
    [stop_at r = fun b => PrimFloat.ltb b r] with [fmax FNum = f_max] (f64::max).
    Nothing about the float arithmetic of the iteration is used: the statements
    below are the generic ones read at [FNum], plus the IEEE facts about [<] and
    NaN ([FloatAxioms.ltb_spec], [eqb_spec]).  "Bounds are non-negative" is NOT
    available here without analysing the arithmetic, so nothing is claimed about
    zero or negative thresholds. *)
From Coq Require Import Floats ZArith.
From Cfr.theories Require Import FInst.

Section FloatFacts.
  Open Scope float_scope.

  Lemma F_Prim2SF_nan : Prim2SF nan = S754_nan.
  Proof. reflexivity. Qed.

  Lemma F_SFltb_nan_r x : SFltb x S754_nan = false.
  Proof. destruct x as [s| s| |s mm e]; reflexivity. Qed.

  Lemma F_SFltb_nan_l x : SFltb S754_nan x = false.
  Proof. reflexivity. Qed.

  (** every comparison [b < NaN] is false *)
  Lemma F_ltb_nan_r (b : float) : (b <? nan) = false.
  Proof. rewrite ltb_spec, F_Prim2SF_nan. apply F_SFltb_nan_r. Qed.

  Lemma F_ltb_nan_l (r : float) : (nan <? r) = false.
  Proof. rewrite ltb_spec, F_Prim2SF_nan. apply F_SFltb_nan_l. Qed.

  Lemma F_SFeqb_refl x : x <> S754_nan -> SFeqb x x = true.
  Proof.
    intros Hx. destruct x as [s| s| |s mm e]; [reflexivity|destruct s; reflexivity|congruence|].
    unfold SFeqb, SFcompare. rewrite Z.compare_refl.
    destruct s; rewrite Pos.compare_cont_refl; reflexivity.
  Qed.

  (** the model's [is_nan] ([x != x]) recognises exactly the (unique) NaN *)
  Lemma F_is_nan_spec (r : float) : f_is_nan r = true <-> r = nan.
  Proof.
    split.
    - intros H. apply Prim2SF_inj. rewrite F_Prim2SF_nan.
      unfold f_is_nan in H. rewrite eqb_spec in H.
      destruct (Prim2SF r) as [s| s| |s mm e] eqn:E; [| |reflexivity|];
        rewrite F_SFeqb_refl in H by discriminate; discriminate.
    - intros ->. reflexivity.
  Qed.

  Lemma F_ltb_is_nan_r (b r : float) : f_is_nan r = true -> (b <? r) = false.
  Proof. intros H. apply F_is_nan_spec in H. subst r. apply F_ltb_nan_r. Qed.

  Lemma F_ltb_is_nan_l (b r : float) : f_is_nan b = true -> (b <? r) = false.
  Proof. intros H. apply F_is_nan_spec in H. subst b. apply F_ltb_nan_l. Qed.

  (** [b < r] true implies neither side is NaN *)
  Lemma F_ltb_true_not_nan (b r : float) :
    (b <? r) = true -> f_is_nan b = false /\ f_is_nan r = false.
  Proof.
    intros H. split.
    - destruct (f_is_nan b) eqn:E; [|reflexivity]. rewrite F_ltb_is_nan_l in H by exact E. discriminate.
    - destruct (f_is_nan r) eqn:E; [|reflexivity]. rewrite F_ltb_is_nan_r in H by exact E. discriminate.
  Qed.
End FloatFacts.

Section FloatLoop.
  Context (g : @game FNum) (m : method) (draw : @oracle FNum) (p : @params FNum).

  (** the threshold test of the code at binary64 *)
  Definition Fstop (r : float) : float -> bool := fun b => PrimFloat.ltb b r.

  Lemma Fstop_is_stop_at (r : float) : Fstop r = @stop_at FNum r.
  Proof. reflexivity. Qed.

  Lemma F_fmax_is_f_max : fmax FNum = f_max.
  Proof. reflexivity. Qed.

  (** C09.1 at binary64: the run with threshold [r] and budget [N] returns exactly
      (strategies, bounds, iteration count -- bit for bit) what the run without a
      threshold returns with budget [t*] *)
  Lemma F_early_stop_exact (r : float) N :
    @solve_single FNum g m draw p N (fun b => PrimFloat.ltb b r) =
    @solve_single FNum g m draw p (Gtstar g m draw p (fun b => PrimFloat.ltb b r) N) Gnever.
  Proof. exact (Gearly_stop_exact g m draw p (Fstop r) N). Qed.

  Lemma F_iterations_run (r : float) N :
    snd (@solve_single FNum g m draw p N (fun b => PrimFloat.ltb b r)) =
    N.of_nat (Gtstar g m draw p (fun b => PrimFloat.ltb b r) N).
  Proof. exact (Gearly_stop_ran g m draw p (Fstop r) N). Qed.

  Lemma F_tstar_spec (r : float) N :
    let k := Gtstar g m draw p (fun b => PrimFloat.ltb b r) N in
    (k <= N)%nat /\ ((1 <= N)%nat -> (1 <= k)%nat) /\
    (forall j, (1 <= j < k)%nat ->
               @Gfires FNum (fun b => PrimFloat.ltb b r) (Gbound_at g m draw p j) = false) /\
    ((k < N)%nat -> @Gfires FNum (fun b => PrimFloat.ltb b r) (Gbound_at g m draw p k) = true).
  Proof. exact (Gtstar_spec g m draw p (Fstop r) N). Qed.

  (** C09.2 at binary64 *)
  Lemma F_budget_never_exceeded (r : float) N strats regs ran :
    @solve_single FNum g m draw p N (fun b => PrimFloat.ltb b r) = (strats, regs, ran) ->
    (ran <= N.of_nat N)%N /\
    ((1 <= N)%nat -> (1 <= ran)%N /\ exists b1 b2, regs = Some (b1, b2)) /\
    ((ran < N.of_nat N)%N ->
     exists b1 b2, regs = Some (b1, b2) /\ PrimFloat.ltb (f_max b1 b2) r = true).
  Proof. exact (Gbudget_never_exceeded g m draw p (Fstop r) N strats regs ran). Qed.

  (** a run that stops short returns a total bound strictly below the threshold in
      the IEEE sense; in particular neither the bound nor the threshold is NaN *)
  Lemma F_below_threshold_when_short (r : float) N strats regs ran :
    @solve_single FNum g m draw p N (fun b => PrimFloat.ltb b r) = (strats, regs, ran) ->
    (ran < N.of_nat N)%N ->
    exists b1 b2, regs = Some (b1, b2) /\ PrimFloat.ltb (f_max b1 b2) r = true /\
                  f_is_nan (f_max b1 b2) = false /\ f_is_nan r = false.
  Proof.
    intros H Hlt.
    destruct (Gbelow_threshold_when_short g m draw p (Fstop r) N strats regs ran H Hlt)
      as (b1 & b2 & -> & Hs).
    exists b1, b2. split; [reflexivity|]. split; [exact Hs|].
    apply F_ltb_true_not_nan. exact Hs.
  Qed.

  (** a NaN threshold never shortens a run at binary64: same strategies, same
      bounds, same iteration count as the run without a threshold, and the whole
      budget is run *)
  Lemma F_nan_threshold_never_stops N :
    @solve_single FNum g m draw p N (fun b => PrimFloat.ltb b nan) =
    @solve_single FNum g m draw p N Gnever.
  Proof. apply Gnever_stops. intros b. apply F_ltb_nan_r. Qed.

  Lemma F_is_nan_threshold_never_stops (r : float) N :
    f_is_nan r = true ->
    @solve_single FNum g m draw p N (fun b => PrimFloat.ltb b r) =
    @solve_single FNum g m draw p N Gnever /\
    snd (@solve_single FNum g m draw p N (fun b => PrimFloat.ltb b r)) = N.of_nat N /\
    Gtstar g m draw p (fun b => PrimFloat.ltb b r) N = N.
  Proof.
    intros Hr.
    assert (Hs : forall b : T FNum, Fstop r b = false) by (intros b; apply F_ltb_is_nan_r; exact Hr).
    split; [exact (Gnever_stops g m draw p (Fstop r) N Hs)|].
    split; [exact (Gnever_stops_ran g m draw p (Fstop r) N Hs)|].
    apply Gtstar_none. intros j _. destruct (Gbound_at g m draw p j) as [b|]; [apply Hs|reflexivity].
  Qed.

  (** the same through the model's own spelling [stop_at] and [is_nan FNum] *)
  Lemma F_stop_at_nan_never_stops (r : T FNum) N :
    Num.is_nan FNum r = true ->
    @solve_single FNum g m draw p N (@stop_at FNum r) = @solve_single FNum g m draw p N Gnever.
  Proof. intros Hr. exact (proj1 (F_is_nan_threshold_never_stops r N Hr)). Qed.

  (** an iteration whose total bound is NaN never triggers the test, whatever [r] *)
  Lemma F_nan_bound_does_not_fire (r b : float) :
    f_is_nan b = true -> @Gfires FNum (fun x => PrimFloat.ltb x r) (Some b) = false.
  Proof. intros Hb. cbn [Gfires]. apply F_ltb_is_nan_l. exact Hb. Qed.
End FloatLoop.

(** * Consistency with [LoopProofs.v]: at [NN := RNum] the generic vocabulary IS
    the one of the real-number development, so the generic theorems specialise to
    the C09 theorems stated there. *)
From Cfr.theories Require RInst LoopProofs.

Lemma Gfirst_fire_is_first_fire f rem t : Gfirst_fire f rem t = LoopProofs.first_fire f rem t.
Proof.
  revert t; induction rem as [|r IH]; intros t; cbn [Gfirst_fire LoopProofs.first_fire]; [reflexivity|].
  rewrite IH. reflexivity.
Qed.

Lemma Gnever_RNum : @Gnever RInst.RNum = LoopProofs.never.
Proof. reflexivity. Qed.

Lemma Gfires_RNum : @Gfires RInst.RNum = LoopProofs.fires.
Proof. reflexivity. Qed.

Lemma Gbound_at_RNum g m draw p t :
  @Gbound_at RInst.RNum g m draw p t = LoopProofs.bound_at g m draw p t.
Proof. reflexivity. Qed.

Lemma Gtstar_RNum g m draw p stop N :
  @Gtstar RInst.RNum g m draw p stop N = LoopProofs.tstar g m draw p stop N.
Proof. unfold Gtstar, LoopProofs.tstar. apply Gfirst_fire_is_first_fire. Qed.
