(** * ScaleFloatBR: the best-response side of payoff scaling at binary64.

    [ScaleFloat] shows that [expected] commutes bit for bit with the scaling of the payoffs
    by a power of two.  This file does the same for [search] (next-infoset search),
    [resolve_one] / [resolve_from], [br_value] and finally [info] (utility and both
    regrets: [regret::regret]), under "in range" predicates that follow the evaluation of
    the unscaled game. *)
From Coq Require Import List ZArith Reals Floats Bool Lia Lra Arith Psatz.
From Flocq Require Import Core IEEE754.BinarySingleNaN IEEE754.PrimFloat.
From Cfr.theories Require Import Num FInst Tree GameWF Strat Eval
  TruncFloat DistFloat NormFloat EvalFloat ScaleFloat.
Import ListNotations.

Local Existing Instance Flocq.IEEE754.PrimFloat.Hprec.
Local Existing Instance Flocq.IEEE754.PrimFloat.Hmax.

Local Open Scope R_scope.
Local Notation float := PrimFloat.float.
Local Notation node := (@node FNum).
Local Notation game := (@game FNum).
Local Notation bp := (bpow radix2).

Local Instance fexp_valid_br : Valid_exp (SpecFloat.fexp prec emax) :=
  fexp_correct prec emax Flocq.IEEE754.PrimFloat.Hprec.

Lemma rnd_abs_ge : forall x y, fmt x -> x <= Rabs y -> x <= Rabs (rnd y).
Proof.
  intros x y Hx H. unfold rnd. apply abs_round_ge_generic; auto with typeclass_instances.
Qed.

(** ** Terms: a real value that is zero or normal, before and after the scaling, and of
    magnitude at most [2^M] before and after *)
Definition Rg (e M : Z) (v : R) : Prop :=
  nz v /\ nz (v * bp e) /\ Rabs v <= bp M /\ Rabs (v * bp e) <= bp M.

(** [t'] is [t] scaled, both of magnitude at most [2^M] *)
Definition TermSc (e M : Z) (t t' : float) : Prop :=
  Sc e t t' /\ Rabs (FR t) <= bp M /\ Rabs (FR t') <= bp M.

Section Steps.
  Context (e M : Z) (HM : (-1074 <= M <= 971)%Z).

  Lemma bpM_lt : bp M < bp emax.
  Proof. apply bpow_lt. change emax with 1024%Z. lia. Qed.

  Lemma fmt_bpM : fmt (bp M).
  Proof. apply fmt_bp. lia. Qed.

  (** scaled factor on the left *)
  Lemma term_mul_l : forall x x' p, Sc e x x' -> Ffin p -> Rg e M (FR x * FR p) ->
    TermSc e M (x * p)%float (x' * p)%float.
  Proof.
    intros x x' p [Hx [Hx' [Rx Sx]]] Hp [N1 [N2 [B1 B2]]].
    assert (HbM := bpM_lt). assert (FM := fmt_bpM).
    assert (T1 : Rabs (rnd (FR x * FR p)) <= bp M) by (apply rnd_abs_le; assumption).
    assert (Hk : rnd (FR x' * FR p) = rnd (FR x * FR p) * bp e).
    { rewrite Rx. replace (FR x * bp e * FR p) with (FR x * FR p * bp e) by ring.
      apply rnd_scale; assumption. }
    assert (T2 : Rabs (rnd (FR x' * FR p)) <= bp M).
    { rewrite Hk, <- (rnd_scale _ e N1 N2). apply rnd_abs_le; assumption. }
    destruct (mul_ok_sign x p Hx Hp ltac:(lra)) as [G1 [G2 G3]].
    destruct (mul_ok_sign x' p Hx' Hp ltac:(lra)) as [G1' [G2' G3']].
    split; [|split].
    - split; [exact G1|]. split; [exact G1'|]. split.
      + rewrite G2', G2. exact Hk.
      + rewrite G3', G3, Sx. reflexivity.
    - rewrite G2. exact T1.
    - rewrite G2'. exact T2.
  Qed.

  (** accumulating a term *)
  Lemma Inv_add : forall j a a' t t', Inv e M j a a' -> TermSc e M t t' ->
    (0 <= j)%Z -> (j + 1 < 2 ^ 53)%Z -> Inv e M (j + 1) (a + t)%float (a' + t')%float.
  Proof.
    intros j a a' t t' [Hs [Ba Ba']] [Hst [Bt Bt']] Hj0 Hj.
    assert (FJ : fmt (IZR (j + 1) * bp M)) by (apply fmt_IZR_bp; lia).
    assert (BJ : IZR (j + 1) * bp M < bp emax) by (apply IZR_bp_lt_emax; lia).
    assert (EJ : IZR (j + 1) * bp M = IZR j * bp M + bp M) by (rewrite plus_IZR; ring).
    assert (S1 : Rabs (rnd (FR a + FR t)) <= IZR (j + 1) * bp M).
    { apply rnd_abs_le; [exact FJ|]. apply Rle_trans with (1 := Rabs_triang _ _). lra. }
    assert (S2 : Rabs (rnd (FR a' + FR t')) <= IZR (j + 1) * bp M).
    { apply rnd_abs_le; [exact FJ|]. apply Rle_trans with (1 := Rabs_triang _ _). lra. }
    assert (Hk : rnd (FR a' + FR t') = rnd (FR a + FR t) * bp e).
    { destruct Hs as [_ [_ [Ra _]]]. destruct Hst as [_ [_ [Rt _]]].
      rewrite Ra, Rt. apply rnd_add_scale; try apply fmt_FR.
      - rewrite <- Ra. apply fmt_FR.
      - rewrite <- Rt. apply fmt_FR. }
    assert (Hsum : Sc e (a + t)%float (a' + t')%float).
    { apply Sc_add; try assumption; [lra | rewrite <- Hk; lra]. }
    split; [exact Hsum|].
    destruct Hs as [Ha [Ha' _]]. destruct Hst as [Ht [Ht' _]].
    destruct (add_ok a t Ha Ht ltac:(lra)) as [_ E1].
    destruct (add_ok a' t' Ha' Ht' ltac:(lra)) as [_ E2].
    rewrite E1, E2. split; assumption.
  Qed.

  Lemma Inv_sub : forall j a a' t t', Inv e M j a a' -> TermSc e M t t' ->
    (0 <= j)%Z -> (j + 1 < 2 ^ 53)%Z -> Inv e M (j + 1) (a - t)%float (a' - t')%float.
  Proof.
    intros j a a' t t' [Hs [Ba Ba']] [Hst [Bt Bt']] Hj0 Hj.
    assert (FJ : fmt (IZR (j + 1) * bp M)) by (apply fmt_IZR_bp; lia).
    assert (BJ : IZR (j + 1) * bp M < bp emax) by (apply IZR_bp_lt_emax; lia).
    assert (EJ : IZR (j + 1) * bp M = IZR j * bp M + bp M) by (rewrite plus_IZR; ring).
    assert (Tr : forall u v, Rabs (u - v) <= Rabs u + Rabs v).
    { intros u v. unfold Rminus. apply Rle_trans with (1 := Rabs_triang _ _).
      rewrite Rabs_Ropp. lra. }
    assert (S1 : Rabs (rnd (FR a - FR t)) <= IZR (j + 1) * bp M).
    { apply rnd_abs_le; [exact FJ|]. apply Rle_trans with (1 := Tr _ _). lra. }
    assert (S2 : Rabs (rnd (FR a' - FR t')) <= IZR (j + 1) * bp M).
    { apply rnd_abs_le; [exact FJ|]. apply Rle_trans with (1 := Tr _ _). lra. }
    assert (Hsum : Sc e (a - t)%float (a' - t')%float).
    { assert (Hs0 := Hs). assert (Hst0 := Hst).
      destruct Hs0 as [Ha [Ha' _]]. destruct Hst0 as [Ht [Ht' _]].
      assert (Hsum0 : Rabs (rnd (FR a - FR t)) < bp emax) by lra.
      assert (X := Sc_sub e a a' t t' Hs Hst Hsum0).
      assert (Hk : Rabs (rnd (FR a - FR t) * bp e) < bp emax -> Sc e (a - t)%float (a' - t')%float)
        by exact X.
      (* the scaled difference is bounded because it is the rounded scaled difference *)
      destruct Hs as [_ [_ [Ra _]]]. destruct Hst as [_ [_ [Rt _]]].
      apply Hk.
      replace (rnd (FR a - FR t) * bp e) with (rnd (FR a' - FR t')); [lra|].
      rewrite Ra, Rt.
      replace (FR a * bp e - FR t * bp e) with (FR a * bp e + (- FR t) * bp e) by ring.
      unfold Rminus. apply rnd_add_scale.
      - apply fmt_FR.
      - apply fmt_opp, fmt_FR.
      - rewrite <- Ra. apply fmt_FR.
      - replace (- FR t * bp e) with (- (FR t * bp e)) by ring. rewrite <- Rt.
        apply fmt_opp, fmt_FR. }
    split; [exact Hsum|].
    destruct Hs as [Ha [Ha' _]]. destruct Hst as [Ht [Ht' _]].
    destruct (sub_ok a t Ha Ht ltac:(lra)) as [_ E1].
    destruct (sub_ok a' t' Ha' Ht' ltac:(lra)) as [_ E2].
    rewrite E1, E2. split; assumption.
  Qed.

  Lemma Inv_zero : Inv e M 0 0%float 0%float.
  Proof. split; [apply Sc_zero|]. rewrite FR_zero, Rabs_R0. cbn. lra. Qed.
End Steps.

(** ** Loops over the children, polymorphic in the accumulator *)
Section PLoop.
  Context {A : Type} (f : node -> float -> A -> A) (tst : float -> bool) (reach : float).
  Fixpoint pgo (ps : list float) (ks : list node) (acc : A) {struct ks} : A :=
    match ps, ks with
    | p :: ps', k :: ks' =>
        if tst p then f k (p * reach)%float (pgo ps' ks' acc) else pgo ps' ks' acc
    | _, _ => acc
    end.
  Fixpoint ogo (ks : list node) (acc : A) {struct ks} : A :=
    match ks with
    | [] => acc
    | k :: r => f k reach (ogo r acc)
    end.
End PLoop.

(** number of terms a traversal can add to its accumulator *)
Fixpoint tsz (n : node) : nat :=
  match n with
  | Term _ => 1%nat
  | Chance _ kids => list_sum (map tsz kids)
  | Player _ _ kids => S (list_sum (map tsz kids))
  end.

(** generic loop lemma: two traversals [f] (unscaled tree) and [f'] (scaled tree) *)
Section GenLoop.
  Context (c : float) (e M : Z).
  Context (f f' : node -> float -> float -> float) (P : node -> float -> Prop).

  Definition GSpec (k : node) : Prop := forall r a a' j,
    P k r -> Inv e M j a a' -> (0 <= j)%Z -> (j + Z.of_nat (tsz k) < 2 ^ 53)%Z ->
    Inv e M (j + Z.of_nat (tsz k)) (f k r a) (f' (scale_node c k) r a').

  Lemma pgo_scale : forall (tst : float -> bool) ks, Forall GSpec ks ->
    forall ps r a a' j,
    rgo P tst r ps ks -> Inv e M j a a' -> (0 <= j)%Z ->
    (j + Z.of_nat (list_sum (map tsz ks)) < 2 ^ 53)%Z ->
    Inv e M (j + Z.of_nat (list_sum (map tsz ks)))
        (pgo f tst r ps ks a) (pgo f' tst r ps (map (scale_node c) ks) a').
  Proof.
    intros tst ks Hks. induction Hks as [|k ks Hk Hks IH]; intros ps r a a' j Hr Hi Hj0 Hj.
    - destruct ps; cbn [pgo map list_sum fold_right]; rewrite Z.add_0_r; exact Hi.
    - destruct ps as [|p ps].
      + cbn [pgo map]. apply (Inv_mono e M j); [lia | exact Hi].
      + change (list_sum (map tsz (k :: ks)))
          with (tsz k + list_sum (map tsz ks))%nat in Hj |- *.
        rewrite Nat2Z.inj_add in Hj |- *.
        cbn [rgo] in Hr. destruct Hr as [Hr1 Hr2].
        assert (H1 := IH ps r a a' j Hr2 Hi Hj0 ltac:(lia)).
        cbn [pgo map]. destruct (tst p).
        * assert (H2 := Hk (p * r)%float _ _ _ Hr1 H1 ltac:(lia) ltac:(lia)).
          eapply Inv_mono; [|exact H2]. lia.
        * eapply Inv_mono; [|exact H1]. lia.
  Qed.
End GenLoop.

(** ** [search] *)
Section Search.
  Context (c : float) (e M : Z) (chance so : list (list float)) (me : bool).
  Context (Hc : IsPow2 c e) (HM : (-1074 <= M <= 971)%Z).

  Lemma search_Term : forall mu x reach acc,
    @search FNum chance so me mu (Term x) reach acc =
    if me then (acc + x * reach)%float else (acc - x * reach)%float.
  Proof. reflexivity. Qed.

  Lemma search_Chance : forall mu ci kids reach acc,
    @search FNum chance so me mu (Chance ci kids) reach acc =
    pgo (@search FNum chance so me mu) (fun _ => true) reach (@row FNum chance ci) kids acc.
  Proof. reflexivity. Qed.

  Lemma search_Player : forall mu pl i kids reach acc,
    @search FNum chance so me mu (Player pl i kids) reach acc =
    if Bool.eqb pl me then (acc + mu i * reach)%float
    else pgo (@search FNum chance so me mu) (fun p => PrimFloat.ltb 0 p) reach
             (@row FNum so i) kids acc.
  Proof. reflexivity. Qed.

  (** the "in range" predicate following [search] *)
  Fixpoint SearchOK (mu : nat -> float) (n : node) (reach : float) {struct n} : Prop :=
    match n with
    | Term x =>
        Ffin reach /\ Ffin x /\ nz (FR x * bp e) /\ Rabs (FR x * bp e) < bp emax /\
        Rg e M (FR x * FR reach)
    | Chance ci kids =>
        (fix go (ps : list float) (ks : list node) {struct ks} : Prop :=
           match ps, ks with
           | p :: ps', k :: ks' => SearchOK mu k (p * reach)%float /\ go ps' ks'
           | _, _ => True
           end) (@row FNum chance ci) kids
    | Player pl i kids =>
        if Bool.eqb pl me then Ffin reach /\ Rg e M (FR (mu i) * FR reach)
        else
        (fix go (ps : list float) (ks : list node) {struct ks} : Prop :=
           match ps, ks with
           | p :: ps', k :: ks' =>
               (if PrimFloat.ltb 0 p then SearchOK mu k (p * reach)%float else True) /\ go ps' ks'
           | _, _ => True
           end) (@row FNum so i) kids
    end.

  Lemma SearchOK_Chance : forall mu ci kids r,
    SearchOK mu (Chance ci kids) r = rgo (SearchOK mu) (fun _ => true) r (@row FNum chance ci) kids.
  Proof. reflexivity. Qed.

  Lemma SearchOK_Player : forall mu pl i kids r,
    SearchOK mu (Player pl i kids) r =
    if Bool.eqb pl me then Ffin r /\ Rg e M (FR (mu i) * FR r)
    else rgo (SearchOK mu) (fun p => PrimFloat.ltb 0 p) r (@row FNum so i) kids.
  Proof. reflexivity. Qed.

  Theorem search_scale : forall (mu mu' : nat -> float),
    (forall i, Sc e (mu i) (mu' i)) ->
    forall n, GSpec c e M (@search FNum chance so me mu) (@search FNum chance so me mu')
                    (SearchOK mu) n.
  Proof.
    intros mu mu' Hmu.
    induction n as [x|ci kids IH|pl i kids IH] using node_ind'; intros r a a' j Hr Hi Hj0 Hj.
    - rewrite scale_node_Term, !search_Term. cbn [tsz] in Hj |- *.
      destruct Hr as [Hrf [Hx [Nx [Bx Hg]]]].
      assert (Hsx : Sc e x (x * c)%float).
      { apply Sc_mulc; try assumption. apply fmt_scale; [apply fmt_FR | exact Nx]. }
      assert (Ht := term_mul_l e M HM x (x * c)%float r Hsx Hrf Hg).
      destruct me; [apply Inv_add | apply Inv_sub]; assumption.
    - rewrite SearchOK_Chance in Hr.
      change (scale_node c (Chance ci kids)) with (@Chance FNum ci (map (scale_node c) kids)).
      rewrite !search_Chance. cbn [tsz] in Hj |- *.
      apply (pgo_scale c e M _ _ (SearchOK mu)); assumption.
    - rewrite SearchOK_Player in Hr.
      change (scale_node c (Player pl i kids)) with (@Player FNum pl i (map (scale_node c) kids)).
      rewrite !search_Player. cbn [tsz] in Hj |- *.
      destruct (Bool.eqb pl me).
      + destruct Hr as [Hrf Hg].
        assert (Ht := term_mul_l e M HM (mu i) (mu' i) r (Hmu i) Hrf Hg).
        assert (H1 := Inv_add e M HM j a a' _ _ Hi Ht Hj0 ltac:(lia)).
        eapply Inv_mono; [|exact H1]. lia.
      + assert (H1 := pgo_scale c e M _ _ (SearchOK mu) _ kids IH _ r a a' j Hr Hi Hj0 ltac:(lia)).
        eapply Inv_mono; [|exact H1]. lia.
  Qed.
End Search.

(** ** [collect]: the own decision nodes of the scaled tree are those of the tree, with
    scaled subtrees and the same reach *)
Definition centry := (nat * (list node * float))%type.

Definition sk (c : float) (en : centry) : centry :=
  (fst en, (map (scale_node c) (fst (snd en)), snd (snd en))).

Section Collect.
  Context (c : float) (chance so : list (list float)) (me : bool).
  Local Notation col := (@collect FNum chance so me).

  Lemma collect_Term : forall x reach acc, col (Term x) reach acc = acc.
  Proof. reflexivity. Qed.

  Lemma collect_Chance : forall ci kids reach acc,
    col (Chance ci kids) reach acc =
    pgo col (fun _ => true) reach (@row FNum chance ci) kids acc.
  Proof. reflexivity. Qed.

  Lemma collect_Player : forall pl i kids reach acc,
    col (Player pl i kids) reach acc =
    if Bool.eqb pl me then ogo col reach kids (acc ++ [(i, (kids, reach))])
    else pgo col (fun p => PrimFloat.ltb 0 p) reach (@row FNum so i) kids acc.
  Proof. reflexivity. Qed.

  Definition CSpec (k : node) : Prop := forall reach acc,
    col (scale_node c k) reach (map (sk c) acc) = map (sk c) (col k reach acc).

  Lemma pgo_collect : forall (tst : float -> bool) ks, Forall CSpec ks ->
    forall ps reach acc,
    pgo col tst reach ps (map (scale_node c) ks) (map (sk c) acc) =
    map (sk c) (pgo col tst reach ps ks acc).
  Proof.
    intros tst ks Hks. induction Hks as [|k ks Hk Hks IH]; intros ps reach acc.
    - destruct ps; reflexivity.
    - destruct ps as [|p ps]; [reflexivity|].
      cbn [pgo map]. destruct (tst p).
      + rewrite IH. apply Hk.
      + apply IH.
  Qed.

  Lemma ogo_collect : forall ks, Forall CSpec ks ->
    forall reach acc,
    ogo col reach (map (scale_node c) ks) (map (sk c) acc) = map (sk c) (ogo col reach ks acc).
  Proof.
    intros ks Hks. induction Hks as [|k ks Hk Hks IH]; intros reach acc.
    - reflexivity.
    - cbn [ogo map]. rewrite IH. apply Hk.
  Qed.

  Theorem collect_scale : forall n, CSpec n.
  Proof.
    induction n as [x|ci kids IH|pl i kids IH] using node_ind'; intros reach acc.
    - reflexivity.
    - change (scale_node c (Chance ci kids)) with (@Chance FNum ci (map (scale_node c) kids)).
      rewrite !collect_Chance. apply pgo_collect. exact IH.
    - change (scale_node c (Player pl i kids)) with (@Player FNum pl i (map (scale_node c) kids)).
      rewrite !collect_Player. destruct (Bool.eqb pl me).
      + transitivity (ogo col reach (map (scale_node c) kids)
                        (map (sk c) (acc ++ [(i, (kids, reach))]))).
        * apply f_equal. exact (eq_sym (map_app (sk c) acc [(i, (kids, reach))])).
        * apply ogo_collect. exact IH.
      + apply pgo_collect. exact IH.
  Qed.
End Collect.

(** ** [resolve_one], [resolve_from] *)

Lemma Forall2_nth_Sc : forall e l l', Forall2 (Sc e) l l' ->
  forall j, Sc e (nth j l 0%float) (nth j l' 0%float).
Proof.
  intros e l l' H. induction H as [|x x' l l' Hx Hl IH]; intros j.
  - destruct j; apply Sc_zero.
  - destruct j as [|j]; [exact Hx | apply IH].
Qed.

Lemma Inv_Sc : forall e M j a a', Inv e M j a a' -> Sc e a a'.
Proof. intros e M j a a' [H _]. exact H. Qed.

Lemma Forall2_Inv_Sc : forall e M j l l', Forall2 (Inv e M j) l l' -> Forall2 (Sc e) l l'.
Proof.
  intros e M j l l' H. induction H; constructor; [eapply Inv_Sc; eassumption | assumption].
Qed.

(** [Iterator::reduce(f64::max)] *)
Lemma fold_fmax_Sc : forall e l l', Forall2 (Sc e) l l' -> forall a a', Sc e a a' ->
  Sc e (fold_left f_max l a) (fold_left f_max l' a').
Proof.
  intros e l l' H. induction H as [|x x' l l' Hx Hl IH]; intros a a' Ha; [exact Ha|].
  cbn [fold_left]. apply IH. apply Sc_fmax; assumption.
Qed.

Lemma reduce_max_Sc : forall e l l', Forall2 (Sc e) l l' ->
  match @reduce_max FNum l, @reduce_max FNum l' with
  | Some m, Some m' => Sc e m m'
  | None, None => True
  | _, _ => False
  end.
Proof.
  intros e l l' H. destruct H as [|x x' l l' Hx Hl]; [exact I|].
  cbn [reduce_max]. apply (fold_fmax_Sc e l l' Hl x x' Hx).
Qed.

Section Resolve.
  Context (c : float) (e M : Z) (chance so : list (list float)) (me : bool).
  Context (Hc : IsPow2 c e) (HM : (-1074 <= M <= 971)%Z).
  Local Notation srch := (@search FNum chance so me).

  Definition paystep (mu : nat -> float) (pays : list float) (en : centry) : list float :=
    let '(_, (kids, p)) := en in
    map (fun pk => (fst pk + srch mu (snd pk) 1 0 * p)%float) (combine pays kids).

  Definition payoffs (mu : nat -> float) (mine : list centry) (arity : nat) : list float :=
    fold_left (paystep mu) mine (@repeatT FNum 0%float arity).

  Definition rtotal (mine : list centry) : float :=
    @sum FNum (map (fun en : centry => snd (snd en)) mine).

  Definition rmine (nodes : list centry) (i : nat) : list centry :=
    filter (fun en : centry => Nat.eqb (fst en) i) nodes.

  Lemma resolve_one_FNum : forall nodes arity mu i,
    @resolve_one FNum chance so me nodes arity mu i =
    match rmine nodes i with
    | [] => 0%float
    | _ :: _ =>
        match @reduce_max FNum (payoffs mu (rmine nodes i) arity) with
        | Some m => if PrimFloat.ltb 0 (rtotal (rmine nodes i))
                    then (m / rtotal (rmine nodes i))%float else 0%float
        | None => 0%float
        end
    end.
  Proof. reflexivity. Qed.

  Lemma rmine_sk : forall nodes i, rmine (map (sk c) nodes) i = map (sk c) (rmine nodes i).
  Proof.
    intros nodes i. unfold rmine. induction nodes as [|en nodes IH]; [reflexivity|].
    cbn [map filter]. change (fst (sk c en)) with (fst en).
    destruct (Nat.eqb (fst en) i); cbn [map]; rewrite IH; reflexivity.
  Qed.

  Lemma rtotal_sk : forall mine, rtotal (map (sk c) mine) = rtotal mine.
  Proof. intros mine. unfold rtotal. rewrite map_map. reflexivity. Qed.

  (** range conditions of one payoff update: the value of the subtree, then its product
      with the reach of the decision node *)
  Definition KidOK (mu : nat -> float) (p : float) (kid : node) : Prop :=
    SearchOK e M chance so me mu kid 1%float /\ (Z.of_nat (tsz kid) < 2 ^ 53)%Z /\
    Rg e M (FR (srch mu kid 1%float 0%float) * FR p).

  Definition StepOK (mu : nat -> float) (en : centry) : Prop :=
    Ffin (snd (snd en)) /\ Forall (KidOK mu (snd (snd en))) (fst (snd en)).

  Lemma kid_scale : forall mu mu' p kid, (forall i, Sc e (mu i) (mu' i)) ->
    Ffin p -> KidOK mu p kid ->
    TermSc e M (srch mu kid 1 0 * p)%float (srch mu' (scale_node c kid) 1 0 * p)%float.
  Proof.
    intros mu mu' p kid Hmu Hp [Hs [Hsz Hg]].
    assert (H := search_scale c e M chance so me Hc HM mu mu' Hmu kid 1%float 0%float 0%float 0%Z
                   Hs (Inv_zero e M) (Z.le_refl 0) ltac:(lia)).
    apply (term_mul_l e M HM _ _ p (Inv_Sc _ _ _ _ _ H) Hp Hg).
  Qed.

  Lemma paystep_scale : forall mu mu' en, (forall i, Sc e (mu i) (mu' i)) -> StepOK mu en ->
    forall j pays pays', (0 <= j)%Z -> (j + 1 < 2 ^ 53)%Z ->
    Forall2 (Inv e M j) pays pays' ->
    Forall2 (Inv e M (j + 1)) (paystep mu pays en) (paystep mu' pays' (sk c en)).
  Proof.
    intros mu mu' [i0 [kids p]] Hmu [Hp Hk] j pays pays' Hj0 Hj H.
    cbn [snd fst] in Hp, Hk. unfold paystep, sk. cbn [fst snd].
    revert kids Hk. induction H as [|x x' l l' Hx Hl IH]; intros kids Hk.
    - constructor.
    - destruct kids as [|kid kids]; [constructor|].
      inversion Hk as [|? ? Hk1 Hk2]; subst.
      cbn [map combine fst snd]. constructor.
      + apply (Inv_add e M HM); try assumption. apply kid_scale; assumption.
      + apply IH. exact Hk2.
  Qed.

  Lemma payfold_scale : forall mu mu' mine, (forall i, Sc e (mu i) (mu' i)) ->
    Forall (StepOK mu) mine ->
    forall j pays pays', (0 <= j)%Z -> (j + Z.of_nat (length mine) < 2 ^ 53)%Z ->
    Forall2 (Inv e M j) pays pays' ->
    Forall2 (Inv e M (j + Z.of_nat (length mine)))
            (fold_left (paystep mu) mine pays)
            (fold_left (paystep mu') (map (sk c) mine) pays').
  Proof.
    intros mu mu' mine Hmu Hm. induction Hm as [|en mine Hen Hm IH]; intros j pays pays' Hj0 Hj H.
    - cbn [fold_left map length]. rewrite Z.add_0_r. exact H.
    - change (length (en :: mine)) with (S (length mine)) in Hj |- *.
      rewrite Nat2Z.inj_succ in Hj |- *.
      cbn [fold_left map].
      replace (j + Z.succ (Z.of_nat (length mine)))%Z with (j + 1 + Z.of_nat (length mine))%Z by lia.
      apply IH; [lia | lia|].
      apply paystep_scale; try assumption. lia.
  Qed.

  Lemma repeat_zero_Inv : forall n, Forall2 (Inv e M 0) (@repeatT FNum 0%float n) (@repeatT FNum 0%float n).
  Proof. induction n as [|n IH]; cbn [repeatT]; constructor; [apply Inv_zero | exact IH]. Qed.

  Definition ResOK (nodes : list centry) (arity : nat) (mu : nat -> float) (i : nat) : Prop :=
    let mine := rmine nodes i in
    Forall (StepOK mu) mine /\ (Z.of_nat (length mine) < 2 ^ 53)%Z /\
    match @reduce_max FNum (payoffs mu mine arity) with
    | Some m => PrimFloat.ltb 0 (rtotal mine) = true ->
                Ffin (rtotal mine) /\ Rg e M (FR m / FR (rtotal mine))
    | None => True
    end.

  Theorem resolve_one_scale : forall nodes arity mu mu' i,
    (forall k, Sc e (mu k) (mu' k)) -> ResOK nodes arity mu i ->
    Sc e (@resolve_one FNum chance so me nodes arity mu i)
         (@resolve_one FNum chance so me (map (sk c) nodes) arity mu' i).
  Proof.
    intros nodes arity mu mu' i Hmu [Hst [Hlen Hdiv]].
    rewrite !resolve_one_FNum, rmine_sk, rtotal_sk.
    set (mine := rmine nodes i) in *.
    assert (Hp : Forall2 (Inv e M (0 + Z.of_nat (length mine)))
                   (payoffs mu mine arity) (payoffs mu' (map (sk c) mine) arity)).
    { unfold payoffs. apply payfold_scale; try assumption; try lia; apply repeat_zero_Inv. }
    assert (Hr := reduce_max_Sc e _ _ (Forall2_Inv_Sc _ _ _ _ _ Hp)).
    destruct mine as [|en0 mine0] eqn:Em; [apply Sc_zero|].
    cbn [map].
    change (sk c en0 :: map (sk c) mine0) with (map (sk c) (en0 :: mine0)).
    destruct (@reduce_max FNum (payoffs mu (en0 :: mine0) arity)) as [m|];
      destruct (@reduce_max FNum (payoffs mu' (map (sk c) (en0 :: mine0)) arity)) as [m'|];
      try contradiction; [|apply Sc_zero].
    destruct (PrimFloat.ltb 0 (rtotal (en0 :: mine0))) eqn:Hpos; [|apply Sc_zero].
    destruct (Hdiv eq_refl) as [Ht [N1 [N2 [B1 B2]]]].
    assert (Ht0 : FR (rtotal (en0 :: mine0)) <> 0).
    { apply (ltb_zero_pos _ Ht) in Hpos. lra. }
    assert (HbM := bpM_lt M HM). assert (FM := fmt_bpM M HM).
    set (v := FR m / FR (rtotal (en0 :: mine0))) in *.
    assert (T1 : Rabs (rnd v) <= bp M) by (apply rnd_abs_le; assumption).
    assert (T2 : Rabs (rnd v * bp e) <= bp M).
    { rewrite <- (rnd_scale _ e N1 N2). apply rnd_abs_le; assumption. }
    apply Sc_div; try assumption.
    - apply Rle_lt_trans with (1 := T1). exact HbM.
    - apply Rle_lt_trans with (1 := T2). exact HbM.
  Qed.

  Lemma resolve_from_S : forall nodes ars i k,
    @resolve_from FNum chance so me nodes ars i (S k) =
    @resolve_one FNum chance so me nodes (nth i ars O)
       (fun j => nth (j - S i) (@resolve_from FNum chance so me nodes ars (S i) k) 0%float) i
    :: @resolve_from FNum chance so me nodes ars (S i) k.
  Proof. reflexivity. Qed.

  Fixpoint ResFromOK (nodes : list centry) (ars : list nat) (i k : nat) {struct k} : Prop :=
    match k with
    | O => True
    | S k' =>
        ResFromOK nodes ars (S i) k' /\
        ResOK nodes (nth i ars O)
              (fun j => nth (j - S i) (@resolve_from FNum chance so me nodes ars (S i) k') 0%float) i
    end.

  Theorem resolve_from_scale : forall nodes ars k i, ResFromOK nodes ars i k ->
    Forall2 (Sc e) (@resolve_from FNum chance so me nodes ars i k)
                   (@resolve_from FNum chance so me (map (sk c) nodes) ars i k).
  Proof.
    intros nodes ars. induction k as [|k IH]; intros i H.
    - constructor.
    - destruct H as [H1 H2]. rewrite !resolve_from_S.
      specialize (IH (S i) H1).
      constructor; [|exact IH].
      apply resolve_one_scale; [|exact H2].
      intros j. apply Forall2_nth_Sc. exact IH.
  Qed.
End Resolve.

(** ** [br_value] *)

(** the "in range" predicate of a whole best-response computation, following the
    evaluation on the unscaled game *)
Definition BrOK (e M : Z) (g : game) (me : bool) (so : list (list float)) : Prop :=
  let chance := g_chance g in
  let nodes := @collect FNum chance so me (g_root g) 1%float [] in
  let ars := arities g me in
  let tbl := @resolve_from FNum chance so me nodes ars O (length ars) in
  ResFromOK e M chance so me nodes ars O (length ars) /\
  SearchOK e M chance so me (fun j => nth j tbl 0%float) (g_root g) 1%float /\
  (Z.of_nat (tsz (g_root g)) < 2 ^ 53)%Z.

Lemma br_value_FNum : forall (g : game) (me : bool) (so : list (list float)),
  @br_value FNum g me so =
  @search FNum (g_chance g) so me
    (fun j => nth j (@resolve_from FNum (g_chance g) so me
                       (@collect FNum (g_chance g) so me (g_root g) 1%float [])
                       (arities g me) O (length (arities g me))) 0%float)
    (g_root g) 1%float 0%float.
Proof. reflexivity. Qed.

Theorem br_value_scale : forall (c : float) (e M : Z) (g : game) (me : bool) (so : list (list float)),
  IsPow2 c e -> (-1074 <= M <= 971)%Z -> BrOK e M g me so ->
  Inv e M (Z.of_nat (tsz (g_root g))) (@br_value FNum g me so)
      (@br_value FNum (scale_game c g) me so).
Proof.
  intros c e M g me so Hc HM [H1 [H2 H3]].
  rewrite !br_value_FNum.
  change (g_chance (scale_game c g)) with (g_chance g).
  change (g_root (scale_game c g)) with (scale_node c (g_root g)).
  change (arities (scale_game c g) me) with (arities g me).
  assert (Ecol : @collect FNum (g_chance g) so me (scale_node c (g_root g)) 1%float [] =
                 map (sk c) (@collect FNum (g_chance g) so me (g_root g) 1%float [])).
  { exact (collect_scale c (g_chance g) so me (g_root g) 1%float []). }
  rewrite Ecol.
  assert (Htbl := resolve_from_scale c e M (g_chance g) so me Hc HM _ _ _ _ H1).
  assert (Hmu := Forall2_nth_Sc e _ _ Htbl).
  assert (H := search_scale c e M (g_chance g) so me Hc HM _ _ Hmu (g_root g)
                 1%float 0%float 0%float 0%Z H2 (Inv_zero e M) (Z.le_refl 0) ltac:(lia)).
  rewrite Z.add_0_l in H. exact H.
Qed.

(** ** [info]: utility and both regrets ([regret::regret]) *)

Lemma list_sum_map_le : forall (f h : node -> nat) ks,
  Forall (fun k => (f k <= h k)%nat) ks -> (list_sum (map f ks) <= list_sum (map h ks))%nat.
Proof.
  intros f h ks H. induction H as [|k ks Hk _ IH]; [apply Nat.le_refl|].
  change (list_sum (map f (k :: ks))) with (f k + list_sum (map f ks))%nat.
  change (list_sum (map h (k :: ks))) with (h k + list_sum (map h ks))%nat.
  lia.
Qed.

Lemma nleaves_le_tsz : forall n : node, (nleaves n <= tsz n)%nat.
Proof.
  induction n as [x|ci kids IH|pl i kids IH] using node_ind'; cbn [nleaves tsz]; [lia| |].
  - apply list_sum_map_le. exact IH.
  - apply Nat.le_trans with (list_sum (map tsz kids)); [|lia].
    apply list_sum_map_le. exact IH.
Qed.

Lemma fmax_zero_Sc : forall e a a', Sc e a a' -> Sc e (f_max a 0) (f_max a' 0).
Proof. intros e a a' H. apply Sc_fmax; [exact H | apply Sc_zero]. Qed.

Theorem info_scale_float :
  forall (c : float) (e M : Z) (g : game) (prof : list float * list float),
  let s1 := split_by (fst prof) (arities g true) in
  let s2 := split_by (snd prof) (arities g false) in
  IsPow2 c e -> (-1074 <= M <= 971)%Z ->
  (2 * Z.of_nat (tsz (g_root g)) < 2 ^ 53)%Z ->
  RangeOK e M (g_chance g) s1 s2 (g_root g) 1%float ->
  BrOK e M g true s2 -> BrOK e M g false s1 ->
  let I := @info FNum g prof in
  let I' := @info FNum (scale_game c g) prof in
  si_util I' = (si_util I * c)%float /\
  si_reg1 I' = (si_reg1 I * c)%float /\
  si_reg2 I' = (si_reg2 I * c)%float /\
  @si_regret FNum I' = (@si_regret FNum I * c)%float.
Proof.
  intros c e M g prof s1 s2 Hc HM Hsz Hr Hb1 Hb2 I I'.
  assert (HL := nleaves_le_tsz (g_root g)).
  assert (He := exp_acc_scale c e M (g_chance g) s1 s2 Hc HM (g_root g)
                  1%float 0%float 0%float 0%Z Hr (Inv_zero e M) (Z.le_refl 0) ltac:(lia)).
  rewrite Z.add_0_l in He.
  apply (Inv_mono e M _ (Z.of_nat (tsz (g_root g)))) in He; [|lia].
  assert (H1 := br_value_scale c e M g true s2 Hc HM Hb1).
  assert (H2 := br_value_scale c e M g false s1 Hc HM Hb2).
  change (@exp_acc FNum (g_chance g) s1 s2 (g_root g) 1%float 0%float)
    with (@expected FNum g s1 s2) in He.
  change (@exp_acc FNum (g_chance g) s1 s2 (scale_node c (g_root g)) 1%float 0%float)
    with (@expected FNum (scale_game c g) s1 s2) in He.
  set (N := Z.of_nat (tsz (g_root g))) in *.
  set (ev := @expected FNum g s1 s2) in *.
  set (ev' := @expected FNum (scale_game c g) s1 s2) in *.
  set (b1 := @br_value FNum g true s2) in *.
  set (b1' := @br_value FNum (scale_game c g) true s2) in *.
  set (b2 := @br_value FNum g false s1) in *.
  set (b2' := @br_value FNum (scale_game c g) false s1) in *.
  assert (EI : I = @mkSinfo FNum ev (f_max (b1 - ev) 0) (f_max (b2 + ev) 0)) by reflexivity.
  assert (EI' : I' = @mkSinfo FNum ev' (f_max (b1' - ev') 0) (f_max (b2' + ev') 0)) by reflexivity.
  (* the two combinations: bounded by 2N * 2^M, hence no overflow *)
  assert (FJ : fmt (IZR (N + N) * bp M)) by (apply fmt_IZR_bp; lia).
  assert (BJ : IZR (N + N) * bp M < bp emax) by (apply IZR_bp_lt_emax; lia).
  assert (EJ : IZR (N + N) * bp M = IZR N * bp M + IZR N * bp M) by (rewrite plus_IZR; ring).
  destruct He as [Se [Be Be']]. destruct H1 as [S1 [B1 B1']]. destruct H2 as [S2 [B2 B2']].
  assert (Tr : forall u v, Rabs (u - v) <= Rabs u + Rabs v).
  { intros u v. unfold Rminus. apply Rle_trans with (1 := Rabs_triang _ _).
    rewrite Rabs_Ropp. lra. }
  assert (Ssub : Sc e (b1 - ev)%float (b1' - ev')%float).
  { assert (X1 : Rabs (rnd (FR b1 - FR ev)) <= IZR (N + N) * bp M).
    { apply rnd_abs_le; [exact FJ|]. apply Rle_trans with (1 := Tr _ _). lra. }
    assert (X2 : Rabs (rnd (FR b1' - FR ev')) <= IZR (N + N) * bp M).
    { apply rnd_abs_le; [exact FJ|]. apply Rle_trans with (1 := Tr _ _). lra. }
    apply Sc_sub; try assumption; [lra|].
    replace (rnd (FR b1 - FR ev) * bp e) with (rnd (FR b1' - FR ev')); [lra|].
    destruct S1 as [_ [_ [R1 _]]]. destruct Se as [_ [_ [Re _]]].
    rewrite R1, Re.
    replace (FR b1 * bp e - FR ev * bp e) with (FR b1 * bp e + (- FR ev) * bp e) by ring.
    unfold Rminus. apply rnd_add_scale.
    - apply fmt_FR.
    - apply fmt_opp, fmt_FR.
    - rewrite <- R1. apply fmt_FR.
    - replace (- FR ev * bp e) with (- (FR ev * bp e)) by ring. rewrite <- Re.
      apply fmt_opp, fmt_FR. }
  assert (Sadd : Sc e (b2 + ev)%float (b2' + ev')%float).
  { assert (X1 : Rabs (rnd (FR b2 + FR ev)) <= IZR (N + N) * bp M).
    { apply rnd_abs_le; [exact FJ|]. apply Rle_trans with (1 := Rabs_triang _ _). lra. }
    assert (X2 : Rabs (rnd (FR b2' + FR ev')) <= IZR (N + N) * bp M).
    { apply rnd_abs_le; [exact FJ|]. apply Rle_trans with (1 := Rabs_triang _ _). lra. }
    apply Sc_add; try assumption; [lra|].
    replace (rnd (FR b2 + FR ev) * bp e) with (rnd (FR b2' + FR ev')); [lra|].
    destruct S2 as [_ [_ [R2 _]]]. destruct Se as [_ [_ [Re _]]].
    rewrite R2, Re. apply rnd_add_scale; try apply fmt_FR.
    - rewrite <- R2. apply fmt_FR.
    - rewrite <- Re. apply fmt_FR. }
  assert (G1 := fmax_zero_Sc e _ _ Ssub).
  assert (G2 := fmax_zero_Sc e _ _ Sadd).
  assert (G3 := Sc_fmax e _ _ _ _ G1 G2).
  rewrite EI, EI'. unfold si_regret. cbn [si_util si_reg1 si_reg2].
  split; [apply (Sc_eq c e); assumption|].
  split; [apply (Sc_eq c e); assumption|].
  split; [apply (Sc_eq c e); assumption|].
  apply (Sc_eq c e); assumption.
Qed.

(** ** Boolean checkers: the "in range" predicates are decidable by running the unscaled
    evaluation once in binary64 (sufficient tests, with one binade of margin) *)

Lemma leb_pow2_abs : forall k x, (-1074 <= k <= 1023)%Z -> Ffin x ->
  PrimFloat.leb (pow2 k) (PrimFloat.abs x) = true -> bp k <= Rabs (FR x).
Proof.
  intros k x Hk Hx H. destruct (pow2_IsPow2 k Hk) as [Gf Gr].
  rewrite (leb_fin _ _ Gf (Ffin_abs x Hx)), Gr, FR_abs in H.
  destruct (Rle_bool_spec (bp k) (Rabs (FR x))) as [Hr|Hr]; [exact Hr | discriminate].
Qed.

Lemma leb_abs_pow2 : forall k x, (-1074 <= k <= 1023)%Z -> Ffin x ->
  PrimFloat.leb (PrimFloat.abs x) (pow2 k) = true -> Rabs (FR x) <= bp k.
Proof.
  intros k x Hk Hx H. destruct (pow2_IsPow2 k Hk) as [Gf Gr].
  rewrite (leb_fin _ _ (Ffin_abs x Hx) Gf), Gr, FR_abs in H.
  destruct (Rle_bool_spec (Rabs (FR x)) (bp k)) as [Hr|Hr]; [exact Hr | discriminate].
Qed.

Lemma ltb_abs_pow2 : forall k x, (-1074 <= k <= 1023)%Z -> Ffin x ->
  PrimFloat.ltb (PrimFloat.abs x) (pow2 k) = true -> Rabs (FR x) < bp k.
Proof.
  intros k x Hk Hx H. destruct (pow2_IsPow2 k Hk) as [Gf Gr].
  rewrite (ltb_fin _ _ (Ffin_abs x Hx) Gf), Gr, FR_abs in H.
  destruct (Rlt_bool_spec (Rabs (FR x)) (bp k)) as [Hr|Hr]; [exact Hr | discriminate].
Qed.

Lemma Rg_zero : forall e M, Rg e M 0.
Proof.
  intros e M. split; [left; reflexivity|]. split; [left; ring|].
  rewrite Rmult_0_l, Rabs_R0. split; left; apply bpow_gt_0.
Qed.

Definition LoE (e : Z) : Z := Z.max (-1021) (-1021 - e).
Definition HiE (e M : Z) : Z := Z.min M (M - e).

(** the computed (rounded) value [q] is at least [2^LoE] and below [2^HiE] in magnitude *)
Definition rg_chk (e M : Z) (q : float) : bool :=
  PrimFloat.leb (pow2 (LoE e)) (PrimFloat.abs q) && PrimFloat.ltb (PrimFloat.abs q) (pow2 (HiE e M)).

Section Checkers.
  Context (e M : Z) (He : (-500 <= e <= 500)%Z) (HM : (-500 <= M <= 971)%Z).

  Lemma rg_chk_spec : forall q v, Ffin q -> FR q = rnd v -> rg_chk e M q = true -> Rg e M v.
  Proof.
    intros q v Hq Hv H. unfold rg_chk in H. apply andb_true_iff in H. destruct H as [H1 H2].
    assert (Lo1 : (-1021 <= LoE e)%Z) by (unfold LoE; lia).
    assert (Lo2 : (-1021 - e <= LoE e)%Z) by (unfold LoE; lia).
    assert (Lo3 : (LoE e <= 1023)%Z) by (unfold LoE; lia).
    assert (Hi1 : (HiE e M <= M)%Z) by (unfold HiE; lia).
    assert (Hi2 : (HiE e M <= M - e)%Z) by (unfold HiE; lia).
    assert (Hi3 : (-1074 <= HiE e M <= 1023)%Z) by (unfold HiE; lia).
    apply leb_pow2_abs in H1; [|lia|exact Hq]. apply ltb_abs_pow2 in H2; [|lia|exact Hq].
    rewrite Hv in H1, H2.
    assert (Lv : bp (LoE e - 1) <= Rabs v).
    { destruct (Rle_lt_dec (bp (LoE e - 1)) (Rabs v)) as [G|G]; [exact G|exfalso].
      assert (X : Rabs (rnd v) <= bp (LoE e - 1)) by (apply rnd_abs_le; [apply fmt_bp; lia | lra]).
      assert (bp (LoE e - 1) < bp (LoE e)) by (apply bpow_lt; lia). lra. }
    assert (Uv : Rabs v <= bp (HiE e M)).
    { destruct (Rle_lt_dec (Rabs v) (bp (HiE e M))) as [G|G]; [exact G|exfalso].
      assert (X : bp (HiE e M) <= Rabs (rnd v)).
      { apply rnd_abs_ge; [apply fmt_bp; lia | lra]. }
      lra. }
    assert (Hpe : 0 < bp e) by apply bpow_gt_0.
    assert (Eabs : Rabs (v * bp e) = Rabs v * bp e).
    { rewrite Rabs_mult, (Rabs_pos_eq (bp e)) by lra. reflexivity. }
    split; [|split; [|split]].
    - right. apply Rle_trans with (2 := Lv). apply bpow_le. lia.
    - right. rewrite Eabs. apply Rle_trans with (bp (LoE e - 1) * bp e).
      + rewrite <- bpow_plus. apply bpow_le. lia.
      + apply Rmult_le_compat_r; lra.
    - apply Rle_trans with (1 := Uv). apply bpow_le. lia.
    - rewrite Eabs. apply Rle_trans with (bp (HiE e M) * bp e).
      + apply Rmult_le_compat_r; lra.
      + rewrite <- bpow_plus. apply bpow_le. lia.
  Qed.

  (** finite and at most [2^500] in magnitude *)
  Definition smallb (x : float) : bool :=
    f_is_fin x && PrimFloat.leb (PrimFloat.abs x) (pow2 500).

  Lemma smallb_spec : forall x, smallb x = true -> Ffin x /\ Rabs (FR x) <= bp 500.
  Proof.
    intros x H. unfold smallb in H. apply andb_true_iff in H. destruct H as [H1 H2].
    apply NormFloat.f_is_fin_true in H1. split; [exact H1|].
    apply leb_abs_pow2; [lia | exact H1 | exact H2].
  Qed.

  Lemma bp1000_lt : bp 1000 < bp emax.
  Proof. apply bpow_lt. change emax with 1024%Z. lia. Qed.

  (** a product *)
  Definition rg_mulb (x r : float) : bool :=
    smallb x && smallb r &&
    (PrimFloat.eqb x 0 || PrimFloat.eqb r 0 || rg_chk e M (x * r)%float).

  Lemma rg_mulb_spec : forall x r, rg_mulb x r = true ->
    Ffin x /\ Ffin r /\ Rg e M (FR x * FR r).
  Proof.
    intros x r H. unfold rg_mulb in H.
    apply andb_true_iff in H. destruct H as [H H3].
    apply andb_true_iff in H. destruct H as [H1 H2].
    apply smallb_spec in H1. apply smallb_spec in H2.
    destruct H1 as [Fx Bx]. destruct H2 as [Fr Br].
    split; [exact Fx|]. split; [exact Fr|].
    apply orb_true_iff in H3. destruct H3 as [H3|H3].
    - apply orb_true_iff in H3. destruct H3 as [H3|H3].
      + apply (eqb_zero_fin x Fx) in H3. rewrite H3, Rmult_0_l. apply Rg_zero.
      + apply (eqb_zero_fin r Fr) in H3. rewrite H3, Rmult_0_r. apply Rg_zero.
    - assert (Hb : Rabs (FR x * FR r) <= bp 1000).
      { rewrite Rabs_mult. change (bp 1000) with (bp (500 + 500)). rewrite bpow_plus.
        apply Rmult_le_compat; try apply Rabs_pos; assumption. }
      assert (Hb' : Rabs (rnd (FR x * FR r)) < bp emax).
      { apply Rle_lt_trans with (bp 1000); [|apply bp1000_lt].
        apply rnd_abs_le; [apply fmt_bp; lia | exact Hb]. }
      destruct (mul_ok x r Fx Fr Hb') as [Ff Fe].
      apply (rg_chk_spec _ _ Ff Fe H3).
  Qed.

  (** a quotient by a divisor of magnitude at least [2^-500] *)
  Definition rg_divb (m t : float) : bool :=
    smallb m && f_is_fin t && PrimFloat.leb (pow2 (-500)) (PrimFloat.abs t) &&
    (PrimFloat.eqb m 0 || rg_chk e M (m / t)%float).

  Lemma rg_divb_spec : forall m t, rg_divb m t = true -> Ffin t /\ Rg e M (FR m / FR t).
  Proof.
    intros m t H. unfold rg_divb in H.
    apply andb_true_iff in H. destruct H as [H H4].
    apply andb_true_iff in H. destruct H as [H H3].
    apply andb_true_iff in H. destruct H as [H1 H2].
    apply smallb_spec in H1. destruct H1 as [Fm Bm].
    apply NormFloat.f_is_fin_true in H2.
    apply leb_pow2_abs in H3; [|lia|exact H2].
    split; [exact H2|].
    assert (Ht0 : FR t <> 0).
    { intros Hz. rewrite Hz, Rabs_R0 in H3. generalize (bpow_gt_0 radix2 (-500)). lra. }
    apply orb_true_iff in H4. destruct H4 as [H4|H4].
    - apply (eqb_zero_fin m Fm) in H4. rewrite H4. unfold Rdiv. rewrite Rmult_0_l. apply Rg_zero.
    - assert (Hb : Rabs (FR m / FR t) <= bp 1000).
      { unfold Rdiv. rewrite Rabs_mult, Rabs_inv.
        change (bp 1000) with (bp (500 + 500)). rewrite bpow_plus.
        apply Rmult_le_compat; try apply Rabs_pos.
        - left. apply Rinv_0_lt_compat. apply Rabs_pos_lt. exact Ht0.
        - exact Bm.
        - replace (bp 500) with (/ bp (-500)) by (rewrite <- bpow_opp; reflexivity).
          apply Rinv_le_contravar; [apply bpow_gt_0 | exact H3]. }
      assert (Hb' : Rabs (rnd (FR m / FR t)) < bp emax).
      { apply Rle_lt_trans with (bp 1000); [|apply bp1000_lt].
        apply rnd_abs_le; [apply fmt_bp; lia | exact Hb]. }
      destruct (div_ok m t Fm Ht0 Hb') as [Ff Fe].
      apply (rg_chk_spec _ _ Ff Fe H4).
  Qed.

  (** a payoff: [x * c] is exact and finite *)
  Definition termb (x : float) : bool :=
    smallb x &&
    (PrimFloat.eqb x 0 || PrimFloat.leb (pow2 (Z.max (-1074) (-1022 - e))) (PrimFloat.abs x)).

  Lemma termb_spec : forall x, termb x = true ->
    Ffin x /\ nz (FR x * bp e) /\ Rabs (FR x * bp e) < bp emax.
  Proof.
    intros x H. unfold termb in H. apply andb_true_iff in H. destruct H as [H1 H2].
    apply smallb_spec in H1. destruct H1 as [Fx Bx].
    assert (Hpe : 0 < bp e) by apply bpow_gt_0.
    assert (Eabs : Rabs (FR x * bp e) = Rabs (FR x) * bp e).
    { rewrite Rabs_mult, (Rabs_pos_eq (bp e)) by lra. reflexivity. }
    split; [exact Fx|]. split.
    - apply orb_true_iff in H2. destruct H2 as [H2|H2].
      + apply (eqb_zero_fin x Fx) in H2. left. rewrite H2. ring.
      + apply leb_pow2_abs in H2; [|lia|exact Fx].
        right. rewrite Eabs.
        apply Rle_trans with (bp (Z.max (-1074) (-1022 - e)) * bp e).
        * rewrite <- bpow_plus. apply bpow_le. lia.
        * apply Rmult_le_compat_r; lra.
    - rewrite Eabs. apply Rle_lt_trans with (bp 500 * bp e).
      + apply Rmult_le_compat_r; lra.
      + rewrite <- bpow_plus. apply bpow_lt. change emax with 1024%Z. lia.
  Qed.
End Checkers.

(** *** Tree-level checkers *)
Section BLoop.
  Context (b : node -> float -> bool) (tst : float -> bool) (reach : float).
  Fixpoint bgo (ps : list float) (ks : list node) {struct ks} : bool :=
    match ps, ks with
    | p :: ps', k :: ks' => (if tst p then b k (p * reach)%float else true) && bgo ps' ks'
    | _, _ => true
    end.
End BLoop.

Lemma bgo_rgo : forall (b : node -> float -> bool) (P : node -> float -> Prop) tst ks,
  Forall (fun k => forall r, b k r = true -> P k r) ks ->
  forall ps r, bgo b tst r ps ks = true -> rgo P tst r ps ks.
Proof.
  intros b P tst ks Hks. induction Hks as [|k ks Hk _ IH]; intros ps r H.
  - destruct ps; exact I.
  - destruct ps as [|p ps]; [exact I|].
    cbn [bgo] in H. apply andb_true_iff in H. destruct H as [H1 H2].
    cbn [rgo]. split; [|apply IH; exact H2].
    destruct (tst p); [apply Hk; exact H1 | exact I].
Qed.

Section TreeCheckers.
  Context (e M : Z) (He : (-500 <= e <= 500)%Z) (HM : (-500 <= M <= 971)%Z).

  (** for [expected] *)
  Section ForExpected.
    Context (chance s1 s2 : list (list float)).
    Fixpoint rangeokb (n : node) (reach : float) {struct n} : bool :=
      match n with
      | Term x => termb e x && rg_mulb e M reach x
      | Chance ci kids =>
          (fix go (ps : list float) (ks : list node) {struct ks} : bool :=
             match ps, ks with
             | p :: ps', k :: ks' => rangeokb k (p * reach)%float && go ps' ks'
             | _, _ => true
             end) (@row FNum chance ci) kids
      | Player pl i kids =>
          (fix go (ps : list float) (ks : list node) {struct ks} : bool :=
             match ps, ks with
             | p :: ps', k :: ks' =>
                 (if PrimFloat.ltb 0 p then rangeokb k (p * reach)%float else true) && go ps' ks'
             | _, _ => true
             end) (@row FNum (if pl then s1 else s2) i) kids
      end.

    Lemma rangeokb_Chance : forall ci kids r,
      rangeokb (Chance ci kids) r = bgo rangeokb (fun _ => true) r (@row FNum chance ci) kids.
    Proof. reflexivity. Qed.

    Lemma rangeokb_Player : forall pl i kids r,
      rangeokb (Player pl i kids) r =
      bgo rangeokb (fun p => PrimFloat.ltb 0 p) r (@row FNum (if pl then s1 else s2) i) kids.
    Proof. reflexivity. Qed.

    Theorem rangeokb_spec : forall n r, rangeokb n r = true -> RangeOK e M chance s1 s2 n r.
    Proof.
      induction n as [x|ci kids IH|pl i kids IH] using node_ind'; intros r H.
      - cbn [rangeokb] in H. apply andb_true_iff in H. destruct H as [H1 H2].
        destruct (termb_spec e He x H1) as [Fx [Nx Bx]].
        destruct (rg_mulb_spec e M He HM r x H2) as [Fr [_ [N1 [N2 [B1 B2]]]]].
        rewrite RangeOK_Term. unfold LeafOK. tauto.
      - rewrite rangeokb_Chance in H. rewrite RangeOK_Chance.
        apply (bgo_rgo rangeokb); assumption.
      - rewrite rangeokb_Player in H. rewrite RangeOK_Player.
        apply (bgo_rgo rangeokb); assumption.
    Qed.
  End ForExpected.

  (** for the best response *)
  Section ForBR.
    Context (chance so : list (list float)) (me : bool).

    Fixpoint searchokb (mu : nat -> float) (n : node) (reach : float) {struct n} : bool :=
      match n with
      | Term x => termb e x && rg_mulb e M x reach
      | Chance ci kids =>
          (fix go (ps : list float) (ks : list node) {struct ks} : bool :=
             match ps, ks with
             | p :: ps', k :: ks' => searchokb mu k (p * reach)%float && go ps' ks'
             | _, _ => true
             end) (@row FNum chance ci) kids
      | Player pl i kids =>
          if Bool.eqb pl me then rg_mulb e M (mu i) reach
          else
          (fix go (ps : list float) (ks : list node) {struct ks} : bool :=
             match ps, ks with
             | p :: ps', k :: ks' =>
                 (if PrimFloat.ltb 0 p then searchokb mu k (p * reach)%float else true) && go ps' ks'
             | _, _ => true
             end) (@row FNum so i) kids
      end.

    Lemma searchokb_Chance : forall mu ci kids r,
      searchokb mu (Chance ci kids) r =
      bgo (searchokb mu) (fun _ => true) r (@row FNum chance ci) kids.
    Proof. reflexivity. Qed.

    Lemma searchokb_Player : forall mu pl i kids r,
      searchokb mu (Player pl i kids) r =
      if Bool.eqb pl me then rg_mulb e M (mu i) r
      else bgo (searchokb mu) (fun p => PrimFloat.ltb 0 p) r (@row FNum so i) kids.
    Proof. reflexivity. Qed.

    Theorem searchokb_spec : forall mu n r, searchokb mu n r = true ->
      SearchOK e M chance so me mu n r.
    Proof.
      intros mu. induction n as [x|ci kids IH|pl i kids IH] using node_ind'; intros r H.
      - cbn [searchokb] in H. apply andb_true_iff in H. destruct H as [H1 H2].
        destruct (termb_spec e He x H1) as [Fx [Nx Bx]].
        destruct (rg_mulb_spec e M He HM x r H2) as [_ [Fr Hg]].
        cbn [SearchOK]. tauto.
      - rewrite searchokb_Chance in H. rewrite SearchOK_Chance.
        apply (bgo_rgo (searchokb mu)); assumption.
      - rewrite searchokb_Player in H. rewrite SearchOK_Player.
        destruct (Bool.eqb pl me).
        + destruct (rg_mulb_spec e M He HM _ _ H) as [_ [Fr Hg]]. split; assumption.
        + apply (bgo_rgo (searchokb mu)); assumption.
    Qed.

    Local Notation srch := (@search FNum chance so me).

    Definition kidokb (mu : nat -> float) (p : float) (kid : node) : bool :=
      searchokb mu kid 1%float && (Z.of_nat (tsz kid) <? 2 ^ 53)%Z &&
      rg_mulb e M (srch mu kid 1%float 0%float) p.

    Definition stepokb (mu : nat -> float) (en : centry) : bool :=
      f_is_fin (snd (snd en)) && forallb (kidokb mu (snd (snd en))) (fst (snd en)).

    Definition resokb (nodes : list centry) (arity : nat) (mu : nat -> float) (i : nat) : bool :=
      let mine := rmine nodes i in
      forallb (stepokb mu) mine && (Z.of_nat (length mine) <? 2 ^ 53)%Z &&
      match @reduce_max FNum (payoffs chance so me mu mine arity) with
      | Some m => if PrimFloat.ltb 0 (rtotal mine) then rg_divb e M m (rtotal mine) else true
      | None => true
      end.

    Lemma resokb_spec : forall nodes arity mu i, resokb nodes arity mu i = true ->
      ResOK e M chance so me nodes arity mu i.
    Proof.
      intros nodes arity mu i H. unfold resokb in H. cbv zeta in H.
      apply andb_true_iff in H. destruct H as [H H3].
      apply andb_true_iff in H. destruct H as [H1 H2].
      unfold ResOK. cbv zeta. split; [|split].
      - rewrite forallb_forall in H1. apply Forall_forall. intros en Hen.
        specialize (H1 en Hen). unfold stepokb in H1.
        apply andb_true_iff in H1. destruct H1 as [G1 G2].
        split; [apply NormFloat.f_is_fin_true; exact G1|].
        rewrite forallb_forall in G2. apply Forall_forall. intros kid Hkid.
        specialize (G2 kid Hkid). unfold kidokb in G2.
        apply andb_true_iff in G2. destruct G2 as [G2 G5].
        apply andb_true_iff in G2. destruct G2 as [G3 G4].
        split; [apply searchokb_spec; exact G3|].
        split; [apply Z.ltb_lt; exact G4|].
        apply (rg_mulb_spec e M He HM _ _ G5).
      - apply Z.ltb_lt. exact H2.
      - destruct (@reduce_max FNum (payoffs chance so me mu (rmine nodes i) arity)) as [m|]; [|exact I].
        intros Hpos. rewrite Hpos in H3. apply (rg_divb_spec e M He HM _ _ H3).
    Qed.

    Fixpoint resfromokb (nodes : list centry) (ars : list nat) (i k : nat) {struct k} : bool :=
      match k with
      | O => true
      | S k' =>
          resfromokb nodes ars (S i) k' &&
          resokb nodes (nth i ars O)
                 (fun j => nth (j - S i) (@resolve_from FNum chance so me nodes ars (S i) k') 0%float) i
      end.

    Lemma resfromokb_spec : forall nodes ars k i, resfromokb nodes ars i k = true ->
      ResFromOK e M chance so me nodes ars i k.
    Proof.
      intros nodes ars. induction k as [|k IH]; intros i H; [exact I|].
      cbn [resfromokb] in H. apply andb_true_iff in H. destruct H as [H1 H2].
      cbn [ResFromOK]. split; [apply IH; exact H1 | apply resokb_spec; exact H2].
    Qed.
  End ForBR.

  Definition brokb (g : game) (me : bool) (so : list (list float)) : bool :=
    let chance := g_chance g in
    let nodes := @collect FNum chance so me (g_root g) 1%float [] in
    let ars := arities g me in
    let tbl := @resolve_from FNum chance so me nodes ars O (length ars) in
    resfromokb chance so me nodes ars O (length ars) &&
    searchokb chance so me (fun j => nth j tbl 0%float) (g_root g) 1%float &&
    (Z.of_nat (tsz (g_root g)) <? 2 ^ 53)%Z.

  Lemma brokb_spec : forall g me so, brokb g me so = true -> BrOK e M g me so.
  Proof.
    intros g me so H. unfold brokb in H. cbv zeta in H.
    apply andb_true_iff in H. destruct H as [H H3].
    apply andb_true_iff in H. destruct H as [H1 H2].
    unfold BrOK. cbv zeta. split; [|split].
    - apply resfromokb_spec. exact H1.
    - apply searchokb_spec. exact H2.
    - apply Z.ltb_lt. exact H3.
  Qed.

  (** one boolean for all the hypotheses of [info_scale_float] *)
  Definition infookb (g : game) (prof : list float * list float) : bool :=
    let s1 := split_by (fst prof) (arities g true) in
    let s2 := split_by (snd prof) (arities g false) in
    (2 * Z.of_nat (tsz (g_root g)) <? 2 ^ 53)%Z &&
    rangeokb (g_chance g) s1 s2 (g_root g) 1%float &&
    brokb g true s2 && brokb g false s1.
End TreeCheckers.

(** [info] on the scaled game is [info] scaled, as soon as the checker accepts the
    unscaled game (to be discharged by [vm_compute]) *)
Theorem info_scale_float_check :
  forall (c : float) (e M : Z) (g : game) (prof : list float * list float),
  IsPow2 c e -> (-500 <= e <= 500)%Z -> (-500 <= M <= 971)%Z ->
  infookb e M g prof = true ->
  let I := @info FNum g prof in
  let I' := @info FNum (scale_game c g) prof in
  si_util I' = (si_util I * c)%float /\
  si_reg1 I' = (si_reg1 I * c)%float /\
  si_reg2 I' = (si_reg2 I * c)%float /\
  @si_regret FNum I' = (@si_regret FNum I * c)%float.
Proof.
  intros c e M g prof Hc He HM H. unfold infookb in H. cbv zeta in H.
  apply andb_true_iff in H. destruct H as [H H4].
  apply andb_true_iff in H. destruct H as [H H3].
  apply andb_true_iff in H. destruct H as [H1 H2].
  apply (info_scale_float c e M g prof Hc); [lia | apply Z.ltb_lt; exact H1 | | |].
  - apply (rangeokb_spec e M He HM). exact H2.
  - apply (brokb_spec e M He HM). exact H3.
  - apply (brokb_spec e M He HM). exact H4.
Qed.

(** ** Example: a game with one infoset per player and a chance move

    chance (3/4, 1/4): with 3/4 a simultaneous 2x2 game with payoffs [[3, -1], [-2, 0.5]]
    (player two does not observe player one), with 1/4 the payoff 0.75.
    Profile: player one (0.3, 0.7), player two (0.6, 0.4). *)
Definition bx_root : node :=
  @Chance FNum 0
    [ @Player FNum true 0
        [ @Player FNum false 0 [ @Term FNum 3%float; @Term FNum (-1)%float ];
          @Player FNum false 0 [ @Term FNum (-2)%float; @Term FNum 0.5%float ] ];
      @Term FNum 0.75%float ].

Definition bx_g : game :=
  @mkGame FNum [[0.75; 0.25]%float]
          [mkPinfo 0%N [0%N; 1%N] None] [mkPinfo 0%N [0%N; 1%N] None] [] [] bx_root.

Definition bx_prof : list float * list float :=
  ([0x1.3333333333333p-2; 0x1.6666666666666p-1]%float,
   [0x1.3333333333333p-1; 0x1.999999999999ap-2]%float).

(** the checker accepts the game for [e = -70] (and for the units [2^-200], [2^150]) *)
Example bx_check : infookb (-70) 10 bx_g bx_prof = true.
Proof. vm_compute. reflexivity. Qed.

Example bx_check_units :
  infookb (-200) 210 bx_g bx_prof = true /\ infookb 150 160 bx_g bx_prof = true.
Proof. split; vm_compute; reflexivity. Qed.

(** hence utility and regrets of the scaled game are those of the game, scaled *)
Example bx_info_scale :
  let I := @info FNum bx_g bx_prof in
  let I' := @info FNum (scale_game (pow2 (-70)) bx_g) bx_prof in
  si_util I' = (si_util I * pow2 (-70))%float /\
  si_reg1 I' = (si_reg1 I * pow2 (-70))%float /\
  si_reg2 I' = (si_reg2 I * pow2 (-70))%float /\
  @si_regret FNum I' = (@si_regret FNum I * pow2 (-70))%float.
Proof.
  apply (info_scale_float_check (pow2 (-70)) (-70) 10 bx_g bx_prof).
  - apply pow2_IsPow2. lia.
  - lia.
  - lia.
  - exact bx_check.
Qed.

(** the same by plain computation, with the values (-0.0225, 1.26, 0.165 up to rounding) *)
Example bx_info_values :
  let I := @info FNum bx_g bx_prof in
  let I' := @info FNum (scale_game (pow2 (-70)) bx_g) bx_prof in
  (si_util I, si_reg1 I, si_reg2 I) =
    ((-0x1.70a3d70a3d7p-6), 0x1.428f5c28f5c28p+0, 0x1.51eb851eb851cp-3)%float /\
  (si_util I', si_reg1 I', si_reg2 I') =
    ((-0x1.70a3d70a3d7p-76), 0x1.428f5c28f5c28p-70, 0x1.51eb851eb851cp-73)%float.
Proof. split; vm_compute; reflexivity. Qed.

(** the evaluator alone, with the checker *)
Theorem expected_scale_float_check :
  forall (c : float) (e M : Z) (g : game) (s1 s2 : list (list float)),
  IsPow2 c e -> (-500 <= e <= 500)%Z -> (-500 <= M <= 971)%Z ->
  (Z.of_nat (nleaves (g_root g)) < 2 ^ 53)%Z ->
  rangeokb e M (g_chance g) s1 s2 (g_root g) 1%float = true ->
  @expected FNum (scale_game c g) s1 s2 = (@expected FNum g s1 s2 * c)%float.
Proof.
  intros c e M g s1 s2 Hc He HM HL H.
  apply (expected_scale_float c e M g s1 s2 Hc); [lia | exact HL|].
  apply (rangeokb_spec e M He HM). exact H.
Qed.
