(** * Eval: model of [regret.rs] — [expected], [optimal_deviations],
    [next_infoset_search], [regret] — and of [Strategies::get_info]. *)
From Coq Require Import List NArith Bool Arith.
From Cfr.theories Require Import Num Tree.
Import ListNotations.

Section Eval.
  Context {NN : Num}.
  Local Notation T := (T NN).
  Local Notation node := (@node NN).
  Local Notation game := (@game NN).

  Definition row (tbl : list (list T)) (i : nat) : list T := nth i tbl [].

  (** ** [expected]: explicit stack in the code = depth first, children in reverse
      order, one running accumulator. *)
  Fixpoint exp_acc (chance : list (list T)) (s1 s2 : list (list T))
           (n : node) (reach : T) (acc : T) : T :=
    match n with
    | Term x => add NN acc (mul NN reach x)
    | Chance ci kids =>
        (* reverse order: the tail is processed before the head *)
        let fix go (ps : list T) (ks : list node) (acc : T) {struct ks} : T :=
          match ps, ks with
          | p :: ps', k :: ks' => exp_acc chance s1 s2 k (mul NN p reach) (go ps' ks' acc)
          | _, _ => acc
          end in
        go (row chance ci) kids acc
    | Player pl i kids =>
        let fix go (ps : list T) (ks : list node) (acc : T) {struct ks} : T :=
          match ps, ks with
          | p :: ps', k :: ks' =>
              if ltb NN (zero NN) p
              then exp_acc chance s1 s2 k (mul NN p reach) (go ps' ks' acc)
              else go ps' ks' acc
          | _, _ => acc
          end in
        go (row (if pl then s1 else s2) i) kids acc
    end.

  Definition expected (g : game) (s1 s2 : list (list T)) : T :=
    exp_acc (g_chance g) s1 s2 (g_root g) (one NN) (zero NN).

  (** ** Best response of player [me] against the opponent strategy [so] *)

  (** first pass: own nodes with their (chance x opponent) reach, in the visiting
      order of the code's stack *)
  Fixpoint collect (chance : list (list T)) (so : list (list T)) (me : bool)
           (n : node) (reach : T) (acc : list (nat * (list node * T)))
    : list (nat * (list node * T)) :=
    match n with
    | Term _ => acc
    | Chance ci kids =>
        let fix go (ps : list T) (ks : list node) acc {struct ks} :=
          match ps, ks with
          | p :: ps', k :: ks' => collect chance so me k (mul NN p reach) (go ps' ks' acc)
          | _, _ => acc
          end in
        go (row chance ci) kids acc
    | Player pl i kids =>
        if Bool.eqb pl me then
          let fix go (ks : list node) acc :=
            match ks with
            | [] => acc
            | k :: r => collect chance so me k reach (go r acc)
            end in
          go kids (acc ++ [(i, (kids, reach))])
        else
          let fix go (ps : list T) (ks : list node) acc {struct ks} :=
            match ps, ks with
            | p :: ps', k :: ks' =>
                if ltb NN (zero NN) p
                then collect chance so me k (mul NN p reach) (go ps' ks' acc)
                else go ps' ks' acc
            | _, _ => acc
            end in
          go (row so i) kids acc
    end.

  (** [next_infoset_search]: value of a subtree up to the next own infosets, whose
      values are read from [mu] *)
  Fixpoint search (chance : list (list T)) (so : list (list T)) (me : bool)
           (mu : nat -> T) (n : node) (reach : T) (acc : T) : T :=
    match n with
    | Term x =>
        if me then add NN acc (mul NN x reach) else sub NN acc (mul NN x reach)
    | Chance ci kids =>
        let fix go (ps : list T) (ks : list node) acc {struct ks} :=
          match ps, ks with
          | p :: ps', k :: ks' => search chance so me mu k (mul NN p reach) (go ps' ks' acc)
          | _, _ => acc
          end in
        go (row chance ci) kids acc
    | Player pl i kids =>
        if Bool.eqb pl me then add NN acc (mul NN (mu i) reach)
        else
          let fix go (ps : list T) (ks : list node) acc {struct ks} :=
            match ps, ks with
            | p :: ps', k :: ks' =>
                if ltb NN (zero NN) p
                then search chance so me mu k (mul NN p reach) (go ps' ks' acc)
                else go ps' ks' acc
            | _, _ => acc
            end in
          go (row so i) kids acc
    end.

  (** value of infoset [i] given the values [mu] of later infosets *)
  Definition resolve_one (chance : list (list T)) (so : list (list T)) (me : bool)
             (nodes : list (nat * (list node * T))) (arity : nat) (mu : nat -> T) (i : nat) : T :=
    let mine := filter (fun e => Nat.eqb (fst e) i) nodes in
    match mine with
    | [] => zero NN                     (* never reached: never read either *)
    | _ =>
        let total := sum (map (fun e => snd (snd e)) mine) in
        let payoffs :=
          fold_left
            (fun pays e =>
               let '(_, (kids, p)) := e in
               map (fun pk => add NN (fst pk)
                                  (mul NN (search chance so me mu (snd pk) (one NN) (zero NN)) p))
                   (combine pays kids))
            mine (repeatT (zero NN) arity) in
        match reduce_max payoffs with
        | Some m => if ltb NN (zero NN) total then div NN m total else zero NN
        | None => zero NN
        end
    end.

  (** infosets are resolved from the last index down to 0; [resolve_from i k]
      returns the values of infosets [i .. i+k-1] *)
  Fixpoint resolve_from (chance : list (list T)) (so : list (list T)) (me : bool)
           (nodes : list (nat * (list node * T))) (ars : list nat) (i : nat) (k : nat)
    : list T :=
    match k with
    | O => []
    | S k' =>
        let rest := resolve_from chance so me nodes ars (S i) k' in
        let mu := fun j => nth (j - S i) rest (zero NN) in
        resolve_one chance so me nodes (nth i ars O) mu i :: rest
    end.

  Definition br_value (g : game) (me : bool) (so : list (list T)) : T :=
    let chance := g_chance g in
    let nodes := collect chance so me (g_root g) (one NN) [] in
    let ars := arities g me in
    let tbl := resolve_from chance so me nodes ars O (length ars) in
    search chance so me (fun j => nth j tbl (zero NN)) (g_root g) (one NN) (zero NN).

  (** [regret::regret] / [StrategiesInfo] *)
  Record sinfo := mkSinfo { si_util : T; si_reg1 : T; si_reg2 : T }.

  Definition info (g : game) (prof : list T * list T) : sinfo :=
    let s1 := split_by (fst prof) (arities g true) in
    let s2 := split_by (snd prof) (arities g false) in
    let e := expected g s1 s2 in
    let one_ := br_value g true s2 in
    let two_ := br_value g false s1 in
    mkSinfo e (fmax NN (sub NN one_ e) (zero NN)) (fmax NN (add NN two_ e) (zero NN)).

  Definition si_regret (s : sinfo) : T := fmax NN (si_reg1 s) (si_reg2 s).
  Definition si_utility (s : sinfo) (pl : bool) : T :=
    if pl then si_util s else neg NN (si_util s).
End Eval.
