(** * CliExamples: two small Gambit files run through the model of the reader. *)
From Coq Require Import Reals List Lra NArith Bool.
From Cfr.theories Require Import Num RInst Tree GameWF Strat Eval Valid Cli CliProofs
     CliNamesProofs CliGambitProofs.
Import ListNotations.
Open Scope R_scope.

Local Notation enodeR := (@enode RNum).
Local Notation gameR := (@game RNum).

(** ** A constant-sum file: one decision of player one (infoset 1, unnamed), two terminals
    with payoffs (3, 7) and (6, 4): every terminal sums to 10 *)
Definition ex_const : enodeR :=
  @EPlayer RNum true 1 None
           [(1%N, @ETerm RNum 1 (3, 7)); (2%N, @ETerm RNum 2 (6, 4))] 0 None.

Example ex_const_pairs : own_pairs ex_const = [(0 + 0 + 3, 0 + 0 + 7); (0 + 0 + 6, 0 + 0 + 4)].
Proof. reflexivity. Qed.

Example ex_const_names numname :
  final_names numname true ex_const = Some [(1%N, numname 1%N)] /\
  final_names numname false ex_const = Some [].
Proof. split; reflexivity. Qed.

(** the constant is 10/2 = 5, and the raw tree carries player one's payoffs minus 5 *)
Example ex_const_tree numname :
  @gambit_tree RNum numname ex_const =
  Loaded (@GPlayer RNum true (numname 1%N)
                   [(1%N, @GTerm RNum (0 + 0 + 3 - 10 / 2)); (2%N, @GTerm RNum (0 + 0 + 6 - 10 / 2))],
          10 / 2).
Proof.
  destruct (gambit_constant_accepted numname ex_const 10) as (n1 & n2 & H1 & H2 & H3).
  - rewrite ex_const_pairs. intros p [<-|[<-|[]]]; cbn [fst snd]; lra.
  - rewrite ex_const_pairs. discriminate.
  - exists [(1%N, numname 1%N)], []. apply ex_const_names.
  - rewrite H3. destruct (ex_const_names numname) as [E1 E2].
    rewrite E1 in H1. rewrite E2 in H2. inversion H1; inversion H2; subst. reflexivity.
Qed.

Example ex_const_load numname :
  @gambit_load RNum numname ex_const =
  Loaded (@mkGame RNum [] [mkPinfo (numname 1%N) [1%N; 2%N] None] [] [] []
                  (@Player RNum true 0
                           [@Term RNum (0 + 0 + 3 - 10 / 2); @Term RNum (0 + 0 + 6 - 10 / 2)]),
          10 / 2).
Proof. unfold gambit_load. rewrite ex_const_tree. reflexivity. Qed.

(** a file whose terminals sum to 10 and to 2 is rejected as not constant sum: here
    (max - min) * 1000 = 4000 > one_max - one_min = 3 *)
Definition ex_nonconst : enodeR :=
  @EPlayer RNum true 1 None
           [(1%N, @ETerm RNum 1 (3, 7)); (2%N, @ETerm RNum 2 (0, 2))] 0 None.

Example ex_nonconst_rejected numname :
  @gambit_load RNum numname ex_nonconst = Rejected RNotConstantSum.
Proof.
  apply gambit_load_rejected_iff; [discriminate|]. apply gambit_not_constant_sum_iff. split.
  - exists [(1%N, numname 1%N)], []. split; reflexivity.
  - eexists. split; [reflexivity|]. cbn [cs_min cs_max cs_omin cs_omax].
    rewrite !half_sum_R.
    change ((Rmax ((0 + 0 + 3 + (0 + 0 + 7)) / 2) ((0 + 0 + 0 + (0 + 0 + 2)) / 2) -
             Rmin ((0 + 0 + 3 + (0 + 0 + 7)) / 2) ((0 + 0 + 0 + (0 + 0 + 2)) / 2)) * 1000 >
            Rmax (0 + 0 + 3) (0 + 0 + 0) - Rmin (0 + 0 + 3) (0 + 0 + 0)).
    unfold Rmax, Rmin. repeat destruct (Rle_dec _ _); lra.
Qed.

(** ** Infoset 2 of player one is unnamed while infoset 1 is named with the string "2"
    (names are ranks: here the string of the number [k] has rank [k + 5], and infoset 1
    is given the name of rank 7): the duplicate-infosets diagnostic *)
Definition ex_clash : enodeR :=
  @EPlayer RNum true 1 (Some 7%N)
           [(1%N, @EPlayer RNum true 2 None
                           [(1%N, @ETerm RNum 1 (0, 0)); (2%N, @ETerm RNum 1 (0, 0))] 0 None);
            (2%N, @ETerm RNum 1 (0, 0))] 0 None.

Definition ex_numname (k : N) : N := (k + 5)%N.

Example ex_clash_names : final_names ex_numname true ex_clash = None.
Proof. reflexivity. Qed.

Example ex_clash_rejected : @gambit_load RNum ex_numname ex_clash = Rejected RDuplicateInfosets.
Proof. reflexivity. Qed.

Example ex_clash_cause : numeric_clash ex_numname true ex_clash.
Proof. exists 2%N. split; cbn; auto. Qed.

(** with another numbering of the strings the same file is accepted for its names *)
Example ex_clash_other_names :
  final_names (fun k => (k + 10)%N) true ex_clash = Some [(1%N, 7%N); (2%N, 12%N)].
Proof. reflexivity. Qed.

(** the same name written on infosets of the two players is no clash: name spaces are
    per player *)
Definition ex_two_players : enodeR :=
  @EPlayer RNum true 1 (Some 7%N)
           [(1%N, @EPlayer RNum false 1 (Some 7%N)
                           [(1%N, @ETerm RNum 1 (0, 0)); (2%N, @ETerm RNum 1 (0, 0))] 0 None);
            (2%N, @ETerm RNum 1 (0, 0))] 0 None.

Example ex_two_players_names :
  final_names ex_numname true ex_two_players = Some [(1%N, 7%N)] /\
  final_names ex_numname false ex_two_players = Some [(1%N, 7%N)].
Proof. split; reflexivity. Qed.
