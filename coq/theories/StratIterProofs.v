(** * StratIterProofs: the two iterators behind [Strategies::as_named]
    ([NamedStrategyIter], [NamedStrategyActionIter]): exactness of the advertised
    lengths at every state, and a closed form of everything they yield.

    Everything in this file is proved for an arbitrary arithmetic instance [NN : Num]
    (the iterators only use [ltb NN (zero NN)] as an opaque test), hence holds for
    the real instance and for the binary64 instance alike. *)
From Coq Require Import List NArith Bool Arith Lia.
From Cfr.theories Require Import Num Tree Strat.
Import ListNotations.

Section Iter.
  Context {NN : Num}.
  Local Notation T := (T NN).

  Definition posb (ap : N * T) : bool := ltb NN (zero NN) (snd ap).

  (** ** inner iterator *)
  Lemma data_next_none (z : list (N * T)) : data_next z = None <-> filter posb z = [].
  Proof.
    induction z as [|[a p] z IH]; cbn [data_next filter]; [tauto|].
    unfold posb at 1; cbn [snd]. destruct (ltb NN (zero NN) p); [split; discriminate|exact IH].
  Qed.

  Lemma data_next_some (z : list (N * T)) x r :
    data_next z = Some (x, r) -> filter posb z = x :: filter posb r.
  Proof.
    induction z as [|[a p] z IH]; cbn [data_next filter]; [discriminate|].
    unfold posb at 1; cbn [snd]. destruct (ltb NN (zero NN) p).
    - intros H; inversion H; subst; reflexivity.
    - exact IH.
  Qed.

  Lemma nsai_len_data (z : list (N * T)) : nsai_len (AData z) = length (filter posb z).
  Proof. reflexivity. Qed.

  Lemma nsai_next_none (it : @nsai NN) : nsai_next it = None <-> nsai_len it = 0.
  Proof.
    destruct it as [z|[a|]]; cbn [nsai_next nsai_len].
    - fold posb. destruct (data_next z) as [[x r]|] eqn:E.
      + apply data_next_some in E. rewrite E. cbn [length]. split; discriminate.
      + apply data_next_none in E. rewrite E. cbn [length]. tauto.
    - split; discriminate.
    - tauto.
  Qed.

  Lemma nsai_next_some (it : @nsai NN) x it' :
    nsai_next it = Some (x, it') -> nsai_len it = S (nsai_len it').
  Proof.
    destruct it as [z|[a|]]; cbn [nsai_next nsai_len]; [|intros H; inversion H; reflexivity|discriminate].
    fold posb. destruct (data_next z) as [[y r]|] eqn:E; [|discriminate].
    intros H; inversion H; subst. cbn [nsai_len]. fold posb.
    apply data_next_some in E. now rewrite E.
  Qed.

  (** the items yielded by the inner iterator, as a function of its state *)
  Definition nsai_items (it : nsai) : list (N * T) :=
    match it with
    | AData z => filter posb z
    | ASingle (Some a) => [(a, one NN)]
    | ASingle None => []
    end.

  Lemma nsai_items_length (it : @nsai NN) : length (nsai_items it) = nsai_len it.
  Proof. destruct it as [z|[a|]]; reflexivity. Qed.

  Lemma nsai_next_items (it : @nsai NN) :
    match nsai_next it with
    | Some (x, it') => nsai_items it = x :: nsai_items it'
    | None => nsai_items it = []
    end.
  Proof.
    destruct it as [z|[a|]]; cbn [nsai_next nsai_items]; try reflexivity.
    destruct (data_next z) as [[x r]|] eqn:E.
    - now apply data_next_some.
    - now apply data_next_none.
  Qed.

  Lemma nsai_drain_items fuel (it : @nsai NN) : nsai_len it <= fuel -> nsai_drain fuel it = nsai_items it.
  Proof.
    revert it; induction fuel as [|f IH]; intros it H.
    - rewrite <- nsai_items_length in H. destruct (nsai_items it); [reflexivity|cbn in H; lia].
    - cbn [nsai_drain]. pose proof (nsai_next_items it) as Hn.
      destruct (nsai_next it) as [[x it']|] eqn:E; [|now rewrite Hn].
      rewrite Hn. f_equal. apply IH. apply nsai_next_some in E. lia.
  Qed.

  Lemma nsai_drain_length (it : @nsai NN) : length (nsai_drain (S (nsai_len it)) it) = nsai_len it.
  Proof. rewrite nsai_drain_items by lia. apply nsai_items_length. Qed.

  (** the countdown [n; n-1; ...; 0] *)
  Fixpoint countdown (n : nat) : list nat :=
    match n with O => [O] | S k => S k :: countdown k end.

  Lemma nsai_lens_countdown fuel (it : @nsai NN) :
    nsai_len it < fuel -> nsai_lens fuel it = countdown (nsai_len it).
  Proof.
    revert it; induction fuel as [|f IH]; intros it H; [lia|].
    cbn [nsai_lens]. destruct (nsai_next it) as [[x it']|] eqn:E.
    - pose proof (nsai_next_some _ _ _ E) as Hl. rewrite Hl. cbn [countdown].
      rewrite <- Hl. f_equal. apply IH. lia.
    - apply nsai_next_none in E. rewrite E. reflexivity.
  Qed.

  (** ** outer iterator *)
  Lemma nsi_next_none (it : @nsi NN) : nsi_next it = None <-> nsi_len it = 0.
  Proof.
    destruct it as [infos probs singles]; unfold nsi_next, nsi_len; cbn [ns_info ns_singles ns_probs].
    destruct infos as [|pi r]; [|cbn [length]; split; [discriminate|lia]].
    destruct singles as [|[i a] r]; cbn [length]; [tauto|split; [discriminate|lia]].
  Qed.

  Lemma nsi_next_some (it : @nsi NN) x it' :
    nsi_next it = Some (x, it') -> nsi_len it = S (nsi_len it').
  Proof.
    destruct it as [infos probs singles]; unfold nsi_next, nsi_len; cbn [ns_info ns_singles ns_probs].
    destruct infos as [|pi r].
    - destruct singles as [|[i a] r]; [discriminate|].
      intros H; inversion H; subst; cbn [ns_info ns_singles length]. lia.
    - intros H; inversion H; subst; cbn [ns_info ns_singles length]. lia.
  Qed.

  Definition multi_item (pr : @pinfo * list T) : N * list (N * T) :=
    (pi_name (fst pr), filter posb (combine (pi_actions (fst pr)) (snd pr))).

  Definition single_item (e : N * N) : N * list (N * T) := (fst e, [(snd e, one NN)]).

  (** everything the outer iterator yields from a given state (each inner iterator drained) *)
  Definition nsi_items (it : nsi) : list (N * list (N * T)) :=
    map multi_item
        (combine (ns_info it)
                 (split_by (ns_probs it) (map (fun pi => length (pi_actions pi)) (ns_info it))))
    ++ map single_item (ns_singles it).

  Lemma split_by_len {A} (l : list A) ars : length (split_by l ars) = length ars.
  Proof. revert l; induction ars as [|a ars IH]; intros l; cbn [split_by length]; [reflexivity|now rewrite IH]. Qed.

  Lemma nsi_items_length (it : @nsi NN) : length (nsi_items it) = nsi_len it.
  Proof.
    unfold nsi_items, nsi_len. rewrite app_length, !map_length, combine_length, split_by_len, map_length.
    lia.
  Qed.

  Lemma nsi_next_items (it : @nsi NN) :
    match nsi_next it with
    | Some ((name, ai), it') => nsi_items it = (name, nsai_items ai) :: nsi_items it'
    | None => nsi_items it = []
    end.
  Proof.
    destruct it as [infos probs singles]; unfold nsi_next, nsi_items; cbn [ns_info ns_singles ns_probs].
    destruct infos as [|pi r].
    - destruct singles as [|[i a] r]; cbn [map combine split_by app ns_info ns_singles ns_probs]; reflexivity.
    - cbn [map combine split_by app ns_info ns_singles ns_probs]. reflexivity.
  Qed.

  Lemma nsi_drain_items fuel (it : @nsi NN) : nsi_len it <= fuel -> nsi_drain fuel it = nsi_items it.
  Proof.
    revert it; induction fuel as [|f IH]; intros it H.
    - rewrite <- nsi_items_length in H. destruct (nsi_items it); [reflexivity|cbn in H; lia].
    - cbn [nsi_drain]. pose proof (nsi_next_items it) as Hn.
      destruct (nsi_next it) as [[[name ai] it']|] eqn:E; [|now rewrite Hn].
      rewrite Hn. rewrite nsai_drain_items by lia. f_equal. apply IH. apply nsi_next_some in E. lia.
  Qed.

  Lemma nsi_drain_length (it : @nsi NN) : length (nsi_drain (S (nsi_len it)) it) = nsi_len it.
  Proof. rewrite nsi_drain_items by lia. apply nsi_items_length. Qed.

  (** the recorded advertised lengths: a countdown, and a countdown inside each item *)
  Fixpoint nsi_lens_spec (n : nat) (items : list (N * list (N * T))) : list (nat * list nat) :=
    match items with
    | [] => [(n, [])]
    | (_, l) :: r => (n, countdown (length l)) :: nsi_lens_spec (pred n) r
    end.

  Lemma nsi_lens_countdown fuel (it : @nsi NN) :
    nsi_len it < fuel -> nsi_lens fuel it = nsi_lens_spec (nsi_len it) (nsi_items it).
  Proof.
    revert it; induction fuel as [|f IH]; intros it H; [lia|].
    cbn [nsi_lens]. pose proof (nsi_next_items it) as Hn.
    destruct (nsi_next it) as [[[name ai] it']|] eqn:E.
    - rewrite Hn. cbn [nsi_lens_spec]. rewrite nsai_lens_countdown by lia.
      rewrite nsai_items_length. f_equal.
      pose proof (nsi_next_some _ _ _ E) as Hl. rewrite Hl. cbn [pred]. apply IH. lia.
    - rewrite Hn. reflexivity.
  Qed.

  Lemma map_fst_combine {A B} (l : list A) : forall (l' : list B),
    length l = length l' -> map fst (combine l l') = l.
  Proof.
    induction l as [|x l IH]; intros [|y l'] H; cbn [length] in H; try lia; [reflexivity|].
    cbn [combine map fst]. rewrite IH by lia. reflexivity.
  Qed.

  (** the infosets named by the items: every infoset of the player, in table order, once *)
  Lemma nsi_items_names (it : @nsi NN) :
    map fst (nsi_items it) = map pi_name (ns_info it) ++ map fst (ns_singles it).
  Proof.
    unfold nsi_items. rewrite map_app, !map_map. f_equal.
    cbn [multi_item fst]. rewrite <- map_map with (f := fst) (g := pi_name).
    rewrite map_fst_combine; [reflexivity|]. now rewrite split_by_len, map_length.
  Qed.

  (** ** [as_named] in closed form *)
  Lemma as_named_items (g : @game NN) pl (flat : list T) :
    as_named g pl flat =
    map multi_item (combine (g_infos g pl) (split_by flat (arities g pl)))
    ++ map single_item (g_singles g pl).
  Proof.
    unfold as_named. rewrite nsi_drain_items by lia. reflexivity.
  Qed.

  Lemma as_named_names (g : @game NN) pl (flat : list T) :
    map fst (as_named g pl flat) = map pi_name (g_infos g pl) ++ map fst (g_singles g pl).
  Proof. unfold as_named. rewrite nsi_drain_items by lia. apply nsi_items_names. Qed.
End Iter.
