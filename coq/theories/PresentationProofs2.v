(** * PresentationProofs2: inserting / removing transparent nodes does not change what
    [from_root] builds (property C12, second part).

    A single-outcome chance node and a single-action decision node are transparent for
    [from_root]: the compact game does not contain them.  [Transparent fr t t'] says that
    [t'] is [t] with such nodes inserted at arbitrary positions (any number, anywhere,
    also above the root and below the leaves).  The map [fr pl name] describes the names
    of the inserted decision nodes of player [pl]: [fr pl name = Some a] means that
    [name] is an inserted name, whose (only) action is [a]; [fr pl name = None] for every
    infoset name that player [pl] uses in [t].  So inserted names are fresh for the
    player, and two inserted nodes sharing a name carry the same action.

    Result: [from_root t'] fails exactly when [from_root t] fails, with the same error;
    otherwise the two compact games have the same root, chance table and infoset
    tables, and the singles tables of [t] are those of [t'] without the inserted names.
    Hence the same evaluations and the same solves. *)
From Coq Require Import Reals List Lra Lia Bool Arith NArith.
From Cfr.theories Require Import Num RInst Tree Strat Eval Solve PresentationProofs.
Import ListNotations.
Open Scope R_scope.

Local Notation gnodeR := (@gnode RNum).
Local Notation nodeR := (@node RNum).
Local Notation bstR := (@bst RNum).
Local Notation gameR := (@game RNum).
Local Notation pprev := (option (nat * nat) * option (nat * nat))%type.

(** ** Lookups in a filtered list *)
Lemma existsb_filter {A} (p q : A -> bool) (l : list A) :
  (forall x, p x = true -> q x = true) -> existsb p (filter q l) = existsb p l.
Proof.
  intros H. induction l as [|x l IH]; cbn [filter existsb]; [reflexivity|].
  destruct (q x) eqn:Eq; cbn [existsb]; [now rewrite IH|].
  destruct (p x) eqn:Ep; [|exact IH]. apply H in Ep. congruence.
Qed.

Definition lookup_single (info : N) (l : list (N * N)) : option N :=
  match find_index (fun e => N.eqb (fst e) info) l with
  | Some (_, (_, a')) => Some a'
  | None => None
  end.

Lemma lookup_single_cons info x l :
  lookup_single info (x :: l) =
  if N.eqb (fst x) info then Some (snd x) else lookup_single info l.
Proof.
  unfold lookup_single. cbn [find_index]. destruct (N.eqb (fst x) info).
  - destruct x; reflexivity.
  - destruct (find_index _ l) as [[i [n a]]|]; reflexivity.
Qed.

Lemma lookup_single_filter info (q : N * N -> bool) l :
  (forall x, N.eqb (fst x) info = true -> q x = true) ->
  lookup_single info (filter q l) = lookup_single info l.
Proof.
  intros H. induction l as [|x l IH]; cbn [filter]; [reflexivity|].
  rewrite (lookup_single_cons info x l). destruct (q x) eqn:Eq.
  - rewrite lookup_single_cons. now rewrite IH.
  - destruct (N.eqb (fst x) info) eqn:Ep; [|exact IH]. apply H in Ep. congruence.
Qed.

Lemma lookup_single_In info l a : lookup_single info l = Some a -> In (info, a) l.
Proof.
  induction l as [|x l IH]; [discriminate|]. rewrite lookup_single_cons.
  destruct (N.eqb (fst x) info) eqn:E.
  - intros [= <-]. apply N.eqb_eq in E. left. destruct x; cbn [fst snd] in *. now subst.
  - intros H. right. now apply IH.
Qed.

Lemma lookup_single_app_None info l x :
  lookup_single info l = None -> N.eqb (fst x) info = false ->
  lookup_single info (l ++ [x]) = None.
Proof.
  intros H Hx. induction l as [|y l IH]; cbn [app].
  - rewrite lookup_single_cons, Hx. reflexivity.
  - rewrite lookup_single_cons in *. destruct (N.eqb (fst y) info); [discriminate|now apply IH].
Qed.

Lemma singleP_eq {NN : Num} prev pl info a c (s : @bst NN) :
  singleP prev pl info a c s =
  if existsb (fun pi => N.eqb (pi_name pi) info) (b_infos s pl)
  then Err ActionsNotEqual
  else match lookup_single info (b_singles s pl) with
       | Some a' => if N.eqb a' a then init c prev s else Err ActionsNotEqual
       | None => init c prev (set_singles s pl (b_singles s pl ++ [(info, a)]))
       end.
Proof.
  unfold singleP, lookup_single. destruct (existsb _ _); [reflexivity|].
  destruct (find_index _ _) as [[i [n a']]|]; reflexivity.
Qed.

Section Transp.
  Context (fr : bool -> N -> option N).

  (** [t'] is [t] with transparent nodes inserted *)
  Inductive Transparent : gnodeR -> gnodeR -> Prop :=
  | Tr_Term p : Transparent (@GTerm RNum p) (@GTerm RNum p)
  | Tr_Chance info outs outs' :
      TransparentC outs outs' -> Transparent (@GChance RNum info outs) (@GChance RNum info outs')
  | Tr_Player pl info acts acts' :
      fr pl info = None -> TransparentP acts acts' ->
      Transparent (@GPlayer RNum pl info acts) (@GPlayer RNum pl info acts')
  | Tr_InsChance info w t t' :
      0 < w -> Transparent t t' -> Transparent t (@GChance RNum info [(w, t')])
  | Tr_InsPlayer pl info a t t' :
      fr pl info = Some a -> Transparent t t' -> Transparent t (@GPlayer RNum pl info [(a, t')])
  with TransparentC : list (T RNum * gnodeR) -> list (T RNum * gnodeR) -> Prop :=
  | TrC_nil : TransparentC [] []
  | TrC_cons p t t' r r' :
      Transparent t t' -> TransparentC r r' -> TransparentC ((p, t) :: r) ((p, t') :: r')
  with TransparentP : list (N * gnodeR) -> list (N * gnodeR) -> Prop :=
  | TrP_nil : TransparentP [] []
  | TrP_cons a t t' r r' :
      Transparent t t' -> TransparentP r r' -> TransparentP ((a, t) :: r) ((a, t') :: r').

  Scheme Transparent_mind := Minimality for Transparent Sort Prop
    with TransparentC_mind := Minimality for TransparentC Sort Prop
    with TransparentP_mind := Minimality for TransparentP Sort Prop.
  Combined Scheme Transparent_mutind from Transparent_mind, TransparentC_mind, TransparentP_mind.

  (** the simulation between builder states *)
  Definition keep (pl : bool) (e : N * N) : bool :=
    match fr pl (fst e) with None => true | Some _ => false end.

  Definition SimS (pl : bool) (infos : list pinfo) (l l' : list (N * N)) : Prop :=
    l = filter (keep pl) l' /\
    Forall (fun e => forall a, fr pl (fst e) = Some a -> snd e = a) l' /\
    Forall (fun pi => fr pl (pi_name pi) = None) infos.

  Definition Sim (s s' : bstR) : Prop :=
    b_chance s' = b_chance s /\
    (forall pl, b_infos s' pl = b_infos s pl) /\
    (forall pl, SimS pl (b_infos s pl) (b_singles s pl) (b_singles s' pl)).

  Lemma Sim_empty : Sim b_empty b_empty.
  Proof.
    split; [reflexivity|]. split; [reflexivity|]. intros pl.
    destruct pl; (split; [reflexivity|split; constructor]).
  Qed.

  Lemma Sim_set_chance s s' l : Sim s s' -> Sim (set_chance s l) (set_chance s' l).
  Proof.
    intros (Hc & Hi & Hs). split; [reflexivity|]. split.
    - intros pl. specialize (Hi pl). destruct pl; exact Hi.
    - intros pl. specialize (Hs pl). destruct pl; exact Hs.
  Qed.

  Lemma Sim_set_infos s s' pl l : Sim s s' ->
    Forall (fun pi => fr pl (pi_name pi) = None) l ->
    Sim (set_infos s pl l) (set_infos s' pl l).
  Proof.
    intros (Hc & Hi & Hs) Hf. split; [destruct pl; exact Hc|]. split.
    - intros pl'. pose proof (Hi pl') as Hi'.
      destruct pl, pl'; cbn [set_infos b_infos b_infos1 b_infos2] in *; congruence.
    - intros pl'. pose proof (Hs pl') as (H1 & H2 & H3).
      destruct pl, pl'; cbn [set_infos b_infos b_singles b_infos1 b_infos2 b_singles1 b_singles2] in *;
        (split; [exact H1|split; [exact H2|]]); assumption.
  Qed.

  Lemma Sim_names s s' pl : Sim s s' -> Forall (fun pi => fr pl (pi_name pi) = None) (b_infos s pl).
  Proof. intros (_ & _ & Hs). now destruct (Hs pl) as (_ & _ & H3). Qed.

  Lemma filter_app_one {A} (q : A -> bool) l x :
    filter q (l ++ [x]) = if q x then filter q l ++ [x] else filter q l.
  Proof. rewrite filter_app. cbn [filter]. destruct (q x); [reflexivity|apply app_nil_r]. Qed.

  Lemma Sim_add_both s s' pl info a : Sim s s' -> fr pl info = None ->
    Sim (set_singles s pl (b_singles s pl ++ [(info, a)]))
        (set_singles s' pl (b_singles s' pl ++ [(info, a)])).
  Proof.
    intros (Hc & Hi & Hs) Hf. split; [destruct pl; exact Hc|]. split.
    - intros pl'. specialize (Hi pl'). destruct pl, pl'; exact Hi.
    - assert (Hk : keep pl (info, a) = true) by (unfold keep; cbn [fst]; now rewrite Hf).
      intros pl'. pose proof (Hs pl') as (H1 & H2 & H3). pose proof (Hs pl) as (H1' & H2' & _).
      destruct pl, pl';
        cbn [set_singles b_infos b_singles b_infos1 b_infos2 b_singles1 b_singles2] in *;
        (split; [|split; [|exact H3]]); try assumption;
        try (rewrite filter_app_one, Hk; now f_equal);
        (apply Forall_app; split; [assumption|constructor; [|constructor]];
         cbn [fst snd]; intros a0 Ha0; congruence).
  Qed.

  Lemma Sim_add_right s s' pl info a : Sim s s' -> fr pl info = Some a ->
    Sim s (set_singles s' pl (b_singles s' pl ++ [(info, a)])).
  Proof.
    intros (Hc & Hi & Hs) Hf. split; [destruct pl; exact Hc|]. split.
    - intros pl'. specialize (Hi pl'). destruct pl, pl'; exact Hi.
    - assert (Hk : keep pl (info, a) = false) by (unfold keep; cbn [fst]; now rewrite Hf).
      intros pl'. pose proof (Hs pl') as (H1 & H2 & H3). pose proof (Hs pl) as (H1' & H2' & _).
      destruct pl, pl';
        cbn [set_singles b_infos b_singles b_infos1 b_infos2 b_singles1 b_singles2] in *;
        (split; [|split; [|exact H3]]); try assumption;
        try (rewrite filter_app_one, Hk; assumption);
        (apply Forall_app; split; [assumption|constructor; [|constructor]];
         cbn [fst snd]; intros a0 Ha0; congruence).
  Qed.

  (** a name of the original tree is looked up with the same result in both states *)
  Lemma keep_of_name pl info : fr pl info = None ->
    forall x : N * N, N.eqb (fst x) info = true -> keep pl x = true.
  Proof. intros Hf x Hx. apply N.eqb_eq in Hx. unfold keep. now rewrite Hx, Hf. Qed.

  Lemma Sim_existsb_single s s' pl info : Sim s s' -> fr pl info = None ->
    existsb (fun e => N.eqb (fst e) info) (b_singles s' pl) =
    existsb (fun e => N.eqb (fst e) info) (b_singles s pl).
  Proof.
    intros (_ & _ & Hs) Hf. destruct (Hs pl) as (H1 & _). rewrite H1.
    symmetry. apply existsb_filter. now apply keep_of_name.
  Qed.

  Lemma Sim_lookup_single s s' pl info : Sim s s' -> fr pl info = None ->
    lookup_single info (b_singles s' pl) = lookup_single info (b_singles s pl).
  Proof.
    intros (_ & _ & Hs) Hf. destruct (Hs pl) as (H1 & _). rewrite H1.
    symmetry. apply lookup_single_filter. now apply keep_of_name.
  Qed.

  (** an inserted name never clashes *)
  Lemma Sim_fresh_infos s s' pl info a : Sim s s' -> fr pl info = Some a ->
    existsb (fun pi => N.eqb (pi_name pi) info) (b_infos s' pl) = false.
  Proof.
    intros (_ & Hi & Hs) Hf. rewrite Hi. destruct (Hs pl) as (_ & _ & H3).
    destruct (existsb _ _) eqn:E; [|reflexivity].
    apply existsb_exists in E as (pi & Hin & Hn). apply N.eqb_eq in Hn.
    rewrite Forall_forall in H3. specialize (H3 pi Hin). congruence.
  Qed.

  Lemma Sim_fresh_lookup s s' pl info a a' : Sim s s' -> fr pl info = Some a ->
    lookup_single info (b_singles s' pl) = Some a' -> a' = a.
  Proof.
    intros (_ & _ & Hs) Hf Hl. destruct (Hs pl) as (_ & H2 & _).
    apply lookup_single_In in Hl. rewrite Forall_forall in H2.
    apply (H2 _ Hl). exact Hf.
  Qed.

  (** related results: same error, or same value and related states *)
  Definition RelRes {A} (r r' : res (A * bstR)) : Prop :=
    match r with
    | Err e => r' = Err e
    | Ok (x, s1) => exists s1', r' = Ok (x, s1') /\ Sim s1 s1'
    end.

  Definition TP (t t' : gnodeR) : Prop :=
    forall prev s s', Sim s s' -> RelRes (@init RNum t prev s) (@init RNum t' prev s').

  Definition acts_sim (acts acts' : list (N * gnodeR)) : Prop :=
    Forall2 (fun x y => fst y = fst x /\ TP (snd x) (snd y)) acts acts'.

  Lemma acts_sim_fst acts acts' : acts_sim acts acts' -> map fst acts' = map fst acts.
  Proof.
    induction 1 as [|x y r r' [Hf _] _ IH]; [reflexivity|]. cbn [map]. now rewrite Hf, IH.
  Qed.

  Lemma acts_sim_goP acts acts' : acts_sim acts acts' ->
    forall prev pl ind ai s s' kids, Sim s s' ->
      RelRes (goP (@init RNum) prev pl ind acts ai s kids)
             (goP (@init RNum) prev pl ind acts' ai s' kids).
  Proof.
    induction 1 as [|[a c] [a' c'] r r' [_ Hh] _ IH]; intros prev pl ind ai s s' kids HS.
    - cbn [goP RelRes]. exists s'. split; [reflexivity|exact HS].
    - cbn [goP]. cbn [snd] in Hh.
      specialize (Hh (set_prev prev pl (Some (ind, ai))) s s' HS). unfold RelRes in Hh.
      destruct (@init RNum c _ s) as [[k s1]|e].
      + destruct Hh as (s1' & -> & HS1). now apply IH.
      + rewrite Hh. reflexivity.
  Qed.

  Lemma Sim_found_info prev pl info actions s s' : Sim s s' -> fr pl info = None ->
    RelRes (found_info prev pl info actions s) (found_info prev pl info actions s').
  Proof.
    intros HS Hf. unfold found_info. pose proof HS as (_ & Hi & _). rewrite Hi.
    destruct (find_index _ (b_infos s pl)) as [[ind pi]|].
    - destruct (negb (list_eqb N.eqb (pi_actions pi) actions)); [reflexivity|].
      destruct (negb (prev_eqb (pi_prev pi) (get_prev prev pl))); [reflexivity|].
      cbn [RelRes]. exists s'. split; [reflexivity|exact HS].
    - destruct (nodupb actions); [|reflexivity].
      cbn [RelRes]. eexists. split; [reflexivity|].
      apply Sim_set_infos; [exact HS|]. apply Forall_app. split; [now apply (Sim_names s s')|].
      constructor; [exact Hf|constructor].
  Qed.

  Lemma Sim_finishC info pr ks s s' : Sim s s' ->
    RelRes (@finishC RNum info pr ks s) (@finishC RNum info pr ks s').
  Proof.
    intros HS. unfold finishC. pose proof HS as (Hc & _ & _).
    destruct ks as [|k [|k2 ks]]; [reflexivity| |].
    - cbn [RelRes]. exists s'. split; [reflexivity|exact HS].
    - rewrite Hc. destruct info as [k0|].
      + destruct (find_index (opt_key_eqb k0) (b_chance s)) as [[ind [o old]]|].
        * destruct (list_eqb (eqb RNum) old (normalise pr)); [|reflexivity].
          cbn [RelRes]. exists s'. split; [reflexivity|exact HS].
        * cbn [RelRes]. eexists. split; [reflexivity|]. now apply Sim_set_chance.
      + cbn [RelRes]. eexists. split; [reflexivity|]. now apply Sim_set_chance.
  Qed.

  Lemma transparent_all :
    (forall t t', Transparent t t' -> TP t t') /\
    (forall outs outs', TransparentC outs outs' ->
       forall prev s s' (probs : list (T RNum)) kids, Sim s s' ->
         RelRes (goC (@init RNum) prev outs s probs kids)
                (goC (@init RNum) prev outs' s' probs kids)) /\
    (forall acts acts', TransparentP acts acts' -> acts_sim acts acts').
  Proof.
    apply Transparent_mutind.
    - (* Term *)
      intros p prev s s' HS. rewrite !init_GTerm. destruct (is_fin RNum p); [|reflexivity].
      cbn [RelRes]. exists s'. split; [reflexivity|exact HS].
    - (* Chance *)
      intros info outs outs' _ IH prev s s' HS. rewrite !init_GChance.
      specialize (IH prev s s' [] [] HS). unfold RelRes in IH.
      destruct (goC (@init RNum) prev outs s [] []) as [[[pr ks] s1]|e].
      + destruct IH as (s1' & -> & HS1). now apply Sim_finishC.
      + rewrite IH. reflexivity.
    - (* Player *)
      intros pl info acts acts' Hf _ IH prev s s' HS.
      pose proof (acts_sim_fst _ _ IH) as Hn. pose proof (acts_sim_goP _ _ IH) as Hg.
      revert Hn Hg. destruct IH as [|[a c] [a' c'] r r' [Ha Hc] Hr]; [reflexivity|].
      cbn [fst snd] in Ha, Hc. subst a'.
      destruct Hr as [|y y' r r' Hy Hr]; intros Hn Hg.
      + rewrite !init_GPlayer_single, !singleP_eq.
        pose proof HS as (_ & Hi & _). rewrite Hi.
        destruct (existsb _ (b_infos s pl)); [reflexivity|].
        rewrite (Sim_lookup_single s s' pl info HS Hf).
        destruct (lookup_single info (b_singles s pl)) as [a'|].
        * destruct (N.eqb a' a); [now apply Hc|reflexivity].
        * apply Hc. now apply Sim_add_both.
      + rewrite !init_GPlayer_multi. unfold multiP. rewrite Hn.
        rewrite (Sim_existsb_single s s' pl info HS Hf).
        destruct (existsb _ (b_singles s pl)); [reflexivity|].
        pose proof (Sim_found_info prev pl info (map fst ((a, c) :: y :: r)) s s' HS Hf) as Hfi.
        unfold RelRes in Hfi.
        destruct (found_info prev pl info _ s) as [[ind s0]|e].
        * destruct Hfi as (s0' & -> & HS0).
          specialize (Hg prev pl ind O s0 s0' [] HS0). unfold RelRes in Hg.
          destruct (goP (@init RNum) prev pl ind _ 0 s0 []) as [[ks s1]|e].
          -- destruct Hg as (s1' & -> & HS1). cbn [RelRes]. exists s1'. split; [reflexivity|exact HS1].
          -- rewrite Hg. reflexivity.
        * rewrite Hfi. reflexivity.
    - (* inserted chance node *)
      intros info w t t' Hw _ IH prev s s' HS. rewrite init_GChance. cbn [goC].
      assert (Ew : ltb RNum (zero RNum) w && is_fin RNum w = true).
      { cbn [ltb zero is_fin RNum]. rewrite andb_true_r. now apply Rltb_true. }
      rewrite Ew. specialize (IH prev s s' HS). unfold RelRes in *.
      destruct (@init RNum t prev s) as [[k s1]|e].
      + destruct IH as (s1' & -> & HS1). cbn [rev app finishC].
        exists s1'. split; [reflexivity|exact HS1].
      + rewrite IH. reflexivity.
    - (* inserted decision node *)
      intros pl info a t t' Hf _ IH prev s s' HS. rewrite init_GPlayer_single, singleP_eq.
      rewrite (Sim_fresh_infos s s' pl info a HS Hf).
      destruct (lookup_single info (b_singles s' pl)) as [a'|] eqn:El.
      + rewrite (Sim_fresh_lookup s s' pl info a a' HS Hf El), N.eqb_refl. now apply IH.
      + apply IH. now apply Sim_add_right.
    - (* C nil *)
      intros prev s s' probs kids HS. cbn [goC RelRes]. exists s'. split; [reflexivity|exact HS].
    - (* C cons *)
      intros p t t' r r' _ IHt _ IHr prev s s' probs kids HS. cbn [goC].
      destruct (ltb RNum (zero RNum) p && is_fin RNum p); [|reflexivity].
      specialize (IHt prev s s' HS). unfold RelRes in IHt.
      destruct (@init RNum t prev s) as [[k s1]|e].
      + destruct IHt as (s1' & -> & HS1). now apply IHr.
      + rewrite IHt. reflexivity.
    - (* P nil *) constructor.
    - (* P cons *)
      intros a t t' r r' _ IHt _ IHr. constructor; [|exact IHr]. split; [reflexivity|exact IHt].
  Qed.
End Transp.

(** ** The statements about [from_root] *)

(** the compact games built from [t] and [t']: same root, chance table and infoset
    tables; the singles tables of [g] are those of [g'] without the inserted names *)
Definition same_but_singles (fr : bool -> N -> option N) (g g' : gameR) : Prop :=
  g_root g' = g_root g /\ g_chance g' = g_chance g /\
  g_infos1 g' = g_infos1 g /\ g_infos2 g' = g_infos2 g /\
  g_singles1 g = filter (keep fr true) (g_singles1 g') /\
  g_singles2 g = filter (keep fr false) (g_singles2 g').

Theorem transparent_init fr t t' : Transparent fr t t' ->
  forall prev s s', Sim fr s s' -> RelRes fr (@init RNum t prev s) (@init RNum t' prev s').
Proof. intros H. now apply (proj1 (transparent_all fr)). Qed.

Theorem transparent_from_root fr t t' : Transparent fr t t' ->
  match @from_root RNum t with
  | Ok g => exists g', @from_root RNum t' = Ok g' /\ same_but_singles fr g g'
  | Err e => @from_root RNum t' = Err e
  end.
Proof.
  intros H. pose proof (transparent_init fr t t' H (None, None) b_empty b_empty (Sim_empty fr)) as HR.
  unfold from_root, RelRes in *.
  destruct (@init RNum t (None, None) b_empty) as [[root s]|e].
  - destruct HR as (s' & -> & (Hc & Hi & Hs)). eexists. split; [reflexivity|].
    pose proof (Hi true) as Hi1. pose proof (Hi false) as Hi2.
    destruct (Hs true) as (Hs1 & _). destruct (Hs false) as (Hs2 & _).
    cbn [b_infos b_singles] in *.
    unfold same_but_singles.
    cbn [g_root g_chance g_infos1 g_infos2 g_singles1 g_singles2].
    rewrite Hc. repeat split; assumption.
  - rewrite HR. reflexivity.
Qed.

(** the form asked for: acceptance is preserved and only the singles tables grow *)
Corollary transparent_from_root_ok fr t t' g : Transparent fr t t' ->
  @from_root RNum t = Ok g ->
  exists g', @from_root RNum t' = Ok g' /\ g_root g' = g_root g /\ g_chance g' = g_chance g /\
             g_infos1 g' = g_infos1 g /\ g_infos2 g' = g_infos2 g.
Proof.
  intros H Hg. pose proof (transparent_from_root fr t t' H) as HR. rewrite Hg in HR.
  destruct HR as (g' & Hg' & Hr & Hc & H1 & H2 & _). exists g'. repeat split; assumption.
Qed.

(** the error direction *)
Corollary transparent_from_root_err fr t t' e : Transparent fr t t' ->
  @from_root RNum t = Err e -> @from_root RNum t' = Err e.
Proof.
  intros H Hg. pose proof (transparent_from_root fr t t' H) as HR. now rewrite Hg in HR.
Qed.

(** removal: the same two statements read from [t'] to [t] *)
Corollary transparent_from_root_ok_inv fr t t' g' : Transparent fr t t' ->
  @from_root RNum t' = Ok g' ->
  exists g, @from_root RNum t = Ok g /\ same_but_singles fr g g'.
Proof.
  intros H Hg'. pose proof (transparent_from_root fr t t' H) as HR.
  destruct (@from_root RNum t) as [g|e].
  - destruct HR as (g2 & Hg2 & HS). rewrite Hg' in Hg2. injection Hg2 as <-.
    exists g. split; [reflexivity|exact HS].
  - rewrite Hg' in HR. discriminate.
Qed.

Corollary transparent_from_root_err_inv fr t t' e : Transparent fr t t' ->
  @from_root RNum t' = Err e -> @from_root RNum t = Err e.
Proof.
  intros H Hg'. pose proof (transparent_from_root fr t t' H) as HR.
  destruct (@from_root RNum t) as [g|e0].
  - destruct HR as (g2 & Hg2 & _). rewrite Hg' in Hg2. discriminate.
  - rewrite Hg' in HR. injection HR as ->. reflexivity.
Qed.

Lemma same_but_singles_core fr g g' : same_but_singles fr g g' -> same_core g g'.
Proof. intros (Hr & Hc & H1 & H2 & _). now apply same_core_of_infos. Qed.

(** hence the same evaluations and the same solves *)
Corollary transparent_info fr t t' g : Transparent fr t t' -> @from_root RNum t = Ok g ->
  exists g', @from_root RNum t' = Ok g' /\
             forall prof, @info RNum g' prof = @info RNum g prof.
Proof.
  intros H Hg. pose proof (transparent_from_root fr t t' H) as HR. rewrite Hg in HR.
  destruct HR as (g' & Hg' & HS). exists g'. split; [exact Hg'|].
  apply info_core. now apply (same_but_singles_core fr).
Qed.

Corollary transparent_solve fr t t' g : Transparent fr t t' -> @from_root RNum t = Ok g ->
  exists g', @from_root RNum t' = Ok g' /\
             forall m draw p budget stop,
               @solve_single RNum g' m draw p budget stop = @solve_single RNum g m draw p budget stop.
Proof.
  intros H Hg. pose proof (transparent_from_root fr t t' H) as HR. rewrite Hg in HR.
  destruct HR as (g' & Hg' & HS). exists g'. split; [exact Hg'|].
  apply solve_single_core. now apply (same_but_singles_core fr).
Qed.

(** ** The same result without the auxiliary map [fr]

    [Inserted t t' L]: [t'] is [t] with transparent nodes inserted, and [L] lists the
    (player, infoset name, action) of the inserted decision nodes.  The side conditions
    of the theorem are exactly: the inserted names are not used by that player in [t],
    and two inserted nodes with the same name have the same action. *)
Fixpoint names (pl : bool) (t : gnodeR) : list N :=
  match t with
  | GTerm _ => []
  | GChance _ outs => flat_map (fun o => names pl (snd o)) outs
  | GPlayer pl' info acts =>
      (if Bool.eqb pl' pl then [info] else []) ++ flat_map (fun a => names pl (snd a)) acts
  end.

Inductive Inserted : gnodeR -> gnodeR -> list (bool * N * N) -> Prop :=
| In_Term p : Inserted (@GTerm RNum p) (@GTerm RNum p) []
| In_Chance info outs outs' L :
    InsertedC outs outs' L -> Inserted (@GChance RNum info outs) (@GChance RNum info outs') L
| In_Player pl info acts acts' L :
    InsertedP acts acts' L -> Inserted (@GPlayer RNum pl info acts) (@GPlayer RNum pl info acts') L
| In_InsChance info w t t' L :
    0 < w -> Inserted t t' L -> Inserted t (@GChance RNum info [(w, t')]) L
| In_InsPlayer pl info a t t' L :
    Inserted t t' L -> Inserted t (@GPlayer RNum pl info [(a, t')]) ((pl, info, a) :: L)
with InsertedC : list (T RNum * gnodeR) -> list (T RNum * gnodeR) -> list (bool * N * N) -> Prop :=
| InC_nil : InsertedC [] [] []
| InC_cons p t t' r r' L1 L2 :
    Inserted t t' L1 -> InsertedC r r' L2 -> InsertedC ((p, t) :: r) ((p, t') :: r') (L1 ++ L2)
with InsertedP : list (N * gnodeR) -> list (N * gnodeR) -> list (bool * N * N) -> Prop :=
| InP_nil : InsertedP [] [] []
| InP_cons a t t' r r' L1 L2 :
    Inserted t t' L1 -> InsertedP r r' L2 -> InsertedP ((a, t) :: r) ((a, t') :: r') (L1 ++ L2).

Scheme Inserted_mind := Minimality for Inserted Sort Prop
  with InsertedC_mind := Minimality for InsertedC Sort Prop
  with InsertedP_mind := Minimality for InsertedP Sort Prop.
Combined Scheme Inserted_mutind from Inserted_mind, InsertedC_mind, InsertedP_mind.

Definition fr_ok_names (fr : bool -> N -> option N) (ns : bool -> list N) : Prop :=
  forall pl n, In n (ns pl) -> fr pl n = None.
Definition fr_ok_ins (fr : bool -> N -> option N) (L : list (bool * N * N)) : Prop :=
  forall pl n a, In (pl, n, a) L -> fr pl n = Some a.

Lemma inserted_transparent_all :
  (forall t t' L, Inserted t t' L ->
     forall fr, fr_ok_names fr (fun pl => names pl t) -> fr_ok_ins fr L -> Transparent fr t t') /\
  (forall outs outs' L, InsertedC outs outs' L ->
     forall fr, fr_ok_names fr (fun pl => flat_map (fun o => names pl (snd o)) outs) ->
                fr_ok_ins fr L -> TransparentC fr outs outs') /\
  (forall acts acts' L, InsertedP acts acts' L ->
     forall fr, fr_ok_names fr (fun pl => flat_map (fun a => names pl (snd a)) acts) ->
                fr_ok_ins fr L -> TransparentP fr acts acts').
Proof.
  apply Inserted_mutind.
  - intros p fr _ _. constructor.
  - intros info outs outs' L _ IH fr Hn HL. constructor. now apply IH.
  - intros pl info acts acts' L _ IH fr Hn HL. constructor.
    + apply Hn. cbn [names]. rewrite Bool.eqb_reflx. now left.
    + apply IH; [|exact HL]. intros pl' n Hin. apply Hn. cbn [names]. apply in_or_app. now right.
  - intros info w t t' L Hw _ IH fr Hn HL. constructor; [exact Hw|now apply IH].
  - intros pl info a t t' L _ IH fr Hn HL. constructor.
    + apply HL. now left.
    + apply IH; [exact Hn|]. intros pl' n a' Hin. apply HL. now right.
  - intros fr _ _. constructor.
  - intros p t t' r r' L1 L2 _ IHt _ IHr fr Hn HL. constructor.
    + apply IHt.
      * intros pl n Hin. apply Hn. cbn [flat_map snd]. apply in_or_app. now left.
      * intros pl n a Hin. apply HL. apply in_or_app. now left.
    + apply IHr.
      * intros pl n Hin. apply Hn. cbn [flat_map snd]. apply in_or_app. now right.
      * intros pl n a Hin. apply HL. apply in_or_app. now right.
  - intros fr _ _. constructor.
  - intros a t t' r r' L1 L2 _ IHt _ IHr fr Hn HL. constructor.
    + apply IHt.
      * intros pl n Hin. apply Hn. cbn [flat_map snd]. apply in_or_app. now left.
      * intros pl n a' Hin. apply HL. apply in_or_app. now left.
    + apply IHr.
      * intros pl n Hin. apply Hn. cbn [flat_map snd]. apply in_or_app. now right.
      * intros pl n a' Hin. apply HL. apply in_or_app. now right.
Qed.

Definition fr_of (L : list (bool * N * N)) (pl : bool) (n : N) : option N :=
  match find (fun x => Bool.eqb (fst (fst x)) pl && N.eqb (snd (fst x)) n) L with
  | Some x => Some (snd x)
  | None => None
  end.

Definition fresh_for (t : gnodeR) (L : list (bool * N * N)) : Prop :=
  forall pl n a, In (pl, n, a) L -> ~ In n (names pl t).
Definition functional (L : list (bool * N * N)) : Prop :=
  forall pl n a a', In (pl, n, a) L -> In (pl, n, a') L -> a = a'.

Lemma fr_of_find L pl n (x : bool * N * N) :
  find (fun x : bool * N * N => Bool.eqb (fst (fst x)) pl && N.eqb (snd (fst x)) n) L = Some x ->
  In (pl, n, snd x) L.
Proof.
  intros H. apply find_some in H as [Hin Hx]. apply andb_true_iff in Hx as [H1 H2].
  apply eqb_prop in H1. apply N.eqb_eq in H2. destruct x as [[pl' n'] a]. cbn [fst snd] in *.
  now subst.
Qed.

Theorem inserted_transparent t t' L : Inserted t t' L -> fresh_for t L -> functional L ->
  Transparent (fr_of L) t t'.
Proof.
  intros H Hfresh Hfun. apply (proj1 inserted_transparent_all t t' L H).
  - intros pl n Hin. unfold fr_of. destruct (find _ L) as [x|] eqn:E; [|reflexivity].
    apply fr_of_find in E. exfalso. exact (Hfresh pl n (snd x) E Hin).
  - intros pl n a Hin. unfold fr_of. destruct (find _ L) as [x|] eqn:E.
    + apply fr_of_find in E. f_equal. exact (Hfun pl n (snd x) a E Hin).
    + exfalso. pose proof (find_none _ _ E _ Hin) as Hx. cbn [fst snd] in Hx.
      now rewrite Bool.eqb_reflx, N.eqb_refl in Hx.
Qed.

(** the main statement of part 3, self-contained *)
Theorem inserted_from_root t t' L : Inserted t t' L -> fresh_for t L -> functional L ->
  match @from_root RNum t with
  | Ok g => exists g', @from_root RNum t' = Ok g' /\
                       g_root g' = g_root g /\ g_chance g' = g_chance g /\
                       g_infos1 g' = g_infos1 g /\ g_infos2 g' = g_infos2 g /\
                       (forall prof, @info RNum g' prof = @info RNum g prof) /\
                       (forall m draw p budget stop,
                           @solve_single RNum g' m draw p budget stop =
                           @solve_single RNum g m draw p budget stop)
  | Err e => @from_root RNum t' = Err e
  end.
Proof.
  intros H Hfresh Hfun. pose proof (inserted_transparent t t' L H Hfresh Hfun) as HT.
  pose proof (transparent_from_root _ t t' HT) as HR.
  destruct (@from_root RNum t) as [g|e]; [|exact HR].
  destruct HR as (g' & Hg' & HS). exists g'. split; [exact Hg'|].
  pose proof (same_but_singles_core _ g g' HS) as Hcore.
  destruct HS as (Hr & Hc & H1 & H2 & _). repeat split; try assumption.
  - now apply info_core.
  - intros. now apply solve_single_core.
Qed.
