(** * Decomposition: the regret of a pure deviation is the sum of the counterfactual
    regret increments of the infosets it reaches (property C02, part 1).

    For one profile (one iteration): [regret_decomposition_iter].
    Summed over the iterations of the vanilla solve: [regret_decomposition] — the
    external regret of player [pl] against any pure strategy is the sum, over the
    infosets reachable under that strategy, of the model's [cum_regret] entries, and is
    therefore at most [T * b_pl / 2] ([external_regret_bound]). *)
From Coq Require Import Reals List Lra Lia Bool Arith NArith.
From Cfr.theories Require Import Num RInst Tree GameWF Strat Eval Solve Valid
     SolveValidProofs Incr IterChar EvalSpec CfrSpec.
Import ListNotations.
Open Scope R_scope.

Local Notation node := (@node RNum).
Local Notation game := (@game RNum).
Local Notation incr := (@incr RNum).
Local Notation oracle := (@oracle RNum).

Lemma Rsumn_lin n a F G :
  a * (Rsumn n F - Rsumn n G) = Rsumn n (fun b => a * (F b - G b)).
Proof.
  rewrite Rsumn_scal. f_equal.
  assert (E : Rsumn n (fun b => F b - G b) + Rsumn n G = Rsumn n F).
  { rewrite <- Rsumn_plus. apply Rsumn_ext. intros b _. lra. }
  lra.
Qed.

Section Decomp.
  Context (chance : list (list R)) (draw : oracle) (pass : N).
  Context (me : bool) (s1 s2 : list (list R)).
  Context (S : list (list R)) (s : nat -> nat).
  Context (H : bool -> nat -> hist) (N : nat).

  Local Notation sg := (sg_of s1 s2).
  Local Notation vv := (@vval RNum chance false draw pass sg).
  Local Notation vi := (@vincs RNum chance false draw pass sg).

  (** the profile in which [me] deviates to the pure table [S] *)
  Definition dev1 : list (list R) := if me then S else s1.
  Definition dev2 : list (list R) := if me then s2 else S.
  Local Notation Us := (u chance dev1 dev2).
  Local Notation Usig := (u chance s1 s2).

  Definition sgn : R := if me then 1 else -1.
  Definition cfwt (pc p1 p2 : R) : R := pc * (if me then p2 else p1).

  (** is the own history [h] consistent with the pure strategy [s] *)
  Definition cons_b (h : hist) : bool := forallb (fun ia => Nat.eqb (s (fst ia)) (snd ia)) h.
  Definition cons_s (h : hist) : R := if cons_b h then 1 else 0.

  Lemma cons_s_app h j b : cons_s (h ++ [(j, b)]) = cons_s h * (if Nat.eqb (s j) b then 1 else 0).
  Proof.
    unfold cons_s, cons_b. rewrite forallb_app. cbn [forallb fst snd].
    destruct (forallb _ h), (Nat.eqb (s j) b); cbn [andb]; lra.
  Qed.

  Lemma cons_s_01 h : 0 <= cons_s h <= 1.
  Proof. unfold cons_s. destruct (cons_b h); lra. Qed.

  (** the measure "sum over the infosets of [me], weighted by reachability under [s], of
      the increment of the regret of the action [s] selects" *)
  Definition nu (x : incr) : R :=
    match x with
    | IStrat _ _ _ => 0
    | IReg pl j b v =>
        if Bool.eqb pl me && Nat.ltb j N && Nat.eqb b (s j) then cons_s (H me j) * v else 0
    | IRegAll pl j v =>
        if Bool.eqb pl me && Nat.ltb j N then - (cons_s (H me j) * v) else 0
    end.

  Lemma nu_point x :
    Rsumn N (fun i => cons_s (H me i) * rd me i (s i) x) = nu x.
  Proof.
    destruct x as [pl j w|pl j b v|pl j v]; unfold rd, hits; cbn [incr_pl incr_ix rdv nu].
    - apply Rsumn_zero_ext. intros i _. destruct (_ && _); lra.
    - destruct (Bool.eqb pl me); cbn [andb]; [|apply Rsumn_zero_ext; intros; lra].
      destruct (Nat.ltb_spec j N) as [Hj|Hj]; cbn [andb].
      + rewrite (Rsumn_ext _ _ (fun i => if Nat.eqb i j
                                         then cons_s (H me i) * (if Nat.eqb b (s i) then v else 0)
                                         else 0)).
        * rewrite Rsumn_single by assumption. destruct (Nat.eqb b (s j)); lra.
        * intros i _. rewrite (Nat.eqb_sym j i). destruct (Nat.eqb i j); lra.
      + apply Rsumn_zero_ext. intros i Hi. destruct (Nat.eqb_spec j i); [lia|lra].
    - destruct (Bool.eqb pl me); cbn [andb]; [|apply Rsumn_zero_ext; intros; lra].
      destruct (Nat.ltb_spec j N) as [Hj|Hj]; cbn [andb].
      + rewrite (Rsumn_ext _ _ (fun i => if Nat.eqb i j then cons_s (H me i) * - v else 0)).
        * rewrite Rsumn_single by assumption. lra.
        * intros i _. rewrite (Nat.eqb_sym j i). destruct (Nat.eqb i j); lra.
      + apply Rsumn_zero_ext. intros i Hi. destruct (Nat.eqb_spec j i); [lia|lra].
  Qed.

  Lemma nu_msum (L : list incr) :
    Rsumn N (fun i => cons_s (H me i) * reg_delta L me i (s i)) = msum nu L.
  Proof.
    induction L as [|x L IH].
    - rewrite msum_nil. apply Rsumn_zero_ext. intros i _. unfold reg_delta. rewrite msum_nil. lra.
    - rewrite msum_cons, <- IH, <- nu_point, <- Rsumn_plus. apply Rsumn_ext. intros i _.
      unfold reg_delta. rewrite msum_cons. lra.
  Qed.

  (** what the argument needs of every node of the tree *)
  Definition OKC (ci : nat) (kids : list node) : Prop := length (rowR chance ci) = length kids.
  Definition OKP (pl : bool) (j : nat) (kids : list node) : Prop :=
    length (sg pl j) = length kids /\
    (pl = me -> (j < N)%nat /\ rowR S j = onehot (s j) (length kids) /\ (s j < length kids)%nat).

  (** perfect recall for [me], on a subtree *)
  Definition PRme (x : hentry) : Prop := let '(pl, i, h) := x in pl = me -> h = H me i.

  Lemma cfwt_own pc p1 p2 pr : cfwt pc (q1_of me p1 pr) (q2_of me p2 pr) = cfwt pc p1 p2.
  Proof. unfold cfwt, q1_of, q2_of. destruct me; reflexivity. Qed.

  Lemma cfwt_other pl pc p1 p2 pr :
    pl <> me -> cfwt pc (q1_of pl p1 pr) (q2_of pl p2 pr) = cfwt pc p1 p2 * pr.
  Proof. unfold cfwt, q1_of, q2_of. destruct me, pl; try congruence; intros _; ring. Qed.

  Lemma mult_me pc p1 p2 : (if me then pc * p2 else - p1 * pc) = sgn * cfwt pc p1 p2.
  Proof. unfold sgn, cfwt. destruct me; ring. Qed.

  Lemma vv_u : forall n, vv n = Usig n.
  Proof. intros n. apply vval_u. Qed.

  Lemma dev_me_tbl : (if me then dev1 else dev2) = S.
  Proof. unfold dev1, dev2. destruct me; reflexivity. Qed.

  Lemma dev_other_tbl pl : pl <> me -> (if pl then dev1 else dev2) = (if pl then s1 else s2).
  Proof. unfold dev1, dev2. destruct me, pl; try congruence; reflexivity. Qed.

  Definition DecP (n : node) : Prop :=
    allp OKC OKP n ->
    forall h1 h2 pc p1 p2,
      HSub PRme n h1 h2 ->
      msum nu (vi n pc p1 p2) =
      cons_s (hme me h1 h2) * (sgn * cfwt pc p1 p2 * (Us n - Usig n)).

  Lemma decomp_node n : DecP n.
  Proof.
    induction n as [x|ci kids IH|pl j kids IH] using GameWF.node_ind'; intros Hok h1 h2 pc p1 p2 HS.
    - cbn [vincs u]. rewrite msum_nil. tR. ring.
    - apply allp_Chance in Hok as [Hc Hk]. unfold OKC in Hc.
      rewrite vincs_Chance, msum_incs_chance by assumption.
      rewrite !u_Chance_n, <- !Rmult_assoc, Rsumn_lin. apply Rsumn_ext. intros b Hb.
      rewrite (Forall_nth_lt _ _ b d0 IH Hb (Forall_nth_lt _ _ b d0 Hk Hb) h1 h2 _ p1 p2
                             (HSub_Chance _ _ _ _ _ b HS Hb)).
      unfold cfwt. tR. ring.
    - apply allp_Player in Hok as [[Hl Hme] Hk].
      rewrite vincs_Player. cbv zeta.
      rewrite msum_cons, msum_app, msum_incs_player by assumption.
      rewrite msum_cons, msum_nil, exp_player_acc.
      rewrite (map_ext _ _ vv_u). cbn [zero RNum nu]. tR.
      assert (EU : dot (sg pl j) (map Usig kids) = Usig (Player pl j kids)) by reflexivity.
      rewrite EU.
      destruct (Bool.eqb_spec pl me) as [Epl|Npl].
      + (* a node of [me] *)
        subst pl. destruct (Hme eq_refl) as (HjN & Hrow & Hsj).
        pose proof (HSub_Player_here _ _ _ _ _ _ HS eq_refl) as Hh.
        change (if me then h1 else h2) with (hme me h1 h2) in Hh.
        apply Nat.ltb_lt in HjN. rewrite HjN. cbn [andb]. rewrite mult_me.
        set (K := sgn * cfwt pc p1 p2).
        set (c := cons_s (hme me h1 h2)).
        rewrite (Rsumn_ext _ _
                   (fun b => if Nat.eqb b (s j)
                             then c * (K * (Us (nth b kids d0) - Usig (nth b kids d0)))
                                  + c * (Usig (nth b kids d0) * K)
                             else 0)).
        * rewrite Rsumn_single by assumption.
          assert (EUs : Us (Player me j kids) = Us (nth (s j) kids d0)).
          { rewrite u_Player_n, dev_me_tbl. unfold prob. rewrite Hrow.
            rewrite (Rsumn_ext _ _ (fun b => if Nat.eqb b (s j) then Us (nth b kids d0) else 0)).
            - now rewrite Rsumn_single.
            - intros b _. rewrite nth_onehot by assumption. destruct (Nat.eqb b (s j)); lra. }
          rewrite EUs, <- Hh. fold c. tR. ring.
        * intros b Hb.
          rewrite (Forall_nth_lt _ _ b d0 IH Hb (Forall_nth_lt _ _ b d0 Hk Hb) _ _ pc _ _
                                 (HSub_Player_kid _ _ _ _ _ _ b HS Hb)).
          rewrite hme_ext_same, cons_s_app, cfwt_own, vv_u. cbn [Nat.add].
          rewrite <- Hh. fold c. fold K. rewrite (Nat.eqb_sym (s j) b).
          destruct (Nat.eqb b (s j)); tR; ring.
      + (* a node of the opponent *)
        cbn [andb].
        rewrite !u_Player_n, (dev_other_tbl pl Npl).
        rewrite <- !Rmult_assoc, Rsumn_lin.
        rewrite Rsumn_plus, Rsumn_zero, !Rplus_0_r, !Rplus_0_l.
        apply Rsumn_ext. intros b Hb.
        rewrite (Forall_nth_lt _ _ b d0 IH Hb (Forall_nth_lt _ _ b d0 Hk Hb) _ _ pc _ _
                               (HSub_Player_kid _ _ _ _ _ _ b HS Hb)).
        rewrite (hme_ext_other me pl j b h1 h2 Npl), (cfwt_other pl pc p1 p2 _ Npl).
        unfold prob, sg_of. tR. ring.
  Qed.
End Decomp.

(** ** The decomposition for one profile on a game *)
Definition own_of (me : bool) (s1 s2 : list (list R)) := if me then s1 else s2.
Definition opp_of (me : bool) (s1 s2 : list (list R)) := if me then s2 else s1.

(** the strategy tables have one row of the right length per infoset *)
Definition Fits (g : game) (s1 s2 : list (list R)) : Prop :=
  forall pl j, (j < ninfos g pl)%nat -> length (rowR (if pl then s1 else s2) j) = arity g pl j.

(** [H] is a witness of perfect recall *)
Definition PRwit (g : game) (H : bool -> nat -> hist) : Prop :=
  forall pl i h, In (pl, i, h) (@hists RNum (g_root g) [] []) -> h = H pl i.

(** the counterfactual-regret increment of action [a] of infoset [(pl, i)] under the
    profile [(s1, s2)]: literally what one traversal adds to [cum_regret] *)
Definition cfr_inc_of (g : game) (s1 s2 : list (list R)) (pl : bool) (i a : nat) : R :=
  reg_delta (@vincs RNum (g_chance g) false (fun _ _ _ _ => 0%nat) 0%N (sg_of s1 s2) (g_root g) 1 1 1)
            pl i a.

(** is infoset [(me, i)] reachable when [me] plays the pure strategy [s] *)
Definition reach_s (s : nat -> nat) (H : bool -> nat -> hist) (me : bool) (i : nat) : R :=
  cons_s s (H me i).

Lemma vincs_indep chance draw pass draw' pass' sg n pc p1 p2 :
  @vincs RNum chance false draw pass sg n pc p1 p2 = @vincs RNum chance false draw' pass' sg n pc p1 p2.
Proof.
  revert pc p1 p2.
  induction n as [x|ci kids IH|pl i kids IH] using GameWF.node_ind'; intros pc p1 p2; [reflexivity| |].
  - rewrite !vincs_Chance. generalize (rowR chance ci). revert pc.
    induction IH as [|k ks Hk _ IHk]; intros pc ps; destruct ps as [|p ps]; cbn [incs_chance];
      try reflexivity. now rewrite Hk, IHk.
  - rewrite !vincs_Player. cbv zeta.
    assert (EV : forall n, @vval RNum chance false draw pass sg n = @vval RNum chance false draw' pass' sg n)
      by (intros; apply vval_indep).
    f_equal. f_equal.
    + generalize (sg pl i). generalize 0%nat.
      induction IH as [|k ks Hk _ IHk]; intros ai ss; destruct ss as [|p ss]; cbn [incs_player];
        try reflexivity.
      destruct pl; rewrite Hk, IHk, EV; reflexivity.
    + f_equal. f_equal. rewrite !exp_player_acc. f_equal. f_equal. f_equal. apply map_ext. exact EV.
Qed.

Section Game.
  Context (g : game) (Hwf : @WFgame RNum g).
  Context (H : bool -> nat -> hist) (HPR : PRwit g H).

  Lemma root_ok me s1 s2 Sp s :
    Fits g s1 s2 -> IsPure g me Sp s ->
    allp (OKC (g_chance g)) (OKP me s1 s2 Sp s (ninfos g me)) (g_root g).
  Proof.
    intros HF HP. destruct Hwf as (Hsh & _).
    eapply allp_impl; [| |exact (shaped_allp g _ Hsh)].
    - intros ci kids Hc. exact Hc.
    - intros pl j kids (Hj & Hlen & _). unfold OKP. split.
      + unfold sg_of. rewrite (HF pl j Hj). now symmetry.
      + intros ->. destruct (HP j Hj) as [Hrow Hs]. rewrite Hlen. auto.
  Qed.

  Lemma root_PR me : HSub (PRme me H) (g_root g) [] [].
  Proof. intros [[pl i] h] Hin. unfold PRme. intros <-. now apply HPR. Qed.

  (** *** Theorem 1, one profile *)
  Theorem regret_decomposition_iter me s1 s2 Sp s :
    Fits g s1 s2 -> IsPure g me Sp s ->
    u_me g me Sp (opp_of me s1 s2) - u_me g me (own_of me s1 s2) (opp_of me s1 s2) =
    Rsumn (ninfos g me) (fun i => reach_s s H me i * cfr_inc_of g s1 s2 me i (s i)).
  Proof.
    intros HF HP. unfold reach_s, cfr_inc_of.
    rewrite (nu_msum me s H (ninfos g me)).
    rewrite (decomp_node (g_chance g) _ 0%N me s1 s2 Sp s H (ninfos g me) (g_root g)
                         (root_ok me s1 s2 Sp s HF HP) [] [] 1 1 1 (root_PR me)).
    unfold hme, cons_s, cons_b, cfwt, sgn, dev1, dev2, u_me, u_game, own_of, opp_of.
    destruct me; cbn [forallb]; lra.
  Qed.

  (** *** Theorem 1, summed over the iterations of the vanilla solve *)
  Context (draw : oracle).
  Let Hpos : arities_pos g := WFgame_arities_pos g Hwf.

  Lemma sigma_Fits t : Fits g (sigma_at g draw (S t) true) (sigma_at g draw (S t) false).
  Proof.
    intros pl j Hj.
    replace (if pl then sigma_at g draw (S t) true else sigma_at g draw (S t) false)
      with (sigma_at g draw (S t) pl) by (destruct pl; reflexivity).
    now apply sigma_at_length.
  Qed.

  Lemma incs_at_cfr t pl i a :
    reg_delta (incs_at g draw t) pl i a =
    cfr_inc_of g (sigma_at g draw (S t) true) (sigma_at g draw (S t) false) pl i a.
  Proof.
    unfold incs_at, cfr_inc_of. rewrite strat_view_sigma. f_equal. apply vincs_indep.
  Qed.

  (** the external regret of [pl] against the pure strategy [Sp] over [T] iterations *)
  Definition ext_regret (T : nat) (pl : bool) (Sp : list (list R)) : R :=
    Rsumn T (fun t => u_me g pl Sp (sigma_at g draw (S t) (negb pl))
                      - u_me g pl (sigma_at g draw (S t) pl) (sigma_at g draw (S t) (negb pl))).

  Theorem regret_decomposition T pl Sp s :
    IsPure g pl Sp s ->
    ext_regret T pl Sp =
    Rsumn (ninfos g pl) (fun i => reach_s s H pl i * regret_at g draw T pl i (s i)).
  Proof.
    intros HP. unfold ext_regret.
    rewrite (Rsumn_ext (ninfos g pl) _
               (fun i => Rsumn T (fun t => reach_s s H pl i
                                           * reg_delta (incs_at g draw t) pl i (s i)))).
    2:{ intros i Hi. rewrite (regret_at_sum g draw Hpos T pl i (s i) Hi (proj2 (HP i Hi))).
        now rewrite Rsumn_scal. }
    rewrite Rsumn_exchange. apply Rsumn_ext. intros t _.
    pose proof (regret_decomposition_iter pl (sigma_at g draw (S t) true) (sigma_at g draw (S t) false)
                                          Sp s (sigma_Fits t) HP) as E.
    replace (opp_of pl (sigma_at g draw (S t) true) (sigma_at g draw (S t) false))
      with (sigma_at g draw (S t) (negb pl)) in E by (destruct pl; reflexivity).
    replace (own_of pl (sigma_at g draw (S t) true) (sigma_at g draw (S t) false))
      with (sigma_at g draw (S t) pl) in E by (destruct pl; reflexivity).
    rewrite E. apply Rsumn_ext. intros i _. now rewrite incs_at_cfr.
  Qed.

  (** ... hence at most [T * b_pl / 2], [b_pl] being the bound the model returns *)
  Theorem external_regret_bound T pl Sp s :
    (1 <= T)%nat -> IsPure g pl Sp s ->
    ext_regret T pl Sp <= INR T * bound_pl g draw T pl / 2.
  Proof.
    intros HT HP. rewrite (regret_decomposition T pl Sp s HP).
    apply (bound_pl_dominates g draw Hpos T pl (fun i => reach_s s H pl i) s HT).
    intros i Hi. split; [apply cons_s_01|exact (proj2 (HP i Hi))].
  Qed.
End Game.
