(** * SolveValidProofs: invariants of the solver model (properties C05 and C10).

    - [regret_match] and [avg_strat] return probability distributions;
    - the traversals ([vrec], [erec]), [advance_all], one iteration of each method
      and the whole loop keep an invariant on the infoset state (current strategy
      a distribution, cumulative strategy non-negative, the three vectors of each
      infoset of the infoset's arity);
    - hence [solve_single] returns a valid profile, and its bounds are
      non-negative reals, absent exactly when no iteration ran;
    - the categorical sampler returns [k] exactly when the variate lies in the
      k-th cumulative-probability interval.

    Everything is about the real-number instance [RNum]. *)
From Coq Require Import Reals List Lra Lia Bool Arith NArith.
From Cfr.theories Require Import Num RInst Tree Strat Eval Solve Valid TruncProofs.
Import ListNotations.
Open Scope R_scope.

(** ** Lists of reals *)
Lemma repeatT_length (x : R) n : length (@repeatT RNum x n) = n.
Proof. induction n as [|n IH]; cbn [repeatT length]; [reflexivity|now rewrite IH]. Qed.

Lemma Rsum_repeatT (x : R) n : Rsum (@repeatT RNum x n) = INR n * x.
Proof.
  induction n as [|n IH]; [cbn [repeatT Rsum INR]; lra|].
  cbn [repeatT Rsum]. rewrite IH, S_INR. lra.
Qed.

Lemma Forall_repeatT (P : R -> Prop) x n : P x -> Forall P (@repeatT RNum x n).
Proof. intros H; induction n as [|n IH]; cbn [repeatT]; constructor; assumption. Qed.

Lemma of_N_INR (n : nat) : of_N RNum (N.of_nat n) = INR n.
Proof. cbn [of_N RNum]. now rewrite Nat2N.id. Qed.

Lemma lenT_INR (l : list R) : @lenT RNum l = INR (length l).
Proof. unfold lenT. apply of_N_INR. Qed.

Lemma INR_pos_of_ne n : n <> 0%nat -> 0 < INR n.
Proof. intros H. apply lt_0_INR. lia. Qed.

Lemma uniform_VRow n : n <> 0%nat -> VRow (@repeatT RNum (1 / INR n) n).
Proof.
  intros H. pose proof (INR_pos_of_ne n H) as Hp. split.
  - apply Forall_repeatT. unfold Rdiv. rewrite Rmult_1_l. left. now apply Rinv_0_lt_compat.
  - rewrite Rsum_repeatT. field. lra.
Qed.

Lemma VRow_nonempty r : VRow r -> length r <> 0%nat.
Proof. intros [_ Hs] E. destruct r; [cbn [Rsum] in Hs; lra|discriminate]. Qed.

Lemma Rsum_pos_nonempty (l : list R) :
  l <> [] -> Forall (fun x => 0 < x) l -> 0 < Rsum l.
Proof.
  intros Hne H. induction H as [|x l Hx Hl IH]; [congruence|].
  cbn [Rsum]. destruct l as [|y l]; [cbn [Rsum]; lra|].
  assert (0 < Rsum (y :: l)) by (apply IH; discriminate). lra.
Qed.

Lemma normalise_VRow (l : list R) :
  Forall (fun x => 0 <= x) l -> 0 < Rsum l -> VRow (map (fun x => x / Rsum l) l).
Proof.
  intros Hnn Hpos. split.
  - apply Forall_forall; intros y Hy. apply in_map_iff in Hy as (x & <- & Hx).
    rewrite Forall_forall in Hnn. specialize (Hnn x Hx).
    apply Rmult_le_pos; [assumption|]. left; now apply Rinv_0_lt_compat.
  - rewrite Rsum_map_div. unfold Rdiv. apply Rinv_r. lra.
Qed.

(** ** One-hot vectors and the arg-max / arg-min scans *)
Lemma one_hot_nonneg n i k : Forall (fun x => 0 <= x) (@one_hot_at RNum n i k).
Proof.
  revert i; induction n as [|n IH]; intros i; cbn [one_hot_at]; constructor; [|apply IH].
  destruct (Nat.eqb i k); cbn [one zero RNum]; lra.
Qed.

Lemma one_hot_length n i k : length (@one_hot_at RNum n i k) = n.
Proof. revert i; induction n as [|n IH]; intros i; cbn [one_hot_at length]; [reflexivity|now rewrite IH]. Qed.

Lemma one_hot_sum_before n i k : (k < i)%nat -> Rsum (@one_hot_at RNum n i k) = 0.
Proof.
  revert i; induction n as [|n IH]; intros i H; cbn [one_hot_at Rsum]; [reflexivity|].
  rewrite IH by lia. destruct (Nat.eqb_spec i k); [lia|]. cbn [zero RNum]. lra.
Qed.

Lemma one_hot_sum_in n i k : (i <= k < i + n)%nat -> Rsum (@one_hot_at RNum n i k) = 1.
Proof.
  revert i; induction n as [|n IH]; intros i H; [lia|]. cbn [one_hot_at Rsum].
  destruct (Nat.eqb_spec i k) as [->|Hne].
  - rewrite one_hot_sum_before by lia. cbn [one RNum]. lra.
  - rewrite IH by lia. cbn [zero RNum]. lra.
Qed.

Lemma one_hot_VRow n k : (k < n)%nat -> VRow (@one_hot_at RNum n 0 k).
Proof. intros H; split; [apply one_hot_nonneg|apply one_hot_sum_in; lia]. Qed.

Lemma argmax_last_lt (l : list R) i bi bv :
  (bi < i)%nat -> (@argmax_last RNum l i bi bv < i + length l)%nat.
Proof.
  revert i bi bv; induction l as [|v r IH]; intros i bi bv H; cbn [argmax_last length]; [lia|].
  destruct (ltb RNum v bv).
  - specialize (IH (S i) bi bv). lia.
  - specialize (IH (S i) i v). lia.
Qed.

Lemma argmin_first_lt (l : list R) i bi bv :
  (bi < i)%nat -> (@argmin_first RNum l i bi bv < i + length l)%nat.
Proof.
  revert i bi bv; induction l as [|v r IH]; intros i bi bv H; cbn [argmin_first length]; [lia|].
  destruct (ltb RNum v bv).
  - specialize (IH (S i) i v). lia.
  - specialize (IH (S i) bi bv). lia.
Qed.

(** ** [regret_match] returns a distribution (C05, clause "probabilities") *)
Lemma softmax_VRow (e : R -> R) (l : list R) :
  l <> [] -> (forall x, 0 < e x) ->
  VRow (map (fun r => e r / Rsum (map e l)) l).
Proof.
  intros Hne He.
  assert (Hpos : 0 < Rsum (map e l)).
  { apply Rsum_pos_nonempty; [destruct l; [congruence|discriminate]|].
    apply Forall_forall; intros y Hy. apply in_map_iff in Hy as (x & <- & _). apply He. }
  replace (map (fun r => e r / Rsum (map e l)) l)
    with (map (fun x => x / Rsum (map e l)) (map e l)) by (rewrite map_map; reflexivity).
  apply normalise_VRow; [|assumption].
  apply Forall_forall; intros y Hy. apply in_map_iff in Hy as (x & <- & _). left; apply He.
Qed.

Lemma regret_match_unfold (p : @params RNum) (cr : list R) :
  @regret_match RNum p cr =
  let n := length cr in
  let norm := Rsum (filter (fun v => Rltb 0 v) cr) in
  if Rltb 0 norm then map (fun r => if Rltb 0 r then r / norm else 0) cr
  else match a_nopos p with
       | PosInf => match cr with
                   | [] => []
                   | v :: r => @one_hot_at RNum n 0 (@argmax_last RNum r 1 0 v)
                   end
       | NegInf => match cr with
                   | [] => []
                   | v :: r => @one_hot_at RNum n 0 (@argmin_first RNum r 1 0 v)
                   end
       | Fin w =>
           if Reqb w 0 then @repeatT RNum (1 / INR n) n
           else
             let shift := match (if Rltb 0 w then @reduce_max RNum cr else @reduce_min RNum cr) with
                          | Some m => m
                          | None => 0
                          end in
             let e := fun r => Rtrigo_def.exp ((r - shift) * w) in
             map (fun r => e r / Rsum (map e cr)) cr
       end.
Proof.
  unfold regret_match. cbv zeta. rewrite sum_Rsum.
  change (ltb RNum) with Rltb. change (zero RNum) with 0.
  destruct (Rltb 0 _); [reflexivity|].
  destruct (a_nopos p) as [|w|]; try reflexivity.
  rewrite lenT_INR, sum_Rsum. reflexivity.
Qed.

Lemma regret_match_length (p : @params RNum) (cr : list R) :
  length (@regret_match RNum p cr) = length cr.
Proof.
  rewrite regret_match_unfold; cbv zeta.
  destruct (Rltb 0 _); [apply map_length|].
  destruct (a_nopos p) as [|w|].
  - destruct cr; [reflexivity|apply one_hot_length].
  - destruct (Reqb w 0); [apply repeatT_length|apply map_length].
  - destruct cr; [reflexivity|apply one_hot_length].
Qed.

Lemma regret_match_VRow (p : @params RNum) (cr : list R) :
  cr <> [] -> VRow (@regret_match RNum p cr).
Proof.
  intros Hne. rewrite regret_match_unfold; cbv zeta.
  destruct (Rltb 0 _) eqn:E.
  - apply Rltb_true in E. split.
    + apply Forall_forall; intros y Hy. apply in_map_iff in Hy as (x & <- & Hx).
      destruct (Rltb 0 x) eqn:Ex; [|lra]. apply Rltb_true in Ex.
      apply Rmult_le_pos; [lra|]. left; now apply Rinv_0_lt_compat.
    + rewrite Rsum_trunc. unfold Rdiv. apply Rinv_r. lra.
  - clear E. destruct (a_nopos p) as [|w|].
    + destruct cr as [|v r]; [congruence|]. apply one_hot_VRow.
      pose proof (argmin_first_lt r 1 0 v). cbn [length]. lia.
    + destruct (Reqb w 0).
      * apply uniform_VRow. destruct cr; [congruence|discriminate].
      * apply softmax_VRow; [assumption|]. intros x. apply exp_pos.
    + destruct cr as [|v r]; [congruence|]. apply one_hot_VRow.
      pose proof (argmax_last_lt r 1 0 v). cbn [length]. lia.
Qed.

(** ** [avg_strat] returns a distribution *)
Lemma avg_strat_unfold (cs : list R) :
  @avg_strat RNum cs =
  if Reqb (Rsum cs) 0 then @repeatT RNum (1 / INR (length cs)) (length cs)
  else map (fun p => p / Rsum cs) cs.
Proof. unfold avg_strat. rewrite sum_Rsum, lenT_INR. reflexivity. Qed.

Lemma avg_strat_length (cs : list R) : length (@avg_strat RNum cs) = length cs.
Proof.
  rewrite avg_strat_unfold. destruct (Reqb _ _); [apply repeatT_length|apply map_length].
Qed.

Lemma avg_strat_VRow (cs : list R) :
  cs <> [] -> Forall (fun x => 0 <= x) cs -> VRow (@avg_strat RNum cs).
Proof.
  intros Hne Hnn. rewrite avg_strat_unfold. destruct (Reqb _ _) eqn:E.
  - apply uniform_VRow. destruct cs; [congruence|discriminate].
  - apply Reqb_false in E. pose proof (Rsum_nonneg cs Hnn).
    apply normalise_VRow; [assumption|lra].
Qed.

(** ** Induction on game trees (nested through [list]) *)
Section NodeInd.
  Context (P : @node RNum -> Prop)
          (HT : forall x, P (Term x))
          (HC : forall ci kids, Forall P kids -> P (Chance ci kids))
          (HP : forall pl i kids, Forall P kids -> P (Player pl i kids)).

  Fixpoint node_ind' (n : @node RNum) : P n :=
    match n with
    | Term x => HT x
    | Chance ci kids =>
        HC ci kids ((fix go (l : list (@node RNum)) : Forall P l :=
                       match l with
                       | [] => Forall_nil P
                       | c :: r => Forall_cons c (node_ind' c) (go r)
                       end) kids)
    | Player pl i kids =>
        HP pl i kids ((fix go (l : list (@node RNum)) : Forall P l :=
                         match l with
                         | [] => Forall_nil P
                         | c :: r => Forall_cons c (node_ind' c) (go r)
                         end) kids)
    end.
End NodeInd.

(** ** The inner loops of the traversals, abstracted over the recursive call.
    The equations [vrec_*] / [erec_*] below hold by computation. *)
Local Notation nodeR := (@node RNum).
Local Notation pstateR := (@pstate RNum).
Local Notation rinfoR := (@rinfo RNum).

Section InnerLoops.
  Context (rec : nodeR -> R -> R -> R -> pstateR -> R * pstateR).

  Definition vpick (p_chance p1 p2 : R) (st : pstateR) :=
    fix pick (ks : list nodeR) (k : nat) {struct ks} : R * pstateR :=
      match ks with
      | [] => (0, st)
      | c :: r =>
          match k with
          | O => let (pay, st') := rec c (p_chance * 1) p1 p2 st in (0 + 1 * pay, st')
          | S k' => pick r k'
          end
      end.

  Definition vgo_chance (p_chance p1 p2 : R) :=
    fix go (ps : list R) (ks : list nodeR) (expected : R) (st : pstateR) {struct ks}
      : R * pstateR :=
      match ps, ks with
      | p :: ps', c :: ks' =>
          let (pay, st') := rec c (p_chance * p) p1 p2 st in
          go ps' ks' (expected + p * pay) st'
      | _, _ => (expected, st)
      end.

  Definition vgo_player (pl : bool) (i : nat) (p_chance p1 p2 mult : R) :=
    fix go (ks : list nodeR) (ss : list R) (ai : nat) (e1 e : R) (st : pstateR)
           {struct ks} : R * R * pstateR :=
      match ks, ss with
      | c :: ks', prob :: ss' =>
          let '(q1, q2) := if pl then (p1 * prob, p2) else (p1, p2 * prob) in
          let (util_one, st') := rec c p_chance q1 q2 st in
          let util := util_one * mult in
          let ri' := @ri_get RNum st' pl i in
          let cr := cum_regret ri' in
          let st'' := @ri_set RNum st' pl i
                             (@mkRinfo RNum (upd cr ai (nth ai cr 0 + util))
                                      (cum_strat ri') (strat ri')) in
          go ks' ss' (S ai) (e1 + prob * util_one) (e + util * prob) st''
      | _, _ => (e1, e, st)
      end.
End InnerLoops.

Section InnerLoopsE.
  Context (rec : nodeR -> pstateR -> R * pstateR).

  Definition epick (st : pstateR) :=
    fix pick (ks : list nodeR) (k : nat) {struct ks} : R * pstateR :=
      match ks with
      | [] => (0, st)
      | c :: r => match k with
                  | O => rec c st
                  | S k' => pick r k'
                  end
      end.

  Definition ego (pl : bool) (i : nat) :=
    fix go (ks : list nodeR) (ss : list R) (ai : nat) (e : R) (st : pstateR)
           {struct ks} : R * pstateR :=
      match ks, ss with
      | c :: ks', prob :: ss' =>
          let (util, st') := rec c st in
          let ri' := @ri_get RNum st' pl i in
          let cr := cum_regret ri' in
          go ks' ss' (S ai) (e + prob * util)
             (@ri_set RNum st' pl i (@mkRinfo RNum (upd cr ai (nth ai cr 0 + util))
                                             (cum_strat ri') (strat ri')))
      | _, _ => (e, st)
      end.
End InnerLoopsE.

Lemma vrec_Term chance sampled draw pass x pc p1 p2 st :
  @vrec RNum chance sampled draw pass (Term x) pc p1 p2 st = (x, st).
Proof. reflexivity. Qed.

Lemma vrec_Chance chance sampled draw pass ci kids pc p1 p2 st :
  @vrec RNum chance sampled draw pass (Chance ci kids) pc p1 p2 st =
  if sampled
  then vpick (@vrec RNum chance sampled draw pass) pc p1 p2 st kids
             (draw true ci pass (row chance ci))
  else vgo_chance (@vrec RNum chance sampled draw pass) pc p1 p2 (row chance ci) kids 0 st.
Proof. reflexivity. Qed.

Lemma vrec_Player chance sampled draw pass pl i kids pc p1 p2 st :
  @vrec RNum chance sampled draw pass (Player pl i kids) pc p1 p2 st =
  let ri := @ri_get RNum st pl i in
  let mine := if pl then p1 else p2 in
  let cs := map (fun vc : R * R => snd vc + mine * fst vc) (combine (strat ri) (cum_strat ri)) in
  let st0 := @ri_set RNum st pl i (@mkRinfo RNum (cum_regret ri) cs (strat ri)) in
  let mult := if pl then pc * p2 else (- p1) * pc in
  let '(e1, e, st2) := vgo_player (@vrec RNum chance sampled draw pass) pl i pc p1 p2 mult
                                  kids (strat ri) O 0 0 st0 in
  let ri2 := @ri_get RNum st2 pl i in
  (e1, @ri_set RNum st2 pl i (@mkRinfo RNum (map (fun v => v - e) (cum_regret ri2))
                                      (cum_strat ri2) (strat ri2))).
Proof. reflexivity. Qed.

Lemma erec_Term chance draw cpass ppass noff me x st :
  @erec RNum chance draw cpass ppass noff me (Term x) st = (if me then x else - x, st).
Proof. reflexivity. Qed.

Lemma erec_Chance chance draw cpass ppass noff me ci kids st :
  @erec RNum chance draw cpass ppass noff me (Chance ci kids) st =
  epick (@erec RNum chance draw cpass ppass noff me) st kids
        (draw true ci cpass (row chance ci)).
Proof. reflexivity. Qed.

Lemma erec_Player chance draw cpass ppass noff me pl i kids st :
  @erec RNum chance draw cpass ppass noff me (Player pl i kids) st =
  let ri := @ri_get RNum st pl i in
  if Bool.eqb pl me then
    let (e, st2) := ego (@erec RNum chance draw cpass ppass noff me) pl i
                        kids (strat ri) O 0 st in
    let ri2 := @ri_get RNum st2 pl i in
    (e, @ri_set RNum st2 pl i (@mkRinfo RNum (map (fun v => v - e) (cum_regret ri2))
                                       (cum_strat ri2) (strat ri2)))
  else
    let cs := map (fun vc : R * R => snd vc + fst vc) (combine (strat ri) (cum_strat ri)) in
    let st0 := @ri_set RNum st pl i (@mkRinfo RNum (cum_regret ri) cs (strat ri)) in
    epick (@erec RNum chance draw cpass ppass noff me) st0 kids
          (draw false (if pl then i else (noff + i)%nat) ppass (strat ri)).
Proof. reflexivity. Qed.

(** ** The state invariant.

    [RInvA a ri]: infoset [ri] has arity [a], its current strategy is a
    distribution and its cumulative strategy is non-negative.  [InvA a1 a2 st]
    relates a state to the two lists of arities.  Nothing is assumed about the
    game tree: an index out of range reads the default infoset (all vectors
    empty, so every inner loop stops at once) and writes nothing. *)
Definition RInvA (a : nat) (ri : rinfoR) : Prop :=
  VRow (strat ri) /\ Forall (fun x => 0 <= x) (cum_strat ri) /\
  length (cum_regret ri) = a /\ length (cum_strat ri) = a /\ length (strat ri) = a.

Definition InvA (a1 a2 : list nat) (st : pstateR) : Prop :=
  Forall2 RInvA a1 (fst st) /\ Forall2 RInvA a2 (snd st).

(** the arity-free form *)
Definition RInv (ri : rinfoR) : Prop :=
  VRow (strat ri) /\ Forall (fun x => 0 <= x) (cum_strat ri) /\
  length (cum_regret ri) = length (strat ri) /\ length (cum_strat ri) = length (strat ri) /\
  length (strat ri) <> 0%nat.

Definition Inv (st : pstateR) : Prop := Forall RInv (fst st) /\ Forall RInv (snd st).

Definition lens (l : list rinfoR) : list nat := map (fun ri => length (strat ri)) l.

Lemma RInv_RInvA ri : RInv ri <-> RInvA (length (strat ri)) ri.
Proof.
  unfold RInv, RInvA; split; [tauto|]. intros (H1 & H2 & H3 & H4 & _).
  pose proof (VRow_nonempty _ H1). tauto.
Qed.

Lemma RInvA_RInv a ri : RInvA a ri -> RInv ri /\ length (strat ri) = a.
Proof.
  intros H. assert (length (strat ri) = a) by (unfold RInvA in H; tauto).
  split; [|assumption]. apply RInv_RInvA. now subst a.
Qed.

Lemma Forall_RInv_Forall2 l : Forall RInv l <-> Forall2 RInvA (lens l) l.
Proof.
  unfold lens; split.
  - induction 1 as [|ri l H Hl IH]; cbn [map]; constructor; [now apply RInv_RInvA|assumption].
  - induction l as [|ri l IH]; cbn [map]; intros H; inversion H; subst; constructor;
      [now apply RInv_RInvA|auto].
Qed.

Lemma Forall2_RInvA_Forall a l : Forall2 RInvA a l -> Forall RInv l /\ lens l = a.
Proof.
  unfold lens. induction 1 as [|x ri a l H Hl [IH1 IH2]]; cbn [map]; [split; constructor|].
  apply RInvA_RInv in H as [H1 H2]. split; [constructor; assumption|congruence].
Qed.

Lemma Inv_InvA st : Inv st <-> InvA (lens (fst st)) (lens (snd st)) st.
Proof. unfold Inv, InvA. now rewrite !Forall_RInv_Forall2. Qed.

Lemma InvA_Inv a1 a2 st : InvA a1 a2 st -> Inv st /\ lens (fst st) = a1 /\ lens (snd st) = a2.
Proof.
  intros [H1 H2]. apply Forall2_RInvA_Forall in H1 as [H1 E1], H2 as [H2 E2].
  unfold Inv; tauto.
Qed.

(** *** reading and writing an infoset *)
Lemma Forall2_upd {A B} (Q : A -> B -> Prop) (d : B) la lb i v :
  Forall2 Q la lb -> (forall a, Q a (nth i lb d) -> Q a v) -> Forall2 Q la (upd lb i v).
Proof.
  intros H; revert i; induction H as [|a b la lb Hab H IH]; intros i Hv;
    destruct i; cbn [upd nth] in *; constructor; auto.
Qed.

Lemma Forall2_nth_or {A B} (Q : A -> B -> Prop) (d : B) la lb i :
  Forall2 Q la lb -> nth i lb d = d \/ exists a, Q a (nth i lb d).
Proof.
  intros H; revert i; induction H as [|a b la lb Hab H IH]; intros i;
    destruct i; cbn [nth]; eauto.
Qed.

Lemma upd_length {A} (l : list A) i v : length (upd l i v) = length l.
Proof.
  revert i; induction l as [|x l IH]; intros i; destruct i; cbn [upd length]; auto.
Qed.

Lemma InvA_set a1 a2 st pl i ri' :
  InvA a1 a2 st ->
  (forall a, RInvA a (@ri_get RNum st pl i) -> RInvA a ri') ->
  InvA a1 a2 (@ri_set RNum st pl i ri').
Proof.
  destruct st as [l1 l2]. unfold InvA, ri_set, ps_set, ps_get, ri_get.
  destruct pl; cbn [fst snd]; intros [H1 H2] Hv; (split; [|]); try assumption;
    eapply Forall2_upd; eauto.
Qed.

Lemma InvA_get_cases a1 a2 st pl i :
  InvA a1 a2 st ->
  @ri_get RNum st pl i = @mkRinfo RNum [] [] [] \/ exists a, RInvA a (@ri_get RNum st pl i).
Proof.
  destruct st as [l1 l2]. unfold InvA, ri_get, ps_get.
  destruct pl; cbn [fst snd]; intros [H1 H2]; eapply Forall2_nth_or; eauto.
Qed.

Lemma InvA_strat_nonneg a1 a2 st pl i :
  InvA a1 a2 st -> Forall (fun x => 0 <= x) (strat (@ri_get RNum st pl i)).
Proof.
  intros H. destruct (InvA_get_cases a1 a2 st pl i H) as [->|(a & Ha)].
  - constructor.
  - destruct Ha as [[Hnn _] _]. exact Hnn.
Qed.

(** *** the three kinds of write the traversals perform *)
Lemma RInvA_regret a ri (cr : list R) :
  length cr = length (cum_regret ri) ->
  RInvA a ri -> RInvA a (@mkRinfo RNum cr (cum_strat ri) (strat ri)).
Proof.
  unfold RInvA; cbn [strat cum_strat cum_regret]. intros E (Hv & Hnn & L1 & L2 & L3).
  split; [exact Hv|]. split; [exact Hnn|]. split; [exact (eq_trans E L1)|]. split; assumption.
Qed.

Lemma combine_map_nonneg (f : R * R -> R) (s c : list R) :
  (forall x y, 0 <= x -> 0 <= y -> 0 <= f (x, y)) ->
  Forall (fun x => 0 <= x) s -> Forall (fun x => 0 <= x) c ->
  Forall (fun x => 0 <= x) (map f (combine s c)).
Proof.
  intros Hf Hs Hc. apply Forall_forall; intros y Hy.
  apply in_map_iff in Hy as ([u v] & <- & Hin). rewrite Forall_forall in Hs, Hc.
  apply Hf; [apply Hs; eapply in_combine_l; eauto|apply Hc; eapply in_combine_r; eauto].
Qed.

Lemma RInvA_cum_strat a ri (f : R * R -> R) :
  (forall x y, 0 <= x -> 0 <= y -> 0 <= f (x, y)) ->
  RInvA a ri ->
  RInvA a (@mkRinfo RNum (cum_regret ri) (map f (combine (strat ri) (cum_strat ri))) (strat ri)).
Proof.
  unfold RInvA; cbn [strat cum_strat cum_regret]. intros Hf (Hv & Hnn & L1 & L2 & L3).
  split; [assumption|]. split; [|rewrite map_length, combine_length; lia].
  apply combine_map_nonneg; [assumption|apply Hv|assumption].
Qed.

(** ** [vrec] keeps the invariant *)
Section VrecInv.
  Context (a1 a2 : list nat).

  Definition VP (rec : nodeR -> R -> R -> R -> pstateR -> R * pstateR) (c : nodeR) : Prop :=
    forall pc p1 p2 st, 0 <= p1 -> 0 <= p2 -> InvA a1 a2 st -> InvA a1 a2 (snd (rec c pc p1 p2 st)).

  Context (rec : nodeR -> R -> R -> R -> pstateR -> R * pstateR).

  Lemma vpick_inv pc p1 p2 st ks k :
    Forall (VP rec) ks -> 0 <= p1 -> 0 <= p2 -> InvA a1 a2 st ->
    InvA a1 a2 (snd (vpick rec pc p1 p2 st ks k)).
  Proof.
    intros HK H1 H2 Hst. revert k. induction HK as [|c ks Hc HK IH]; intros k; cbn [vpick].
    - exact Hst.
    - destruct k as [|k]; [|apply IH].
      pose proof (Hc (pc * 1) p1 p2 st H1 H2 Hst) as H.
      destruct (rec c (pc * 1) p1 p2 st) as [pay st']. exact H.
  Qed.

  Lemma vgo_chance_inv pc p1 p2 ps ks ex st :
    Forall (VP rec) ks -> 0 <= p1 -> 0 <= p2 -> InvA a1 a2 st ->
    InvA a1 a2 (snd (vgo_chance rec pc p1 p2 ps ks ex st)).
  Proof.
    intros HK H1 H2. revert ps ex st.
    induction HK as [|c ks Hc HK IH]; intros ps ex st Hst; destruct ps as [|p ps];
      cbn [vgo_chance]; try exact Hst.
    pose proof (Hc (pc * p) p1 p2 st H1 H2 Hst) as H.
    destruct (rec c (pc * p) p1 p2 st) as [pay st']. apply IH. exact H.
  Qed.

  Lemma vgo_player_inv pl i pc p1 p2 mult ks ss ai e1 e st :
    Forall (VP rec) ks -> Forall (fun x => 0 <= x) ss -> 0 <= p1 -> 0 <= p2 -> InvA a1 a2 st ->
    InvA a1 a2 (snd (vgo_player rec pl i pc p1 p2 mult ks ss ai e1 e st)).
  Proof.
    intros HK Hss H1 H2. revert ss Hss ai e1 e st.
    induction HK as [|c ks Hc HK IH]; intros ss Hss ai e1 e st Hst; destruct ss as [|prob ss];
      cbn [vgo_player]; try exact Hst.
    inversion Hss as [|? ? Hprob Hss']; subst.
    set (q := if pl then (p1 * prob, p2) else (p1, p2 * prob)).
    assert (Hq : 0 <= fst q /\ 0 <= snd q).
    { unfold q; destruct pl; cbn [fst snd]; split; try assumption; now apply Rmult_le_pos. }
    destruct q as [q1 q2]; cbn [fst snd] in Hq. destruct Hq as [Hq1 Hq2].
    pose proof (Hc pc q1 q2 st Hq1 Hq2 Hst) as H.
    destruct (rec c pc q1 q2 st) as [u st']; cbn [snd] in H. cbv zeta.
    apply IH; [assumption|].
    apply InvA_set; [assumption|]. intros a. apply RInvA_regret. apply upd_length.
  Qed.
End VrecInv.

Lemma vrec_inv a1 a2 chance sampled draw pass n :
  VP a1 a2 (@vrec RNum chance sampled draw pass) n.
Proof.
  induction n as [x|ci kids IH|pl i kids IH] using node_ind'; intros pc p1 p2 st H1 H2 Hst.
  - rewrite vrec_Term. exact Hst.
  - rewrite vrec_Chance. destruct sampled; [now apply vpick_inv|now apply vgo_chance_inv].
  - rewrite vrec_Player. cbv zeta.
    set (ri := @ri_get RNum st pl i).
    set (mine := if pl then p1 else p2).
    assert (Hmine : 0 <= mine) by (unfold mine; now destruct pl).
    set (st0 := @ri_set RNum st pl i _).
    assert (Hst0 : InvA a1 a2 st0).
    { apply InvA_set; [assumption|]. intros a. fold ri.
      apply (RInvA_cum_strat a ri (fun vc : R * R => snd vc + mine * fst vc)).
      intros x y Hx Hy; cbn [fst snd]. pose proof (Rmult_le_pos _ _ Hmine Hx). lra. }
    pose proof (vgo_player_inv a1 a2 (@vrec RNum chance sampled draw pass) pl i pc p1 p2
                  (if pl then pc * p2 else - p1 * pc) kids (strat ri) O 0 0 st0 IH
                  (InvA_strat_nonneg a1 a2 st pl i Hst) H1 H2 Hst0) as H.
    destruct (vgo_player _ _ _ _ _ _ _ _ _ _ _ _ _) as [[e1 e] st2]. cbn [snd] in H |- *.
    apply InvA_set; [assumption|]. intros a. apply RInvA_regret. apply map_length.
Qed.

(** ** [erec] keeps the invariant *)
Section ErecInv.
  Context (a1 a2 : list nat).

  Definition EP (rec : nodeR -> pstateR -> R * pstateR) (c : nodeR) : Prop :=
    forall st, InvA a1 a2 st -> InvA a1 a2 (snd (rec c st)).

  Context (rec : nodeR -> pstateR -> R * pstateR).

  Lemma epick_inv st ks k :
    Forall (EP rec) ks -> InvA a1 a2 st -> InvA a1 a2 (snd (epick rec st ks k)).
  Proof.
    intros HK Hst. revert k. induction HK as [|c ks Hc HK IH]; intros k; cbn [epick].
    - exact Hst.
    - destruct k as [|k]; [now apply Hc|apply IH].
  Qed.

  Lemma ego_inv pl i ks ss ai e st :
    Forall (EP rec) ks -> InvA a1 a2 st -> InvA a1 a2 (snd (ego rec pl i ks ss ai e st)).
  Proof.
    intros HK. revert ss ai e st.
    induction HK as [|c ks Hc HK IH]; intros ss ai e st Hst; destruct ss as [|prob ss];
      cbn [ego]; try exact Hst.
    pose proof (Hc st Hst) as H. destruct (rec c st) as [u st']; cbn [snd] in H. cbv zeta.
    apply IH. apply InvA_set; [assumption|]. intros a. apply RInvA_regret. apply upd_length.
  Qed.
End ErecInv.

Lemma erec_inv a1 a2 chance draw cpass ppass noff me n :
  EP a1 a2 (@erec RNum chance draw cpass ppass noff me) n.
Proof.
  induction n as [x|ci kids IH|pl i kids IH] using node_ind'; intros st Hst.
  - rewrite erec_Term. exact Hst.
  - rewrite erec_Chance. now apply epick_inv.
  - rewrite erec_Player. cbv zeta. destruct (Bool.eqb pl me).
    + pose proof (ego_inv a1 a2 (@erec RNum chance draw cpass ppass noff me) pl i kids
                    (strat (@ri_get RNum st pl i)) O 0 st IH Hst) as H.
      destruct (ego _ _ _ _ _ _ _ _) as [e st2]. cbn [snd] in H |- *.
      apply InvA_set; [assumption|]. intros a. apply RInvA_regret. apply map_length.
    + apply epick_inv; [assumption|].
      apply InvA_set; [assumption|]. intros a.
      apply (RInvA_cum_strat a _ (fun vc : R * R => snd vc + fst vc)).
      intros x y Hx Hy; cbn [fst snd]; lra.
Qed.

(** ** [advance]: regret matching and the two discounts *)
Lemma Rpowf_nonneg x y : 0 <= Rpowf x y.
Proof.
  unfold Rpowf. destruct (Req_EM_T y 0); [lra|]. destruct (Rlt_dec 0 x); [|lra].
  unfold Rpower. left. apply exp_pos.
Qed.

Lemma discount_average_strat_length (p : @params RNum) it (avg : list R) :
  length (@discount_average_strat RNum p it avg) = length avg.
Proof.
  unfold discount_average_strat. destruct (a_strat p) as [|gm|]; [reflexivity| |apply map_length].
  destruct (ltb RNum _ _); [apply map_length|reflexivity].
Qed.

Lemma discount_average_strat_nonneg (p : @params RNum) it (avg : list R) :
  Forall (fun x => 0 <= x) avg ->
  Forall (fun x => 0 <= x) (@discount_average_strat RNum p it avg).
Proof.
  intros H. unfold discount_average_strat. destruct (a_strat p) as [|gm|]; [assumption| |].
  - destruct (ltb RNum _ _); [|assumption].
    apply Forall_forall; intros y Hy. apply in_map_iff in Hy as (x & <- & Hx).
    rewrite Forall_forall in H. specialize (H x Hx). cbn [mul pow RNum].
    apply Rmult_le_pos; [assumption|apply Rpowf_nonneg].
  - apply Forall_forall; intros y Hy. apply in_map_iff in Hy as (x & <- & Hx).
    cbn [zero RNum]; lra.
Qed.

Lemma discount_cum_regret_length (p : @params RNum) it (cr : list R) :
  length (@discount_cum_regret RNum p it cr) = length cr.
Proof. unfold discount_cum_regret. apply map_length. Qed.

Lemma RInvA_pos a ri : RInvA a ri -> a <> 0%nat.
Proof.
  intros (Hv & _ & _ & _ & L3) E. apply (VRow_nonempty _ Hv). exact (eq_trans L3 E).
Qed.

Lemma length_ne_nil {A} (l : list A) a : length l = a -> a <> 0%nat -> l <> [].
Proof. intros <- H ->. apply H; reflexivity. Qed.

Lemma advance_RInvA a (p : @params RNum) it it_avg ri :
  RInvA a ri -> RInvA a (fst (@advance RNum p it it_avg ri)).
Proof.
  intros HR. pose proof (RInvA_pos a ri HR) as Hpos.
  destruct HR as (Hv & Hnn & L1 & L2 & L3).
  unfold advance, RInvA; cbn [fst strat cum_strat cum_regret].
  assert (Hne : cum_regret ri <> []) by (eapply length_ne_nil; eauto).
  split; [now apply regret_match_VRow|].
  split; [now apply discount_average_strat_nonneg|].
  split; [exact (eq_trans (discount_cum_regret_length _ _ _) L1)|].
  split; [exact (eq_trans (discount_average_strat_length _ _ _) L2)|].
  exact (eq_trans (regret_match_length _ _) L1).
Qed.

Lemma cum_regret_bound_nonneg it (cr : list R) :
  (1 <= it)%N -> 0 <= @cum_regret_bound RNum it cr.
Proof.
  intros Hit. unfold cum_regret_bound, two. cbn [div mul add one zero fmax of_N RNum].
  set (m := match @reduce_max RNum cr with Some m => m | None => 0 end).
  assert (0 < INR (N.to_nat it)) by (apply lt_0_INR; lia).
  pose proof (Rmax_r m 0).
  apply Rmult_le_pos; [lra|]. left. now apply Rinv_0_lt_compat.
Qed.

Lemma advance_all_cons (p : @params RNum) it ia ri r (acc : R) :
  @advance_all RNum p it ia (ri :: r) acc =
  (fst (@advance RNum p it ia ri)
     :: fst (@advance_all RNum p it ia r (acc + snd (@advance RNum p it ia ri))),
   snd (@advance_all RNum p it ia r (acc + snd (@advance RNum p it ia ri)))).
Proof.
  cbn [advance_all]. unfold advance at 1. cbn [fst snd add RNum].
  destruct (advance_all _ _ _ _ _) as [r' acc']. reflexivity.
Qed.

Lemma advance_all_inv a (p : @params RNum) it ia l (acc : R) :
  Forall2 RInvA a l -> Forall2 RInvA a (fst (@advance_all RNum p it ia l acc)).
Proof.
  intros H; revert acc. induction H as [|x ri a l Hx H IH]; intros acc.
  - cbn [advance_all fst]. constructor.
  - rewrite advance_all_cons. cbn [fst]. constructor; [now apply advance_RInvA|apply IH].
Qed.

Lemma advance_all_bound (p : @params RNum) it ia l (acc : R) :
  (1 <= it)%N -> 0 <= acc -> 0 <= snd (@advance_all RNum p it ia l acc).
Proof.
  intros Hit. revert acc. induction l as [|ri l IH]; intros acc Hacc.
  - cbn [advance_all snd]. exact Hacc.
  - rewrite advance_all_cons. cbn [snd]. apply IH.
    unfold advance; cbn [snd]. pose proof (cum_regret_bound_nonneg it
      (@discount_cum_regret RNum p it (cum_regret ri)) Hit). lra.
Qed.

(** ** One iteration of each method *)
Lemma vanilla_iter_eq (g : @game RNum) sampled draw p it st :
  @vanilla_iter RNum g sampled draw p it st =
  let st1 := snd (@vrec RNum (g_chance g) sampled draw (it - 1)%N (g_root g) 1 1 1 st) in
  let A1 := @advance_all RNum p it it (fst st1) 0 in
  let A2 := @advance_all RNum p it it (snd st1) 0 in
  ((fst A1, fst A2), (snd A1, snd A2)).
Proof.
  unfold vanilla_iter. cbn [one zero RNum].
  destruct (vrec _ _ _ _ _ _ _ _ _) as [x st1]. cbn [snd].
  destruct (advance_all p it it (fst st1) 0), (advance_all p it it (snd st1) 0). reflexivity.
Qed.

Lemma external_iter_eq (g : @game RNum) draw p it st :
  @external_iter RNum g draw p it st =
  let noff := length (g_infos1 g) in
  let st1 := snd (@erec RNum (g_chance g) draw (2 * (it - 1))%N (it - 1)%N noff true (g_root g) st) in
  let A1 := @advance_all RNum p it (it - 1)%N (fst st1) 0 in
  let st2 := (fst A1, snd st1) in
  let st3 := snd (@erec RNum (g_chance g) draw (2 * (it - 1) + 1)%N it noff false (g_root g) st2) in
  let A2 := @advance_all RNum p it it (snd st3) 0 in
  ((fst st3, fst A2), (snd A1, snd A2)).
Proof.
  unfold external_iter. cbn [one zero RNum]. cbv zeta.
  destruct (erec _ _ _ _ _ true _ _) as [x st1]. cbn [snd].
  destruct (advance_all p it (it - 1)%N (fst st1) 0) as [l1 r1]. cbn [fst snd].
  destruct (erec _ _ _ _ _ false _ _) as [y st3]. cbn [snd].
  destruct (advance_all p it it (snd st3) 0). reflexivity.
Qed.

Lemma one_iter_inv a1 a2 (g : @game RNum) m draw p it st :
  InvA a1 a2 st -> InvA a1 a2 (fst (@one_iter RNum g m draw p it st)).
Proof.
  intros Hst.
  assert (HV : forall sampled, InvA a1 a2 (fst (@vanilla_iter RNum g sampled draw p it st))).
  { intros sampled. rewrite vanilla_iter_eq. cbv zeta. cbn [fst].
    pose proof (vrec_inv a1 a2 (g_chance g) sampled draw (it - 1)%N (g_root g) 1 1 1 st
                  ltac:(lra) ltac:(lra) Hst) as [H1 H2].
    split; cbn [fst snd]; now apply advance_all_inv. }
  destruct m; cbn [one_iter]; [apply HV|apply HV|].
  rewrite external_iter_eq. cbv zeta. cbn [fst].
  pose proof (erec_inv a1 a2 (g_chance g) draw (2 * (it - 1))%N (it - 1)%N (length (g_infos1 g))
                true (g_root g) st Hst) as [H1 H2].
  set (st1 := snd (erec _ _ _ _ _ true _ _)) in *.
  set (A1 := advance_all p it (it - 1)%N (fst st1) 0).
  assert (Hst2 : InvA a1 a2 (fst A1, snd st1)).
  { split; cbn [fst snd]; [now apply advance_all_inv|assumption]. }
  pose proof (erec_inv a1 a2 (g_chance g) draw (2 * (it - 1) + 1)%N it (length (g_infos1 g))
                false (g_root g) _ Hst2) as [H3 H4].
  split; cbn [fst snd]; [assumption|now apply advance_all_inv].
Qed.

Lemma one_iter_bounds (g : @game RNum) m draw p it st :
  (1 <= it)%N ->
  0 <= fst (snd (@one_iter RNum g m draw p it st)) /\
  0 <= snd (snd (@one_iter RNum g m draw p it st)).
Proof.
  intros Hit.
  destruct m; cbn [one_iter]; rewrite ?vanilla_iter_eq, ?external_iter_eq; cbv zeta;
    cbn [fst snd]; split; apply advance_all_bound; try assumption; lra.
Qed.

(** ** The loop *)
Lemma solve_loop_inv a1 a2 (g : @game RNum) m draw p stop rem it st regs ran :
  InvA a1 a2 st ->
  InvA a1 a2 (fst (fst (@solve_loop RNum g m draw p stop rem it st regs ran))).
Proof.
  revert it st regs ran. induction rem as [|r IH]; intros it st regs ran Hst; cbn [solve_loop].
  - exact Hst.
  - pose proof (one_iter_inv a1 a2 g m draw p it st Hst) as H.
    destruct (one_iter g m draw p it st) as [st' [r1 r2]]. cbn [fst] in H.
    destruct (stop _); [exact H|now apply IH].
Qed.

Definition bounds_ok (regs : option (R * R)) : Prop :=
  exists b1 b2, regs = Some (b1, b2) /\ 0 <= b1 /\ 0 <= b2.

Lemma solve_loop_shape (g : @game RNum) m draw p stop rem it st regs ran :
  (1 <= it)%N ->
  let res := @solve_loop RNum g m draw p stop rem it st regs ran in
  match rem with
  | O => snd (fst res) = regs /\ snd res = ran
  | S _ => bounds_ok (snd (fst res)) /\ (it <= snd res < it + N.of_nat rem)%N
  end.
Proof.
  revert it st regs ran. induction rem as [|r IH]; intros it st regs ran Hit; cbv zeta.
  - cbn [solve_loop fst snd]. split; reflexivity.
  - cbn [solve_loop].
    pose proof (one_iter_bounds g m draw p it st Hit) as [Hb1 Hb2].
    destruct (one_iter g m draw p it st) as [st' [r1 r2]]. cbn [fst snd] in Hb1, Hb2.
    destruct (stop _).
    + cbn [fst snd]. split; [exists r1, r2; auto|lia].
    + specialize (IH (it + 1)%N st' (Some (r1, r2)) it ltac:(lia)). cbv zeta in IH.
      destruct r as [|r'].
      * destruct IH as [-> ->]. split; [exists r1, r2; auto|lia].
      * destruct IH as [Hb Hr]. split; [exact Hb|lia].
Qed.

(** without early termination every budgeted iteration runs *)
Lemma solve_loop_no_stop (g : @game RNum) m draw p stop rem it st regs ran :
  (forall b, stop b = false) ->
  snd (@solve_loop RNum g m draw p stop rem it st regs ran) =
  match rem with O => ran | S r => (it + N.of_nat r)%N end.
Proof.
  intros Hs. revert it st regs ran. induction rem as [|r IH]; intros it st regs ran.
  - reflexivity.
  - cbn [solve_loop]. destruct (one_iter g m draw p it st) as [st' [r1 r2]].
    rewrite Hs, IH. destruct r; lia.
Qed.

(** ** Initial state and final strategies *)
Lemma rinfo_new_RInvA n : n <> 0%nat -> RInvA n (@rinfo_new RNum n).
Proof.
  intros H. unfold rinfo_new, RInvA; cbn [strat cum_strat cum_regret].
  rewrite of_N_INR. rewrite !repeatT_length.
  split; [now apply uniform_VRow|]. split; [|auto].
  apply Forall_repeatT. cbn [zero RNum]; lra.
Qed.

Lemma init_infos_inv (infos : list pinfo) :
  Forall (fun a => (1 <= a)%nat) (map (fun pi => length (pi_actions pi)) infos) ->
  Forall2 RInvA (map (fun pi => length (pi_actions pi)) infos)
          (map (fun pi => @rinfo_new RNum (length (pi_actions pi))) infos).
Proof.
  induction infos as [|pi l IH]; cbn [map]; intros H; [constructor|].
  inversion H; subst. constructor; [apply rinfo_new_RInvA; lia|auto].
Qed.

Definition arities_pos (g : @game RNum) : Prop :=
  forall pl, Forall (fun a => (1 <= a)%nat) (arities g pl).

Lemma init_state_inv (g : @game RNum) :
  arities_pos g -> InvA (arities g true) (arities g false) (@init_state RNum g).
Proof.
  intros H. split; cbn [init_state fst snd]; apply init_infos_inv; [apply (H true)|apply (H false)].
Qed.

Lemma length_concat_nsum {A} (rows : list (list A)) :
  length (concat rows) = nsum (map (@length A) rows).
Proof.
  induction rows as [|r rows IH]; cbn [concat map nsum fold_right]; [reflexivity|].
  rewrite app_length, IH. reflexivity.
Qed.

Lemma final_rows ars (l : list rinfoR) :
  Forall2 RInvA ars l ->
  map (@length R) (map (fun ri => @avg_strat RNum (cum_strat ri)) l) = ars /\
  Forall VRow (map (fun ri => @avg_strat RNum (cum_strat ri)) l).
Proof.
  induction 1 as [|a ri ars l Ha H [IH1 IH2]]; cbn [map]; [split; constructor|].
  pose proof (RInvA_pos a ri Ha) as Hpos.
  destruct Ha as (Hv & Hnn & L1 & L2 & L3). split.
  - f_equal; [|exact IH1]. exact (eq_trans (avg_strat_length _) L2).
  - constructor; [|assumption]. apply avg_strat_VRow; [|assumption].
    eapply length_ne_nil; eauto.
Qed.

Lemma final_flat ars (l : list rinfoR) :
  Forall2 RInvA ars l ->
  VFlat ars (concat (map (fun ri => @avg_strat RNum (cum_strat ri)) l)).
Proof.
  intros H. destruct (final_rows ars l H) as [E HV]. unfold VFlat.
  rewrite <- E. split; [apply length_concat_nsum|].
  rewrite split_by_concat. exact HV.
Qed.

Lemma final_strats_valid (g : @game RNum) st :
  InvA (arities g true) (arities g false) st -> Valid g (@final_strats RNum st).
Proof.
  intros [H1 H2]. split; cbn [final_strats fst snd]; now apply final_flat.
Qed.

(** the rows of the returned profile are the normalised cumulative strategies *)
Lemma solve_single_valid (g : @game RNum) m draw p budget stop :
  arities_pos g ->
  Valid g (fst (fst (@solve_single RNum g m draw p budget stop))).
Proof.
  intros Hg. unfold solve_single.
  pose proof (solve_loop_inv _ _ g m draw p stop budget 1%N _ None 0%N (init_state_inv g Hg)) as H.
  destruct (solve_loop _ _ _ _ _ _ _ _ _ _) as [[st regs] ran]. cbn [fst] in H |- *.
  now apply final_strats_valid.
Qed.

Lemma solve_single_shape (g : @game RNum) m draw p budget stop :
  let res := @solve_single RNum g m draw p budget stop in
  let bounds := snd (fst res) in
  let ran := snd res in
  (bounds = None <-> budget = 0%nat) /\
  (forall b1 b2, bounds = Some (b1, b2) -> 0 <= b1 /\ 0 <= b2) /\
  (ran <= N.of_nat budget)%N /\
  (ran = 0%N <-> budget = 0%nat).
Proof.
  cbv zeta. unfold solve_single.
  pose proof (solve_loop_shape g m draw p stop budget 1%N (@init_state RNum g) None 0%N
                ltac:(lia)) as H. cbv zeta in H.
  destruct (solve_loop _ _ _ _ _ _ _ _ _ _) as [[st regs] ran]. cbn [fst snd] in H |- *.
  destruct budget as [|b].
  - destruct H as [-> ->]. cbn [N.of_nat].
    split; [tauto|]. split; [intros ? ?; discriminate|]. split; [lia|tauto].
  - destruct H as [(b1 & b2 & -> & Hb1 & Hb2) Hr].
    split; [split; discriminate|].
    split; [intros c1 c2 E; inversion E; subst; auto|].
    split; [lia|]. split; [lia|discriminate].
Qed.

Lemma solve_single_no_stop (g : @game RNum) m draw p budget stop :
  (forall b, stop b = false) ->
  snd (@solve_single RNum g m draw p budget stop) = N.of_nat budget.
Proof.
  intros Hs. unfold solve_single.
  pose proof (solve_loop_no_stop g m draw p stop budget 1%N (@init_state RNum g) None 0%N Hs) as H.
  destruct (solve_loop _ _ _ _ _ _ _ _ _ _) as [[st regs] ran]. cbn [snd] in H |- *.
  rewrite H. destruct budget; lia.
Qed.

(** ** The arity-free invariant [Inv] (corollaries of the [InvA] results) *)
Lemma Inv_of_InvA a1 a2 st : InvA a1 a2 st -> Inv st.
Proof. intros H. now apply InvA_Inv in H. Qed.

Lemma Inv_init (g : @game RNum) : arities_pos g -> Inv (@init_state RNum g).
Proof. intros H. eapply Inv_of_InvA. now apply init_state_inv. Qed.

Lemma Inv_vrec chance sampled draw pass n pc p1 p2 st :
  0 <= p1 -> 0 <= p2 -> Inv st -> Inv (snd (@vrec RNum chance sampled draw pass n pc p1 p2 st)).
Proof.
  intros H1 H2 H. apply Inv_InvA in H. eapply Inv_of_InvA.
  exact (vrec_inv _ _ chance sampled draw pass n pc p1 p2 st H1 H2 H).
Qed.

Lemma Inv_erec chance draw cpass ppass noff me n st :
  Inv st -> Inv (snd (@erec RNum chance draw cpass ppass noff me n st)).
Proof.
  intros H. apply Inv_InvA in H. eapply Inv_of_InvA.
  exact (erec_inv _ _ chance draw cpass ppass noff me n st H).
Qed.

Lemma Inv_advance_all (p : @params RNum) it ia l (acc : R) :
  Forall RInv l -> Forall RInv (fst (@advance_all RNum p it ia l acc)).
Proof.
  intros H. apply Forall_RInv_Forall2 in H.
  eapply (advance_all_inv _ p it ia l acc) in H. now apply Forall2_RInvA_Forall in H.
Qed.

Lemma Inv_one_iter (g : @game RNum) m draw p it st :
  Inv st -> Inv (fst (@one_iter RNum g m draw p it st)).
Proof. intros H. apply Inv_InvA in H. eapply Inv_of_InvA. apply one_iter_inv. exact H. Qed.

Lemma Inv_solve_loop (g : @game RNum) m draw p stop rem it st regs ran :
  Inv st -> Inv (fst (fst (@solve_loop RNum g m draw p stop rem it st regs ran))).
Proof. intros H. apply Inv_InvA in H. eapply Inv_of_InvA. apply solve_loop_inv. exact H. Qed.

(** the traversals and the loop never change the shape of the state *)
Lemma lens_solve_loop (g : @game RNum) m draw p stop rem it st regs ran :
  Inv st ->
  let st' := fst (fst (@solve_loop RNum g m draw p stop rem it st regs ran)) in
  lens (fst st') = lens (fst st) /\ lens (snd st') = lens (snd st).
Proof.
  intros H. apply Inv_InvA in H.
  apply (solve_loop_inv _ _ g m draw p stop rem it st regs ran) in H.
  apply InvA_Inv in H. cbv zeta. tauto.
Qed.

(** ** The categorical sampler (C10, last clause) *)
Definition cumul (probs : list R) (k : nat) : R := Rsum (firstn k probs).

Lemma cumul_0 probs : cumul probs 0 = 0.
Proof. reflexivity. Qed.

Lemma cumul_S probs k :
  (k < length probs)%nat -> cumul probs (S k) = cumul probs k + nth k probs 0.
Proof.
  unfold cumul. revert k; induction probs as [|x l IH]; intros k Hk; cbn [length] in Hk; [lia|].
  destruct k as [|k].
  - cbn [firstn Rsum nth]. lra.
  - change (firstn (S (S k)) (x :: l)) with (x :: firstn (S k) l).
    change (firstn (S k) (x :: l)) with (x :: firstn k l).
    cbn [Rsum nth]. rewrite IH by lia. lra.
Qed.

Lemma cumul_all probs : cumul probs (length probs) = Rsum probs.
Proof. unfold cumul. now rewrite firstn_all. Qed.

Lemma Forall_firstn {A} (P : A -> Prop) n (l : list A) : Forall P l -> Forall P (firstn n l).
Proof.
  intros H; revert n; induction H as [|x l Hx H IH]; intros n; destruct n; cbn [firstn];
    constructor; auto.
Qed.

Lemma cumul_mono probs i j :
  Forall (fun x => 0 <= x) probs -> (i <= j)%nat -> cumul probs i <= cumul probs j.
Proof.
  unfold cumul. intros H; revert i j; induction H as [|x l Hx H IH]; intros i j Hij.
  - rewrite !firstn_nil. lra.
  - destruct i as [|i].
    + cbn [firstn Rsum]. apply Rsum_nonneg. apply Forall_firstn. now constructor.
    + destruct j as [|j]; [lia|]. cbn [firstn Rsum]. specialize (IH i j ltac:(lia)). lra.
Qed.

Lemma cat_loop_range (init : list R) (rem : R) res :
  (res <= @cat_loop RNum init rem res <= res + length init)%nat.
Proof.
  revert rem res; induction init as [|v r IH]; intros rem res; cbn [cat_loop length]; [lia|].
  destruct (ltb RNum v rem); [|lia]. specialize (IH (sub RNum rem v) (S res)). lia.
Qed.

(** the loop returns [res + k] exactly when the first [k] entries were each
    strictly below the mass remaining on their turn, and entry [k] (if any) was not *)
Lemma cat_loop_spec (init : list R) (rem : R) (res k : nat) :
  @cat_loop RNum init rem res = (res + k)%nat <->
  (k <= length init)%nat /\
  (forall j, (j < k)%nat -> nth j init 0 < rem - Rsum (firstn j init)) /\
  (k = length init \/ rem - Rsum (firstn k init) <= nth k init 0).
Proof.
  revert rem res k; induction init as [|v r IH]; intros rem res k.
  - cbn [cat_loop length]. split.
    + intros H. assert (k = 0%nat) by lia. subst k.
      split; [lia|]. split; [intros j Hj; lia|now left].
    + intros (H & _). lia.
  - cbn [cat_loop]. change (ltb RNum v rem) with (Rltb v rem). change (sub RNum rem v) with (rem - v).
    destruct (Rltb v rem) eqn:E.
    + apply Rltb_true in E. destruct k as [|k].
      * split.
        -- intros H. pose proof (cat_loop_range r (rem - v) (S res)). lia.
        -- intros (_ & _ & [Hk|Hk]); [cbn [length] in Hk; lia|].
           cbn [firstn Rsum nth] in Hk. lra.
      * replace (res + S k)%nat with (S res + k)%nat by lia. rewrite IH. cbn [length].
        split; intros (H1 & H2 & H3); (split; [lia|]); split.
        -- intros j Hj. destruct j as [|j]; cbn [firstn Rsum nth]; [lra|].
           specialize (H2 j ltac:(lia)). lra.
        -- destruct H3 as [H3|H3]; [left; lia|right]. cbn [firstn Rsum nth]. lra.
        -- intros j Hj. specialize (H2 (S j) ltac:(lia)). cbn [firstn Rsum nth] in H2. lra.
        -- destruct H3 as [H3|H3]; [left; lia|right]. cbn [firstn Rsum nth] in H3. lra.
    + apply Rltb_false in E. destruct k as [|k].
      * split; [intros _|intros _; lia]. split; [lia|]. split; [intros j Hj; lia|right].
        cbn [firstn Rsum nth]. lra.
      * split; [intros H; lia|]. intros (_ & H2 & _). specialize (H2 0%nat ltac:(lia)).
        cbn [firstn Rsum nth] in H2. lra.
Qed.

Lemma nth_firstn_lt {A} (l : list A) m j d : (j < m)%nat -> nth j (firstn m l) d = nth j l d.
Proof.
  revert m j; induction l as [|x l IH]; intros m j H; [now rewrite firstn_nil|].
  destruct m as [|m]; [lia|]. destruct j as [|j]; cbn [firstn nth]; [reflexivity|].
  apply IH; lia.
Qed.

Lemma removelast_length {A} (l : list A) : length (removelast l) = (length l - 1)%nat.
Proof. rewrite removelast_firstn_len, firstn_length. lia. Qed.

Lemma removelast_nth {A} (l : list A) j d :
  (j < length l - 1)%nat -> nth j (removelast l) d = nth j l d.
Proof. intros H. rewrite removelast_firstn_len. apply nth_firstn_lt. lia. Qed.

Lemma removelast_firstn_le {A} (l : list A) j :
  (j <= length l - 1)%nat -> firstn j (removelast l) = firstn j l.
Proof.
  intros H. rewrite removelast_firstn_len, firstn_firstn. f_equal. lia.
Qed.

(** general form: no assumption on the entries *)
Lemma categorical_spec_general (probs : list R) (u : R) (k : nat) :
  probs <> [] ->
  (@categorical RNum probs u = k <->
   (k <= length probs - 1)%nat /\
   (forall j, (j < k)%nat -> cumul probs (S j) < u) /\
   (k = (length probs - 1)%nat \/ u <= cumul probs (S k))).
Proof.
  intros Hne. assert (Hlen : (1 <= length probs)%nat) by (destruct probs; [congruence|cbn [length]; lia]).
  unfold categorical. rewrite (cat_loop_spec (removelast probs) u 0 k).
  rewrite removelast_length.
  split; intros (H1 & H2 & H3); (split; [exact H1|]); split.
  - intros j Hj. specialize (H2 j Hj).
    rewrite removelast_nth, removelast_firstn_le in H2 by lia.
    rewrite cumul_S by lia. unfold cumul. lra.
  - destruct (Nat.eq_dec k (length probs - 1)) as [Hk|Hk]; [now left|right].
    destruct H3 as [H3|H3]; [contradiction|].
    rewrite removelast_nth, removelast_firstn_le in H3 by lia.
    rewrite cumul_S by lia. unfold cumul. lra.
  - intros j Hj. specialize (H2 j Hj). rewrite cumul_S in H2 by lia. unfold cumul in H2.
    rewrite removelast_nth, removelast_firstn_le by lia. lra.
  - destruct (Nat.eq_dec k (length probs - 1)) as [Hk|Hk]; [now left|right].
    destruct H3 as [H3|H3]; [contradiction|].
    rewrite cumul_S in H3 by lia. unfold cumul in H3.
    rewrite removelast_nth, removelast_firstn_le by lia. lra.
Qed.

(** non-negative entries: the partial sums are monotone, so "all earlier partial
    sums are below [u]" is "the last one is" *)
Lemma categorical_spec (probs : list R) (u : R) (k : nat) :
  probs <> [] -> Forall (fun x => 0 <= x) probs ->
  (@categorical RNum probs u = k <->
   (k <= length probs - 1)%nat /\
   (k = 0%nat \/ cumul probs k < u) /\
   (k = (length probs - 1)%nat \/ u <= cumul probs (S k))).
Proof.
  intros Hne Hnn. rewrite (categorical_spec_general probs u k Hne).
  split; intros (H1 & H2 & H3); (split; [exact H1|]); (split; [|exact H3]).
  - destruct k as [|k]; [now left|right]. apply H2. lia.
  - intros j Hj. destruct H2 as [H2|H2]; [lia|].
    pose proof (cumul_mono probs (S j) k Hnn ltac:(lia)). lra.
Qed.

Lemma categorical_range (probs : list R) (u : R) :
  probs <> [] -> (@categorical RNum probs u < length probs)%nat.
Proof.
  intros Hne. unfold categorical. change (T RNum) with R.
  pose proof (cat_loop_range (removelast probs) u 0) as H. rewrite removelast_length in H.
  destruct probs; [congruence|cbn [length] in *; lia].
Qed.

(** for a distribution and a variate in (0, 1]: exactly the k-th interval *)
Lemma categorical_interval (probs : list R) (u : R) (k : nat) :
  VRow probs -> 0 < u <= 1 ->
  (@categorical RNum probs u = k <->
   (k < length probs)%nat /\ cumul probs k < u <= cumul probs (S k)).
Proof.
  intros [Hnn Hs] Hu.
  assert (Hne : probs <> []) by (intros ->; cbn [Rsum] in Hs; lra).
  assert (Hlen : (1 <= length probs)%nat) by (destruct probs; [congruence|cbn [length]; lia]).
  rewrite (categorical_spec probs u k Hne Hnn).
  split.
  - intros (H1 & H2 & H3). split; [lia|]. split.
    + destruct H2 as [->|H2]; [rewrite cumul_0; lra|exact H2].
    + destruct H3 as [->|H3]; [|exact H3].
      replace (S (length probs - 1)) with (length probs) by lia. rewrite cumul_all. lra.
  - intros (H1 & H2 & H3). split; [lia|]. split; [now right|now right].
Qed.

(** a variate at (or below) zero selects the first entry, whatever its probability *)
Lemma categorical_at_zero (probs : list R) (u : R) :
  probs <> [] -> Forall (fun x => 0 <= x) probs -> u <= 0 -> @categorical RNum probs u = 0%nat.
Proof.
  intros Hne Hnn Hu. apply (categorical_spec probs u 0 Hne Hnn).
  split; [lia|]. split; [now left|right].
  pose proof (cumul_mono probs 0 1 Hnn ltac:(lia)). rewrite cumul_0 in H. lra.
Qed.

(** ** [Inv] spelled out, and worked examples used by the property files *)
Lemma Inv_unfold st :
  Inv st <->
  forall ri, In ri (fst st ++ snd st) ->
    VRow (strat ri) /\ Forall (fun x => 0 <= x) (cum_strat ri) /\
    length (cum_regret ri) = length (strat ri) /\
    length (cum_strat ri) = length (strat ri) /\
    length (strat ri) <> 0%nat.
Proof.
  unfold Inv. rewrite !Forall_forall. unfold RInv. split.
  - intros [H1 H2] ri Hin. apply in_app_iff in Hin as [Hin|Hin]; auto.
  - intros H; split; intros ri Hin; apply H; apply in_app_iff; auto.
Qed.

(** evaluating the sampler on a concrete row *)
Lemma cat_step_lt (v rem : R) (r : list R) res :
  v < rem -> @cat_loop RNum (v :: r) rem res = @cat_loop RNum r (rem - v) (S res).
Proof.
  intros H. cbn [cat_loop]. change (ltb RNum v rem) with (Rltb v rem).
  apply Rltb_true in H. rewrite H. reflexivity.
Qed.

Lemma cat_step_ge (v rem : R) (r : list R) res :
  rem <= v -> @cat_loop RNum (v :: r) rem res = res.
Proof.
  intros H. cbn [cat_loop]. change (ltb RNum v rem) with (Rltb v rem).
  apply Rltb_false in H. rewrite H. reflexivity.
Qed.

Lemma cat_step_nil (rem : R) res : @cat_loop RNum [] rem res = res.
Proof. reflexivity. Qed.

(** matching pennies, for the non-vacuity examples *)
Definition mp_game : @game RNum :=
  @mkGame RNum [] [mkPinfo 0 [0%N; 1%N] None] [mkPinfo 0 [0%N; 1%N] None] [] []
          (@Player RNum true 0
             [@Player RNum false 0 [@Term RNum 1; @Term RNum (-1)];
              @Player RNum false 0 [@Term RNum (-1); @Term RNum 1]]).

