(** * ExtIncr: the external-sampling traversal [erec] as a pure value plus a list of
    atomic increments.

    One pass of [recurse_regret::<FIRST>] never changes the current strategies
    ([strat]) of any infoset: it only reads them and adds to [cum_regret] (active
    player) and [cum_strat] (external player).  So the value returned by a pass and
    the list of increments it performs are pure functions of the strategies at the
    start of the pass ([eval], [eincs]); the final state is the fold of the
    increments over the start state ([erec_incs]).  Increments commute over the
    reals ([e_apply_incr_comm]), hence any permutation of them gives the same state
    ([e_apply_perm]).

    The traversal is written once, generically in the events it emits ([etr]):
    [eincs] (increments) and [evisits] (active infosets entered) are instances.

    Names are prefixed [e_]/[E_] so that this file can coexist with [Incr.v]. *)
From Coq Require Import Reals List Lra Lia Bool Arith NArith Permutation.
From Cfr.theories Require Import Num RInst Tree GameWF Strat Eval Solve SolveValidProofs.
Import ListNotations.

Local Notation nodeR := (@node RNum).
Local Notation pstateR := (@pstate RNum).
Local Notation rinfoR := (@rinfo RNum).
Local Notation oracleR := (@oracle RNum).

(** ** Atomic increments *)
Inductive e_incr :=
| E_IStrat (pl : bool) (i : nat)                 (* cum_strat[i] += strat[i] *)
| E_IReg (pl : bool) (i a : nat) (x : R)         (* cum_regret[i][a] += x *)
| E_IRegAll (pl : bool) (i : nat) (x : R).       (* every cell of cum_regret[i] -= x *)

Definition e_ri_strat (ri : rinfoR) : rinfoR :=
  @mkRinfo RNum (cum_regret ri)
           (map (fun vc : R * R => (snd vc + fst vc)%R) (combine (strat ri) (cum_strat ri)))
           (strat ri).
Definition e_ri_reg (a : nat) (x : R) (ri : rinfoR) : rinfoR :=
  @mkRinfo RNum (upd (cum_regret ri) a (nth a (cum_regret ri) 0%R + x)%R)
           (cum_strat ri) (strat ri).
Definition e_ri_regall (x : R) (ri : rinfoR) : rinfoR :=
  @mkRinfo RNum (map (fun v : R => (v - x)%R) (cum_regret ri)) (cum_strat ri) (strat ri).

Definition e_modify (st : pstateR) (pl : bool) (i : nat) (f : rinfoR -> rinfoR) : pstateR :=
  @ri_set RNum st pl i (f (@ri_get RNum st pl i)).

Definition e_cell (inc : e_incr) : bool * nat :=
  match inc with
  | E_IStrat pl i => (pl, i) | E_IReg pl i _ _ => (pl, i) | E_IRegAll pl i _ => (pl, i)
  end.
Definition e_fun (inc : e_incr) : rinfoR -> rinfoR :=
  match inc with
  | E_IStrat _ _ => e_ri_strat | E_IReg _ _ a x => e_ri_reg a x | E_IRegAll _ _ x => e_ri_regall x
  end.

Definition e_apply_incr (st : pstateR) (inc : e_incr) : pstateR :=
  e_modify st (fst (e_cell inc)) (snd (e_cell inc)) (e_fun inc).

(** the strategies a pass reads *)
Definition e_strat_view (st : pstateR) : bool -> nat -> list R :=
  fun pl i => strat (@ri_get RNum st pl i).

(** ** [upd] *)
Lemma e_upd_oob {A} (l : list A) i v : (length l <= i)%nat -> upd l i v = l.
Proof.
  revert i; induction l as [|x l IH]; intros [|i] H; cbn [upd length] in *; try reflexivity; try lia.
  f_equal. apply IH. lia.
Qed.

Lemma e_nth_upd_same {A} (l : list A) i v d : (i < length l)%nat -> nth i (upd l i v) d = v.
Proof.
  revert i; induction l as [|x l IH]; intros [|i] H; cbn [upd length nth] in *; try reflexivity; try lia.
  apply IH. lia.
Qed.

Lemma e_nth_upd_other {A} (l : list A) i j v d : i <> j -> nth j (upd l i v) d = nth j l d.
Proof.
  revert i j; induction l as [|x l IH]; intros [|i] [|j] H; cbn [upd nth]; try reflexivity; try congruence.
  apply IH. congruence.
Qed.

Lemma e_upd_upd_same {A} (l : list A) i v w : upd (upd l i v) i w = upd l i w.
Proof.
  revert i; induction l as [|x l IH]; intros [|i]; cbn [upd]; try reflexivity. f_equal. apply IH.
Qed.

Lemma e_upd_upd_comm {A} (l : list A) i j v w :
  i <> j -> upd (upd l i v) j w = upd (upd l j w) i v.
Proof.
  revert i j; induction l as [|x l IH]; intros [|i] [|j] H; cbn [upd]; try reflexivity; try congruence.
  f_equal. apply IH. congruence.
Qed.

(** modifying cell [i] of a list with a function of its old content *)
Definition e_lmod {A} (d : A) (l : list A) (i : nat) (f : A -> A) : list A :=
  upd l i (f (nth i l d)).

Lemma e_lmod_comm_ne {A} (d : A) l i j f g :
  i <> j -> e_lmod d (e_lmod d l i f) j g = e_lmod d (e_lmod d l j g) i f.
Proof.
  intros H. unfold e_lmod.
  rewrite (e_nth_upd_other l i j), (e_nth_upd_other l j i) by congruence.
  now apply e_upd_upd_comm.
Qed.

Lemma e_lmod_comm_eq {A} (d : A) l i f g :
  (forall x, f (g x) = g (f x)) ->
  e_lmod d (e_lmod d l i f) i g = e_lmod d (e_lmod d l i g) i f.
Proof.
  intros H. unfold e_lmod. destruct (Nat.lt_ge_cases i (length l)) as [Hi|Hi].
  - rewrite !e_nth_upd_same, !e_upd_upd_same by assumption. now rewrite H.
  - repeat rewrite (e_upd_oob l i) by assumption. reflexivity.
Qed.

Lemma e_lmod_nth_inv {A B} (d : A) (pr : A -> B) l i j f :
  (forall x, pr (f x) = pr x) -> pr (nth j (e_lmod d l i f) d) = pr (nth j l d).
Proof.
  intros H. unfold e_lmod. destruct (Nat.eq_dec i j) as [<-|Hij].
  - destruct (Nat.lt_ge_cases i (length l)) as [Hi|Hi].
    + rewrite e_nth_upd_same by assumption. apply H.
    + now rewrite e_upd_oob.
  - now rewrite e_nth_upd_other.
Qed.

Lemma e_modify_lmod (st : pstateR) pl i f :
  e_modify st pl i f =
  if pl then (e_lmod (@mkRinfo RNum [] [] []) (fst st) i f, snd st)
  else (fst st, e_lmod (@mkRinfo RNum [] [] []) (snd st) i f).
Proof. destruct st as [l1 l2], pl; reflexivity. Qed.

Lemma e_modify_comm (st : pstateR) pl i f pl' i' g :
  (pl = pl' -> i = i' -> forall x, f (g x) = g (f x)) ->
  e_modify (e_modify st pl i f) pl' i' g = e_modify (e_modify st pl' i' g) pl i f.
Proof.
  intros H. rewrite !e_modify_lmod. destruct st as [l1 l2].
  destruct pl, pl'; cbn [fst snd]; try reflexivity.
  - f_equal. destruct (Nat.eq_dec i i') as [<-|Hne].
    + symmetry. apply e_lmod_comm_eq. intros x. symmetry. now apply H.
    + now apply e_lmod_comm_ne.
  - f_equal. destruct (Nat.eq_dec i i') as [<-|Hne].
    + symmetry. apply e_lmod_comm_eq. intros x. symmetry. now apply H.
    + now apply e_lmod_comm_ne.
Qed.

Lemma e_modify_strat (st : pstateR) pl i f pl' i' :
  (forall ri, strat (f ri) = strat ri) ->
  strat (@ri_get RNum (e_modify st pl i f) pl' i') = strat (@ri_get RNum st pl' i').
Proof.
  intros H. rewrite e_modify_lmod. destruct st as [l1 l2].
  unfold ri_get, ps_get. destruct pl, pl'; cbn [fst snd]; try reflexivity;
    now apply (e_lmod_nth_inv (@mkRinfo RNum [] [] []) (@strat RNum)).
Qed.

(** ** The increments commute (over the reals) *)
Lemma e_reg_reg (cr : list R) a b x y :
  upd (upd cr a (nth a cr 0 + x)) b (nth b (upd cr a (nth a cr 0 + x)) 0 + y) =
  upd (upd cr b (nth b cr 0 + y)) a (nth a (upd cr b (nth b cr 0 + y)) 0 + x).
Proof.
  revert a b; induction cr as [|v r IH]; intros [|a] [|b]; cbn [upd nth]; try reflexivity.
  - f_equal. lra.
  - f_equal. apply IH.
Qed.

Lemma e_reg_regall (cr : list R) a x y :
  upd (map (fun v : R => v - y) cr) a (nth a (map (fun v : R => v - y) cr) 0 + x) =
  map (fun v : R => v - y) (upd cr a (nth a cr 0 + x)).
Proof.
  revert a; induction cr as [|v r IH]; intros [|a]; cbn [upd nth map]; try reflexivity.
  - f_equal. lra.
  - f_equal. apply IH.
Qed.

Lemma e_fun_comm (a b : e_incr) (ri : rinfoR) : e_fun a (e_fun b ri) = e_fun b (e_fun a ri).
Proof.
  destruct ri as [cr cs s].
  destruct a as [pa ia|pa ia aa xa|pa ia xa], b as [pb ib|pb ib ab xb|pb ib xb];
    cbn [e_fun]; unfold e_ri_strat, e_ri_reg, e_ri_regall; cbn [cum_regret cum_strat strat];
    try reflexivity; f_equal.
  - apply e_reg_reg.
  - first [apply e_reg_regall | symmetry; apply e_reg_regall].
  - first [apply e_reg_regall | symmetry; apply e_reg_regall].
  - rewrite !map_map. apply map_ext. intros v. lra.
Qed.

Lemma e_apply_incr_comm (a b : e_incr) (st : pstateR) :
  e_apply_incr (e_apply_incr st a) b = e_apply_incr (e_apply_incr st b) a.
Proof.
  unfold e_apply_incr. apply e_modify_comm. intros _ _ x. apply e_fun_comm.
Qed.

Lemma e_apply_perm (l l' : list e_incr) :
  Permutation l l' -> forall st, fold_left e_apply_incr l st = fold_left e_apply_incr l' st.
Proof.
  induction 1 as [|x l l' HP IH|x y l|l l' l'' H1 IH1 H2 IH2]; intros st; cbn [fold_left].
  - reflexivity.
  - apply IH.
  - now rewrite e_apply_incr_comm.
  - now rewrite IH1.
Qed.

(** increments never touch the current strategies *)
Lemma e_fun_strat inc ri : strat (e_fun inc ri) = strat ri.
Proof. destruct inc; reflexivity. Qed.

Lemma e_apply_incr_strat inc st pl i :
  e_strat_view (e_apply_incr st inc) pl i = e_strat_view st pl i.
Proof. unfold e_strat_view, e_apply_incr. apply e_modify_strat. apply e_fun_strat. Qed.

Lemma e_fold_strat l st pl i :
  e_strat_view (fold_left e_apply_incr l st) pl i = e_strat_view st pl i.
Proof.
  revert st; induction l as [|inc l IH]; intros st; cbn [fold_left]; [reflexivity|].
  now rewrite IH, e_apply_incr_strat.
Qed.

(** ** Inner loops, abstracted over the recursive call (guard-friendly) *)
Definition pickf {A} (f : nodeR -> A) (d : A) : list nodeR -> nat -> A :=
  fix pick (ks : list nodeR) (k : nat) {struct ks} : A :=
    match ks with
    | [] => d
    | c :: r => match k with O => f c | S k' => pick r k' end
    end.

Lemma pickf_nth {A} (f : nodeR -> A) d ks k :
  pickf f d ks k = match nth_error ks k with Some c => f c | None => d end.
Proof.
  revert k; induction ks as [|c r IH]; intros [|k]; cbn [pickf nth_error]; try reflexivity.
  apply IH.
Qed.

Lemma epick_pickf (rec : nodeR -> pstateR -> R * pstateR) st ks k :
  epick rec st ks k = pickf (fun c => rec c st) (0%R, st) ks k.
Proof.
  revert k; induction ks as [|c r IH]; intros [|k]; cbn [epick pickf]; try reflexivity; try apply IH.
Qed.

(** the loop of [ActiveInfo::recurse]: value, events, state-threading form *)
Definition goval (f : nat -> nodeR -> R) : list nodeR -> list R -> nat -> R -> R :=
  fix go (ks : list nodeR) (ss : list R) (a : nat) (e : R) {struct ks} : R :=
    match ks, ss with
    | c :: ks', p :: ss' => go ks' ss' (S a) (e + p * f a c)%R
    | _, _ => e
    end.

Definition gotr {E} (f : nat -> nodeR -> list E) : list nodeR -> list R -> nat -> list E :=
  fix go (ks : list nodeR) (ss : list R) (a : nat) {struct ks} : list E :=
    match ks, ss with
    | c :: ks', _ :: ss' => f a c ++ go ks' ss' (S a)
    | _, _ => []
    end.

Definition egoi (rec : nat -> nodeR -> pstateR -> R * pstateR) (pl : bool) (i : nat) :=
  fix go (ks : list nodeR) (ss : list R) (ai : nat) (e : R) (st : pstateR) {struct ks}
    : R * pstateR :=
    match ks, ss with
    | c :: ks', prob :: ss' =>
        let (util, st') := rec ai c st in
        go ks' ss' (S ai) (e + prob * util)%R (e_apply_incr st' (E_IReg pl i ai util))
    | _, _ => (e, st)
    end.

Lemma ego_egoi (rec : nodeR -> pstateR -> R * pstateR) pl i ks ss ai e st :
  ego rec pl i ks ss ai e st = egoi (fun _ => rec) pl i ks ss ai e st.
Proof.
  revert ss ai e st; induction ks as [|c ks IH]; intros [|p ss] ai e st; cbn [ego egoi]; try reflexivity;
    try (destruct (rec c st) as [u st']; apply IH).
Qed.

Lemma goval_ext f g ks ss a e :
  (forall j c, nth_error ks j = Some c -> f (a + j)%nat c = g (a + j)%nat c) ->
  goval f ks ss a e = goval g ks ss a e.
Proof.
  revert ss a e; induction ks as [|c ks IH]; intros [|p ss] a e H; cbn [goval]; try reflexivity.
  pose proof (H O c eq_refl) as H0. rewrite Nat.add_0_r in H0. rewrite H0.
  apply IH. intros j c' Hj. specialize (H (S j) c' Hj). now rewrite Nat.add_succ_r in H.
Qed.

Lemma gotr_ext {E} (f g : nat -> nodeR -> list E) ks ss a :
  (forall j c, nth_error ks j = Some c -> f (a + j)%nat c = g (a + j)%nat c) ->
  gotr f ks ss a = gotr g ks ss a.
Proof.
  revert ss a; induction ks as [|c ks IH]; intros [|p ss] a H; cbn [gotr]; try reflexivity.
  pose proof (H O c eq_refl) as H0. rewrite Nat.add_0_r in H0. rewrite H0. f_equal.
  apply IH. intros j c' Hj. specialize (H (S j) c' Hj). now rewrite Nat.add_succ_r in H.
Qed.

Lemma gotr_In {E} (f : nat -> nodeR -> list E) ks ss a x :
  In x (gotr f ks ss a) <->
  exists j c, nth_error ks j = Some c /\ (j < length ss)%nat /\ In x (f (a + j)%nat c).
Proof.
  revert ss a; induction ks as [|c ks IH]; intros [|p ss] a; cbn [gotr].
  - split; [easy|]. intros (j & c & Hj & _). destruct j; discriminate.
  - split; [easy|]. intros (j & c & Hj & _). destruct j; discriminate.
  - split; [easy|]. intros (j & c' & _ & Hl & _). cbn in Hl. lia.
  - rewrite in_app_iff, IH. split.
    + intros [H|(j & c' & Hj & Hl & Hx)].
      * exists O, c. rewrite Nat.add_0_r. cbn [nth_error length]. repeat split; auto. lia.
      * exists (S j), c'. rewrite Nat.add_succ_r. cbn [nth_error length]. repeat split; auto. lia.
    + intros (j & c' & Hj & Hl & Hx). destruct j as [|j].
      * left. cbn [nth_error] in Hj. injection Hj as <-. now rewrite Nat.add_0_r in Hx.
      * right. exists j, c'. rewrite Nat.add_succ_r in Hx. cbn [nth_error length] in Hj, Hl.
        repeat split; auto. lia.
Qed.

Lemma gotr_flat_map {E F} (g : E -> list F) (f : nat -> nodeR -> list E) ks ss a :
  flat_map g (gotr f ks ss a) = gotr (fun a c => flat_map g (f a c)) ks ss a.
Proof.
  revert ss a; induction ks as [|c ks IH]; intros [|p ss] a; cbn [gotr flat_map]; try reflexivity.
  now rewrite flat_map_app, IH.
Qed.

Lemma gotr_perm {E} (f1 f2 f3 : nat -> nodeR -> list E) ks ss a :
  (forall j c, nth_error ks j = Some c ->
               Permutation (f1 (a + j)%nat c ++ f2 (a + j)%nat c) (f3 (a + j)%nat c)) ->
  Permutation (gotr f1 ks ss a ++ gotr f2 ks ss a) (gotr f3 ks ss a).
Proof.
  revert ss a; induction ks as [|c ks IH]; intros [|p ss] a H; cbn [gotr app]; try constructor.
  pose proof (H O c eq_refl) as H0. rewrite Nat.add_0_r in H0.
  assert (HI : Permutation (gotr f1 ks ss (S a) ++ gotr f2 ks ss (S a)) (gotr f3 ks ss (S a))).
  { apply IH. intros j c' Hj. specialize (H (S j) c' Hj). now rewrite Nat.add_succ_r in H. }
  rewrite <- H0, <- HI. rewrite <- !app_assoc. apply Permutation_app_head.
  rewrite !app_assoc. apply Permutation_app_tail. apply Permutation_app_comm.
Qed.

(** ** The pure traversal *)
Section Pure.
  Context (chance : list (list R)) (draw : oracleR) (cpass ppass : N) (noff : nat) (me : bool)
          (sg : bool -> nat -> list R).

  (** the id under which the external player's infoset [i] consults the oracle *)
  Definition ext_id (pl : bool) (i : nat) : nat := if pl then i else (noff + i)%nat.

  Definition cdraw (ci : nat) : nat := draw true ci cpass (@row RNum chance ci).
  Definition pdraw (pl : bool) (i : nat) : nat := draw false (ext_id pl i) ppass (sg pl i).

  (** the value [recurse_regret] returns *)
  Fixpoint eval (n : nodeR) : R :=
    match n with
    | Term x => if me then x else (- x)%R
    | Chance ci kids => pickf eval 0%R kids (cdraw ci)
    | Player pl i kids =>
        if Bool.eqb pl me then goval (fun _ c => eval c) kids (sg pl i) O 0%R
        else pickf eval 0%R kids (pdraw pl i)
    end.

  (** the events of a traversal, generic in what is emitted on entering an active
      infoset, after each of its actions, on leaving it, and at an external infoset *)
  Section Trace.
    Context {E : Type}
            (ePre : bool -> nat -> list E) (eChild : bool -> nat -> nat -> R -> list E)
            (ePost : bool -> nat -> R -> list E) (eExt : bool -> nat -> list E).

    Fixpoint etr (n : nodeR) : list E :=
      match n with
      | Term _ => []
      | Chance ci kids => pickf etr [] kids (cdraw ci)
      | Player pl i kids =>
          if Bool.eqb pl me then
            ePre pl i
            ++ gotr (fun a c => etr c ++ eChild pl i a (eval c)) kids (sg pl i) O
            ++ ePost pl i (eval (Player pl i kids))
          else eExt pl i ++ pickf etr [] kids (pdraw pl i)
      end.
  End Trace.

  (** the increments of a pass, in the order the code performs them *)
  Definition eincs : nodeR -> list e_incr :=
    etr (fun _ _ => []) (fun pl i a x => [E_IReg pl i a x])
        (fun pl i e => [E_IRegAll pl i e]) (fun pl i => [E_IStrat pl i]).

  (** the active-player infosets entered by a pass, in order *)
  Definition evisits : nodeR -> list nat :=
    etr (fun _ i => [i]) (fun _ _ _ _ => []) (fun _ _ _ => []) (fun _ _ => []).

  (** the state holds the strategies [sg] *)
  Definition SV (st : pstateR) : Prop := forall pl i, e_strat_view st pl i = sg pl i.

  Lemma SV_apply st inc : SV st -> SV (e_apply_incr st inc).
  Proof. intros H pl i. now rewrite e_apply_incr_strat. Qed.

  Lemma SV_fold st l : SV st -> SV (fold_left e_apply_incr l st).
  Proof. intros H pl i. now rewrite e_fold_strat. Qed.

  Lemma egoi_spec rec pl i (V : nat -> nodeR -> R) (I : nat -> nodeR -> list e_incr) ks :
    forall ss a0 e st,
      (forall j c st, nth_error ks j = Some c -> SV st ->
                      rec (a0 + j)%nat c st =
                      (V (a0 + j)%nat c, fold_left e_apply_incr (I (a0 + j)%nat c) st)) ->
      SV st ->
      egoi rec pl i ks ss a0 e st =
      (goval V ks ss a0 e,
       fold_left e_apply_incr (gotr (fun a c => I a c ++ [E_IReg pl i a (V a c)]) ks ss a0) st).
  Proof.
    induction ks as [|c ks IH]; intros [|p ss] a0 e st H Hst; cbn [egoi goval gotr fold_left];
      try reflexivity.
    pose proof (H O c st eq_refl Hst) as H0. rewrite Nat.add_0_r in H0. rewrite H0.
    rewrite IH.
    - rewrite !fold_left_app. reflexivity.
    - intros j c' st' Hj Hst'. specialize (H (S j) c' st' Hj Hst').
      now rewrite Nat.add_succ_r in H.
    - apply SV_apply. now apply SV_fold.
  Qed.

  Lemma erec_incs_sv (n : nodeR) :
    forall st, SV st ->
               @erec RNum chance draw cpass ppass noff me n st =
               (eval n, fold_left e_apply_incr (eincs n) st).
  Proof.
    induction n as [x|ci kids IH|pl i kids IH] using SolveValidProofs.node_ind'; intros st Hst.
    - rewrite erec_Term. reflexivity.
    - rewrite erec_Chance, epick_pickf. unfold eincs. cbn [eval etr]. fold eincs.
      unfold cdraw. rewrite !pickf_nth.
      destruct (nth_error kids _) as [c|] eqn:Ek; [|reflexivity].
      rewrite Forall_forall in IH. apply IH; [|assumption]. eapply nth_error_In; eauto.
    - rewrite erec_Player. cbv zeta. unfold eincs. cbn [eval etr]. fold eincs.
      pose proof (Hst pl i) as Hs. unfold e_strat_view in Hs.
      destruct (Bool.eqb pl me) eqn:Epl.
      + rewrite Hs. rewrite ego_egoi.
        rewrite (egoi_spec (fun _ => @erec RNum chance draw cpass ppass noff me) pl i
                           (fun _ c => eval c) (fun _ c => eincs c) kids (sg pl i) O 0%R st).
        * cbn [app]. rewrite fold_left_app. cbn [fold_left]. reflexivity.
        * intros j c st' Hj Hst'. rewrite Forall_forall in IH. apply IH; [|assumption].
          eapply nth_error_In; eauto.
        * assumption.
      + rewrite epick_pickf. cbn [app fold_left].
        change (@ri_set RNum st pl i _) with (e_apply_incr st (E_IStrat pl i)).
        rewrite Hs. unfold pdraw, ext_id. rewrite !pickf_nth.
        destruct (nth_error kids _) as [c|] eqn:Ek; [|reflexivity].
        rewrite Forall_forall in IH. apply IH; [eapply nth_error_In; eauto|].
        now apply SV_apply.
  Qed.
End Pure.

(** ** [erec] = pure value + fold of the increments *)
Theorem erec_incs chance draw cpass ppass noff me n st :
  @erec RNum chance draw cpass ppass noff me n st =
  (eval chance draw cpass ppass noff me (e_strat_view st) n,
   fold_left e_apply_incr (eincs chance draw cpass ppass noff me (e_strat_view st) n) st).
Proof. apply erec_incs_sv. intros pl i. reflexivity. Qed.

(** a pass leaves every current strategy unchanged *)
Corollary erec_strat_view chance draw cpass ppass noff me n st pl i :
  e_strat_view (snd (@erec RNum chance draw cpass ppass noff me n st)) pl i = e_strat_view st pl i.
Proof. rewrite erec_incs. cbn [snd]. apply e_fold_strat. Qed.
