(** * IterChar: what one unsampled iteration does to the infoset state.

    For the unsampled traversal ([sampled = false]) the effect of [vrec] on the
    state is, per infoset [(pl, i)]:
    - [cum_regret[a] += cfr_inc pl i a]   ([vrec_state_regret]),
    - [cum_strat    += cs_inc pl i * strat] ([vrec_state_strat]),
    - [strat] unchanged,
    where [cfr_inc] and [cs_inc] are structural recursions over the tree that
    depend on the strategies only: [cfr_inc] sums, over the nodes [h] of the
    infoset, (signed) counterfactual reach of [h] times (value of the child [a] of
    [h] minus value of [h]) ([cfr_inc_semantic]); it is orthogonal to the current
    strategy ([cfr_inc_orthogonal]).  With the vanilla [params] the [advance]
    step only recomputes [strat] by regret matching ([vanilla_iter_state]). *)
From Coq Require Import Reals List Lra Lia Bool Arith NArith.
From Cfr.theories Require Import Num RInst Tree GameWF Strat Eval Solve Valid
     SolveValidProofs Incr.
Import ListNotations.
Open Scope R_scope.

Local Notation nodeR := (@node RNum).
Local Notation gameR := (@game RNum).
Local Notation pstateR := (@pstate RNum).
Local Notation rinfoR := (@rinfo RNum).
Local Notation incrR := (@incr RNum).
Local Notation paramsR := (@params RNum).

Ltac tR := change (T RNum) with R in *.

(** ** Part A: the effect of a list of increments on one infoset *)

Definition reg_of (pl : bool) (i a : nat) (x : incrR) : R :=
  match x with
  | IStrat _ _ _ => 0
  | IReg pl' i' a' v => if Bool.eqb pl' pl && Nat.eqb i' i && Nat.eqb a' a then v else 0
  | IRegAll pl' i' v => if Bool.eqb pl' pl && Nat.eqb i' i then - v else 0
  end.

Definition strat_of (pl : bool) (i : nat) (x : incrR) : R :=
  match x with
  | IStrat pl' i' w => if Bool.eqb pl' pl && Nat.eqb i' i then w else 0
  | _ => 0
  end.

Definition reg_sum (pl : bool) (i a : nat) (l : list incrR) : R := Rsum (map (reg_of pl i a) l).
Definition strat_sum (pl : bool) (i : nat) (l : list incrR) : R := Rsum (map (strat_of pl i) l).

Lemma reg_sum_app pl i a l1 l2 : reg_sum pl i a (l1 ++ l2) = reg_sum pl i a l1 + reg_sum pl i a l2.
Proof. unfold reg_sum. now rewrite map_app, Rsum_app. Qed.

Lemma strat_sum_app pl i l1 l2 : strat_sum pl i (l1 ++ l2) = strat_sum pl i l1 + strat_sum pl i l2.
Proof. unfold strat_sum. now rewrite map_app, Rsum_app. Qed.

Lemma ri_get_oob (st : pstateR) pl i :
  (length (ps_get st pl) <= i)%nat -> @ri_get RNum st pl i = @mkRinfo RNum [] [] [].
Proof. intros H. unfold ri_get. now apply nth_overflow. Qed.

Lemma reg_of_other pl i a (x : incrR) :
  (incr_pl x <> pl \/ incr_ix x <> i) -> reg_of pl i a x = 0.
Proof.
  intros H. destruct x as [pl' i' w|pl' i' a' v|pl' i' v]; cbn [reg_of incr_pl incr_ix] in *;
    [reflexivity| |];
    destruct (Bool.eqb_spec pl' pl); destruct (Nat.eqb_spec i' i); cbn [andb]; try reflexivity;
    destruct H; congruence.
Qed.

Lemma strat_of_other pl i (x : incrR) :
  (incr_pl x <> pl \/ incr_ix x <> i) -> strat_of pl i x = 0.
Proof.
  intros H. destruct x as [pl' i' w|pl' i' a' v|pl' i' v]; cbn [strat_of incr_pl incr_ix] in *;
    try reflexivity.
  destruct (Bool.eqb_spec pl' pl); destruct (Nat.eqb_spec i' i); cbn [andb]; try reflexivity;
    destruct H; congruence.
Qed.

Lemma nth_map_sub (cr : list R) a v :
  (a < length cr)%nat -> nth a (map (fun c => c - v) cr) 0 = nth a cr 0 - v.
Proof.
  intros H. rewrite (nth_indep _ 0 (0 - v)) by (now rewrite map_length).
  now rewrite (map_nth (fun c => c - v)).
Qed.

(** the addressed infoset after one increment *)
Lemma incr_fn_regret_len (x : incrR) (ri : rinfoR) :
  length (cum_regret (incr_fn x ri)) = length (cum_regret ri).
Proof.
  destruct x; cbn [incr_fn cum_regret]; [reflexivity|apply upd_len|apply map_length].
Qed.

Lemma incr_fn_regret_nth (x : incrR) (ri : rinfoR) a :
  (a < length (cum_regret ri))%nat ->
  nth a (cum_regret (incr_fn x ri)) 0 =
  nth a (cum_regret ri) 0 + reg_of (incr_pl x) (incr_ix x) a x.
Proof.
  intros Ha. destruct x as [pl i w|pl i a' v|pl i v];
    cbn [incr_fn cum_regret reg_of incr_pl incr_ix]; rewrite ?Bool.eqb_reflx, ?Nat.eqb_refl;
    cbn [andb].
  - lra.
  - change (add RNum) with Rplus. change (zero RNum) with 0. rewrite nth_upd.
    destruct (Nat.eqb_spec a' a) as [->|Hne]; cbn [andb].
    + apply Nat.ltb_lt in Ha. rewrite Ha. reflexivity.
    + lra.
  - change (sub RNum) with Rminus. rewrite nth_map_sub by assumption. tR. lra.
Qed.

Lemma apply_incr_regret_len (st : pstateR) x pl i :
  length (cum_regret (ri_get (apply_incr st x) pl i)) = length (cum_regret (ri_get st pl i)).
Proof.
  rewrite apply_incr_upd_at, ri_get_upd_at.
  destruct (Bool.eqb_spec (incr_pl x) pl) as [<-|]; cbn [andb]; [|reflexivity].
  destruct (Nat.eqb_spec (incr_ix x) i) as [<-|]; cbn [andb]; [|reflexivity].
  destruct (Nat.ltb _ _); [apply incr_fn_regret_len|reflexivity].
Qed.

Lemma apply_incr_regret_nth (st : pstateR) x pl i a :
  (a < length (cum_regret (ri_get st pl i)))%nat ->
  nth a (cum_regret (ri_get (apply_incr st x) pl i)) 0 =
  nth a (cum_regret (ri_get st pl i)) 0 + reg_of pl i a x.
Proof.
  intros Ha. rewrite apply_incr_upd_at, ri_get_upd_at.
  destruct (Bool.eqb_spec (incr_pl x) pl) as [<-|Hpl]; cbn [andb];
    [|rewrite reg_of_other by auto; lra].
  destruct (Nat.eqb_spec (incr_ix x) i) as [<-|Hi]; cbn [andb];
    [|rewrite reg_of_other by auto; lra].
  destruct (Nat.ltb_spec (incr_ix x) (length (ps_get st (incr_pl x)))) as [Hlt|Hge].
  - now apply incr_fn_regret_nth.
  - rewrite ri_get_oob in Ha by assumption. cbn [cum_regret length] in Ha. lia.
Qed.

Lemma fold_incr_regret_len (l : list incrR) (st : pstateR) pl i :
  length (cum_regret (ri_get (fold_left apply_incr l st) pl i)) =
  length (cum_regret (ri_get st pl i)).
Proof.
  revert st; induction l as [|x l IH]; intros st; cbn [fold_left]; [reflexivity|].
  rewrite IH. apply apply_incr_regret_len.
Qed.

Lemma fold_incr_regret_nth (l : list incrR) (st : pstateR) pl i a :
  (a < length (cum_regret (ri_get st pl i)))%nat ->
  nth a (cum_regret (ri_get (fold_left apply_incr l st) pl i)) 0 =
  nth a (cum_regret (ri_get st pl i)) 0 + reg_sum pl i a l.
Proof.
  revert st; induction l as [|x l IH]; intros st Ha; cbn [fold_left].
  - unfold reg_sum; cbn [map Rsum]. lra.
  - rewrite IH by (now rewrite apply_incr_regret_len).
    rewrite apply_incr_regret_nth by assumption.
    unfold reg_sum; cbn [map Rsum]. lra.
Qed.

(** [cum_strat]: needs the vectors of the infoset to have one length *)
Lemma incr_fn_strat_len (x : incrR) (ri : rinfoR) :
  length (cum_strat ri) = length (strat ri) ->
  length (cum_strat (incr_fn x ri)) = length (cum_strat ri).
Proof.
  intros E. destruct x; cbn [incr_fn cum_strat]; try reflexivity.
  rewrite map_length, combine_length. lia.
Qed.

Lemma nth_map_combine (s c : list R) w a :
  length c = length s ->
  nth a (map (fun vc : R * R => snd vc + w * fst vc) (combine s c)) 0 =
  nth a c 0 + w * nth a s 0.
Proof.
  revert c a; induction s as [|x s IH]; intros c a E; destruct c as [|y c]; try discriminate.
  - destruct a; cbn [combine map nth]; lra.
  - destruct a as [|a]; cbn [combine map nth fst snd]; [reflexivity|].
    apply IH. cbn [length] in E. lia.
Qed.

Lemma incr_fn_strat_nth (x : incrR) (ri : rinfoR) a :
  length (cum_strat ri) = length (strat ri) ->
  nth a (cum_strat (incr_fn x ri)) 0 =
  nth a (cum_strat ri) 0 + strat_of (incr_pl x) (incr_ix x) x * nth a (strat ri) 0.
Proof.
  intros E. destruct x as [pl i w|pl i a' v|pl i v];
    cbn [incr_fn cum_strat strat_of incr_pl incr_ix]; rewrite ?Bool.eqb_reflx, ?Nat.eqb_refl;
    cbn [andb]; try lra.
  change (add RNum) with Rplus. change (mul RNum) with Rmult.
  now apply nth_map_combine.
Qed.

Definition len_ok (st : pstateR) (pl : bool) (i : nat) : Prop :=
  length (cum_strat (@ri_get RNum st pl i)) = length (strat (@ri_get RNum st pl i)).

Lemma apply_incr_strat_eq (st : pstateR) x pl i :
  strat (ri_get (apply_incr st x) pl i) = strat (ri_get st pl i).
Proof. exact (apply_incr_strat_pt st x pl i). Qed.

Lemma apply_incr_cs_len (st : pstateR) x pl i :
  len_ok st pl i ->
  length (cum_strat (ri_get (apply_incr st x) pl i)) = length (cum_strat (ri_get st pl i)).
Proof.
  unfold len_ok. intros E. rewrite apply_incr_upd_at, ri_get_upd_at.
  destruct (Bool.eqb_spec (incr_pl x) pl) as [<-|]; cbn [andb]; [|reflexivity].
  destruct (Nat.eqb_spec (incr_ix x) i) as [<-|]; cbn [andb]; [|reflexivity].
  destruct (Nat.ltb _ _); [now apply incr_fn_strat_len|reflexivity].
Qed.

Lemma apply_incr_len_ok (st : pstateR) x pl i : len_ok st pl i -> len_ok (apply_incr st x) pl i.
Proof.
  intros E. unfold len_ok. rewrite apply_incr_cs_len by assumption.
  rewrite apply_incr_strat_eq. exact E.
Qed.

Lemma apply_incr_cs_nth (st : pstateR) x pl i a :
  len_ok st pl i ->
  nth a (cum_strat (ri_get (apply_incr st x) pl i)) 0 =
  nth a (cum_strat (ri_get st pl i)) 0 + strat_of pl i x * nth a (strat (ri_get st pl i)) 0.
Proof.
  unfold len_ok. intros E. rewrite apply_incr_upd_at, ri_get_upd_at.
  destruct (Bool.eqb_spec (incr_pl x) pl) as [<-|Hpl]; cbn [andb];
    [|rewrite strat_of_other by auto; lra].
  destruct (Nat.eqb_spec (incr_ix x) i) as [<-|Hi]; cbn [andb];
    [|rewrite strat_of_other by auto; lra].
  destruct (Nat.ltb_spec (incr_ix x) (length (ps_get st (incr_pl x)))) as [Hlt|Hge].
  - now apply incr_fn_strat_nth.
  - rewrite ri_get_oob by assumption. cbn [cum_strat strat]. destruct a; cbn [nth]; lra.
Qed.

Lemma fold_incr_strat_eq (l : list incrR) (st : pstateR) pl i :
  strat (ri_get (fold_left apply_incr l st) pl i) = strat (ri_get st pl i).
Proof.
  change (strat_view (fold_left apply_incr l st) pl i = strat_view st pl i).
  now rewrite fold_incr_strat.
Qed.

Lemma fold_incr_len_ok (l : list incrR) (st : pstateR) pl i :
  len_ok st pl i -> len_ok (fold_left apply_incr l st) pl i.
Proof.
  revert st; induction l as [|x l IH]; intros st E; cbn [fold_left]; [exact E|].
  apply IH. now apply apply_incr_len_ok.
Qed.

Lemma fold_incr_cs_len (l : list incrR) (st : pstateR) pl i :
  len_ok st pl i ->
  length (cum_strat (ri_get (fold_left apply_incr l st) pl i)) =
  length (cum_strat (ri_get st pl i)).
Proof.
  revert st; induction l as [|x l IH]; intros st E; cbn [fold_left]; [reflexivity|].
  rewrite IH by (now apply apply_incr_len_ok). now apply apply_incr_cs_len.
Qed.

Lemma fold_incr_cs_nth (l : list incrR) (st : pstateR) pl i a :
  len_ok st pl i ->
  nth a (cum_strat (ri_get (fold_left apply_incr l st) pl i)) 0 =
  nth a (cum_strat (ri_get st pl i)) 0 + strat_sum pl i l * nth a (strat (ri_get st pl i)) 0.
Proof.
  revert st; induction l as [|x l IH]; intros st E; cbn [fold_left].
  - unfold strat_sum; cbn [map Rsum]. lra.
  - rewrite IH by (now apply apply_incr_len_ok).
    rewrite apply_incr_cs_nth by assumption. rewrite apply_incr_strat_eq.
    unfold strat_sum; cbn [map Rsum]. lra.
Qed.

(** ** Part B: the totals, as structural recursions over the tree *)

(** the inner loops, abstracted over the recursive call *)
Section SumLoops.
  Context (reci : nodeR -> R -> R -> R -> R).

  Definition sum_chance (pc p1 p2 : R) :=
    fix go (ps : list R) (ks : list nodeR) {struct ks} : R :=
      match ps, ks with
      | p :: ps', c :: ks' => reci c (pc * p) p1 p2 + go ps' ks'
      | _, _ => 0
      end.

  Definition sum_player (pl : bool) (pc p1 p2 : R) :=
    fix go (ks : list nodeR) (ss : list R) {struct ks} : R :=
      match ks, ss with
      | c :: ks', prob :: ss' =>
          (if pl then reci c pc (p1 * prob) p2 else reci c pc p1 (p2 * prob)) + go ks' ss'
      | _, _ => 0
      end.
End SumLoops.

Section CatLoops.
  Context {A : Type} (reci : nodeR -> R -> R -> R -> list A).

  Definition cat_chance (pc p1 p2 : R) :=
    fix go (ps : list R) (ks : list nodeR) {struct ks} : list A :=
      match ps, ks with
      | p :: ps', c :: ks' => reci c (pc * p) p1 p2 ++ go ps' ks'
      | _, _ => []
      end.

  Definition cat_player (pl : bool) (pc p1 p2 : R) :=
    fix go (ks : list nodeR) (ss : list R) {struct ks} : list A :=
      match ks, ss with
      | c :: ks', prob :: ss' =>
          (if pl then reci c pc (p1 * prob) p2 else reci c pc p1 (p2 * prob)) ++ go ks' ss'
      | _, _ => []
      end.
End CatLoops.

(** value of the child reached by action [a] (0 when there is no such child) *)
Definition act_val (recv : nodeR -> R) :=
  fix go (ks : list nodeR) (ss : list R) (a : nat) {struct ks} : R :=
    match ks, ss with
    | c :: ks', _ :: ss' => match a with O => recv c | S a' => go ks' ss' a' end
    | _, _ => 0
    end.

(** signed counterfactual reach of a node of player [pl]: chance reach times the
    opponent's reach, negated for player two (whose payoff is the negated value);
    this is [mult] of [recurse_player] *)
Definition cfw (pl : bool) (pc p1 p2 : R) : R := if pl then pc * p2 else - p1 * pc.
(** own reach *)
Definition ownw (pl : bool) (p1 p2 : R) : R := if pl then p1 else p2.

Definition is_info (pl' : bool) (i' : nat) (pl : bool) (i : nat) : bool :=
  Bool.eqb pl' pl && Nat.eqb i' i.

Lemma is_info_true pl' i' pl i : is_info pl' i' pl i = true <-> pl' = pl /\ i' = i.
Proof.
  unfold is_info. rewrite andb_true_iff, Nat.eqb_eq. split; intros [H1 H2]; split; auto.
  - now apply Bool.eqb_prop.
  - subst. apply Bool.eqb_reflx.
Qed.

Section Char.
  Context (chance : list (list R)) (sg : bool -> nat -> list R).

  (** the value of a subtree under the strategies [sg] (unsampled) *)
  Fixpoint uval (n : nodeR) {struct n} : R :=
    match n with
    | Term x => x
    | Chance ci kids => @val_chance RNum uval (@row RNum chance ci) kids 0
    | Player pl i kids => @val_player RNum uval kids (sg pl i) 0
    end.

  (** regret of action [a] at a node with children [kids] under the row [ss] *)
  Definition node_regret (kids : list nodeR) (ss : list R) (a : nat) : R :=
    act_val uval kids ss a - @val_player RNum uval kids ss 0.

  Fixpoint cfr_inc (pl : bool) (i a : nat) (n : nodeR) (pc p1 p2 : R) {struct n} : R :=
    match n with
    | Term _ => 0
    | Chance ci kids => sum_chance (cfr_inc pl i a) pc p1 p2 (@row RNum chance ci) kids
    | Player pl' i' kids =>
        (if is_info pl' i' pl i
         then cfw pl' pc p1 p2 * node_regret kids (sg pl' i') a else 0)
        + sum_player (cfr_inc pl i a) pl' pc p1 p2 kids (sg pl' i')
    end.

  Fixpoint cs_inc (pl : bool) (i : nat) (n : nodeR) (pc p1 p2 : R) {struct n} : R :=
    match n with
    | Term _ => 0
    | Chance ci kids => sum_chance (cs_inc pl i) pc p1 p2 (@row RNum chance ci) kids
    | Player pl' i' kids =>
        (if is_info pl' i' pl i then ownw pl' p1 p2 else 0)
        + sum_player (cs_inc pl i) pl' pc p1 p2 kids (sg pl' i')
    end.

  (** the nodes of infoset [(pl, i)] in the subtree, each with its signed
      counterfactual reach and its children *)
  Fixpoint cf_nodes (pl : bool) (i : nat) (n : nodeR) (pc p1 p2 : R) {struct n}
    : list (R * list nodeR) :=
    match n with
    | Term _ => []
    | Chance ci kids => cat_chance (cf_nodes pl i) pc p1 p2 (@row RNum chance ci) kids
    | Player pl' i' kids =>
        (if is_info pl' i' pl i then [(cfw pl' pc p1 p2, kids)] else [])
        ++ cat_player (cf_nodes pl i) pl' pc p1 p2 kids (sg pl' i')
    end.

  (** the vector of increments of an infoset *)
  Definition cfr_incs (pl : bool) (i : nat) (n : nodeR) (pc p1 p2 : R) : list R :=
    map (fun a => cfr_inc pl i a n pc p1 p2) (seq 0 (length (sg pl i))).

  (** *** accumulators of the value loops *)
  Lemma val_chance_acc (f : nodeR -> R) ps ks e :
    @val_chance RNum f ps ks e = e + @val_chance RNum f ps ks 0.
  Proof.
    revert ps e; induction ks as [|c ks IH]; intros ps e; destruct ps as [|p ps];
      cbn [val_chance]; try lra.
    change (add RNum) with Rplus. change (mul RNum) with Rmult.
    rewrite IH. rewrite (IH ps (0 + _)). lra.
  Qed.

  Lemma val_player_acc (f : nodeR -> R) ks ss e :
    @val_player RNum f ks ss e = e + @val_player RNum f ks ss 0.
  Proof.
    revert ss e; induction ks as [|c ks IH]; intros ss e; destruct ss as [|p ss];
      cbn [val_player]; try lra.
    change (add RNum) with Rplus. change (mul RNum) with Rmult.
    rewrite IH. rewrite (IH ss (0 + _)). lra.
  Qed.

  Lemma exp_player_val (f : nodeR -> R) mult ks ss e :
    @exp_player RNum f mult ks ss e = e + mult * @val_player RNum f ks ss 0.
  Proof.
    revert ss e; induction ks as [|c ks IH]; intros ss e; destruct ss as [|p ss];
      cbn [exp_player val_player]; try lra.
    change (add RNum) with Rplus. change (mul RNum) with Rmult.
    rewrite IH. rewrite (val_player_acc f ks ss (0 + _)). lra.
  Qed.

  Lemma val_chance_ext (f g : nodeR -> R) ps ks e :
    Forall (fun c => f c = g c) ks -> @val_chance RNum f ps ks e = @val_chance RNum g ps ks e.
  Proof.
    intros H; revert ps e; induction H as [|c ks Hc H IH]; intros ps e; destruct ps as [|p ps];
      cbn [val_chance]; try reflexivity. rewrite Hc. apply IH.
  Qed.

  Lemma val_player_ext (f g : nodeR -> R) ks ss e :
    Forall (fun c => f c = g c) ks -> @val_player RNum f ks ss e = @val_player RNum g ks ss e.
  Proof.
    intros H; revert ss e; induction H as [|c ks Hc H IH]; intros ss e; destruct ss as [|p ss];
      cbn [val_player]; try reflexivity. rewrite Hc. apply IH.
  Qed.

  Lemma exp_player_ext (f g : nodeR -> R) mult ks ss e :
    Forall (fun c => f c = g c) ks ->
    @exp_player RNum f mult ks ss e = @exp_player RNum g mult ks ss e.
  Proof.
    intros H; revert ss e; induction H as [|c ks Hc H IH]; intros ss e; destruct ss as [|p ss];
      cbn [exp_player]; try reflexivity. rewrite Hc. apply IH.
  Qed.

  (** [vval] of the unsampled traversal is [uval] (the oracle is not consulted) *)
  Lemma vval_uval draw pass n : @vval RNum chance false draw pass sg n = uval n.
  Proof.
    induction n as [x|ci kids IH|pl i kids IH] using node_ind'; cbn [vval uval].
    - reflexivity.
    - now apply val_chance_ext.
    - now apply val_player_ext.
  Qed.

  Lemma Forall_vval_uval draw pass (ks : list nodeR) :
    Forall (fun c => @vval RNum chance false draw pass sg c = uval c) ks.
  Proof. apply Forall_forall. intros c _. apply vval_uval. Qed.

  (** *** the increments of the traversal add up to [cfr_inc] and [cs_inc] *)
  Section SumIncs.
    Context (draw : @oracle RNum) (pass : N) (pl : bool) (i a : nat).
    Local Notation VV := (@vval RNum chance false draw pass sg).
    Local Notation VI := (@vincs RNum chance false draw pass sg).

    Definition RS (c : nodeR) : Prop :=
      forall pc p1 p2, reg_sum pl i a (VI c pc p1 p2) = cfr_inc pl i a c pc p1 p2.
    Definition SS (c : nodeR) : Prop :=
      forall pc p1 p2, strat_sum pl i (VI c pc p1 p2) = cs_inc pl i c pc p1 p2.

    Lemma reg_sum_chance pc p1 p2 ps ks :
      Forall RS ks ->
      reg_sum pl i a (@incs_chance RNum VI pc p1 p2 ps ks) =
      sum_chance (cfr_inc pl i a) pc p1 p2 ps ks.
    Proof.
      intros H; revert ps; induction H as [|c ks Hc H IH]; intros ps; destruct ps as [|p ps];
        cbn [incs_chance sum_chance]; try reflexivity.
      rewrite reg_sum_app, IH. change (mul RNum) with Rmult. now rewrite Hc.
    Qed.

    Lemma strat_sum_chance pc p1 p2 ps ks :
      Forall SS ks ->
      strat_sum pl i (@incs_chance RNum VI pc p1 p2 ps ks) =
      sum_chance (cs_inc pl i) pc p1 p2 ps ks.
    Proof.
      intros H; revert ps; induction H as [|c ks Hc H IH]; intros ps; destruct ps as [|p ps];
        cbn [incs_chance sum_chance]; try reflexivity.
      rewrite strat_sum_app, IH. change (mul RNum) with Rmult. now rewrite Hc.
    Qed.

    Lemma reg_sum_player pl' i' pc p1 p2 mult ks :
      Forall RS ks -> forall ss ai,
      reg_sum pl i a (@incs_player RNum VV VI pl' i' pc p1 p2 mult ks ss ai) =
      (if is_info pl' i' pl i
       then (if Nat.leb ai a then act_val VV ks ss (a - ai) else 0) * mult else 0)
      + sum_player (cfr_inc pl i a) pl' pc p1 p2 ks ss.
    Proof.
      induction 1 as [|c ks Hc H IH]; intros ss ai; destruct ss as [|prob ss];
        cbn [incs_player sum_player act_val].
      1-3: unfold reg_sum; cbn [map Rsum]; destruct (is_info pl' i' pl i); [destruct (Nat.leb ai a)|]; lra.
      change (mul RNum) with Rmult.
      assert (E : reg_sum pl i a
                    (VI c pc (if pl' then p1 * prob else p1) (if pl' then p2 else p2 * prob) ++
                     @IReg RNum pl' i' ai (VV c * mult) ::
                     @incs_player RNum VV VI pl' i' pc p1 p2 mult ks ss (S ai)) =
                  (if is_info pl' i' pl i
                   then (if Nat.leb ai a
                         then match (a - ai)%nat with O => VV c | S a' => act_val VV ks ss a' end
                         else 0) * mult else 0)
                  + ((if pl' then cfr_inc pl i a c pc (p1 * prob) p2
                      else cfr_inc pl i a c pc p1 (p2 * prob))
                     + sum_player (cfr_inc pl i a) pl' pc p1 p2 ks ss)).
      { rewrite reg_sum_app, Hc. unfold reg_sum at 1. cbn [map Rsum].
        fold (reg_sum pl i a (@incs_player RNum VV VI pl' i' pc p1 p2 mult ks ss (S ai))).
        rewrite IH. cbn [reg_of]. fold (is_info pl' i' pl i).
        destruct (is_info pl' i' pl i); cbn [andb].
        - destruct (Nat.eqb_spec ai a) as [->|Hne].
          + rewrite Nat.leb_refl, Nat.sub_diag.
            replace (Nat.leb (S a) a) with false by (symmetry; apply Nat.leb_gt; lia).
            destruct pl'; lra.
          + destruct (Nat.leb_spec ai a) as [Hle|Hgt].
            * replace (Nat.leb (S ai) a) with true by (symmetry; apply Nat.leb_le; lia).
              replace (a - ai)%nat with (S (a - S ai)) by lia. destruct pl'; lra.
            * replace (Nat.leb (S ai) a) with false by (symmetry; apply Nat.leb_gt; lia).
              destruct pl'; lra.
        - destruct pl'; lra. }
      destruct pl'; exact E.
    Qed.

    Lemma strat_sum_player pl' i' pc p1 p2 mult ks :
      Forall SS ks -> forall ss ai,
      strat_sum pl i (@incs_player RNum VV VI pl' i' pc p1 p2 mult ks ss ai) =
      sum_player (cs_inc pl i) pl' pc p1 p2 ks ss.
    Proof.
      induction 1 as [|c ks Hc H IH]; intros ss ai; destruct ss as [|prob ss];
        cbn [incs_player sum_player]; try reflexivity.
      change (mul RNum) with Rmult.
      destruct pl'; rewrite strat_sum_app, Hc; unfold strat_sum at 1; cbn [map Rsum strat_of];
        fold (strat_sum pl i (@incs_player RNum VV VI true i' pc p1 p2 mult ks ss (S ai)));
        fold (strat_sum pl i (@incs_player RNum VV VI false i' pc p1 p2 mult ks ss (S ai)));
        rewrite IH; lra.
    Qed.

    Lemma act_val_ext (f g : nodeR -> R) ks ss b :
      Forall (fun c => f c = g c) ks -> act_val f ks ss b = act_val g ks ss b.
    Proof.
      intros H; revert ss b; induction H as [|c ks Hc H IH]; intros ss b; destruct ss as [|p ss];
        cbn [act_val]; try reflexivity. destruct b; [exact Hc|apply IH].
    Qed.

    Lemma reg_sum_vincs n : RS n.
    Proof.
      induction n as [x|ci kids IH|pl' i' kids IH] using node_ind'; intros pc p1 p2.
      - reflexivity.
      - cbn [vincs cfr_inc]. now apply reg_sum_chance.
      - cbn [vincs cfr_inc]. unfold reg_sum. cbn [map Rsum reg_of].
        rewrite map_app, Rsum_app. cbn [map Rsum reg_of].
        fold (reg_sum pl i a (@incs_player RNum VV VI pl' i' pc p1 p2
                (if pl' then mul RNum pc p2 else mul RNum (neg RNum p1) pc) kids (sg pl' i') 0)).
        rewrite (reg_sum_player pl' i' pc p1 p2 _ kids IH).
        fold (is_info pl' i' pl i). rewrite exp_player_val.
        rewrite (val_player_ext _ uval) by apply Forall_vval_uval.
        rewrite (act_val_ext _ uval) by apply Forall_vval_uval.
        change (zero RNum) with 0. change (mul RNum) with Rmult. change (neg RNum) with Ropp.
        unfold node_regret, cfw. cbn [Nat.leb]. rewrite Nat.sub_0_r.
        destruct (is_info pl' i' pl i); destruct pl'; lra.
    Qed.

    Lemma strat_sum_vincs n : SS n.
    Proof.
      induction n as [x|ci kids IH|pl' i' kids IH] using node_ind'; intros pc p1 p2.
      - reflexivity.
      - cbn [vincs cs_inc]. now apply strat_sum_chance.
      - cbn [vincs cs_inc]. unfold strat_sum. cbn [map Rsum strat_of].
        rewrite map_app, Rsum_app. cbn [map Rsum strat_of].
        fold (strat_sum pl i (@incs_player RNum VV VI pl' i' pc p1 p2
                (if pl' then mul RNum pc p2 else mul RNum (neg RNum p1) pc) kids (sg pl' i') 0)).
        rewrite (strat_sum_player pl' i' pc p1 p2 _ kids IH).
        fold (is_info pl' i' pl i). unfold ownw.
        destruct (is_info pl' i' pl i); destruct pl'; lra.
    Qed.
  End SumIncs.
End Char.

(** ** Part C: [cfr_inc] is a sum over the nodes of the infoset; orthogonality *)

(** dot product of two vectors (truncating) *)
Fixpoint dot (l1 l2 : list R) : R :=
  match l1, l2 with
  | x :: l1', y :: l2' => x * y + dot l1' l2'
  | _, _ => 0
  end.

(** componentwise sum (truncating) *)
Definition vadd (l1 l2 : list R) : list R := map (fun p : R * R => fst p + snd p) (combine l1 l2).

Lemma vadd_length l1 l2 : length l1 = length l2 -> length (vadd l1 l2) = length l1.
Proof. intros E. unfold vadd. rewrite map_length, combine_length. lia. Qed.

Lemma vadd_nth l1 l2 a :
  length l1 = length l2 -> nth a (vadd l1 l2) 0 = nth a l1 0 + nth a l2 0.
Proof.
  unfold vadd. revert l2 a; induction l1 as [|x l1 IH]; intros l2 a E; destruct l2 as [|y l2];
    try discriminate.
  - destruct a; cbn [combine map nth]; lra.
  - destruct a as [|a]; cbn [combine map nth fst snd]; [reflexivity|].
    apply IH. cbn [length] in E. lia.
Qed.

Lemma nth_map_seq (f : nat -> R) n a : (a < n)%nat -> nth a (map f (seq 0 n)) 0 = f a.
Proof.
  intros H. rewrite (nth_indep _ 0 (f 0%nat)) by (now rewrite map_length, seq_length).
  rewrite map_nth. now rewrite seq_nth.
Qed.

Lemma dot_map_plus ss (f g : nat -> R) l :
  dot ss (map (fun a => f a + g a) l) = dot ss (map f l) + dot ss (map g l).
Proof.
  revert l; induction ss as [|s ss IH]; intros l; destruct l as [|a l]; cbn [dot map]; try lra.
  rewrite IH. lra.
Qed.

Lemma dot_map_scal ss c (f : nat -> R) l :
  dot ss (map (fun a => c * f a) l) = c * dot ss (map f l).
Proof.
  revert l; induction ss as [|s ss IH]; intros l; destruct l as [|a l]; cbn [dot map]; try lra.
  rewrite IH. lra.
Qed.

Lemma dot_map_zero ss (l : list nat) : dot ss (map (fun _ => 0) l) = 0.
Proof.
  revert l; induction ss as [|s ss IH]; intros l; destruct l as [|a l]; cbn [dot map]; try lra.
  rewrite IH. lra.
Qed.

Lemma dot_map_ext ss (f g : nat -> R) l :
  (forall a, f a = g a) -> dot ss (map f l) = dot ss (map g l).
Proof. intros H. f_equal. apply map_ext. intros a. apply H. Qed.

Lemma dot_map_one ss : dot ss (map (fun _ => 1) (seq 0 (length ss))) = Rsum ss.
Proof.
  generalize 0%nat. induction ss as [|s ss IH]; intros k; cbn [length seq map dot Rsum]; [lra|].
  rewrite IH. lra.
Qed.

Lemma dot_act_val (f : nodeR -> R) ks ss :
  dot ss (map (act_val f ks ss) (seq 0 (length ss))) = @val_player RNum f ks ss 0.
Proof.
  revert ss; induction ks as [|c ks IH]; intros ss.
  - cbn [act_val val_player]. apply dot_map_zero.
  - destruct ss as [|s ss]; [reflexivity|].
    cbn [length seq map dot val_player]. cbn [act_val].
    rewrite <- seq_shift, map_map. cbn [act_val].
    change (fun x : nat => act_val f ks ss x) with (act_val f ks ss). rewrite IH.
    change (add RNum) with Rplus. change (mul RNum) with Rmult. change (zero RNum) with 0.
    rewrite (val_player_acc f ks ss (0 + _)). lra.
Qed.

Section Char2.
  Context (chance : list (list R)) (sg : bool -> nat -> list R).
  Local Notation uvalR := (uval chance sg).

  (** *** [cfr_inc] as a sum over the nodes of the infoset *)
  Definition node_term (ss : list R) (a : nat) (wk : R * list nodeR) : R :=
    fst wk * node_regret chance sg (snd wk) ss a.

  Theorem cfr_inc_semantic pl i a n pc p1 p2 :
    cfr_inc chance sg pl i a n pc p1 p2 =
    Rsum (map (node_term (sg pl i) a) (cf_nodes chance sg pl i n pc p1 p2)).
  Proof.
    revert pc p1 p2.
    induction n as [x|ci kids IH|pl' i' kids IH] using node_ind'; intros pc p1 p2.
    - reflexivity.
    - cbn [cfr_inc cf_nodes]. generalize (@row RNum chance ci) as ps.
      induction IH as [|c ks Hc H IH']; intros ps; destruct ps as [|p ps];
        cbn [sum_chance cat_chance map Rsum]; try reflexivity.
      rewrite map_app, Rsum_app, <- Hc, <- IH'. reflexivity.
    - cbn [cfr_inc cf_nodes]. rewrite map_app, Rsum_app. f_equal.
      + destruct (is_info pl' i' pl i) eqn:E; [|reflexivity].
        apply is_info_true in E as [-> ->]. unfold node_term; cbn [map Rsum fst snd]. lra.
      + generalize (sg pl' i') as ss.
        induction IH as [|c ks Hc H IH']; intros ss; destruct ss as [|p ss];
          cbn [sum_player cat_player map Rsum]; try reflexivity.
        rewrite map_app, Rsum_app, <- IH'. destruct pl'; rewrite <- Hc; reflexivity.
  Qed.

  (** *** orthogonality: the increments of an infoset are orthogonal to its strategy *)
  Lemma node_regret_orthogonal kids ss :
    Rsum ss = 1 ->
    dot ss (map (node_regret chance sg kids ss) (seq 0 (length ss))) = 0.
  Proof.
    intros Hs. unfold node_regret.
    rewrite (dot_map_ext ss _ (fun a => act_val uvalR kids ss a +
                                        (- @val_player RNum uvalR kids ss 0) * 1))
      by (intros; lra).
    rewrite dot_map_plus, dot_map_scal, dot_map_one, dot_act_val, Hs. lra.
  Qed.

  Theorem cfr_inc_orthogonal pl i n pc p1 p2 :
    Rsum (sg pl i) = 1 ->
    dot (sg pl i) (cfr_incs chance sg pl i n pc p1 p2) = 0.
  Proof.
    intros Hs. unfold cfr_incs. revert pc p1 p2.
    induction n as [x|ci kids IH|pl' i' kids IH] using node_ind'; intros pc p1 p2.
    - cbn [cfr_inc]. apply dot_map_zero.
    - cbn [cfr_inc]. generalize (@row RNum chance ci) as ps.
      induction IH as [|c ks Hc H IH']; intros ps; destruct ps as [|p ps];
        cbn [sum_chance]; try apply dot_map_zero.
      rewrite dot_map_plus, IH', Hc. lra.
    - cbn [cfr_inc]. rewrite dot_map_plus.
      assert (E1 : dot (sg pl i)
                     (map (fun a => if is_info pl' i' pl i
                                    then cfw pl' pc p1 p2 * node_regret chance sg kids (sg pl' i') a
                                    else 0) (seq 0 (length (sg pl i)))) = 0).
      { destruct (is_info pl' i' pl i) eqn:E; [|apply dot_map_zero].
        apply is_info_true in E as [-> ->].
        rewrite dot_map_scal, node_regret_orthogonal by assumption. lra. }
      rewrite E1, Rplus_0_l. clear E1. generalize (sg pl' i') as ss.
      induction IH as [|c ks Hc H IH']; intros ss; destruct ss as [|p ss];
        cbn [sum_player]; try apply dot_map_zero.
      rewrite dot_map_plus, IH'. destruct pl'; rewrite Hc; lra.
  Qed.
End Char2.

(** ** Part D: the state after the traversal *)
Section VrecState.
  Context (chance : list (list R)) (draw : @oracle RNum) (pass : N).

  Definition reg_ok (st : pstateR) (pl : bool) (i : nat) : Prop :=
    length (cum_regret (@ri_get RNum st pl i)) = length (strat (@ri_get RNum st pl i)).

  Lemma vrec_state_strat n pc p1 p2 (st : pstateR) pl i :
    strat (ri_get (snd (@vrec RNum chance false draw pass n pc p1 p2 st)) pl i) =
    strat (ri_get st pl i).
  Proof. rewrite vrec_incs. cbn [snd]. apply fold_incr_strat_eq. Qed.

  Lemma vrec_strat_view n pc p1 p2 (st : pstateR) :
    strat_view (snd (@vrec RNum chance false draw pass n pc p1 p2 st)) = strat_view st.
  Proof. rewrite vrec_incs. cbn [snd]. apply fold_incr_strat. Qed.

  Lemma vrec_value n pc p1 p2 (st : pstateR) :
    fst (@vrec RNum chance false draw pass n pc p1 p2 st) = uval chance (strat_view st) n.
  Proof. rewrite vrec_incs. cbn [fst]. apply vval_uval. Qed.

  Lemma vrec_state_regret_len n pc p1 p2 (st : pstateR) pl i :
    length (cum_regret (ri_get (snd (@vrec RNum chance false draw pass n pc p1 p2 st)) pl i)) =
    length (cum_regret (ri_get st pl i)).
  Proof. rewrite vrec_incs. cbn [snd]. apply fold_incr_regret_len. Qed.

  Lemma vrec_state_regret_nth n pc p1 p2 (st : pstateR) pl i a :
    (a < length (cum_regret (ri_get st pl i)))%nat ->
    nth a (cum_regret (ri_get (snd (@vrec RNum chance false draw pass n pc p1 p2 st)) pl i)) 0 =
    nth a (cum_regret (ri_get st pl i)) 0 + cfr_inc chance (strat_view st) pl i a n pc p1 p2.
  Proof.
    intros Ha. rewrite vrec_incs. cbn [snd]. rewrite fold_incr_regret_nth by assumption.
    now rewrite reg_sum_vincs.
  Qed.

  (** the three vectors of every infoset after the traversal *)
  Theorem vrec_state_regret n pc p1 p2 (st : pstateR) pl i :
    reg_ok st pl i ->
    cum_regret (ri_get (snd (@vrec RNum chance false draw pass n pc p1 p2 st)) pl i) =
    vadd (cum_regret (ri_get st pl i)) (cfr_incs chance (strat_view st) pl i n pc p1 p2).
  Proof.
    unfold reg_ok. intros E.
    assert (EL : length (cum_regret (ri_get st pl i)) =
                 length (cfr_incs chance (strat_view st) pl i n pc p1 p2)).
    { unfold cfr_incs. rewrite map_length, seq_length. exact E. }
    apply (nth_ext _ _ 0 0).
    - rewrite vrec_state_regret_len, vadd_length; auto.
    - intros a Ha. rewrite vrec_state_regret_len in Ha.
      rewrite vrec_state_regret_nth, vadd_nth by assumption. f_equal.
      unfold cfr_incs. symmetry. apply nth_map_seq. unfold strat_view. tR. lia.
  Qed.

  Theorem vrec_state_cum_strat n pc p1 p2 (st : pstateR) pl i :
    len_ok st pl i ->
    cum_strat (ri_get (snd (@vrec RNum chance false draw pass n pc p1 p2 st)) pl i) =
    vadd (cum_strat (ri_get st pl i))
         (map (fun s => cs_inc chance (strat_view st) pl i n pc p1 p2 * s)
              (strat (ri_get st pl i))).
  Proof.
    intros E. pose proof E as E'. unfold len_ok in E'.
    apply (nth_ext _ _ 0 0).
    - rewrite vrec_incs. cbn [snd]. rewrite fold_incr_cs_len by assumption.
      rewrite vadd_length; [reflexivity|]. now rewrite map_length.
    - intros a Ha. rewrite vrec_incs. cbn [snd].
      rewrite fold_incr_cs_nth by assumption. rewrite strat_sum_vincs.
      rewrite vadd_nth by (now rewrite map_length). f_equal.
      set (w := cs_inc _ _ _ _ _ _ _ _).
      replace 0 with (w * 0) at 2 by lra. now rewrite (map_nth (fun s => w * s)).
  Qed.

  (** under the state invariant the length conditions hold at every index *)
  Lemma Inv_reg_ok (st : pstateR) pl i : Inv st -> reg_ok st pl i.
  Proof.
    intros H. apply Inv_InvA in H.
    destruct (InvA_get_cases _ _ st pl i H) as [E|(a & Ha)]; unfold reg_ok.
    - rewrite E. reflexivity.
    - destruct Ha as (_ & _ & L1 & _ & L3). tR. lia.
  Qed.

  Lemma Inv_len_ok (st : pstateR) pl i : Inv st -> len_ok st pl i.
  Proof.
    intros H. apply Inv_InvA in H.
    destruct (InvA_get_cases _ _ st pl i H) as [E|(a & Ha)]; unfold len_ok.
    - rewrite E. reflexivity.
    - destruct Ha as (_ & _ & _ & L2 & L3). tR. lia.
  Qed.

  Lemma Inv_strat_sum (st : pstateR) pl i :
    Inv st -> (i < length (ps_get st pl))%nat -> Rsum (strat_view st pl i) = 1.
  Proof.
    intros [H1 H2] Hi. unfold strat_view, ri_get.
    assert (HF : Forall RInv (ps_get st pl)) by (destruct pl; assumption).
    rewrite Forall_forall in HF.
    specialize (HF (nth i (ps_get st pl) (@mkRinfo RNum [] [] [])) (nth_In _ _ Hi)).
    destruct HF as ([_ Hs] & _). exact Hs.
  Qed.

  (** combined form under [Inv] *)
  Theorem vrec_state n pc p1 p2 (st : pstateR) pl i :
    Inv st ->
    let st' := snd (@vrec RNum chance false draw pass n pc p1 p2 st) in
    let sg := strat_view st in
    cum_regret (ri_get st' pl i) =
      vadd (cum_regret (ri_get st pl i)) (cfr_incs chance sg pl i n pc p1 p2) /\
    cum_strat (ri_get st' pl i) =
      vadd (cum_strat (ri_get st pl i))
           (map (fun s => cs_inc chance sg pl i n pc p1 p2 * s) (strat (ri_get st pl i))) /\
    strat (ri_get st' pl i) = strat (ri_get st pl i).
  Proof.
    intros H. cbv zeta. split; [|split].
    - apply vrec_state_regret. now apply Inv_reg_ok.
    - apply vrec_state_cum_strat. now apply Inv_len_ok.
    - apply vrec_state_strat.
  Qed.

  (** orthogonality, for a state satisfying the invariant *)
  Corollary cfr_incs_orthogonal_Inv n pc p1 p2 (st : pstateR) pl i :
    Inv st -> (i < length (ps_get st pl))%nat ->
    dot (strat (ri_get st pl i)) (cfr_incs chance (strat_view st) pl i n pc p1 p2) = 0.
  Proof.
    intros H Hi. change (strat (ri_get st pl i)) with (strat_view st pl i).
    apply cfr_inc_orthogonal. now apply Inv_strat_sum.
  Qed.
End VrecState.

(** ** Part E: the [advance] step *)

(** maximum of a list ([Iterator::reduce(f64::max)], 0 for the empty list) *)
Definition Rmaxl (l : list R) : R := match @reduce_max RNum l with Some m => m | None => 0 end.

(** the bound contribution of an infoset, as a function of its (new) cumulative regret *)
Definition info_bound (it : N) (ri : rinfoR) : R :=
  2 * Rmax (Rmaxl (cum_regret ri)) 0 / INR (N.to_nat it).

Lemma cum_regret_bound_eq it (cr : list R) :
  @cum_regret_bound RNum it cr = 2 * Rmax (Rmaxl cr) 0 / INR (N.to_nat it).
Proof. unfold cum_regret_bound, two, Rmaxl. cbn [div mul add one zero fmax of_N RNum]. reflexivity. Qed.

Lemma advance_bound (p : paramsR) it ia ri :
  snd (@advance RNum p it ia ri) = info_bound it (fst (@advance RNum p it ia ri)).
Proof. unfold advance, info_bound. cbn [fst snd cum_regret]. apply cum_regret_bound_eq. Qed.

Lemma advance_all_map (p : paramsR) it ia l (acc : R) :
  @advance_all RNum p it ia l acc =
  (map (fun ri => fst (@advance RNum p it ia ri)) l,
   acc + Rsum (map (fun ri => snd (@advance RNum p it ia ri)) l)).
Proof.
  revert acc; induction l as [|ri l IH]; intros acc.
  - cbn [advance_all map Rsum]. f_equal. lra.
  - rewrite advance_all_cons, IH. cbn [fst snd map Rsum]. f_equal. lra.
Qed.

Lemma advance_all_bound_eq (p : paramsR) it ia l :
  snd (@advance_all RNum p it ia l 0) =
  Rsum (map (info_bound it) (fst (@advance_all RNum p it ia l 0))).
Proof.
  rewrite advance_all_map. cbn [fst snd]. rewrite map_map, Rplus_0_l. f_equal;
    try (apply map_ext; intros ri; apply advance_bound).
Qed.

(** for every [params] the returned bounds are read off the new state *)
Theorem vanilla_iter_bounds (g : gameR) sampled draw (p : paramsR) it st :
  let res := @vanilla_iter RNum g sampled draw p it st in
  snd res = (Rsum (map (info_bound it) (fst (fst res))),
             Rsum (map (info_bound it) (snd (fst res)))).
Proof.
  cbv zeta. rewrite vanilla_iter_eq. cbv zeta. cbn [fst snd].
  now rewrite !advance_all_bound_eq.
Qed.

(** vanilla [params]: no discounting *)
Lemma Rltb_irrefl x : Rltb x x = false.
Proof. apply Rltb_false. lra. Qed.

Lemma discount_cum_regret_vanilla it (cr : list R) :
  @discount_cum_regret RNum (@p_vanilla RNum) it cr = cr.
Proof.
  unfold discount_cum_regret, p_vanilla. cbn [a_pos a_neg gen_discount].
  induction cr as [|x cr IH]; cbn [map]; [reflexivity|]. rewrite IH. f_equal.
  cbn [ltb mul zero one RNum]. destruct (Rltb 0 x); [lra|]. destruct (Rltb x 0); lra.
Qed.

Lemma discount_average_strat_vanilla it (avg : list R) :
  @discount_average_strat RNum (@p_vanilla RNum) it avg = avg.
Proof.
  unfold discount_average_strat, p_vanilla. cbn [a_strat].
  change (ltb RNum (zero RNum) (zero RNum)) with (Rltb 0 0). now rewrite Rltb_irrefl.
Qed.

Definition adv_vanilla (ri : rinfoR) : rinfoR :=
  @mkRinfo RNum (cum_regret ri) (cum_strat ri)
           (@regret_match RNum (@p_vanilla RNum) (cum_regret ri)).

Lemma advance_vanilla it ia (ri : rinfoR) :
  fst (@advance RNum (@p_vanilla RNum) it ia ri) = adv_vanilla ri.
Proof.
  unfold advance, adv_vanilla. cbn [fst].
  now rewrite discount_cum_regret_vanilla, discount_average_strat_vanilla.
Qed.

Lemma info_bound_adv it ri : info_bound it (adv_vanilla ri) = info_bound it ri.
Proof. reflexivity. Qed.

(** one unsampled iteration with vanilla [params]: the traversal, then regret
    matching; [cum_regret] and [cum_strat] are those left by the traversal *)
Theorem vanilla_iter_state (g : gameR) sampled draw it (st : pstateR) :
  @vanilla_iter RNum g sampled draw (@p_vanilla RNum) it st =
  let st1 := snd (@vrec RNum (g_chance g) sampled draw (it - 1)%N (g_root g) 1 1 1 st) in
  ((map adv_vanilla (fst st1), map adv_vanilla (snd st1)),
   (Rsum (map (info_bound it) (fst st1)), Rsum (map (info_bound it) (snd st1)))).
Proof.
  rewrite vanilla_iter_eq. cbv zeta. rewrite !advance_all_map. cbn [fst snd].
  rewrite !Rplus_0_l.
  assert (E1 : forall l, map (fun ri => fst (@advance RNum (@p_vanilla RNum) it it ri)) l =
                         map adv_vanilla l).
  { intros l. apply map_ext. intros ri. apply advance_vanilla. }
  assert (E2 : forall l, map (fun ri => snd (@advance RNum (@p_vanilla RNum) it it ri)) l =
                         map (info_bound it) l).
  { intros l. apply map_ext. intros ri. rewrite advance_bound, advance_vanilla.
    apply info_bound_adv. }
  now rewrite !E1, !E2.
Qed.

Lemma fold_incr_len (l : list incrR) (st : pstateR) pl :
  length (ps_get (fold_left apply_incr l st) pl) = length (ps_get st pl).
Proof.
  revert st; induction l as [|x l IH]; intros st; cbn [fold_left]; [reflexivity|].
  rewrite IH. apply apply_incr_len.
Qed.

Lemma vrec_len chance sampled draw pass n pc p1 p2 (st : pstateR) pl :
  length (ps_get (snd (@vrec RNum chance sampled draw pass n pc p1 p2 st)) pl) =
  length (ps_get st pl).
Proof. rewrite vrec_incs. cbn [snd]. apply fold_incr_len. Qed.

Lemma ri_get_map (f : rinfoR -> rinfoR) (st : pstateR) pl i :
  (i < length (ps_get st pl))%nat ->
  @ri_get RNum (map f (fst st), map f (snd st)) pl i = f (@ri_get RNum st pl i).
Proof.
  intros Hi. unfold ri_get, ps_get in *. destruct pl; cbn [fst snd] in *;
    rewrite (nth_indep _ _ (f (@mkRinfo RNum [] [] []))) by (now rewrite map_length);
    apply map_nth.
Qed.

(** the state of infoset [(pl, i)] after one unsampled vanilla iteration *)
Theorem vanilla_iter_infoset (g : gameR) draw it (st : pstateR) pl i :
  Inv st -> (i < length (ps_get st pl))%nat ->
  let st' := fst (@vanilla_iter RNum g false draw (@p_vanilla RNum) it st) in
  let sg := strat_view st in
  length (ps_get st' pl) = length (ps_get st pl) /\
  cum_regret (ri_get st' pl i) =
    vadd (cum_regret (ri_get st pl i)) (cfr_incs (g_chance g) sg pl i (g_root g) 1 1 1) /\
  cum_strat (ri_get st' pl i) =
    vadd (cum_strat (ri_get st pl i))
         (map (fun s => cs_inc (g_chance g) sg pl i (g_root g) 1 1 1 * s)
              (strat (ri_get st pl i))) /\
  strat (ri_get st' pl i) = @regret_match RNum (@p_vanilla RNum) (cum_regret (ri_get st' pl i)).
Proof.
  intros HI Hi. cbv zeta. rewrite vanilla_iter_state. cbv zeta. cbn [fst].
  set (st1 := snd (vrec _ _ _ _ _ _ _ _ _)).
  assert (Hlen : length (ps_get st1 pl) = length (ps_get st pl)) by apply vrec_len.
  rewrite ri_get_map by lia.
  destruct (vrec_state (g_chance g) draw (it - 1)%N (g_root g) 1 1 1 st pl i HI) as (H1 & H2 & H3).
  fold st1 in H1, H2, H3. cbn [adv_vanilla cum_regret cum_strat strat].
  split; [|split; [exact H1|split; [exact H2|reflexivity]]].
  unfold ps_get in *. destruct pl; cbn [fst snd] in *; now rewrite map_length.
Qed.
